/-
C19 / C20 ops.

Correspondence (answer = MODEL, `Model/Cmp.lean`, `Model/Translate.lean`):
  C mseq <ctx> <a> <b>                 `Miniscript::eq`                          1 / 0
  C mscmp <ctx> <a> <b>                `Miniscript::cmp`                         lt / eq / gt / PANIC
  C mshash <ctx> <a> <b>               all words fed to the hasher equal?        same / diff
  C msclone <ctx> <a>                  `Miniscript::clone`                       ast / PANIC
  C translate <ctx> <map> <a>          `translate_pk`                            ast / ERR:K<id> / ERR:H<kind>:<id> / ERR:outer / PANIC
  C msbranches <ctx> <a>               `branches()`                              ast;ast;… / -
  C msiter <ctx> <a>                   `iter().collect()`                        ast;ast;…
  C msnthchild <ctx> <n> <a>           `get_nth_child(n)`                        ast / -
  C msnthpk <ctx> <n> <a>              `get_nth_pk(n)`                           k / -
  C thrmap <k> <xs> <c>                `Threshold::map(|x| x + c)`               k|x,x,…
  C thrtranslate <k> <xs> <fail|->     `translate(|x| if x == fail Err(x) else Ok(2x+1))`   ok:k|…|calls / err:x|calls
  C thrbyindex <k> <xs> <fail|->       `translate_by_index(|i| if i == fail Err(i) else Ok(3i+1))`
  C thrpost <k> <xs> <idx> <processed> `map_from_post_order_iter`               k|… / PANIC
  C iterpk <ctx> <a>                   `iter_pk().collect()`                     k,k,… / -
  C foreachkey <ctx> <stop|-> <a>      `for_each_key(|k| k != stop)` with trace  k,k,…|1   (keys visited | result)
  C foranykey <ctx> <hit|-> <a>        `for_any_key(|k| k == hit)` with trace
  C substraw <ctx> <h:k,…|-> <a>       `substitute_raw_pkh`                      ast / PANIC

Judge (answer = SPECIFICATION applied to the implementation's outputs; `ok` or `bad:<why>`):
  J eqstruct <fam> <a> <b> <==> <cmp> <hash-equal> <display-equal> <partial_cmp>/<lt><le><gt><ge>
        ok iff (== ⇔ a,b structurally identical) ∧ (cmp = Equal ⇔ ==) ∧ (== ⇒ equal hashes)
        ∧ (== ⇔ equal string form) ∧ cmp did not panic ∧ partial_cmp = Some(cmp) and the
        operators `<` `<=` `>` `>=` agree with cmp.  For fam ∈ {bare,legacy,segwitv0,tap}
        a,b are wire ASTs and are parsed; otherwise (descriptors, policies) a,b are canonical
        strings and structural identity is string identity.
  J ordlaws <fam> <a> <b> <c> <cmp ab> <cmp bc> <cmp ac> <cmp ba>
        antisymmetry (ba = ab reversed), transitivity (through < and =), Equal ⇔ identical
  J cloneeq <fam> <a> <clone as ast/string> <clone == a>
  J translate-id <ctx> <a> <translated ast> <translated == a>
  J translate-compose <ctx> <f> <g> <a> <t_{g∘f}(a)> <t_g(t_f(a))>
  J translate-script <ctx> <map> <a> <script of a> <script of translate(map, a)>
        both scripts are recomputed with the driver's own `encode`, the second from the
        structurally substituted AST `mapKeys`
  J keys-multiset <ctx> <a> <iter_pk> <for_each_key> <keys scanned from to_string()>
Policies (`fam` = concrete | semantic; wire form with `or` weights, see Driver/PolWire.lean;
model = Model/TranslatePolicy.lean):
  C ptranslate <fam> <map> <p>         `Policy::translate_pk`               wire / ERR:K<id> / ERR:H<kind>:<id> / PANIC
  C pcmp <fam> <a> <b>                 `Ord for Policy` (Model/PolicyOrd.lean)  lt / eq / gt
  C punsat <key> <p>                   `Concrete::translate_unsatisfiable_pk`   wire / PANIC
  C pforeach <fam> <stop|-> <p>        `for_each_key(|k| k != stop)` with trace   k,k,…|1
  C pforany <fam> <hit|-> <p>          `for_any_key(|k| k == hit)` with trace
  C pkeys <p>                          `Concrete::keys()`                    k,k,… / -
  J ptranslate-id <fam> <p> <translated> <translated == p>
  J ptranslate-compose <fam> <f> <g> <p> <t_{g∘f}(p)> <t_g(t_f(p))>       both = `mapKeys (g∘f) p`
  J ptranslate-string <fam> <map> <p.to_string()> <translated.to_string()>
        the second string is the first with every key / hash token replaced by its image
        (token-wise; `map` = real: images are the real keys / hash values of the D tables)
  J punsat <key> <p> <result>          result = p with exactly the `pk(key)` leaves replaced by U
  J pkeys-multiset <fam> <p> <keys()> <for_each_key trace> <keys scanned from to_string()>
Descriptors (wire form of Driver/OpsDesc.lean; model = Model/TranslateDesc.lean):
  C dtranslate <map> <d>               `Descriptor::translate_pk`           wire / ERR:K<id> / ERR:H.. / ERR:outer
  C dforeach <stop|-> <d> / C dforany <hit|-> <d>   `Descriptor::for_each_key` / `for_any_key` with trace
  C diterpk <d>                        `Descriptor::iter_pk().collect()`     k,k,… / -
  J diterpk <d> <iter_pk> <keys scanned from to_string()>      both = keys of the printed form, in order
  J dtranslate-legal <map> <d> <answer>     refused (ERR:outer) iff the substituted descriptor is illegal
                                            (per-node `from_ast` + `check_pk` of wrapper keys), else = substituted d
  J dtranslate-script <map> <d> <script_pubkey of d> <script_pubkey of translated>   (bare/pkh/wpkh/wsh/sh)
  J dtranslate-leaves <map> <d> <leaf scripts of d> <leaf scripts of translated>     (tr)
  J desc-check <check>:<descriptor> <pass|fail>   descriptor-level self-checks of the harness
        (identity / inverse / composite translation, re-parse and script_pubkey of the
        translated descriptor, translator-call and for_each_key key multisets and order,
        Tr: leaves first, internal key last): ok iff `pass`
-/
import MsVerif.Driver.OpsMs
import MsVerif.Model.Cmp
import MsVerif.Model.Translate
import MsVerif.Driver.PolWire
import MsVerif.Model.PolicyOrd
import MsVerif.Model.TranslateDesc
import MsVerif.Model.ThresholdOps
import MsVerif.Driver.OpsDesc

namespace MsVerif.Driver
open MsVerif

/-! ### printing the wire AST -/

def joinNat (ks : List Nat) : String := ",".intercalate (ks.map toString)

mutual
def showMsAcc : Ms → String → String
  | .tru, acc => acc.push '1'
  | .fls, acc => acc.push '0'
  | .pkK k, acc => acc ++ "pk_k(" ++ toString k ++ ")"
  | .pkH k, acc => acc ++ "pk_h(" ++ toString k ++ ")"
  | .rawPkH h, acc => acc ++ "raw_pkh(" ++ toString h ++ ")"
  | .after n, acc => acc ++ "after(" ++ toString n ++ ")"
  | .older n, acc => acc ++ "older(" ++ toString n ++ ")"
  | .hash kind h, acc => acc ++ HashKind.name kind ++ "(" ++ toString h ++ ")"
  | .alt x, acc => (showMsAcc x (acc ++ "a(")).push ')'
  | .swap x, acc => (showMsAcc x (acc ++ "s(")).push ')'
  | .check x, acc => (showMsAcc x (acc ++ "c(")).push ')'
  | .dupIf x, acc => (showMsAcc x (acc ++ "d(")).push ')'
  | .verify x, acc => (showMsAcc x (acc ++ "v(")).push ')'
  | .nonZero x, acc => (showMsAcc x (acc ++ "j(")).push ')'
  | .zeroNotEqual x, acc => (showMsAcc x (acc ++ "n(")).push ')'
  | .andV l r, acc => (showMsAcc r ((showMsAcc l (acc ++ "and_v(")).push ',')).push ')'
  | .andB l r, acc => (showMsAcc r ((showMsAcc l (acc ++ "and_b(")).push ',')).push ')'
  | .orB l r, acc => (showMsAcc r ((showMsAcc l (acc ++ "or_b(")).push ',')).push ')'
  | .orD l r, acc => (showMsAcc r ((showMsAcc l (acc ++ "or_d(")).push ',')).push ')'
  | .orC l r, acc => (showMsAcc r ((showMsAcc l (acc ++ "or_c(")).push ',')).push ')'
  | .orI l r, acc => (showMsAcc r ((showMsAcc l (acc ++ "or_i(")).push ',')).push ')'
  | .andOr a b c, acc =>
    (showMsAcc c ((showMsAcc b ((showMsAcc a (acc ++ "andor(")).push ',')).push ',')).push ')'
  | .thresh k xs, acc => (showMsListAcc xs (acc ++ "thresh(" ++ toString k)).push ')'
  | .multi k ks, acc => acc ++ "multi(" ++ joinNat (k :: ks) ++ ")"
  | .sortedMulti k ks, acc => acc ++ "sortedmulti(" ++ joinNat (k :: ks) ++ ")"
  | .multiA k ks, acc => acc ++ "multi_a(" ++ joinNat (k :: ks) ++ ")"
  | .sortedMultiA k ks, acc => acc ++ "sortedmulti_a(" ++ joinNat (k :: ks) ++ ")"
def showMsListAcc : MsList → String → String
  | .nil, acc => acc
  | .cons x xs, acc => showMsListAcc xs (showMsAcc x (acc.push ','))
end

def showWire (m : Ms) : String := showMsAcc m ""

def showKeys (ks : List Nat) : String := if ks.isEmpty then "-" else joinNat ks

/-! ### atom orders used by the harness (`Miniscript<String, Ctx>`: key `i` is the string
`K%05d`, hash atom `h` the string `%064x`/`%040x`, so both sort by number; `RawPkH` is a real
`hash160::Hash`, ordered by its bytes) -/

def bytesCmp : Bytes → Bytes → Ordering
  | [], [] => .eq
  | [], _ :: _ => .lt
  | _ :: _, [] => .gt
  | a :: as, b :: bs => if a < b then .lt else if b < a then .gt else bytesCmp as bs

def atomOrd (t : Tables) : AtomOrd where
  key := natCmp
  rawPkh a b := bytesCmp (t.keyEnv.rawPkh a) (t.keyEnv.rawPkh b)
  hash _ := natCmp

def showOrd : Except Panic Ordering → String
  | .ok .lt => "lt" | .ok .eq => "eq" | .ok .gt => "gt" | .error _ => "PANIC"

/-! ### named key mappings (the same table lives in harness/src/c20.rs) -/

/-- key ids: 0..99 compressed, 100..199 uncompressed, 200..299 x-only (id mod 100 = secret) -/
def keyLegal (ctx : Ctx) (k : Key) : Bool :=
  match ctx with
  | .segwitv0 => k < 100
  | .tap => !(100 ≤ k && k < 200)
  | _ => k < 200

/-- the part of `Miniscript::from_ast` that depends on the keys: `Ctx::check_pk` on `pk_k`,
`pk_h` (since 4cd8ebfa) and on the keys of `multi`/`multi_a`, and the script size limit, as in
`check_global_consensus_validity` / `check_global_policy_validity` (`ext.pk_cost` against 520 in
Legacy, 3600 in Segwitv0, 10000 in Bare; the type rules do not depend on keys) -/
def chkCtx (env : KeyEnv) (ctx : Ctx) (ms : Ms) : Bool :=
  (match ms with
   | .pkK k | .pkH k => keyLegal ctx k
   | .multi _ ks | .sortedMulti _ ks => ctx == .tap || ks.all (keyLegal ctx)
   | .multiA _ ks | .sortedMultiA _ ks => ctx != .tap || ks.all (keyLegal ctx)
   | _ => true)
  && (match ctx with
      | .legacy => (extOf env ctx ms).pkCost ≤ 520
      | .segwitv0 => (extOf env ctx ms).pkCost ≤ 3600
      | .bare => (extOf env ctx ms).pkCost ≤ 10000
      | .tap => true)

def renKey (k : Key) : Key := k / 100 * 100 + (k % 100 + 3) % 10
def renHash (_ : HashKind) (h : Nat) : Nat := (h + 1) % 4

/-- a stateless total mapping -/
structure PureMap where
  f : Key → Key
  g : HashKind → Nat → Nat

def pureMapOf : String → Option PureMap
  | "id" => some ⟨id, fun _ h => h⟩
  | "ren" => some ⟨renKey, renHash⟩
  | "ren2" => some ⟨fun k => k / 100 * 100 + (k % 100 + 7) % 10, fun _ h => (h + 2) % 4⟩
  | "collapse" => some ⟨fun k => k % 2, fun _ h => h % 2⟩     -- not injective
  | "real" => some ⟨id, fun _ h => h⟩    -- string atoms → real keys / hashes with the same ids
  | "kcollapse" => some ⟨fun k => k / 100 * 100 + k % 2, fun _ h => h % 2⟩   -- collapsing, kind kept
  | "comp" => some ⟨fun k => k % 100, fun _ h => h⟩
  | "unc" => some ⟨fun k => k % 100 + 100, fun _ h => h⟩
  | "xonly" => some ⟨fun k => k % 100 + 200, fun _ h => h⟩
  | _ => none

/-- translator state = number of calls made so far; error = the atom being translated -/
def translatorOf (name : String) : Option (Translator Nat Atom) :=
  match pureMapOf name with
  | some m => some ⟨fun k => do modify (· + 1); pure (m.f k), fun kind h => do modify (· + 1); pure (m.g kind h)⟩
  | none =>
    match name.splitOn ":" with
    | ["fail", i] => do
      let i ← i.toNat?
      pure ⟨fun k => if k == i then throw (.translatorErr (.key k)) else pure k, fun _ h => pure h⟩
    -- every key is mapped to its uncompressed form, except key `i`, on which the translator fails
    | ["uncfail", i] => do
      let i ← i.toNat?
      pure ⟨fun k => if k == i then throw (.translatorErr (.key k)) else pure (k % 100 + 100), fun _ h => pure h⟩
    | ["failcall", n] => do
      let n ← n.toNat?
      pure ⟨fun k => do
              let c ← get
              if c == n then throw (.translatorErr (.key k)) else do set (c + 1); pure k,
            fun kind h => do
              let c ← get
              if c == n then throw (.translatorErr (.hash kind h)) else do set (c + 1); pure h⟩
    | _ => none

def showTr : Except (TrErr Atom) (Ms × Nat) → String
  | .ok (m, _) => showWire m
  | .error (.translatorErr (.key k)) => s!"ERR:K{k}"
  | .error (.translatorErr (.hash kind h)) => s!"ERR:H{HashKind.name kind}:{h}"
  | .error .outerError => "ERR:outer"
  | .error .panic => "PANIC"

/-! ### descriptors (wire form of Driver/OpsDesc.lean: `wsh(<ast>)`, `sh(wsh(<ast>))`,
`sh(wpkh(k))`, `sh(<ast>)`, `wpkh(k)`, `pkh(k)`, `bare(<ast>)`, `tr(k;depth:<ast>;…)`) -/

def showDesc : Desc.Desc → String
  | .bare ms => "bare(" ++ showWire ms ++ ")"
  | .pkh k => s!"pkh({k})"
  | .wpkh k => s!"wpkh({k})"
  | .wsh ms => "wsh(" ++ showWire ms ++ ")"
  | .sh (.wsh ms) => "sh(wsh(" ++ showWire ms ++ "))"
  | .sh (.wpkh k) => s!"sh(wpkh({k}))"
  | .sh (.ms ms) => "sh(" ++ showWire ms ++ ")"
  | .tr ik leaves =>
    "tr(" ++ toString ik ++ String.join (leaves.map fun l => ";" ++ toString l.1 ++ ":" ++ showWire l.2) ++ ")"

def showDTr : Except (TrErr Atom) (Desc.Desc × Nat) → String
  | .ok (d, _) => showDesc d
  | .error (.translatorErr (.key k)) => s!"ERR:K{k}"
  | .error (.translatorErr (.hash kind h)) => s!"ERR:H{HashKind.name kind}:{h}"
  | .error .outerError => "ERR:outer"
  | .error .panic => "PANIC"

def hexList (l : List Bytes) : String := if l.isEmpty then "-" else ",".intercalate (l.map Hash.toHexW)

def showPTr : Except (TrErr Atom) (PPol × Nat) → String
  | .ok (p, _) => showPol p
  | .error (.translatorErr (.key k)) => s!"ERR:K{k}"
  | .error (.translatorErr (.hash kind h)) => s!"ERR:H{HashKind.name kind}:{h}"
  | .error .outerError => "ERR:outer"
  | .error .panic => "PANIC"

/-- the image tokens of a map in a printed policy -/
def keyTokOf (t : Tables) (map : String) (m : PureMap) (k : Nat) : String :=
  if map == "real" then Hash.toHex (t.keyEnv.ser (m.f k)) else strKeyTok (m.f k)
def hashTokOf (t : Tables) (map : String) (m : PureMap) (kind : HashKind) (h : Nat) : String :=
  if map == "real" then Hash.toHex (t.keyEnv.hashVal kind (m.g kind h)) else strHashTok kind (m.g kind h)

def runTranslate (env : KeyEnv) (ctx : Ctx) (map : String) (m : Ms) : Option String := do
  let t ← translatorOf map
  pure (showTr ((translatePk t (chkCtx env ctx) m).run 0))

def parseRawMap (s : String) : Option (List (Nat × Nat)) :=
  if s == "-" then some [] else (s.splitOn ",").mapM parsePair

def parseOptNat (s : String) : Option (Option Nat) :=
  if s == "-" then some none else s.toNat?.map some

def showVisit (r : List Key × Bool) : String := showKeys r.1 ++ "|" ++ (if r.2 then "1" else "0")

def sortNat (l : List Nat) : List Nat := (l.toArray.qsort (· < ·)).toList

def isMsFam (fam : String) : Bool := (parseCtx fam).isSome

/-- structural identity of two inputs of family `fam` -/
def structEq (fam a b : String) : Option Bool :=
  if isMsFam fam then do
    let x ← parseAst a; let y ← parseAst b
    pure (decide (x = y))
  else some (a == b)

def flipOrd : String → String
  | "lt" => "gt" | "gt" => "lt" | s => s

/-- `a ≤ b ≤ c` chains: the composite of two results, if determined -/
def composeOrd : String → String → Option String
  | "eq", x => some x
  | x, "eq" => some x
  | "lt", "lt" => some "lt"
  | "gt", "gt" => some "gt"
  | _, _ => none

def isOrd (s : String) : Bool := s == "lt" || s == "eq" || s == "gt"

def opsCmp (t : Tables) (kind op : String) (args : List String) : Option String :=
  match kind, op, args with
  | "C", "mseq", [_ctx, a, b] => do
    let a ← parseAst a; let b ← parseAst b
    pure (if msEq a b then "1" else "0")
  | "C", "mscmp", [_ctx, a, b] => do
    let a ← parseAst a; let b ← parseAst b
    pure (showOrd (msCmp (atomOrd t) a b))
  | "C", "mshash", [_ctx, a, b] => do
    let a ← parseAst a; let b ← parseAst b
    pure (if hashWords a = hashWords b then "same" else "diff")
  | "C", "msclone", [_ctx, a] => do
    let a ← parseAst a
    pure (match msClone a with | .ok m => showWire m | .error _ => "PANIC")
  | "C", "translate", [ctx, map, a] => do
    let ctx ← parseCtx ctx; let a ← parseAst a
    runTranslate t.keyEnv ctx map a
  | "C", "msbranches", [_ctx, a] => do
    let a ← parseAst a
    pure (if a.branches.isEmpty then "-" else ";".intercalate (a.branches.map showWire))
  | "C", "msiter", [_ctx, a] => do
    let a ← parseAst a
    pure (";".intercalate (a.iterNodes.map showWire))
  | "C", "msnthchild", [_ctx, n, a] => do
    let a ← parseAst a; let n ← n.toNat?
    pure (match a.getNthChild n with | some c => showWire c | none => "-")
  | "C", "msnthpk", [_ctx, n, a] => do
    let a ← parseAst a; let n ← n.toNat?
    pure (match a.getNthPk n with | some k => toString k | none => "-")
  -- Threshold element-wise operations on plain numbers
  | "C", "thrmap", [k, xs, c] => do
    let k ← k.toNat?; let xs ← parseDepthsLike xs; let c ← c.toNat?
    let r := (Thr.mk k xs).map (· + c)
    pure (s!"{r.k}|{showKeys r.inner}")
  | "C", "thrtranslate", [k, xs, failAt] => do
    let k ← k.toNat?; let xs ← parseDepthsLike xs; let failAt ← parseOptNat failAt
    let (r, calls) := (Thr.mk k xs).translate (fun x => if some x == failAt then (.error x : Except Nat Nat) else .ok (x * 2 + 1))
    pure (match r with | .ok r => s!"ok:{r.k}|{showKeys r.inner}|{calls}" | .error e => s!"err:{e}|{calls}")
  | "C", "thrbyindex", [k, xs, failAt] => do
    let k ← k.toNat?; let xs ← parseDepthsLike xs; let failAt ← parseOptNat failAt
    let (r, calls) := (Thr.mk k xs).translateByIndex (fun i => if some i == failAt then (.error i : Except Nat Nat) else .ok (i * 3 + 1))
    pure (match r with | .ok r => s!"ok:{r.k}|{showKeys r.inner}|{calls}" | .error e => s!"err:{e}|{calls}")
  | "C", "thrpost", [k, xs, idx, processed] => do
    let k ← k.toNat?; let xs ← parseDepthsLike xs; let idx ← parseDepthsLike idx; let pr ← parseDepthsLike processed
    pure (match (Thr.mk k xs).mapFromPostOrder idx pr with | some r => s!"{r.k}|{showKeys r.inner}" | none => "PANIC")
  | "C", "iterpk", [_ctx, a] => do
    let a ← parseAst a
    pure (showKeys a.iterPkLit)
  | "C", "foreachkey", [_ctx, stop, a] => do
    let a ← parseAst a; let stop ← parseOptNat stop
    pure (showVisit (forEachKey (fun k => some k != stop) a))
  | "C", "foranykey", [_ctx, hit, a] => do
    let a ← parseAst a; let hit ← parseOptNat hit
    pure (showVisit (forAnyKey (fun k => some k == hit) a))
  | "C", "substraw", [_ctx, map, a] => do
    let a ← parseAst a; let map ← parseRawMap map
    pure (match substituteRawPkh (fun h => map.lookup h) a with | .ok m => showWire m | .error _ => "PANIC")
  | "J", "eqstruct", [fam, a, b, eq, cmp, hsh, dsp, pcmp] => do
    let same ← structEq fam a b
    let eq := eq == "1"
    -- `partial_cmp` must be `Some(cmp)` and `<`, `<=`, `>`, `>=` must be the ones `cmp` defines
    let wantPc := if cmp == "lt" then "lt/1100" else if cmp == "eq" then "eq/0101" else "gt/0011"
    pure (
      if !isOrd cmp then "bad:cmp-" ++ cmp
      else if eq != same then "bad:eq-vs-structure"
      else if (cmp == "eq") != eq then "bad:cmp-vs-eq"
      else if eq && hsh != "same" then "bad:hash"
      else if (dsp == "1") != eq then "bad:display"
      else if pcmp != wantPc then "bad:partial_cmp-" ++ pcmp
      else "ok")
  | "J", "ordlaws", [fam, a, b, c, ab, bc, ac, ba] => do
    let sab ← structEq fam a b; let sbc ← structEq fam b c; let sac ← structEq fam a c
    pure (
      if !(isOrd ab && isOrd bc && isOrd ac && isOrd ba) then "bad:panic"
      else if ba != flipOrd ab then "bad:antisymmetry"
      else if (ab == "eq") != sab || (bc == "eq") != sbc || (ac == "eq") != sac then "bad:equal-vs-structure"
      else match composeOrd ab bc with
        | some r => if ac == r then "ok" else "bad:transitivity"
        | none => "ok")
  | "J", "cloneeq", [fam, a, cl, eq] => do
    let same ← structEq fam a cl
    pure (if !same then "bad:clone-differs" else if eq != "1" then "bad:clone-not-eq" else "ok")
  | "J", "translate-id", [_ctx, a, tr, eq] => do
    let x ← parseAst a
    pure (
      match parseAst tr with
      | none => "bad:" ++ tr
      | some y => if x != y then "bad:structure" else if eq != "1" then "bad:not-eq" else "ok")
  | "J", "translate-compose", [ctx, f, g, a, comp, seq] => do
    let ctx ← parseCtx ctx; let x ← parseAst a
    let f ← pureMapOf f; let g ← pureMapOf g
    let want := showWire (x.mapKeys (g.f ∘ f.f) (fun kind h => g.g kind (f.g kind h)))
    let mid := x.mapKeys f.f f.g
    -- legality of the intermediate / final objects in this context, node by node
    let legal (m : Ms) : Bool := m.pre.all (chkCtx t.keyEnv ctx)
    let wantComp := if legal (x.mapKeys (g.f ∘ f.f) (fun kind h => g.g kind (f.g kind h))) then want else "ERR:outer"
    let wantSeq := if legal mid then wantComp else "ERR:outer"
    pure (
      if comp != wantComp then "bad:composite"
      else if seq != wantSeq then "bad:sequential"
      else "ok")
  | "J", "translate-script", [ctx, map, a, s0, s1] => do
    let ctx ← parseCtx ctx; let x ← parseAst a; let m ← pureMapOf map
    let e0 := Hash.toHexW (encodeBytes t.keyEnv ctx x)
    let e1 := Hash.toHexW (encodeBytes t.keyEnv ctx (x.mapKeys m.f m.g))
    pure (if s0 != e0 then "bad:original-script" else if s1 != e1 then "bad:translated-script" else "ok")
  | "J", "keys-multiset", [_ctx, a, it, fe, scanned] => do
    let x ← parseAst a
    let it ← parseDepthsLike it; let fe ← parseDepthsLike fe; let sc ← parseDepthsLike scanned
    let want := x.keys
    pure (
      if it != want then "bad:iter_pk"
      else if fe != want then "bad:for_each_key"
      else if sortNat sc != sortNat want then "bad:string-keys"
      else "ok")
  | "C", "ptranslate", [_fam, map, p] => do
    let p ← parsePolWire p; let tr ← translatorOf map
    pure (showPTr ((polTranslate tr p).run 0))
  | "C", "pcmp", [_fam, a, b] => do
    let a ← parsePolWire a; let b ← parsePolWire b
    pure (showOrd (.ok (polCmp (atomOrd t) a b)))
  | "C", "punsat", [key, p] => do
    let p ← parsePolWire p; let key ← key.toNat?
    pure (match translateUnsat key p with | .ok q => showPol q | .error _ => "PANIC")
  | "C", "pforeach", [_fam, stop, p] => do
    let p ← parsePolWire p; let stop ← parseOptNat stop
    pure (showVisit (polForEachKey (fun k => some k != stop) p))
  | "C", "pforany", [_fam, hit, p] => do
    let p ← parsePolWire p; let hit ← parseOptNat hit
    pure (showVisit (polForAnyKey (fun k => some k == hit) p))
  | "C", "pkeys", [p] => do
    let p ← parsePolWire p
    pure (showKeys (polKeys p))
  | "J", "ptranslate-id", [_fam, p, tr, eq] => do
    let x ← parsePolWire p
    pure (
      match parsePolWire tr with
      | none => "bad:" ++ tr
      | some y => if x != y then "bad:structure" else if eq != "1" then "bad:not-eq" else "ok")
  | "J", "ptranslate-compose", [_fam, f, g, p, comp, seq] => do
    let x ← parsePolWire p; let f ← pureMapOf f; let g ← pureMapOf g
    let want := showPol (x.mapKeys (g.f ∘ f.f) (fun kind h => g.g kind (f.g kind h)))
    pure (if comp != want then "bad:composite" else if seq != want then "bad:sequential" else "ok")
  | "J", "ptranslate-string", [_fam, map, s0, s1] => do
    let m ← pureMapOf map
    let want := substString (keyTokOf t map m) (hashTokOf t map m) s0
    pure (if s1 == want then "ok" else "bad:want-" ++ want)
  | "J", "punsat", [key, p, res] => do
    let x ← parsePolWire p; let key ← key.toNat?
    pure (if res == showPol (x.replaceKey key) then "ok" else "bad:replace")
  | "J", "pkeys-multiset", [_fam, p, ks, fe, scanned] => do
    let x ← parsePolWire p
    let ks ← parseDepthsLike ks; let fe ← parseDepthsLike fe; let sc ← parseDepthsLike scanned
    let want := x.keys
    pure (
      if ks != want then "bad:keys"
      else if fe != want then "bad:for_each_key"
      else if sc != want then "bad:string-keys"
      else "ok")
  | "C", "dtranslate", [map, d] => do
    let d ← DescOps.parseDesc d; let tr ← translatorOf map
    pure (showDTr ((Desc.descTranslate tr (chkCtx t.keyEnv) keyLegal d).run 0))
  | "C", "diterpk", [d] => do
    let d ← DescOps.parseDesc d
    pure (showKeys d.iterPk)
  | "C", "dforeach", [stop, d] => do
    let d ← DescOps.parseDesc d; let stop ← parseOptNat stop
    pure (showVisit (Desc.descForEachKey (fun k => some k != stop) d))
  | "C", "dforany", [hit, d] => do
    let d ← DescOps.parseDesc d; let hit ← parseOptNat hit
    pure (showVisit (Desc.descForAnyKey (fun k => some k == hit) d))
  -- SPEC: keys of the printed form, in order
  | "J", "diterpk", [d, it, scanned] => do
    let d ← DescOps.parseDesc d
    let it ← parseDepthsLike it; let sc ← parseDepthsLike scanned
    pure (if it != d.keysPrinted then "bad:iter_pk" else if sc != d.keysPrinted then "bad:string-keys" else "ok")
  -- SPEC: a pure mapping is refused (OuterError) iff the substituted descriptor is illegal
  | "J", "dtranslate-legal", [map, d, ans] => do
    let d ← DescOps.parseDesc d; let m ← pureMapOf map
    let d' := d.mapKeys m.f m.g
    let legal := d'.legal (chkCtx t.keyEnv) keyLegal
    pure (
      if legal then (if ans == showDesc d' then "ok" else "bad:legal-target-not-" ++ showDesc d')
      else (if ans == "ERR:outer" then "ok" else "bad:illegal-target-accepted"))
  -- SPEC: output script of the translated descriptor = encoder on the substituted shape
  | "J", "dtranslate-script", [map, d, s0, s1] => do
    let d ← DescOps.parseDesc d; let m ← pureMapOf map
    let P := DescOps.descParams t
    let e0 := Hash.toHexW (d.scriptPubkey P)
    let e1 := Hash.toHexW ((d.mapKeys m.f m.g).scriptPubkey P)
    pure (if s0 != e0 then "bad:original-script" else if s1 != e1 then "bad:translated-script" else "ok")
  | "J", "dtranslate-leaves", [map, d, l0, l1] => do
    let d ← DescOps.parseDesc d; let m ← pureMapOf map
    let P := DescOps.descParams t
    let leavesOf : Desc.Desc → List Bytes := fun d =>
      match d with | .tr _ ls => (Desc.trLeafScripts P ls).map (·.2) | _ => []
    pure (if l0 != "skip" && l0 != hexList (leavesOf d) then "bad:original-leaves"
      else if l1 != hexList (leavesOf (d.mapKeys m.f m.g)) then "bad:translated-leaves" else "ok")
  -- verdict of a structural self-check on a descriptor that was computed by the harness
  -- (identity / inverse translation, re-parse, script_pubkey, key visits): ok iff `pass`
  | "J", "desc-check", [_what, verdict] => some (if verdict == "pass" then "ok" else "bad:" ++ verdict)
  | _, _, _ => none
where
  parseDepthsLike (s : String) : Option (List Nat) :=
    if s == "-" then some [] else (s.splitOn ",").mapM String.toNat?

end MsVerif.Driver

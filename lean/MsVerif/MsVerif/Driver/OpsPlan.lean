/- C17 ops: spending plans vs the satisfier (glue model, size formulas, key-source matching,
and the judges on the implementation's plan outputs). -/
import MsVerif.Driver.OpsSpend
import MsVerif.Model.Plan

namespace MsVerif.Driver.PlanOps
open MsVerif Script Spend Plan

def parseDescType : String → Option DescType
  | "bare" => some .bare | "pkh" => some .pkh | "sh" => some .sh | "wpkh" => some .wpkh
  | "shwpkh" => some .shWpkh | "wsh" => some .wsh | "shwsh" => some .shWsh | "tr" => some .tr
  | _ => none

def parseItem (s : String) : Option Item :=
  match s.splitOn ":" with
  | ["pk", n] => n.toNat?.map fun n => .ph (.pubkey 0 n)
  | ["pkh", n] => n.toNat?.map fun n => .ph (.pubkeyHash 0 n)
  | ["sig"] => some (.ph (.ecdsaSig 0))
  | ["ssig", n] => n.toNat?.map fun n => .ph (.schnorrSig 0 n)
  | ["pre"] => some (.ph (.preimage .sha256 0))
  | ["z32"] => some (.ph .hashDissat)
  | ["1"] => some (.ph .pushOne)
  | ["0"] => some (.ph .pushZero)
  | ["ts", n] => n.toNat?.map .tapScript
  | ["cb", n] => n.toNat?.map .tapControl
  | _ => none

def parsePath (s : String) : Option (List Nat) := (splitItems s).mapM String.toNat?

def showWit (w : List Bytes) : String :=
  if w.isEmpty then "." else ",".intercalate (w.map Hash.toHexW)

def showPair (p : List Bytes × Bytes) : String := showWit p.1 ++ "/" ++ Hash.toHexW p.2

/-- the items a push-only script leaves, bottom first (`none` if not push-only) -/
def pushedItems (ss : Bytes) : Option (List Bytes) :=
  match parse ss with
  | none => none
  | some ops => ops.mapM fun o =>
    match o with
    | .bad 0x4f => some [0x81]
    | o => o.pushed?

end MsVerif.Driver.PlanOps

namespace MsVerif.Driver
open MsVerif Script Spend Plan PlanOps

def opsPlan (_t : Tables) (kind op : String) (args : List String) : Option String :=
  match kind, op, args with
  -- model of `Assets::has_ecdsa_key` / `is_key_direct_child_of` on one key source
  | "C", "assetsquery", [kfp, kpath, sfp, spath, ecdsa] => do
    let kp ← parsePath kpath; let sp ← parsePath spath
    let fpNat := fun (s : String) => (s.toList.foldl (fun a c => a * 256 + c.toNat) 0)
    pure (if hasEcdsaKey (fpNat kfp) kp [⟨fpNat sfp, sp, ecdsa == "1"⟩] then "true" else "false")
  -- model of Plan::{witness_size, scriptsig_size, satisfaction_weight}
  -- C plansize <type> <template> <length of explicit_script()>
  | "C", "plansize", [ty, tmpl, scriptLen] => do
    let ty ← parseDescType ty; let n ← scriptLen.toNat?
    let t ← (splitItems tmpl).mapM parseItem
    pure s!"{Plan.witnessSize ty t} {Plan.scriptsigSize ty t n} {Plan.satisfactionWeight ty t n}"
  -- model of the two assemblies from the completed stack
  | "C", "planglue", [ty, script, inner, stack] => do
    let ty ← parseDescType ty
    let script ← Hash.ofHex script; let inner ← Hash.ofHex inner; let stack ← parseHexList stack
    let d : DescData := ⟨ty, script, inner⟩
    pure s!"P:{showPair (planSatisfy d stack)} G:{showPair (getSatisfaction d stack)}"
  -- (a) J plan-iff-sat <tag> <mode> <desc> <assets> <plan: some|none> <satisfier: some|none>
  | "J", "plan-iff-sat", [_tag, _mode, _desc, _assets, p, s] =>
    pure (if p == s then "ok"
          else if p == "some" then "bad:plan-exists-but-satisfier-fails"
          else "bad:satisfier-succeeds-but-no-plan")
  -- (b) J plan-same <tag> <mode> <desc> <assets> <plan wit> <plan scriptSig> <sat wit> <sat scriptSig>
  | "J", "plan-same", [_tag, _mode, _desc, _assets, pw, pss, sw, sss] =>
    if pw == "planerr" then
      pure "bad:plan-exists-but-cannot-be-completed-by-the-same-satisfier"
    else do
      let pw ← parseHexList pw; let pss ← Hash.ofHex pss
      let sw ← parseHexList sw; let sss ← Hash.ofHex sss
      pure (if pw != sw then "bad:witness-differs"
            else if pss == sss then "ok"
            else match pushedItems pss, pushedItems sss with
              | some a, some b =>
                if a == b then "bad:scriptsig-same-items-different-push-encoding"
                else if a == b.dropLast then "bad:scriptsig-lacks-last-push(redeem-script)"
                else "bad:scriptsig-differs"
              | _, _ => "bad:scriptsig-differs")
  -- (e) J sizes <tag> <mode> <desc> <assets> <claimed wit> <claimed scriptSig> <claimed weight> <real wit> <real scriptSig>
  | "J", "sizes-adj", [_tag, _mode, _desc, _assets, cw, css, cwt, mw, mss, _discount] => do
    let cw ← cw.toNat?; let css ← css.toNat?; let cwt ← cwt.toNat?
    let mw ← mw.toNat?; let mss ← mss.toNat?
    pure (if cw < mw then s!"bad:witness_size-{cw}-below-real-{mw}"
          else if css < mss then s!"bad:scriptsig_size-{css}-below-real-{mss}"
          else if cwt < mw + 4 * mss then s!"bad:satisfaction_weight-{cwt}-below-real-{mw + 4 * mss}"
          else "ok")
  | "J", "sizes", [_tag, _mode, _desc, _assets, cw, css, cwt, mw, mss] => do
    let cw ← cw.toNat?; let css ← css.toNat?; let cwt ← cwt.toNat?
    let mw ← mw.toNat?; let mss ← mss.toNat?
    pure (if cw < mw then s!"bad:witness_size-{cw}-below-real-{mw}"
          else if css < mss then s!"bad:scriptsig_size-{css}-below-real-{mss}"
          else if cwt < mw + 4 * mss then s!"bad:satisfaction_weight-{cwt}-below-real-{mw + 4 * mss}"
          else "ok")
  | _, _, _ => none

end MsVerif.Driver

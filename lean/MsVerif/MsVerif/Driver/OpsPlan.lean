/- C17 ops: spending plans vs the satisfier (glue model, size formulas, key-source matching,
and the judges on the implementation's plan outputs). -/
import MsVerif.Driver.OpsSpend
import MsVerif.Model.Plan
import MsVerif.Spec.TapHash

namespace MsVerif.Driver.PlanOps
open MsVerif Script Spend Plan

def parseDescType : String → Option DescType
  | "bare" => some .bare | "pkh" => some .pkh | "sh" => some .sh | "wpkh" => some .wpkh
  | "shwpkh" => some .shWpkh | "wsh" => some .wsh | "shwsh" => some .shWsh | "tr" => some .tr
  | _ => none

def parseItem (s : String) : Option Item :=
  match s.splitOn ":" with
  | ["pk", n] => n.toNat?.map fun n => .ph (.pubkey 0 n)
  | ["pkh", n] => n.toNat?.map fun n => .ph (.pubkeyHash 0 n)
  | ["sig"] => some (.ph (.ecdsaSig 0))
  | ["ssig", n] => n.toNat?.map fun n => .ph (.schnorrSig 0 n)
  | ["pre"] => some (.ph (.preimage .sha256 0))
  | ["z32"] => some (.ph .hashDissat)
  | ["1"] => some (.ph .pushOne)
  | ["0"] => some (.ph .pushZero)
  | ["ts", n] => n.toNat?.map .tapScript
  | ["cb", n] => n.toNat?.map .tapControl
  | _ => none

def parsePath (s : String) : Option (List Nat) := (splitItems s).mapM String.toNat?

def showWit (w : List Bytes) : String :=
  if w.isEmpty then "." else ",".intercalate (w.map Hash.toHexW)

def showPair (p : List Bytes × Bytes) : String := showWit p.1 ++ "/" ++ Hash.toHexW p.2

/-- the items a push-only script leaves, bottom first (`none` if not push-only) -/
def pushedItems (ss : Bytes) : Option (List Bytes) :=
  match parse ss with
  | none => none
  | some ops => ops.mapM fun o =>
    match o with
    | .bad 0x4f => some [0x81]
    | o => o.pushed?

/-- `<type>.<class>` or `<class>.<type>.<class>` ↦ the descriptor type -/
def tagTypeOf (tag : String) : Option DescType :=
  (tag.splitOn ".").findSome? parseDescType

def kvGet (fields : List String) (k : String) : Option String :=
  fields.findSome? fun f => if f.startsWith (k ++ "=") then some ((f.drop (k.length + 1)).toString) else none

def p2shSpk (h : Bytes) : Bytes := [0xa9, 0x14] ++ h ++ [0x87]
def p2wshSpk (h : Bytes) : Bytes := [0x00, 0x20] ++ h

/-- the scripts `Plan::update_psbt_input` must record, judged against the scriptPubKey and the
witness / scriptSig the plan produced -/
def psbtScriptsVerdict (ty : DescType) (spk pss : Bytes) (pwit : List Bytes)
    (path ikx tw ts mr ik ws rs : String) : String :=
  let none_ (name v : String) : Option String := if v == "-" then none else some ("bad:" ++ name ++ "-must-be-absent")
  let firstBad (l : List (Option String)) : String := (l.findSome? id).getD "ok"
  match ty with
  | .bare | .pkh | .wpkh =>
    firstBad [none_ "witness_script" ws, none_ "redeem_script" rs, none_ "tap_scripts" ts, none_ "tap_merkle_root" mr, none_ "tap_internal_key" ik]
  | .sh =>
    match Hash.ofHex rs, pushedItems pss with
    | some r, some items =>
      firstBad [none_ "witness_script" ws, none_ "tap_scripts" ts,
        if rs == "-" then some "bad:redeem_script-missing" else none,
        if p2shSpk (Hash.hash160 r) != spk then some "bad:redeem_script-does-not-hash-to-spk" else none,
        if items.getLast? != some r then some "bad:redeem_script-is-not-the-last-push" else none]
    | _, _ => "bad:unparseable"
  | .wsh =>
    match Hash.ofHex ws with
    | some w =>
      firstBad [none_ "redeem_script" rs, none_ "tap_scripts" ts,
        if ws == "-" then some "bad:witness_script-missing" else none,
        if p2wshSpk (Hash.sha256 w) != spk then some "bad:witness_script-does-not-hash-to-spk" else none,
        if pwit.getLast? != some w then some "bad:witness_script-is-not-the-last-witness-item" else none]
    | none => "bad:unparseable"
  | .shWsh =>
    match Hash.ofHex ws, Hash.ofHex rs with
    | some w, some r =>
      firstBad [none_ "tap_scripts" ts,
        if ws == "-" || rs == "-" then some "bad:script-missing" else none,
        if r != p2wshSpk (Hash.sha256 w) then some "bad:redeem_script-is-not-p2wsh-of-witness_script" else none,
        if p2shSpk (Hash.hash160 r) != spk then some "bad:redeem_script-does-not-hash-to-spk" else none,
        if pwit.getLast? != some w then some "bad:witness_script-is-not-the-last-witness-item" else none]
    | _, _ => "bad:unparseable"
  | .shWpkh =>
    match Hash.ofHex rs with
    | some r =>
      firstBad [none_ "witness_script" ws, none_ "tap_scripts" ts,
        if r.length != 22 || r.take 2 != [0x00, 0x14] then some "bad:redeem_script-is-not-p2wpkh" else none,
        if p2shSpk (Hash.hash160 r) != spk then some "bad:redeem_script-does-not-hash-to-spk" else none]
    | none => "bad:unparseable"
  | .tr =>
    if tw != "1" then "bad:output-key-is-not-internal-key-tweaked-by-tap_merkle_root" else
    if ws != "-" || rs != "-" then "bad:script-fields-on-taproot-input" else
    if path == "key" then
      firstBad [none_ "tap_scripts" ts, if ik != ikx then some "bad:tap_internal_key-wrong-or-missing" else none]
    else
      match pwit.reverse with
      | cb :: script :: _ =>
        match TapHash.parseControl cb with
        | none => "bad:control-block"
        | some c =>
          firstBad [
            if ts != Hash.toHex cb ++ ":" ++ Hash.toHexW script ++ ":c0" then some "bad:tap_scripts-is-not-exactly-the-used-leaf" else none,
            if Hash.toHex c.internalKey != ikx then some "bad:control-block-internal-key" else none,
            if mr != Hash.toHex (TapHash.controlRoot c script) then some "bad:tap_merkle_root-is-not-the-root-the-control-block-commits-to" else none,
            if ik != "-" && ik != ikx then some "bad:tap_internal_key-wrong" else none]
      | _ => "bad:script-path-witness-shape"

end MsVerif.Driver.PlanOps

namespace MsVerif.Driver
open MsVerif Script Spend Plan PlanOps

def opsPlan (_t : Tables) (kind op : String) (args : List String) : Option String :=
  match kind, op, args with
  -- model of `Assets::has_ecdsa_key` / `is_key_direct_child_of` on one key source
  | "C", "assetsquery", [kfp, kpath, sfp, spath, ecdsa] => do
    let kp ← parsePath kpath; let sp ← parsePath spath
    let fpNat := fun (s : String) => (s.toList.foldl (fun a c => a * 256 + c.toNat) 0)
    pure (if hasEcdsaKey (fpNat kfp) kp [⟨fpNat sfp, sp, ecdsa == "1"⟩] then "true" else "false")
  -- model of Plan::{witness_size, scriptsig_size, satisfaction_weight}
  -- C plansize <type> <template> <length of explicit_script()>
  | "C", "plansize", [ty, tmpl, scriptLen] => do
    let ty ← parseDescType ty; let n ← scriptLen.toNat?
    let t ← (splitItems tmpl).mapM parseItem
    pure s!"{Plan.witnessSize ty t} {Plan.scriptsigSize ty t n} {Plan.satisfactionWeight ty t n}"
  -- model of the two assemblies from the completed stack
  | "C", "planglue", [ty, script, inner, stack] => do
    let ty ← parseDescType ty
    let script ← Hash.ofHex script; let inner ← Hash.ofHex inner; let stack ← parseHexList stack
    let d : DescData := ⟨ty, script, inner⟩
    pure s!"P:{showPair (planSatisfy d stack)} G:{showPair (getSatisfaction d stack)}"
  -- (a) J plan-iff-sat <tag> <mode> <desc> <assets> <plan: some|none> <satisfier: some|none>
  | "J", "plan-iff-sat", [_tag, _mode, _desc, _assets, p, s] =>
    pure (if p == s then "ok"
          else if p == "some" then "bad:plan-exists-but-satisfier-fails"
          else "bad:satisfier-succeeds-but-no-plan")
  -- (b) J plan-same <tag> <mode> <desc> <assets> <plan wit> <plan scriptSig> <sat wit> <sat scriptSig>
  | "J", "plan-same", [_tag, _mode, _desc, _assets, pw, pss, sw, sss] =>
    if pw == "planerr" then
      pure "bad:plan-exists-but-cannot-be-completed-by-the-same-satisfier"
    else do
      let pw ← parseHexList pw; let pss ← Hash.ofHex pss
      let sw ← parseHexList sw; let sss ← Hash.ofHex sss
      pure (if pw != sw then "bad:witness-differs"
            else if pss == sss then "ok"
            else match pushedItems pss, pushedItems sss with
              | some a, some b =>
                if a == b then "bad:scriptsig-same-items-different-push-encoding"
                else if a == b.dropLast then "bad:scriptsig-lacks-last-push(redeem-script)"
                else "bad:scriptsig-differs"
              | _, _ => "bad:scriptsig-differs")
  -- (e) J sizes <tag> <mode> <desc> <assets> <claimed wit> <claimed scriptSig> <claimed weight> <real wit> <real scriptSig>
  | "J", "sizes-adj", [_tag, _mode, _desc, _assets, cw, css, cwt, mw, mss, _discount] => do
    let cw ← cw.toNat?; let css ← css.toNat?; let cwt ← cwt.toNat?
    let mw ← mw.toNat?; let mss ← mss.toNat?
    pure (if cw < mw then s!"bad:witness_size-{cw}-below-real-{mw}"
          else if css < mss then s!"bad:scriptsig_size-{css}-below-real-{mss}"
          else if cwt < mw + 4 * mss then s!"bad:satisfaction_weight-{cwt}-below-real-{mw + 4 * mss}"
          else "ok")
  | "J", "sizes", [_tag, _mode, _desc, _assets, cw, css, cwt, mw, mss] => do
    let cw ← cw.toNat?; let css ← css.toNat?; let cwt ← cwt.toNat?
    let mw ← mw.toNat?; let mss ← mss.toNat?
    pure (if cw < mw then s!"bad:witness_size-{cw}-below-real-{mw}"
          else if css < mss then s!"bad:scriptsig_size-{css}-below-real-{mss}"
          else if cwt < mw + 4 * mss then s!"bad:satisfaction_weight-{cwt}-below-real-{mw + 4 * mss}"
          else "ok")
  -- Err(desc) of into_plan hands the original descriptor back
  | "J", "planerr-desc", [_mode, _assets, orig, returned, eq] =>
    pure (if orig == returned && eq == "eq=1" then "ok" else "bad:into_plan-Err-does-not-carry-the-original-descriptor")
  -- plan / plan_mall are aliases of into_plan / into_plan_mall
  | "J", "plan-alias", [_ty, _mode, _desc, _assets, a, b] =>
    pure (if a == b then "ok" else "bad:deprecated-plan-differs-from-into_plan")
  -- Assets vs an equivalent Satisfier through `impl AssetProvider for Satisfier`
  | "J", "plan-provider-same", [_ty, _mode, _desc, _assets, a, b] =>
    pure (if a == b then "ok"
          else if a == "none" then "bad:satisfier-provider-plans-but-assets-do-not"
          else if b == "none" then "bad:assets-plan-but-satisfier-provider-does-not"
          else "bad:plans-differ")
  -- J tmpl-items <tag> <mode> <desc> <assets> <template> <w|s> <expected item count> <extra> <actual lengths>
  | "J", "tmpl-items", [_tag, _mode, _desc, _assets, tmpl, _kind, count, _extra, lens] => do
    let t ← (splitItems tmpl).mapM parseItem
    let count ← count.toNat?
    let ls ← (splitItems lens).mapM String.toNat?
    pure (if ls.length != count then s!"bad:{ls.length}-items-produced-for-{count}-expected"
          else match (t.zip ls).find? (fun p => !p.1.fits p.2) with
            | some (_, l) => s!"bad:item-of-length-{l}-does-not-fit-its-placeholder"
            | none => "ok")
  -- J tr-choice <tag> <mode> <desc> <assets> key=<0|1> <key|script|none> <chosen size> <size per leaf | ->
  | "J", "tr-choice", [_tag, _mode, _desc, _assets, key, kind, chosen, sizes] => do
    let avail := (sizes.splitOn ",").filterMap String.toNat?
    pure (if key == "key=1" then (if kind == "key" then "ok" else "bad:key-path-available-but-not-chosen")
          else match avail with
            | [] => if kind == "none" then "ok" else "bad:plan-although-no-path-is-available"
            | a :: as =>
              let m := as.foldl min a
              if kind != "script" then "bad:script-path-available-but-" ++ kind ++ "-chosen"
              else if chosen.toNat? == some m then "ok" else s!"bad:chosen-{chosen}-but-cheapest-leaf-is-{m}")
  | "J", "psbt-keys", [_tag, _mode, _desc, _assets, a, e] =>
    pure (if a.drop 2 == e.drop 2 then "ok" else "bad:key-origins-written-differ-from-the-keys-the-plan-needs")
  | "J", "psbt-leafhashes", [_tag, _mode, _desc, _assets, a, e] =>
    pure (if a.drop 2 == e.drop 2 then "ok" else "bad:tap_key_origins-leaf-hashes")
  | "J", "psbt-scripts", tag :: _mode :: _desc :: _assets :: spk :: pss :: pwit :: fields => do
    let ty ← tagTypeOf tag
    let spk ← Hash.ofHex spk; let pss ← Hash.ofHex pss; let pwit ← parseHexList pwit
    let g := fun k => (kvGet fields k).getD "?"
    pure (psbtScriptsVerdict ty spk pss pwit (g "path") (g "ikx") (g "tw") (g "ts") (g "mr") (g "ik") (g "ws") (g "rs"))
  -- LoggerAssetProvider delegates every query to the Assets it wraps
  | "J", "plan-logger-same", [_ty, _mode, _desc, _assets, a, b] =>
    pure (if a == b then "ok" else "bad:plan-through-LoggerAssetProvider-differs")
  -- R4 used objects / construction order: the plan is a function of the descriptor's VALUE and
  -- the assets' VALUE, and completing a plan is a function of the plan and the satisfier
  | "J", "plan-fresh-same", [_ty, _mode, _desc, _assets, a, b] =>
    pure (if a == b then "ok" else "bad:plan-of-a-freshly-built-descriptor-differs-from-the-used-one")
  | "J", "plan-assets-order-same", [_ty, _mode, _desc, _assets, a, b] =>
    pure (if a == b then "ok" else "bad:plan-depends-on-how-the-assets-were-assembled")
  | "J", "plan-reuse-same", [_tag, _mode, _desc, _assets, which, a, b] =>
    pure (if a == b then "ok" else "bad:Plan::satisfy-differs-on-" ++ which)
  -- an input updated by two plans and given both plans' signatures must finalize
  | "J", "psbt-finalizes", [_tag, _mode, _desc, _which, res] =>
    pure (if res == "ok" then "ok" else "bad:psbt-updated-by-plans-does-not-finalize:" ++ res)
  | "J", "psbt-finalize", [_tag, _mode, _desc, _assets, res, fw, fs, pw, pss] =>
    pure (if res != "ok" then "bad:updated-and-signed-psbt-does-not-finalize:" ++ res
          else if fw != pw then "bad:finalized-witness-differs-from-Plan::satisfy"
          else if fs != pss then "bad:finalized-scriptSig-differs-from-Plan::satisfy"
          else "ok")
  | _, _, _ => none

end MsVerif.Driver

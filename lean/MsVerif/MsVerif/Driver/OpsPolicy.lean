/-
C18 ops: policy algebra (model, `C` lines) and truth-table / selection judges (`J` lines).

Wire format of policies (no spaces, canonical on both sides):
  abstract  P ::= UNSATISFIABLE | TRIVIAL | pk(N) | after(N) | older(N) | sha256(N) | hash256(N)
                | ripemd160(N) | hash160(N) | thresh(K,P,…,P)
  concrete  C ::= <the same leaves> | and(C,…,C) | or(W@C,…,W@C) | thresh(K,C,…,C)
`and`/`or` never occur in abstract policies on the wire (the Rust prints k-of-k as `and`; the
harness has its own printer), so a 1-child threshold is just `thresh(1,pk(0))`.
-/
import MsVerif.Model.Concrete

namespace MsVerif.Driver.PolicyOps
open MsVerif.Pol

/-- generic expression tree `name(arg,…,arg)` -/
inductive ETree
  | node (name : String) (args : List ETree)
  deriving Inhabited

/-- strip the `W@` weight prefix of an `or` branch (weights have no meaning for C18) -/
def stripWeight (name : String) : String :=
  match name.splitOn "@" with
  | [_, n] => n
  | _ => name

def isDelim (c : Char) : Bool := c == '(' || c == ')' || c == ','

mutual
/-- parse one tree; fuel = number of characters -/
def parseETree : Nat → List Char → Option (ETree × List Char)
  | 0, _ => none
  | fuel + 1, cs =>
    let name := stripWeight (String.ofList (cs.takeWhile (fun c => !isDelim c)))
    let rest := cs.dropWhile (fun c => !isDelim c)
    match rest with
    | '(' :: ')' :: rest' => some (.node name [], rest')
    | '(' :: rest' =>
      match parseEArgs fuel rest' with
      | some (args, rest'') => some (.node name args, rest'')
      | none => none
    | _ => if name.isEmpty then none else some (.node name [], rest)
/-- parse `arg,…,arg)` -/
def parseEArgs : Nat → List Char → Option (List ETree × List Char)
  | 0, _ => none
  | fuel + 1, cs =>
    match parseETree fuel cs with
    | some (t, ',' :: rest) =>
      match parseEArgs fuel rest with
      | some (ts, rest') => some (t :: ts, rest')
      | none => none
    | some (t, ')' :: rest) => some ([t], rest)
    | _ => none
end

def parseTreeStr (s : String) : Option ETree :=
  let cs := s.toList
  match parseETree (cs.length + 1) cs with
  | some (t, []) => some t
  | _ => none

def leafNum : List ETree → Option Nat
  | [.node n []] => n.toNat?
  | _ => none

def atomOf (name : String) (args : List ETree) : Option Atom :=
  match name with
  | "pk" => (leafNum args).map .key
  | "after" => (leafNum args).map .after
  | "older" => (leafNum args).map .older
  | "sha256" => (leafNum args).map (.hash .sha256)
  | "hash256" => (leafNum args).map (.hash .hash256)
  | "ripemd160" => (leafNum args).map (.hash .ripemd160)
  | "hash160" => (leafNum args).map (.hash .hash160)
  | _ => none

mutual
def toPolicy : ETree → Option Policy
  | .node "UNSATISFIABLE" [] => some .unsat
  | .node "TRIVIAL" [] => some .trivial
  | .node "thresh" (.node k [] :: args) =>
    match k.toNat?, toPolicyList args with
    | some k, some ps => some (.thresh k ps)
    | _, _ => none
  | .node name args => (atomOf name args).map .atom
def toPolicyList : List ETree → Option (List Policy)
  | [] => some []
  | t :: ts =>
    match toPolicy t, toPolicyList ts with
    | some p, some ps => some (p :: ps)
    | _, _ => none
end

mutual
def toCPolicy : ETree → Option CPolicy
  | .node "UNSATISFIABLE" [] => some .unsat
  | .node "TRIVIAL" [] => some .trivial
  | .node "and" args => (toCPolicyList args).map .and
  | .node "or" args => (toCPolicyList args).map .or
  | .node "thresh" (.node k [] :: args) =>
    match k.toNat?, toCPolicyList args with
    | some k, some ps => some (.thresh k ps)
    | _, _ => none
  | .node name args => (atomOf name args).map .atom
def toCPolicyList : List ETree → Option (List CPolicy)
  | [] => some []
  | t :: ts =>
    match toCPolicy t, toCPolicyList ts with
    | some p, some ps => some (p :: ps)
    | _, _ => none
end

def parsePolicy (s : String) : Option Policy := (parseTreeStr s).bind toPolicy
def parseCPolicy (s : String) : Option CPolicy := (parseTreeStr s).bind toCPolicy

def showAtom : Atom → String
  | .key i => s!"pk({i})"
  | .after n => s!"after({n})"
  | .older n => s!"older({n})"
  | .hash .sha256 h => s!"sha256({h})"
  | .hash .hash256 h => s!"hash256({h})"
  | .hash .ripemd160 h => s!"ripemd160({h})"
  | .hash .hash160 h => s!"hash160({h})"

mutual
def showPolicy : Policy → String
  | .unsat => "UNSATISFIABLE"
  | .trivial => "TRIVIAL"
  | .atom a => showAtom a
  | .thresh k subs => s!"thresh({k}" ++ showPolicyList subs ++ ")"
def showPolicyList : List Policy → String
  | [] => ""
  | p :: ps => "," ++ showPolicy p ++ showPolicyList ps
end

def showNats (l : List Nat) : String :=
  if l.isEmpty then "-" else String.intercalate "," (l.map toString)
def parseNats (s : String) : Option (List Nat) :=
  if s == "-" then some [] else (s.splitOn ",").mapM String.toNat?
/-- strictly ascending -/
def ascOnce : List Nat → Bool
  | x :: y :: rest => decide (x < y) && ascOnce (y :: rest)
  | _ => true
def sameNats (a b : List Nat) : Bool := a.all b.contains && b.all a.contains

def showOptNat : Option Nat → String
  | none => "none"
  | some n => toString n

def showEnt : Sem.EntRes → String
  | .none => "none"
  | .some true => "true"
  | .some false => "false"
  | .outOfFuel => "FUEL"

def showLift : Conc.LiftRes → String
  | .ok p => showPolicy p
  | .err => "ERR"
  | .errThreshold => "ERRTHRESH"

def okbadP (b : Bool) : String := if b then "ok" else "bad"

def optLe : Option Nat → Option Nat → Bool
  | some a, some b => a ≤ b
  | none, none => true
  | _, _ => false

/-- `older` atoms of a policy that an input of age `a` does not satisfy -/
def staleOlder (a : Nat) (q : Policy) : Bool :=
  (atomsOf q).any fun | .older t => !csvOk a t | _ => false
def staleAfter (n : Nat) (q : Policy) : Bool :=
  (atomsOf q).any fun | .after t => !cltvOk n t | _ => false

mutual
/-- canonical text up to the order of children (children's texts sorted as strings) -/
def canonStr : Policy → String
  | .thresh k subs =>
    s!"thresh({k}" ++ String.join (((canonStrList subs).mergeSort (fun a b => decide (a ≤ b))).map ("," ++ ·)) ++ ")"
  | p => showPolicy p
def canonStrList : List Policy → List String
  | [] => []
  | p :: ps => canonStr p :: canonStrList ps
end

/-- a lifted policy (or a non-timelock refusal) against the concrete policy's truth table -/
def judgeLift (c : CPolicy) (q : String) : Option String :=
  -- an `and` / `or` without children has no `Threshold`: refusing it is no wrong answer
  if q == "ERRTHRESH" then pure (okbadP (!andOrNonEmpty c))
  else if q == "PANIC" then pure "bad"
  else do
    let q ← parsePolicy q
    pure (okbadP (!hasMixedPath c
      && forallVals (atomsOfC c ++ atomsOf q) (fun v => holdsA v q == holdsC v c)))

def opsPolicy (kind op : String) (args : List String) : Option String :=
  match kind, op, args with
  -- correspondence: the model's answer
  | "C", "normalize", [p] => do let p ← parsePolicy p; pure (showPolicy (Sem.normalized p))
  | "C", "sort", [p] => do let p ← parsePolicy p; pure (showPolicy (Sem.sorted p))
  | "C", "atage", [a, p] => do
    let a ← a.toNat?; let p ← parsePolicy p; pure (showPolicy (Sem.atAge a p))
  | "C", "atlock", [n, p] => do
    let n ← n.toNat?; let p ← parsePolicy p; pure (showPolicy (Sem.atLockTime n p))
  | "C", "entails", [a, b] => do
    let a ← parsePolicy a; let b ← parsePolicy b; pure (showEnt (Sem.entails a b))
  | "C", "minkeys", [p] => do let p ← parsePolicy p; pure (showOptNat (Sem.minimumNKeys p))
  | "C", "nkeys", [p] => do let p ← parsePolicy p; pure (toString (Sem.nKeys p))
  | "C", "slift", [p] => do let p ← parsePolicy p; pure (showPolicy p)   -- `Liftable for Semantic`: clone
  | "C", "constructible", [p] => do
    let p ← parsePolicy p; pure (if Sem.constructible p then "ok" else "refused")
  | "C", "fromstr", [p] => do
    let p ← parsePolicy p; pure (if Sem.threshTextAcceptable p then "ok" else "refused")
  | "C", "cparse", [c] => do
    -- `Concrete::from_str` of a binary-and/or policy: the grammar accepts it, `check_timelocks` decides
    let c ← parseCPolicy c; pure (if Conc.checkTimelocks c then "ok" else "refused")
  | "C", "rtl", [p] => do let p ← parsePolicy p; pure (showNats (Sem.relativeTimelocks p))
  | "C", "atl", [p] => do let p ← parsePolicy p; pure (showNats (Sem.absoluteTimelocks p))
  | "C", "isconst", [p] => do
    let p ← parsePolicy p
    pure ((if Sem.isTrivial p then "1" else "0") ++ (if Sem.isUnsat p then "1" else "0"))
  | "C", "cdup", [c] => do
    let c ← parseCPolicy c; pure (if Conc.checkDuplicateKeys c then "ok" else "dup")
  | "C", "cvalid", [c] => do
    let c ← parseCPolicy c
    pure (match Conc.isValid c with | .ok => "ok" | .timelock => "timelock" | .dupKeys => "dup")
  | "J", "locks", [p, rel, abs] => do
    -- the reported lock lists are exactly the `older` / `after` values of the policy, ascending,
    -- each once (specification: the atoms of the policy)
    let p ← parsePolicy p
    let olds := (atomsOf p).filterMap fun | .older t => some t | _ => none
    let afts := (atomsOf p).filterMap fun | .after t => some t | _ => none
    let rel ← parseNats rel; let abs ← parseNats abs
    pure (okbadP (ascOnce rel && ascOnce abs && sameNats rel olds && sameNats abs afts))
  | "J", "cdup", [c, ans] => do
    -- refused iff some key occurs twice
    let c ← parseCPolicy c
    let ks := (atomsOfC c).filter Atom.isKey
    pure (okbadP ((ans == "dup") == ks.any (fun k => ks.count k > 1)))
  | "C", "clift", [c] => do let c ← parseCPolicy c; pure (showLift (Conc.lift c))
  | "C", "checktl", [c] => do
    let c ← parseCPolicy c; pure (if Conc.checkTimelocks c then "ok" else "err")
  | "C", "safenm", [c] => do
    let c ← parseCPolicy c
    let (s, m) := Conc.isSafeNonmalleable c
    pure ((if s then "1" else "0") ++ (if m then "1" else "0"))
  -- judge: the specification applied to the implementation's output
  | "J", "equiv", [p, q] => do
    let p ← parsePolicy p; let q ← parsePolicy q
    pure (okbadP (equivOn (atomsOf p ++ atomsOf q) p q))
  | "J", "nf", [_, q] => do
    -- the output of `normalized` / `at_age` / `at_lock_time` / `lift` is in normal form
    if q == "ERR" || q == "ERRTHRESH" then pure "ok" else do
    let q ← parsePolicy q
    pure (okbadP (NF q))
  | "J", "atage", [a, p, q] => do
    let a ← a.toNat?; let p ← parsePolicy p; let q ← parsePolicy q
    pure (okbadP (forallVals (atomsOf p ++ atomsOf q)
        (fun v => holdsA v q == holdsA (restrictAge a v) p) && !staleOlder a q))
  | "J", "atlock", [n, p, q] => do
    let n ← n.toNat?; let p ← parsePolicy p; let q ← parsePolicy q
    pure (okbadP (forallVals (atomsOf p ++ atomsOf q)
        (fun v => holdsA v q == holdsA (restrictLockTime n v) p) && !staleAfter n q))
  | "J", "entails", [a, b, ans] => do
    let a ← parsePolicy a; let b ← parsePolicy b
    if (atomsOf a).length > 20 then pure (okbadP (ans == "none")) else
    pure (okbadP (ans == toString (impliesOn (atomsOf a ++ atomsOf b) a b)))
  | "J", "minkeys", [p, ans] => do
    let p ← parsePolicy p
    let keys := (atomsOf p).filter Atom.isKey
    let bySel := minSigs p
    let byVal := minTrueKeys p
    -- fewest signatures over selections (one per key occurrence); when no key is repeated this
    -- is also the fewest signing keys over all satisfying assignments
    pure (okbadP (ans == showOptNat bySel
      && (if keys.eraseDups.length == keys.length then ans == showOptNat byVal
          else optLe byVal bySel)))
  | "J", "clift", [c, q] => do
    let c ← parseCPolicy c
    -- refusal with the timelock error is right iff some satisfiable path mixes height and time
    if q == "ERR" then pure (okbadP (hasMixedPath c))
    else judgeLift c q
  | "J", "safe", [c, ans] => do
    -- `signed` ⇔ every satisfaction of the policy needs a signature
    let c ← parseCPolicy c
    pure (okbadP ((ans.take 1 == "1") == isSafeSpec c))
  | "J", "nonmall-sound", [c, ans] => do
    -- `non-malleable` claimed ⇒ whatever is available, the spender has a satisfaction that no
    -- third party can replace (atoms pairwise distinct, so selections identify satisfactions)
    let c ← parseCPolicy c
    pure (okbadP (ans.drop 1 != "1" || isNonMalleableSpec c))
  | "J", "nkeys", [p, ans] => do
    let p ← parsePolicy p; pure (okbadP (ans == toString (keyOccurrences p)))
  | "J", "sortcanon", [p, p', sp, sp'] => do
    -- `sorted` is a normal form of the children's order: `p'` is `p` with children permuted,
    -- each result is a child permutation of its input, and the two results are identical
    let p ← parsePolicy p; let p' ← parsePolicy p'
    let q ← parsePolicy sp; let q' ← parsePolicy sp'
    pure (okbadP (canonStr p == canonStr p' && canonStr q == canonStr p
      && canonStr q' == canonStr p' && sp == sp'))
  | "J", "nopanic", args => pure (okbadP (args.getLast? != some "PANIC"))
  | "J", "checktl", [c, ans] => do
    let c ← parseCPolicy c; pure (okbadP ((ans == "err") == hasMixedPath c))
  | _, _, _ => none

end MsVerif.Driver.PolicyOps

namespace MsVerif.Driver
/-- entry point for `Dispatch.lean` -/
def opsPolicy (kind op : String) (args : List String) : Option String :=
  PolicyOps.opsPolicy kind op args
end MsVerif.Driver

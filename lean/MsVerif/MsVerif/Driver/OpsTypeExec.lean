/-
C06 judge: execute every enumerated fragment on a bounded set of input stacks and test each
letter of the type the LIBRARY assigned (`ms.ty`) against the observed behaviour
(`Spec/TypeSem.lean`).  These are TESTS of the ∀-claims over the enumerated stacks (and a search
for the ∃-claim `d`), not proofs; the proofs are in `Thm/C06.lean`.
-/
import MsVerif.Driver.OpsMs
import MsVerif.Spec.SatTable
import MsVerif.Spec.TypeSem
import MsVerif.Model.Validate

namespace MsVerif.Driver
open MsVerif Script TypeSem

mutual
def msKeys : Ms → List Key
  | .pkK k | .pkH k => [k]
  | .multi _ ks | .sortedMulti _ ks | .multiA _ ks | .sortedMultiA _ ks => ks
  | .alt x | .swap x | .check x | .dupIf x | .verify x | .nonZero x | .zeroNotEqual x => msKeys x
  | .andV l r | .andB l r | .orB l r | .orD l r | .orC l r | .orI l r => msKeys l ++ msKeys r
  | .andOr a b c => msKeys a ++ msKeys b ++ msKeys c
  | .thresh _ xs => msKeysL xs
  | _ => []
def msKeysL : MsList → List Key
  | .nil => []
  | .cons x xs => msKeys x ++ msKeysL xs
end

mutual
def msRawPkhs : Ms → List Nat
  | .rawPkH h => [h]
  | .alt x | .swap x | .check x | .dupIf x | .verify x | .nonZero x | .zeroNotEqual x => msRawPkhs x
  | .andV l r | .andB l r | .orB l r | .orD l r | .orC l r | .orI l r => msRawPkhs l ++ msRawPkhs r
  | .andOr a b c => msRawPkhs a ++ msRawPkhs b ++ msRawPkhs c
  | .thresh _ xs => msRawPkhsL xs
  | _ => []
def msRawPkhsL : MsList → List Nat
  | .nil => []
  | .cons x xs => msRawPkhs x ++ msRawPkhsL xs
end

mutual
def msHashes : Ms → List (HashKind × Nat)
  | .hash kind h => [(kind, h)]
  | .alt x | .swap x | .check x | .dupIf x | .verify x | .nonZero x | .zeroNotEqual x => msHashes x
  | .andV l r | .andB l r | .orB l r | .orD l r | .orC l r | .orI l r => msHashes l ++ msHashes r
  | .andOr a b c => msHashes a ++ msHashes b ++ msHashes c
  | .thresh _ xs => msHashesL xs
  | _ => []
def msHashesL : MsList → List (HashKind × Nat)
  | .nil => []
  | .cons x xs => msHashes x ++ msHashesL xs
end

mutual
def msHasLock : Ms → Bool
  | .after _ | .older _ => true
  | .alt x | .swap x | .check x | .dupIf x | .verify x | .nonZero x | .zeroNotEqual x => msHasLock x
  | .andV l r | .andB l r | .orB l r | .orD l r | .orC l r | .orI l r => msHasLock l || msHasLock r
  | .andOr a b c => msHasLock a || msHasLock b || msHasLock c
  | .thresh _ xs => msHasLockL xs
  | _ => false
def msHasLockL : MsList → Bool
  | .nil => false
  | .cons x xs => msHasLock x || msHasLockL xs
end

def dedup {α} [BEq α] (l : List α) : List α :=
  l.foldl (fun acc x => if acc.contains x then acc else acc ++ [x]) []

/-- the alphabet of one fragment: `full` for short stacks, `core` (the elements canonical
witnesses are made of, plus one junk) for the longest ones -/
structure Alphabet where
  full : List Bytes
  core : List Bytes
  keySers : List Bytes
  validSigs : List Bytes

def mkAlphabet (t : Tables) (ctx : Ctx) (ms : Ms) (allSigs : Bool) : Alphabet :=
  let ke := t.keyEnv
  let rawKeys : List Bytes := (msRawPkhs ms).filterMap fun h =>
    (t.keys.find? fun e => e.2.2.2 == ke.rawPkh h).map (·.2.1)
  let keySers := dedup ((msKeys ms).map ke.ser ++ rawKeys)
  let sigsOf (pk : Bytes) : List Bytes :=
    let l := (t.sigs.filter fun p => p.1 == pk).map (·.2)
    if allSigs then l else l.take 1
  -- Tap: the first key also gets its second signature form (65 bytes, explicit sighash byte)
  let secondForm : List Bytes :=
    if ctx == .tap && !allSigs then ((t.sigs.filter fun p => p.1 == keySers.headD []).map (·.2)).drop 1 |>.take 1 else []
  let validSigs := dedup (keySers.flatMap sigsOf ++ secondForm)
  let allValid := dedup (keySers.flatMap fun pk => (t.sigs.filter fun p => p.1 == pk).map (·.2))
  -- a signature that verifies, but for a key that is not in the fragment
  let wrongKeySig : List Bytes :=
    if keySers.isEmpty then [] else
    ((t.sigs.filter fun p => !keySers.contains p.1 && p.1.length == (keySers.headD []).length).map (·.2)).take 1
  let invalidSig : List Bytes :=
    if keySers.isEmpty then [] else
    [if ctx == .tap then List.replicate 64 0x11 else 0x30 :: List.replicate 70 0x11]
  let pre : List Bytes := dedup ((msHashes ms).filterMap fun kh => (t.hashes.lookup kh).map (·.2))
  let hashJunk : List Bytes :=
    if (msHashes ms).isEmpty then [] else [List.replicate 32 0x77, List.replicate 32 0x00]
  let junk33 : Bytes := List.replicate 33 0x55
  let fixed : List Bytes := [[], [1], [2], [0x00], [0x80]]
  { full := fixed ++ validSigs ++ keySers ++ wrongKeySig ++ invalidSig ++ pre ++ hashJunk ++ [junk33]
    core := [[], [1]] ++ validSigs ++ keySers ++ pre ++ (hashJunk.drop 1) ++ [junk33]
    keySers := keySers
    validSigs := allValid }

/-- all lists of length exactly `n` over `a` -/
def stacksOfLen (a : List Bytes) : Nat → List (List Bytes)
  | 0 => [[]]
  | n + 1 => (stacksOfLen a n).flatMap fun s => a.map (· :: s)

/-- every `stride`-th element -/
def thin {α} (stride : Nat) (l : List α) : List α :=
  if stride ≤ 1 then l else
  (l.zipIdx.filter fun p => p.2 % stride == 0).map (·.1)

/-- number of elements `thin stride` keeps of a list of length `n` -/
def thinCount (stride n : Nat) : Nat := if stride ≤ 1 then n else (n + stride - 1) / stride

/-- The input stacks tried for one fragment (before the sentinel is put below them).
tier 0 (light): ALL stacks of length ≤ 2 over the full alphabet + length 3 over the core alphabet
  (thinned to ≤ 600);
tier 1 (quick): ALL stacks of length ≤ 3 over the full alphabet + length 4 over the core alphabet
  (thinned to ≤ 2000);
tier 2 (thorough): ALL of length ≤ 3 + length 4 over the full alphabet (thinned to ≤ 20000) +
  length 5 over the core alphabet (thinned to ≤ 5000). -/
def inputStacks (al : Alphabet) (tier : Nat) : List (List Bytes) :=
  let upTo2 := stacksOfLen al.full 0 ++ stacksOfLen al.full 1 ++ stacksOfLen al.full 2
  let upTo3 := upTo2 ++ stacksOfLen al.full 3
  if tier == 0 then
    upTo2 ++ thin ((al.core.length ^ 3 + 599) / 600) (stacksOfLen al.core 3)
  else if tier == 1 then
    upTo3 ++ thin ((al.core.length ^ 4 + 1999) / 2000) (stacksOfLen al.core 4)
  else
    upTo3 ++ thin ((al.full.length ^ 4 + 19999) / 20000) (stacksOfLen al.full 4)
      ++ thin ((al.core.length ^ 5 + 4999) / 5000) (stacksOfLen al.core 5)

/-- closed form of `(inputStacks al tier).length`, compared with the harness' own count -/
def inputStacksCount (a c : Nat) (tier : Nat) : Nat :=
  let upTo2 := 1 + a + a ^ 2
  if tier == 0 then upTo2 + thinCount ((c ^ 3 + 599) / 600) (c ^ 3)
  else if tier == 1 then upTo2 + a ^ 3 + thinCount ((c ^ 4 + 1999) / 2000) (c ^ 4)
  else upTo2 + a ^ 3 + thinCount ((a ^ 4 + 19999) / 20000) (a ^ 4) + thinCount ((c ^ 5 + 4999) / 5000) (c ^ 5)

def sentinel : List Bytes := [[0xAA], [0xBB]]

/-- completed run: no error, conditionals balanced, alt stack as it was (empty) -/
def runStack (env : Env) (script : List Op) (stk : List Bytes) : Option (List Bytes) :=
  match run env script (State.init stk) with
  | .ok s => if s.conds.isEmpty && s.core.alt.isEmpty then some s.core.stack else none
  | .error _ => none

/-- concrete bytes of a canonical-dissatisfaction item (no signatures are ever available) -/
def realiseDissat (t : Tables) : SatTable.Item → Option Bytes
  | .key k => some (t.keyEnv.ser k)
  | .rawKey h => (t.keys.find? fun e => e.2.2.2 == t.keyEnv.rawPkh h).map (·.2.1)
  | .zero32 => some (List.replicate 32 0)
  | .one => some [1]
  | .empty => some []
  | _ => none

/-- concrete bytes of a canonical-satisfaction item when the spender holds everything -/
def realiseSat (t : Tables) : SatTable.Item → Option Bytes
  | .sig k => (t.sigs.find? fun p => p.1 == t.keyEnv.ser k).map (·.2)
  | .rawSig h =>
    match t.keys.find? fun e => e.2.2.2 == t.keyEnv.rawPkh h with
    | some e => (t.sigs.find? fun p => p.1 == e.2.1).map (·.2)
    | none => none
  | .pre kind h => (t.hashes.lookup (kind, h)).map (·.2)
  | it => realiseDissat t it

/-- (nLockTime, nSequence) settings: nothing satisfied / every height lock / every time lock -/
def txSettings (ms : Ms) : List (Nat × Nat) :=
  if msHasLock ms then [(0, 4294967295), (499999999, 65535), (4294967294, 4194304 + 65535)]
  else [(0, 4294967295)]

def showStack (s : List Bytes) : String :=
  if s.isEmpty then "." else ",".intercalate (s.map Hash.toHexW)

/-- `script` = the LIBRARY's encoding of `ms` (parsed); `ms` itself is only used to collect the
atoms for the alphabet and for the canonical dissatisfaction candidate -/
def judgeTypeExec (t : Tables) (ctx : Ctx) (ms : Ms) (script : List Op) (ty : Ty) (tier : Nat) : String :=
  let ke := t.keyEnv
  let al := mkAlphabet t ctx ms (tier == 2)
  let base := ty.corr.base
  let effScript := if base == .K then script ++ [.code .checksig] else script
  let sigFree (s : List Bytes) : Bool := !s.any al.validSigs.contains
  let ins := inputStacks al tier
  let xs : List Bytes := [[0x09], []]
  -- W fragments get the `x` they shuffle on top of the inputs
  let full : List (List Bytes) :=
    if base == .W then xs.flatMap fun x => ins.map fun i => x :: (i ++ sentinel)
    else ins.map (· ++ sentinel)
  let noSig : SatTable.Avail := ⟨fun _ => false, fun _ _ => false, fun _ => false, fun _ => false,
    fun _ => true, fun _ => false⟩
  let canon : List (List Bytes) :=
    match SatTable.dsatWit noSig (sortKeys ke) (if base == .K then .check ms else ms) with
    | none => []
    | some items =>
      match items.mapM (realiseDissat t) with
      | none => []
      | some w =>
        if base == .W then xs.map fun x => x :: (w.reverse ++ sentinel) else [w.reverse ++ sentinel]
  let verdicts := (txSettings ms).map fun (lt, sq) =>
    let env := mkEnv t ctx false lt sq
    let obs (sc : List Op) (s : List Bytes) : Obs := ⟨s, sigFree s, runStack env sc s⟩
    -- the canonical satisfaction for a spender who holds every signature and preimage, under
    -- the locks this transaction meets: one run on which a satisfiable fragment SUCCEEDS
    -- ... and the same for EVERY subset of the fragment's keys signing (all subsets up to 5 keys,
    -- beyond that all singletons and all co-singletons): sortedmulti / multi / multi_a / thresh
    -- with the first key not signing, each key subset of a k-of-n, ...
    let ks := dedup (msKeys ms)
    let subsets : List (List Key) :=
      if ks.length ≤ 5 then ks.foldr (fun k acc => acc ++ acc.map (k :: ·)) [[]]
      else [ks] ++ ks.map (fun k => [k]) ++ ks.map (fun k => ks.filter (· != k))
    let canonSat : List (List Bytes) := dedup <| subsets.flatMap fun sub =>
      let av : SatTable.Avail := ⟨fun k => sub.contains k, fun _ _ => true, fun n => checkLockTime env n,
        fun n => checkSequence env n, fun _ => true, fun _ => true⟩
      match SatTable.satWit av (sortKeys ke) (if base == .K then .check ms else ms) with
      | none => []
      | some items =>
        match items.mapM (realiseSat t) with
        | none => []
        | some w =>
          if base == .W then xs.map fun x => x :: (w.reverse ++ sentinel) else [w.reverse ++ sentinel]
    let r : Runs := {
      raw := full.map (obs script)
      eff := if base == .K then full.map (obs effScript) else full.map (obs script)
      extra := (canon ++ canonSat).map (obs effScript)
      extraRaw := (canon ++ canonSat).map (obs script)
      effOnEmpty := runStack env effScript []
      effOnTop := fun x => runStack env effScript [x] }
    match checkAll ty al.keySers r with
    | none => none
    | some (l, inp) => some s!"bad:{l}:{showStack inp}:tx={lt}/{sq}"
  (verdicts.findSome? id).getD "ok"

mutual
/-- what `Miniscript::from_ast`, applied bottom-up (children left to right, then the node: type
check first, `check_global_validity` second), answers: the first refusal, as a kind -/
def ctorErr (ctx : Ctx) (K : KeyInfo) : Ms → Option String
  | .alt x => (ctorErr ctx K x).orElse fun _ => nodeErr ctx K (.alt x)
  | .swap x => (ctorErr ctx K x).orElse fun _ => nodeErr ctx K (.swap x)
  | .check x => (ctorErr ctx K x).orElse fun _ => nodeErr ctx K (.check x)
  | .dupIf x => (ctorErr ctx K x).orElse fun _ => nodeErr ctx K (.dupIf x)
  | .verify x => (ctorErr ctx K x).orElse fun _ => nodeErr ctx K (.verify x)
  | .nonZero x => (ctorErr ctx K x).orElse fun _ => nodeErr ctx K (.nonZero x)
  | .zeroNotEqual x => (ctorErr ctx K x).orElse fun _ => nodeErr ctx K (.zeroNotEqual x)
  | .andV l r => (ctorErr ctx K l).orElse fun _ => (ctorErr ctx K r).orElse fun _ => nodeErr ctx K (.andV l r)
  | .andB l r => (ctorErr ctx K l).orElse fun _ => (ctorErr ctx K r).orElse fun _ => nodeErr ctx K (.andB l r)
  | .orB l r => (ctorErr ctx K l).orElse fun _ => (ctorErr ctx K r).orElse fun _ => nodeErr ctx K (.orB l r)
  | .orD l r => (ctorErr ctx K l).orElse fun _ => (ctorErr ctx K r).orElse fun _ => nodeErr ctx K (.orD l r)
  | .orC l r => (ctorErr ctx K l).orElse fun _ => (ctorErr ctx K r).orElse fun _ => nodeErr ctx K (.orC l r)
  | .orI l r => (ctorErr ctx K l).orElse fun _ => (ctorErr ctx K r).orElse fun _ => nodeErr ctx K (.orI l r)
  | .andOr a b c =>
    (ctorErr ctx K a).orElse fun _ => (ctorErr ctx K b).orElse fun _ => (ctorErr ctx K c).orElse fun _ =>
      nodeErr ctx K (.andOr a b c)
  | .thresh k xs => (ctorErrL ctx K xs).orElse fun _ => nodeErr ctx K (.thresh k xs)
  | leaf => nodeErr ctx K leaf
def ctorErrL (ctx : Ctx) (K : KeyInfo) : MsList → Option String
  | .nil => none
  | .cons x xs => (ctorErr ctx K x).orElse fun _ => ctorErrL ctx K xs
/-- one node whose children exist: the typing rule, then the context's node test -/
def nodeErr (ctx : Ctx) (K : KeyInfo) (node : Ms) : Option String :=
  if (typeOf node).isNone then some "ERR:type"
  else if !nodeChecked ctx K node then some "ERR:context"
  else none
end

def tierOfOp : String → Option Nat
  | "typeexecq" => some 0 | "typeexec" => some 1 | "typeexecx" => some 2 | _ => none

def opsTypeExec (t : Tables) (kind op : String) (args : List String) : Option String :=
  match kind, op, args with
  -- negative control: a deliberately TOO STRONG type must be refuted on letter `l`
  | "J", "typeexecneg", [ctx, ast, ty, l] => do
    let ctx ← parseCtx ctx; let ms ← parseAst ast; let ty ← Ty.ofStr? ty
    let v := judgeTypeExec t ctx ms (encode t.keyEnv ctx ms) ty 1
    pure (if v.startsWith s!"bad:{l}:" then "refuted" else s!"missed:{v}")
  -- the same with the light input enumeration (shows that tier 0 is not vacuous either)
  | "J", "typeexecnegq", [ctx, ast, ty, l] => do
    let ctx ← parseCtx ctx; let ms ← parseAst ast; let ty ← Ty.ofStr? ty
    let v := judgeTypeExec t ctx ms (encode t.keyEnv ctx ms) ty 0
    pure (if v.startsWith s!"bad:{l}:" then "refuted" else s!"missed:{v}")
  -- C typeofctx <ctx> <ast>: what from_ast answers for a candidate offered in a context it may
  -- not belong to (key kinds are read off the key table: 33 / 65 / 32 bytes): the type, or the
  -- KIND of the first refusal (typing rule vs. context rule)
  | "C", "typeofctx", [ctx, ast] => do
    let ctx ← parseCtx ctx; let ms ← parseAst ast
    let K : KeyInfo := ⟨keyKindOf t.keyEnv, fun _ => 0⟩
    pure (match ctorErr ctx K ms with
      | some e => e
      | none => match typeOf ms with | some ty => ty.toStr | none => "ERR:type")
  -- size of the input domain of one fragment (makes the exhaustive part explicit):
  -- C typeexecdom <ctx> <ast> <tier 0|1|2>
  | "C", "typeexecdom", [ctx, ast, tier] => do
    let ctx ← parseCtx ctx; let ms ← parseAst ast; let tier ← tier.toNat?
    let al := mkAlphabet t ctx ms (tier == 2)
    let n := (inputStacks al tier).length
    if n != inputStacksCount al.full.length al.core.length tier then pure "bad:count-formula" else
    pure s!"A={al.full.length} C={al.core.length} stacks={n} tx={(txSettings ms).length}"
  -- parser path: the string `form(ast)` (form = plain | sugar, printed by the harness from the
  -- neutral AST with t: l: u: and_n pk pkh for the sugar form) went through `from_str`; the
  -- library's type / script of the result are compared with the MODEL's typeOf / encode of `ast`
  | "C", "typeofstr", [_ctx, _form, ast] => do
    let ms ← parseAst ast
    pure (match typeOf ms with | some ty => ty.toStr | none => "ERR")
  | "C", "encodestr", [ctx, _form, ast] => do
    let ctx ← parseCtx ctx; let ms ← parseAst ast
    pure (Hash.toHexW (encodeBytes t.keyEnv ctx ms))
  -- J strparse <ctx> <form> <ast> <ok|err:…>: a fragment the typing model accepts must parse
  | "J", "strparse", [_ctx, _form, ast, verdict] => do
    let ms ← parseAst ast
    pure (if (typeOf ms).isSome == (verdict == "ok") then "ok" else s!"bad:parser-verdict-{verdict}-but-model-typing-says-{(typeOf ms).isSome}")
  -- J typeexec[q|x] <ctx> <ast> <script the library encoded> <type the library assigned>
  | "J", op, [ctx, ast, script, ty] => do
    let tier ← tierOfOp op
    let ctx ← parseCtx ctx; let ms ← parseAst ast; let ty ← Ty.ofStr? ty
    let script ← Hash.ofHex script
    pure (match parse script with
      | some ops => judgeTypeExec t ctx ms ops ty tier
      | none => "bad:unparseable-script")
  | _, _, _ => none

end MsVerif.Driver

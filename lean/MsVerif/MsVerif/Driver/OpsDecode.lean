/- C04 ops: lexer and decoder models (C lines), round-trip / canonicity judges (J lines). -/
import MsVerif.Driver.OpsMs
import MsVerif.Model.Lex
import MsVerif.Model.Decode
import MsVerif.Model.Tokens

namespace MsVerif.Driver
open MsVerif Script

/-- Reverse lookup of atoms in the harness tables.  Convention (harness/src/c04.rs): a key id
`≥ 900` registers a byte string that the library REJECTS as a key (`from_slice` fails). -/
def Tables.atomDec (t : Tables) : AtomDec where
  full bs :=
    match t.keys.find? (fun e => e.2.1 == bs) with
    | some e => if e.1 ≥ 900 then .invalid else .ok e.1
    | none => .unknown
  xonly bs :=
    match t.keys.find? (fun e => e.2.1 == bs) with
    | some e => if e.1 ≥ 900 then .invalid else .ok e.1
    | none => .unknown
  rawPkh bs := (t.rawpkh.find? (fun e => e.2 == bs)).map (·.1)
  hash kind bs := (t.hashes.find? (fun e => e.1.1 == kind && e.2.1 == bs)).map (·.1.2)

/-- the raw-pkh atom whose bytes are the key hash of key `k` (0 if the table has none) -/
def Tables.rpOf (t : Tables) (k : Key) : Nat :=
  ((t.atomDec.rawPkh (t.keyEnv.pkh k))).getD 0

def showToken : Token → String
  | .boolAnd => "BoolAnd" | .boolOr => "BoolOr" | .add => "Add" | .equal => "Equal"
  | .numEqual => "NumEqual" | .checkSig => "CheckSig" | .checkSigAdd => "CheckSigAdd"
  | .checkMultiSig => "CheckMultiSig" | .csv => "CheckSequenceVerify"
  | .cltv => "CheckLockTimeVerify" | .fromAlt => "FromAltStack" | .toAlt => "ToAltStack"
  | .drop => "Drop" | .dup => "Dup" | .if_ => "If" | .ifDup => "IfDup" | .notIf => "NotIf"
  | .else_ => "Else" | .endIf => "EndIf" | .zeroNotEqual => "ZeroNotEqual" | .size => "Size"
  | .swap => "Swap" | .verify => "Verify" | .ripemd160 => "Ripemd160" | .hash160 => "Hash160"
  | .sha256 => "Sha256" | .hash256 => "Hash256"
  | .num n => "#" ++ toString n
  | .hash20 b | .bytes32 b | .bytes33 b | .bytes65 b => Hash.toHex b

def showTokens (ts : List Token) : String :=
  if ts.isEmpty then "-" else ",".intercalate (ts.map showToken)

def showLexErr : LexErr → String
  | .script => "script" | .invalidInt => "invalidint" | .negativeInt => "negativeint"
  | .invalidOpcode => "invalidopcode" | .nonMinimalVerify => "nonminimalverify"

def showDecodeErr : DecodeErr → String
  | .lex e => "ERR:lex:" ++ showLexErr e
  | .unexpected => "ERR:unexpected" | .unexpectedStart => "ERR:unexpectedstart"
  | .key => "ERR:key" | .lockTime => "ERR:locktime" | .threshold => "ERR:threshold"
  | .typeCheck => "ERR:typecheck" | .context => "ERR:context" | .recursion => "ERR:recursion"
  | .trailing => "ERR:trailing" | .validation => "ERR:validation"
  | .panic => "PANIC" | .unknownAtom => "UNKNOWN-ATOM" | .fuel => "MODEL-FUEL"

def showNats (ks : List Nat) : String := ",".intercalate (ks.map toString)

mutual
/-- same wire form as harness `Node::wire()` -/
def showMs : Ms → String
  | .tru => "1" | .fls => "0"
  | .pkK k => s!"pk_k({k})" | .pkH k => s!"pk_h({k})" | .rawPkH h => s!"raw_pkh({h})"
  | .after n => s!"after({n})" | .older n => s!"older({n})"
  | .hash kind h => s!"{HashKind.name kind}({h})"
  | .alt x => "a(" ++ showMs x ++ ")" | .swap x => "s(" ++ showMs x ++ ")"
  | .check x => "c(" ++ showMs x ++ ")" | .dupIf x => "d(" ++ showMs x ++ ")"
  | .verify x => "v(" ++ showMs x ++ ")" | .nonZero x => "j(" ++ showMs x ++ ")"
  | .zeroNotEqual x => "n(" ++ showMs x ++ ")"
  | .andV a b => "and_v(" ++ showMs a ++ "," ++ showMs b ++ ")"
  | .andB a b => "and_b(" ++ showMs a ++ "," ++ showMs b ++ ")"
  | .andOr a b c => "andor(" ++ showMs a ++ "," ++ showMs b ++ "," ++ showMs c ++ ")"
  | .orB a b => "or_b(" ++ showMs a ++ "," ++ showMs b ++ ")"
  | .orD a b => "or_d(" ++ showMs a ++ "," ++ showMs b ++ ")"
  | .orC a b => "or_c(" ++ showMs a ++ "," ++ showMs b ++ ")"
  | .orI a b => "or_i(" ++ showMs a ++ "," ++ showMs b ++ ")"
  | .thresh k xs => s!"thresh({k}" ++ showMsList xs ++ ")"
  | .multi k ks => s!"multi({k},{showNats ks})"
  | .sortedMulti k ks => s!"sortedmulti({k},{showNats ks})"
  | .multiA k ks => s!"multi_a({k},{showNats ks})"
  | .sortedMultiA k ks => s!"sortedmulti_a({k},{showNats ks})"
def showMsList : MsList → String
  | .nil => ""
  | .cons x xs => "," ++ showMs x ++ showMsList xs
end

/-- the decoder's normal form of `ms` over the tables -/
def canonForm (t : Tables) (ms : Ms) : Ms := norm (desugar t.keyEnv t.rpOf ms)

def opsDecode (t : Tables) (kind op : String) (args : List String) : Option String :=
  match kind, op, args with
  -- C lex <hex>  →  tokens in script order | ERR:<kind>
  | "C", "lex", [hex] => do
    let bs ← Hash.ofHex hex
    pure (match lex bs with
      | .ok ts => showTokens ts
      | .error e => "ERR:" ++ showLexErr e)
  -- C decode <ctx> <hex>  →  `decode_consensus`: AST wire | ERR:<kind>
  | "C", "decode", [ctx, hex] => do
    let ctx ← parseCtx ctx; let bs ← Hash.ofHex hex
    pure (match decodeScript t.atomDec t.keyEnv ctx bs with
      | .ok ms => showMs ms
      | .error e => showDecodeErr e)
  -- C tokens <ctx> <ast>  →  the structural token list of the encoding (model-internal
  -- self check against `C lex` of the library's encoding is done by `J toks`)
  | "C", "tokens", [ctx, ast] => do
    let ctx ← parseCtx ctx; let ms ← parseAst ast
    pure (showTokens (tokens t.keyEnv ctx ms))
  -- C canonform <ast>  →  normal form the decoder returns
  | "C", "canonform", [ast] => do
    let ms ← parseAst ast
    pure (showMs (canonForm t ms))
  -- J rt <ctx> <ast> <script hex (library encode)> <decoded AST wire (library) | ERR:..> <re-encoded hex | ->
  --     <type of original> <type of decoded>
  -- the library's own round trip judged: decoded = normal form of the original, same bytes,
  -- same type (the Lean typing of BOTH trees, and the library's two type strings)
  | "J", "rt", [_ctx, ast, hex, decoded, reenc, ty0, ty1] => do
    let ms ← parseAst ast
    if decoded.startsWith "ERR" || decoded == "PANIC" then pure "bad:decode-failed" else
    match parseAst decoded with
    | none => pure "bad:decoded-unparseable"
    | some d =>
      if d != canonForm t ms then pure "bad:ast-not-normal-form"
      else if reenc != hex then pure "bad:reencode-differs"
      else if ty0 != ty1 then pure "bad:type-differs"
      else if (typeOf d).map Ty.toStr != (typeOf ms).map Ty.toStr then pure "bad:model-type-differs"
      else if (typeOf ms).map Ty.toStr != some ty0 then pure "bad:type-string"
      else pure "ok"
  -- J toks <ctx> <ast> <library lex of library encode>: equals the structural `tokens`
  | "J", "toks", [ctx, ast, toks] => do
    let ctx ← parseCtx ctx; let ms ← parseAst ast
    pure (if showTokens (tokens t.keyEnv ctx ms) == toks then "ok" else "bad:tokens-differ")
  -- J canon <ctx> <input hex> <library verdict: ERR | re-encoded hex>
  | "J", "canon", [_ctx, hex, verdict] =>
    pure (if verdict.startsWith "ERR" then "ok"
          else if verdict == hex then "ok" else "bad:accepted-noncanonical")
  -- J lexcanon <input hex> <library tokens | ERR>: an accepted byte string is the canonical
  -- serialisation of its tokens (spec function `tokBytes` applied to the library's tokens)
  | "J", "lexcanon", [hex, toks] => do
    let bs ← Hash.ofHex hex
    if toks.startsWith "ERR" then pure "ok" else
    match lex bs with
    | .ok ts => pure (if showTokens ts != toks then "bad:tokens-differ"
                      else if tokBytes ts == bs then "ok" else "bad:noncanonical-accepted")
    | .error _ => pure "bad:model-rejects"
  -- J nopanic <what> <input> <ok | PANIC>
  | "J", "nopanic", [_what, _input, verdict] => pure (if verdict == "ok" then "ok" else "bad:panic")
  | _, _, _ => none

end MsVerif.Driver

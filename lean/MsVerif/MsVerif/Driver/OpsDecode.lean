/- C04 ops: lexer and decoder models (C lines), round-trip / canonicity judges (J lines). -/
import MsVerif.Driver.OpsMs
import MsVerif.Model.Lex
import MsVerif.Model.Decode
import MsVerif.Model.Tokens

namespace MsVerif.Driver
open MsVerif Script

/-! ### opaque atoms

A 20/32/33/65-byte push that is not in the harness tables is still a perfectly good hash / key
for the decoder.  It gets the OPAQUE atom `opaqueOf bytes` (the bytes read as a big-endian
number behind a leading 1, so ≥ 2^160 and injective), whose serialisation is those bytes.
Whether an unknown 32/33/65-byte string is a curve point is the one thing the model cannot
compute: the harness passes the strings of the input that libsecp rejects (`invalid`). -/

def opaqueOf (bs : Bytes) : Nat := bs.foldl (fun acc b => acc * 256 + b.toNat) 1

def opaqueBase : Nat := 2 ^ 64

/-- inverse of `opaqueOf` (fuel = number of bytes is ≤ 65) -/
def opaqueBytesAux : Nat → Nat → Bytes → Bytes
  | 0, _, acc => acc
  | fuel + 1, n, acc => if n ≤ 1 then acc else opaqueBytesAux fuel (n / 256) (UInt8.ofNat (n % 256) :: acc)

def opaqueBytes (n : Nat) : Bytes := opaqueBytesAux 80 n []

/-- Reverse lookup of atoms in the harness tables, total through opaque atoms.  Convention
(harness/src/c04.rs): a key id `≥ 900` (below `opaqueBase`) registers a byte string that the
library REJECTS as a key (`from_slice` fails). -/
def Tables.atomDecT (t : Tables) (invalid : List Bytes) : AtomDec where
  full bs :=
    match t.keys.find? (fun e => e.2.1 == bs) with
    | some e => if e.1 ≥ 900 then .invalid else .ok e.1
    | none => if invalid.contains bs then .invalid else .ok (opaqueOf bs)
  xonly bs :=
    match t.keys.find? (fun e => e.2.1 == bs) with
    | some e => if e.1 ≥ 900 then .invalid else .ok e.1
    | none => if invalid.contains bs then .invalid else .ok (opaqueOf bs)
  rawPkh bs := some (((t.rawpkh.find? (fun e => e.2 == bs)).map (·.1)).getD (opaqueOf bs))
  hash kind bs :=
    some (((t.hashes.find? (fun e => e.1.1 == kind && e.2.1 == bs)).map (·.1.2)).getD (opaqueOf bs))

def Tables.atomDec (t : Tables) : AtomDec := t.atomDecT []

/-- the tables' `KeyEnv`, extended to opaque atoms -/
def Tables.keyEnvT (t : Tables) : KeyEnv where
  ser k := if k ≥ opaqueBase then opaqueBytes k else t.keyEnv.ser k
  sortKey k := if k ≥ opaqueBase then opaqueBytes k else t.keyEnv.sortKey k
  pkh k := t.keyEnv.pkh k
  rawPkh h := if h ≥ opaqueBase then opaqueBytes h else t.keyEnv.rawPkh h
  hashVal kind h := if h ≥ opaqueBase then opaqueBytes h else t.keyEnv.hashVal kind h

/-- the raw-pkh atom whose bytes are the key hash of key `k` (0 if the table has none) -/
def Tables.rpOf (t : Tables) (k : Key) : Nat :=
  ((t.rawpkh.find? (fun e => e.2 == t.keyEnv.pkh k)).map (·.1)).getD 0

def showAtom (k : Nat) : String := if k ≥ opaqueBase then "x" ++ Hash.toHex (opaqueBytes k) else toString k

def showToken : Token → String
  | .boolAnd => "BoolAnd" | .boolOr => "BoolOr" | .add => "Add" | .equal => "Equal"
  | .numEqual => "NumEqual" | .checkSig => "CheckSig" | .checkSigAdd => "CheckSigAdd"
  | .checkMultiSig => "CheckMultiSig" | .csv => "CheckSequenceVerify"
  | .cltv => "CheckLockTimeVerify" | .fromAlt => "FromAltStack" | .toAlt => "ToAltStack"
  | .drop => "Drop" | .dup => "Dup" | .if_ => "If" | .ifDup => "IfDup" | .notIf => "NotIf"
  | .else_ => "Else" | .endIf => "EndIf" | .zeroNotEqual => "ZeroNotEqual" | .size => "Size"
  | .swap => "Swap" | .verify => "Verify" | .ripemd160 => "Ripemd160" | .hash160 => "Hash160"
  | .sha256 => "Sha256" | .hash256 => "Hash256"
  | .num n => "#" ++ toString n
  | .hash20 b | .bytes32 b | .bytes33 b | .bytes65 b => Hash.toHex b

def showTokens (ts : List Token) : String :=
  if ts.isEmpty then "-" else ",".intercalate (ts.map showToken)

def showLexErr : LexErr → String
  | .script => "script" | .invalidInt => "invalidint" | .negativeInt => "negativeint"
  | .invalidOpcode => "invalidopcode" | .nonMinimalVerify => "nonminimalverify"

def showDecodeErr : DecodeErr → String
  | .lex e => "ERR:lex:" ++ showLexErr e
  | .unexpected => "ERR:unexpected" | .unexpectedStart => "ERR:unexpectedstart"
  | .key => "ERR:key" | .lockTime => "ERR:locktime" | .threshold => "ERR:threshold"
  | .typeCheck => "ERR:typecheck" | .context => "ERR:context" | .recursion => "ERR:recursion"
  | .trailing => "ERR:trailing" | .validation => "ERR:validation"
  | .panic => "PANIC" | .unknownAtom => "UNKNOWN-ATOM" | .fuel => "MODEL-FUEL"

def showNats (ks : List Nat) : String := ",".intercalate (ks.map showAtom)

mutual
/-- same wire form as harness `Node::wire()` -/
def showMs : Ms → String
  | .tru => "1" | .fls => "0"
  | .pkK k => s!"pk_k({showAtom k})" | .pkH k => s!"pk_h({showAtom k})" | .rawPkH h => s!"raw_pkh({showAtom h})"
  | .after n => s!"after({n})" | .older n => s!"older({n})"
  | .hash kind h => s!"{HashKind.name kind}({showAtom h})"
  | .alt x => "a(" ++ showMs x ++ ")" | .swap x => "s(" ++ showMs x ++ ")"
  | .check x => "c(" ++ showMs x ++ ")" | .dupIf x => "d(" ++ showMs x ++ ")"
  | .verify x => "v(" ++ showMs x ++ ")" | .nonZero x => "j(" ++ showMs x ++ ")"
  | .zeroNotEqual x => "n(" ++ showMs x ++ ")"
  | .andV a b => "and_v(" ++ showMs a ++ "," ++ showMs b ++ ")"
  | .andB a b => "and_b(" ++ showMs a ++ "," ++ showMs b ++ ")"
  | .andOr a b c => "andor(" ++ showMs a ++ "," ++ showMs b ++ "," ++ showMs c ++ ")"
  | .orB a b => "or_b(" ++ showMs a ++ "," ++ showMs b ++ ")"
  | .orD a b => "or_d(" ++ showMs a ++ "," ++ showMs b ++ ")"
  | .orC a b => "or_c(" ++ showMs a ++ "," ++ showMs b ++ ")"
  | .orI a b => "or_i(" ++ showMs a ++ "," ++ showMs b ++ ")"
  | .thresh k xs => s!"thresh({k}" ++ showMsList xs ++ ")"
  | .multi k ks => s!"multi({k},{showNats ks})"
  | .sortedMulti k ks => s!"sortedmulti({k},{showNats ks})"
  | .multiA k ks => s!"multi_a({k},{showNats ks})"
  | .sortedMultiA k ks => s!"sortedmulti_a({k},{showNats ks})"
def showMsList : MsList → String
  | .nil => ""
  | .cons x xs => "," ++ showMs x ++ showMsList xs
end

/-- the decoder's normal form of `ms` over the tables -/
def parseHexList' (s : String) : Option (List Bytes) :=
  if s == "-" then some [] else (s.splitOn ",").mapM Hash.ofHex

/-- `to_x_only_pubkey`: the table key whose serialisation is the 32-byte x coordinate of the
33-byte key `k` (0 if there is none) -/
def toXOnly (t : Tables) (k : Key) : Key :=
  ((t.keys.find? (fun e => e.2.1 == (t.keyEnv.ser k).drop 1 && e.2.1.length == 32)).map (·.1)).getD 0

def canonForm (t : Tables) (ms : Ms) : Ms := norm (desugar t.keyEnv t.rpOf ms)

def opsDecode (t : Tables) (kind op : String) (args : List String) : Option String :=
  match kind, op, args with
  -- C lex <hex>  →  tokens in script order | ERR:<kind>
  | "C", "lex", [hex] => do
    let bs ← Hash.ofHex hex
    pure (match lex bs with
      | .ok ts => showTokens ts
      | .error e => "ERR:" ++ showLexErr e)
  -- C decode <ctx> <hex> <rejected key strings | ->  →  `decode_consensus`: AST wire | ERR:<kind>
  | "C", "decode", [ctx, hex, inv] => do
    let ctx ← parseCtx ctx; let bs ← Hash.ofHex hex; let inv ← parseHexList' inv
    pure (match decodeScript (t.atomDecT inv) t.keyEnvT ctx bs with
      | .ok ms => showMs ms
      | .error e => showDecodeErr e)
  -- C decodep <ctx> <consensus|max> <hex> <rejected key strings | ->
  --   →  `decode_with_validation_params(script, &Ctx::CONSENSUS | &ValidationParams::MAX)`
  | "C", "decodep", [ctx, params, hex, inv] => do
    let ctx ← parseCtx ctx; let bs ← Hash.ofHex hex; let inv ← parseHexList' inv
    let p ← (match params with | "consensus" => some DecParams.consensus | "max" => some .max | _ => none)
    pure (match decodeScriptP p (t.atomDecT inv) t.keyEnvT ctx bs with
      | .ok ms => showMs ms
      | .error e => showDecodeErr e)
  -- J size <ctx | tapfull> <ast> <library script_size()>: equals the length of the (Lean) encoding
  -- (`tapfull`: Taproot over full keys, i.e. the encoding of the x-only translation)
  | "J", "size", [ctx, ast, size] => do
    let ms ← parseAst ast; let n ← size.toNat?
    let bytes ← (if ctx == "tapfull" then some (encodeBytes t.keyEnv .tap (reKey (toXOnly t) ms))
                 else (parseCtx ctx).map (fun c => encodeBytes t.keyEnv c ms))
    pure (if bytes.length == n then "ok" else "bad:size-differs")
  -- J dsize <ctx:entry> <script hex> <script_size() of the miniscript the library decoded from it>:
  -- the predicted size is the length of the script
  | "J", "dsize", [_ctx, hex, size] => do
    let bs ← Hash.ofHex hex; let n ← size.toNat?
    pure (if bs.length == n then "ok" else "bad:size-differs")
  -- J tapfull <ast over FULL keys> <library encode of Miniscript<PublicKey,Tap>> <decoded wire>
  -- specified behaviour: every key is pushed in its x-only form, so the script is the encoding
  -- of the x-only translation and decoding returns (the normal form of) that translation
  | "J", "tapfull", [ast, hex, decoded] => do
    let ms ← parseAst ast
    let ms' := reKey (toXOnly t) ms
    if Hash.toHexW (encodeBytes t.keyEnv .tap ms') != hex then pure "bad:script-not-xonly-encoding" else
    match parseAst decoded with
    | none => pure "bad:decode-failed"
    | some d => pure (if d == canonForm t ms' then "ok" else "bad:keys-not-xonly-translation")
  -- C tokens <ctx> <ast>  →  the structural token list of the encoding (model-internal
  -- self check against `C lex` of the library's encoding is done by `J toks`)
  | "C", "tokens", [ctx, ast] => do
    let ctx ← parseCtx ctx; let ms ← parseAst ast
    pure (showTokens (tokens t.keyEnv ctx ms))
  -- C canonform <ast>  →  normal form the decoder returns
  | "C", "canonform", [ast] => do
    let ms ← parseAst ast
    pure (showMs (canonForm t ms))
  -- J rt <ctx> <ast> <script hex (library encode)> <entry point: decode_consensus | params-consensus |
  --     params-max> <decoded AST wire (library) | ERR:..> <re-encoded hex | -> <type of original> <type of decoded>
  -- the library's own round trip judged: decoded = normal form of the original, same bytes,
  -- same type (the Lean typing of BOTH trees, and the library's two type strings)
  | "J", "rt", [_ctx, ast, hex, _entry, decoded, reenc, ty0, ty1] => do
    let ms ← parseAst ast
    if decoded.startsWith "ERR" || decoded == "PANIC" then pure "bad:decode-failed" else
    match parseAst decoded with
    | none => pure "bad:decoded-unparseable"
    | some d =>
      if d != canonForm t ms then pure "bad:ast-not-normal-form"
      else if reenc != hex then pure "bad:reencode-differs"
      else if ty0 != ty1 then pure "bad:type-differs"
      else if (typeOf d).map Ty.toStr != (typeOf ms).map Ty.toStr then pure "bad:model-type-differs"
      else if (typeOf ms).map Ty.toStr != some ty0 then pure "bad:type-string"
      else pure "ok"
  -- J toks <ctx> <ast> <library lex of library encode>: equals the structural `tokens`
  | "J", "toks", [ctx, ast, toks] => do
    let ctx ← parseCtx ctx; let ms ← parseAst ast
    pure (if showTokens (tokens t.keyEnv ctx ms) == toks then "ok" else "bad:tokens-differ")
  -- J canon <ctx> <input hex> <library verdict: ERR | re-encoded hex>
  | "J", "canon", [_ctx, hex, verdict] =>
    pure (if verdict.startsWith "ERR" then "ok"
          else if verdict == hex then "ok" else "bad:accepted-noncanonical")
  -- J lexcanon <input hex> <library tokens | ERR>: an accepted byte string is the canonical
  -- serialisation of its tokens (spec function `tokBytes` applied to the library's tokens)
  | "J", "lexcanon", [hex, toks] => do
    let bs ← Hash.ofHex hex
    if toks.startsWith "ERR" then pure "ok" else
    match lex bs with
    | .ok ts => pure (if showTokens ts != toks then "bad:tokens-differ"
                      else if tokBytes ts == bs then "ok" else "bad:noncanonical-accepted")
    | .error _ => pure "bad:model-rejects"
  -- J nopanic <what> <input> <ok | PANIC>
  | "J", "nopanic", [_what, _input, verdict] => pure (if verdict == "ok" then "ok" else "bad:panic")
  | _, _, _ => none

end MsVerif.Driver

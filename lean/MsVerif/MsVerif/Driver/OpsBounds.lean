/-
Judge ops of C09 (static size / resource figures are upper bounds).  Every line carries an
OUTPUT of the implementation (script, witness, scriptSig) together with the figures the
implementation claims; the measuring is done here with the specification functions of
`Spec/Bounds.lean` and by running the Lean Script semantics (`Spec/Script.lean`).
-/
import MsVerif.Driver.OpsMs
import MsVerif.Spec.Bounds

namespace MsVerif.Driver
open MsVerif Script Bounds

/-- `key=value` token -/
def kv (key : String) (tok : String) : Option String :=
  match tok.splitOn "=" with
  | [k, v] => if k == key then some v else none
  | _ => none

def kvNat (key tok : String) : Option Nat := (kv key tok).bind String.toNat?

/-- `(a,b,c,d,e)` as printed by `show_satdata`: wSize, wCount, ssSize, execStack, execOps -/
def parseSatData (s : String) : Option (Option SatData) :=
  if s == "none" then some none else
  let inner := (s.drop 1).dropEnd 1 |>.toString
  match (inner.splitOn ",").mapM String.toNat? with
  | some [a, b, c, d, e] => some (some ⟨a, b, c, d, e⟩)
  | _ => none

structure ExecStats where
  ops : Nat
  peak : Nat
  hasMultisig : Bool

def execStats (t : Tables) (ctx : Ctx) (limits : Bool) (script : Bytes) (witBottomFirst : List Bytes)
    (lockTime seq : Nat) : Except String ExecStats :=
  match parse script with
  | none => .error "unparseable-script"
  | some ops =>
    let env := mkEnv t ctx limits lockTime seq
    match runPeak env ops (State.init witBottomFirst.reverse) witBottomFirst.length with
    | .error e => .error (showErr e)
    | .ok (s, peak) =>
      if !s.conds.isEmpty then .error "unbalanced"
      else match s.core.stack with
        | [a] =>
          if castToBool a then
            .ok ⟨s.core.ops, peak, ops.any fun o => o == .code .checkmultisig || o == .code .checkmultisigverify⟩
          else .error "false"
        | [] => .error "empty-stack"
        | _ => .error "unclean-stack"

def scriptLimit : Ctx → Option Nat
  | .legacy => some MAX_SCRIPT_ELEMENT_SIZE
  | .bare => some MAX_SCRIPT_SIZE
  | .segwitv0 => some MAX_STANDARD_P2WSH_SCRIPT_SIZE
  | .tap => none

/-- all failing checks, if any -/
def firstBad (checks : List (String × Bool)) : String :=
  match checks.filter (fun c => !c.2) with
  | [] => "ok"
  | bad => "bad:" ++ ";".intercalate (bad.map (·.1))

def le (name : String) (measured claimed : Nat) : String × Bool :=
  (s!"{name}:{measured}>{claimed}", decide (measured ≤ claimed))

/-- `J bound`: measured values of one produced satisfaction against the library's figures -/
def judgeBound (t : Tables) (ctx : Ctx) (lt sq : Nat) (script : Bytes) (wit : List Bytes)
    (lim : Bool) (staticOps scriptSize pkCost : Nat) (sat : Option SatData) : String :=
  match execStats t ctx lim script wit lt sq with
  | .error e => "bad:exec:" ++ e
  | .ok st =>
    let count := wit.length
    let size := itemsSize wit
    let ssz := scriptSigPushSize wit
    let sizeChecks : List (String × Bool) :=
      [ (s!"scriptsize:{script.length}!={scriptSize}", script.length == scriptSize),
        le "pkcost" script.length pkCost ]
    let satChecks : List (String × Bool) :=
      match sat with
      | none => []      -- the library derives no figure for this script: nothing can undershoot
      | some d =>
        [ le "wcount" count d.wCount, le "wsize" size d.wSize ]
        ++ (if ctx == .tap then [] else
            [ le "sssize" ssz d.ssSize, le "ops" st.ops (staticOps + d.execOps) ])
    -- stack depth: `max_exec_stack_count` is not one of the figures the property lists and is
    -- known to be inexact; what is judged is the LIMIT: with `lim` the run above had
    -- `stackLimits` on, so a peak above 1000 is an execution error
    let limChecks : List (String × Bool) :=
      if !lim then [] else
        (match scriptLimit ctx with
         | some l => [le "limit-scriptsize" script.length l]
         | none => [])
        ++ (if ctx == .segwitv0 then [le "limit-witness-items" count MAX_STANDARD_P2WSH_STACK_ITEMS] else [])
        ++ (if ctx == .legacy then [le "limit-scriptsig" (ssz + minimalPushLen script) MAX_STANDARD_SCRIPTSIG_SIZE] else [])
    firstBad (sizeChecks ++ satChecks ++ limChecks)

def opsBounds (t : Tables) (kind op : String) (args : List String) : Option String :=
  match kind, op, args with
  -- J bound <ctx> <ast> <assets> <mode> <pad> | <lt> <sq> <script> <wit> lim= st= ssz= pkc= sat=
  | "J", "bound", ctx :: _ast :: _assets :: _mode :: _pad :: "|" :: lt :: sq :: script :: wit ::
      lim :: st :: ssz :: pkc :: sat :: _ => do
    let ctx ← parseCtx ctx; let lt ← lt.toNat?; let sq ← sq.toNat?
    let script ← Hash.ofHex script; let wit ← parseHexList wit
    let lim ← kvNat "lim" lim; let st ← kvNat "st" st; let ssz ← kvNat "ssz" ssz
    let pkc ← kvNat "pkc" pkc; let sat ← (kv "sat" sat).bind parseSatData
    pure (judgeBound t ctx lt sq script wit (lim == 1) st ssz pkc sat)
  -- J descw <kind> <input> <assets> <mode> <pad> | <scriptSig> <witness> claimed=<wu|none> txin_delta=<rust-bitcoin's figure>
  | "J", "descw", _kind :: _input :: _assets :: _mode :: _pad :: "|" :: ss :: wit :: claimed :: delta :: _ => do
    let ss ← Hash.ofHex ss; let wit ← parseHexList wit
    let claimed ← kv "claimed" claimed; let delta ← kvNat "txin_delta" delta
    let measured := txinWeightDelta ss wit
    if measured != delta then pure s!"bad:spec-weight {measured} != rust-bitcoin {delta}"
    else match claimed.toNat? with
      | none => pure "ok"   -- the library derives no figure (Err): nothing can undershoot
      | some c => pure (firstBad [le "weight" measured c])
  -- J planw <kind> <input> <assets> <mode> <pad> <src> | <scriptSig> <witness> claimed=<witness_size>,<scriptsig_size>,<satisfaction_weight>
  | "J", "planw", _kind :: _input :: _assets :: _mode :: _pad :: _src :: "|" :: ss :: wit :: claimed :: _ => do
    let ss ← Hash.ofHex ss; let wit ← parseHexList wit
    let claimed ← kv "claimed" claimed
    match (claimed.splitOn ",").mapM String.toNat? with
    | some [cw, cs, cwt] =>
      -- Plan::witness_size: "Returns 0 if there is no witness"; Plan::scriptsig_size: "including the var-int prefix"
      let mw := if wit.isEmpty then 0 else witnessSerSize wit
      let ms := scriptSigSerSize ss
      pure (firstBad [le "witness_size" mw cw, le "scriptsig_size" ms cs, le "satisfaction_weight" (4 * ms + mw) cwt])
    | _ => none
  | _, _, _ => none

end MsVerif.Driver

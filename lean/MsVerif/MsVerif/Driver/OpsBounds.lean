/-
Judge ops of C09 (static size / resource figures are upper bounds).  Every line carries an
OUTPUT of the implementation (script, witness, scriptSig) together with the figures the
implementation claims; the measuring is done here with the specification functions of
`Spec/Bounds.lean` and by running the Lean Script semantics (`Spec/Script.lean`).
-/
import MsVerif.Driver.OpsMs
import MsVerif.Spec.Bounds
import MsVerif.Model.ExtApi
import MsVerif.Model.Lift

namespace MsVerif.Driver
open MsVerif Script Bounds

/-- `key=value` token -/
def kv (key : String) (tok : String) : Option String :=
  match tok.splitOn "=" with
  | [k, v] => if k == key then some v else none
  | _ => none

def kvNat (key tok : String) : Option Nat := (kv key tok).bind String.toNat?

/-- `(a,b,c,d,e)` as printed by `show_satdata`: wSize, wCount, ssSize, execStack, execOps -/
def parseSatData (s : String) : Option (Option SatData) :=
  if s == "none" then some none else
  let inner := (s.drop 1).dropEnd 1 |>.toString
  match (inner.splitOn ",").mapM String.toNat? with
  | some [a, b, c, d, e] => some (some ⟨a, b, c, d, e⟩)
  | _ => none

structure ExecStats where
  ops : Nat
  peak : Nat
  hasMultisig : Bool

def execStats (t : Tables) (ctx : Ctx) (limits : Bool) (script : Bytes) (witBottomFirst : List Bytes)
    (lockTime seq : Nat) : Except String ExecStats :=
  match parse script with
  | none => .error "unparseable-script"
  | some ops =>
    let env := mkEnv t ctx limits lockTime seq
    match runPeak env ops (State.init witBottomFirst.reverse) witBottomFirst.length with
    | .error e => .error (showErr e)
    | .ok (s, peak) =>
      if !s.conds.isEmpty then .error "unbalanced"
      else match s.core.stack with
        | [a] =>
          if castToBool a then
            .ok ⟨s.core.ops, peak, ops.any fun o => o == .code .checkmultisig || o == .code .checkmultisigverify⟩
          else .error "false"
        | [] => .error "empty-stack"
        | _ => .error "unclean-stack"

def scriptLimit : Ctx → Option Nat
  | .legacy => some MAX_SCRIPT_ELEMENT_SIZE
  | .bare => some MAX_SCRIPT_SIZE
  | .segwitv0 => some MAX_STANDARD_P2WSH_SCRIPT_SIZE
  | .tap => none

/-- all failing checks, if any -/
def firstBad (checks : List (String × Bool)) : String :=
  match checks.filter (fun c => !c.2) with
  | [] => "ok"
  | bad => "bad:" ++ ";".intercalate (bad.map (·.1))

def le (name : String) (measured claimed : Nat) : String × Bool :=
  (s!"{name}:{measured}>{claimed}", decide (measured ≤ claimed))

/-- consensus limit on the script itself (P2SH redeem script push, `MAX_SCRIPT_SIZE`) -/
def b9ConsensusScriptLimit : Ctx → Option Nat
  | .legacy => some MAX_SCRIPT_ELEMENT_SIZE
  | .bare | .segwitv0 => some MAX_SCRIPT_SIZE
  | .tap => none

/-- what the library declares about one script -/
structure B9Declared where
  /-- `Miniscript::within_resource_limits()` -/
  wrl : Bool
  /-- `validate` accepts under the resource limits of `Ctx::CONSENSUS` / `Ctx::SANE` -/
  vCons : Bool
  vSane : Bool
  /-- `max_satisfaction_size()` / `max_satisfaction_witness_elements()` (`none` = `Err`) -/
  maxSize : Option Nat
  maxElems : Option Nat

def b9OptNat (s : String) : Option (Option Nat) :=
  if s == "none" then some none else s.toNat?.map some

/-- `J bound`: measured values of one produced satisfaction against the library's figures and
declarations.  The script is executed with all limits enabled as soon as ONE of the library's
three declarations (`within_resource_limits`, `validate` under the consensus / sane resource
limits) says it is within them. -/
def judgeBound (t : Tables) (ctx : Ctx) (lt sq : Nat) (script : Bytes) (wit : List Bytes)
    (dcl : B9Declared) (staticOps scriptSize pkCost : Nat) (sat : Option SatData) : String :=
  let lim := dcl.wrl
  match execStats t ctx (dcl.wrl || dcl.vCons || dcl.vSane) script wit lt sq with
  | .error e => "bad:exec:" ++ e
  | .ok st =>
    let count := wit.length
    let size := itemsSize wit
    let ssz := scriptSigPushSize wit
    let sizeChecks : List (String × Bool) :=
      [ (s!"scriptsize:{script.length}!={scriptSize}", script.length == scriptSize),
        le "pkcost" script.length pkCost ]
    let satChecks : List (String × Bool) :=
      match sat with
      | none => [("satisfied-but-no-figure", false)]   -- the library calls the script unsatisfiable
      | some d =>
        [ le "wcount" count d.wCount, le "wsize" size d.wSize ]
        ++ (if ctx == .tap then [] else
            [ le "sssize" ssz d.ssSize, le "ops" st.ops (staticOps + d.execOps) ])
    -- the public accessors: `max_satisfaction_size` is the serialized witness items in
    -- Segwitv0 / Tap and the scriptSig pushes in Legacy / Bare; `max_satisfaction_witness_elements`
    -- counts the witness script as well
    let apiChecks : List (String × Bool) :=
      (match dcl.maxSize with
       | none => [("max_satisfaction_size-is-Err", false)]
       | some m => [le "max_satisfaction_size" (if ctx == .tap || ctx == .segwitv0 then size else ssz) m])
      ++ (match dcl.maxElems with
       | none => [("max_satisfaction_witness_elements-is-Err", false)]
       | some m => [le "max_satisfaction_witness_elements" (count + 1) m])
    -- stack depth: `max_exec_stack_count` is not one of the figures the property lists and is
    -- known to be inexact; what is judged is the LIMIT: the run above had `stackLimits` on, so
    -- a peak above 1000 is an execution error
    let limChecks : List (String × Bool) :=
      (if !lim then [] else
        (match scriptLimit ctx with
         | some l => [le "limit-scriptsize" script.length l]
         | none => [])
        ++ (if ctx == .segwitv0 then [le "limit-witness-items" count MAX_STANDARD_P2WSH_STACK_ITEMS] else [])
        ++ (if ctx == .legacy then [le "limit-scriptsig" (ssz + minimalPushLen script) MAX_STANDARD_SCRIPTSIG_SIZE] else []))
      ++ (if !dcl.vCons then [] else
        (match b9ConsensusScriptLimit ctx with
         | some l => [le "consensus-scriptsize" script.length l]
         | none => []))
      ++ (if !dcl.vSane then [] else
        (match scriptLimit ctx with
         | some l => [le "sane-scriptsize" script.length l]
         | none => [])
        ++ (if ctx == .segwitv0 then [le "sane-witness-items" (count + 1) MAX_STANDARD_P2WSH_STACK_ITEMS] else []))
    firstBad (sizeChecks ++ satChecks ++ apiChecks ++ limChecks)

def b9ShowVRes : Except VErr Unit → String
  | .ok _ => "ok"
  | .error .maxScriptSize => "err:script-size"
  | .error .maxWitnessItems => "err:witness-items"
  | .error .maxOpCount => "err:op-count"
  | .error .maxExecStack => "err:exec-stack"
  | .error _ => "err:other"

def b9ShowON : Option Nat → String
  | none => "none"
  | some n => toString n

def opsBounds (t : Tables) (kind op : String) (args : List String) : Option String :=
  match kind, op, args with
  -- model of the public accessors and of the declarations (correspondence)
  | "C", "maxsat", [ctx, ast] => do
    let ctx ← parseCtx ctx; let ms ← parseAst ast
    let e := extOf t.keyEnv ctx ms
    pure s!"{b9ShowON (maxSatSize ctx e)} {b9ShowON (maxSatWitnessElements e)}"
  -- C extvia <route> <ctx> <ast>: the figures stored in an object that was built by another route
  --   than from_ast (text, Script decoding, leaf constructors, translate_pk, Clone): ExtData,
  --   script_size and the two accessors, all in one answer
  | "C", "extvia", [_route, ctx, ast] => do
    let ctx ← parseCtx ctx; let ms ← parseAst ast
    let e := extOf t.keyEnv ctx ms
    pure s!"{showExt e} {scriptSize t.keyEnv ctx ms} {b9ShowON (maxSatSize ctx e)} {b9ShowON (maxSatWitnessElements e)}"
  | "C", "wrl", [ctx, ast] => do
    let ctx ← parseCtx ctx; let ms ← parseAst ast
    pure (if Lift.withinResourceLimits t.keyEnv ctx ms then "1" else "0")
  | "C", "rescheck", [ctx, which, ast] => do
    let ctx ← parseCtx ctx; let ms ← parseAst ast
    let p := resourceOnly (if which == "consensus" then Ctx.CONSENSUS ctx else Ctx.SANE ctx)
    pure (b9ShowVRes (resourceCheck p (scriptSize t.keyEnv ctx ms) (extOf t.keyEnv ctx ms)))
  -- J bound <ctx> <ast> <assets> <mode> <pad> | <lt> <sq> <script> <wit> lim= st= ssz= pkc= sat= vc= vs= mss= mwe=
  | "J", "bound", ctx :: _ast :: _assets :: _mode :: _pad :: "|" :: lt :: sq :: script :: wit ::
      lim :: st :: ssz :: pkc :: sat :: vc :: vs :: mss :: mwe :: _ => do
    let ctx ← parseCtx ctx; let lt ← lt.toNat?; let sq ← sq.toNat?
    let script ← Hash.ofHex script; let wit ← parseHexList wit
    let lim ← kvNat "lim" lim; let st ← kvNat "st" st; let ssz ← kvNat "ssz" ssz
    let pkc ← kvNat "pkc" pkc; let sat ← (kv "sat" sat).bind parseSatData
    let vc ← kvNat "vc" vc; let vs ← kvNat "vs" vs
    let mss ← (kv "mss" mss).bind b9OptNat; let mwe ← (kv "mwe" mwe).bind b9OptNat
    pure (judgeBound t ctx lt sq script wit ⟨lim == 1, vc == 1, vs == 1, mss, mwe⟩ st ssz pkc sat)
  -- J descw <kind> <input> <assets> <mode> <pad> | <scriptSig> <witness> claimed=<wu|none> txin_delta=<rust-bitcoin's figure>
  --   fresh= the same accessor BEFORE the object was used, inner= the inner descriptor type's own method
  | "J", "descw", _kind :: _input :: _assets :: _mode :: _pad :: "|" :: ss :: wit :: claimed :: delta :: rest => do
    let ss ← Hash.ofHex ss; let wit ← parseHexList wit
    let claimed ← kv "claimed" claimed; let delta ← kvNat "txin_delta" delta
    let measured := txinWeightDelta ss wit
    let extra : List (String × Bool) := rest.filterMap fun tok =>
      match tok.splitOn "=" with
      | [k, v] => some (match v.toNat? with
          | some c => le s!"weight-{k}" measured c
          | none => (s!"satisfied-but-{k}-figure-is-{v}", false))
      | _ => none
    if measured != delta then pure s!"bad:spec-weight {measured} != rust-bitcoin {delta}"
    else match claimed.toNat? with
      | none => pure "bad:satisfied-but-max_weight_to_satisfy-is-Err"
      | some c => pure (firstBad ([le "weight" measured c] ++ extra))
  -- J declared <ctx> <ast> | pkc= st= sat= mss= mwe=      (only for `within_resource_limits` scripts)
  --   the figures of a script the library declares within the limits of its context are within
  --   them: script size (520 / 10000 / 3600), 201 executed opcodes outside Tap, scriptSig 1650
  --   (Legacy: satisfaction + redeem script push), 100 witness items besides the script (Segwitv0), 1000 stack elements (Tap)
  | "J", "declared", ctx :: _ast :: "|" :: pkc :: st :: sat :: mss :: mwe :: ssz :: _ => do
    let ctx ← parseCtx ctx; let ssz ← kvNat "ssz" ssz
    let pkc ← kvNat "pkc" pkc; let st ← kvNat "st" st; let sat ← (kv "sat" sat).bind parseSatData
    let mss ← (kv "mss" mss).bind b9OptNat; let mwe ← (kv "mwe" mwe).bind b9OptNat
    match sat, mss, mwe with
    | some d, some mss, some mwe =>
      pure (firstBad (
        (match scriptLimit ctx with
         | some l => [le "declared-scriptsize" pkc l]
         | none => [])
        ++ (if ctx == .tap then [le "declared-stack" (d.wCount + d.execStack) 1000]
            else [le "declared-ops" (st + d.execOps) 201])
        -- Legacy = P2SH: the scriptSig is the satisfaction plus the push of the redeem script
        ++ (if ctx == .legacy then
              [le "declared-scriptsig" (mss + (pushPrefix ssz).length + ssz) MAX_STANDARD_SCRIPTSIG_SIZE] else [])
        ++ (if ctx == .segwitv0 then [le "declared-witness-items" (mwe - 1) MAX_STANDARD_P2WSH_STACK_ITEMS] else [])))
    -- no satisfaction figure: the library calls the script unsatisfiable (Tap declares such
    -- scripts within limits, the other contexts do not); only the script size says anything
    | _, _, _ => pure (firstBad (match scriptLimit ctx with
         | some l => [le "declared-scriptsize" pkc l]
         | none => []))
  -- J desclim <kind> <input> <assets> <mode> <pad> | <scriptSig> <witness>
  --   emitted only for sh / wsh / sh-wsh descriptors whose miniscript is `within_resource_limits`: the spend the
  --   library produced stays within the standardness limits (scriptSig 1650 bytes INCLUDING the
  --   redeem script push; P2WSH: 100 witness items besides the script, script 3600 bytes)
  | "J", "desclim", kind :: _input :: _assets :: _mode :: _pad :: "|" :: ss :: wit :: _ => do
    let ss ← Hash.ofHex ss; let wit ← parseHexList wit
    let segwit := kind == "wsh" || kind == "sh-wsh"
    pure (firstBad ([le "limit-scriptsig" ss.length MAX_STANDARD_SCRIPTSIG_SIZE]
      ++ (if segwit then
            [le "limit-witness-items" (wit.length - 1) MAX_STANDARD_P2WSH_STACK_ITEMS,
             le "limit-scriptsize" ((wit.getLast?.map (·.length)).getD 0) MAX_STANDARD_P2WSH_SCRIPT_SIZE]
          else [])))
  -- J descwold <kind> <input> <assets> <mode> <pad> | <scriptSig> <witness> claimed=<wu|none>
  --   the deprecated `max_satisfaction_weight`: 4 x (scriptSig with its CompactSize) + the
  --   serialized witness (nothing for an empty witness)
  | "J", "descwold", _kind :: _input :: _assets :: _mode :: _pad :: "|" :: ss :: wit :: claimed :: rest => do
    let ss ← Hash.ofHex ss; let wit ← parseHexList wit
    let claimed ← kv "claimed" claimed
    let measured := 4 * scriptSigSerSize ss + (if wit.isEmpty then 0 else witnessSerSize wit)
    let extra : List (String × Bool) := rest.filterMap fun tok =>
      match tok.splitOn "=" with
      | [k, v] => some (match v.toNat? with
          | some c => le s!"old-weight-{k}" measured c
          | none => (s!"satisfied-but-{k}-figure-is-{v}", false))
      | _ => none
    match claimed.toNat? with
    | none => pure "bad:satisfied-but-max_satisfaction_weight-is-Err"
    | some c => pure (firstBad ([le "old-weight" measured c] ++ extra))
  -- J planw <kind> <input> <assets> <mode> <pad> <src> | <scriptSig> <witness> claimed=<witness_size>,<scriptsig_size>,<satisfaction_weight>|none
  --   src = getsat / plansat: the spend produced by get_satisfaction / Plan::satisfy, all three sizes
  --   src = items: only the witness ITEMS the plan's template stands for (the trailing witness
  --         script of wsh / sh(wsh) is dropped before measuring; that it is missing from
  --         `witness_size` is the known finding keyed on the fixed corpus)
  | "J", "planw", _kind :: _input :: _assets :: _mode :: _pad :: src :: "|" :: ss :: wit :: claimed :: _ => do
    let ss ← Hash.ofHex ss; let wit ← parseHexList wit
    let claimed ← kv "claimed" claimed
    if claimed == "none" then pure "bad:no-plan-for-a-produced-satisfaction" else
    match (claimed.splitOn ",").mapM String.toNat? with
    | some [cw, cs, cwt] =>
      if src == "items" then pure (firstBad [le "witness_items" (witnessSerSize wit.dropLast) cw]) else
      -- Plan::witness_size: "Returns 0 if there is no witness"; Plan::scriptsig_size: "including the var-int prefix"
      let mw := if wit.isEmpty then 0 else witnessSerSize wit
      let ms := scriptSigSerSize ss
      pure (firstBad [le "witness_size" mw cw, le "scriptsig_size" ms cs, le "satisfaction_weight" (4 * ms + mw) cwt])
    | _ => none
  | _, _, _ => none

end MsVerif.Driver

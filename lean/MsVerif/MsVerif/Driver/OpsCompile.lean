/-
C08 ops: the Lean-verified checker (`Model/CompileCheck.lean`, sound by `Thm/C08.lean`) applied
to the outputs of the real policy compiler.

  J compiled   <ctx[:descriptor kind]> <policy> <ast> <ty|ext of every node, pre-order, `;`>
  J compiledtr <entry> <policy> <internal key id|UNSPENDABLE> <leaf;…|-> <annotations `;;` per leaf|->
  J reparse    <target> <policy> <printed output> <verdict computed by the harness>
  J compiledsane <ctx[:kind]> <policy> <ast> <annotations>  (large outputs: everything of `compiled` except
                                                             the 2^n world enumeration; O(n) probe worlds instead)
  J refuses    <ctx> <entry> <policy> <Ok | Err:kind | PANIC> (no conforming output exists => not Ok)
  J compiles   <ctx> <policy> <Ok | Err:kind | PANIC>       (small sane policies must compile)
  J trlift     <entry> <policy> <unspendable key id | -> <library's lift of the descriptor | ERR:kind>
  J lift       <target> <policy> - <library's lift of a compiled miniscript / bare, sh, wsh, sh(wsh) descriptor>
  J desckind   <requested DescriptorCtx> <policy> <DescriptorType of what compile_to_descriptor returned>
  C sane       <ctx> <ast>                                  (model of `validate(&Ctx::SANE)`)
-/
import MsVerif.Driver.OpsMs
import MsVerif.Driver.OpsPolicy
import MsVerif.Model.CompileCheck
import MsVerif.Model.Validate

namespace MsVerif.Driver
open MsVerif MsVerif.CC

/-- the shared model of `Miniscript::validate` (Model/Validate.lean, property C12) with the
context's `SANE` parameters: must agree with `CC.validateSane` (checked on every line that uses
either) -/
def saneByC12 (env : KeyEnv) (ctx : Ctx) (m : Ms) : Bool :=
  isOk (validate env ⟨keyKindOf env, fun _ => 0⟩ ctx ctx.SANE m)

/-- `segwitv0:wsh` ↦ segwitv0 -/
def parseTarget (s : String) : Option Ctx := parseCtx ((s.splitOn ":").headD "")

/-- what the compiler should have attached to every node, pre-order: `<type>|<ext>` -/
def annotStrs (env : KeyEnv) (ctx : Ctx) (m : Ms) : List String :=
  (subterms m).map fun n =>
    (match typeOf n with | some t => t.toStr | none => "ERR") ++ "|"
      ++ (showExt (extOf env ctx n)).replace " " "_"

/-- index of the first position where two lists differ -/
def firstDiff : Nat → List String → List String → Option Nat
  | _, [], [] => none
  | i, a :: as, b :: bs => if a == b then firstDiff (i + 1) as bs else some i
  | i, _, _ => some i

def showAtomC (a : Atom) : String := PolicyOps.showAtom a

/-- a world, restricted to the atoms that matter -/
def showWorld (L : List Atom) (W : World) : String :=
  let avail := (nonLocks L).filter W.val
  "avail=[" ++ ",".intercalate (avail.map showAtomC) ++ s!"],nLockTime={W.nLockTime},nSequence={W.nSequence}"

/-- which part of `validateRest` fails (diagnostics only) -/
def whyInsane (env : KeyEnv) (ctx : Ctx) (m : Ms) : String :=
  let p := saneParams ctx
  let e := extOf env ctx m
  match typeOf m with
  | none => "ill-typed"
  | some ty =>
    if !decide (e.treeHeight ≤ 402) then "depth"
    else if hasDup (msKeys m) then "duplicate-keys"
    else if e.timelockInfo.containsCombination then "mixed-timelocks"
    else if !(subterms m).all (nodeOk env p) then "fragment-or-key-kind"
    else if !leOpt (scriptSize env ctx m) p.maxScriptSize then "script-size"
    else if !ty.mall.nonMall then "malleable"
    else if !(ty.corr.base == .B) then "not-B"
    else if !ty.mall.signed then "sigless"
    else if !fragsIfOk ctx m then "d-or-or_i-not-allowed-in-this-context"
    else "resource-limits"

def rootTy (ann : String) : Option Ty :=
  Ty.ofStr? (((((ann.splitOn ";").headD "").splitOn "|").headD ""))

def judgeCompiled (t : Tables) (target policy ast ann : String) : Option String := do
  let ctx ← parseTarget target
  let P ← PolicyOps.parseCPolicy policy
  if ast == "UNMAPPABLE" then pure "bad:output-not-over-the-table-atoms" else
  let out ← parseAst ast
  let env := t.keyEnv
  match firstDiff 0 (ann.splitOn ";") (annotStrs env ctx out) with
  | some i => pure s!"bad:annotation(node#{i})"
  | none =>
  match rootTy ann with
  | none => pure "bad:annotation(root-type-unreadable)"
  | some ty =>
  if !(typeOf out == some ty) then pure "bad:type" else
  if !((ty.corr.base == .B) && ty.mall.signed && ty.mall.nonMall) then pure "bad:top(B,signed,nonmalleable)" else
  if validateSane env ctx out != saneByC12 env ctx out then pure "bad:models-of-validate-disagree" else
  if !validateSane env ctx out then pure s!"bad:sane({whyInsane env ctx out})" else
  match firstBad P out with
  | some W => pure s!"bad:semantics({showWorld (Pol.atomsOfC P ++ msAtoms out) W}:policy={Pol.holdsCW W P},output={semMs out W})"
  | none =>
    -- the verdict of the verified checker itself
    if checkCompile env P ctx out ty then pure "ok" else pure "bad:checker-inconsistent"

/-- `J compiledsane`: large outputs -/
def judgeCompiledSane (t : Tables) (target policy ast ann : String) : Option String := do
  let ctx ← parseTarget target
  let P ← PolicyOps.parseCPolicy policy
  if ast == "UNMAPPABLE" then pure "bad:output-not-over-the-table-atoms" else
  let out ← parseAst ast
  let env := t.keyEnv
  match firstDiff 0 (ann.splitOn ";") (annotStrs env ctx out) with
  | some i => pure s!"bad:annotation(node#{i})"
  | none =>
  match rootTy ann with
  | none => pure "bad:annotation(root-type-unreadable)"
  | some ty =>
  if !(typeOf out == some ty) then pure "bad:type" else
  if !((ty.corr.base == .B) && ty.mall.signed && ty.mall.nonMall) then pure "bad:top(B,signed,nonmalleable)" else
  if validateSane env ctx out != saneByC12 env ctx out then pure "bad:models-of-validate-disagree" else
  if !validateSane env ctx out then pure s!"bad:sane({whyInsane env ctx out})" else
  match firstBadProbe P out with
  | some W => pure s!"bad:semantics({showWorld (Pol.atomsOfC P ++ msAtoms out) W}:policy={Pol.holdsCW W P},output={semMs out W})"
  | none => pure "ok"

/-- `trnative<N>-…` ↦ N -/
def nativeCap (entry : String) : Option Nat :=
  if entry.startsWith "trnative" then
    ((((entry.drop 8).toString.splitOn "-").headD "")).toNat?
  else none

def parseLeaves (s : String) : Option (List Ms) :=
  if s == "-" then some [] else (s.splitOn ";").mapM parseAst

def judgeCompiledTr (t : Tables) (entry policy internal leaves anns : String) : Option String := do
  let P ← PolicyOps.parseCPolicy policy
  if (leaves.splitOn ";").contains "UNMAPPABLE" || internal == "?" then
    pure "bad:output-not-over-the-table-atoms" else
  let ls ← parseLeaves leaves
  let ik : Option Key ← (if internal == "UNSPENDABLE" then some none else internal.toNat?.map some)
  let env := t.keyEnv
  let annL := if anns == "-" then [] else anns.splitOn ";;"
  if annL.length != ls.length then pure "bad:annotation(count)" else
  let pairs := ls.zip annL
  match pairs.findIdx? (fun p => (firstDiff 0 (p.2.splitOn ";") (annotStrs env .tap p.1)).isSome) with
  | some i => pure s!"bad:annotation(leaf#{i})"
  | none =>
  match pairs.mapM (fun p => (rootTy p.2).map (fun ty => (p.1, ty))) with
  | none => pure "bad:annotation(root-type-unreadable)"
  | some claimed =>
  match claimed.findIdx? (fun l => !checkLeaf env l) with
  | some i => pure s!"bad:leaf#{i}({whyInsane env .tap ((claimed.getD i (.fls, Ty.FALSE)).1)})"
  | none =>
  if entry.startsWith "trnative" && !(ls.all noIfFragment) then pure "bad:native-leaf-with-IF" else
  if (match nativeCap entry with | some n => decide (ls.length > min n 1024) | none => false) then
    pure "bad:more-leaves-than-max_leaves" else
  let tr : TrOut := ⟨ik, ls⟩
  if !internalFresh ik ls then pure "bad:internal-key-reappears-in-a-leaf" else
  match firstBadTr P tr with
  | some W => pure s!"bad:semantics({showWorld (Pol.atomsOfC P ++ trAtoms tr) W}:policy={Pol.holdsCW W P},output={semTr tr W})"
  | none => if checkCompileTr env P ik claimed then pure "ok" else pure "bad:checker-inconsistent"

def opsCompile (t : Tables) (kind op : String) (args : List String) : Option String :=
  match kind, op, args with
  | "J", "compiled", [target, policy, ast, ann] => judgeCompiled t target policy ast ann
  | "J", "compiledtr", [entry, policy, internal, leaves, anns] =>
    judgeCompiledTr t entry policy internal leaves anns
  | "J", "reparse", [_target, _policy, _printed, verdict] =>
    some (if verdict == "same/sane" then "ok" else s!"bad:{verdict}")
  | "J", "compiledsane", [target, policy, ast, ann] => judgeCompiledSane t target policy ast ann
  | "J", "refuses", [ctx, _entry, policy, outcome] => do
    let ctx ← parseCtx ctx
    let P ← PolicyOps.parseCPolicy policy
    pure (if outcome == "Ok" && mustRefuse t.keyEnv ctx P then "bad:compiled-a-policy-that-has-no-conforming-output" else "ok")
  | "J", "compiles", [ctx, policy, outcome] => do
    let ctx ← parseCtx ctx
    let P ← PolicyOps.parseCPolicy policy
    -- keys of a kind the context forbids are a legitimate reason to refuse
    let kindsOk := (keyIds (Pol.atomsOfC P)).all (pkOk t.keyEnv (saneParams ctx))
    pure (if mustCompile P && kindsOk && outcome != "Ok" then s!"bad:small-sane-policy-did-not-compile({outcome})" else "ok")
  | "J", "trlift", [_entry, policy, unsp, lifted] => do
    let P ← PolicyOps.parseCPolicy policy
    let u : Option Nat ← (if unsp == "-" then some none else unsp.toNat?.map some)
    -- a compiled policy passed `check_timelocks`; its descriptor must be liftable
    if lifted.startsWith "ERR" then pure s!"bad:compiled-descriptor-does-not-lift({lifted})" else
    let q ← PolicyOps.parsePolicy lifted
    pure (if trLiftOk u P q then "ok" else "bad:lift-of-compiled-tr-differs-from-policy")
  | "J", "lift", [_target, policy, _unsp, lifted] => do
    let P ← PolicyOps.parseCPolicy policy
    if lifted.startsWith "ERR" then pure s!"bad:compiled-output-does-not-lift({lifted})" else
    let q ← PolicyOps.parsePolicy lifted
    pure (if trLiftOk none P q then "ok" else "bad:lift-of-compiled-output-differs-from-policy")
  | "J", "desckind", [kind, _policy, actual] =>
    -- the descriptor is of the kind that was asked for (the TARGET context, not merely some context)
    let want := match kind with
      | "bare" => "Bare" | "sh" => "Sh" | "wsh" => "Wsh" | "shwsh" => "ShWsh"
      | "tr-none" | "tr-unsp" => "Tr" | _ => "?"
    some (if actual == want then "ok" else s!"bad:asked-for-{kind}-got-{actual}")
  | "C", "sane", [ctx, ast] => do
    let ctx ← parseCtx ctx
    let m ← parseAst ast
    if validateSane t.keyEnv ctx m != saneByC12 t.keyEnv ctx m then pure "models-of-validate-disagree" else
    pure (if validateSane t.keyEnv ctx m then "ok" else "err")
  | _, _, _ => none

end MsVerif.Driver

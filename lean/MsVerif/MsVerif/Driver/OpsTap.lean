/-
C15 ops: tap-tree model (C lines) and BIP341 specification (J lines), both instantiated with
the free term algebra over leaf ids (`Spec.termAlg`).  A term is printed in the descriptor's
own syntax: leaf id `n` ↦ `n`, `branch a b` ↦ `{a,b}`.

  C taproot <d0,d1,…>            model of Tr::spend_info on that depth list (leaf ids = positions):
                                 `<root>|<depth>:<id>:<e1>/<e2>/…|…`  (`-` = empty branch), or PANIC
  C tapbuild <I/L string>        TapTreeBuilder fed by Tr::from_tree: `d:id,…` or ERR
  C tapcombine <dl> <dr>         TapTree::combine: `d:id,…` or ERR
  C tapfmt <d0,d1,…>             Display for TapTree: `{{0,1},2}`
  J merklespec <shape> <answer>  the implementation's `taproot` answer equals the specification's
                                 (root, pre-order leaves, depths, sibling paths) for that tree
  J depthspec <shape> <d:id,…>   the implementation's depth list is `Spec.Tree.depths shape`
  J fmtspec <shape> <text>       the implementation's Display text is `Spec.Tree.tokens shape`
  J rustoracle <name> <shape> <pass|fail:…>   verdict of an oracle that lives in rust-bitcoin
                                 (independent of the code under test): ok iff `pass`
-/
import MsVerif.Model.TapTree

namespace MsVerif.Driver
open MsVerif.Spec MsVerif.Tap

/-- append the text of a term to `acc` -/
def termAcc : NodeT → String → String
  | .leaf id, acc => acc ++ toString id
  | .branch a b, acc => (termAcc b ((termAcc a (acc.push '{')).push ',')).push '}'

def termStr (t : NodeT) : String := termAcc t ""

def parseDepths (s : String) : Option (List Nat) :=
  if s == "-" then some [] else (s.splitOn ",").mapM String.toNat?

def withIds (ds : List Nat) (start : Nat) : List (Nat × Nat) :=
  (ds.zipIdx start)

def showDepths (t : List (Nat × Nat)) : String :=
  ",".intercalate (t.map (fun p => toString p.1 ++ ":" ++ toString p.2))

/-- `<depth>:<id>:<e1>/<e2>/…` -/
def itemAcc (acc : String) (depth id : Nat) (branch : List NodeT) : String :=
  let acc := ((acc ++ toString depth).push ':' ++ toString id).push ':'
  match branch with
  | [] => acc.push '-'
  | e :: es => es.foldl (fun a x => termAcc x (a.push '/')) (termAcc e acc)

def spendAnswer (rt : NodeT) (items : List (Nat × Nat × List NodeT)) : String :=
  items.foldl (fun a it => itemAcc (a.push '|') it.1 it.2.1 it.2.2) (termStr rt)

/-- the MODEL's answer for `taproot` -/
def taprootModel (tree : TapTree Nat) : String :=
  match nodesFromTapTree termAlg tree with
  | none => "PANIC"
  | some nodes =>
    match merkleRootOf nodes, leavesOf nodes with
    | some rt, some items => spendAnswer rt (items.map (fun it => (it.depth, it.leaf, it.merkleBranch)))
    | _, _ => "PANIC"

/-- the SPECIFICATION's answer for the same question -/
def taprootSpec (t : Tree Nat) : String :=
  spendAnswer (Tree.root termAlg t)
    ((Tree.siblingPaths termAlg t).map (fun p => (p.2.length, p.1, p.2)))

def parseOps (s : String) : Option (List (BOp Nat)) :=
  let step (st : Option (List (BOp Nat) × Nat)) (c : Char) : Option (List (BOp Nat) × Nat) :=
    match st with
    | none => none
    | some (acc, n) =>
      if c == 'I' then some (BOp.inner :: acc, n)
      else if c == 'L' then some (BOp.leaf n :: acc, n + 1)
      else none
  (s.toList.foldl step (some ([], 0))).map (fun r => r.1.reverse)

/-! shape parser: `{l,r}` / decimal leaf id, by a fold with an explicit stack -/
inductive PItem | mark | tree (t : Tree Nat)

structure PState where
  stack : List PItem := []
  cur : Option Nat := none
  bad : Bool := false

def PState.flush (st : PState) : PState :=
  match st.cur with
  | some n => { st with stack := .tree (.leaf n) :: st.stack, cur := none }
  | none => st

def pstep (st : PState) (c : Char) : PState :=
  if c.isDigit then
    { st with cur := some ((st.cur.getD 0) * 10 + (c.toNat - '0'.toNat)) }
  else
    let st := st.flush
    if c == '{' then { st with stack := .mark :: st.stack }
    else if c == ',' then st
    else if c == '}' then
      match st.stack with
      | .tree r :: .tree l :: .mark :: rest => { st with stack := .tree (.node l r) :: rest }
      | _ => { st with bad := true }
    else { st with bad := true }

def parseShape (s : String) : Option (Tree Nat) :=
  let st := (s.toList.foldl pstep {}).flush
  if st.bad then none else
  match st.stack with
  | [.tree t] => some t
  | _ => none

def tokStr : List (Tok Nat) → String → String
  | [], acc => acc
  | .lbrace :: r, acc => tokStr r (acc.push '{')
  | .rbrace :: r, acc => tokStr r (acc.push '}')
  | .comma :: r, acc => tokStr r (acc.push ',')
  | .script s :: r, acc => tokStr r (acc ++ toString s)

def okbadT (b : Bool) : String := if b then "ok" else "bad"

def opsTap (kind op : String) (args : List String) : Option String :=
  match kind, op, args with
  | "C", "taproot", [ds] => do
    let ds ← parseDepths ds
    pure (taprootModel (withIds ds 0))
  | "C", "tapbuild", [ops] => do
    let ops ← parseOps ops
    pure (match buildFromOps ops with | some t => showDepths t | none => "ERR")
  | "C", "tapcombine", [l, r] => do
    let l ← parseDepths l; let r ← parseDepths r
    pure (match TapTree.combine (withIds l 0) (withIds r l.length) with
      | some t => showDepths t | none => "ERR")
  | "C", "tapfmt", [ds] => do
    let ds ← parseDepths ds
    pure (tokStr (TapTree.fmt (withIds ds 0)) "")
  | "J", "merklespec", [shape, ans] => do
    let t ← parseShape shape
    pure (okbadT (taprootSpec t == ans))
  | "J", "depthspec", [shape, ans] => do
    let t ← parseShape shape
    pure (okbadT (showDepths (Tree.depths t) == ans))
  | "J", "fmtspec", [shape, ans] => do
    let t ← parseShape shape
    pure (okbadT (tokStr (Tree.tokens t) "" == ans))
  | "J", "rustoracle", [_name, _shape, verdict] => pure (okbadT (verdict == "pass"))
  | _, _, _ => none

end MsVerif.Driver

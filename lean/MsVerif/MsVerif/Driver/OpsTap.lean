/-
C15 ops: tap-tree model (C lines) and BIP341 specification (J lines), both instantiated with
the free term algebra over leaf ids (`Spec.termAlg`).  A term is printed in the descriptor's
own syntax: leaf id `n` ↦ `n`, `branch a b` ↦ `{a,b}`.

  C taproot <d0,d1,…>            model of Tr::spend_info on that depth list (leaf ids = positions):
                                 `<root>|<depth>:<id>:<e1>/<e2>/…|…`  (`-` = empty branch), or PANIC
  C tapbuild <I/L string>        TapTreeBuilder fed by Tr::from_tree: `d:id,…` or ERR
  C tapcombine <dl> <dr>         TapTree::combine: `d:id,…` or ERR
  C tapfmt <d0,d1,…>             Display for TapTree: `{{0,1},2}`
  J merklespec <shape> <answer>  the implementation's `taproot` answer equals the specification's
                                 (root, pre-order leaves, depths, sibling paths) for that tree
  J depthspec <shape> <d:id,…>   the implementation's depth list is `Spec.Tree.depths shape`
  J fmtspec <shape> <text>       the implementation's Display text is `Spec.Tree.tokens shape`
  J rustoracle <name> <shape> <pass|fail:…>   verdict of an oracle that lives in rust-bitcoin
                                 (independent of the code under test): ok iff `pass`

Trees whose leaves REPEAT (the same script at several positions) use leaf LABELS and a
commutative-canonical term text (`{a,b}` with the textually smaller child first), because equal
subtrees then have equal hashes:
  C taprootl <d0,d1,…> <l0,l1,…>   model of Tr::spend_info, leaves labelled l_i
  J merklespecl <labelled shape> <answer>   the same answer from the specification

Byte-level judges (real SHA-256 tagged hashes, Spec/Bip341.lean; Spec/Bech32m.lean; Spec/Outputs.lean):
  J trcommit <shape|-> <script hex,…|-> <internal x-only key> <oracle output key> <oracle parity 0|1>
             <library merkle root|-> <library output key> <library parity> <control block hex,…|->
        the library's root is the BIP341 root of the tree of those scripts (by position); its output
        key/parity are what libsecp's tap_tweak gives for the internal key and THAT root (oracle
        columns); every control block is well-formed, carries version 0xc0, the parity bit, the
        internal key and exactly the specification's sibling path of its leaf, and folds
        (`committedRoot`) to the root
  J traddr <api> <network> <output key> <scriptPubKey hex> <address>   `OP_1 <32>` and the Bech32m address
  J trwitness <root> <internal x-only key> <parity 0|1> <script hex> <control block hex>
        the (script, control block) pair that `Tr::get_satisfaction` chose for the witness commits to
        the tree's root (BIP341 script-path computation), with the right key and parity bit
  J trleafpk <key hex (33 or 32 bytes)> <script hex>   tapscript of `pk(K)` is `<x-only K> OP_CHECKSIG`
  J rdepthspec / rmerklespec / rmerklespecl <route> <shape> <answer>   depthspec / merklespec(l) for an object obtained
        through another construction route or observed in another state (the route is named on the line)
  J trdepthset <route> <shape> <d:id,…>   the leaves with their depths, as a multiset, are the specification's
        (Huffman trees: the compiler may order siblings as it likes)
  J trrefused <class> <input> <ERR|accepted|PANIC>   an input BIP 386 / BIP 341 excludes (a `{}` node without exactly two
        children, an uncompressed key, a fragment Tapscript lacks, depth 129) is refused with an error
  J trpsbt <shape> <script hex,…> <internal key> <merkle root> <depth:script,…> <cb:script,…>   what a PSBT carries after
        update + serialize + deserialize: the output's tap_tree (BIP 371 depth list) decodes to a tree with the
        specification's Merkle root and the specification's leaves-with-depths; every (control block, script)
        of the input's tap_scripts commits to that root with the internal key; every leaf script is present
  J trleafscript <template> <key hex,…> <script hex>   tapscript of pk / multi_a:k / sortedmulti_a:k /
        pkh_older:n over 33- or 32-byte keys (Spec/TapTemplates.lean: x-only pushes, x-only sort, x-only hash)
  J trwitnessmin <shape> <script hex,…> <chosen script> <chosen control block>   among the positions that
        carry the chosen script, the chosen control block belongs to a shallowest one
  C trtranslate <d0,d1,…> <acts>   Tr::translate_pk with a translator whose j-th call keeps (k), fails (f)
        or returns an uncompressed key (u); acts has one letter per leaf, then one for the internal
        key: `ok:<d:id,…>` / `translator-err` / `outer-err`
  J trdepthlimit <shape> <combine verdict> <parse verdict>   accept iff height <= 128, else ERR; never PANIC
-/
import MsVerif.Model.TapTree
import MsVerif.Lemmas.TapTreeBip341
import MsVerif.Spec.Bech32m
import MsVerif.Spec.Outputs
import MsVerif.Spec.TapTemplates
import MsVerif.Lemmas.TapTreeDecode

namespace MsVerif.Driver
open MsVerif.Spec MsVerif.Tap

/-- append the text of a term to `acc` -/
def termAcc : NodeT → String → String
  | .leaf id, acc => acc ++ toString id
  | .branch a b, acc => (termAcc b ((termAcc a (acc.push '{')).push ',')).push '}'

def termStr (t : NodeT) : String := termAcc t ""

def parseDepths (s : String) : Option (List Nat) :=
  if s == "-" then some [] else (s.splitOn ",").mapM String.toNat?

def withIds (ds : List Nat) (start : Nat) : List (Nat × Nat) :=
  (ds.zipIdx start)

def showDepths (t : List (Nat × Nat)) : String :=
  ",".intercalate (t.map (fun p => toString p.1 ++ ":" ++ toString p.2))

/-- `<depth>:<id>:<e1>/<e2>/…` -/
def itemAcc (acc : String) (depth id : Nat) (branch : List NodeT) : String :=
  let acc := ((acc ++ toString depth).push ':' ++ toString id).push ':'
  match branch with
  | [] => acc.push '-'
  | e :: es => es.foldl (fun a x => termAcc x (a.push '/')) (termAcc e acc)

def spendAnswer (rt : NodeT) (items : List (Nat × Nat × List NodeT)) : String :=
  items.foldl (fun a it => itemAcc (a.push '|') it.1 it.2.1 it.2.2) (termStr rt)

/-- the MODEL's answer for `taproot` -/
def taprootModel (tree : TapTree Nat) : String :=
  match nodesFromTapTree termAlg tree with
  | none => "PANIC"
  | some nodes =>
    match merkleRootOf nodes, leavesOf nodes with
    | some rt, some items => spendAnswer rt (items.map (fun it => (it.depth, it.leaf, it.merkleBranch)))
    | _, _ => "PANIC"

/-- the SPECIFICATION's answer for the same question -/
def taprootSpec (t : Tree Nat) : String :=
  spendAnswer (Tree.root termAlg t)
    ((Tree.siblingPaths termAlg t).map (fun p => (p.2.length, p.1, p.2)))

def parseOps (s : String) : Option (List (BOp Nat)) :=
  let step (st : Option (List (BOp Nat) × Nat)) (c : Char) : Option (List (BOp Nat) × Nat) :=
    match st with
    | none => none
    | some (acc, n) =>
      if c == 'I' then some (BOp.inner :: acc, n)
      else if c == 'L' then some (BOp.leaf n :: acc, n + 1)
      else none
  (s.toList.foldl step (some ([], 0))).map (fun r => r.1.reverse)

/-! shape parser: `{l,r}` / decimal leaf id, by a fold with an explicit stack -/
inductive PItem | mark | tree (t : Tree Nat)

structure PState where
  stack : List PItem := []
  cur : Option Nat := none
  bad : Bool := false

def PState.flush (st : PState) : PState :=
  match st.cur with
  | some n => { st with stack := .tree (.leaf n) :: st.stack, cur := none }
  | none => st

def pstep (st : PState) (c : Char) : PState :=
  if c.isDigit then
    { st with cur := some ((st.cur.getD 0) * 10 + (c.toNat - '0'.toNat)) }
  else
    let st := st.flush
    if c == '{' then { st with stack := .mark :: st.stack }
    else if c == ',' then st
    else if c == '}' then
      match st.stack with
      | .tree r :: .tree l :: .mark :: rest => { st with stack := .tree (.node l r) :: rest }
      | _ => { st with bad := true }
    else { st with bad := true }

def parseShape (s : String) : Option (Tree Nat) :=
  let st := (s.toList.foldl pstep {}).flush
  if st.bad then none else
  match st.stack with
  | [.tree t] => some t
  | _ => none

def tokStr : List (Tok Nat) → String → String
  | [], acc => acc
  | .lbrace :: r, acc => tokStr r (acc.push '{')
  | .rbrace :: r, acc => tokStr r (acc.push '}')
  | .comma :: r, acc => tokStr r (acc.push ',')
  | .script s :: r, acc => tokStr r (acc ++ toString s)

def okbadT (b : Bool) : String := if b then "ok" else "bad"

/-! ### labelled trees: commutative-canonical term text -/

def termCanon : NodeT → String
  | .leaf id => toString id
  | .branch a b =>
    let sa := termCanon a
    let sb := termCanon b
    if sb < sa then "{" ++ sb ++ "," ++ sa ++ "}" else "{" ++ sa ++ "," ++ sb ++ "}"

def spendAnswerCanon (rt : NodeT) (items : List (Nat × Nat × List NodeT)) : String :=
  items.foldl (fun a it =>
    a ++ "|" ++ toString it.1 ++ ":" ++ toString it.2.1 ++ ":" ++
      (if it.2.2.isEmpty then "-" else "/".intercalate (it.2.2.map termCanon))) (termCanon rt)

def taprootModelL (tree : TapTree Nat) : String :=
  match nodesFromTapTree termAlg tree with
  | none => "PANIC"
  | some nodes =>
    match merkleRootOf nodes, leavesOf nodes with
    | some rt, some items =>
      spendAnswerCanon rt (items.map (fun it => (it.depth, it.leaf, it.merkleBranch)))
    | _, _ => "PANIC"

def taprootSpecL (t : Tree Nat) : String :=
  spendAnswerCanon (Tree.root termAlg t)
    ((Tree.siblingPaths termAlg t).map (fun p => (p.2.length, p.1, p.2)))

/-! ### byte-level judges -/

def tapHexList (s : String) : Option (List Hash.Bytes) :=
  if s == "-" then some [] else (s.splitOn ",").mapM Hash.ofHex

/-- replace the leaves of a shape, in pre-order, by the given scripts -/
def relabel : Tree Nat → List Hash.Bytes → Option (Tree Hash.Bytes × List Hash.Bytes)
  | .leaf _, [] => none
  | .leaf _, x :: xs => some (.leaf x, xs)
  | .node l r, xs =>
    match relabel l xs with
    | none => none
    | some (l', xs) =>
      match relabel r xs with
      | none => none
      | some (r', xs) => some (.node l' r', xs)

def parseBit (s : String) : Option Bool :=
  if s == "0" then some false else if s == "1" then some true else none

/-- judge one control block against the specification's path of its leaf -/
def cbJudge (rt ik : Hash.Bytes) (odd : Bool) (i : Nat) (cb : Hash.Bytes)
    (leaf : Hash.Bytes × List Hash.Bytes) : Option String :=
  match Bip341.parseControlBlock cb with
  | none => some s!"bad:cb-format@{i}"
  | some c =>
    if c.leafVersion != Bip341.tapscriptVersion then some s!"bad:leaf-version@{i}"
    else if c.outputKeyOdd != odd then some s!"bad:parity-bit@{i}"
    else if c.internalKey != ik then some s!"bad:internal-key@{i}"
    else if c.path.length != leaf.2.length then some s!"bad:depth@{i}"
    else if c.path != leaf.2 then some s!"bad:path@{i}"
    else if Bip341.committedRoot c leaf.1 != rt then some s!"bad:commitment@{i}"
    else none

def cbJudgeAll (rt ik : Hash.Bytes) (odd : Bool) :
    Nat → List Hash.Bytes → List (Hash.Bytes × List Hash.Bytes) → Option String
  | _, [], [] => none
  | i, cb :: cbs, leaf :: leaves =>
    match cbJudge rt ik odd i cb leaf with
    | some e => some e
    | none => cbJudgeAll rt ik odd (i + 1) cbs leaves
  | _, _, _ => some "bad:leaf-count"

def trCommitJudge (shape : String) (scripts : List Hash.Bytes) (ik oq : Hash.Bytes) (opar : Bool)
    (lroot : String) (lq : Hash.Bytes) (lpar : Bool) (cbs : List Hash.Bytes) : Option String :=
  if ik.length != 32 || oq.length != 32 then some "bad:key-size"
  else if lq != oq then some "bad:output-key"
  else if lpar != opar then some "bad:output-parity"
  else if shape == "-" then
    some (if lroot == "-" && cbs.isEmpty && scripts.isEmpty then "ok" else "bad:key-only")
  else do
    let t ← parseShape shape
    let lroot ← Hash.ofHex lroot
    match relabel t scripts with
    | some (tree, []) =>
      let rp := Tree.rootAndPaths Bip341.alg tree
      if rp.1 != lroot then pure "bad:merkle-root"
      else pure ((cbJudgeAll rp.1 ik opar 0 cbs rp.2).getD "ok")
    | _ => pure "bad:script-count"

def trLeafPkJudge (key script : Hash.Bytes) : String :=
  let x? : Option Hash.Bytes :=
    if key.length == 32 then some key
    else if key.length == 33 && (key.head? == some 0x02 || key.head? == some 0x03) then some key.tail
    else none
  match x? with
  | none => "bad:key"
  | some x => okbadT (script == [0x20] ++ x ++ [0xac])

/-- one translator call: keep / fail / hand back a key the Tapscript context refuses -/
def actOf (c : Char) (x : Nat) : Option (Except TrErr Nat) :=
  if c == 'k' then some (.ok x) else if c == 'f' then some (.error .translator)
  else if c == 'u' then some (.error .outer) else none

/-- positions of a (relabelled) tree carrying `script`, with their depths -/
def minDepthOf (t : Tree Hash.Bytes) (script : Hash.Bytes) : Option Nat :=
  ((Tree.depths t).filter (fun p => p.2 == script)).foldl
    (fun m p => match m with | none => some p.1 | some d => some (min d p.1)) none

/-- leaves-with-depths as a sorted list of strings (multiset comparison) -/
def sortedStrs (l : List String) : List String := l.foldr (fun x acc =>
  let rec ins (x : String) : List String → List String
    | [] => [x]
    | y :: ys => if y < x then y :: ins x ys else x :: y :: ys
  ins x acc) []

def pairOfColon (s : String) : Option (String × String) :=
  match s.splitOn ":" with
  | [a, b] => some (a, b)
  | _ => none

def trPsbtJudge (shape : String) (scripts : List Hash.Bytes) (ik : Hash.Bytes) (root : String)
    (outL inL : String) : Option String := do
  let t ← parseShape shape
  let root ← Hash.ofHex root
  match relabel t scripts with
  | some (tree, []) =>
    let rp := Tree.rootAndPaths Bip341.alg tree
    if rp.1 != root then pure "bad:merkle-root" else
    -- output side: the BIP 371 depth list
    let outPairs ← (if outL == "-" then some [] else (outL.splitOn ",").mapM pairOfColon)
    let outDs ← outPairs.mapM (fun p => do let d ← p.1.toNat?; let sc ← Hash.ofHex p.2; pure (d, sc))
    let specDs := (Tree.depths tree).map (fun p => toString p.1 ++ ":" ++ Hash.toHex p.2)
    let gotDs := outDs.map (fun p => toString p.1 ++ ":" ++ Hash.toHex p.2)
    if sortedStrs specDs != sortedStrs gotDs then pure "bad:tap-tree-leaves" else
    match Tree.ofDepths outDs with
    | none => pure "bad:tap-tree-not-a-tree"
    | some t' =>
      if Tree.root Bip341.alg t' != root then pure "bad:tap-tree-root" else
      -- input side: tap_scripts
      let inPairs ← (if inL == "-" then some [] else (inL.splitOn ",").mapM pairOfColon)
      let ins ← inPairs.mapM (fun p => do let cb ← Hash.ofHex p.1; let sc ← Hash.ofHex p.2; pure (cb, sc))
      let badIn := ins.any (fun p =>
        match Bip341.parseControlBlock p.1 with
        | none => true
        | some c => c.leafVersion != Bip341.tapscriptVersion || c.internalKey != ik ||
                    Bip341.committedRoot c p.2 != root)
      if badIn then pure "bad:tap-scripts-commitment"
      else if !(scripts.all (fun sc => ins.any (fun p => p.2 == sc))) then pure "bad:tap-scripts-missing-leaf"
      else if !(ins.all (fun p => scripts.contains p.2)) then pure "bad:tap-scripts-foreign-leaf"
      else pure "ok"
  | _ => pure "bad:script-count"

def limitVerdict (t : Tree Nat) : String := if Tree.height t ≤ maxDepth then "accept" else "ERR"

def opsTap (kind op : String) (args : List String) : Option String :=
  match kind, op, args with
  | "C", "taproot", [ds] => do
    let ds ← parseDepths ds
    pure (taprootModel (withIds ds 0))
  | "C", "tapbuild", [ops] => do
    let ops ← parseOps ops
    pure (match buildFromOps ops with | some t => showDepths t | none => "ERR")
  | "C", "tapcombine", [l, r] => do
    let l ← parseDepths l; let r ← parseDepths r
    pure (match TapTree.combine (withIds l 0) (withIds r l.length) with
      | some t => showDepths t | none => "ERR")
  | "C", "tapfmt", [ds] => do
    let ds ← parseDepths ds
    pure (tokStr (TapTree.fmt (withIds ds 0)) "")
  | "J", "merklespec", [shape, ans] => do
    let t ← parseShape shape
    pure (okbadT (taprootSpec t == ans))
  | "J", "depthspec", [shape, ans] => do
    let t ← parseShape shape
    pure (okbadT (showDepths (Tree.depths t) == ans))
  | "J", "fmtspec", [shape, ans] => do
    let t ← parseShape shape
    pure (okbadT (tokStr (Tree.tokens t) "" == ans))
  | "J", "rustoracle", [_name, _shape, verdict] => pure (okbadT (verdict == "pass"))
  | "C", "taprootl", [ds, ls] => do
    let ds ← parseDepths ds; let ls ← parseDepths ls
    if ds.length != ls.length then none else
    pure (taprootModelL (ds.zip ls))
  | "J", "merklespecl", [shape, ans] => do
    let t ← parseShape shape
    pure (okbadT (taprootSpecL t == ans))
  | "J", "trcommit", [shape, scripts, ik, oq, opar, lroot, lq, lpar, cbs] => do
    let scripts ← tapHexList scripts; let ik ← Hash.ofHex ik; let oq ← Hash.ofHex oq
    let opar ← parseBit opar; let lq ← Hash.ofHex lq; let lpar ← parseBit lpar
    let cbs ← tapHexList cbs
    trCommitJudge shape scripts ik oq opar lroot lq lpar cbs
  | "J", "traddr", [_api, net, key, spk, addr] => do
    let key ← Hash.ofHex key; let spk ← Hash.ofHex spk
    let want ← Bech32m.p2trAddress net key
    if key.length != 32 then pure "bad:key-size"
    else if spk != Outputs.p2tr key then pure "bad:script-pubkey"
    else if addr != want then pure "bad:address"
    else pure "ok"
  | "J", "trwitness", [root, ik, par, script, cb] => do
    let root ← Hash.ofHex root; let ik ← Hash.ofHex ik; let par ← parseBit par
    let script ← Hash.ofHex script; let cb ← Hash.ofHex cb
    match Bip341.parseControlBlock cb with
    | none => pure "bad:cb-format"
    | some c =>
      if c.leafVersion != Bip341.tapscriptVersion then pure "bad:leaf-version"
      else if c.outputKeyOdd != par then pure "bad:parity-bit"
      else if c.internalKey != ik then pure "bad:internal-key"
      else if Bip341.committedRoot c script != root then pure "bad:commitment"
      else pure "ok"
  | "J", "rdepthspec", [_route, shape, ans] => do
    let t ← parseShape shape
    pure (okbadT (showDepths (Tree.depths t) == ans))
  | "J", "rmerklespec", [_route, shape, ans] => do
    let t ← parseShape shape
    pure (okbadT (taprootSpec t == ans))
  | "J", "rmerklespecl", [_route, shape, ans] => do
    let t ← parseShape shape
    pure (okbadT (taprootSpecL t == ans))
  | "J", "trdepthset", [_route, shape, ans] => do
    let t ← parseShape shape
    let spec := (Tree.depths t).map (fun p => toString p.1 ++ ":" ++ toString p.2)
    pure (okbadT (sortedStrs spec == sortedStrs (ans.splitOn ",")))
  | "J", "trrefused", [_cls, _input, verdict] => pure (okbadT (verdict == "ERR"))
  | "J", "trpsbt", [shape, scripts, ik, root, outL, inL] => do
    let scripts ← tapHexList scripts; let ik ← Hash.ofHex ik
    trPsbtJudge shape scripts ik root outL inL
  | "J", "trleafscript", [tmpl, keys, script] => do
    let keys ← tapHexList keys; let script ← Hash.ofHex script
    match TapTemplates.script tmpl keys with
    | none => pure "bad:template"
    | some want => pure (okbadT (want == script))
  | "J", "trwitnessmin", [shape, scripts, script, cb] => do
    let t ← parseShape shape; let scripts ← tapHexList scripts
    let script ← Hash.ofHex script; let cb ← Hash.ofHex cb
    match relabel t scripts, Bip341.parseControlBlock cb with
    | some (tree, []), some c =>
      match minDepthOf tree script with
      | none => pure "bad:not-a-leaf"
      | some d => pure (if c.path.length == d then "ok" else s!"bad:not-shortest:{c.path.length}>{d}")
    | _, _ => pure "bad:format"
  | "C", "trtranslate", [ds, acts] => do
    let ds ← parseDepths ds
    let acts := acts.toList
    if acts.length != ds.length + 1 then none else
    let leafActs ← (acts.take ds.length).zipIdx.mapM (fun (c, i) => actOf c i)
    let ikAct ← actOf (acts.getD ds.length 'k') 0
    let tree : TapTree Nat := withIds ds 0
    pure (match trTranslate (fun (i : Nat) => leafActs.getD i (.ok i)) (fun (_ : Nat) => ikAct) 0 (some tree) with
      | .ok (_, some t) => "ok:" ++ showDepths t
      | .ok (_, none) => "ok:-"
      | .error .translator => "translator-err"
      | .error .outer => "outer-err")
  | "J", "trleafpk", [key, script] => do
    let key ← Hash.ofHex key; let script ← Hash.ofHex script
    pure (trLeafPkJudge key script)
  | "J", "trdepthlimit", [shape, comb, parse] => do
    let t ← parseShape shape
    let want := limitVerdict t
    pure (okbadT (comb == want && parse == want))
  | _, _, _ => none

end MsVerif.Driver

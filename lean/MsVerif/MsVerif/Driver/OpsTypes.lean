/- C05 ops: typing rules (model) and specification tables (judge). -/
import MsVerif.Lemmas.TypesEnum

namespace MsVerif.Driver
open MsVerif Spec

def showC : Option Corr → String | some c => c.toStr | none => "ERR"
def showT : Option Ty → String | some c => c.toStr | none => "ERR"

def corr1 : String → Option (Corr → Option Corr)
  | "castAlt" => some Corr.castAlt | "castSwap" => some Corr.castSwap
  | "castCheck" => some Corr.castCheck | "castDupIf" => some Corr.castDupIf
  | "castVerify" => some Corr.castVerify | "castNonZero" => some Corr.castNonZero
  | "castZeroNotEqual" => some Corr.castZeroNotEqual | "castTrue" => some Corr.castTrue
  | "castOrIFalse" => some Corr.castOrIFalse | _ => none
def corr2 : String → Option (Corr → Corr → Option Corr)
  | "andB" => some Corr.andB | "andV" => some Corr.andV | "orB" => some Corr.orB
  | "orD" => some Corr.orD | "orC" => some Corr.orC | "orI" => some Corr.orI | _ => none
def mall1 : String → Option (Mall → Mall)
  | "castAlt" => some Mall.castAlt | "castSwap" => some Mall.castSwap
  | "castCheck" => some Mall.castCheck | "castDupIf" => some Mall.castDupIf
  | "castVerify" => some Mall.castVerify | "castNonZero" => some Mall.castNonZero
  | "castZeroNotEqual" => some Mall.castZeroNotEqual | "castTrue" => some Mall.castTrue
  | "castOrIFalse" => some Mall.castOrIFalse | _ => none
def mall2 : String → Option (Mall → Mall → Mall)
  | "andB" => some Mall.andB | "andV" => some Mall.andV | "orB" => some Mall.orB
  | "orD" => some Mall.orD | "orC" => some Mall.orC | "orI" => some Mall.orI | _ => none
def ty1 : String → Option (Ty → Option Ty)
  | "castAlt" => some Ty.castAlt | "castSwap" => some Ty.castSwap
  | "castCheck" => some Ty.castCheck | "castDupIf" => some Ty.castDupIf
  | "castVerify" => some Ty.castVerify | "castNonZero" => some Ty.castNonZero
  | "castZeroNotEqual" => some Ty.castZeroNotEqual | "castTrue" => some Ty.castTrue
  | "castUnlikely" => some Ty.castUnlikely | "castLikely" => some Ty.castLikely | _ => none
def ty2 : String → Option (Ty → Ty → Option Ty)
  | "andB" => some Ty.andB | "andV" => some Ty.andV | "orB" => some Ty.orB
  | "orD" => some Ty.orD | "orC" => some Ty.orC | "orI" => some Ty.orI | _ => none
def leaf : String → Option Ty
  | "true" => some Ty.TRUE | "false" => some Ty.FALSE | "pk_k" => some Ty.pkK
  | "pk_h" => some Ty.pkH | "multi" => some Ty.multi | "sortedmulti" => some Ty.sortedmulti
  | "multi_a" => some Ty.multiA | "sortedmulti_a" => some Ty.sortedmultiA
  | "hash" => some Ty.hash | "time" => some Ty.time | _ => none

/-- the specification's row for each Rust rule name.  The judge demands EXACT equality with
the row, except for the two documented conservative deviations (C05.conservativeDeviations):
`d:` is judged against the non-Tapscript row (the library never grants `u`), and `c:` may
withhold `s` when its child is not `s`. -/
def specC1 : String → Option (SCorr → Option SCorr)
  | "castAlt" => some C.wrapA | "castSwap" => some C.wrapS | "castCheck" => some C.wrapC
  | "castDupIf" => some (C.wrapD false) | "castVerify" => some C.wrapV
  | "castNonZero" => some C.wrapJ | "castZeroNotEqual" => some C.wrapN
  | "castTrue" => some (fun x => C.andV x C.one)
  | "castOrIFalse" => some (fun x => C.orI C.zero x) | _ => none
def specC2 : String → Option (SCorr → SCorr → Option SCorr)
  | "andB" => some C.andB | "andV" => some C.andV | "orB" => some C.orB
  | "orD" => some C.orD | "orC" => some C.orC | "orI" => some C.orI | _ => none
def specM1 : String → Option (SMall → SMall)
  | "castAlt" => some M.wrapA | "castSwap" => some M.wrapS | "castCheck" => some M.wrapC
  | "castDupIf" => some M.wrapD | "castVerify" => some M.wrapV
  | "castNonZero" => some M.wrapJ | "castZeroNotEqual" => some M.wrapN
  | "castTrue" => some (fun x => M.andV x M.one)
  | "castOrIFalse" => some (fun x => M.orI M.zero x) | _ => none
def specM2 : String → Option (SMall → SMall → SMall)
  | "andB" => some M.andB | "andV" => some M.andV | "orB" => some M.orB
  | "orD" => some M.orD | "orC" => some M.orC | "orI" => some M.orI | _ => none

def parseCorrRes (s : String) : Option (Option Corr) :=
  if s == "ERR" then some none else (Corr.ofStr? s).map some

def okbad (b : Bool) : String := if b then "ok" else "bad"

def parseList {α} (f : String → Option α) (s : String) : Option (List α) :=
  (s.splitOn ",").mapM f

def opsTypes (kind op : String) (args : List String) : Option String :=
  match kind, op, args with
  | "C", "leaf", [n] => (leaf n).map Ty.toStr
  | "C", "corr1", [r, x] => do let f ← corr1 r; let x ← Corr.ofStr? x; pure (showC (f x))
  | "C", "corr2", [r, x, y] => do
    let f ← corr2 r; let x ← Corr.ofStr? x; let y ← Corr.ofStr? y; pure (showC (f x y))
  | "C", "corr3", ["andOr", x, y, z] => do
    let x ← Corr.ofStr? x; let y ← Corr.ofStr? y; let z ← Corr.ofStr? z
    pure (showC (Corr.andOr x y z))
  | "C", "mall1", [r, x] => do let f ← mall1 r; let x ← Mall.ofStr? x; pure (f x).toStr
  | "C", "mall2", [r, x, y] => do
    let f ← mall2 r; let x ← Mall.ofStr? x; let y ← Mall.ofStr? y; pure (f x y).toStr
  | "C", "mall3", ["andOr", x, y, z] => do
    let x ← Mall.ofStr? x; let y ← Mall.ofStr? y; let z ← Mall.ofStr? z
    pure (Mall.andOr x y z).toStr
  | "C", "ty1", [r, x] => do let f ← ty1 r; let x ← Ty.ofStr? x; pure (showT (f x))
  | "C", "ty2", [r, x, y] => do
    let f ← ty2 r; let x ← Ty.ofStr? x; let y ← Ty.ofStr? y; pure (showT (f x y))
  | "C", "ty3", ["andOr", x, y, z] => do
    let x ← Ty.ofStr? x; let y ← Ty.ofStr? y; let z ← Ty.ofStr? z
    pure (showT (Ty.andOr x y z))
  | "C", "corrT", [k, l] => do
    let k ← k.toNat?; let l ← parseList Corr.ofStr? l; pure (showC (Corr.threshold k l))
  | "C", "mallT", [k, l] => do
    let k ← k.toNat?; let l ← parseList Mall.ofStr? l; pure (Mall.threshold k l).toStr
  | "C", "tyT", [k, l] => do
    let k ← k.toNat?; let l ← parseList Ty.ofStr? l; pure (showT (Ty.threshold k l))
  -- judge: implementation result vs the specification's row
  | "J", "specC1", [r, x, res] => do
    let f ← specC1 r; let x ← Corr.ofStr? x; let res ← parseCorrRes res
    -- `c:` on the unreachable child "K and z" copies z through (C05.corr_c, Reach.K_not_zero)
    if r == "castCheck" && x.kz then pure "ok" else
    pure (okbad (eqC res (f x.toSpec)))
  | "J", "specC2", [r, x, y, res] => do
    let f ← specC2 r; let x ← Corr.ofStr? x; let y ← Corr.ofStr? y
    let res ← parseCorrRes res
    pure (okbad (eqC res (f x.toSpec y.toSpec)))
  | "J", "specC3", ["andOr", x, y, z, res] => do
    let x ← Corr.ofStr? x; let y ← Corr.ofStr? y; let z ← Corr.ofStr? z
    let res ← parseCorrRes res
    pure (okbad (eqC res (C.andOr x.toSpec y.toSpec z.toSpec)))
  | "J", "specCT", [k, l, res] => do
    let k ← k.toNat?; let l ← parseList Corr.ofStr? l; let res ← parseCorrRes res
    pure (okbad (eqC res (C.thresh k (l.map Corr.toSpec))))
  | "J", "specM1", [r, x, res] => do
    let f ← specM1 r; let x ← Mall.ofStr? x; let res ← Mall.ofStr? res
    if r == "castCheck" && !x.signed then pure (okbad (res.toSpec.le (f x.toSpec))) else
    pure (okbad (res.toSpec == f x.toSpec))
  | "J", "specM2", [r, x, y, res] => do
    let f ← specM2 r; let x ← Mall.ofStr? x; let y ← Mall.ofStr? y; let res ← Mall.ofStr? res
    pure (okbad (res.toSpec == f x.toSpec y.toSpec))
  | "J", "specM3", ["andOr", x, y, z, res] => do
    let x ← Mall.ofStr? x; let y ← Mall.ofStr? y; let z ← Mall.ofStr? z
    let res ← Mall.ofStr? res
    pure (okbad (res.toSpec == M.andOr x.toSpec y.toSpec z.toSpec))
  | "J", "specMT", [k, l, res] => do
    let k ← k.toNat?; let l ← parseList Mall.ofStr? l; let res ← Mall.ofStr? res
    pure (okbad (res.toSpec == M.thresh k (l.map Mall.toSpec)))
  | _, _, _ => none

end MsVerif.Driver

/-
C12 ops: validation parameters, `validate`, entry-point acceptance (C lines, MODEL of
Model/Validate.lean) and the context rules / switch defects (J lines, SPECIFICATION of
Spec/CtxRules.lean).

Parameter wire format: `<15 bits>:<ops>:<size>:<wit>:<stack>:<depth>`, bits in the field order of
src/validation.rs, limits decimal or `M` for `usize::MAX`.
Key atoms: the kind is the length of the serialisation in the `D key` table (33/65/32);
ids 300..309 are multipath keys with 2 derivation paths, 310..319 with 3.

  C vp-const <name>                       MAX | SANE | CONSENSUS | <ctx>.CONSENSUS | <ctx>.SANE
  C vp-intersect <p> <q>                  parameters
  C vp-entails <p> <q> / C vp-eq <p> <q>  0/1
  C validate <ctx> <p> <ast>              ok | ERR:<kind>       (`Miniscript::validate`)
  C vnt <ctx> <p> <ast>                   ok | ERR:<kind>       (`validate_non_top_level`)
  C accept <entry> <ctx> <ast>            ok | ERR              (entry-point model)
  J ctxok <entry> <ctx> <skip> <ast>      ok | bad:<rules>      all context rules except those in
                                          the comma list <skip> (`-` = none) hold for an AST the
                                          LIBRARY accepted through <entry>
  J ctxrule <rule> <entry> <ctx> <ast>    ok | bad              one rule
  J switch <X> <ctx> <p> <ast> <with> <without>
                                          ok iff (without = ERR) ↔ (with = ERR ∨ hasDefect_X)
                                          where with/without are the library's verdicts under <p>
                                          and under <p> with switch X turned off
  J limit <X> <ctx> <L> <ast> <figure> <with> <without>
                                          ok iff (without = ERR) ↔ (with = ERR ∨ figure > L);
                                          <figure> is the library's own figure for <ast>,
                                          `-` = the script has no satisfaction
  C sortedmulti-new <ctx> <k> <k1,k2,..> <entry>  ok | ERR   (`Threshold::<Pk, 20>::new` + `*::new_sortedmulti`)
  C acceptapi <route> <entry> <ctx> <ast> ok | ERR   a miniscript built through the public API
                                          (route `checked`: from_ast on every node, locks from the
                                          public constants incl. RelLockTime::ZERO; route `ctor`:
                                          leaves through Miniscript::pk / multi / older / ...)
  C keyonly <kind> <key> <entry>          ok | ERR   key-only descriptors pk/pkh/wpkh/sh_wpkh/tr
  J keyok <entry> <kind> <key> <outcome>  ok iff (<outcome> = ok ⇔ the context of <kind> permits the key's
                                          kind); a PANIC outcome counts as refused
  C decodemax <ctx> <ast> <tag>           ok | ERR   decode_with_validation_params(encode(<ast>), MAX)
  C traccept <entry> <tree>               ok | ERR   `{a,{b,c}}` tree of leaf ASTs through
                                          tr_new / tr_str / desc
  J trok <entry> <tree>                   ok iff leaf depths <= 128 and every leaf obeys ctxOK tap
  C decodevp <ctx> <p> <ast> [tag]        ok | ERR[:<kind>]   decode_with_validation_params where
                                          the script decodes to <ast>
  J mono <ctx> <r> <p> <ast> <vr> <vp>    ok iff r is a tightening of p and (accepted under r ⇒
                                          accepted under p)
  J vp-order <p> <q> <intersect> <entails> ok iff <intersect> is the meet and <entails> = (p ≤ q)
  J limitsize <ctx> <L> <ast> <with> <without>   as `J limit script_size`, the figure being the length
                                          of the script the Lean side encodes from <ast> (real length)
  J t4 <class> <entry> <ast> <desc> <ms>  ok unless the descriptor parser accepted and the
                                          miniscript parser with `Ctx::CONSENSUS` rejected
-/
import MsVerif.Driver.OpsMs
import MsVerif.Model.Validate
import MsVerif.Spec.CtxRules

/- helpers live in their own namespace (other Ops files define `showVerdict` etc. too) -/
namespace MsVerif.Driver.Val
open MsVerif MsVerif.Driver

/-! ### parameters -/

def showLimit (n : Nat) : String := if n == USIZE_MAX then "M" else toString n
def parseLimit (s : String) : Option Nat := if s == "M" then some USIZE_MAX else s.toNat?

def showParams (p : ValidationParams) : String :=
  String.ofList ([p.allowCompressedKeys, p.allowDuplicateKeys, p.allowDupIf, p.allowMalleability,
    p.allowMulti, p.allowMultiA, p.allowMixedTimeLocks, p.allowOrI, p.allowRawPkh,
    p.allowSiglessBranch, p.allowNonB, p.allowUncompressedKeys, p.allowUnsatisfiable,
    p.allowXOnlyKeys, p.allowInconsistentMultipathKeys].map bitChar)
  ++ ":" ++ showLimit p.maxOpcodeCount ++ ":" ++ showLimit p.maxScriptSize ++ ":"
  ++ showLimit p.maxWitnessItems ++ ":" ++ showLimit p.maxExecStackSize ++ ":"
  ++ showLimit p.maxRecursiveDepth

def parseParams (s : String) : Option ValidationParams :=
  match s.splitOn ":" with
  | [bits, a, b, c, d, e] =>
    match bits.toList.mapM bitOfChar?, parseLimit a, parseLimit b, parseLimit c, parseLimit d,
      parseLimit e with
    | some [b1, b2, b3, b4, b5, b6, b7, b8, b9, b10, b11, b12, b13, b14, b15], some a, some b,
      some c, some d, some e =>
      some ⟨b1, b2, b3, b4, b5, b6, b7, b8, b9, b10, b11, b12, b13, b14, b15, a, b, c, d, e⟩
    | _, _, _, _, _, _ => none
  | _ => none

def constParams (name : String) : Option ValidationParams :=
  match name.splitOn "." with
  | ["MAX"] => some .MAX
  | ["SANE"] => some .SANE
  | ["CONSENSUS"] => some .CONSENSUS
  | [c, "CONSENSUS"] => (parseCtx c).map Ctx.CONSENSUS
  | [c, "SANE"] => (parseCtx c).map Ctx.SANE
  | [c, "INSANE"] => (parseCtx c).map Ctx.INSANE
  | _ => none

/-! ### atoms -/

def nPathsOfId (k : Key) : Nat :=
  if 300 ≤ k ∧ k < 310 then 2 else if 310 ≤ k ∧ k < 320 then 3 else if 320 ≤ k ∧ k < 330 then 1 else 0

def keyInfoOf (t : Tables) : KeyInfo := ⟨keyKindOf t.keyEnv, nPathsOfId⟩

def factsOf (t : Tables) (ctx : Ctx) : Spec.Facts where
  uncompressed k := (t.keyEnv.ser k).length == 65
  xonly k := (t.keyEnv.ser k).length == 32
  nPaths := nPathsOfId
  scriptLen ms := (encodeBytes t.keyEnv ctx ms).length

def showVErr : VErr → String
  | .duplicateKeys => "DuplicateKeys" | .illegalDupIf => "IllegalDupIf"
  | .illegalMulti => "IllegalMulti" | .illegalMultiA => "IllegalMultiA"
  | .illegalOrI => "IllegalOrI" | .illegalRawPkh => "IllegalRawPkh" | .malleable => "Malleable"
  | .maxOpCount => "MaxOpCountExceeded" | .maxScriptSize => "MaxScriptSizeExceeded"
  | .maxWitnessItems => "MaxWitnessItemsExceeded" | .maxExecStack => "MaxExecStackSizeExceeded"
  | .maxRecursiveDepth => "MaxRecursiveDepthExceeded" | .mixedTimeLocks => "MixedTimeLocks"
  | .multipathKeyLenMismatch => "MultipathKeyLenMismatch" | .nonBase => "NonBase"
  | .siglessBranch => "SiglessBranch" | .keyCompressed => "IllegalCompressedKey"
  | .keyUncompressed => "IllegalUncompressedKey" | .keyXOnly => "IllegalXOnlyKey"
  | .unsatisfiable => "Unsatisfiable" | .notTyped => "NotTyped"

def showVerdict : Except VErr Unit → String
  | .ok _ => "ok"
  | .error e => "ERR:" ++ showVErr e

def parseEntry (s : String) : Option Entry :=
  match (s.splitOn "/").headD "" with
  | "fromast" => some .fromAst | "ms_sane" => some .msSane | "ms_consensus" => some .msConsensus
  | "ms_insane" => some .msInsane | "wrapper" => some .wrapper | "desc" => some .descFromStr
  | "tr_str" => some .trFromStr | "tr_new" => some .trNew
  | _ => none

/-! ### judges -/

def ruleNames : List String := ["top", "cond", "keys", "multi", "range", "size", "depth", "lock0"]

def evalRule (F : Spec.Facts) (ctx : Ctx) (ms : Ms) : String → Bool
  | "top" => Spec.ruleTopB ctx ms
  | "cond" => Spec.ruleCond ctx ms
  | "keys" => Spec.ruleKeys F ctx ms
  | "multi" => Spec.ruleMulti ctx ms
  | "range" => Spec.ruleRange ms
  | "lock0" => Spec.ruleRange ms      -- same rule; named apart for inputs that contain older(0)
  | "size" => Spec.ruleSize F ctx ms
  | "depth" => Spec.ruleDepth ms
  | _ => false

/-- entry points that hand out fragments (not complete scripts) are not held to the
top-level rules -/
def rulesFor (entry : String) : List String :=
  if (entry.splitOn "/").headD "" == "fromast" then ["keys", "multi", "range", "size", "depth"]
  else ["top", "cond", "keys", "multi", "range", "size", "depth"]

def isErr (s : String) : Bool := s.startsWith "ERR"

/-- defect of switch `X` for base parameters `p` -/
def switchDefect (F : Spec.Facts) (ctx : Ctx) (p : ValidationParams) (ms : Ms) : String → Option Bool
  | "duplicate_keys" => some (Spec.hasDefect_duplicateKeys ms)
  | "dup_if" => some (Spec.hasDefect_dupIf ms)
  | "or_i" => some (Spec.hasDefect_orI ms)
  | "multi" => some (Spec.hasDefect_multi ms)
  | "multi_a" => some (Spec.hasDefect_multiA ms)
  | "raw_pkh" => some (Spec.hasDefect_rawPkh ms)
  | "malleability" => some (Spec.hasDefect_malleable (Spec.isTap ctx) ms)
  | "sigless_branch" => some (Spec.hasDefect_siglessSem ms)
  | "sigless_branch_type" => some (Spec.hasDefect_sigless (Spec.isTap ctx) ms)
  | "non_b" => some (Spec.hasDefect_nonB (Spec.isTap ctx) ms)
  | "mixed_time_locks" => some (Spec.hasDefect_mixedTimeLocks ms)
  | "uncompressed_keys" => some (Spec.hasUncompressedKey F ms)
  | "x_only_keys" =>
    some (Spec.hasXOnlyKey F ms || (!p.allowCompressedKeys && Spec.hasCompressedKey F ms))
  | "compressed_keys" => some (!p.allowXOnlyKeys && Spec.hasCompressedKey F ms)
  | "inconsistent_multipath_keys" => some (Spec.hasDefect_multipath F ms)
  | "unsatisfiable" => some (Spec.hasDefect_unsatisfiable ms)
  | _ => none

/-- a `0` somewhere: the mixed-time-lock analysis is only claimed sound (not exact) then -/
def hasFalse (ms : Ms) : Bool := Spec.someNode (fun | .fls => true | _ => false) ms

def parseKeyDesc : String → Option KeyDesc
  | "pk" => some .pk | "pkh" => some .pkh | "wpkh" => some .wpkh | "sh_wpkh" => some .shWpkh
  | "tr" => some .tr | _ => none

/-- `{a,{b,c}}` with ASTs at the leaves -/
def parseTapT : Nat → List Char → Option (TapT × List Char)
  | 0, _ => none
  | fuel + 1, '{' :: rest =>
    match parseTapT fuel rest with
    | some (l, ',' :: rest) =>
      match parseTapT fuel rest with
      | some (r, '}' :: rest) => some (.node l r, rest)
      | _ => none
    | _ => none
  | fuel + 1, cs => (parseMs (fuel + cs.length) cs).map fun (m, rest) => (.leaf m, rest)

def parseTree (s : String) : Option TapT :=
  match parseTapT (s.length + 2) s.toList with
  | some (t, []) => some t
  | _ => none

def opsValidate (t : Tables) (kind op : String) (args : List String) : Option String :=
  match kind, op, args with
  | "C", "keyonly", [d, k, entry] => do
    let d ← parseKeyDesc d; let k ← k.toNat?
    pure (match keyOnlyOutcome (keyInfoOf t) d (entry == "Descriptor::new_pk") k with
          | .ok => "ok" | .err => "ERR" | .panic => "PANIC")
  | "J", "keyok", [_entry, d, k, outcome] => do
    let d ← parseKeyDesc d; let k ← k.toNat?
    let allowed := Spec.keyAllowed (factsOf t d.ctx) d.ctx k
    -- a panic is not an acceptance: for C12 it counts as "refused" (the harness records it as
    -- an observation, not as a failure)
    pure (if outcome == "ok" && !allowed then "bad:key-kind-accepted"
          else if outcome != "ok" && allowed then "bad:permitted-key-rejected" else "ok")
  | "C", "decodemax", [ctx, ast, _tag] => do
    let ctx ← parseCtx ctx; let ms ← parseAst ast
    pure (if decodeMaxAccepts t.keyEnv (keyInfoOf t) ctx ms then "ok" else "ERR")
  | "C", "traccept", [entry, tree] => do
    let e ← parseEntry entry; let tr ← parseTree tree
    pure (if trTreeAccepts t.keyEnv (keyInfoOf t) e tr then "ok" else "ERR")
  | "J", "trok", [_entry, tree] => do
    let tr ← parseTree tree
    pure (if Spec.tapTreeOK (factsOf t .tap) (tr.depths 0) tr.leaves then "ok" else "bad")
  | "C", "decodevp", ctx :: p :: ast :: _ => do
    let ctx ← parseCtx ctx; let p ← parseParams p; let ms ← parseAst ast
    pure (if decConstructed t.keyEnv (keyInfoOf t) ctx ms
          then showVerdict (validate t.keyEnv (keyInfoOf t) ctx p ms) else "ERR")
  | "J", "mono", [_ctx, r, p, _ast, vr, vp] => do
    let r ← parseParams r; let p ← parseParams p
    pure (if !r.le p then "bad:not-a-tightening"
          else if !isErr vr && isErr vp then "bad:tighter-params-admit-more" else "ok")
  | "J", "vp-order", [p, q, r, e] => do
    let p ← parseParams p; let q ← parseParams q; let r ← parseParams r
    -- `r` claims to be the meet: a lower bound of both that is above every lower bound
    pure (if !(r.le p && r.le q) then "bad:intersect-not-a-lower-bound"
          else if !(p.intersect q).le r then "bad:intersect-not-greatest"
          else if (e == "1") != p.le q then "bad:entails" else "ok")
  | "C", "vp-const", [name] => (constParams name).map showParams
  | "C", "vp-intersect", [p, q] => do
    let p ← parseParams p; let q ← parseParams q
    pure (showParams (p.intersect q))
  | "C", "vp-entails", [p, q] => do
    let p ← parseParams p; let q ← parseParams q
    pure (String.singleton (bitChar (p.entails q)))
  | "C", "vp-eq", [p, q] => do
    let p ← parseParams p; let q ← parseParams q
    pure (String.singleton (bitChar (p.eq q)))
  | "C", "validate", [ctx, p, ast] => do
    let ctx ← parseCtx ctx; let p ← parseParams p; let ms ← parseAst ast
    pure (showVerdict (validate t.keyEnv (keyInfoOf t) ctx p ms))
  | "C", "vnt", [ctx, p, ast] => do
    let ctx ← parseCtx ctx; let p ← parseParams p; let ms ← parseAst ast
    pure (showVerdict (validateNonTopLevel t.keyEnv (keyInfoOf t) ctx p ms))
  | "C", "accept", [entry, ctx, ast] => do
    let e ← parseEntry entry; let ctx ← parseCtx ctx; let ms ← parseAst ast
    pure (if accepts t.keyEnv (keyInfoOf t) ctx e ms then "ok" else "ERR")
  | "J", "ctxok", [entry, ctx, skip, ast] => do
    let ctx ← parseCtx ctx; let ms ← parseAst ast
    let skipped := if skip == "-" then [] else skip.splitOn ","
    let F := factsOf t ctx
    let bad := (rulesFor entry).filter fun r => !skipped.contains r && !evalRule F ctx ms r
    pure (if bad.isEmpty then "ok" else "bad:" ++ ",".intercalate bad)
  | "J", "ctxrule", [rule, _entry, ctx, ast] => do
    let ctx ← parseCtx ctx; let ms ← parseAst ast
    if !ruleNames.contains rule then none
    else pure (if evalRule (factsOf t ctx) ctx ms rule then "ok" else "bad")
  | "J", "switch", [x, ctx, p, ast, withV, withoutV] => do
    let ctx ← parseCtx ctx; let p ← parseParams p; let ms ← parseAst ast
    let d ← switchDefect (factsOf t ctx) ctx p ms x
    let expectReject := isErr withV || d
    if x == "mixed_time_locks" && hasFalse ms then
      -- soundness only: a script with the defect must be rejected
      pure (if (!expectReject || isErr withoutV) then "ok" else "bad:defect-accepted")
    else
      pure (if isErr withoutV == expectReject then "ok"
            else if isErr withoutV then "bad:rejected-without-defect" else "bad:defect-accepted")
  | "J", "switch-exact", [x, ctx, p, ast, withV, withoutV] => do
    let ctx ← parseCtx ctx; let p ← parseParams p; let ms ← parseAst ast
    let d ← switchDefect (factsOf t ctx) ctx p ms x
    let expectReject := isErr withV || d
    pure (if isErr withoutV == expectReject then "ok"
          else if isErr withoutV then "bad:rejected-without-defect" else "bad:defect-accepted")
  | "J", "limit", [_x, _ctx, l, _ast, figure, withV, withoutV] => do
    let l ← parseLimit l
    let over ← if figure == "-" then some false else (figure.toNat?).map (fun f => decide (f > l))
    let expectReject := isErr withV || over
    pure (if isErr withoutV == expectReject then "ok"
          else if isErr withoutV then "bad:rejected-within-limit" else "bad:over-limit-accepted")
  | "C", "acceptapi", [route, entry, ctx, ast] => do
    let e ← parseEntry entry; let ctx ← parseCtx ctx; let ms ← parseAst ast
    let ctor ← (match route with | "ctor" => some true | "checked" => some false | _ => none)
    pure (if acceptsApi ctor t.keyEnv (keyInfoOf t) ctx e ms then "ok" else "ERR")
  | "C", "sortedmulti-new", [ctx, k, keys, _entry] => do
    let ctx ← parseCtx ctx; let k ← k.toNat?; let ks ← (keys.splitOn ",").mapM String.toNat?
    pure (if acceptsSortedMulti t.keyEnv (keyInfoOf t) ctx k ks then "ok" else "ERR")
  | "J", "limitsize", [ctx, l, ast, withV, withoutV] => do
    let ctx ← parseCtx ctx; let l ← parseLimit l; let ms ← parseAst ast
    -- the REAL figure: the length of the script this side encodes
    let real := (encodeBytes t.keyEnv ctx ms).length
    let expectReject := isErr withV || decide (real > l)
    pure (if isErr withoutV == expectReject then "ok"
          else if isErr withoutV then "bad:rejected-within-real-size" else "bad:over-real-size-accepted")
  | "J", "t4", [_class, _entry, _ast, desc, msv] =>
    some (if !isErr desc && isErr msv then "bad:descriptor-accepts-what-consensus-params-reject" else "ok")
  | _, _, _ => none

end MsVerif.Driver.Val

namespace MsVerif.Driver
/-- C12 ops (see the header of this file) -/
def opsValidate (t : Tables) (kind op : String) (args : List String) : Option String :=
  Val.opsValidate t kind op args
end MsVerif.Driver

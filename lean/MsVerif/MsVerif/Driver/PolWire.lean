/-
Wire format of policies with `or` weights (C20, policies) and the token-wise substitution of
keys / hashes in a printed policy.

  U | T | pk(3) | after(100) | older(5) | sha256(0) | hash256(1) | ripemd160(2) | hash160(3)
  and(X,Y,…) | or(9@X,1@Y,…) | thresh(2,X,Y,…)
-/
import MsVerif.Driver.AstParse
import MsVerif.Model.TranslatePolicy

namespace MsVerif.Driver
open MsVerif

def hkName : HashKind → String
  | .sha256 => "sha256" | .hash256 => "hash256" | .ripemd160 => "ripemd160" | .hash160 => "hash160"

def hkOfName : String → Option HashKind
  | "sha256" => some .sha256 | "hash256" => some .hash256 | "ripemd160" => some .ripemd160
  | "hash160" => some .hash160 | _ => none

mutual
def showPolAcc : PPol → String → String
  | .unsat, acc => acc.push 'U'
  | .trivial, acc => acc.push 'T'
  | .key k, acc => acc ++ "pk(" ++ toString k ++ ")"
  | .after n, acc => acc ++ "after(" ++ toString n ++ ")"
  | .older n, acc => acc ++ "older(" ++ toString n ++ ")"
  | .hash kind h, acc => acc ++ hkName kind ++ "(" ++ toString h ++ ")"
  | .and xs, acc => (showPolListAcc false true xs (acc ++ "and(")).push ')'
  | .or xs, acc => (showPolListAcc true true xs (acc ++ "or(")).push ')'
  | .thresh k xs, acc => (showPolListAcc false false xs (acc ++ "thresh(" ++ toString k)).push ')'
/-- `withW`: print `w@`; `first`: no leading comma -/
def showPolListAcc (withW first : Bool) : PPolList → String → String
  | .nil, acc => acc
  | .cons w x xs, acc =>
    let acc := if first then acc else acc.push ','
    let acc := if withW then acc ++ toString w ++ "@" else acc
    showPolListAcc withW false xs (showPolAcc x acc)
end

def showPol (p : PPol) : String := showPolAcc p ""

mutual
def parsePol : Nat → List Char → Option (PPol × List Char)
  | 0, _ => none
  | fuel + 1, cs =>
    let (id, rest) := takeIdent cs
    let name := String.ofList id
    match rest with
    | '(' :: rest =>
      if name == "pk" || name == "after" || name == "older" || (hkOfName name).isSome then
        let (num, rest) := takeIdent rest
        match natOfChars num, rest with
        | some n, ')' :: rest =>
          let p : PPol :=
            if name == "pk" then .key n else if name == "after" then .after n
            else if name == "older" then .older n
            else match hkOfName name with | some k => .hash k n | none => .unsat
          some (p, rest)
        | _, _ => none
      else if name == "and" then
        match rest with
        | ')' :: rest => some (.and .nil, rest)
        | _ => (parsePolArgs fuel false rest).map fun r => (.and r.1, r.2)
      else if name == "or" then
        match rest with
        | ')' :: rest => some (.or .nil, rest)
        | _ => (parsePolArgs fuel true rest).map fun r => (.or r.1, r.2)
      else if name == "thresh" then
        let (num, rest) := takeIdent rest
        match natOfChars num, rest with
        | some k, ',' :: rest => (parsePolArgs fuel false rest).map fun r => (.thresh k r.1, r.2)
        | _, _ => none
      else none
    | _ => if name == "U" then some (.unsat, rest) else if name == "T" then some (.trivial, rest) else none
/-- `[w@]X,[w@]Y,…)` -/
def parsePolArgs : Nat → Bool → List Char → Option (PPolList × List Char)
  | 0, _, _ => none
  | fuel + 1, withW, cs =>
    let wr : Option (Nat × List Char) :=
      if withW then
        let (num, rest) := takeIdent cs
        match natOfChars num, rest with
        | some w, '@' :: rest => some (w, rest)
        | _, _ => none
      else some (0, cs)
    match wr with
    | none => none
    | some (w, cs) =>
      match parsePol fuel cs with
      | some (x, ',' :: rest) => (parsePolArgs fuel withW rest).map fun r => (.cons w x r.1, r.2)
      | some (x, ')' :: rest) => some (.cons w x .nil, rest)
      | _ => none
end

def parsePolWire (s : String) : Option PPol :=
  let cs := s.toList
  match parsePol (cs.length + 2) cs with
  | some (p, []) => some p
  | _ => none

/-! ### token-wise substitution in a printed policy -/

def isHexChar (c : Char) : Bool := c.isDigit || ('a' ≤ c && c ≤ 'f')

def hexVal (cs : List Char) : Nat :=
  cs.foldl (fun acc c => acc * 16 + (if c.isDigit then c.toNat - 48 else c.toNat - 87)) 0

/-- transform one token: `K<digits>` is a key atom, a 40/64-digit hex token directly inside a
hash fragment is a hash atom, everything else stays -/
def substTok (keyTok : Nat → String) (hashTok : HashKind → Nat → String) (lastName : String)
    (tok : List Char) : String :=
  match tok with
  | 'K' :: ds =>
    if !ds.isEmpty && ds.all Char.isDigit then
      match natOfChars ds with | some k => keyTok k | none => String.ofList tok
    else String.ofList tok
  | _ =>
    match hkOfName lastName with
    | some kind =>
      if (tok.length == 64 || tok.length == 40) && tok.all isHexChar then hashTok kind (hexVal tok)
      else String.ofList tok
    | none => String.ofList tok

/-- scan the string; identifiers are maximal runs of alphanumerics / `_`; an identifier followed
by `(` is a fragment name (remembered), any other identifier is an argument token -/
def substScan (keyTok : Nat → String) (hashTok : HashKind → Nat → String) :
    List Char → List Char → String → String → String
  | [], cur, lastName, acc =>
    if cur.isEmpty then acc else acc ++ substTok keyTok hashTok lastName cur.reverse
  | c :: cs, cur, lastName, acc =>
    if isIdentChar c then substScan keyTok hashTok cs (c :: cur) lastName acc
    else if c == '(' then
      substScan keyTok hashTok cs [] (String.ofList cur.reverse) ((acc ++ String.ofList cur.reverse).push c)
    else
      let acc := if cur.isEmpty then acc else acc ++ substTok keyTok hashTok lastName cur.reverse
      substScan keyTok hashTok cs [] lastName (acc.push c)

def substString (keyTok : Nat → String) (hashTok : HashKind → Nat → String) (s : String) : String :=
  substScan keyTok hashTok s.toList [] "" ""

def padLeft (n : Nat) (c : Char) (s : String) : String :=
  String.ofList (List.replicate (n - s.length) c) ++ s

def hexDigits (n : Nat) : List Char :=
  if n < 16 then [("0123456789abcdef".toList)[n]!] else hexDigits (n / 16) ++ [("0123456789abcdef".toList)[n % 16]!]

/-- the harness' string atoms: key `K%05d`, hash `%064x` / `%040x` -/
def strKeyTok (k : Nat) : String := "K" ++ padLeft 5 '0' (toString k)
def strHashTok (kind : HashKind) (h : Nat) : String :=
  padLeft (match kind with | .sha256 | .hash256 => 64 | _ => 40) '0' (String.ofList (hexDigits h))

end MsVerif.Driver

/-
C07 ops: lifting (model, `C` lines) and the judge of the library's lifted policy (`J` lines).

  C lift <ctx> <ast>                      model's `lift`: policy in C18's wire format | ERR:<kind>
  C liftdesc <kind> <args…>               kinds: pkh K | wpkh K | shwpkh K | bare AST | wsh AST | sh AST
                                          | shwsh AST | tr K [AST …]   (leaves in `TapTree::leaves` order)
  J liftsem <ctx> <ast> <policy>          the LIBRARY's policy is parsed and, over every world
                                          relevant to the script, `holds W policy` is compared with
                                          `satEx (availOfWorld W) ms`; where a satisfaction exists
                                          the table's witness is executed by the Script semantics
                                          under that world's nLockTime / nSequence
  J liftdesc-sem <kind> <args…> <policy>  same for descriptors (key path OR any leaf); single-key
                                          outputs: the P2PKH script is executed with the key's
                                          signature (must pass) and with another key's (must fail)
  C lifttree <AST …>                      model's `Liftable for TapTree` (called directly)
  J lifttree-sem <AST …> <policy>         judged against "any leaf"
  J liftrefusal <ctx> <ast> <answer>      what the lifter documents about refusals: raw key hashes
                                          are refused (never shown as anything), `ERR:timelock`
                                          only when some spending path mixes units, and no policy
                                          is shown for a script with a satisfiable mixed path
  J liftstate <ctx> <ast> <norm|age:A|lock:N> <policy>
                                          the lifted policy after `normalized()` / `at_age(A)` /
                                          `at_lock_time(N)`, judged against the script in the
                                          worlds with nSequence = A resp. nLockTime = N
  J liftcompile <ctx|tr:U> <concrete policy> <lift(compile(policy))>
                                          same truth table over all assignments of the atoms (for
                                          `tr:U` with the unspendable internal key `U` unavailable)

Worlds: all subsets of the script's keys (first 5 distinct) and hash preimages (first 3) ×
(nLockTime, nSequence) on both sides of every lock (both units), as in harness `c02.rs`.
-/
import MsVerif.Driver.OpsSat
import MsVerif.Driver.OpsPolicy
import MsVerif.Model.Lift
import MsVerif.Spec.Spend

namespace MsVerif.Driver.LiftOps
open MsVerif MsVerif.Pol MsVerif.MsSem MsVerif.Lift MsVerif.SatTable MsVerif.Driver
open MsVerif.Driver.PolicyOps (showPolicy parsePolicy parseCPolicy)

def showErrKind : LiftErr → String
  | .heightTimelockCombination => "ERR:timelock"
  | .branchExceedResourceLimits => "ERR:limits"
  | .rawDescriptorLift => "ERR:rawpkh"
  | .panic => "PANIC"

def showLiftRes : Except LiftErr Policy → String
  | .ok p => showPolicy p
  | .error e => showErrKind e

/-! ### atoms of a script -/

mutual
def keysOf : Ms → List Key
  | .pkK k | .pkH k => [k]
  | .multi _ ks | .sortedMulti _ ks | .multiA _ ks | .sortedMultiA _ ks => ks
  | .alt x | .swap x | .check x | .dupIf x | .verify x | .nonZero x | .zeroNotEqual x => keysOf x
  | .andV l r | .andB l r | .orB l r | .orD l r | .orC l r | .orI l r => keysOf l ++ keysOf r
  | .andOr a b c => keysOf a ++ keysOf b ++ keysOf c
  | .thresh _ xs => keysOfL xs
  | _ => []
def keysOfL : MsList → List Key
  | .nil => []
  | .cons x xs => keysOf x ++ keysOfL xs
end

mutual
def hashesOf : Ms → List (MsVerif.HashKind × Nat)
  | .hash kind h => [(kind, h)]
  | .alt x | .swap x | .check x | .dupIf x | .verify x | .nonZero x | .zeroNotEqual x => hashesOf x
  | .andV l r | .andB l r | .orB l r | .orD l r | .orC l r | .orI l r => hashesOf l ++ hashesOf r
  | .andOr a b c => hashesOf a ++ hashesOf b ++ hashesOf c
  | .thresh _ xs => hashesOfL xs
  | _ => []
def hashesOfL : MsList → List (MsVerif.HashKind × Nat)
  | .nil => []
  | .cons x xs => hashesOf x ++ hashesOfL xs
end

mutual
/-- (after values, older values) -/
def locksOf : Ms → List Nat × List Nat
  | .after n => ([n], [])
  | .older n => ([], [n])
  | .alt x | .swap x | .check x | .dupIf x | .verify x | .nonZero x | .zeroNotEqual x => locksOf x
  | .andV l r | .andB l r | .orB l r | .orD l r | .orC l r | .orI l r =>
    ((locksOf l).1 ++ (locksOf r).1, (locksOf l).2 ++ (locksOf r).2)
  | .andOr a b c =>
    ((locksOf a).1 ++ (locksOf b).1 ++ (locksOf c).1, (locksOf a).2 ++ (locksOf b).2 ++ (locksOf c).2)
  | .thresh _ xs => locksOfL xs
  | _ => ([], [])
def locksOfL : MsList → List Nat × List Nat
  | .nil => ([], [])
  | .cons x xs => ((locksOf x).1 ++ (locksOfL xs).1, (locksOf x).2 ++ (locksOfL xs).2)
end

/-! ### worlds -/

def sublists {α} : List α → List (List α)
  | [] => [[]]
  | a :: as => (sublists as) ++ (sublists as).map (a :: ·)

/-- type flag + 16 value bits of a relative lock -/
def relCanonN (n : Nat) : Nat := (n / 4194304 % 2) * 4194304 + n % 65536

/-- nLockTime values on both sides of every absolute lock -/
def lockTimes (afters : List Nat) : List Nat :=
  (0 :: afters.flatMap (fun n => if n > 1 then [n, n - 1] else [n])).eraseDups
/-- nSequence values on both sides of every relative lock; 0xfffffffe = no relative lock -/
def sequences (olders : List Nat) : List Nat :=
  (4294967294 :: olders.flatMap (fun n =>
    let c := relCanonN n
    -- the lock itself, one below, and the same value with non-consensus bits set in nSequence
    (if c % 65536 ≥ 1 then [c, c - 1] else [c]) ++ [c + 65536 * 3])).eraseDups

structure WorldSpec where
  keys : List Key
  pres : List (MsVerif.HashKind × Nat)
  lt : Nat
  sq : Nat

def WorldSpec.world (w : WorldSpec) : World where
  canSign k := w.keys.contains k
  preimage kind h := w.pres.any (fun p => polHash p.1 == kind && p.2 == h)
  nLockTime := w.lt
  nSequence := w.sq

def WorldSpec.show (w : WorldSpec) : String :=
  let ks := ",".intercalate (w.keys.map toString)
  let ps := ",".intercalate (w.pres.map fun p => s!"{HashKind.name p.1}:{p.2}")
  s!"keys={if ks.isEmpty then "-" else ks};pre={if ps.isEmpty then "-" else ps};nLockTime={w.lt};nSequence={w.sq}"

/-- every world relevant to the given scripts (plus extra keys, e.g. the taproot internal key) -/
def worldsFor (mss : List Ms) (extraKeys : List Key) : List WorldSpec :=
  let keys := ((extraKeys ++ mss.flatMap keysOf).eraseDups).take 5
  let pres := ((mss.flatMap hashesOf).eraseDups).take 3
  let afters := mss.flatMap (fun m => (locksOf m).1)
  let olders := mss.flatMap (fun m => (locksOf m).2)
  let lts := (lockTimes afters).take 7
  let sqs := (sequences olders).take 7
  (sublists keys).flatMap fun ks => (sublists pres).flatMap fun ps =>
    lts.flatMap fun lt => sqs.map fun sq => ⟨ks, ps, lt, sq⟩

/-! ### executing the table's witness -/

def noAssets : Assets where
  ecdsaSig _ := false
  schnorrSig _ := none
  rawPkhPk _ := none
  rawPkhEcdsa _ := none
  rawPkhSchnorr _ := none
  preimage _ _ := false
  checkOlder _ := false
  checkAfter _ := false

/-- "" if the table's canonical satisfaction for this world executes to exactly `[true]` -/
def execTableWitness (t : Tables) (ctx : Ctx) (w : WorldSpec) (ms : Ms) : String :=
  match satWit (availOfWorld w.world) (sortKeys t.keyEnv) ms with
  | none => "table-has-no-witness"
  | some items =>
    match items.mapM (realise t noAssets) with
    | none => "unrealisable"
    | some bs =>
      match runWit t ctx w.lt w.sq ms bs with
      | .error e => "exec-error:" ++ reprStr e
      | .ok [v] => if Script.castToBool v then "" else "witness-left-false"
      | .ok _ => "unclean-stack"

/-- judge one script against a truth value of the library's policy in one world -/
def judgeScriptWorld (t : Tables) (ctx : Ctx) (ms : Ms) (w : WorldSpec) : Bool × String :=
  let W := w.world
  let ex := satEx (availOfWorld W) ms
  let why :=
    if ex != sem W ms then "spec-sem-differs-from-table"
    else if ex then execTableWitness t ctx w ms else ""
  (ex, why)

def firstBad {α} (xs : List α) (f : α → Option String) : Option String :=
  match xs with
  | [] => none
  | x :: rest => match f x with | some s => some s | none => firstBad rest f

/-- worlds with the transaction fields fixed as the policy restriction was taken for:
`sq = some a` ↔ `at_age(a)`, `lt = some n` ↔ `at_lock_time(n)` -/
def worldsFixed (ms : Ms) (lt sq : Option Nat) : List WorldSpec :=
  let keys := ((keysOf ms).eraseDups).take 5
  let pres := ((hashesOf ms).eraseDups).take 3
  let lts := match lt with | some n => [n] | none => (lockTimes (locksOf ms).1).take 7
  let sqs := match sq with | some a => [a] | none => (sequences (locksOf ms).2).take 7
  (sublists keys).flatMap fun ks => (sublists pres).flatMap fun ps =>
    lts.flatMap fun l => sqs.map fun q => ⟨ks, ps, l, q⟩

/-- a policy derived from the lifted one (`normalized`, `at_age`, `at_lock_time`) still says
exactly when the script is spendable - in the worlds the restriction was taken for -/
def judgeState (ms : Ms) (lt sq : Option Nat) (pol : Policy) : String :=
  match firstBad (worldsFixed ms lt sq) (fun w =>
    let W := w.world
    let ex := satEx (availOfWorld W) ms
    let h := holds W pol
    if h != ex then some s!"bad:{w.show}:policy-says-{h}-but-canonical-satisfaction-exists={ex}"
    else none) with
  | some s => s
  | none => "ok"

def judgeMs (t : Tables) (ctx : Ctx) (ms : Ms) (pol : Policy) : String :=
  match firstBad (worldsFor [ms] []) (fun w =>
    let (ex, why) := judgeScriptWorld t ctx ms w
    let h := holds w.world pol
    if why != "" then some s!"bad:{w.show}:{why}"
    else if h != ex then
      some s!"bad:{w.show}:policy-says-{h}-but-canonical-satisfaction-exists={ex}"
    else none) with
  | some s => s
  | none => "ok"

/-! ### descriptors -/

def parseDesc (kind : String) (args : List String) : Option Desc :=
  match kind, args with
  | "pkh", [k] => k.toNat?.map .pkh
  | "wpkh", [k] => k.toNat?.map .wpkh
  | "shwpkh", [k] => k.toNat?.map .shWpkh
  | "bare", [a] => (parseAst a).map .bare
  | "wsh", [a] => (parseAst a).map .wsh
  | "sh", [a] => (parseAst a).map .sh
  | "shwsh", [a] => (parseAst a).map .shWsh
  | "tr", k :: leaves | "trdirect", k :: leaves => do
    let k ← k.toNat?
    let ls ← leaves.mapM parseAst
    pure (.tr k ls)
  | _, _ => none

/-- (context, scripts, bare keys) of a descriptor -/
def descParts : Desc → Ctx × List Ms × List Key
  | .pkh k | .wpkh k | .shWpkh k => (.legacy, [], [k])
  | .bare ms => (.bare, [ms], [])
  | .wsh ms | .shWsh ms => (.segwitv0, [ms], [])
  | .sh ms => (.legacy, [ms], [])
  | .tr k leaves => (.tap, leaves, [k])

/-- run a raw script on a witness (bottom first) -/
def runOps (t : Tables) (ctx : Ctx) (lt sq : Nat) (ops : List Script.Op) (wit : List Bytes) :
    Except Script.Err (List Bytes) :=
  let env := mkEnv t ctx false lt sq
  match Script.run env ops (Script.State.init wit.reverse) with
  | .ok s => if s.conds.isEmpty then .ok s.core.stack else .error .unbalancedConditional
  | .error e => .error e

/-- single-key outputs: the P2PKH script (scriptPubKey of `pkh`, implied script of `wpkh` /
`sh(wpkh)`) accepts `<sig k> <pk k>` and rejects `<sig other> <pk k>`.  "" = as expected. -/
def execKeyHash (t : Tables) (ctx : Ctx) (w : WorldSpec) (k other : Key) : String :=
  let script := Spend.p2pkhScript (t.keyEnv.pkh k)
  let pk := t.keyEnv.ser k
  let sigOf (x : Key) : Option Bytes := (t.sigs.find? fun p => p.1 == t.keyEnv.ser x).map (·.2)
  let W := w.world
  if W.canSign k then
    match sigOf k with
    | none => "no-signature-in-table"
    | some sg =>
      match runOps t ctx w.lt w.sq script [sg, pk] with
      | .ok [v] => if Script.castToBool v then "" else "p2pkh-own-signature-left-false"
      | .ok _ => "p2pkh-unclean"
      | .error e => "p2pkh-exec-error:" ++ reprStr e
  else if W.canSign other then
    match sigOf other with
    | none => ""
    | some sg =>
      match runOps t ctx w.lt w.sq script [sg, pk] with
      | .ok [v] => if Script.castToBool v then "p2pkh-accepts-another-keys-signature" else ""
      | _ => ""
  else ""

/-- judge a policy against outputs made of scripts (any of them) and bare keys (any of them);
`spec` is the specification's value (`semDesc` …), cross-checked against the table -/
def judgeParts (t : Tables) (ctx : Ctx) (mss : List Ms) (ks extra : List Key) (spec : World → Bool)
    (keyExec : WorldSpec → String) (pol : Policy) : String :=
  match firstBad (worldsFor mss (ks ++ extra)) (fun w =>
    let W := w.world
    let rs := mss.map (fun ms => judgeScriptWorld t ctx ms w)
    let ex := ks.any W.canSign || rs.any (·.1)
    let h := holds W pol
    match rs.find? (fun r => r.2 != "") with
    | some r => some s!"bad:{w.show}:{r.2}"
    | none =>
      let ke := keyExec w
      if ke != "" then some s!"bad:{w.show}:{ke}"
      else if ex != spec W then some s!"bad:{w.show}:spec-differs-from-table"
      else if h != ex then
        some s!"bad:{w.show}:policy-says-{h}-but-spendable={ex}"
      else none) with
  | some s => s
  | none => "ok"

/-- a key of the tables different from `k` (same kind), used as "somebody else" -/
def otherKey (k : Key) : Key := if k % 100 == 0 then k + 1 else k - 1

def judgeDesc (t : Tables) (d : Desc) (pol : Policy) : String :=
  let (ctx, mss, ks) := descParts d
  match d with
  | .pkh k => judgeParts t .legacy [] [k] [otherKey k] (fun W => semDesc W d)
      (fun w => execKeyHash t .legacy w k (otherKey k)) pol
  | .wpkh k | .shWpkh k => judgeParts t .segwitv0 [] [k] [otherKey k] (fun W => semDesc W d)
      (fun w => execKeyHash t .segwitv0 w k (otherKey k)) pol
  | _ => judgeParts t ctx mss ks [] (fun W => semDesc W d) (fun _ => "") pol

/-- `TapTree::lift` called directly: any leaf -/
def judgeTree (t : Tables) (leaves : List Ms) (pol : Policy) : String :=
  judgeParts t .tap leaves [] [] (fun W => leaves.any (sem W)) (fun _ => "") pol

/-- what the lifter documents about refusals -/
def judgeRefusal (ms : Ms) (ans : String) : String :=
  if ans == "PANIC" then "bad:panic"
  else if ans == "ERR:rawpkh" then
    if mentionsRaw ms then "ok" else "bad:refused-as-raw-key-hash-but-the-script-has-none"
  else if ans == "ERR:timelock" then
    if hasMixedPath true ms then "ok" else "bad:refused-as-timelock-combination-but-no-path-mixes-units"
  else if ans.startsWith "ERR" then "ok"           -- resource limits: correspondence only
  else if mentionsRaw ms then "bad:raw-key-hash-shown-as-a-policy"
  else if hasMixedPath false ms then "bad:policy-shown-although-a-satisfiable-path-mixes-lock-units"
  else "ok"

/-- `lift(compile(p))` has the truth table of `p` (every assignment; `unsp`: unavailable key) -/
def judgeLiftCompile (unsp : Option Nat) (c : CPolicy) (q : Policy) : String :=
  let atoms := atomsOfC c ++ atomsOf q
  let fix (v : Atom → Bool) : Atom → Bool := fun a =>
    match unsp with
    | some u => if a == .key u then false else v a
    | none => v a
  match (subsets atoms.eraseDups).find? (fun ts =>
      holdsA (fix (valOf ts)) q != holdsC (fix (valOf ts)) c) with
  | none => "ok"
  | some ts =>
    let shown := ",".intercalate ((ts.filter (fun a => fix (valOf ts) a)).map PolicyOps.showAtom)
    s!"bad:true-atoms=[{shown}]:policy={holdsC (fix (valOf ts)) c},lifted={holdsA (fix (valOf ts)) q}"

def splitLast : List String → Option (List String × String)
  | [] => none
  | [x] => some ([], x)
  | x :: xs => (splitLast xs).map fun (i, l) => (x :: i, l)

def opsLift (t : Tables) (kind op : String) (args : List String) : Option String :=
  match kind, op, args with
  | "C", "lift", [ctx, ast] => do
    let ctx ← parseCtx ctx; let ms ← parseAst ast
    pure (showLiftRes (lift t.keyEnv ctx ms))
  | "C", "liftdesc", k :: rest => do
    let d ← parseDesc k rest
    pure (showLiftRes (liftDesc t.keyEnv d))
  | "J", "liftsem", [ctx, ast, pol] => do
    let ctx ← parseCtx ctx; let ms ← parseAst ast
    if pol.startsWith "ERR" then pure "ok"       -- a refusal shows no policy
    else if pol == "PANIC" then pure "bad:panic"
    else match parsePolicy pol with
      | none => pure "bad:unparseable-policy"
      | some p => pure (judgeMs t ctx ms p)
  | "C", "lifttree", leaves => do
    let ls ← leaves.mapM parseAst
    pure (showLiftRes (liftTapTree t.keyEnv ls))
  | "J", "lifttree-sem", args => do
    let (leaves, pol) ← splitLast args
    let ls ← leaves.mapM parseAst
    if pol.startsWith "ERR" then pure "ok"
    else if pol == "PANIC" then pure "bad:panic"
    else match parsePolicy pol with
      | none => pure "bad:unparseable-policy"
      | some p => pure (judgeTree t ls p)
  -- J liftstate <ctx> <ast> <norm | age:<nSequence> | lock:<nLockTime>> <policy>
  | "J", "liftstate", [_ctx, ast, state, pol] => do
    let ms ← parseAst ast
    let (lt, sq) : Option Nat × Option Nat ← (match state.splitOn ":" with
      | ["norm"] => some (none, none)
      | ["age", a] => a.toNat?.map fun a => (none, some a)
      | ["lock", n] => n.toNat?.map fun n => (some n, none)
      | _ => none)
    if pol == "PANIC" then pure "bad:panic"
    else match parsePolicy pol with
      | none => pure "bad:unparseable-policy"
      | some p => pure (judgeState ms lt sq p)
  | "J", "liftrefusal", [_ctx, ast, ans] => do
    let ms ← parseAst ast
    pure (judgeRefusal ms ans)
  | "J", "liftcompile", [target, c, q] => do
    let c ← parseCPolicy c
    let unsp : Option Nat ← (match target.splitOn ":" with
      | ["tr", u] => u.toNat?.map some
      | _ => some none)
    if q.startsWith "ERR" then pure "ok"          -- a refusal shows no policy
    else if q == "PANIC" then pure "bad:panic"
    else match parsePolicy q with
      | none => pure "bad:unparseable-policy"
      | some q => pure (judgeLiftCompile unsp c q)
  | "J", "liftdesc-sem", k :: rest => do
    let (dargs, pol) ← splitLast rest
    let d ← parseDesc k dargs
    if pol.startsWith "ERR" then pure "ok"
    else if pol == "PANIC" then pure "bad:panic"
    else match parsePolicy pol with
      | none => pure "bad:unparseable-policy"
      | some p => pure (judgeDesc t d p)
  | _, _, _ => none

end MsVerif.Driver.LiftOps

namespace MsVerif.Driver
/-- entry point for `Dispatch.lean` -/
def opsLift (t : Tables) (kind op : String) (args : List String) : Option String :=
  LiftOps.opsLift t kind op args
end MsVerif.Driver

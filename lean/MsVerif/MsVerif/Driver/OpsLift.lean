/-
C07 ops: lifting (model, `C` lines) and the judge of the library's lifted policy (`J` lines).

  C lift <ctx> <ast>                      model's `lift`: policy in C18's wire format | ERR:<kind>
  C liftdesc <kind> <args…>               kinds: pkh K | wpkh K | shwpkh K | bare AST | wsh AST | sh AST
                                          | shwsh AST | tr K [AST …]   (leaves in `TapTree::leaves` order)
  J liftsem <ctx> <ast> <policy>          the LIBRARY's policy is parsed and, over every world
                                          relevant to the script, `holds W policy` is compared with
                                          `satEx (availOfWorld W) ms`; where a satisfaction exists
                                          the table's witness is executed by the Script semantics
                                          under that world's nLockTime / nSequence
  J liftdesc-sem <kind> <args…> <policy>  same for descriptors (key path OR any leaf)

Worlds: all subsets of the script's keys (first 5 distinct) and hash preimages (first 3) ×
(nLockTime, nSequence) on both sides of every lock (both units), as in harness `c02.rs`.
-/
import MsVerif.Driver.OpsSat
import MsVerif.Driver.OpsPolicy
import MsVerif.Model.Lift

namespace MsVerif.Driver.LiftOps
open MsVerif MsVerif.Pol MsVerif.MsSem MsVerif.Lift MsVerif.SatTable MsVerif.Driver
open MsVerif.Driver.PolicyOps (showPolicy parsePolicy)

def showErrKind : LiftErr → String
  | .heightTimelockCombination => "ERR:timelock"
  | .branchExceedResourceLimits => "ERR:limits"
  | .rawDescriptorLift => "ERR:rawpkh"
  | .panic => "PANIC"

def showLiftRes : Except LiftErr Policy → String
  | .ok p => showPolicy p
  | .error e => showErrKind e

/-! ### atoms of a script -/

mutual
def keysOf : Ms → List Key
  | .pkK k | .pkH k => [k]
  | .multi _ ks | .sortedMulti _ ks | .multiA _ ks | .sortedMultiA _ ks => ks
  | .alt x | .swap x | .check x | .dupIf x | .verify x | .nonZero x | .zeroNotEqual x => keysOf x
  | .andV l r | .andB l r | .orB l r | .orD l r | .orC l r | .orI l r => keysOf l ++ keysOf r
  | .andOr a b c => keysOf a ++ keysOf b ++ keysOf c
  | .thresh _ xs => keysOfL xs
  | _ => []
def keysOfL : MsList → List Key
  | .nil => []
  | .cons x xs => keysOf x ++ keysOfL xs
end

mutual
def hashesOf : Ms → List (MsVerif.HashKind × Nat)
  | .hash kind h => [(kind, h)]
  | .alt x | .swap x | .check x | .dupIf x | .verify x | .nonZero x | .zeroNotEqual x => hashesOf x
  | .andV l r | .andB l r | .orB l r | .orD l r | .orC l r | .orI l r => hashesOf l ++ hashesOf r
  | .andOr a b c => hashesOf a ++ hashesOf b ++ hashesOf c
  | .thresh _ xs => hashesOfL xs
  | _ => []
def hashesOfL : MsList → List (MsVerif.HashKind × Nat)
  | .nil => []
  | .cons x xs => hashesOf x ++ hashesOfL xs
end

mutual
/-- (after values, older values) -/
def locksOf : Ms → List Nat × List Nat
  | .after n => ([n], [])
  | .older n => ([], [n])
  | .alt x | .swap x | .check x | .dupIf x | .verify x | .nonZero x | .zeroNotEqual x => locksOf x
  | .andV l r | .andB l r | .orB l r | .orD l r | .orC l r | .orI l r =>
    ((locksOf l).1 ++ (locksOf r).1, (locksOf l).2 ++ (locksOf r).2)
  | .andOr a b c =>
    ((locksOf a).1 ++ (locksOf b).1 ++ (locksOf c).1, (locksOf a).2 ++ (locksOf b).2 ++ (locksOf c).2)
  | .thresh _ xs => locksOfL xs
  | _ => ([], [])
def locksOfL : MsList → List Nat × List Nat
  | .nil => ([], [])
  | .cons x xs => ((locksOf x).1 ++ (locksOfL xs).1, (locksOf x).2 ++ (locksOfL xs).2)
end

/-! ### worlds -/

def sublists {α} : List α → List (List α)
  | [] => [[]]
  | a :: as => (sublists as) ++ (sublists as).map (a :: ·)

/-- type flag + 16 value bits of a relative lock -/
def relCanonN (n : Nat) : Nat := (n / 4194304 % 2) * 4194304 + n % 65536

/-- nLockTime values on both sides of every absolute lock -/
def lockTimes (afters : List Nat) : List Nat :=
  (0 :: afters.flatMap (fun n => if n > 1 then [n, n - 1] else [n])).eraseDups
/-- nSequence values on both sides of every relative lock; 0xfffffffe = no relative lock -/
def sequences (olders : List Nat) : List Nat :=
  (4294967294 :: olders.flatMap (fun n =>
    let c := relCanonN n
    if c % 65536 > 1 then [c, c - 1] else [c])).eraseDups

structure WorldSpec where
  keys : List Key
  pres : List (MsVerif.HashKind × Nat)
  lt : Nat
  sq : Nat

def WorldSpec.world (w : WorldSpec) : World where
  canSign k := w.keys.contains k
  preimage kind h := w.pres.any (fun p => polHash p.1 == kind && p.2 == h)
  nLockTime := w.lt
  nSequence := w.sq

def WorldSpec.show (w : WorldSpec) : String :=
  let ks := ",".intercalate (w.keys.map toString)
  let ps := ",".intercalate (w.pres.map fun p => s!"{HashKind.name p.1}:{p.2}")
  s!"keys={if ks.isEmpty then "-" else ks};pre={if ps.isEmpty then "-" else ps};nLockTime={w.lt};nSequence={w.sq}"

/-- every world relevant to the given scripts (plus extra keys, e.g. the taproot internal key) -/
def worldsFor (mss : List Ms) (extraKeys : List Key) : List WorldSpec :=
  let keys := ((extraKeys ++ mss.flatMap keysOf).eraseDups).take 5
  let pres := ((mss.flatMap hashesOf).eraseDups).take 3
  let afters := mss.flatMap (fun m => (locksOf m).1)
  let olders := mss.flatMap (fun m => (locksOf m).2)
  let lts := (lockTimes afters).take 7
  let sqs := (sequences olders).take 7
  (sublists keys).flatMap fun ks => (sublists pres).flatMap fun ps =>
    lts.flatMap fun lt => sqs.map fun sq => ⟨ks, ps, lt, sq⟩

/-! ### executing the table's witness -/

def noAssets : Assets where
  ecdsaSig _ := false
  schnorrSig _ := none
  rawPkhPk _ := none
  rawPkhEcdsa _ := none
  rawPkhSchnorr _ := none
  preimage _ _ := false
  checkOlder _ := false
  checkAfter _ := false

/-- "" if the table's canonical satisfaction for this world executes to exactly `[true]` -/
def execTableWitness (t : Tables) (ctx : Ctx) (w : WorldSpec) (ms : Ms) : String :=
  match satWit (availOfWorld w.world) (sortKeys t.keyEnv) ms with
  | none => "table-has-no-witness"
  | some items =>
    match items.mapM (realise t noAssets) with
    | none => "unrealisable"
    | some bs =>
      match runWit t ctx w.lt w.sq ms bs with
      | .error e => "exec-error:" ++ reprStr e
      | .ok [v] => if Script.castToBool v then "" else "witness-left-false"
      | .ok _ => "unclean-stack"

/-- judge one script against a truth value of the library's policy in one world -/
def judgeScriptWorld (t : Tables) (ctx : Ctx) (ms : Ms) (w : WorldSpec) : Bool × String :=
  let W := w.world
  let ex := satEx (availOfWorld W) ms
  let why :=
    if ex != sem W ms then "spec-sem-differs-from-table"
    else if ex then execTableWitness t ctx w ms else ""
  (ex, why)

def firstBad {α} (xs : List α) (f : α → Option String) : Option String :=
  match xs with
  | [] => none
  | x :: rest => match f x with | some s => some s | none => firstBad rest f

def judgeMs (t : Tables) (ctx : Ctx) (ms : Ms) (pol : Policy) : String :=
  match firstBad (worldsFor [ms] []) (fun w =>
    let (ex, why) := judgeScriptWorld t ctx ms w
    let h := holds w.world pol
    if why != "" then some s!"bad:{w.show}:{why}"
    else if h != ex then
      some s!"bad:{w.show}:policy-says-{h}-but-canonical-satisfaction-exists={ex}"
    else none) with
  | some s => s
  | none => "ok"

/-! ### descriptors -/

def parseDesc (kind : String) (args : List String) : Option Desc :=
  match kind, args with
  | "pkh", [k] => k.toNat?.map .pkh
  | "wpkh", [k] => k.toNat?.map .wpkh
  | "shwpkh", [k] => k.toNat?.map .shWpkh
  | "bare", [a] => (parseAst a).map .bare
  | "wsh", [a] => (parseAst a).map .wsh
  | "sh", [a] => (parseAst a).map .sh
  | "shwsh", [a] => (parseAst a).map .shWsh
  | "tr", k :: leaves => do
    let k ← k.toNat?
    let ls ← leaves.mapM parseAst
    pure (.tr k ls)
  | _, _ => none

/-- (context, scripts, bare keys) of a descriptor -/
def descParts : Desc → Ctx × List Ms × List Key
  | .pkh k | .wpkh k | .shWpkh k => (.legacy, [], [k])
  | .bare ms => (.bare, [ms], [])
  | .wsh ms | .shWsh ms => (.segwitv0, [ms], [])
  | .sh ms => (.legacy, [ms], [])
  | .tr k leaves => (.tap, leaves, [k])

def judgeDesc (t : Tables) (d : Desc) (pol : Policy) : String :=
  let (ctx, mss, ks) := descParts d
  match firstBad (worldsFor mss ks) (fun w =>
    let W := w.world
    let rs := mss.map (fun ms => judgeScriptWorld t ctx ms w)
    let ex := ks.any W.canSign || rs.any (·.1)
    let h := holds W pol
    match rs.find? (fun r => r.2 != "") with
    | some r => some s!"bad:{w.show}:{r.2}"
    | none =>
      if ex != semDesc W d then some s!"bad:{w.show}:spec-semDesc-differs-from-table"
      else if h != ex then
        some s!"bad:{w.show}:policy-says-{h}-but-spendable={ex}"
      else none) with
  | some s => s
  | none => "ok"

def splitLast : List String → Option (List String × String)
  | [] => none
  | [x] => some ([], x)
  | x :: xs => (splitLast xs).map fun (i, l) => (x :: i, l)

def opsLift (t : Tables) (kind op : String) (args : List String) : Option String :=
  match kind, op, args with
  | "C", "lift", [ctx, ast] => do
    let ctx ← parseCtx ctx; let ms ← parseAst ast
    pure (showLiftRes (lift t.keyEnv ctx ms))
  | "C", "liftdesc", k :: rest => do
    let d ← parseDesc k rest
    pure (showLiftRes (liftDesc t.keyEnv d))
  | "J", "liftsem", [ctx, ast, pol] => do
    let ctx ← parseCtx ctx; let ms ← parseAst ast
    if pol.startsWith "ERR" then pure "ok"       -- a refusal shows no policy
    else if pol == "PANIC" then pure "bad:panic"
    else match parsePolicy pol with
      | none => pure "bad:unparseable-policy"
      | some p => pure (judgeMs t ctx ms p)
  | "J", "liftdesc-sem", k :: rest => do
    let (dargs, pol) ← splitLast rest
    let d ← parseDesc k dargs
    if pol.startsWith "ERR" then pure "ok"
    else if pol == "PANIC" then pure "bad:panic"
    else match parsePolicy pol with
      | none => pure "bad:unparseable-policy"
      | some p => pure (judgeDesc t d p)
  | _, _, _ => none

end MsVerif.Driver.LiftOps

namespace MsVerif.Driver
/-- entry point for `Dispatch.lean` -/
def opsLift (t : Tables) (kind op : String) (args : List String) : Option String :=
  LiftOps.opsLift t kind op args
end MsVerif.Driver

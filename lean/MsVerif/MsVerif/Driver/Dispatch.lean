import MsVerif.Driver.OpsTypes
import MsVerif.Driver.OpsMs
import MsVerif.Driver.OpsTap
import MsVerif.Driver.OpsPolicy
import MsVerif.Driver.OpsSpend
import MsVerif.Driver.OpsSat
import MsVerif.Driver.OpsSatD
import MsVerif.Driver.OpsText
import MsVerif.Driver.OpsLift
import MsVerif.Driver.OpsDesc
import MsVerif.Driver.OpsBounds
import MsVerif.Driver.OpsPlan
import MsVerif.Driver.OpsValidate
import MsVerif.Driver.OpsPsbt
import MsVerif.Driver.OpsCompile
import MsVerif.Driver.OpsTypeExec
import MsVerif.Driver.OpsDisplay
import MsVerif.Driver.OpsDecode
import MsVerif.Driver.OpsCmp
import MsVerif.Driver.OpsInterp
import MsVerif.Driver.OpsMalle

namespace MsVerif.Driver

/-- driver state: symbol tables sent by the harness (keys, hashes, …) -/
structure DState where
  tables : Tables := {}

def step (st : DState) (line : String) : DState × String :=
  let ws := line.splitOn " "
  match ws with
  | "D" :: args =>
    match defLine st.tables args with
    | some t => ({ st with tables := t }, "ok")
    | none => (st, "bad-def")
  -- generic judges whose verdict was computed on the harness side by an oracle that is not
  -- code under test: the failing case is on the line, the driver only turns it into ok/bad
  | "J" :: "nopanic" :: args => (st, if args.getLast? == some "PANIC" then "bad:panic" else "ok")
  | kind :: op :: args =>
    match opsTypes kind op args with
    | some r => (st, r)
    | none =>
      match opsMs st.tables kind op args with
      | some r => (st, r)
      | none =>
        match opsTap kind op args with
        | some r => (st, r)
        | none =>
          match opsPolicy kind op args with
          | some r => (st, r)
          | none =>
            match opsSpend st.tables kind op args with
            | some r => (st, r)
            | none =>
              match opsSat st.tables kind op args with
              | some r => (st, r)
              | none =>
                match opsText kind op args with
                | some r => (st, r)
                | none =>
                  match opsLift st.tables kind op args with
                  | some r => (st, r)
                  | none =>
                    match opsDesc st.tables kind op args with
                    | some r => (st, r)
                    | none =>
                      match opsBounds st.tables kind op args with
                      | some r => (st, r)
                      | none =>
                        match opsPlan st.tables kind op args with
                        | some r => (st, r)
                        | none =>
                          match opsValidate st.tables kind op args with
                          | some r => (st, r)
                          | none =>
                            match opsPsbt kind op args with
                            | some r => (st, r)
                            | none =>
                              match opsCompile st.tables kind op args with
                              | some r => (st, r)
                              | none =>
                                match opsTypeExec st.tables kind op args with
                                | some r => (st, r)
                                | none =>
                                  match opsDisplay st.tables kind op args with
                                  | some r => (st, r)
                                  | none =>
                                    match opsDecode st.tables kind op args with
                                    | some r => (st, r)
                                    | none =>
                                      match opsCmp st.tables kind op args with
                                      | some r => (st, r)
                                      | none =>
                                        match opsInterp st.tables kind op args with
                                        | some r => (st, r)
                                        | none =>
                                          match opsMalle st.tables kind op args with
                                          | some r => (st, r)
                                          | none =>
                                            match SatD.opsSatD st.tables kind op args with
                                            | some r => (st, r)
                                            | none => (st, "bad-op")
  | _ => (st, "bad-op")

end MsVerif.Driver

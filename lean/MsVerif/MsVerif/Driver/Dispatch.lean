import MsVerif.Driver.OpsTypes
import MsVerif.Driver.OpsMs
import MsVerif.Driver.OpsTap
import MsVerif.Driver.OpsPolicy

namespace MsVerif.Driver

/-- driver state: symbol tables sent by the harness (keys, hashes, …) -/
structure DState where
  tables : Tables := {}

def step (st : DState) (line : String) : DState × String :=
  let ws := line.splitOn " "
  match ws with
  | "D" :: args =>
    match defLine st.tables args with
    | some t => ({ st with tables := t }, "ok")
    | none => (st, "bad-def")
  | kind :: op :: args =>
    match opsTypes kind op args with
    | some r => (st, r)
    | none =>
      match opsMs st.tables kind op args with
      | some r => (st, r)
      | none =>
        match opsTap kind op args with
        | some r => (st, r)
        | none =>
          match opsPolicy kind op args with
          | some r => (st, r)
          | none => (st, "bad-op")
  | _ => (st, "bad-op")

end MsVerif.Driver

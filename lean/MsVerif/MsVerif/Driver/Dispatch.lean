import MsVerif.Driver.OpsTypes

namespace MsVerif.Driver

/-- driver state: symbol tables sent by the harness (keys, hashes, …) -/
structure DState where
  dummy : Unit := ()

def step (st : DState) (line : String) : DState × String :=
  let ws := line.splitOn " "
  match ws with
  | kind :: op :: args =>
    match opsTypes kind op args with
    | some r => (st, r)
    | none => (st, "bad-op")
  | _ => (st, "bad-op")

end MsVerif.Driver

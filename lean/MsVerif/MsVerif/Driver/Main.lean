/-
Line-protocol driver: answers every line of `ops.txt` with the MODEL's (C lines) or the
SPECIFICATION's (J lines) verdict.  Imports only import-free modules so that it links as a
native executable.
-/
import MsVerif.Driver.Dispatch

open MsVerif.Driver

partial def loop (hin : IO.FS.Stream) (hout : IO.FS.Stream) (st : DState) : IO Unit := do
  let line ← hin.getLine
  if line.isEmpty then return ()
  let l := (line.trimAsciiEnd).toString
  let (st', ans) := step st l
  hout.putStrLn ans
  loop hin hout st'

def main : IO Unit := do
  let hin ← IO.getStdin
  let hout ← IO.getStdout
  loop hin hout {}
  hout.flush

/- Wire-format parser for the neutral AST (`and_v(v(c(pk_k(0))),older(144))`). -/
import MsVerif.Model.Ast

namespace MsVerif.Driver
open MsVerif

def isIdentChar (c : Char) : Bool := c.isAlphanum || c == '_'

def takeIdent : List Char → List Char × List Char
  | [] => ([], [])
  | c :: cs => if isIdentChar c then let (a, b) := takeIdent cs; (c :: a, b) else ([], c :: cs)

def natOfChars (cs : List Char) : Option Nat := (String.ofList cs).toNat?

mutual
/-- parse one expression; returns the rest -/
def parseMs : Nat → List Char → Option (Ms × List Char)
  | 0, _ => none
  | fuel + 1, cs =>
    let (id, rest) := takeIdent cs
    let name := String.ofList id
    match rest with
    | '(' :: rest =>
      -- numeric-argument leaves
      if name == "pk_k" || name == "pk_h" || name == "raw_pkh" || name == "after" || name == "older"
         || name == "sha256" || name == "hash256" || name == "ripemd160" || name == "hash160" then
        let (num, rest) := takeIdent rest
        match natOfChars num, rest with
        | some n, ')' :: rest =>
          let m : Option Ms :=
            if name == "pk_k" then some (.pkK n) else if name == "pk_h" then some (.pkH n)
            else if name == "raw_pkh" then some (.rawPkH n)
            else if name == "after" then some (.after n) else if name == "older" then some (.older n)
            else if name == "sha256" then some (.hash .sha256 n)
            else if name == "hash256" then some (.hash .hash256 n)
            else if name == "ripemd160" then some (.hash .ripemd160 n)
            else some (.hash .hash160 n)
          m.map (·, rest)
        | _, _ => none
      else if name == "multi" || name == "sortedmulti" || name == "multi_a" || name == "sortedmulti_a" then
        match parseNats fuel rest with
        | some (k :: ks, rest) =>
          let m : Ms := if name == "multi" then .multi k ks else if name == "sortedmulti" then .sortedMulti k ks
            else if name == "multi_a" then .multiA k ks else .sortedMultiA k ks
          some (m, rest)
        | _ => none
      else if name == "thresh" then
        let (num, rest) := takeIdent rest
        match natOfChars num, rest with
        | some k, ',' :: rest =>
          match parseArgs fuel rest with
          | some (xs, rest) => some (.thresh k (MsList.ofList xs), rest)
          | none => none
        | _, _ => none
      else
        match parseArgs fuel rest with
        | some (args, rest) =>
          let m : Option Ms :=
            match name, args with
            | "a", [x] => some (.alt x) | "s", [x] => some (.swap x) | "c", [x] => some (.check x)
            | "d", [x] => some (.dupIf x) | "v", [x] => some (.verify x) | "j", [x] => some (.nonZero x)
            | "n", [x] => some (.zeroNotEqual x)
            | "and_v", [x, y] => some (.andV x y) | "and_b", [x, y] => some (.andB x y)
            | "or_b", [x, y] => some (.orB x y) | "or_d", [x, y] => some (.orD x y)
            | "or_c", [x, y] => some (.orC x y) | "or_i", [x, y] => some (.orI x y)
            | "andor", [x, y, z] => some (.andOr x y z)
            | _, _ => none
          m.map (·, rest)
        | none => none
    | _ =>
      if name == "1" then some (.tru, rest) else if name == "0" then some (.fls, rest) else none
/-- `X,Y,...)` -/
def parseArgs : Nat → List Char → Option (List Ms × List Char)
  | 0, _ => none
  | fuel + 1, cs =>
    match parseMs fuel cs with
    | some (x, ',' :: rest) =>
      match parseArgs fuel rest with
      | some (xs, rest) => some (x :: xs, rest)
      | none => none
    | some (x, ')' :: rest) => some ([x], rest)
    | _ => none
/-- `n,n,...)` -/
def parseNats : Nat → List Char → Option (List Nat × List Char)
  | 0, _ => none
  | fuel + 1, cs =>
    let (num, rest) := takeIdent cs
    match natOfChars num, rest with
    | some n, ',' :: rest =>
      match parseNats fuel rest with
      | some (ns, rest) => some (n :: ns, rest)
      | none => none
    | some n, ')' :: rest => some ([n], rest)
    | _, _ => none
end

def parseAst (s : String) : Option Ms :=
  let cs := s.toList
  match parseMs (cs.length + 2) cs with
  | some (m, []) => some m
  | _ => none

def parseCtx : String → Option Ctx
  | "bare" => some .bare | "legacy" => some .legacy | "segwitv0" => some .segwitv0
  | "tap" => some .tap | _ => none

end MsVerif.Driver

/-
C10 (AST-level round trips) ops.

  C mstree <ctx> <ast>        MODEL of `Display for Miniscript` (Model/Display.lean `display`), atoms printed as decimal ids
  C msparse <ctx> <hex s>     MODEL of `Tree::from_str` (Model/Expr.lean) followed by `FromTree for Miniscript`
                              (Model/Display.lean `fromTree`) over id atoms → wire AST | ERR
  J rt <kind> <hex s> <token>            ok iff token = pass   (round trip judged on the harness side by its own
                                         structural comparison; the failing detail is in the token)
  J rtgen <kind> <generator description> <token>   the same for objects too large to put on the line
  J alias <ctx> <hex a> <hex b> <token>  ok iff token = pass
-/
import MsVerif.Driver.OpsMs
import MsVerif.Driver.OpsText
import MsVerif.Model.Display

namespace MsVerif.Driver
open MsVerif MsVerif.Display

def keysWire (ks : List Nat) : String := ",".intercalate (ks.map toString)

mutual
/-- the neutral wire form (inverse of `parseAst`) -/
def msWire : Ms → String
  | .tru => "1" | .fls => "0"
  | .pkK k => s!"pk_k({k})" | .pkH k => s!"pk_h({k})" | .rawPkH h => s!"raw_pkh({h})"
  | .after n => s!"after({n})" | .older n => s!"older({n})"
  | .hash kind h => s!"{HashKind.name kind}({h})"
  | .alt x => s!"a({msWire x})" | .swap x => s!"s({msWire x})" | .check x => s!"c({msWire x})"
  | .dupIf x => s!"d({msWire x})" | .verify x => s!"v({msWire x})" | .nonZero x => s!"j({msWire x})"
  | .zeroNotEqual x => s!"n({msWire x})"
  | .andV l r => s!"and_v({msWire l},{msWire r})" | .andB l r => s!"and_b({msWire l},{msWire r})"
  | .andOr a b c => s!"andor({msWire a},{msWire b},{msWire c})"
  | .orB l r => s!"or_b({msWire l},{msWire r})" | .orD l r => s!"or_d({msWire l},{msWire r})"
  | .orC l r => s!"or_c({msWire l},{msWire r})" | .orI l r => s!"or_i({msWire l},{msWire r})"
  | .thresh k xs => s!"thresh({k}{msListWire xs})"
  | .multi k ks => s!"multi({k},{keysWire ks})" | .sortedMulti k ks => s!"sortedmulti({k},{keysWire ks})"
  | .multiA k ks => s!"multi_a({k},{keysWire ks})" | .sortedMultiA k ks => s!"sortedmulti_a({k},{keysWire ks})"
def msListWire : MsList → String
  | .nil => ""
  | .cons x xs => "," ++ msWire x ++ msListWire xs
end

/-- all id keys are compressed-size keys (the id strings carry no key kind) -/
def idEnv : KeyEnv where
  ser _ := List.replicate 33 0
  sortKey _ := List.replicate 33 0
  pkh _ := List.replicate 20 0
  rawPkh _ := List.replicate 20 0
  hashVal kind _ := match kind with
    | .sha256 | .hash256 => List.replicate 32 0
    | _ => List.replicate 20 0

/-- `Ctx::check_global_validity` of one node for keys that are neither uncompressed nor x-only
(`check_pk` never fails): fragment availability and the script-size limits -/
def gvCtx (ctx : Ctx) (m : Ms) : Bool :=
  let cost := (extOf idEnv ctx m).pkCost
  match ctx with
  | .legacy => (match m with | .multiA .. | .sortedMultiA .. => false | _ => true) && cost ≤ 520
  | .segwitv0 => (match m with | .multiA .. | .sortedMultiA .. => false | _ => true) && cost ≤ 3600
  | .bare => (match m with | .multiA .. | .sortedMultiA .. => false | _ => true) && cost ≤ 10000
  | .tap => (match m with | .multi .. | .sortedMulti .. => false | _ => true) && cost ≤ 4000000

def opsDisplay (_t : Tables) (kind op : String) (args : List String) : Option String :=
  match kind, op, args with
  | "C", "mstree", [ctx, ast] => do
    let ctx ← parseCtx ctx; let ms ← parseAst ast
    pure (String.ofList (display (decCodec (gvCtx ctx)) ms))
  | "C", "msparse", [ctx, h] => do
    let ctx ← parseCtx ctx; let s ← Text.unhex h
    match Expr.fromStrInner s.toList with
    | .error _ => pure "ERR"
    | .ok nodes =>
      match Expr.toTree nodes with
      | none => pure "ERR"
      | some t =>
        match fromTree (decCodec (gvCtx ctx)) t with
        | .ok m => pure (msWire m)
        | .error _ => pure "ERR"
  | "J", "rt", [_, _, tok] => pure (if tok == "pass" then "ok" else "bad:" ++ tok)
  | "J", "rtgen", [_, _, tok] => pure (if tok == "pass" then "ok" else "bad:" ++ tok)
  | "J", "alias", [_, _, _, tok] => pure (if tok == "pass" then "ok" else "bad:" ++ tok)
  | _, _, _ => none

end MsVerif.Driver

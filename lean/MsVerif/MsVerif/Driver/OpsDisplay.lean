/-
C10 (AST-level round trips) ops.

  C mstree <ctx> <ast>        MODEL of `Display for Miniscript` (Model/Display.lean `display`), atoms printed as decimal ids
  C msparse <ctx> <hex s>     MODEL of `Tree::from_str` (Model/Expr.lean) followed by `FromTree for Miniscript`
                              (Model/Display.lean `fromTree`) over id atoms → wire AST | ERR
  J rt <kind> <hex s> <token>            ok iff token = pass   (round trip judged on the harness side by its own
                                         structural comparison; the failing detail is in the token)
  J rtgen <kind> <generator description> <token>   the same for objects too large to put on the line
  J alias <ctx> <hex a> <hex b> <token>  ok iff token = pass
  C desctree <desc>           MODEL of `Display for Descriptor` without checksum (Model/DescDisplay.lean), id atoms;
                              <desc> ::= bare(A) | pkh(N) | wpkh(N) | sh(A) | shwpkh(N) | shwsh(A) | wsh(A) | tr(N) | tr(N,T)
                              T ::= leaf(A) | node(T,T)      (A = miniscript wire AST)
  C descparse <hex s>         MODEL of `Tree::from_str` + `FromTree for Descriptor` → <desc> | ERR
  J rtsane <entry> <ctx> <ast> <token>   round trip through the DEFAULT parser (`Miniscript::from_str`, `Descriptor::from_str`):
                                         expected token = pass if the entry-point model of Model/Validate.lean accepts the
                                         object, `reject` otherwise (a sane object must parse back, an insane one must not)
  J rtpol <kind> <wire policy> <hex s> <token>
                                         policies with real keys and both lock units: pass, or (concrete only)
                                         `reject:timelock-mix` iff the SPEC says the policy mixes units on a path
  J wpfromdesc <route> <hex descriptor> <hex template | ERR>   SPEC Spec/Bip388.lean `templateOf`
  J wptemplate <hex template> <hex printed | ERR>               SPEC `checkTemplate` (placeholder rules, short forms)
  J wpinto <hex template> <hex k0,k1,…> <hex descriptor | ERR>  SPEC `instantiate`
  J wpback <hex descriptor> <hex descriptor | ERR>              from_descriptor then into_descriptor is the identity
  J keyform <parser> <hex text> <accepted|rejected>             SPEC Spec/KeyGrammar.lean: a text in the BIP-380/389 key
                                         grammar (around a genuine key) must be accepted; other spellings are not judged
  J keymulti <parser> <hex text> <accepted|rejected>            SPEC Spec/KeyGrammar.lean: a multipath step that repeats an
                                         alternative must be REFUSED (BIP-389; regression for 3f2894f8), distinct ones accepted
  J textforms <ctx> <hex display> <hex Terminal display> <hex debug> <hex Terminal debug>
                                         the other text forms of the same miniscript (id atoms): `Display for Terminal` is the
                                         same text; `Debug` (types in `[…]`, atoms quoted, lock times in their Rust structs) with the
                                         annotations removed and lock arguments blanked is the Display text likewise blanked
  J alttext <kind> <hex {} text> <hex {:#} text>   the alternate form of a miniscript, Terminal, policy or key is the same text
                                         (hardened markers ' and h identified); a lock time used to print as `block-height N`
  J wrongarm <parser> <hex descriptor text> <accepted|rejected>
                                         the per-wrapper parsers: a text whose root name belongs to another wrapper must be refused
                                         (`Bare::from_str` excepted: every other text is a candidate bare miniscript)
  J numarg <position> <hex N> <accepted:v | rejected>           MODEL `Expr.parseNum` + the range of the position
                                         (after/older 1..2^31-1, thresh3/multi3 1..3, semthresh4 2..3, weight 1..2^32-1)
-/
import MsVerif.Driver.OpsMs
import MsVerif.Driver.OpsText
import MsVerif.Driver.OpsPolicy
import MsVerif.Driver.OpsValidate
import MsVerif.Model.Display
import MsVerif.Model.DescDisplay
import MsVerif.Spec.Bip388
import MsVerif.Spec.KeyGrammar

namespace MsVerif.Driver
open MsVerif MsVerif.Display

def keysWire (ks : List Nat) : String := ",".intercalate (ks.map toString)

mutual
/-- the neutral wire form (inverse of `parseAst`) -/
def msWire : Ms → String
  | .tru => "1" | .fls => "0"
  | .pkK k => s!"pk_k({k})" | .pkH k => s!"pk_h({k})" | .rawPkH h => s!"raw_pkh({h})"
  | .after n => s!"after({n})" | .older n => s!"older({n})"
  | .hash kind h => s!"{HashKind.name kind}({h})"
  | .alt x => s!"a({msWire x})" | .swap x => s!"s({msWire x})" | .check x => s!"c({msWire x})"
  | .dupIf x => s!"d({msWire x})" | .verify x => s!"v({msWire x})" | .nonZero x => s!"j({msWire x})"
  | .zeroNotEqual x => s!"n({msWire x})"
  | .andV l r => s!"and_v({msWire l},{msWire r})" | .andB l r => s!"and_b({msWire l},{msWire r})"
  | .andOr a b c => s!"andor({msWire a},{msWire b},{msWire c})"
  | .orB l r => s!"or_b({msWire l},{msWire r})" | .orD l r => s!"or_d({msWire l},{msWire r})"
  | .orC l r => s!"or_c({msWire l},{msWire r})" | .orI l r => s!"or_i({msWire l},{msWire r})"
  | .thresh k xs => s!"thresh({k}{msListWire xs})"
  | .multi k ks => s!"multi({k},{keysWire ks})" | .sortedMulti k ks => s!"sortedmulti({k},{keysWire ks})"
  | .multiA k ks => s!"multi_a({k},{keysWire ks})" | .sortedMultiA k ks => s!"sortedmulti_a({k},{keysWire ks})"
def msListWire : MsList → String
  | .nil => ""
  | .cons x xs => "," ++ msWire x ++ msListWire xs
end

/-- all id keys are compressed-size keys (the id strings carry no key kind) -/
def idEnv : KeyEnv where
  ser _ := List.replicate 33 0
  sortKey _ := List.replicate 33 0
  pkh _ := List.replicate 20 0
  rawPkh _ := List.replicate 20 0
  hashVal kind _ := match kind with
    | .sha256 | .hash256 => List.replicate 32 0
    | _ => List.replicate 20 0

/-- `Ctx::check_global_validity` of one node for keys that are neither uncompressed nor x-only
(`check_pk` never fails): fragment availability and the script-size limits -/
def gvCtx (ctx : Ctx) (m : Ms) : Bool :=
  let cost := (extOf idEnv ctx m).pkCost
  match ctx with
  | .legacy => (match m with | .multiA .. | .sortedMultiA .. => false | _ => true) && cost ≤ 520
  | .segwitv0 => (match m with | .multiA .. | .sortedMultiA .. => false | _ => true) && cost ≤ 3600
  | .bare => (match m with | .multiA .. | .sortedMultiA .. => false | _ => true) && cost ≤ 10000
  | .tap => (match m with | .multi .. | .sortedMulti .. => false | _ => true) && cost ≤ 4000000

/-! ### descriptor wrappers -/

open DescDisplay in
/-- string keys are neither uncompressed nor x-only -/
def strK : KeyInfo := ⟨fun _ => .compressed, fun _ => 1⟩

open DescDisplay in
/-- wrapper constructors for id (string) keys: `top_level_checks` + the wrapper's `validate`
(C12 model, Model/Validate.lean); `Pkh::new`/`Wpkh::new`/`Tr::new` key checks never fail for them -/
def drvDCodec : DescDisplay.DCodec where
  ms ctx := decCodec (gvCtx ctx)
  showKey := showNat
  readKey := readDec
  wrapOk d := match d with
    | .wsh m => topLevelChecks strK .segwitv0 m && wrapperValidate idEnv strK .segwitv0 m
    | .sh m => topLevelChecks strK .legacy m && wrapperValidate idEnv strK .legacy m
    | .bare m => topLevelChecks strK .bare m
    | _ => true
  leafOk m := isOk (validate idEnv strK .tap (Ctx.CONSENSUS .tap) m)

open DescDisplay in
def tapWire : DescDisplay.TapT → String
  | .leaf m => s!"leaf({msWire m})"
  | .node l r => s!"node({tapWire l},{tapWire r})"

open DescDisplay in
def descWire : DescDisplay.Desc → String
  | .bare m => s!"bare({msWire m})" | .pkh k => s!"pkh({k})" | .wpkh k => s!"wpkh({k})"
  | .sh m => s!"sh({msWire m})" | .shWpkh k => s!"shwpkh({k})" | .shWsh m => s!"shwsh({msWire m})"
  | .wsh m => s!"wsh({msWire m})" | .tr ik none => s!"tr({ik})"
  | .tr ik (some t) => s!"tr({ik},{tapWire t})"

open DescDisplay in
/-- `leaf(A)` | `node(T,T)`; returns the rest -/
def parseTapW : Nat → List Char → Option (DescDisplay.TapT × List Char)
  | 0, _ => none
  | fuel + 1, cs =>
    let (id, rest) := takeIdent cs
    match String.ofList id, rest with
    | "leaf", '(' :: rest =>
      match parseMs (rest.length + 2) rest with
      | some (m, ')' :: rest') => some (.leaf m, rest')
      | _ => none
    | "node", '(' :: rest =>
      match parseTapW fuel rest with
      | some (l, ',' :: rest') =>
        match parseTapW fuel rest' with
        | some (r, ')' :: rest'') => some (.node l r, rest'')
        | _ => none
      | _ => none
    | _, _ => none

open DescDisplay in
def parseDescW (s : String) : Option DescDisplay.Desc :=
  let cs := s.toList
  let (id, rest) := takeIdent cs
  let name := String.ofList id
  match rest with
  | '(' :: body =>
    if name == "pkh" || name == "wpkh" || name == "shwpkh" then
      let (num, r) := takeIdent body
      match natOfChars num, r with
      | some k, [')'] => if name == "pkh" then some (.pkh k) else if name == "wpkh" then some (.wpkh k) else some (.shWpkh k)
      | _, _ => none
    else if name == "tr" then
      let (num, r) := takeIdent body
      match natOfChars num, r with
      | some k, [')'] => some (.tr k none)
      | some k, ',' :: r' =>
        match parseTapW (r'.length + 2) r' with
        | some (t, [')']) => some (.tr k (some t))
        | _ => none
      | _, _ => none
    else
      match parseMs (body.length + 2) body with
      | some (m, [')']) =>
        if name == "bare" then some (.bare m) else if name == "sh" then some (.sh m)
        else if name == "shwsh" then some (.shWsh m) else if name == "wsh" then some (.wsh m) else none
      | _ => none
  | _ => none

/-! ### text forms -/

/-- drop every `[…]` block and every `"` -/
def stripAnn : List Char → Bool → List Char
  | [], _ => []
  | c :: cs, inB =>
    if inB then (if c == ']' then stripAnn cs false else stripAnn cs true)
    else if c == '[' then stripAnn cs true
    else if c == '"' then stripAnn cs false
    else c :: stripAnn cs false

def startsWithL (p s : List Char) : Bool := s.take p.length == p

/-- skip to the parenthesis that closes the one already open (`depth` = open count) -/
def skipClose : List Char → Nat → List Char
  | [], _ => []
  | c :: cs, d =>
    if c == '(' then skipClose cs (d + 1)
    else if c == ')' then (if d ≤ 1 then cs else skipClose cs (d - 1))
    else skipClose cs d

/-- `after(…)` / `older(…)` → `after()` / `older()` (fuel = length) -/
def blankLocks : Nat → List Char → List Char
  | 0, s => s
  | _, [] => []
  | fuel + 1, c :: cs =>
    let s := c :: cs
    if startsWithL "after(".toList s then "after()".toList ++ blankLocks fuel (skipClose (s.drop 6) 1)
    else if startsWithL "older(".toList s then "older()".toList ++ blankLocks fuel (skipClose (s.drop 6) 1)
    else c :: blankLocks fuel cs

def debugMatches (display debug : String) : Bool :=
  let d := blankLocks display.length display.toList
  let g := stripAnn debug.toList false
  blankLocks g.length g == d

/-- the wrapper a descriptor text belongs to, by its root name -/
def armOf (s : String) : String :=
  let name := String.ofList (s.toList.takeWhile (· != '('))
  if name == "pkh" || name == "wpkh" || name == "sh" || name == "wsh" || name == "tr" then name else "bare"

/-- the positions the harness probes: `thresh3`/`multi3`/`cthresh3` have 3 children, `semthresh4` is a
semantic threshold with 4 children (1-of-n and n-of-n are refused there) -/
def parseNumPos : String → Option NumPos
  | "after" | "older" => some .lock
  | "thresh3" | "multi3" | "cthresh3" => some (.threshK 3 1 3)
  | "semthresh4" => some (.threshK 4 2 3)
  | "weight" => some .weight
  | _ => none

def numargSpec (pos : String) (n : List Char) : Option Nat :=
  (parseNumPos pos).bind fun p => numArg p n

def hexOrErr (tok : String) : Option (Option String) :=
  if tok == "ERR" then some none else (Text.unhex tok).map some

def opsDisplay (t : Tables) (kind op : String) (args : List String) : Option String :=
  match kind, op, args with
  | "C", "desctree", [d] => do
    let d ← parseDescW d
    pure (String.ofList (DescDisplay.display drvDCodec d))
  | "C", "descparse", [h] => do
    let s ← Text.unhex h
    match DescDisplay.fromStr drvDCodec s.toList with
    | .ok d => pure (descWire d)
    | .error _ => pure "ERR"
  | "J", "rtsane", [entry, ctx, ast, tok] => do
    let e ← Val.parseEntry entry; let ctx ← parseCtx ctx; let ms ← parseAst ast
    let expected := if accepts t.keyEnv (Val.keyInfoOf t) ctx e ms then "pass" else "reject"
    pure (if tok == expected then "ok" else s!"bad:expected-{expected}-got-{tok}")
  | "J", "rtpol", [kind, wire, _, tok] => do
    if tok == "pass" then pure "ok" else
    if tok == "reject:timelock-mix" && kind.startsWith "concrete" then do
      let c ← PolicyOps.parseCPolicy wire
      pure (if MsVerif.Pol.hasMixedPath c then "ok" else "bad:rejected-without-a-mixed-path")
    else pure ("bad:" ++ tok)
  | "J", "wpfromdesc", [_, d, tmpl] => do
    let d ← Text.unhex d; let lib ← hexOrErr tmpl
    let spec := (Spec.Bip388.templateOf d.toList).map (fun r => String.ofList r.1)
    pure (if lib == spec then "ok" else s!"bad:spec={spec.getD "ERR"}")
  | "J", "wptemplate", [tm, printed] => do
    let tm ← Text.unhex tm; let lib ← hexOrErr printed
    let spec := (Spec.Bip388.checkTemplate tm.toList).map (fun r => String.ofList r.1)
    pure (if lib == spec then "ok" else s!"bad:spec={spec.getD "ERR"}")
  | "J", "wpinto", [tm, keys, d] => do
    let tm ← Text.unhex tm; let keys ← Text.unhex keys; let lib ← hexOrErr d
    let ks := (keys.splitOn ",").map String.toList
    let spec := ((Spec.Bip388.checkTemplate tm.toList).bind fun (_, n) =>
      if n == ks.length then Spec.Bip388.instantiate tm.toList ks else none).map String.ofList
    pure (if lib == spec then "ok" else s!"bad:spec={spec.getD "ERR"}")
  | "J", "wpback", [d, back] => do
    let d ← Text.unhex d; let lib ← hexOrErr back
    pure (if lib == some d then "ok" else "bad:not-the-identity")
  | "J", "keyform", [parser, h, verdict] => do
    let s ← Text.unhex h
    let secret := parser.startsWith "sec"
    let excluded := parser == "sec-in-parse_descriptor" && Spec.KeyGrammar.hardenedMulti s.toList
    if Spec.KeyGrammar.valid secret s.toList && !excluded then
      pure (if verdict == "accepted" then "ok" else "bad:valid-key-expression-" ++ verdict)
    else pure "ok"
  | "J", "keymulti", [parser, h, verdict] => do
    -- regression judge for repo fix 3f2894f8: a repeated multipath alternative must be refused, pairwise
    -- distinct alternatives (hardened vs unhardened counts as distinct) must be accepted
    let s ← Text.unhex h
    let secret := parser.startsWith "sec"
    if Spec.KeyGrammar.repeatedMulti secret s.toList then
      pure (if verdict == "rejected" then "ok" else "bad:repeated-multipath-alternative-" ++ verdict)
    else if Spec.KeyGrammar.valid secret s.toList then
      pure (if verdict == "accepted" then "ok" else "bad:valid-key-expression-" ++ verdict)
    else pure "bad-case:neither-valid-nor-a-repeated-alternative"
  | "J", "textforms", [_, d, t, g, tg] => do
    let d ← Text.unhex d; let t ← Text.unhex t; let g ← Text.unhex g; let tg ← Text.unhex tg
    if t != d then pure "bad:Terminal-display-differs" else
    if tg != g then pure "bad:Terminal-debug-differs" else
    pure (if debugMatches d g then "ok" else "bad:debug-skeleton-differs")
  | "J", "alttext", [_, d, a] => do
    -- `{:#}` (alternate flag) of a miniscript / policy / key is the same text as `{}`, up to the spelling of the
    -- hardened marker in key paths (`'` in `{}`, `h` in `{:#}`: the same step); regression for c7695b28
    let d ← Text.unhex d; let a ← Text.unhex a
    let norm := fun (s : String) => String.ofList (s.toList.map fun c => if c == '\'' then 'h' else c)
    pure (if norm a == norm d then "ok" else "bad:alternate-form-differs")
  | "J", "wrongarm", [parser, h, verdict] => do
    let s ← Text.unhex h
    let arm := armOf s
    if parser == arm then pure (if verdict == "accepted" then "ok" else "bad:own-arm-" ++ verdict)
    else if parser == "bare" then pure "ok"
    else pure (if verdict == "rejected" then "ok" else "bad:text-of-" ++ arm ++ "-accepted-by-" ++ parser)
  | "J", "numarg", [pos, h, verdict] => do
    let n ← Text.unhex h
    let expected := match numargSpec pos n.toList with
      | some v => s!"accepted:{v}" | none => "rejected"
    pure (if verdict == expected then "ok" else s!"bad:expected-{expected}")
  | "C", "mstree", [ctx, ast] => do
    let ctx ← parseCtx ctx; let ms ← parseAst ast
    pure (String.ofList (display (decCodec (gvCtx ctx)) ms))
  | "C", "msparse", [ctx, h] => do
    let ctx ← parseCtx ctx; let s ← Text.unhex h
    match fromStr (decCodec (gvCtx ctx)) s.toList with
    | .ok m => pure (msWire m)
    | .error _ => pure "ERR"
  | "J", "rt", [_, _, tok] => pure (if tok == "pass" then "ok" else "bad:" ++ tok)
  | "J", "rtgen", [_, _, tok] => pure (if tok == "pass" then "ok" else "bad:" ++ tok)
  | "J", "alias", [_, _, _, tok] => pure (if tok == "pass" then "ok" else "bad:" ++ tok)
  | _, _, _ => none

end MsVerif.Driver

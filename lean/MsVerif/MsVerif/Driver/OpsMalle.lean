/-
C03 judge: third-party malleability decided by an ADVERSARY SEARCH with the Lean Script
semantics (`Spec/Script.lean`, trusted), on the library's own script bytes and witness.

The adversary's alphabet `Adv(w)` for a witness `w` produced by the non-malleable satisfier:
  every element of `w`  ∪  `[]`, `[1]`, `[2]`, 32 zero bytes, a 33-byte and a 32-byte junk string
  ∪  the extra items on the line (the harness passes every hash preimage and every public key
     serialisation occurring in the script: the adversary knows ALL preimages).
Signatures: `Env.sigOk` is the table of `D sig` pairs, but the only signatures that can ever be
placed on a candidate stack are the ones occurring in `w` — the adversary cannot forge.

Search = depth-first construction of the candidate stack FROM THE TOP: the script is run on the
known top part; if it fails by running out of stack the next-deeper element is chosen from the
alphabet, if it fails otherwise the whole subtree is pruned, if it ends the stack is judged by
the CLEANSTACK rule.  This is complete for all stacks up to the length bound because no opcode
of the subset looks at the stack depth (no OP_DEPTH/PICK/ROLL): elements below the ones an
execution touches never influence it.  That argument is not a Lean theorem; it is cross-checked
on every run by `C advbrute` lines (brute-force enumeration of ALL stacks over the alphabet up
to the bound, compared with the pruned search, on the small cases).
-/
import MsVerif.Driver.OpsMs

namespace MsVerif.Driver.Malle
open MsVerif Script MsVerif.Driver

inductive Probe | accept | reject | needMore
  deriving DecidableEq, Repr

/-- run the script on a (possibly partial) stack given TOP FIRST -/
def probe (env : Env) (ops : List Op) (topFirst : List Bytes) : Probe :=
  match run env ops (State.init topFirst) with
  | .error .stackUnderflow => .needMore
  | .error .unbalancedConditional => .needMore   -- IF/NOTIF on an empty stack
  | .error _ => .reject
  | .ok s =>
    if !s.conds.isEmpty then .reject
    else match s.core.stack with
      | [] => .needMore                            -- one more element could become the result
      | [a] => if castToBool a then .accept else .reject
      | _ => .reject                               -- deeper elements only make it less clean

/-- the standardness acceptance test itself (complete stack, top first) -/
def acceptsStd (env : Env) (ops : List Op) (topFirst : List Bytes) : Bool :=
  accepts env ops topFirst

structure SRes where
  runs : Nat := 0
  accepted : List (List Bytes) := []    -- top-first stacks
  exhausted : Bool := false

def SEARCH_BUDGET : Nat := 3000000

/-- pruned depth-first search; `fuel` = how many more elements may be added below `known` -/
def dfs (env : Env) (ops : List Op) (alpha : List Bytes) : Nat → List Bytes → SRes → SRes
  | 0, _, r => r
  | fuel + 1, known, r =>
    alpha.foldl (fun r a =>
      if r.exhausted then r
      else if r.runs ≥ SEARCH_BUDGET then { r with exhausted := true }
      else
        let st := known ++ [a]
        let r := { r with runs := r.runs + 1 }
        match probe env ops st with
        | .accept => { r with accepted := st :: r.accepted }
        | .reject => r
        | .needMore => dfs env ops alpha fuel st r) r

/-- all accepted stacks of length ≤ maxLen over the alphabet (top first) -/
def advSearch (env : Env) (ops : List Op) (alpha : List Bytes) (maxLen : Nat) : SRes :=
  match probe env ops [] with
  | .accept => dfs env ops alpha 0 [] { runs := 1, accepted := [[]] }
  | .reject => { runs := 1 }
  | .needMore => dfs env ops alpha maxLen [] { runs := 1 }

/-- every stack of length exactly `n` over the alphabet -/
def allStacks (alpha : List Bytes) : Nat → List (List Bytes)
  | 0 => [[]]
  | n + 1 => (allStacks alpha n).flatMap fun s => alpha.map fun a => a :: s

/-- brute force: accepted stacks of length ≤ maxLen, no pruning -/
def bruteSearch (env : Env) (ops : List Op) (alpha : List Bytes) (maxLen : Nat) : List (List Bytes) :=
  (List.range (maxLen + 1)).flatMap fun n =>
    (allStacks alpha n).filter fun s => acceptsStd env ops s

def dedup (l : List Bytes) : List Bytes :=
  l.foldl (fun acc x => if acc.contains x then acc else acc ++ [x]) []

def JUNK33 : Bytes := 0x02 :: List.replicate 32 0x5a
def JUNK32 : Bytes := List.replicate 32 0x5a

/-- `Adv(w)`: elements of `w`, the fixed items, the extras from the line -/
def advAlphabet (w extras : List Bytes) : List Bytes :=
  dedup (w ++ [[], [1], List.replicate 32 0, [2], JUNK33, JUNK32] ++ extras)

def showStackBottomFirst (topFirst : List Bytes) : String :=
  if topFirst.isEmpty then "." else ",".intercalate (topFirst.reverse.map Hash.toHexW)

def subsetOf (a b : List (List Bytes)) : Bool := a.all fun x => b.contains x

structure MalleArgs where
  env : Env
  ops : List Op
  w : List Bytes          -- bottom first, as in the witness
  alpha : List Bytes
  maxLen : Nat

def parseMalle (t : Tables) (ctx lt sq maxLen script wit extras : String) : Option MalleArgs := do
  let ctx ← parseCtx ctx; let lt ← lt.toNat?; let sq ← sq.toNat?; let maxLen ← maxLen.toNat?
  let script ← Hash.ofHex script; let w ← parseHexList wit; let ex ← parseHexList extras
  let ops ← parse script
  pure ⟨mkEnv t ctx true lt sq, ops, w, advAlphabet w ex, maxLen⟩

def ops (t : Tables) (kind op : String) (args : List String) : Option String :=
  match kind, op, args with
  -- J nonmall <ctx> <nLockTime> <nSequence> <maxLen> <script hex> <witness, bottom first> <extras> | info…
  -- `ok` iff the library's witness is accepted and NO other stack of length ≤ maxLen over Adv(w) is
  | "J", "nonmall", ctx :: lt :: sq :: maxLen :: script :: wit :: extras :: _ =>
    match parseMalle t ctx lt sq maxLen script wit extras with
    | none => some "bad:unparseable"
    | some a =>
      let r := advSearch a.env a.ops a.alpha a.maxLen
      let orig := a.w.reverse
      match r.accepted.filter (· != orig) with
      | alt :: _ => some ("bad:" ++ showStackBottomFirst alt)
      | [] =>
        if r.exhausted then some "bad:search-budget-exhausted"
        else if !r.accepted.contains orig then some "bad:original-witness-rejected"
        else some "ok"
  -- C advfinds …same arguments…: positive control on KNOWN-malleable inputs; the search must find
  -- an accepted stack different from `w`
  | "C", "advfinds", ctx :: lt :: sq :: maxLen :: script :: wit :: extras :: _ =>
    match parseMalle t ctx lt sq maxLen script wit extras with
    | none => some "unparseable"
    | some a =>
      let r := advSearch a.env a.ops a.alpha a.maxLen
      let orig := a.w.reverse
      some (if (r.accepted.filter (· != orig)).isEmpty then "none" else "found")
  -- C advbrute …same arguments…: self-check of the pruned search against brute force
  | "C", "advbrute", ctx :: lt :: sq :: maxLen :: script :: wit :: extras :: _ =>
    match parseMalle t ctx lt sq maxLen script wit extras with
    | none => some "unparseable"
    | some a =>
      let r := advSearch a.env a.ops a.alpha a.maxLen
      let b := bruteSearch a.env a.ops a.alpha a.maxLen
      some (if !r.exhausted && subsetOf r.accepted b && subsetOf b r.accepted then "same" else "diff")
  | _, _, _ => none

end MsVerif.Driver.Malle

namespace MsVerif.Driver
/-- C03 ops (`J nonmall`, `C advfinds`, `C advbrute`) -/
def opsMalle (t : Tables) (kind op : String) (args : List String) : Option String :=
  Malle.ops t kind op args
end MsVerif.Driver

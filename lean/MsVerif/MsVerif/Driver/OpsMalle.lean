/-
C03 judge: third-party malleability decided by an ADVERSARY SEARCH with the Lean Script
semantics (`Spec/Script.lean`, trusted), on the library's own script bytes and witness.

The adversary's alphabet `Adv(w)` for a witness `w` produced by the non-malleable satisfier:
  every element of `w`  ∪  `[]`, `[1]`, `[2]`, 32 zero bytes, a 33-byte and a 32-byte junk string
  ∪  the extra items on the line (the harness passes every hash preimage and every public key
     serialisation occurring in the script: the adversary knows ALL preimages).
Signatures: `Env.sigOk` is the table of `D sig` pairs, but the only signatures that can ever be
placed on a candidate stack are the ones occurring in `w` — the adversary cannot forge.

Search = depth-first construction of the candidate stack FROM THE TOP: the script is run on the
known top part; if it fails by running out of stack the next-deeper element is chosen from the
alphabet, if it fails otherwise the whole subtree is pruned, if it ends the stack is judged by
the CLEANSTACK rule.  This is complete for all stacks up to the length bound because no opcode
of the subset looks at the stack depth (no OP_DEPTH/PICK/ROLL): elements below the ones an
execution touches never influence it.  One script-specific rule: when the run stops inside
CHECKMULTISIG for lack of signature/dummy elements, only the empty string and signatures valid for
one of that opcode's keys are tried for them (sound under NULLFAIL+NULLDUMMY:
`C03.search_sigblock_pruning_sound`).  The depth argument is not a Lean theorem; it is cross-checked
on every run by `C advbrute` lines (brute-force enumeration of ALL stacks over the alphabet up
to the bound, compared with the pruned search, on the small cases) and by `J advcovers`
(the specification table as an independent generator of accepted stacks).
-/
import MsVerif.Driver.OpsMs
import MsVerif.Driver.OpsSat
import MsVerif.Driver.OpsSpend

namespace MsVerif.Driver.Malle
open MsVerif Script MsVerif.Driver

/-- `needSig keys`: the run stopped inside CHECKMULTISIG(VERIFY) for lack of signature / dummy
elements; `keys` are the public keys of that opcode -/
inductive Probe
  | accept | reject | needMore
  | needSig (keys : List Bytes)
  deriving DecidableEq, Repr

/-- `run`, but an error also reports the element it happened at and the state in front of it -/
def runFind (env : Env) : List Op → State → Except (Err × Op × State) State
  | [], s => .ok s
  | op :: rest, s =>
    match step env s op with
    | .ok s' => runFind env rest s'
    | .error e => .error (e, op, s)

/-- In front of a CHECKMULTISIG whose key count, keys and signature count are already on the
stack (pushed by the script) and which underflows only in its signature/dummy block: the keys.
Under NULLFAIL + NULLDUMMY every element of that block must be empty or a signature valid for
one of these keys (all signatures match in order, or the result is false and all are empty;
the dummy is empty) — any other choice makes the opcode fail whatever lies below. -/
def sigBlockKeys (env : Env) (stack : List Bytes) : Option (List Bytes) :=
  if !(env.flags.nullFail && env.flags.nullDummy) || env.flags.tapscript then none else
  match stack with
  | nB :: r =>
    match numDecode env.flags.minimalNum 4 nB with
    | some nI =>
      if nI < 0 ∨ nI > 20 then none else
      let n := nI.toNat
      if r.length < n + 1 then none else
      match r.drop n with
      | mB :: r' =>
        match numDecode env.flags.minimalNum 4 mB with
        | some mI =>
          if mI < 0 ∨ mI > nI then none
          else if r'.length < mI.toNat + 1 then some (r.take n) else none
        | none => none
      | [] => none
    | none => none
  | [] => none

/-- run the script on a (possibly partial) stack given TOP FIRST -/
def probe (env : Env) (ops : List Op) (topFirst : List Bytes) : Probe :=
  match runFind env ops (State.init topFirst) with
  | .error (.stackUnderflow, op, s) =>
    if s.executing && (op == .code .checkmultisig || op == .code .checkmultisigverify) then
      match sigBlockKeys env s.core.stack with
      | some keys => .needSig keys
      | none => .needMore
    else .needMore
  | .error (.unbalancedConditional, _, _) => .needMore   -- IF/NOTIF on an empty stack
  | .error _ => .reject
  | .ok s =>
    if !s.conds.isEmpty then .reject
    else match s.core.stack with
      | [] => .needMore                            -- one more element could become the result
      | [a] => if castToBool a then .accept else .reject
      | _ => .reject                               -- deeper elements only make it less clean

/-- the standardness acceptance test itself (complete stack, top first) -/
def acceptsStd (env : Env) (ops : List Op) (topFirst : List Bytes) : Bool :=
  accepts env ops topFirst

structure SRes where
  runs : Nat := 0
  accepted : List (List Bytes) := []    -- top-first stacks
  exhausted : Bool := false
  /-- stop once this many accepted stacks are known (positive controls only need two) -/
  enough : Nat := 1000000

def SEARCH_BUDGET : Nat := 3000000

/-- the choices for the next-deeper element after a probe -/
def nextChoices (env : Env) (alpha : List Bytes) : Probe → List Bytes
  | .needSig keys => alpha.filter fun x => x.isEmpty || keys.any fun k => env.sigOk k x
  | _ => alpha

/-- pruned depth-first search; `fuel` = how many more elements may be added below `known`;
`choices` = candidates for the next element (the alphabet, or its signature-block subset) -/
def dfs (env : Env) (ops : List Op) (alpha : List Bytes) : Nat → List Bytes → List Bytes → SRes → SRes
  | 0, _, _, r => r
  | fuel + 1, choices, known, r =>
    choices.foldl (fun r a =>
      if r.exhausted || r.accepted.length ≥ r.enough then r
      else if r.runs ≥ SEARCH_BUDGET then { r with exhausted := true }
      else
        let st := known ++ [a]
        let r := { r with runs := r.runs + 1 }
        match probe env ops st with
        | .accept => { r with accepted := st :: r.accepted }
        | .reject => r
        | p => dfs env ops alpha fuel (nextChoices env alpha p) st r) r

/-- all accepted stacks of length ≤ maxLen over the alphabet (top first) -/
def advSearch (env : Env) (ops : List Op) (alpha : List Bytes) (maxLen : Nat) (enough : Nat := 1000000) : SRes :=
  match probe env ops [] with
  | .accept => { runs := 1, accepted := [[]] }
  | .reject => { runs := 1 }
  | p => dfs env ops alpha maxLen (nextChoices env alpha p) [] { runs := 1, enough := enough }

/-- every stack of length exactly `n` over the alphabet -/
def allStacks (alpha : List Bytes) : Nat → List (List Bytes)
  | 0 => [[]]
  | n + 1 => (allStacks alpha n).flatMap fun s => alpha.map fun a => a :: s

/-- brute force: accepted stacks of length ≤ maxLen, no pruning -/
def bruteSearch (env : Env) (ops : List Op) (alpha : List Bytes) (maxLen : Nat) : List (List Bytes) :=
  (List.range (maxLen + 1)).flatMap fun n =>
    (allStacks alpha n).filter fun s => acceptsStd env ops s

def dedup (l : List Bytes) : List Bytes :=
  l.foldl (fun acc x => if acc.contains x then acc else acc ++ [x]) []

def JUNK33 : Bytes := 0x02 :: List.replicate 32 0x5a
def JUNK32 : Bytes := List.replicate 32 0x5a

/-- `Adv(w)`: elements of `w`, the fixed items, the extras from the line.  `[0x80]` (negative zero)
    is the byte string no encoder of the library produces: non-empty, of size 1, yet FALSE for
    `IF` / `VERIFY` / the final stack test - it separates "empty" from "false" in every rule that
    relies on MINIMALIF / NULLFAIL / minimal numbers -/
def advAlphabet (w extras : List Bytes) : List Bytes :=
  dedup (w ++ [[], [1], List.replicate 32 0, [2], [0x80], JUNK33, JUNK32] ++ extras)

def showStackBottomFirst (topFirst : List Bytes) : String :=
  if topFirst.isEmpty then "." else ",".intercalate (topFirst.reverse.map Hash.toHexW)

def subsetOf (a b : List (List Bytes)) : Bool := a.all fun x => b.contains x

structure MalleArgs where
  env : Env
  ops : List Op
  w : List Bytes          -- bottom first, as in the witness
  alpha : List Bytes
  maxLen : Nat

def parseMalle (t : Tables) (ctx lt sq maxLen script wit extras : String) : Option MalleArgs := do
  let ctx ← parseCtx ctx; let lt ← lt.toNat?; let sq ← sq.toNat?; let maxLen ← maxLen.toNat?
  let script ← Hash.ofHex script; let w ← parseHexList wit; let ex ← parseHexList extras
  let ops ← parse script
  pure ⟨mkEnv t ctx true lt sq, ops, w, advAlphabet w ex, maxLen⟩

/-! ### descriptor level: the whole (scriptPubKey, scriptSig, witness) triple

The library's spend is located inside its envelope (P2WSH / P2SH-P2WSH: witness script last;
P2SH / bare: scriptSig pushes; P2TR script path: script and control block last; P2WPKH and the
taproot key path: fixed shapes).  The pruned search runs on the inner script with the flags and
the signature domain `Spend.verifySpend` uses for that output type; EVERY candidate it proposes,
and a fixed set of envelope manipulations, is then judged by `Spend.verifySpend` (trusted spec)
on the re-assembled triple.  Only a triple that `verifySpend` accepts and that differs from the
library's counts as an alternative. -/

open Spend in
structure Envelope where
  env : Env
  script : List Op
  items : List Bytes                                  -- bottom first
  rebuild : List Bytes → Bytes × List Bytes           -- items (bottom first) ↦ (scriptSig, witness)

/-- minimal push of one stack element -/
def pushOp (b : Bytes) : Op :=
  match b with
  | [] => .small 0
  | [x] => if 1 ≤ x.toNat && x.toNat ≤ 16 then .small x.toNat else .push b
  | _ => .push b

def serializePushes (items : List Bytes) : Bytes := serialize (items.map pushOp)

open Spend in
def witnessEnvelope (e : SpendEnv) (ssBytes : Bytes) (prog : SpkKind) (wit : List Bytes) : Option Envelope :=
  match prog with
  | .p2wpkh h =>
    some ⟨Spend.mkEnv e segwitFlags DOM_SEGWITV0, p2pkhScript h, wit, fun it => (ssBytes, it)⟩
  | .p2wsh _ =>
    match wit.getLast? with
    | some sb => (parse sb).map fun sc =>
        ⟨Spend.mkEnv e segwitFlags DOM_SEGWITV0, sc, wit.dropLast, fun it => (ssBytes, it ++ [sb])⟩
    | none => none
  | .p2tr _ =>
    match wit.reverse with
    | cb :: sb :: rest => (parse sb).map fun sc =>
        ⟨Spend.mkEnv e tapFlags DOM_TAPSCRIPT, sc, rest.reverse, fun it => (ssBytes, it ++ [sb, cb])⟩
    -- key path (or an empty tail): no script; every one-element witness is a candidate and
    -- `verifySpend` decides
    | _ => some ⟨Spend.mkEnv e tapFlags DOM_TAPKEY, [], wit, fun it => (ssBytes, it)⟩
  | _ => none

open Spend in
def envelopeOf (e : SpendEnv) (spkBytes ssBytes : Bytes) (wit : List Bytes) : Option Envelope := do
  let spk ← parse spkBytes
  let ss ← parse ssBytes
  match classify spk with
  | .p2sh _ =>
    match pushedStack ss with
    | redeemBytes :: rest =>
      let redeem ← parse redeemBytes
      match classify redeem with
      | .p2wpkh h => witnessEnvelope e ssBytes (.p2wpkh h) wit
      | .p2wsh h => witnessEnvelope e ssBytes (.p2wsh h) wit
      | _ => some ⟨Spend.mkEnv e legacyFlags DOM_LEGACY, redeem, rest.reverse,
                   fun it => (serializePushes (it ++ [redeemBytes]), wit)⟩
    | [] => none
  | .other =>
    some ⟨Spend.mkEnv e legacyFlags DOM_LEGACY, spk, (pushedStack ss).reverse,
          fun it => (serializePushes it, wit)⟩
  | k => witnessEnvelope e ssBytes k wit

def isOk : Spend.Verdict → Bool | .ok => true | _ => false

/-- envelope manipulations tried besides the search: extra scriptSig pushes, extra bottom
witness elements, a one-element witness (taproot key path) for every alphabet item -/
def envelopeVariants (ssBytes : Bytes) (wit : List Bytes) (alpha : List Bytes) : List (Bytes × List Bytes) :=
  [(serialize [Op.small 0] ++ ssBytes, wit), (serialize [Op.small 1] ++ ssBytes, wit),
   (ssBytes ++ serialize [Op.small 1], wit),
   (ssBytes, [] :: wit), (ssBytes, [1] :: wit), (ssBytes, wit ++ [[]]), (ssBytes, wit ++ [[0x50]])]
  ++ alpha.map (fun x => (ssBytes, [x]))
  ++ alpha.map (fun x => (serializePushes [x], wit))

def showTriple (p : Bytes × List Bytes) : String :=
  Hash.toHexW p.1 ++ "/" ++ (if p.2.isEmpty then "." else ",".intercalate (p.2.map Hash.toHexW))

/-- every triple over the alphabet that `verifySpend` accepts through this envelope
(second component: search budget exhausted) -/
def spendSearch (e : Spend.SpendEnv) (spk ss : Bytes) (wit : List Bytes) (alpha : List Bytes) :
    Option (List (Bytes × List Bytes) × Bool) :=
  match envelopeOf e spk ss wit with
  | none => none
  | some ev =>
    let r := advSearch ev.env ev.script alpha 100
    let cands := r.accepted.map (fun st => ev.rebuild st.reverse) ++ envelopeVariants ss wit alpha
    some (cands.filter (fun c => isOk (Spend.verifySpend e spk c.1 c.2)), r.exhausted)

/-! ### the specification table as a GENERATOR of satisfactions (control of the search) -/

open SatTable in
def catAll (ys xs : List (List Item)) : List (List Item) :=
  (ys.flatMap fun y => xs.map fun x => y ++ x).take 400

/-- all `k`-element choices, as flags, of the positions whose flag is set -/
def chooseK : Nat → List Bool → List (List Bool)
  | 0, l => [l.map fun _ => false]
  | _ + 1, [] => []
  | k + 1, true :: r => (chooseK k r).map (true :: ·) ++ (chooseK (k + 1) r).map (false :: ·)
  | k + 1, false :: r => (chooseK (k + 1) r).map (false :: ·)

open SatTable in
mutual
/-- every satisfaction the table's rows generate (all branches, all threshold subsets,
non-canonical `and`/`or` rows included), bottom of the witness first -/
def allSat (a : Avail) (sortK : List Key → List Key) : Ms → List (List Item)
  | .fls => []
  | .tru => [[]]
  | .pkK k => if a.sig k then [[.sig k]] else []
  | .pkH k => if a.sig k then [[.sig k, .key k]] else []
  | .rawPkH h => if a.rawSig h then [[.rawSig h, .rawKey h]] else []
  | .after n => if a.after n then [[]] else []
  | .older n => if a.older n then [[]] else []
  | .hash kind h => if a.preimage kind h then [[.pre kind h]] else []
  | .alt x | .swap x | .check x | .zeroNotEqual x | .verify x | .nonZero x => allSat a sortK x
  | .dupIf x => catAll (allSat a sortK x) [[.one]]
  | .andV x y | .andB x y => catAll (allSat a sortK y) (allSat a sortK x)
  | .andOr x y z =>
    catAll (allSat a sortK y) (allSat a sortK x) ++ catAll (allSat a sortK z) (allDsat a sortK x)
  | .orB x z =>
    catAll (allDsat a sortK z) (allSat a sortK x) ++ catAll (allSat a sortK z) (allDsat a sortK x)
      ++ catAll (allSat a sortK z) (allSat a sortK x)
  | .orC x z | .orD x z => allSat a sortK x ++ catAll (allSat a sortK z) (allDsat a sortK x)
  | .orI x z => catAll (allSat a sortK x) [[.one]] ++ catAll (allSat a sortK z) [[.empty]]
  | .thresh k xs => threshAll a sortK k xs
  | .multi k ks =>
    (chooseK k (ks.map a.sig)).map fun fl =>
      Item.empty :: ((ks.zip fl).filterMap fun p => if p.2 then some (Item.sig p.1) else none)
  | .sortedMulti k ks =>
    (chooseK k ((sortK ks).map a.sig)).map fun fl =>
      Item.empty :: (((sortK ks).zip fl).filterMap fun p => if p.2 then some (Item.sig p.1) else none)
  | .multiA k ks =>
    (chooseK k (ks.map a.sig)).map fun fl =>
      ((ks.zip fl).map fun p => if p.2 then Item.sig p.1 else Item.empty).reverse
  | .sortedMultiA k ks =>
    (chooseK k ((sortK ks).map a.sig)).map fun fl =>
      (((sortK ks).zip fl).map fun p => if p.2 then Item.sig p.1 else Item.empty).reverse
def allDsat (a : Avail) (sortK : List Key → List Key) : Ms → List (List Item)
  | .fls => [[]]
  | .tru => []
  | .pkK _ => [[.empty]]
  | .pkH k => [[.empty, .key k]]
  | .rawPkH h => if a.rawKey h then [[.empty, .rawKey h]] else []
  | .after _ | .older _ => []
  | .hash _ _ => [[.zero32]]
  | .alt x | .swap x | .check x | .zeroNotEqual x => allDsat a sortK x
  | .dupIf _ | .nonZero _ => [[.empty]]
  | .verify _ => []
  | .andV x y => catAll (allDsat a sortK y) (allSat a sortK x)
  | .andB x y =>
    catAll (allDsat a sortK y) (allDsat a sortK x) ++ catAll (allSat a sortK y) (allDsat a sortK x)
      ++ catAll (allDsat a sortK y) (allSat a sortK x)
  | .andOr x y z =>
    catAll (allDsat a sortK z) (allDsat a sortK x) ++ catAll (allDsat a sortK y) (allSat a sortK x)
  | .orB x z | .orD x z => catAll (allDsat a sortK z) (allDsat a sortK x)
  | .orC _ _ => []
  | .orI x z => catAll (allDsat a sortK x) [[.one]] ++ catAll (allDsat a sortK z) [[.empty]]
  | .thresh _ xs => threshAll a sortK 0 xs
  | .multi k _ | .sortedMulti k _ => [List.replicate (k + 1) .empty]
  | .multiA _ ks | .sortedMultiA _ ks => [List.replicate ks.length .empty]
/-- exactly `need` of the children satisfied, the others dissatisfied; the LAST child's
witness at the bottom -/
def threshAll (a : Avail) (sortK : List Key → List Key) : Nat → MsList → List (List Item)
  | need, .nil => if need = 0 then [[]] else []
  | need, .cons x xs =>
    (match need with
     | 0 => []
     | n + 1 => catAll (threshAll a sortK n xs) (allSat a sortK x))
    ++ catAll (threshAll a sortK need xs) (allDsat a sortK x)
end

def ops (t : Tables) (kind op : String) (args : List String) : Option String :=
  match kind, op, args with
  -- J nonmall <ctx> <nLockTime> <nSequence> <maxLen> <script hex> <witness, bottom first> <extras> | info…
  -- `ok` iff the library's witness is accepted and NO other stack of length ≤ maxLen over Adv(w) is
  | "J", "nonmall", ctx :: lt :: sq :: maxLen :: script :: wit :: extras :: _ =>
    match parseMalle t ctx lt sq maxLen script wit extras with
    | none => some "bad:unparseable"
    | some a =>
      let r := advSearch a.env a.ops a.alpha a.maxLen
      let orig := a.w.reverse
      match r.accepted.filter (· != orig) with
      | alt :: _ => some ("bad:" ++ showStackBottomFirst alt)
      | [] =>
        if r.exhausted then some "bad:search-budget-exhausted"
        else if !r.accepted.contains orig then some "bad:original-witness-rejected"
        else some "ok"
  -- C advfinds …same arguments…: positive control on KNOWN-malleable inputs; the search must find
  -- an accepted stack different from `w`
  | "C", "advfinds", ctx :: lt :: sq :: maxLen :: script :: wit :: extras :: _ =>
    match parseMalle t ctx lt sq maxLen script wit extras with
    | none => some "unparseable"
    | some a =>
      let r := advSearch a.env a.ops a.alpha a.maxLen 2
      let orig := a.w.reverse
      some (if (r.accepted.filter (· != orig)).isEmpty then "none" else "found")
  -- C advbrute …same arguments…: self-check of the pruned search against brute force
  | "C", "advbrute", ctx :: lt :: sq :: maxLen :: script :: wit :: extras :: _ =>
    match parseMalle t ctx lt sq maxLen script wit extras with
    | none => some "unparseable"
    | some a =>
      let r := advSearch a.env a.ops a.alpha a.maxLen
      let b := bruteSearch a.env a.ops a.alpha a.maxLen
      some (if !r.exhausted && subsetOf r.accepted b && subsetOf b r.accepted then "same" else "diff")
  -- J dnonmall <nLockTime> <nSequence> <spk> <scriptSig> <witness, bottom first> <extras> | info…
  -- descriptor level: `ok` iff `verifySpend` accepts the library's triple and no other triple
  -- over Adv (search through the same envelope + envelope manipulations)
  | "J", "dnonmall", lt :: sq :: spk :: ss :: wit :: extras :: _ =>
    match (do
      let lt ← lt.toNat?; let sq ← sq.toNat?
      let spk ← Hash.ofHex spk; let ss ← Hash.ofHex ss; let wit ← parseHexList wit; let ex ← parseHexList extras
      pure (spendEnv t lt sq, spk, ss, wit, ex) : Option _) with
    | none => some "bad:unparseable"
    | some (e, spk, ss, wit, ex) =>
      if !isOk (Spend.verifySpend e spk ss wit) then some "bad:original-spend-rejected" else
      match envelopeOf e spk ss wit with
      | none => some "bad:no-envelope"
      | some ev =>
        match spendSearch e spk ss wit (advAlphabet (ev.items ++ (Spend.pushedStack ((parse ss).getD [])).reverse) ex) with
        | none => some "bad:no-envelope"
        | some (acc, exhausted) =>
          match acc.filter (fun c => c != (ss, wit)) with
          | alt :: _ => some ("bad:" ++ showTriple alt)
          | [] =>
            if exhausted then some "bad:search-budget-exhausted"
            else if !acc.contains (ss, wit) then some "bad:original-not-found-by-search"
            else some "ok"
  -- C dadvalt …as dnonmall…: positive control, an alternative to the given triple MUST be found
  | "C", "dadvalt", lt :: sq :: spk :: ss :: wit :: extras :: _ =>
    match (do
      let lt ← lt.toNat?; let sq ← sq.toNat?
      let spk ← Hash.ofHex spk; let ss ← Hash.ofHex ss; let wit ← parseHexList wit; let ex ← parseHexList extras
      pure (spendEnv t lt sq, spk, ss, wit, ex) : Option _) with
    | none => some "unparseable"
    | some (e, spk, ss, wit, ex) =>
      match envelopeOf e spk ss wit with
      | none => some "no-envelope"
      | some ev =>
        match spendSearch e spk ss wit (advAlphabet (ev.items ++ (Spend.pushedStack ((parse ss).getD [])).reverse) ex) with
        | none => some "no-envelope"
        | some (acc, _) => some (if (acc.filter (fun c => c != (ss, wit))).isEmpty then "none" else "found")
  -- J dnoalt <nLockTime> <nSequence> <spk> <scriptSig> <envelope tail> <alphabet items> | info…
  -- a DIFFERENT envelope (another tap leaf / control block): nothing over Adv may be accepted
  | "J", "dnoalt", lt :: sq :: spk :: ss :: tail :: items :: _ =>
    match (do
      let lt ← lt.toNat?; let sq ← sq.toNat?
      let spk ← Hash.ofHex spk; let ss ← Hash.ofHex ss; let tail ← parseHexList tail; let it ← parseHexList items
      pure (spendEnv t lt sq, spk, ss, tail, it) : Option _) with
    | none => some "bad:unparseable"
    | some (e, spk, ss, tail, it) =>
      match spendSearch e spk ss tail (advAlphabet it []) with
      | none => some "bad:no-envelope"
      | some (acc, exhausted) =>
        match acc with
        | alt :: _ => some ("bad:" ++ showTriple alt)
        | [] => if exhausted then some "bad:search-budget-exhausted" else some "ok"
  -- C dadvfinds …as dnoalt…: positive control, something MUST be accepted through this envelope
  | "C", "dadvfinds", lt :: sq :: spk :: ss :: tail :: items :: _ =>
    match (do
      let lt ← lt.toNat?; let sq ← sq.toNat?
      let spk ← Hash.ofHex spk; let ss ← Hash.ofHex ss; let tail ← parseHexList tail; let it ← parseHexList items
      pure (spendEnv t lt sq, spk, ss, tail, it) : Option _) with
    | none => some "unparseable"
    | some (e, spk, ss, tail, it) =>
      match spendSearch e spk ss tail (advAlphabet it []) with
      | none => some "no-envelope"
      | some (acc, _) => some (if acc.isEmpty then "none" else "found")
  -- J advcovers <ctx> <nLockTime> <nSequence> <script hex> <extras> <ast> <adversary assets>
  -- control of the search by an independent generator: every satisfaction the specification
  -- table generates from the adversary's items and that the Script semantics accepts must be
  -- among the stacks the search reports
  | "J", "advcovers", ctx :: lt :: sq :: script :: extras :: ast :: assets :: _ =>
    match (do
      let ctx ← parseCtx ctx; let lt ← lt.toNat?; let sq ← sq.toNat?
      let script ← Hash.ofHex script; let ex ← parseHexList extras
      let ops ← parse script; let ms ← parseAst ast; let a ← parseAssets assets
      pure (mkEnv t ctx true lt sq, ops, ex, ms, a) : Option _) with
    | none => some "bad:unparseable"
    | some (env, ops, ex, ms, a) =>
      let table := ((allSat (availOf a) (sortKeys t.keyEnv) ms).take 400).filterMap fun items => items.mapM (realise t a)
      let good := table.filter fun w => acceptsStd env ops w.reverse
      -- alphabet: the items of these satisfactions, empty and 01 (no junk: the point is
      -- coverage of the generator, and junk multiplies the hash dissatisfactions)
      let _ := ex
      let r := advSearch env ops (dedup (good.flatten ++ [[], [1]])) 100
      if r.exhausted then some "bad:search-budget-exhausted" else
      match good.find? (fun w => !r.accepted.contains w.reverse) with
      | some w => some ("bad:missed:" ++ showStackBottomFirst w.reverse)
      | none => some "ok"
  | _, _, _ => none

end MsVerif.Driver.Malle

namespace MsVerif.Driver
/-- C03 ops (`J nonmall`, `C advfinds`, `C advbrute`, …).  `nonmall2e` / `dnonmall2e` are the same
    judges under another name: the harness uses it for scripts that contain ONE curve point in TWO
    key encodings, so that this input class is one prefix in `known_findings.txt`. -/
def opsMalle (t : Tables) (kind op : String) (args : List String) : Option String :=
  let op' := if op == "nonmall2e" then "nonmall" else if op == "dnonmall2e" then "dnonmall" else op
  Malle.ops t kind op' args
end MsVerif.Driver

/- C02 ops at DESCRIPTOR level: the specification's satisfaction table applied per leaf /
key path vs `Descriptor::get_satisfaction{,_mall}` and `Descriptor::into_plan{,_mall}`; the
model of the taproot leaf loop. -/
import MsVerif.Driver.OpsSat
import MsVerif.Model.TapSpend
import MsVerif.Lemmas.CompleteFixed

namespace MsVerif.Driver.SatD
open MsVerif MsVerif.Driver Script SatTable

/-- leaf depths from a tree shape such as `{0,{1,2}}` (leaf indices left to right) -/
def shapeDepths (s : String) : List Nat :=
  let rec go : List Char → Nat → Bool → List Nat → List Nat
    | [], _, _, acc => acc.reverse
    | '{' :: cs, d, _, acc => go cs (d + 1) false acc
    | '}' :: cs, d, _, acc => go cs (d - 1) false acc
    | ',' :: cs, d, _, acc => go cs d false acc
    | c :: cs, d, inNum, acc =>
      if c.isDigit then (if inNum then go cs d true acc else go cs d true (d :: acc)) else go cs d false acc
  go s.toList 0 false []

def parseLeaves (s : String) : Option (List Ms) :=
  if s == "-" then some [] else (s.splitOn ";").mapM parseAst

/-- the hypotheses of theorem `C02.nonmall_complete` for one script: type `m` and `s`, no raw
pkh, every preimage known, `1 ≤ k ≤ n` in thresholds (same predicates as the theorem) -/
def leafSane (a : Assets) (ms : Ms) : Bool :=
  match typeOf ms with
  | some τ => τ.mall.nonMall && τ.mall.signed && Complete.allNodes Complete.isNotRawPkH ms
      && Complete.allNodes (Complete.preKnown a) ms && Complete.allNodes Complete.threshKOK ms
  | none => false

/-- the table's verdict for a whole descriptor: key path, or some leaf -/
def descSatEx (a : Assets) (tk : Bool) (leaves : List Ms) : Bool :=
  tk || leaves.any (fun ms => satEx (availOf a) ms)

/-- … restricted to what the non-malleable satisfier promises (theorem T3) -/
def descSatExNM (a : Assets) (tk : Bool) (leaves : List Ms) : Bool :=
  tk || leaves.any (fun ms => leafSane a ms && satEx (availOf a) ms)

def showChoice : TapChoice → String
  | .key => "key" | .leaf i => s!"leaf:{i}" | .none => "none"

def opsSatD (t : Tables) (kind op : String) (args : List String) : Option String :=
  match kind, op, args with
  -- J dcomplete <wrap> <internal|-> <shape|-> <leaf;leaf…|-> <assets> <tapkey 0/1> <mall some|none> <nonmall some|none>
  | "J", "dcomplete", [_wrap, _ik, _shape, leaves, assets, tk, mall, nonmall] => do
    let ls ← parseLeaves leaves; let a ← parseAssets assets
    let tk := tk == "1"
    if descSatEx a tk ls && mall == "none" then
      pure "bad:table-satisfiable-but-get_satisfaction_mall-found-nothing"
    else if descSatExNM a tk ls && nonmall == "none" then
      pure "bad:table-satisfiable-sane-all-preimages-but-get_satisfaction-found-nothing"
    else pure "ok"
  -- J dcompleteS <same arguments>: for a descriptor that the library's CONSTRUCTOR accepted
  -- although it is on the designated refused-today list (malleable / sigless branch / repeated
  -- key / mixed lock units / context rule / limit + 1): the statement's non-malleable sentence is
  -- read literally ("descriptors that pass the library's sanity rules") - whenever some leaf is
  -- table-satisfiable with all its preimages known, get_satisfaction must answer
  | "J", "dcompleteS", [_wrap, _ik, _shape, leaves, assets, tk, mall, nonmall] => do
    let ls ← parseLeaves leaves; let a ← parseAssets assets
    let tk := tk == "1"
    if descSatEx a tk ls && mall == "none" then
      pure "bad:table-satisfiable-but-get_satisfaction_mall-found-nothing"
    else if (tk || ls.any (fun ms => Complete.allNodes (Complete.preKnown a) ms && satEx (availOf a) ms))
        && nonmall == "none" then
      pure "bad:accepted-as-sane-table-satisfiable-all-preimages-but-get_satisfaction-found-nothing"
    else pure "ok"
  -- J dplan <wrap> <internal|-> <shape|-> <leaves|-> <assets> <tapkey> <mode mall|nonmall> <ok|errsame|errdiff>
  | "J", "dplan", [_wrap, _ik, _shape, leaves, assets, tk, mode, res] => do
    let ls ← parseLeaves leaves; let a ← parseAssets assets
    let tk := tk == "1"
    if res == "errdiff" then pure "bad:into_plan-returned-a-different-descriptor"
    else if res == "ok" then pure "ok"
    else if mode == "mall" && descSatEx a tk ls then pure "bad:into_plan_mall-refused-although-table-satisfiable"
    else if mode == "nonmall" && descSatExNM a tk ls then pure "bad:into_plan-refused-although-table-satisfiable"
    else pure "ok"
  -- J complete3 <ctx> <ast> <assets> <nonmall some|none>: the non-malleable half judged against
  -- EXACTLY the hypotheses of theorem C02.nonmall_complete (computed here, not by the library's
  -- `validate`): type m and s, no raw pkh, every preimage known, 1 ≤ k ≤ n
  | "J", "complete3", [_ctx, ast, assets, nonmall] => do
    let ms ← parseAst ast; let a ← parseAssets assets
    if leafSane a ms && satEx (availOf a) ms && nonmall == "none" then
      pure "bad:T3-hypotheses-hold-and-table-satisfiable-but-satisfy-found-nothing"
    else pure "ok"
  -- C trbest <mode> <internal> <shape|-> <leaves|-> <assets> <tapkey>: which spend the leaf loop picks
  | "C", "trbest", [mode, _ik, shape, leaves, assets, tk] => do
    let ls ← parseLeaves leaves; let a ← parseAssets assets
    let ds := shapeDepths shape
    if ds.length != ls.length then none else
    let tl : List TapLeaf := (ls.zip ds).map fun p => ⟨p.1, p.2⟩
    pure (showChoice (bestTapSpend t.keyEnv a (mode == "mall") (tk == "1") tl))
  | _, _, _ => none

end MsVerif.Driver.SatD

/- Judge ops at output level: `Spec/Spend.verifySpend` on (scriptPubKey, scriptSig, witness). -/
import MsVerif.Driver.OpsMs
import MsVerif.Spec.Spend

namespace MsVerif.Driver
open MsVerif Script Spend

def spendEnv (t : Tables) (lt sq : Nat) : SpendEnv where
  sigOk dom pk sg := t.dsigs.contains (dom, pk, sg)
  hash := realHash
  tapCommitOk cb sc ok := t.tapcommits.contains (cb, sc, ok)
  nLockTime := lt
  nSequence := sq
  txVersion := 2

def showVerdict : Verdict → String
  | .ok => "ok"
  | .fail w => "bad:" ++ w

def opsSpend (t : Tables) (kind op : String) (args : List String) : Option String :=
  match kind, op, args with
  -- J spend <locktime> <sequence> <spk hex> <scriptSig hex> <witness items bottom-first> [| info…]
  | "J", "spend", lt :: sq :: spk :: ss :: wit :: _ => do
    let lt ← lt.toNat?; let sq ← sq.toNat?
    let spk ← Hash.ofHex spk; let ss ← Hash.ofHex ss; let wit ← parseHexList wit
    pure (showVerdict (verifySpend (spendEnv t lt sq) spk ss wit))
  -- J spendfail: the same triple must NOT verify (lock-time necessity, mutated witnesses…)
  | "J", "spendfail", lt :: sq :: spk :: ss :: wit :: _ => do
    let lt ← lt.toNat?; let sq ← sq.toNat?
    let spk ← Hash.ofHex spk; let ss ← Hash.ofHex ss; let wit ← parseHexList wit
    pure (match verifySpend (spendEnv t lt sq) spk ss wit with | .ok => "bad:accepted" | .fail _ => "ok")
  -- C spendverdict: full verdict string (used when the implementation side also has an opinion)
  | "C", "spendverdict", lt :: sq :: spk :: ss :: wit :: _ => do
    let lt ← lt.toNat?; let sq ← sq.toNat?
    let spk ← Hash.ofHex spk; let ss ← Hash.ofHex ss; let wit ← parseHexList wit
    pure (match verifySpend (spendEnv t lt sq) spk ss wit with | .ok => "accept" | .fail _ => "reject")
  | _, _, _ => none

end MsVerif.Driver

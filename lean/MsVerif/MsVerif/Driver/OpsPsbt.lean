/-
Line-protocol ops for C14.  The finalizer state machine (`C psbtstep`) and the harness-side judges
live in `Driver/OpsPsbtCore.lean`; this file adds the byte-level correspondence of the UPDATER:

`C psbtupd <descriptor wire> <keys> <hashes>` — the `redeem_script` / `witness_script` that
`update_input_with_descriptor` records, computed by `Model/PsbtUpdate.updateScripts` from C16's
descriptor model with real hashes (`Spec/Hash.lean`); answer `<redeem hex|none> <witness hex|none>`.
The atom tables travel on the line (`0=<key serialisation hex>,…`, `sha256:0=<hash value hex>,…`).
-/
import MsVerif.Driver.OpsPsbtCore
import MsVerif.Model.PsbtUpdate
import MsVerif.Driver.OpsDesc
import MsVerif.Driver.OpsSpend

namespace MsVerif.Driver

/-- inline atom tables of a `C psbtupd` line -/
def inlineTables (keys hashes : String) : Option Tables := do
  let ks ← (if keys == "-" then [] else keys.splitOn ",").mapM fun e =>
    match e.splitOn "=" with
    | [id, ser] => do
      let id ← id.toNat?; let ser ← Hash.ofHex ser
      pure (id, ser, ser, Hash.hash160 ser)
    | _ => none
  let hs ← (if hashes == "-" then [] else hashes.splitOn ",").mapM fun e =>
    match e.splitOn "=" with
    | [kh, v] =>
      match kh.splitOn ":" with
      | [k, h] => do
        let k ← parseHashKind k; let h ← h.toNat?; let v ← Hash.ofHex v
        pure ((k, h), v, ([] : Script.Bytes))
      | _ => none
    | _ => none
  pure { keys := ks, hashes := hs }

def optHex : Option Script.Bytes → String
  | some b => Hash.toHexW b
  | none => "none"

/-- inline validity facts of a `J spendv` line: `dsig:<dom>:<pk>:<sig>` / `tapcommit:<cb>:<script>:<key>` -/
def inlineFacts (facts : String) : Option Tables := do
  let fs := if facts == "-" then [] else facts.splitOn ","
  fs.foldlM (init := ({} : Tables)) fun t f =>
    match f.splitOn ":" with
    | ["dsig", dom, pk, sg] => do
      let dom ← dom.toNat?; let pk ← Hash.ofHex pk; let sg ← Hash.ofHex sg
      pure { t with dsigs := (dom, pk, sg) :: t.dsigs }
    | ["tapcommit", cb, sc, ok] => do
      let cb ← Hash.ofHex cb; let sc ← Hash.ofHex sc; let ok ← Hash.ofHex ok
      pure { t with tapcommits := (cb, sc, ok) :: t.tapcommits }
    | _ => none

def opsPsbt (kind op : String) (args : List String) : Option String :=
  match kind, op, args with
  -- `Spec/Spend.verifySpend` with the transaction VERSION of the spending transaction (BIP68: a
  -- relative lock cannot be satisfied in a version-1 transaction)
  | "J", "spendv", ver :: lt :: sq :: spk :: ss :: wit :: facts :: _ => some <| (do
      let ver ← ver.toNat?; let lt ← lt.toNat?; let sq ← sq.toNat?
      let spk ← Hash.ofHex spk; let ss ← Hash.ofHex ss; let wit ← parseHexList wit
      let t ← inlineFacts facts
      let env : Spend.SpendEnv := { spendEnv t lt sq with txVersion := ver }
      pure (showVerdict (Spend.verifySpend env spk ss wit))).getD "bad-args"
  | "C", "psbtupd", [d, keys, hashes] => some <| (do
      let t ← inlineTables keys hashes
      let d ← DescOps.parseDesc d
      let r := PsbtUpd.updateScripts (DescOps.descParams t) d
      pure s!"{optHex r.1} {optHex r.2}").getD "bad-args"
  | _, _, _ => opsPsbtCore kind op args

end MsVerif.Driver

/-
Model/Checksum.lean — executable mirror of `/repo/src/descriptor/checksum.rs`
(`Engine::{new,input,input_unchecked,checksum_chars}`, `verify_checksum`) and of the part of the
`bech32` crate it drives (`primitives::checksum::Engine::{input_fe,input_target_residue}`,
`PackedFe32 for u64 :: {unpack, mul_by_x_then_add}`, `Fe32::to_char`).

The midstate is a `u64` holding 40 bits; it is modelled as `BitVec 40` (the Rust code masks the
top symbol away before shifting, so no bit above 39 is ever set).  Strings are `List Char`
(`String` wrappers at the end).  `verify_checksum` rejects every character outside 32..127
before doing anything else, so byte positions and character positions coincide wherever they
are used.  `none` in the engine functions = a Rust panic (`CHAR_MAP` index out of range,
`Fe32::try_from(..).expect(..)`).
-/
namespace MsVerif.Checksum

abbrev W := BitVec 40

/-- `GEN` / `GENERATOR_SH` -/
def GEN0 : W := 0xf5dee51989#40
def GEN1 : W := 0xa9fdca3312#40
def GEN2 : W := 0x1bab10e32d#40
def GEN3 : W := 0x3706b1677a#40
def GEN4 : W := 0x644d626ffd#40

/-- `CHAR_MAP`: starts at 32 (space), runs up to 126 (tilde) -/
def CHAR_MAP : Array Nat := #[
    94, 59, 92, 91, 28, 29, 50, 15, 10, 11, 17, 51, 14, 52, 53, 16,
     0,  1,  2,  3,  4,  5,  6,  7,  8,  9, 27, 54, 55, 56, 57, 58,
    26, 82, 83, 84, 85, 86, 87, 88, 89, 32, 33, 34, 35, 36, 37, 38,
    39, 40, 41, 42, 43, 44, 45, 46, 47, 48, 49, 12, 93, 13, 60, 61,
    90, 18, 19, 20, 21, 22, 23, 24, 25, 64, 65, 66, 67, 68, 69, 70,
    71, 72, 73, 74, 75, 76, 77, 78, 79, 80, 81, 30, 62, 31, 63]

/-- `expression::INPUT_CHARSET` -/
def INPUT_CHARSET : String :=
  "0123456789()[],'/*abcdefgh@:$%{}IJKLMNOPQRSTUVWXYZ&+-.;<=>?!^_|~ijklmnopqrstuvwxyzABCDEFGH`#\"\\ "

/-- bech32 `CHARS_LOWER` (`Fe32::to_char`) -/
def CHARS_LOWER : Array Char := #[
  'q','p','z','r','y','9','x','8','g','f','2','t','v','d','w','0',
  's','3','j','n','5','4','k','h','c','e','6','m','u','a','7','l']

/-- `(32..127).contains(&u32::from(ch))` -/
def validChar (c : Char) : Bool := 32 ≤ c.toNat && c.toNat < 127

/-- `CHAR_MAP[usize::from(*ch) - 32]`; `none` = panic (subtraction overflow / out of bounds) -/
def charMap? (b : Nat) : Option Nat :=
  if b < 32 then none else CHAR_MAP[b - 32]?

def sel (b : Bool) (g : W) : W := if b then g else 0

/-- bech32 `Engine::input_fe` for `MidstateRepr = u64`, `CHECKSUM_LENGTH = 8`:
`xn = residue.mul_by_x_then_add(8, e)` (returns the old top symbol, clears it, shifts by 5, ORs
`e` in), then XORs `GEN[i]` for every set bit `i` of `xn`. -/
def inputFe (r : W) (e : Nat) : W :=
  let xn := r >>> 35
  let r := ((r &&& ~~~(0x1f#40 <<< 35)) <<< 5) ||| BitVec.ofNat 40 e
  r ^^^ sel (xn.getLsbD 0) GEN0 ^^^ sel (xn.getLsbD 1) GEN1 ^^^ sel (xn.getLsbD 2) GEN2
    ^^^ sel (xn.getLsbD 3) GEN3 ^^^ sel (xn.getLsbD 4) GEN4

/-- `Fe32::try_from(n)` then `input_fe`; `none` = the `expect` panics -/
def inputFeChecked (r : W) (n : Nat) : Option W :=
  if n < 32 then some (inputFe r n) else none

structure Engine where
  residue : W
  cls : Nat
  clscount : Nat
deriving DecidableEq, Repr

/-- `Engine::new` (bech32 engines start with residue 1) -/
def Engine.new : Engine := ⟨1#40, 0, 0⟩

/-- one iteration of the loop in `input_unchecked` -/
def Engine.inputByte (en : Engine) (b : Nat) : Option Engine :=
  match charMap? b with
  | none => none
  | some pos =>
    let r := inputFe en.residue (pos % 32)          -- `pos & 31`, always a valid Fe32
    let cls := en.cls * 3 + pos / 32                 -- `pos >> 5`
    let cnt := en.clscount + 1
    if cnt = 3 then
      match inputFeChecked r cls with
      | none => none
      | some r' => some ⟨r', 0, 0⟩
    else some ⟨r, cls, cnt⟩

/-- `Engine::input_unchecked` -/
def Engine.inputUnchecked : Engine → List Char → Option Engine
  | en, [] => some en
  | en, c :: cs =>
    match en.inputByte c.toNat with
    | none => none
    | some en' => en'.inputUnchecked cs

/-- `Engine::input`: `none` here means `Err(InvalidCharacter)`; a panic cannot be told apart in
this signature and is excluded by `C10.input_never_panics`. -/
def Engine.input (en : Engine) (s : List Char) : Option Engine :=
  if s.all validChar then en.inputUnchecked s else none

/-- `PackedFe32::unpack` -/
def unpack (r : W) (n : Nat) : Nat := (r >>> (n * 5)).toNat % 32

/-- the residue after the pending class symbol and `input_target_residue`
(`TARGET_RESIDUE = 1` unpacked from the top: seven 0 symbols, then 1) -/
def Engine.finalResidue (en : Engine) : Option W :=
  let r? := if en.clscount > 0 then inputFeChecked en.residue en.cls else some en.residue
  match r? with
  | none => none
  | some r => some ([0, 0, 0, 0, 0, 0, 0, 1].foldl inputFe r)

def residueChars (r : W) : List Char :=
  [7, 6, 5, 4, 3, 2, 1, 0].map fun n => CHARS_LOWER.getD (unpack r n) 'q'

/-- `Engine::checksum_chars` -/
def Engine.checksumChars (en : Engine) : Option (List Char) :=
  en.finalResidue.map residueChars

/-- checksum of a string: `Engine::new()`, `input`, `checksum_chars`; `none` on an invalid character -/
def checksumOf (s : List Char) : Option (List Char) :=
  (Engine.new.input s).bind Engine.checksumChars

inductive CsErr | invalidCharacter | invalidChecksumLength | invalidChecksum
deriving DecidableEq, Repr

inductive CsResult
  | ok (body : List Char)
  | err (e : CsErr)
  | panic
deriving DecidableEq, Repr

/-- first loop of `verify_checksum`: `none` at the first invalid character, otherwise the
position of the last `#` (initially `s.len()`). -/
def scanHash : List Char → (pos : Nat) → (last : Nat) → Option Nat
  | [], _, last => some last
  | c :: cs, pos, last =>
    if !validChar c then none else scanHash cs (pos + 1) (if c = '#' then pos else last)

/-- `verify_checksum` -/
def verifyChecksumL (s : List Char) : CsResult :=
  match scanHash s 0 s.length with
  | none => .err .invalidCharacter
  | some lastHash =>
    if lastHash < s.length then
      let checksumStr := s.drop (lastHash + 1)
      if checksumStr.length ≠ 8 then .err .invalidChecksumLength
      else
        match (Engine.new.inputUnchecked (s.take lastHash)).bind Engine.checksumChars with
        | none => .panic
        | some expected =>
          if expected ≠ checksumStr then .err .invalidChecksum else .ok (s.take lastHash)
    else .ok (s.take lastHash)

/-! String-level wrappers -/

def checksumChars (s : String) : Option String := (checksumOf s.toList).map String.ofList

inductive Result
  | ok (body : String)
  | err (e : CsErr)
  | panic
deriving DecidableEq, Repr

def verifyChecksum (s : String) : Result :=
  match verifyChecksumL s.toList with
  | .ok b => .ok (String.ofList b)
  | .err e => .err e
  | .panic => .panic

def CsErr.toStr : CsErr → String
  | .invalidCharacter => "InvalidCharacter"
  | .invalidChecksumLength => "InvalidChecksumLength"
  | .invalidChecksum => "InvalidChecksum"

end MsVerif.Checksum

/-
Model of `Type::type_check` (src/miniscript/types/mod.rs) applied bottom-up, i.e. the `ty`
field that `Miniscript::from_ast` computes for every node.
-/
import MsVerif.Model.Ast
import MsVerif.Model.Types

namespace MsVerif

mutual
def typeOf : Ms → Option Ty
  | .tru => some Ty.TRUE
  | .fls => some Ty.FALSE
  | .pkK _ => some Ty.pkK
  | .pkH _ | .rawPkH _ => some Ty.pkH
  | .multi _ _ => some Ty.multi
  | .sortedMulti _ _ => some Ty.sortedmulti
  | .multiA _ _ => some Ty.multiA
  | .sortedMultiA _ _ => some Ty.sortedmultiA
  | .after _ | .older _ => some Ty.time
  | .hash _ _ => some Ty.hash
  | .alt x => (typeOf x).bind Ty.castAlt
  | .swap x => (typeOf x).bind Ty.castSwap
  | .check x => (typeOf x).bind Ty.castCheck
  | .dupIf x => (typeOf x).bind Ty.castDupIf
  | .verify x => (typeOf x).bind Ty.castVerify
  | .nonZero x => (typeOf x).bind Ty.castNonZero
  | .zeroNotEqual x => (typeOf x).bind Ty.castZeroNotEqual
  | .andB l r => match typeOf l, typeOf r with | some a, some b => Ty.andB a b | _, _ => none
  | .andV l r => match typeOf l, typeOf r with | some a, some b => Ty.andV a b | _, _ => none
  | .orB l r => match typeOf l, typeOf r with | some a, some b => Ty.orB a b | _, _ => none
  | .orD l r => match typeOf l, typeOf r with | some a, some b => Ty.orD a b | _, _ => none
  | .orC l r => match typeOf l, typeOf r with | some a, some b => Ty.orC a b | _, _ => none
  | .orI l r => match typeOf l, typeOf r with | some a, some b => Ty.orI a b | _, _ => none
  | .andOr a b c =>
    match typeOf a, typeOf b, typeOf c with
    | some x, some y, some z => Ty.andOr x y z
    | _, _, _ => none
  | .thresh k xs => (typesOf xs).bind (Ty.threshold k)
def typesOf : MsList → Option (List Ty)
  | .nil => some []
  | .cons x xs => match typeOf x, typesOf xs with | some t, some ts => some (t :: ts) | _, _ => none
end

end MsVerif

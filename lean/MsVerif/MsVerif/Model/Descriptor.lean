/-
Model of the output-script accessors of `Descriptor<Pk>` (src/descriptor/{mod,bare,segwitv0,sh}.rs,
src/descriptor/tr/mod.rs) and of the key-level operations of
`Descriptor<DescriptorPublicKey>` (`has_wildcard`, `into_definite`, `at_derivation_index`,
`derive_at_index`, `derived_descriptor`, `find_derivation_index_for_spk`, `is_multipath`,
`into_single_descriptors`).

* A descriptor is a SHAPE over key atoms (`Desc`, the `Terminal` tree of Model/Ast.lean under
  the wrappers that exist in this version: `Bare | Pkh | Wpkh | Wsh | Sh(Wsh|Wpkh|Ms) | Tr`;
  `sortedmulti` is a `Terminal`) plus, for descriptors whose keys are not plain public keys, a
  table `key : atom → κ` (`KDesc κ`).  `translate_pk` visits the keys in a fixed order
  (`Desc.keysTranslate`: right-to-left post-order inside a miniscript, tap leaves in order, then
  the internal key), stops at the first error, and rebuilds the same shape.
* rust-bitcoin's script constructors (`ScriptBuf::new_p2pkh/new_p2sh/new_witness_program`,
  `to_p2sh`, `to_p2wsh`, `Address::p2pkh(..).script_pubkey()`, `Builder::push_slice`) are
  modelled as opcode lists serialised by `Script.serialize`; the hash functions are the
  parameters `P.H`.
* The taproot output key (`spend_info().output_key()`, property C15) is the parameter
  `P.trOutputKey` of the internal key and the `(depth, leaf script)` list.
* `Wpkh::script_pubkey` would panic on an uncompressed key; `Wpkh::new` (`Segwitv0::check_pk`)
  excludes that, the model does not represent it.
-/
import MsVerif.Model.Encode
import MsVerif.Model.Keys
import MsVerif.Spec.Outputs
import MsVerif.Spec.Address
import MsVerif.Model.TapTree

namespace MsVerif.Desc
open MsVerif MsVerif.Script MsVerif.Outputs MsVerif.Keys

/-- everything byte-level the accessors depend on -/
structure Params where
  H : Hashes
  env : KeyEnv
  /-- `TrSpendInfo::output_key().serialize()` of internal key + `(depth, leaf script)` list -/
  trOutputKey : Key → List (Nat × Bytes) → Bytes

/-! ### rust-bitcoin script constructors -/

/-- `ScriptBuf::new_p2pkh` -/
def newP2pkh (h : Bytes) : List Op :=
  [.code .dup, .code .hash160, .push h, .code .equalverify, .code .checksig]
/-- `ScriptBuf::new_p2sh` -/
def newP2sh (h : Bytes) : List Op := [.code .hash160, .push h, .code .equal]
/-- `ScriptBuf::new_witness_program` (`new_p2wpkh`, `new_p2wsh`, `new_p2tr_tweaked`) -/
def newWitnessProgram (version : Nat) (program : Bytes) : List Op := [.small version, .push program]
/-- `Script::to_p2sh` -/
def toP2sh (H : Hashes) (script : Bytes) : Bytes := serialize (newP2sh (H.hash160 script))
/-- `Script::to_p2wsh` -/
def toP2wsh (H : Hashes) (script : Bytes) : Bytes := serialize (newWitnessProgram 0 (H.sha256 script))
/-- `script::Builder::new().push_slice(bytes).into_script()` -/
def pushSliceScript (data : Bytes) : Bytes := serialize [.push data]

/-- `bitcoin::Network` -/
inductive Network | bitcoin | testnet | testnet4 | signet | regtest
  deriving DecidableEq, Repr

/-- the network as the address specification names it -/
def Network.toSpec : Network → Address.Net
  | .bitcoin => .bitcoin | .testnet => .testnet | .testnet4 => .testnet4
  | .signet => .signet | .regtest => .regtest

/-- the data part of a `bitcoin::Address` -/
inductive Payload
  | pubkeyHash (h : Bytes)
  | scriptHash (h : Bytes)
  | witness (version : Nat) (program : Bytes)
  deriving DecidableEq, Repr

/-- `Address::script_pubkey` (does not look at the network) -/
def Payload.scriptPubkey : Payload → Bytes
  | .pubkeyHash h => serialize (newP2pkh h)
  | .scriptHash h => serialize (newP2sh h)
  | .witness v p => serialize (newWitnessProgram v p)

/-- `impl Display for Address` (rust-bitcoin): Base58Check with the network kind's version byte
for the two legacy payloads, Bech32 / Bech32m with the network's hrp for witness programs -/
def Payload.toString (net : Network) : Payload → String
  | .pubkeyHash h => Address.p2pkhString net.toSpec h
  | .scriptHash h => Address.p2shString net.toSpec h
  | .witness v p => Address.segwitString net.toSpec v p

/-! ### the descriptor shapes -/

/-- `ShInner` -/
inductive ShInner
  | wsh (ms : Ms)
  | wpkh (pk : Key)
  | ms (ms : Ms)
  deriving DecidableEq, Repr

/-- `Descriptor<Pk>`; a tap tree is its `(depth, leaf)` list (`None` = `[]`) -/
inductive Desc
  | bare (ms : Ms)
  | pkh (pk : Key)
  | wpkh (pk : Key)
  | wsh (ms : Ms)
  | sh (inner : ShInner)
  | tr (internal : Key) (leaves : List (Nat × Ms))
  deriving Repr

/-! ### `Bare`, `Pkh` (bare.rs) -/

def bareScriptPubkey (P : Params) (ms : Ms) : Bytes := encodeBytes P.env .bare ms
def bareInnerScript (P : Params) (ms : Ms) : Bytes := bareScriptPubkey P ms
def bareScriptCode (P : Params) (ms : Ms) : Bytes := bareScriptPubkey P ms

/-- `Address::p2pkh(pk.to_public_key(), network)` -/
def pkhAddress (P : Params) (pk : Key) : Payload := .pubkeyHash (P.H.hash160 (P.env.ser pk))
def pkhScriptPubkey (P : Params) (pk : Key) : Bytes := (pkhAddress P pk).scriptPubkey
def pkhInnerScript (P : Params) (pk : Key) : Bytes := pkhScriptPubkey P pk
def pkhScriptCode (P : Params) (pk : Key) : Bytes := pkhScriptPubkey P pk

/-! ### `Wsh`, `Wpkh` (segwitv0.rs) -/

def wshInnerScript (P : Params) (ms : Ms) : Bytes := encodeBytes P.env .segwitv0 ms
def wshScriptPubkey (P : Params) (ms : Ms) : Bytes := toP2wsh P.H (wshInnerScript P ms)
/-- `Address::p2wsh(&self.ms.encode(), network)` -/
def wshAddress (P : Params) (ms : Ms) : Payload :=
  .witness 0 (P.H.sha256 (encodeBytes P.env .segwitv0 ms))
def wshScriptCode (P : Params) (ms : Ms) : Bytes := wshInnerScript P ms

/-- `Address::p2wpkh(&compressed, network)` -/
def wpkhAddress (P : Params) (pk : Key) : Payload := .witness 0 (P.H.hash160 (P.env.ser pk))
def wpkhScriptPubkey (P : Params) (pk : Key) : Bytes := (wpkhAddress P pk).scriptPubkey
def wpkhInnerScript (P : Params) (pk : Key) : Bytes := wpkhScriptPubkey P pk
/-- `Address::p2pkh(self.pk.to_public_key(), Network::Bitcoin).script_pubkey()` -/
def wpkhScriptCode (P : Params) (pk : Key) : Bytes := (pkhAddress P pk).scriptPubkey

/-! ### `Sh` (sh.rs) -/

def shScriptPubkey (P : Params) : ShInner → Bytes
  | .wsh ms => toP2sh P.H (wshScriptPubkey P ms)
  | .wpkh pk => toP2sh P.H (wpkhScriptPubkey P pk)
  | .ms ms => toP2sh P.H (encodeBytes P.env .legacy ms)

/-- `Sh::address_fallible`: `Address::p2sh(&script, network)` of the redeem script -/
def shAddress (P : Params) : ShInner → Payload
  | .wsh ms => .scriptHash (P.H.hash160 (wshScriptPubkey P ms))
  | .wpkh pk => .scriptHash (P.H.hash160 (wpkhScriptPubkey P pk))
  | .ms ms => .scriptHash (P.H.hash160 (encodeBytes P.env .legacy ms))

def shInnerScript (P : Params) : ShInner → Bytes
  | .wsh ms => wshInnerScript P ms
  | .wpkh pk => wpkhScriptPubkey P pk
  | .ms ms => encodeBytes P.env .legacy ms

def shScriptCode (P : Params) : ShInner → Bytes
  | .wsh ms => wshScriptCode P ms
  | .wpkh pk => wpkhScriptCode P pk
  | .ms ms => encodeBytes P.env .legacy ms

def shUnsignedScriptSig (P : Params) : ShInner → Bytes
  | .wsh ms => pushSliceScript (toP2wsh P.H (wshInnerScript P ms))
  | .wpkh pk => pushSliceScript (wpkhScriptPubkey P pk)
  | .ms _ => []

/-! ### `Tr` (tr/mod.rs) -/

def trLeafScripts (P : Params) (leaves : List (Nat × Ms)) : List (Nat × Bytes) :=
  leaves.map fun l => (l.1, encodeBytes P.env .tap l.2)

/-- `Address::p2tr_tweaked(spend_info.output_key(), network)` -/
def trAddress (P : Params) (ik : Key) (leaves : List (Nat × Ms)) : Payload :=
  .witness 1 (P.trOutputKey ik (trLeafScripts P leaves))

/-- `Builder::new().push_opcode(OP_PUSHNUM_1).push_slice(output_key.serialize())` -/
def trScriptPubkey (P : Params) (ik : Key) (leaves : List (Nat × Ms)) : Bytes :=
  serialize [.small 1, .push (P.trOutputKey ik (trLeafScripts P leaves))]

/-- `Tr::spend_info()` through the model of `TrSpendInfo::from_tr` (Model/TapTree.lean, property
C15) for a hash algebra `alg` (BIP341's tagged hashes: `Bip341.alg`) and the elliptic-curve tweak
`tweak internalKey merkleRoot` (rust-bitcoin `tap_tweak`, the only oracle); `none` = the panic
inside `nodes_from_tap_tree` on a depth list that is not a tree's -/
def trSpendInfo (alg : Spec.HashAlg Bytes Bytes) (tweak : Bytes → Option Bytes → Bytes) (P : Params)
    (ik : Key) (leaves : List (Nat × Ms)) : Option (Tap.SpendInfo Bytes Bytes Bytes Bytes) :=
  Tap.SpendInfo.fromTr alg tweak (P.env.ser ik)
    (if leaves.isEmpty then none else some (trLeafScripts P leaves))

/-- the parameter `P.trOutputKey` IS `spend_info().output_key()` of that model, whenever the
model yields a spend info -/
def Params.TrKeyFromSpendInfo (P : Params) (alg : Spec.HashAlg Bytes Bytes)
    (tweak : Bytes → Option Bytes → Bytes) : Prop :=
  ∀ ik leaves si, trSpendInfo alg tweak P ik leaves = some si →
    P.trOutputKey ik (trLeafScripts P leaves) = si.outputKey

/-! ### `Descriptor` (mod.rs) -/

/-- `Descriptor::script_pubkey` -/
def Desc.scriptPubkey (P : Params) : Desc → Bytes
  | .bare ms => bareScriptPubkey P ms
  | .pkh pk => pkhScriptPubkey P pk
  | .wpkh pk => wpkhScriptPubkey P pk
  | .wsh ms => wshScriptPubkey P ms
  | .sh inner => shScriptPubkey P inner
  | .tr ik leaves => trScriptPubkey P ik leaves

/-- `Descriptor::address`: the payload; `none` = `Err(BareDescriptorAddr)` -/
def Desc.address (P : Params) (net : Network) : Desc → Option (Network × Payload)
  | .bare _ => none
  | .pkh pk => some (net, pkhAddress P pk)
  | .wpkh pk => some (net, wpkhAddress P pk)
  | .wsh ms => some (net, wshAddress P ms)
  | .sh inner => some (net, shAddress P inner)
  | .tr ik leaves => some (net, trAddress P ik leaves)

/-- `Descriptor::address(network)?.to_string()` -/
def Desc.addressString (P : Params) (net : Network) (d : Desc) : Option String :=
  (d.address P net).map fun a => a.2.toString a.1

/-- `DescriptorType` -/
inductive DescType | bare | sh | pkh | wpkh | wsh | shWsh | shWpkh | tr
  deriving DecidableEq, Repr

/-- `Descriptor::desc_type` -/
def Desc.descType : Desc → DescType
  | .bare _ => .bare
  | .pkh _ => .pkh
  | .wpkh _ => .wpkh
  | .sh (.wsh _) => .shWsh
  | .sh (.wpkh _) => .shWpkh
  | .sh (.ms _) => .sh
  | .wsh _ => .wsh
  | .tr .. => .tr

/-- `DescriptorType::segwit_version` -/
def DescType.segwitVersion : DescType → Option Nat
  | .tr => some 1
  | .wpkh | .shWpkh | .wsh | .shWsh => some 0
  | .bare | .sh | .pkh => none

/-- `Descriptor::unsigned_script_sig` -/
def Desc.unsignedScriptSig (P : Params) : Desc → Bytes
  | .sh inner => shUnsignedScriptSig P inner
  | _ => []

/-- `Descriptor::explicit_script`; `none` = `Err(TrNoScriptCode)` -/
def Desc.explicitScript (P : Params) : Desc → Option Bytes
  | .bare ms => some (bareScriptPubkey P ms)
  | .pkh pk => some (pkhScriptPubkey P pk)
  | .wpkh pk => some (wpkhScriptPubkey P pk)
  | .wsh ms => some (wshInnerScript P ms)
  | .sh inner => some (shInnerScript P inner)
  | .tr .. => none

/-- `Descriptor::script_code`; `none` = `Err(TrNoScriptCode)` -/
def Desc.scriptCode (P : Params) : Desc → Option Bytes
  | .bare ms => some (bareScriptCode P ms)
  | .pkh pk => some (pkhScriptCode P pk)
  | .wpkh pk => some (wpkhScriptCode P pk)
  | .wsh ms => some (wshScriptCode P ms)
  | .sh inner => some (shScriptCode P inner)
  | .tr .. => none

/-- what the descriptor commits to, in the vocabulary of Spec/Outputs.lean -/
def Desc.toOutput (P : Params) : Desc → Output
  | .bare ms => .bare (encodeBytes P.env .bare ms)
  | .pkh pk => .pkh (P.env.ser pk)
  | .wpkh pk => .wpkh (P.env.ser pk)
  | .wsh ms => .wsh (encodeBytes P.env .segwitv0 ms)
  | .sh (.ms ms) => .sh (encodeBytes P.env .legacy ms)
  | .sh (.wpkh pk) => .shWpkh (P.env.ser pk)
  | .sh (.wsh ms) => .shWsh (encodeBytes P.env .segwitv0 ms)
  | .tr ik leaves => .tr (P.trOutputKey ik (trLeafScripts P leaves))

/-! ### key order -/

mutual
/-- keys in the order of `Miniscript::for_each_key` (pre-order, left to right) -/
def msKeysPre : Ms → List Key
  | .pkK k | .pkH k => [k]
  | .multi _ ks | .sortedMulti _ ks | .multiA _ ks | .sortedMultiA _ ks => ks
  | .alt x | .swap x | .check x | .dupIf x | .verify x | .nonZero x | .zeroNotEqual x => msKeysPre x
  | .andV l r | .andB l r | .orB l r | .orD l r | .orC l r | .orI l r => msKeysPre l ++ msKeysPre r
  | .andOr a b c => msKeysPre a ++ msKeysPre b ++ msKeysPre c
  | .thresh _ xs => msListKeysPre xs
  | _ => []
def msListKeysPre : MsList → List Key
  | .nil => []
  | .cons x xs => msKeysPre x ++ msListKeysPre xs
end

mutual
/-- keys in the order `Miniscript::translate_pk` calls the translator: `rtl_post_order_iter`
(children right to left, then the node); the keys of one `multi` left to right -/
def msKeysRtl : Ms → List Key
  | .pkK k | .pkH k => [k]
  | .multi _ ks | .sortedMulti _ ks | .multiA _ ks | .sortedMultiA _ ks => ks
  | .alt x | .swap x | .check x | .dupIf x | .verify x | .nonZero x | .zeroNotEqual x => msKeysRtl x
  | .andV l r | .andB l r | .orB l r | .orD l r | .orC l r | .orI l r => msKeysRtl r ++ msKeysRtl l
  | .andOr a b c => msKeysRtl c ++ msKeysRtl b ++ msKeysRtl a
  | .thresh _ xs => msListKeysRtl xs
  | _ => []
def msListKeysRtl : MsList → List Key
  | .nil => []
  | .cons x xs => msListKeysRtl xs ++ msKeysRtl x
end

/-- `Descriptor::for_each_key` order (`Tr`: leaves first, the internal key last) -/
def Desc.keysPre : Desc → List Key
  | .bare ms | .wsh ms | .sh (.ms ms) | .sh (.wsh ms) => msKeysPre ms
  | .pkh pk | .wpkh pk | .sh (.wpkh pk) => [pk]
  | .tr ik leaves => leaves.flatMap (fun l => msKeysPre l.2) ++ [ik]

/-- `Descriptor::translate_pk` order -/
def Desc.keysTranslate : Desc → List Key
  | .bare ms | .wsh ms | .sh (.ms ms) | .sh (.wsh ms) => msKeysRtl ms
  | .pkh pk | .wpkh pk | .sh (.wpkh pk) => [pk]
  | .tr ik leaves => leaves.flatMap (fun l => msKeysRtl l.2) ++ [ik]

/-! ### descriptors over structured keys -/

/-- a descriptor whose key atoms stand for values of type `κ` -/
structure KDesc (κ : Type) where
  shape : Desc
  key : Key → Option κ

variable {κ κ' ε : Type}

/-- the keys as `for_each_key` / `iter_pk` sees them -/
def KDesc.keysPre (d : KDesc κ) : List κ := d.shape.keysPre.filterMap d.key
/-- the keys in the order `translate_pk` handles them -/
def KDesc.keysTranslate (d : KDesc κ) : List κ := d.shape.keysTranslate.filterMap d.key

/-- a total key map (what `translate_pk` with an infallible translator does) -/
def KDesc.mapKeys (g : κ → κ') (d : KDesc κ) : KDesc κ' := ⟨d.shape, fun a => (d.key a).map g⟩

/-- the first `Err` a fallible translator produces -/
def firstError (f : κ → Except ε κ') : List κ → Option ε
  | [] => none
  | k :: ks => match f k with
    | .error e => some e
    | .ok _ => firstError f ks

/-- `Descriptor::translate_pk` for a fallible translator (context errors of the rebuilt
miniscript cannot occur for the key maps used here and are not modelled) -/
def KDesc.translate (f : κ → Except ε κ') (d : KDesc κ) : Except ε (KDesc κ') :=
  match firstError f d.keysTranslate with
  | some e => .error e
  | none => .ok ⟨d.shape, fun a => (d.key a).bind fun k => (f k).toOption⟩

section dpk
variable {X P : Type}

/-- `Descriptor::has_wildcard` (`for_any_key`) -/
def KDesc.hasWildcard (d : KDesc (DPK X P)) : Bool := d.keysPre.any DPK.hasWildcard
/-- `Descriptor::is_multipath` -/
def KDesc.isMultipath (d : KDesc (DPK X P)) : Bool := d.keysPre.any DPK.isMultipath

/-- `Descriptor::into_definite` -/
def KDesc.intoDefinite (d : KDesc (DPK X P)) : Except KeyErr (KDesc (DPK X P)) :=
  if d.hasWildcard then .error .wildcard else d.translate definiteNew

/-- `Descriptor::at_derivation_index` -/
def KDesc.atDerivationIndex (d : KDesc (DPK X P)) (index : Nat) : Except KeyErr (KDesc (DPK X P)) :=
  d.translate (·.atDerivationIndex index)

/-- `DerivationResult` -/
inductive DerivationResult (X P : Type)
  | ok (d : KDesc (DPK X P))
  | withoutWildcard (d : KDesc (DPK X P))
  | error (e : KeyErr)

/-- `Descriptor::derive_at_index` -/
def KDesc.deriveAtIndex (d : KDesc (DPK X P)) (index : Nat) : DerivationResult X P :=
  if !d.hasWildcard then .withoutWildcard d
  else match d.atDerivationIndex index with
    | .ok d' => .ok d'
    | .error e => .error e

/-- `DerivationResult::into_result` -/
def DerivationResult.intoResult : DerivationResult X P → Except KeyErr (KDesc (DPK X P))
  | .ok d => .ok d
  | .withoutWildcard _ => .error .noWildcard
  | .error e => .error e

/-- `Descriptor<DefiniteDescriptorKey>::derived_descriptor` -/
def KDesc.derivedDefinite (ckd : X → Nat → X) (d : KDesc (DPK X P)) : KDesc (Derived X P) :=
  d.mapKeys (derivePublicKey ckd)

/-- `Descriptor<DescriptorPublicKey>::derived_descriptor(secp, index)` -/
def KDesc.derivedDescriptor (ckd : X → Nat → X) (d : KDesc (DPK X P)) (index : Nat) :
    Except KeyErr (KDesc (Derived X P)) :=
  (d.atDerivationIndex index).map (·.derivedDefinite ckd)

/-- `for i in range { … }` with `?` and early `return Ok(Some(..))` -/
def findLoop {β : Type} (step : Nat → Except KeyErr (Option β)) : Nat → Nat → Except KeyErr (Option β)
  | 0, _ => .ok none
  | n + 1, i =>
    match step i with
    | .error e => .error e
    | .ok (some r) => .ok (some r)
    | .ok none => findLoop step n (i + 1)

/-- `Descriptor::find_derivation_index_for_spk` over the range `lo..hi`; `spk` is
`Descriptor<bitcoin::PublicKey>::script_pubkey` of the derived descriptor -/
def KDesc.findDerivationIndexForSpk (ckd : X → Nat → X) (spk : KDesc (Derived X P) → Bytes)
    (d : KDesc (DPK X P)) (target : Bytes) (lo hi : Nat) :
    Except KeyErr (Option (Nat × KDesc (Derived X P))) :=
  if !d.hasWildcard then
    match d.intoDefinite with
    | .error e => .error e
    | .ok c =>
      let concrete := c.derivedDefinite ckd
      if spk concrete = target then .ok (some (0, concrete)) else .ok none
  else
    findLoop (fun i =>
      match (d.deriveAtIndex i).intoResult with
      | .error e => .error e
      | .ok c =>
        let concrete := c.derivedDefinite ckd
        if spk concrete = target then .ok (some (i, concrete)) else .ok none) (hi - lo) lo

/-- errors of `into_single_descriptors` -/
inductive SplitErr | lenMismatch | panicEmpty
  deriving DecidableEq, Repr

/-- the `IndexChoser(i)` translator -/
def indexChoser (i : Nat) (k : DPK X P) : Except SplitErr (DPK X P) :=
  match k with
  | .multi .. =>
    match k.intoSingleKeys[i]? with
    | some k' => .ok k'
    | none => .error .lenMismatch
  | _ => .ok k

/-- translate the clones one after the other, `?` on the first failure -/
def splitLoop (d : KDesc (DPK X P)) : List Nat → Except SplitErr (List (KDesc (DPK X P)))
  | [] => .ok []
  | i :: is =>
    match d.translate (indexChoser i) with
    | .error e => .error e
    | .ok di =>
      match splitLoop d is with
      | .error e => .error e
      | .ok rest => .ok (di :: rest)

/-- the predicate of the arity check: a multipath key whose number of alternatives is not `n` -/
def arityNe (n : Nat) : DPK X P → Bool
  | .multi _ _ paths _ => paths.length != n
  | _ => false

/-- `Descriptor::into_single_descriptors`: the number of clones is the number of paths of the
first multipath key in `for_each_key` order; every multipath key must have exactly that many
alternatives (`MultipathDescLenMismatch` otherwise) -/
def KDesc.intoSingleDescriptors (d : KDesc (DPK X P)) : Except SplitErr (List (KDesc (DPK X P))) :=
  match d.keysPre.find? DPK.isMultipath with
  | some (.multi _ _ paths _) =>
    if paths.isEmpty then .error .panicEmpty      -- `assert!(!descriptors.is_empty())`
    else if d.keysPre.any (arityNe paths.length) then .error .lenMismatch
    else splitLoop d (List.range paths.length)
  | _ => .ok [d]

end dpk

end MsVerif.Desc

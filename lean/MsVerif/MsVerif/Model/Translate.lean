/-
Literal models of

* `Miniscript::translate_pk` / `translate_pk_ctx` (src/miniscript/mod.rs): a fold over
  `self.rtl_post_order_iter()` that calls the translator on the atoms of the node, pops the
  already translated children from a stack (argument expressions left to right: the FIRST pop
  is the FIRST child; `thresh.map_ref(|_| translated.pop().unwrap())` pops once per child in
  child order), re-checks the node with `Miniscript::from_ast` and pushes it;
* `Miniscript::substitute_raw_pkh` (same loop, different leaf arm, no re-check);
* `ForEachKey::for_each_key` / `for_any_key` for `Miniscript` (a loop over `pre_order_iter`);
* `Miniscript::iter` / `iter_pk` (src/miniscript/iter.rs): the path-stack iterator
  (`next`, `path`, `get_nth_child`) and the key iterator on top of it (`get_nth_pk`).

The translator is `&mut T` in Rust, so the ORDER of its calls is observable.  The model keeps
this: translator methods run in the monad `TrM σ ε = StateT σ (Except (TrErr ε))` (σ = the
translator's own state, ε = its error type).  `from_ast` (type check + context check of the
rebuilt node in the TARGET context) is the parameter `chk : Ms → Bool`.
-/
import MsVerif.Model.Cmp

namespace MsVerif

/-- `TranslateErr<E>` plus the outcome of a failed `unwrap()` -/
inductive TrErr (ε : Type) where
  | translatorErr (e : ε)   -- `TranslateErr::TranslatorErr`
  | outerError              -- `TranslateErr::OuterError(_)`: `from_ast` rejected a rebuilt node
  | panic                   -- `translated.pop().unwrap()` on an empty stack
  deriving DecidableEq, Repr

abbrev TrM (σ ε : Type) := StateT σ (Except (TrErr ε))

/-- `trait Translator<Pk>` (`&mut self` = the state σ) -/
structure Translator (σ ε : Type) where
  pk : Key → TrM σ ε Key
  hash : HashKind → Nat → TrM σ ε Nat     -- `sha256` / `hash256` / `ripemd160` / `hash160`

section Translate
variable {σ ε : Type}

/-- `Miniscript::from_ast(new_term).map_err(TranslateErr::OuterError)?` then
`translated.push(Arc::new(new_ms))` -/
def pushChecked (chk : Ms → Bool) (newTerm : Ms) (stack : List Ms) : TrM σ ε (List Ms) :=
  if chk newTerm then pure (newTerm :: stack) else throw .outerError

/-- `translated.pop().unwrap()` -/
def popM (stack : List Ms) : TrM σ ε (Ms × List Ms) :=
  match pop? stack with
  | some r => pure r
  | none => throw .panic

/-- `thresh.map_ref(|_| translated.pop().unwrap())` -/
def popEachM (children : List Ms) (stack : List Ms) : TrM σ ε (List Ms × List Ms) :=
  match popEach children stack with
  | some r => pure r
  | none => throw .panic

/-- `thresh.translate_ref(|k| t.pk(k))?`: the keys left to right, stop at the first error -/
def translateKeys (t : Translator σ ε) : List Key → TrM σ ε (List Key)
  | [] => pure []
  | k :: ks => do
    let k' ← t.pk k
    let ks' ← translateKeys t ks
    pure (k' :: ks')

/-- body of the `for data in self.rtl_post_order_iter()` loop of `translate_pk_ctx` -/
def translateStep (t : Translator σ ε) (chk : Ms → Bool) (stack : List Ms) (item : Ms) :
    TrM σ ε (List Ms) :=
  let un (mk : Ms → Ms) : TrM σ ε (List Ms) := do
    let (x, st) ← popM stack
    pushChecked chk (mk x) st
  let bin (mk : Ms → Ms → Ms) : TrM σ ε (List Ms) := do
    let (x, st) ← popM stack
    let (y, st) ← popM st
    pushChecked chk (mk x y) st
  match item with
  | .pkK p => do let p' ← t.pk p; pushChecked chk (.pkK p') stack
  | .pkH p => do let p' ← t.pk p; pushChecked chk (.pkH p') stack
  | .rawPkH p => pushChecked chk (.rawPkH p) stack
  | .after n => pushChecked chk (.after n) stack
  | .older n => pushChecked chk (.older n) stack
  | .hash kind x => do let x' ← t.hash kind x; pushChecked chk (.hash kind x') stack
  | .tru => pushChecked chk .tru stack
  | .fls => pushChecked chk .fls stack
  | .alt _ => un .alt
  | .swap _ => un .swap
  | .check _ => un .check
  | .dupIf _ => un .dupIf
  | .verify _ => un .verify
  | .nonZero _ => un .nonZero
  | .zeroNotEqual _ => un .zeroNotEqual
  | .andV _ _ => bin .andV
  | .andB _ _ => bin .andB
  | .andOr _ _ _ => do
    let (x, st) ← popM stack
    let (y, st) ← popM st
    let (z, st) ← popM st
    pushChecked chk (.andOr x y z) st
  | .orB _ _ => bin .orB
  | .orD _ _ => bin .orD
  | .orC _ _ => bin .orC
  | .orI _ _ => bin .orI
  | .thresh k xs => do
    let (ys, st) ← popEachM xs.toList stack
    pushChecked chk (.thresh k (MsList.ofList ys)) st
  | .multi k ks => do let ks' ← translateKeys t ks; pushChecked chk (.multi k ks') stack
  | .sortedMulti k ks => do let ks' ← translateKeys t ks; pushChecked chk (.sortedMulti k ks') stack
  | .multiA k ks => do let ks' ← translateKeys t ks; pushChecked chk (.multiA k ks') stack
  | .sortedMultiA k ks => do let ks' ← translateKeys t ks; pushChecked chk (.sortedMultiA k ks') stack

/-- the `for` loop -/
def translateLoop (t : Translator σ ε) (chk : Ms → Bool) : List Ms → List Ms → TrM σ ε (List Ms)
  | [], stack => pure stack
  | item :: items, stack => do
    let stack ← translateStep t chk stack item
    translateLoop t chk items stack

/-- `Miniscript::translate_pk_ctx`: loop, then `translated.pop().unwrap()` -/
def translatePk (t : Translator σ ε) (chk : Ms → Bool) (ms : Ms) : TrM σ ε Ms := do
  let stack ← translateLoop t chk ms.rtlPostOrder []
  let (x, _) ← popM stack
  pure x

/-! ### the structural counterpart (what the fold is proved equal to) -/

/-- re-check of one rebuilt node -/
def retChecked (chk : Ms → Bool) (n : Ms) : TrM σ ε Ms :=
  if chk n then pure n else throw .outerError

mutual
/-- structural translation with the effects in right-to-left post-order: children right to
left, then the node's own atoms, then the `from_ast` check of the node -/
def Ms.trRtl (t : Translator σ ε) (chk : Ms → Bool) : Ms → TrM σ ε Ms
  | .tru => retChecked chk .tru
  | .fls => retChecked chk .fls
  | .pkK p => do let p' ← t.pk p; retChecked chk (.pkK p')
  | .pkH p => do let p' ← t.pk p; retChecked chk (.pkH p')
  | .rawPkH h => retChecked chk (.rawPkH h)
  | .after n => retChecked chk (.after n)
  | .older n => retChecked chk (.older n)
  | .hash kind x => do let x' ← t.hash kind x; retChecked chk (.hash kind x')
  | .alt x => do let x' ← x.trRtl t chk; retChecked chk (.alt x')
  | .swap x => do let x' ← x.trRtl t chk; retChecked chk (.swap x')
  | .check x => do let x' ← x.trRtl t chk; retChecked chk (.check x')
  | .dupIf x => do let x' ← x.trRtl t chk; retChecked chk (.dupIf x')
  | .verify x => do let x' ← x.trRtl t chk; retChecked chk (.verify x')
  | .nonZero x => do let x' ← x.trRtl t chk; retChecked chk (.nonZero x')
  | .zeroNotEqual x => do let x' ← x.trRtl t chk; retChecked chk (.zeroNotEqual x')
  | .andV l r => do let r' ← r.trRtl t chk; let l' ← l.trRtl t chk; retChecked chk (.andV l' r')
  | .andB l r => do let r' ← r.trRtl t chk; let l' ← l.trRtl t chk; retChecked chk (.andB l' r')
  | .orB l r => do let r' ← r.trRtl t chk; let l' ← l.trRtl t chk; retChecked chk (.orB l' r')
  | .orD l r => do let r' ← r.trRtl t chk; let l' ← l.trRtl t chk; retChecked chk (.orD l' r')
  | .orC l r => do let r' ← r.trRtl t chk; let l' ← l.trRtl t chk; retChecked chk (.orC l' r')
  | .orI l r => do let r' ← r.trRtl t chk; let l' ← l.trRtl t chk; retChecked chk (.orI l' r')
  | .andOr a b c => do
    let c' ← c.trRtl t chk; let b' ← b.trRtl t chk; let a' ← a.trRtl t chk
    retChecked chk (.andOr a' b' c')
  | .thresh k xs => do let ys ← xs.trRtl t chk; retChecked chk (.thresh k ys)
  | .multi k ks => do let ks' ← translateKeys t ks; retChecked chk (.multi k ks')
  | .sortedMulti k ks => do let ks' ← translateKeys t ks; retChecked chk (.sortedMulti k ks')
  | .multiA k ks => do let ks' ← translateKeys t ks; retChecked chk (.multiA k ks')
  | .sortedMultiA k ks => do let ks' ← translateKeys t ks; retChecked chk (.sortedMultiA k ks')
/-- children of a `thresh`: the LAST child is translated first; positions are kept -/
def MsList.trRtl (t : Translator σ ε) (chk : Ms → Bool) : MsList → TrM σ ε MsList
  | .nil => pure .nil
  | .cons x xs => do
    let xs' ← xs.trRtl t chk
    let x' ← x.trRtl t chk
    pure (.cons x' xs')
end

end Translate

/-! ### pure key/hash substitution -/

mutual
/-- `ms` with every key replaced by `f key` and every hash atom by `g kind h` -/
def Ms.mapKeys (f : Key → Key) (g : HashKind → Nat → Nat) : Ms → Ms
  | .pkK k => .pkK (f k)
  | .pkH k => .pkH (f k)
  | .hash kind h => .hash kind (g kind h)
  | .alt x => .alt (x.mapKeys f g)
  | .swap x => .swap (x.mapKeys f g)
  | .check x => .check (x.mapKeys f g)
  | .dupIf x => .dupIf (x.mapKeys f g)
  | .verify x => .verify (x.mapKeys f g)
  | .nonZero x => .nonZero (x.mapKeys f g)
  | .zeroNotEqual x => .zeroNotEqual (x.mapKeys f g)
  | .andV l r => .andV (l.mapKeys f g) (r.mapKeys f g)
  | .andB l r => .andB (l.mapKeys f g) (r.mapKeys f g)
  | .orB l r => .orB (l.mapKeys f g) (r.mapKeys f g)
  | .orD l r => .orD (l.mapKeys f g) (r.mapKeys f g)
  | .orC l r => .orC (l.mapKeys f g) (r.mapKeys f g)
  | .orI l r => .orI (l.mapKeys f g) (r.mapKeys f g)
  | .andOr a b c => .andOr (a.mapKeys f g) (b.mapKeys f g) (c.mapKeys f g)
  | .thresh k xs => .thresh k (xs.mapKeys f g)
  | .multi k ks => .multi k (ks.map f)
  | .sortedMulti k ks => .sortedMulti k (ks.map f)
  | .multiA k ks => .multiA k (ks.map f)
  | .sortedMultiA k ks => .sortedMultiA k (ks.map f)
  | t => t
def MsList.mapKeys (f : Key → Key) (g : HashKind → Nat → Nat) : MsList → MsList
  | .nil => .nil
  | .cons x xs => .cons (x.mapKeys f g) (xs.mapKeys f g)
end

/-- an atom the translator is called on -/
inductive Atom where
  | key (k : Key)
  | hash (kind : HashKind) (h : Nat)
  deriving DecidableEq, Repr

/-- the atoms of ONE node, in the order `translate_pk_ctx` hands them to the translator -/
def Ms.nodeAtoms : Ms → List Atom
  | .pkK k | .pkH k => [.key k]
  | .hash kind h => [.hash kind h]
  | .multi _ ks | .sortedMulti _ ks | .multiA _ ks | .sortedMultiA _ ks => ks.map .key
  | _ => []

/-- the keys of ONE node (`get_nth_pk`, the arms of `for_each_key`) -/
def Ms.keysAt : Ms → List Key
  | .pkK k | .pkH k => [k]
  | .multi _ ks | .sortedMulti _ ks | .multiA _ ks | .sortedMultiA _ ks => ks
  | _ => []

/-- all atoms in translator-call order (right-to-left post-order of the nodes) -/
def Ms.atomsRtl (ms : Ms) : List Atom := ms.rtlPost.flatMap Ms.nodeAtoms

/-- all keys in pre-order = the order in which they appear in the string form -/
def Ms.keys (ms : Ms) : List Key := ms.pre.flatMap Ms.keysAt

/-! ## `substitute_raw_pkh` -/

/-- loop body of `substitute_raw_pkh`: `Clone::clone` except for the `RawPkH` arm
(`pk_map.get(hash)`), no re-check (`from_components_unchecked`) -/
def substStep (pkMap : Nat → Option Key) (stack : List Ms) (item : Ms) : Option (List Ms) :=
  match item with
  | .rawPkH h =>
    match pkMap h with
    | some p => some (.pkH p :: stack)
    | none => some (.rawPkH h :: stack)
  | _ => cloneStep stack item

def substLoop (pkMap : Nat → Option Key) : List Ms → List Ms → Except Panic (List Ms)
  | [], stack => .ok stack
  | item :: items, stack =>
    match substStep pkMap stack item with
    | none => .error .unwrapNone
    | some stack => substLoop pkMap items stack

/-- `Miniscript::substitute_raw_pkh` -/
def substituteRawPkh (pkMap : Nat → Option Key) (ms : Ms) : Except Panic Ms :=
  match substLoop pkMap ms.rtlPostOrder [] with
  | .error p => .error p
  | .ok [x] => .ok x
  | .ok _ => .error .assertFailed

mutual
/-- structural counterpart of `substitute_raw_pkh` -/
def Ms.substRaw (pkMap : Nat → Option Key) : Ms → Ms
  | .rawPkH h => match pkMap h with | some p => .pkH p | none => .rawPkH h
  | .alt x => .alt (x.substRaw pkMap)
  | .swap x => .swap (x.substRaw pkMap)
  | .check x => .check (x.substRaw pkMap)
  | .dupIf x => .dupIf (x.substRaw pkMap)
  | .verify x => .verify (x.substRaw pkMap)
  | .nonZero x => .nonZero (x.substRaw pkMap)
  | .zeroNotEqual x => .zeroNotEqual (x.substRaw pkMap)
  | .andV l r => .andV (l.substRaw pkMap) (r.substRaw pkMap)
  | .andB l r => .andB (l.substRaw pkMap) (r.substRaw pkMap)
  | .orB l r => .orB (l.substRaw pkMap) (r.substRaw pkMap)
  | .orD l r => .orD (l.substRaw pkMap) (r.substRaw pkMap)
  | .orC l r => .orC (l.substRaw pkMap) (r.substRaw pkMap)
  | .orI l r => .orI (l.substRaw pkMap) (r.substRaw pkMap)
  | .andOr a b c => .andOr (a.substRaw pkMap) (b.substRaw pkMap) (c.substRaw pkMap)
  | .thresh k xs => .thresh k (xs.substRaw pkMap)
  | t => t
def MsList.substRaw (pkMap : Nat → Option Key) : MsList → MsList
  | .nil => .nil
  | .cons x xs => .cons (x.substRaw pkMap) (xs.substRaw pkMap)
end

/-! ## `for_each_key` / `for_any_key` -/

/-- `Iterator::all(&mut pred)` with the calls made visible: (keys `pred` was called on, result) -/
def allVisit (pred : Key → Bool) : List Key → List Key × Bool
  | [] => ([], true)
  | k :: ks =>
    if pred k then
      let (v, r) := allVisit pred ks
      (k :: v, r)
    else ([k], false)

/-- the `for ms in self.pre_order_iter()` loop of `for_each_key`: a node whose keys do not all
satisfy `pred` returns `false` immediately.  Result: (keys visited in order, return value). -/
def forEachKeyLoop (pred : Key → Bool) : List Ms → List Key × Bool
  | [] => ([], true)
  | ms :: rest =>
    let here : List Key × Bool :=
      match ms with
      | .pkK p => if !pred p then ([p], false) else ([p], true)
      | .pkH p => if !pred p then ([p], false) else ([p], true)
      | .multi _ ks | .sortedMulti _ ks => allVisit pred ks
      | .multiA _ ks | .sortedMultiA _ ks => allVisit pred ks
      | _ => ([], true)
    if here.2 then
      let (v, r) := forEachKeyLoop pred rest
      (here.1 ++ v, r)
    else (here.1, false)

/-- `Miniscript::for_each_key` -/
def forEachKey (pred : Key → Bool) (ms : Ms) : List Key × Bool := forEachKeyLoop pred ms.preOrder

/-- `ForEachKey::for_any_key`: `!self.for_each_key(|key| !pred(key))` -/
def forAnyKey (pred : Key → Bool) (ms : Ms) : List Key × Bool :=
  let (v, r) := forEachKey (fun k => !pred k) ms
  (v, !r)

/-! ## `Miniscript::iter` / `iter_pk` (src/miniscript/iter.rs) -/

/-- `Miniscript::branches`: its own child table (separate from `get_nth_child`) -/
def Ms.branches : Ms → List Ms
  | .pkK _ | .pkH _ | .rawPkH _ | .multi _ _ | .sortedMulti _ _ | .multiA _ _ | .sortedMultiA _ _ => []
  | .alt node | .swap node | .check node | .dupIf node | .verify node | .nonZero node
  | .zeroNotEqual node => [node]
  | .andV node1 node2 | .andB node1 node2 | .orB node1 node2 | .orD node1 node2 | .orC node1 node2
  | .orI node1 node2 => [node1, node2]
  | .andOr node1 node2 node3 => [node1, node2, node3]
  | .thresh _ xs => xs.toList
  | _ => []

/-- `get_nth_child` -/
def Ms.getNthChild (ms : Ms) (n : Nat) : Option Ms :=
  match n, ms with
  | 0, .alt x | 0, .swap x | 0, .check x | 0, .dupIf x | 0, .verify x | 0, .nonZero x
  | 0, .zeroNotEqual x => some x
  | 0, .andV x _ | 0, .andB x _ | 0, .orB x _ | 0, .orD x _ | 0, .orC x _ | 0, .orI x _ => some x
  | 1, .andV _ x | 1, .andB _ x | 1, .orB _ x | 1, .orD _ x | 1, .orC _ x | 1, .orI _ x => some x
  | 0, .andOr x _ _ => some x
  | 1, .andOr _ x _ => some x
  | 2, .andOr _ _ x => some x
  | n, .thresh _ xs => xs.toList[n]?
  | _, _ => none

/-- `get_nth_pk` -/
def Ms.getNthPk (ms : Ms) (n : Nat) : Option Key :=
  match ms, n with
  | .pkK k, 0 | .pkH k, 0 => some k
  | .multi _ ks, n | .sortedMulti _ ks, n | .multiA _ ks, n | .sortedMultiA _ ks, n => ks[n]?
  | _, _ => none

/-- `struct Iter { next, path }` -/
structure IterState where
  next : Option Ms
  path : List (Ms × Nat)     -- head = top of the `Vec`

/-- the `while let Some((node, child)) = self.path.pop()` loop of `Iter::next` -/
def iterUnwind : List (Ms × Nat) → Option Ms × List (Ms × Nat)
  | [] => (none, [])
  | (node, child) :: path =>
    match node.getNthChild child with
    | some c => (some c, (node, child + 1) :: path)
    | none => iterUnwind path

/-- `Iter::next` -/
def iterNext (s : IterState) : Option (Ms × IterState) :=
  let (curr, path) :=
    match s.next with
    | some c => (some c, s.path)
    | none => iterUnwind s.path
  match curr with
  | some node => some (node, ⟨node.getNthChild 0, (node, 1) :: path⟩)
  | none => none

/-- `ms.iter().collect()` -/
def Ms.iterNodes (ms : Ms) : List Ms := iterCollect iterNext ms.nodes ⟨some ms, []⟩

/-- the keys `PkIter` yields while sitting on one node: `get_nth_pk(0)`, `get_nth_pk(1)`, …
until `None` (`fuel` bounds the index) -/
def pkIterNode (node : Ms) : Nat → Nat → List Key
  | 0, _ => []
  | fuel + 1, idx =>
    match node.getNthPk idx with
    | none => []
    | some pk => pk :: pkIterNode node fuel (idx + 1)

/-- `ms.iter_pk().collect()` -/
def Ms.iterPkLit (ms : Ms) : List Key :=
  ms.iterNodes.flatMap fun node => pkIterNode node (node.keysAt.length + 1) 0

end MsVerif

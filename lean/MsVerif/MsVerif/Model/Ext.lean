/-
Model of `src/miniscript/types/extra_props.rs` (`ExtData`, `SatData`, `TimelockInfo`),
`script_num_size` (src/lib.rs) and `Miniscript::script_size` (src/miniscript/mod.rs).
Follows the Rust arithmetic literally.
-/
import MsVerif.Model.Ast

namespace MsVerif

def scriptNumSize (n : Nat) : Nat :=
  if n ≤ 0x10 then 1 else if n < 0x80 then 2 else if n < 0x8000 then 3
  else if n < 0x800000 then 4 else if n < 0x80000000 then 5 else 6

structure TimelockInfo where
  csvWithHeight : Bool := false
  csvWithTime : Bool := false
  cltvWithHeight : Bool := false
  cltvWithTime : Bool := false
  containsCombination : Bool := false
  deriving DecidableEq, Repr, Inhabited

def TimelockInfo.combineThreshold (k : Nat) (ts : List TimelockInfo) : TimelockInfo :=
  ts.foldl (fun acc t =>
    let hat := (acc.csvWithHeight && t.csvWithTime) || (acc.csvWithTime && t.csvWithHeight)
      || (acc.cltvWithTime && t.cltvWithHeight) || (acc.cltvWithHeight && t.cltvWithTime)
    { csvWithHeight := acc.csvWithHeight || t.csvWithHeight
      csvWithTime := acc.csvWithTime || t.csvWithTime
      cltvWithHeight := acc.cltvWithHeight || t.cltvWithHeight
      cltvWithTime := acc.cltvWithTime || t.cltvWithTime
      containsCombination :=
        (acc.containsCombination || (decide (k > 1) && hat)) || t.containsCombination }) {}

def TimelockInfo.combineAnd (a b : TimelockInfo) := TimelockInfo.combineThreshold 2 [a, b]
def TimelockInfo.combineOr (a b : TimelockInfo) := TimelockInfo.combineThreshold 1 [a, b]

structure SatData where
  wSize : Nat     -- max_witness_stack_size
  wCount : Nat    -- max_witness_stack_count
  ssSize : Nat    -- max_script_sig_size
  execStack : Nat -- max_exec_stack_count
  execOps : Nat   -- max_exec_op_count
  deriving DecidableEq, Repr, Inhabited

def SatData.fmax (a b : SatData) : SatData :=
  ⟨max a.wSize b.wSize, max a.wCount b.wCount, max a.ssSize b.ssSize, max a.execStack b.execStack,
   max a.execOps b.execOps⟩

def SatData.fmaxOpt : Option SatData → Option SatData → Option SatData
  | none, none => none
  | some x, none => some x
  | none, some x => some x
  | some x, some y => some (x.fmax y)

def zipMap (f : SatData → SatData → SatData) : Option SatData → Option SatData → Option SatData
  | some l, some r => some (f l r)
  | _, _ => none

/-- `and_b` / `or_b` style concatenation: left result stays on the stack while right runs -/
def catB (l r : SatData) : SatData :=
  ⟨l.wSize + r.wSize, l.wCount + r.wCount, l.ssSize + r.ssSize, max l.execStack (1 + r.execStack),
   l.execOps + r.execOps⟩
/-- `and_v` / `or_d` / `or_c` / `andor` style concatenation -/
def catV (l r : SatData) : SatData :=
  ⟨l.wSize + r.wSize, l.wCount + r.wCount, l.ssSize + r.ssSize, max l.execStack r.execStack,
   l.execOps + r.execOps⟩

structure ExtData where
  pkCost : Nat
  hasFreeVerify : Bool
  staticOps : Nat
  satData : Option SatData
  dissatData : Option SatData
  timelockInfo : TimelockInfo
  treeHeight : Nat
  deriving DecidableEq, Repr, Inhabited

namespace ExtData

def FALSE : ExtData := ⟨1, false, 0, none, some ⟨0, 0, 0, 1, 0⟩, {}, 0⟩
def TRUE : ExtData := ⟨1, false, 0, some ⟨0, 0, 0, 1, 0⟩, none, {}, 0⟩

/-- (key_bytes, max_sig_bytes) of `pk_k` / `pk_h` -/
def keySig (ctx : Ctx) (uncompressed : Bool) : Nat × Nat :=
  match ctx.sigType with
  | .ecdsa => if uncompressed then (66, 73) else (34, 73)
  | .schnorr => (33, 66)

def pkK (ctx : Ctx) (unc : Bool) : ExtData :=
  let (kb, sb) := keySig ctx unc
  ⟨kb, false, 0, some ⟨sb, 1, sb, 1, 0⟩, some ⟨1, 1, 1, 1, 0⟩, {}, 0⟩

def pkH (ctx : Ctx) (unc : Bool) : ExtData :=
  let (kb, sb) := keySig ctx unc
  ⟨24, false, 3, some ⟨kb + sb, 2, kb + sb, 2, 0⟩, some ⟨kb + 1, 2, kb + 1, 2, 0⟩, {}, 0⟩

def numCost (k n : Nat) : Nat :=
  match decide (k > 16), decide (n > 16) with
  | true, true => 4 | false, true => 3 | true, false => 3 | false, false => 2

/-- `uncs`: per key, whether it is uncompressed -/
def multi (k : Nat) (uncs : List Bool) : ExtData :=
  let n := uncs.length
  ⟨numCost k n + (uncs.map (fun u => if u then 66 else 34)).sum + 1, true, 1,
   some ⟨1 + 73 * k, k + 1, 1 + 73 * k, n, n⟩, some ⟨1 + k, k + 1, 1 + k, n, n⟩, {}, 0⟩

def multiA (k n : Nat) : ExtData :=
  ⟨numCost k n + 33 * n + (n - 1) + 1, true, 0,
   some ⟨(n - k) + 66 * k, n, 0, 2, 0⟩, some ⟨n, n, 0, 2, 0⟩, {}, 0⟩

def hash32 : ExtData := ⟨33 + 6, true, 4, some ⟨33, 1, 33, 2, 0⟩, some ⟨33, 2, 33, 2, 0⟩, {}, 0⟩
def hash20 : ExtData := ⟨21 + 6, true, 4, some ⟨33, 1, 33, 2, 0⟩, some ⟨33, 2, 33, 2, 0⟩, {}, 0⟩

def after (n : Nat) : ExtData :=
  ⟨scriptNumSize n + 1, false, 1, some ⟨0, 0, 0, 1, 0⟩, none,
   { cltvWithHeight := decide (n < 500000000), cltvWithTime := decide (n ≥ 500000000) }, 0⟩

/-- `RelLockTime::is_height_locked` = bit 22 clear; `is_time_locked` = bit 22 set -/
def older (n : Nat) : ExtData :=
  let time := (n / 4194304) % 2 == 1
  ⟨scriptNumSize n + 1, false, 1, some ⟨0, 0, 0, 1, 0⟩, none,
   { csvWithHeight := !time, csvWithTime := time }, 0⟩

def castAlt (s : ExtData) : ExtData :=
  ⟨s.pkCost + 2, false, 2 + s.staticOps, s.satData, s.dissatData, s.timelockInfo, s.treeHeight + 1⟩
def castSwap (s : ExtData) : ExtData :=
  ⟨s.pkCost + 1, s.hasFreeVerify, 1 + s.staticOps, s.satData, s.dissatData, s.timelockInfo,
   s.treeHeight + 1⟩
def castCheck (s : ExtData) : ExtData :=
  ⟨s.pkCost + 1, true, 1 + s.staticOps, s.satData, s.dissatData, s.timelockInfo, s.treeHeight + 1⟩
def castDupIf (s : ExtData) : ExtData :=
  ⟨s.pkCost + 3, false, 3 + s.staticOps,
   s.satData.map (fun d => ⟨d.wSize + 2, d.wCount + 1, d.ssSize + 1, max 1 d.execStack, d.execOps⟩),
   some ⟨1, 1, 1, 1, 0⟩, s.timelockInfo, s.treeHeight + 1⟩
def castVerify (s : ExtData) : ExtData :=
  let vc := if s.hasFreeVerify then 0 else 1
  ⟨s.pkCost + vc, false, vc + s.staticOps, s.satData, none, s.timelockInfo, s.treeHeight + 1⟩
def castNonZero (s : ExtData) : ExtData :=
  ⟨s.pkCost + 4, false, 4 + s.staticOps, s.satData, some ⟨1, 1, 1, 1, 0⟩, s.timelockInfo,
   s.treeHeight + 1⟩
def castZeroNotEqual (s : ExtData) : ExtData :=
  ⟨s.pkCost + 1, false, 1 + s.staticOps, s.satData, s.dissatData, s.timelockInfo, s.treeHeight + 1⟩

def andB (l r : ExtData) : ExtData :=
  ⟨l.pkCost + r.pkCost + 1, false, 1 + l.staticOps + r.staticOps,
   zipMap catB l.satData r.satData, zipMap catB l.dissatData r.dissatData,
   TimelockInfo.combineAnd l.timelockInfo r.timelockInfo, 1 + max l.treeHeight r.treeHeight⟩
def andV (l r : ExtData) : ExtData :=
  ⟨l.pkCost + r.pkCost, r.hasFreeVerify, l.staticOps + r.staticOps,
   zipMap catV l.satData r.satData, none,
   TimelockInfo.combineAnd l.timelockInfo r.timelockInfo, 1 + max l.treeHeight r.treeHeight⟩
def orB (l r : ExtData) : ExtData :=
  ⟨l.pkCost + r.pkCost + 1, false, 1 + l.staticOps + r.staticOps,
   SatData.fmaxOpt (zipMap catB l.satData r.dissatData) (zipMap catB l.dissatData r.satData),
   zipMap catB l.dissatData r.dissatData,
   TimelockInfo.combineOr l.timelockInfo r.timelockInfo, 1 + max l.treeHeight r.treeHeight⟩
def orD (l r : ExtData) : ExtData :=
  ⟨l.pkCost + r.pkCost + 3, false, 3 + l.staticOps + r.staticOps,
   SatData.fmaxOpt l.satData (zipMap catV l.dissatData r.satData),
   zipMap catV l.dissatData r.dissatData,
   TimelockInfo.combineOr l.timelockInfo r.timelockInfo, 1 + max l.treeHeight r.treeHeight⟩
def orC (l r : ExtData) : ExtData :=
  ⟨l.pkCost + r.pkCost + 2, false, 2 + l.staticOps + r.staticOps,
   SatData.fmaxOpt l.satData (zipMap catV l.dissatData r.satData), none,
   TimelockInfo.combineOr l.timelockInfo r.timelockInfo, 1 + max l.treeHeight r.treeHeight⟩

def with0 (d : SatData) : SatData := ⟨1 + d.wSize, 1 + d.wCount, 1 + d.ssSize, d.execStack, d.execOps⟩
def with1 (d : SatData) : SatData := ⟨2 + d.wSize, 1 + d.wCount, 1 + d.ssSize, d.execStack, d.execOps⟩

def orI (l r : ExtData) : ExtData :=
  ⟨l.pkCost + r.pkCost + 3, false, 3 + l.staticOps + r.staticOps,
   SatData.fmaxOpt (l.satData.map with1) (r.satData.map with0),
   SatData.fmaxOpt (l.dissatData.map with1) (r.dissatData.map with0),
   TimelockInfo.combineOr l.timelockInfo r.timelockInfo, 1 + max l.treeHeight r.treeHeight⟩

def andOr (a b c : ExtData) : ExtData :=
  ⟨a.pkCost + b.pkCost + c.pkCost + 3, false, 3 + a.staticOps + b.staticOps + c.staticOps,
   SatData.fmaxOpt (zipMap catV a.satData b.satData) (zipMap catV a.dissatData c.satData),
   zipMap catV a.dissatData c.dissatData,
   TimelockInfo.combineOr (TimelockInfo.combineAnd a.timelockInfo b.timelockInfo) c.timelockInfo,
   1 + max a.treeHeight (max b.treeHeight c.treeHeight)⟩

/-! #### `threshold` -/

/-- `Option<isize>` ordering used as the sort key: `None < Some _` -/
def keyLe : Option Int → Option Int → Bool
  | none, _ => true
  | some _, none => false
  | some a, some b => a ≤ b

abbrev SD := Option SatData × Option SatData

def sortKey (proj : SatData → Nat) (p : SD) : Option Int :=
  match p.1, p.2 with
  | some s, some d => some (Int.ofNat (proj s) - Int.ofNat (proj d))
  | _, _ => none

/-- stable insertion (`sort_by_key` is stable): insert `x` after all elements with key ≤ key x -/
def insertSD (proj : SatData → Nat) (x : SD) : List SD → List SD
  | [] => [x]
  | y :: ys => if keyLe (sortKey proj y) (sortKey proj x) then y :: insertSD proj x ys
               else x :: y :: ys

def sortSD (proj : SatData → Nat) (v : List SD) : List SD :=
  v.foldl (fun acc x => insertSD proj x acc) []

/-- the `try_fold` over the reversed, enumerated vector -/
def threshFold (k : Nat) (proj : SatData → Nat) (cmb : Nat → Nat → Nat) :
    Nat → Nat → List SD → Option Nat
  | _, acc, [] => some acc
  | i, acc, (sat, dissat) :: rest =>
    if i < k then
      match sat with
      | some x => threshFold k proj cmb (i + 1) (cmb acc (proj x)) rest
      | none => none
    else
      match dissat with
      | some y => threshFold k proj cmb (i + 1) (cmb acc (proj y)) rest
      | none => none

def execCmb (acc x : Nat) : Nat := max acc (x + (if acc > 0 then 1 else 0))

def threshold (k : Nat) (subs : List ExtData) : ExtData :=
  let n := subs.length
  let pkCost := 1 + scriptNumSize k + (subs.map (·.pkCost)).sum
  let staticOps := (subs.map (·.staticOps)).sum
  let dissat := subs.foldl (fun (acc : Option SatData) sub =>
    zipMap (fun a s => ⟨a.wSize + s.wSize, a.wCount + s.wCount, a.ssSize + s.ssSize,
      max a.execStack s.execStack, a.execOps + s.execOps⟩) acc sub.dissatData) (some ⟨0, 0, 0, 0, 0⟩)
  let v0 : List SD := subs.map (fun s => (s.satData, s.dissatData))
  -- the vector is re-sorted in place for each field, in this order
  let v1 := sortSD (·.wCount) v0
  let fCount := threshFold k (·.wCount) (· + ·) 0 0 v1.reverse
  let v2 := sortSD (·.wSize) v1
  let fSize := threshFold k (·.wSize) (· + ·) 0 0 v2.reverse
  let v3 := sortSD (·.ssSize) v2
  let fSS := threshFold k (·.ssSize) (· + ·) 0 0 v3.reverse
  let v4 := sortSD (·.execStack) v3
  let fStack := threshFold k (·.execStack) execCmb 0 0 v4.reverse
  let v5 := sortSD (·.execOps) v4
  let fOps := threshFold k (·.execOps) (· + ·) 0 0 v5.reverse
  let sat := match fCount, fSize, fSS, fStack, fOps with
    | some c, some s, some ss, some st, some o => some (⟨s, c, ss, st, o⟩ : SatData)
    | _, _, _, _, _ => none
  ⟨pkCost + n - 1, true, staticOps + 1 + (n - 1), sat, dissat,
   TimelockInfo.combineThreshold k (subs.map (·.timelockInfo)),
   (subs.foldl (fun m s => max m s.treeHeight) 0) + 1⟩

def satOpCount (e : ExtData) : Option Nat := e.satData.map (fun d => e.staticOps + d.execOps)

end ExtData

/-- does the key serialise to 65 bytes (`is_uncompressed`) -/
def isUnc (env : KeyEnv) (k : Key) : Bool := (env.ser k).length == 65

mutual
/-- `ExtData::type_check` applied bottom-up (the `ext` field of every node) -/
def extOf (env : KeyEnv) (ctx : Ctx) : Ms → ExtData
  | .tru => ExtData.TRUE
  | .fls => ExtData.FALSE
  | .pkK k => ExtData.pkK ctx (isUnc env k)
  | .pkH k => ExtData.pkH ctx (isUnc env k)
  -- `pk_h(None)`: the largest key the context's consensus rules allow (uncompressed in Bare/Legacy)
  | .rawPkH _ => ExtData.pkH ctx (ctx == .bare || ctx == .legacy)
  | .multi k ks | .sortedMulti k ks => ExtData.multi k (ks.map (isUnc env))
  | .multiA k ks | .sortedMultiA k ks => ExtData.multiA k ks.length
  | .after n => ExtData.after n
  | .older n => ExtData.older n
  | .hash .sha256 _ | .hash .hash256 _ => ExtData.hash32
  | .hash .ripemd160 _ | .hash .hash160 _ => ExtData.hash20
  | .alt x => (extOf env ctx x).castAlt
  | .swap x => (extOf env ctx x).castSwap
  | .check x => (extOf env ctx x).castCheck
  | .dupIf x => (extOf env ctx x).castDupIf
  | .verify x => (extOf env ctx x).castVerify
  | .nonZero x => (extOf env ctx x).castNonZero
  | .zeroNotEqual x => (extOf env ctx x).castZeroNotEqual
  | .andB l r => ExtData.andB (extOf env ctx l) (extOf env ctx r)
  | .andV l r => ExtData.andV (extOf env ctx l) (extOf env ctx r)
  | .orB l r => ExtData.orB (extOf env ctx l) (extOf env ctx r)
  | .orD l r => ExtData.orD (extOf env ctx l) (extOf env ctx r)
  | .orC l r => ExtData.orC (extOf env ctx l) (extOf env ctx r)
  | .orI l r => ExtData.orI (extOf env ctx l) (extOf env ctx r)
  | .andOr a b c => ExtData.andOr (extOf env ctx a) (extOf env ctx b) (extOf env ctx c)
  | .thresh k xs => ExtData.threshold k (extsOf env ctx xs)
def extsOf (env : KeyEnv) (ctx : Ctx) : MsList → List ExtData
  | .nil => []
  | .cons x xs => extOf env ctx x :: extsOf env ctx xs
end

mutual
/-- `Miniscript::script_size` -/
def scriptSize (env : KeyEnv) (ctx : Ctx) : Ms → Nat
  | .andV l r => scriptSize env ctx l + scriptSize env ctx r
  | .tru | .fls => 1
  | .swap x | .check x | .zeroNotEqual x => 1 + scriptSize env ctx x
  | .andB l r | .orB l r => 1 + scriptSize env ctx l + scriptSize env ctx r
  | .alt x => 2 + scriptSize env ctx x
  | .orC l r => 2 + scriptSize env ctx l + scriptSize env ctx r
  | .dupIf x => 3 + scriptSize env ctx x
  | .andOr a b c => 3 + scriptSize env ctx a + scriptSize env ctx b + scriptSize env ctx c
  | .orD l r | .orI l r => 3 + scriptSize env ctx l + scriptSize env ctx r
  | .nonZero x => 4 + scriptSize env ctx x
  | .pkH _ | .rawPkH _ => 24
  | .hash .ripemd160 _ | .hash .hash160 _ => 21 + 6
  | .hash .sha256 _ | .hash .hash256 _ => 33 + 6
  | .pkK k => pkLen env ctx k
  | .after n | .older n => scriptNumSize n + 1
  | .verify x => (if (extOf env ctx x).hasFreeVerify then 0 else 1) + scriptSize env ctx x
  | .thresh k xs => scriptNumSize k + 1 + xs.length - 1 + scriptSizes env ctx xs
  | .multi k ks | .sortedMulti k ks =>
    scriptNumSize k + 1 + scriptNumSize ks.length + (ks.map (pkLen env ctx)).sum
  | .multiA k ks | .sortedMultiA k ks =>
    scriptNumSize k + 1 + (ks.map (pkLen env ctx)).sum + ks.length
def scriptSizes (env : KeyEnv) (ctx : Ctx) : MsList → Nat
  | .nil => 0
  | .cons x xs => scriptSize env ctx x + scriptSizes env ctx xs
end

end MsVerif

/-
Model of the GLUE in `src/plan.rs` and of the per-descriptor-type assembly in
`src/descriptor/{bare,sh,segwitv0,tr/mod}.rs`:

* `Descriptor::into_plan{,_mall}`  — template `Satisfaction<Placeholder>` ↦ `Plan` (`intoPlan`)
* `Plan::satisfy`                   — completed stack ↦ (witness, scriptSig)       (`planSatisfy`)
* `Descriptor::get_satisfaction*`   — the same completed stack through
  `Miniscript::satisfy` + `util::witness_to_scriptsig` / the wrappers              (`getSatisfaction`)
* `Plan::{witness_size, scriptsig_size, satisfaction_weight}` and `ItemSize for Placeholder`
* `plan::is_key_direct_child_of`, `Assets::has_ecdsa_key` (total since the
  `definite_path_len > 0 &&` guard, commit "fix: is_key_direct_child_of does not underflow …")

The miniscript satisfier itself is `Model/Satisfy.lean`; both the plan path and the
descriptor path run the SAME `sat_dissat`, so everything here is parametric in the template
`Sat` it returned.  rust-bitcoin's `script::Builder::{push_slice, push_int}` and
`script::read_scriptint` are modelled (third-party code, compared on every run by `C planglue`).
-/
import MsVerif.Model.Satisfy
import MsVerif.Spec.Script

namespace MsVerif.Plan
open MsVerif Script

/-- `DescriptorType` (the variants `Descriptor::desc_type` distinguishes for spending;
`WshSortedMulti`/`ShSortedMulti`/`ShWshSortedMulti` behave as `Wsh`/`Sh`/`ShWsh`) -/
inductive DescType | bare | pkh | sh | wpkh | shWpkh | wsh | shWsh | tr
  deriving DecidableEq, Repr, Inhabited

/-- `DescriptorType::segwit_version` -/
def DescType.segwitVersion : DescType → Option Nat
  | .bare | .pkh | .sh => none
  | .tr => some 1
  | _ => some 0

/-! ### rust-bitcoin script builder pieces -/

/-- `Builder::push_slice`: the push opcode is chosen by LENGTH only (`[1]` ↦ `01 01`) -/
def pushSlice (b : Bytes) : Bytes := pushPrefix b.length ++ b

/-- `script::read_scriptint`: `none` = `Err` (longer than 4 bytes or not minimally encoded) -/
def readScriptInt (b : Bytes) : Option Int := numDecode true 4 b

/-- `Builder::push_int` -/
def pushInt (n : Int) : Bytes :=
  if n = -1 then [0x4f]
  else if 1 ≤ n ∧ n ≤ 16 then [UInt8.ofNat (0x50 + n.toNat)]
  else if n = 0 then [0x00]
  else pushSlice (numEncode n)

/-- one iteration of `util::witness_to_scriptsig` (its length `assert!`s are not modelled) -/
def w2ssItem (x : Bytes) : Bytes :=
  match readScriptInt x with
  | some n => pushInt n
  | none => pushSlice x

/-- `util::witness_to_scriptsig` -/
def witnessToScriptSig (w : List Bytes) : Bytes := w.flatMap w2ssItem

/-! ### per-type assembly -/

structure DescData where
  ty : DescType
  /-- `explicit_script()`: bare — the scriptPubKey; sh — the redeem script; wsh / sh-wsh —
  the witness script (unused for pkh / wpkh / tr) -/
  script : Bytes
  /-- the witness program script (`OP_0 <20|32 bytes>`) that `sh(wpkh)` / `sh(wsh)` push -/
  inner : Bytes
  deriving Repr

/-- `Descriptor::unsigned_script_sig` -/
def DescData.unsignedScriptSig (d : DescData) : Bytes :=
  match d.ty with
  | .shWpkh | .shWsh => pushSlice d.inner
  | _ => []

/-- `Plan::satisfy` after the template has been completed to `stack` (since commit "fix:
Plan::satisfy for sh(<miniscript>) pushes the redeem script": pre-segwit outputs go through
`witness_to_scriptsig`, `sh(<miniscript>)` appends the redeem script first) -/
def planSatisfy (d : DescData) (stack : List Bytes) : List Bytes × Bytes :=
  match d.ty with
  | .bare | .pkh => ([], witnessToScriptSig stack)
  | .sh => ([], witnessToScriptSig (stack ++ [d.script]))
  | .wpkh | .tr => (stack, [])
  | .shWpkh => (stack, d.unsignedScriptSig)
  | .wsh | .shWsh => (stack ++ [d.script], d.unsignedScriptSig)

/-- `Descriptor::get_satisfaction{,_mall}` after `Miniscript::satisfy*` (resp. the key
lookup of pkh / wpkh, resp. `best_tap_spend(..).try_completing`) produced `stack` -/
def getSatisfaction (d : DescData) (stack : List Bytes) : List Bytes × Bytes :=
  match d.ty with
  | .bare => ([], witnessToScriptSig stack)
  | .pkh => ([], stack.flatMap pushSlice)                 -- `push_slice(sig).push_key(pk)`
  | .sh => ([], witnessToScriptSig (stack ++ [d.script]))
  | .wpkh | .tr => (stack, [])
  | .shWpkh => (stack, d.unsignedScriptSig)
  | .wsh => (stack ++ [d.script], [])
  | .shWsh => (stack ++ [d.script], d.unsignedScriptSig)

/-! ### plan construction and completion -/

/-- `Plan` (descriptor left out: it is the `DescData` passed alongside) -/
structure PlanM where
  template : List Ph
  abs : Option Nat
  rel : Option Nat
  deriving DecidableEq, Repr

/-- `Descriptor::into_plan{,_mall}` on the template returned by `plan_satisfaction*` -/
def intoPlan (t : Sat) : Option PlanM :=
  match t.stack with
  | .stack l => some ⟨l, t.abs, t.rel⟩
  | _ => none

/-- result of a library call that can fail or panic -/
inductive Outcome (α : Type)
  | ok (a : α)
  | err
  | panic
  deriving DecidableEq, Repr

/-- `Placeholder::satisfy_all` (shared by `Satisfaction::try_completing` and `Plan::satisfy`
since commit "fix: Plan::satisfy completes a tapscript raw pkh the way get_satisfaction
does"): `satisfy_self` for every placeholder and, for a `PubkeyHash` that directly follows the
`SchnorrSigPkHash` of the same hash, the key that `lookup_raw_pkh_tap_leaf_script_sig` returns
(`fb`) as a fallback.  `prev` = the placeholder before the current one. -/
def tryCompleting (r : Ph → Option Bytes) (fb : Nat → Option Bytes) :
    Option Ph → List Ph → Option (List Bytes)
  | _, [] => some []
  | prev, p :: ps =>
    let item : Option Bytes :=
      match r p with
      | some b => some b
      | none =>
        match p, prev with
        | .pubkeyHash h _, some (.schnorrSigPkh h' _) => if h = h' then fb h else none
        | _, _ => none
    match item, tryCompleting r fb (some p) ps with
    | some b, some bs => some (b :: bs)
    | _, _ => none

/-- `Plan::satisfy` -/
def PlanM.satisfy (d : DescData) (r : Ph → Option Bytes) (fb : Nat → Option Bytes) (p : PlanM) :
    Option (List Bytes × Bytes) :=
  (tryCompleting r fb none p.template).map (planSatisfy d)

/-- `Miniscript::satisfy*` / `Tr::get_satisfaction*`: `try_completing(..).expect(..)` on the
template, then `Stack → Ok`, otherwise `Err(CouldNotSatisfy)` -/
def msSatisfy (r : Ph → Option Bytes) (fb : Nat → Option Bytes) (t : Sat) : Outcome (List Bytes) :=
  match t.stack with
  | .stack l => match tryCompleting r fb none l with
    | some bs => .ok bs
    | none => .panic
  | _ => .err

/-- `Descriptor::get_satisfaction{,_mall}` for the miniscript-based types and `tr` -/
def descGetSatisfaction (d : DescData) (r : Ph → Option Bytes) (fb : Nat → Option Bytes) (t : Sat) :
    Outcome (List Bytes × Bytes) :=
  match msSatisfy r fb t with
  | .ok bs => .ok (getSatisfaction d bs)
  | .err => .err
  | .panic => .panic

/-! ### a satisfier and its provider view -/

/-- what a `Satisfier` answers (bytes) -/
structure Stfr where
  ecdsaSig : Key → Option Bytes
  /-- `lookup_tap_leaf_script_sig` for the leaf being satisfied -/
  schnorrSig : Key → Option Bytes
  /-- `Pubkey(pk, size)`: x-only serialisation if `size = 33`, else the full key -/
  keyBytes : Key → Nat → Bytes
  /-- `lookup_raw_pkh_pk`: key atom and its bytes -/
  rawPk : Nat → Option (Key × Bytes)
  /-- `lookup_raw_pkh_x_only_pk` -/
  rawXonly : Nat → Option (Key × Bytes)
  /-- `lookup_raw_pkh_ecdsa_sig`: key atom, key bytes, signature -/
  rawEcdsa : Nat → Option (Key × Bytes × Bytes)
  /-- `lookup_raw_pkh_tap_leaf_script_sig`: key atom, key bytes, signature -/
  rawSchnorr : Nat → Option (Key × Bytes × Bytes)
  preimage : HashKind → Nat → Option Bytes
  checkOlder : Nat → Bool
  checkAfter : Nat → Bool

/-- `impl AssetProvider for Satisfier` as `sat_dissat` consults it in context `ctx` (tapscript
reads the x-only / tap-leaf lookups, the other contexts the full-key / ECDSA ones) -/
def Stfr.assets (s : Stfr) (ctx : Ctx) : Assets where
  ecdsaSig k := (s.ecdsaSig k).isSome
  schnorrSig k := (s.schnorrSig k).map List.length
  rawPkhPk h := if ctx = .tap then (s.rawXonly h).map (·.1) else (s.rawPk h).map (·.1)
  rawPkhEcdsa h := if ctx = .tap then none else (s.rawEcdsa h).map (·.1)
  rawPkhSchnorr h := if ctx = .tap then (s.rawSchnorr h).map (fun p => (p.1, p.2.2.length)) else none
  preimage kind h := (s.preimage kind h).isSome
  checkOlder := s.checkOlder
  checkAfter := s.checkAfter

/-- `Placeholder::satisfy_self` -/
def Stfr.realise (s : Stfr) : Ph → Option Bytes
  | .pubkey k sz => some (s.keyBytes k sz)
  | .pubkeyHash h sz =>
    if sz = 33 then (s.rawXonly h).map (·.2)
    else match s.rawPk h with
      | some p => some p.2
      | none => (s.rawEcdsa h).map (·.2.1)
  | .ecdsaSig k => s.ecdsaSig k
  | .ecdsaSigPkh h => (s.rawEcdsa h).map (·.2.2)
  | .schnorrSig k _ => s.schnorrSig k
  | .schnorrSigPkh h _ => (s.rawSchnorr h).map (·.2.2)
  | .preimage kind h => s.preimage kind h
  | .hashDissat => some (List.replicate 32 0)
  | .pushOne => some [1]
  | .pushZero => some []

/-- the key `try_completing` falls back to for a tapscript raw pkh -/
def Stfr.fallback (s : Stfr) (h : Nat) : Option Bytes := (s.rawSchnorr h).map (·.2.1)

/-- `Pkh/Wpkh::plan_satisfaction`: `[EcdsaSigPk, Pubkey]` if the provider has the key -/
def keyTemplate (k : Key) (pkLen : Nat) (avail : Bool) : Sat :=
  ⟨if avail then .stack [.ecdsaSig k, .pubkey k pkLen] else .unavailable, true, none, none⟩

/-- `Pkh/Wpkh::get_satisfaction` (and through `Sh` for sh-wpkh): direct signature lookup -/
def keyGetSatisfaction (d : DescData) (sig : Option Bytes) (pk : Bytes) : Outcome (List Bytes × Bytes) :=
  match sig with
  | some s => .ok (getSatisfaction d [s, pk])
  | none => .err

/-! ### sizes -/

/-- an item of a plan's template: a miniscript placeholder or a taproot trailer element -/
inductive Item
  | ph (p : Ph)
  | tapScript (len : Nat)
  | tapControl (len : Nat)
  deriving DecidableEq, Repr

/-- `ItemSize for Placeholder` -/
def Item.size : Item → Nat
  | .ph p => p.size
  | .tapScript n => n + varintLen n
  | .tapControl n => n + varintLen n

/-- what `Placeholder::satisfy_self` puts in the place of an item, by length: keys (32 / 33 / 65
bytes, announced with their length byte) and hashes exactly, an ECDSA signature (DER + sighash byte) 9..72 bytes, a Schnorr signature of exactly
the announced 64 / 65 bytes, `[1]`, `[]`, the leaf script and the control block exactly -/
def Item.fits (it : Item) (len : Nat) : Bool :=
  match it with
  | .ph (.pubkey _ s) | .ph (.pubkeyHash _ s) => len + 1 == s && 32 ≤ len && len < 0x4c
  | .ph (.ecdsaSig _) | .ph (.ecdsaSigPkh _) => 9 ≤ len && len + 1 ≤ 73
  | .ph (.schnorrSig _ s) | .ph (.schnorrSigPkh _ s) => len == s && (s == 64 || s == 65)
  | .ph (.preimage _ _) | .ph .hashDissat => len == 32
  | .ph .pushOne => len == 1
  | .ph .pushZero => len == 0
  | .tapScript n | .tapControl n => len == n

/-- `util::witness_size(template)` -/
def templateSize (t : List Item) : Nat := (t.map Item.size).sum + varintLen t.length

/-- bytes a `push_slice` of `n` bytes occupies -/
def pushLen (n : Nat) : Nat := n + (if n < 0x4c then 1 else if n < 0x100 then 2 else 3)

/-- `Plan::scriptsig_size`; `scriptLen` = length of `explicit_script()` (read for `sh` only).
Pre-segwit: Σ item sizes (+ the redeem-script push for `sh`) + compact-size of that byte count -/
def scriptsigSize (ty : DescType) (t : List Item) (scriptLen : Nat) : Nat :=
  match ty.segwitVersion, ty with
  | none, _ =>
    let items := (t.map Item.size).sum + (if ty = .sh then pushLen scriptLen else 0)
    items + varintLen items
  | some 1, _ => 1
  | _, .shWpkh => 1 + 1 + 1 + 20
  | _, .shWsh => 1 + 1 + 1 + 32
  | _, _ => 1

/-- `Plan::witness_size` -/
def witnessSize (ty : DescType) (t : List Item) : Nat :=
  if ty.segwitVersion.isSome then templateSize t else 0

/-- `Plan::satisfaction_weight` -/
def satisfactionWeight (ty : DescType) (t : List Item) (scriptLen : Nat) : Nat :=
  witnessSize ty t + scriptsigSize ty t scriptLen * 4

/-- serialized size of a scriptSig (compact-size prefix + bytes) -/
def serializedScriptSigSize (ss : Bytes) : Nat := varintLen ss.length + ss.length

/-- serialized size of a witness (BIP144; 0 if there is none) -/
def serializedWitnessSize (w : List Bytes) : Nat :=
  if w.isEmpty then 0 else varintLen w.length + (w.map fun e => varintLen e.length + e.length).sum

/-! ### `Assets` key matching -/

/-- `plan::is_key_direct_child_of` for a single-path key; child numbers as `u32`:
the paths are equal, or the key's path is non-empty and the source is the key's path minus its
last child number -/
def isKeyDirectChildOf (pkPath src : List Nat) : Bool :=
  if pkPath = src then true
  else decide (pkPath.length > 0) && src == pkPath.take (pkPath.length - 1)

/-- a key source of `Assets::keys` restricted to what ECDSA lookups read -/
structure KeySrc where
  fp : Nat
  path : List Nat
  ecdsa : Bool

/-- `Assets::has_ecdsa_key`:
`keys.iter().any(|..| can_sign.ecdsa && fp == .. && is_key_direct_child_of(..))` -/
def hasEcdsaKey (keyFp : Nat) (keyPath : List Nat) (srcs : List KeySrc) : Bool :=
  srcs.any fun s => s.ecdsa && s.fp == keyFp && isKeyDirectChildOf keyPath s.path

end MsVerif.Plan

/-
Model of lifting (src/policy/mod.rs): `Miniscript::lift_check`, `Liftable for Miniscript`
(the explicit-stack loop over `rtl_post_order_iter`, then `.normalized()`), `Liftable for
Descriptor` and its cases (src/descriptor/{bare,segwitv0,sh}.rs, src/descriptor/tr/mod.rs,
src/descriptor/tr/taptree.rs), and of what `lift_check` calls: `within_resource_limits` =
`Ctx::check_local_validity(ms).is_ok()` (src/miniscript/context.rs, the four script contexts)
and `has_mixed_timelocks` (src/miniscript/analyzable.rs).

Same case order, same pop order, same error split as the Rust.  `unwrap()` on an empty stack is
the explicit outcome `panic` (C07.lift_never_panics shows it is unreachable).
-/
import MsVerif.Model.Ext
import MsVerif.Model.Semantic
import MsVerif.Spec.MsSem

namespace MsVerif.Lift
open MsVerif MsVerif.Pol MsVerif.MsSem

/-- `LiftError` (+ the panic outcome of an `unwrap`) -/
inductive LiftErr
  | heightTimelockCombination
  | branchExceedResourceLimits
  | rawDescriptorLift
  | panic
  deriving DecidableEq, Repr, Inhabited

/-! ## `lift_check` -/

def MAX_OPS_PER_SCRIPT : Nat := 201
def MAX_STANDARD_P2WSH_STACK_ITEMS : Nat := 100
def MAX_SCRIPT_SIZE : Nat := 10000
def MAX_STANDARD_P2WSH_SCRIPT_SIZE : Nat := 3600
def MAX_SCRIPT_ELEMENT_SIZE : Nat := 520
def MAX_SCRIPTSIG_SIZE : Nat := 1650
def MAX_STACK_SIZE : Nat := 1000
def MAX_BLOCK_WEIGHT : Nat := 4000000

/-- `is_x_only_key`: the key serialises to 32 bytes -/
def isXOnly (env : KeyEnv) (k : Key) : Bool := (env.ser k).length == 32

/-- `Ctx::check_pk(pk).is_ok()` -/
def checkPk (env : KeyEnv) (ctx : Ctx) (k : Key) : Bool :=
  match ctx with
  | .legacy | .bare => !isXOnly env k
  | .segwitv0 => !isUnc env k && !isXOnly env k
  | .tap => !isUnc env k

/-- step 1 of `check_global_consensus_validity`: the match on the TOP node only -/
def nodeChecked (env : KeyEnv) (ctx : Ctx) : Ms → Bool
  | .pkK k => checkPk env ctx k
  | .multi _ ks | .sortedMulti _ ks =>
    match ctx with
    | .tap => false                          -- TaprootMultiDisabled
    | _ => ks.all (checkPk env ctx)
  | .multiA _ ks | .sortedMultiA _ ks =>
    match ctx with
    | .tap => ks.all (checkPk env ctx)
    | _ => false                             -- MultiANotAllowed
  | _ => true

/-- `Ctx::check_global_consensus_validity(ms).is_ok()` -/
def globalConsensusOk (env : KeyEnv) (ctx : Ctx) (ms : Ms) : Bool :=
  nodeChecked env ctx ms &&
    (let pkCost := (extOf env ctx ms).pkCost
     match ctx with
     | .legacy => !(pkCost > MAX_SCRIPT_ELEMENT_SIZE)
     | .segwitv0 => !(pkCost > MAX_SCRIPT_SIZE)
     | .tap => !(pkCost > MAX_BLOCK_WEIGHT)
     | .bare => !(pkCost > MAX_SCRIPT_SIZE))

/-- `Ctx::check_global_policy_validity(ms).is_ok()` (only Segwitv0 overrides the default) -/
def globalPolicyOk (env : KeyEnv) (ctx : Ctx) (ms : Ms) : Bool :=
  match ctx with
  | .segwitv0 => !((extOf env ctx ms).pkCost > MAX_STANDARD_P2WSH_SCRIPT_SIZE)
  | _ => true

/-- the `match ms.ext.sat_op_count()` of Legacy / Segwitv0 / BareCtx -/
def opCountOk (e : ExtData) : Bool :=
  match e.satOpCount with
  | none => false                            -- ImpossibleSatisfaction
  | some n => !(n > MAX_OPS_PER_SCRIPT)

/-- `Ctx::check_local_consensus_validity(ms).is_ok()` -/
def localConsensusOk (env : KeyEnv) (ctx : Ctx) (ms : Ms) : Bool :=
  let e := extOf env ctx ms
  match ctx with
  | .legacy | .segwitv0 | .bare => opCountOk e
  | .tap =>
    match e.satData with
    | some d => !(d.wCount + d.execStack > MAX_STACK_SIZE)
    | none => true

/-- `push_opcode_size` (src/lib.rs): bytes of the push opcode for a script of that size -/
def pushOpcodeSize (scriptSize : Nat) : Nat :=
  if scriptSize < 76 then 1 else if scriptSize < 0x100 then 2 else if scriptSize < 0x10000 then 3
  else 5

/-- `Ctx::check_local_policy_validity(ms).is_ok()` -/
def localPolicyOk (env : KeyEnv) (ctx : Ctx) (ms : Ms) : Bool :=
  let e := extOf env ctx ms
  match ctx with
  | .legacy =>
    -- `ms.max_satisfaction_size()` = `sat_data.map(max_script_sig_size)`; the scriptSig of a
    -- P2SH spend also carries the push of the redeem script (`ms.script_size()`)
    match e.satData with
    | none => false
    | some d =>
      let scriptSz := scriptSize env ctx ms
      !(d.ssSize + scriptSz + pushOpcodeSize scriptSz > MAX_SCRIPTSIG_SIZE)
  | .segwitv0 =>
    -- `ms.max_satisfaction_witness_elements()` = `sat_data.map(max_witness_stack_count + 1)`
    match e.satData with
    | none => false
    | some d => !(d.wCount + 1 > MAX_STANDARD_P2WSH_STACK_ITEMS)
  | .tap | .bare => true

/-- `Miniscript::within_resource_limits` = `Ctx::check_local_validity(self).is_ok()`
(NOT recursive: only the root's node and ext data are inspected) -/
def withinResourceLimits (env : KeyEnv) (ctx : Ctx) (ms : Ms) : Bool :=
  globalConsensusOk env ctx ms && globalPolicyOk env ctx ms
    && localConsensusOk env ctx ms && localPolicyOk env ctx ms

/-- `Miniscript::has_mixed_timelocks` -/
def hasMixedTimelocks (env : KeyEnv) (ctx : Ctx) (ms : Ms) : Bool :=
  (extOf env ctx ms).timelockInfo.containsCombination

/-- `Miniscript::lift_check` -/
def liftCheck (env : KeyEnv) (ctx : Ctx) (ms : Ms) : Except LiftErr Unit :=
  if !withinResourceLimits env ctx ms then .error .branchExceedResourceLimits
  else if hasMixedTimelocks env ctx ms then .error .heightTimelockCombination
  else .ok ()

/-! ## the loop of `Liftable for Miniscript` -/

mutual
/-- the nodes in the order `rtl_post_order_iter` yields them: (right child … left child, parent) -/
def rtlPost : Ms → List Ms
  | .alt x => rtlPost x ++ [.alt x]
  | .swap x => rtlPost x ++ [.swap x]
  | .check x => rtlPost x ++ [.check x]
  | .dupIf x => rtlPost x ++ [.dupIf x]
  | .verify x => rtlPost x ++ [.verify x]
  | .nonZero x => rtlPost x ++ [.nonZero x]
  | .zeroNotEqual x => rtlPost x ++ [.zeroNotEqual x]
  | .andV l r => rtlPost r ++ (rtlPost l ++ [.andV l r])
  | .andB l r => rtlPost r ++ (rtlPost l ++ [.andB l r])
  | .orB l r => rtlPost r ++ (rtlPost l ++ [.orB l r])
  | .orD l r => rtlPost r ++ (rtlPost l ++ [.orD l r])
  | .orC l r => rtlPost r ++ (rtlPost l ++ [.orC l r])
  | .orI l r => rtlPost r ++ (rtlPost l ++ [.orI l r])
  | .andOr a b c => rtlPost c ++ (rtlPost b ++ (rtlPost a ++ [.andOr a b c]))
  | .thresh k xs => rtlPostList xs ++ [.thresh k xs]
  | leaf => [leaf]
/-- children of a threshold: last child first -/
def rtlPostList : MsList → List Ms
  | .nil => []
  | .cons x xs => rtlPostList xs ++ rtlPost x
end

def keyPol (k : Key) : Policy := .atom (.key k)

/-- one iteration of `for item in self.rtl_post_order_iter()`: the `match item.node.node` and
the `stack.push(new_term)`.  The head of the list is the top of the stack; arguments of
`Threshold::and(pop, pop)` etc. are evaluated left to right. -/
def liftStep (st : List Policy) : Ms → Except LiftErr (List Policy)
  | .pkK k | .pkH k => .ok (keyPol k :: st)
  | .rawPkH _ => .error .rawDescriptorLift
  | .after t => .ok (.atom (.after t) :: st)
  | .older t => .ok (.atom (.older t) :: st)
  | .hash kind h => .ok (.atom (.hash (polHash kind) h) :: st)
  | .fls => .ok (.unsat :: st)
  | .tru => .ok (.trivial :: st)
  | .alt _ | .swap _ | .check _ | .dupIf _ | .verify _ | .nonZero _ | .zeroNotEqual _ =>
    match st with
    | p :: st' => .ok (p :: st')
    | [] => .error .panic
  | .andV _ _ | .andB _ _ =>
    match st with
    | a :: b :: st' => .ok (.thresh 2 [a, b] :: st')
    | _ => .error .panic
  | .andOr _ _ _ =>
    match st with
    | a :: b :: c :: st' => .ok (.thresh 1 [.thresh 2 [a, b], c] :: st')
    | _ => .error .panic
  | .orB _ _ | .orD _ _ | .orC _ _ | .orI _ _ =>
    match st with
    | a :: b :: st' => .ok (.thresh 1 [a, b] :: st')
    | _ => .error .panic
  | .thresh k xs =>
    -- `thresh.map_ref(|_| stack.pop().unwrap())`: one pop per child, first pop = first child
    if st.length < xs.length then .error .panic
    else .ok (.thresh k (st.take xs.length) :: st.drop xs.length)
  | .multi k ks | .sortedMulti k ks | .multiA k ks | .sortedMultiA k ks =>
    .ok (.thresh k (ks.map keyPol) :: st)

/-- the `for` loop -/
def liftLoop : List Ms → List Policy → Except LiftErr (List Policy)
  | [], st => .ok st
  | item :: rest, st =>
    match liftStep st item with
    | .ok st' => liftLoop rest st'
    | .error e => .error e

/-- `Liftable::lift for Miniscript<Pk, Ctx>` -/
def lift (env : KeyEnv) (ctx : Ctx) (ms : Ms) : Except LiftErr Policy :=
  match liftCheck env ctx ms with
  | .error e => .error e
  | .ok () =>
    match liftLoop (rtlPost ms) [] with
    | .error e => .error e
    | .ok (p :: _) => .ok (Sem.normalized p)     -- `stack.pop().unwrap()` … `.normalized()`
    | .ok [] => .error .panic

/-! ## descriptors -/

/-- `collect::<Result<Vec<_>, _>>()` over the leaves' lifts: first error wins -/
def liftLeaves (env : KeyEnv) : List Ms → Except LiftErr (List Policy)
  | [] => .ok []
  | l :: ls =>
    match lift env .tap l with
    | .error e => .error e
    | .ok p =>
      match liftLeaves env ls with
      | .error e => .error e
      | .ok ps => .ok (p :: ps)

/-- `Liftable for TapTree`: 1-of-(lifted leaves), normalized.  (`Threshold::new(1, [])` would
panic; a `TapTree` has at least one leaf.) -/
def liftTapTree (env : KeyEnv) (leaves : List Ms) : Except LiftErr Policy :=
  match liftLeaves env leaves with
  | .error e => .error e
  | .ok [] => .error .panic
  | .ok ps => .ok (Sem.normalized (.thresh 1 ps))

/-- `Liftable for Descriptor` -/
def liftDesc (env : KeyEnv) : Desc → Except LiftErr Policy
  | .bare ms => lift env .bare ms
  | .pkh k => .ok (keyPol k)
  | .wpkh k => .ok (keyPol k)
  | .wsh ms => lift env .segwitv0 ms
  | .sh ms => lift env .legacy ms
  | .shWsh ms => lift env .segwitv0 ms
  | .shWpkh k => .ok (keyPol k)
  | .tr k [] => .ok (keyPol k)
  | .tr k leaves =>
    -- `Threshold::or(Key(internal_key), root.lift()?)` — NOT normalized again
    match liftTapTree env leaves with
    | .error e => .error e
    | .ok t => .ok (.thresh 1 [keyPol k, t])

/-! ## structural form of the loop (used by the theorems; equality is C07.liftLoop_rtlPost) -/

mutual
/-- what the loop leaves on the stack for one subtree; `none` = `Err(RawDescriptorLift)` -/
def liftRaw : Ms → Option Policy
  | .pkK k | .pkH k => some (keyPol k)
  | .rawPkH _ => none
  | .after t => some (.atom (.after t))
  | .older t => some (.atom (.older t))
  | .hash kind h => some (.atom (.hash (polHash kind) h))
  | .fls => some .unsat
  | .tru => some .trivial
  | .alt x | .swap x | .check x | .dupIf x | .verify x | .nonZero x | .zeroNotEqual x => liftRaw x
  | .andV l r | .andB l r =>
    match liftRaw l, liftRaw r with
    | some a, some b => some (.thresh 2 [a, b])
    | _, _ => none
  | .andOr a b c =>
    match liftRaw a, liftRaw b, liftRaw c with
    | some x, some y, some z => some (.thresh 1 [.thresh 2 [x, y], z])
    | _, _, _ => none
  | .orB l r | .orD l r | .orC l r | .orI l r =>
    match liftRaw l, liftRaw r with
    | some a, some b => some (.thresh 1 [a, b])
    | _, _ => none
  | .thresh k xs =>
    match liftRawList xs with
    | some ps => some (.thresh k ps)
    | none => none
  | .multi k ks | .sortedMulti k ks | .multiA k ks | .sortedMultiA k ks =>
    some (.thresh k (ks.map keyPol))
def liftRawList : MsList → Option (List Policy)
  | .nil => some []
  | .cons x xs =>
    match liftRaw x, liftRawList xs with
    | some p, some ps => some (p :: ps)
    | _, _ => none
end

mutual
/-- no `RawPkH` node -/
def noRaw : Ms → Bool
  | .rawPkH _ => false
  | .alt x | .swap x | .check x | .dupIf x | .verify x | .nonZero x | .zeroNotEqual x => noRaw x
  | .andV l r | .andB l r | .orB l r | .orD l r | .orC l r | .orI l r => noRaw l && noRaw r
  | .andOr a b c => noRaw a && noRaw b && noRaw c
  | .thresh _ xs => noRawList xs
  | _ => true
def noRawList : MsList → Bool
  | .nil => true
  | .cons x xs => noRaw x && noRawList xs
end

end MsVerif.Lift

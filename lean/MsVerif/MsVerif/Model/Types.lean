/-
Model of `src/miniscript/types/{correctness,malleability,mod}.rs`.

One Lean definition per Rust rule, in the same case order.  Errors are collapsed to `none`
(the harness compares accept/reject plus the resulting type; the error *kind* is diagnostic
only and is not part of any property).  No imports: this file is linked into the driver.
-/
namespace MsVerif

inductive Base | B | K | V | W
  deriving DecidableEq, Repr, Inhabited

inductive Input | zero | one | any | oneNonZero | anyNonZero
  deriving DecidableEq, Repr, Inhabited

structure Corr where
  base : Base
  input : Input
  dissat : Bool
  unit : Bool
  deriving DecidableEq, Repr, Inhabited

inductive Dissat | none | unique | unknown
  deriving DecidableEq, Repr, Inhabited

structure Mall where
  dissat : Dissat
  signed : Bool
  nonMall : Bool
  deriving DecidableEq, Repr, Inhabited

structure Ty where
  corr : Corr
  mall : Mall
  deriving DecidableEq, Repr, Inhabited

/-! ### Complete enumerations of the finite domains -/

def Base.all : List Base := [.B, .K, .V, .W]
def Input.all : List Input := [.zero, .one, .any, .oneNonZero, .anyNonZero]
def Dissat.all : List Dissat := [.none, .unique, .unknown]
def Bool.all' : List Bool := [false, true]

def Corr.all : List Corr :=
  Base.all.flatMap fun b => Input.all.flatMap fun i => Bool.all'.flatMap fun d =>
    Bool.all'.map fun u => ⟨b, i, d, u⟩

def Mall.all : List Mall :=
  Dissat.all.flatMap fun d => Bool.all'.flatMap fun s => Bool.all'.map fun m => ⟨d, s, m⟩

/-! ### Correctness -/
namespace Corr

def TRUE : Corr := ⟨.B, .zero, false, true⟩
def FALSE : Corr := ⟨.B, .zero, true, true⟩
def pkK : Corr := ⟨.K, .oneNonZero, true, true⟩
def pkH : Corr := ⟨.K, .anyNonZero, true, true⟩
def multi : Corr := ⟨.B, .anyNonZero, true, true⟩
def sortedmulti : Corr := ⟨.B, .anyNonZero, true, true⟩
def multiA : Corr := ⟨.B, .any, true, true⟩
def sortedmultiA : Corr := ⟨.B, .any, true, true⟩
def hash : Corr := ⟨.B, .oneNonZero, true, true⟩
def time : Corr := ⟨.B, .zero, false, false⟩

def castAlt (s : Corr) : Option Corr :=
  match s.base with
  | .B => some ⟨.W, .any, s.dissat, s.unit⟩
  | _ => none

def castSwap (s : Corr) : Option Corr :=
  match s.base with
  | .B =>
    match s.input with
    | .one | .oneNonZero => some ⟨.W, .any, s.dissat, s.unit⟩
    | _ => none
  | _ => none

def castCheck (s : Corr) : Option Corr :=
  match s.base with
  | .K => some ⟨.B, s.input, s.dissat, true⟩
  | _ => none

def castDupIf (s : Corr) : Option Corr :=
  match s.base with
  | .V =>
    match s.input with
    | .zero => some ⟨.B, .oneNonZero, true, false⟩
    | _ => none
  | _ => none

def castVerify (s : Corr) : Option Corr :=
  match s.base with
  | .B => some ⟨.V, s.input, false, false⟩
  | _ => none

def castNonZero (s : Corr) : Option Corr :=
  if s.input ≠ .oneNonZero ∧ s.input ≠ .anyNonZero then none
  else match s.base with
    | .B => some ⟨.B, s.input, true, s.unit⟩
    | _ => none

def castZeroNotEqual (s : Corr) : Option Corr :=
  match s.base with
  | .B => some ⟨.B, s.input, s.dissat, true⟩
  | _ => none

def castTrue (s : Corr) : Option Corr :=
  match s.base with
  | .V => some ⟨.B, s.input, false, true⟩
  | _ => none

def castOrIFalse (s : Corr) : Option Corr :=
  match s.base with
  | .B => some ⟨.B, (match s.input with | .zero => .one | _ => .any), true, s.unit⟩
  | _ => none

/-- shared input rule of `and_b` and `and_v` -/
def andInput : Input → Input → Input
  | .zero, .zero => .zero
  | .zero, .one | .one, .zero => .one
  | .zero, .oneNonZero | .oneNonZero, .zero => .oneNonZero
  | .oneNonZero, _ | .anyNonZero, _ | .zero, .anyNonZero => .anyNonZero
  | _, _ => .any

def andB (l r : Corr) : Option Corr :=
  match l.base, r.base with
  | .B, .W => some ⟨.B, andInput l.input r.input, l.dissat && r.dissat, true⟩
  | _, _ => none

def andV (l r : Corr) : Option Corr :=
  match l.base, r.base with
  | .V, .B => some ⟨.B, andInput l.input r.input, false, r.unit⟩
  | .V, .K => some ⟨.K, andInput l.input r.input, false, r.unit⟩
  | .V, .V => some ⟨.V, andInput l.input r.input, false, r.unit⟩
  | _, _ => none

def orBInput : Input → Input → Input
  | .zero, .zero => .zero
  | .zero, .one | .one, .zero | .zero, .oneNonZero | .oneNonZero, .zero => .one
  | _, _ => .any

def orB (l r : Corr) : Option Corr :=
  if !l.dissat then none else
  if !r.dissat then none else
  match l.base, r.base with
  | .B, .W => some ⟨.B, orBInput l.input r.input, true, true⟩
  | _, _ => none

def orDInput : Input → Input → Input
  | .zero, .zero => .zero
  | .one, .zero | .oneNonZero, .zero => .one
  | _, _ => .any

def orD (l r : Corr) : Option Corr :=
  if !l.dissat then none else
  if !l.unit then none else
  match l.base, r.base with
  | .B, .B => some ⟨.B, orDInput l.input r.input, r.dissat, r.unit⟩
  | _, _ => none

def orC (l r : Corr) : Option Corr :=
  if !l.dissat then none else
  if !l.unit then none else
  match l.base, r.base with
  | .B, .V => some ⟨.V, orDInput l.input r.input, false, false⟩
  | _, _ => none

def orIInput : Input → Input → Input
  | .zero, .zero => .one
  | _, _ => .any

def orI (l r : Corr) : Option Corr :=
  match l.base, r.base with
  | .B, .B => some ⟨.B, orIInput l.input r.input, l.dissat || r.dissat, l.unit && r.unit⟩
  | .V, .V => some ⟨.V, orIInput l.input r.input, l.dissat || r.dissat, l.unit && r.unit⟩
  | .K, .K => some ⟨.K, orIInput l.input r.input, l.dissat || r.dissat, l.unit && r.unit⟩
  | _, _ => none

def andOrInput : Input → Input → Input → Input
  | .zero, .zero, .zero => .zero
  | .zero, .one, .one | .zero, .one, .oneNonZero | .zero, .oneNonZero, .one
  | .zero, .oneNonZero, .oneNonZero | .one, .zero, .zero | .oneNonZero, .zero, .zero => .one
  | _, _, _ => .any

def andOr (a b c : Corr) : Option Corr :=
  if !a.dissat then none else
  if !a.unit then none else
  match a.base, b.base, c.base with
  | .B, .B, .B => some ⟨.B, andOrInput a.input b.input c.input, c.dissat, b.unit && c.unit⟩
  | .B, .K, .K => some ⟨.K, andOrInput a.input b.input c.input, c.dissat, b.unit && c.unit⟩
  | .B, .V, .V => some ⟨.V, andOrInput a.input b.input c.input, c.dissat, b.unit && c.unit⟩
  | _, _, _ => none

def numArgs : Input → Nat
  | .zero => 0
  | .one | .oneNonZero => 1
  | .any | .anyNonZero => 2

/-- The loop of `Correctness::threshold`: `i` is the index of the head of `subs`,
`acc` the running `num_args`.  Returns the final `num_args` or `none` on any error. -/
def threshLoop : Nat → Nat → List Corr → Option Nat
  | _, acc, [] => some acc
  | i, acc, s :: rest =>
    let acc' := acc + numArgs s.input
    if i = 0 ∧ s.base ≠ .B then none
    else if i ≠ 0 ∧ s.base ≠ .W then none
    else if !s.unit then none
    else if !s.dissat then none
    else threshLoop (i + 1) acc' rest

def threshold (_k : Nat) (subs : List Corr) : Option Corr :=
  match threshLoop 0 0 subs with
  | none => none
  | some n => some ⟨.B, (match n with | 0 => .zero | 1 => .one | _ => .any), true, true⟩

end Corr

/-! ### Malleability -/
namespace Mall

def TRUE : Mall := ⟨.none, false, true⟩
def FALSE : Mall := ⟨.unique, true, true⟩
def pkK : Mall := ⟨.unique, true, true⟩
def pkH : Mall := ⟨.unique, true, true⟩
def multi : Mall := ⟨.unique, true, true⟩
def sortedmulti : Mall := ⟨.unique, true, true⟩
def multiA : Mall := ⟨.unique, true, true⟩
def sortedmultiA : Mall := ⟨.unique, true, true⟩
def hash : Mall := ⟨.unknown, false, true⟩
def time : Mall := ⟨.none, false, true⟩

def castAlt (s : Mall) : Mall := s
def castSwap (s : Mall) : Mall := s
def castCheck (s : Mall) : Mall := s
def castDupIf (s : Mall) : Mall :=
  ⟨if s.dissat = .none then .unique else .unknown, s.signed, s.nonMall⟩
def castVerify (s : Mall) : Mall := ⟨.none, s.signed, s.nonMall⟩
def castNonZero (s : Mall) : Mall :=
  ⟨if s.dissat = .none then .unique else .unknown, s.signed, s.nonMall⟩
def castZeroNotEqual (s : Mall) : Mall := s
def castTrue (s : Mall) : Mall := ⟨.none, s.signed, s.nonMall⟩
def castOrIFalse (s : Mall) : Mall :=
  ⟨if s.dissat = .none then .unique else .unknown, s.signed, s.nonMall⟩

def andB (l r : Mall) : Mall :=
  ⟨(match l.dissat, r.dissat with
    | .none, .none => .none
    | ld, rd =>
      if ld = .none ∧ l.signed then .none
      else if rd = .none ∧ r.signed then .none
      else if ld = .unique ∧ rd = .unique then
        (if l.signed && r.signed then .unique else .unknown)
      else .unknown),
   l.signed || r.signed, l.nonMall && r.nonMall⟩

def andV (l r : Mall) : Mall :=
  ⟨(match l.signed, r.dissat with
    | _, .none => .none
    | true, _ => .none
    | _, _ => .unknown),
   l.signed || r.signed, l.nonMall && r.nonMall⟩

def orB (l r : Mall) : Mall :=
  ⟨.unique, l.signed && r.signed,
   l.nonMall && (l.dissat == .unique) && r.nonMall && (r.dissat == .unique)
     && (l.signed || r.signed)⟩

def orD (l r : Mall) : Mall :=
  ⟨r.dissat, l.signed && r.signed,
   l.nonMall && (l.dissat == .unique) && r.nonMall && (l.signed || r.signed)⟩

def orC (l r : Mall) : Mall :=
  ⟨.none, l.signed && r.signed,
   l.nonMall && (l.dissat == .unique) && r.nonMall && (l.signed || r.signed)⟩

def orI (l r : Mall) : Mall :=
  ⟨(match l.dissat, r.dissat with
    | .none, .none => .none
    | .unique, .none => .unique
    | .none, .unique => .unique
    | _, _ => .unknown),
   l.signed && r.signed, l.nonMall && r.nonMall && (l.signed || r.signed)⟩

def andOr (a b c : Mall) : Mall :=
  ⟨(match a.signed, b.dissat, c.dissat with
    | _, .none, .unique => .unique
    | true, _, .unique => .unique
    | _, .none, .none => .none
    | true, _, .none => .none
    | _, _, _ => .unknown),
   (a.signed || b.signed) && c.signed,
   a.nonMall && c.nonMall && (a.dissat == .unique) && b.nonMall
     && (a.signed || b.signed || c.signed)⟩

/-- loop state of `Malleability::threshold`: (signed_count, all_unique, all_non_malleable) -/
def threshFold (subs : List Mall) : Nat × Bool × Bool :=
  subs.foldl (fun (acc : Nat × Bool × Bool) s =>
    (acc.1 + (if s.signed then 1 else 0), acc.2.1 && (s.dissat == .unique), acc.2.2 && s.nonMall))
    (0, true, true)

/-- `n - k` is `usize` subtraction in Rust; `Threshold` guarantees `k ≤ n`, so truncated
subtraction on `Nat` is the same function on every reachable input. -/
def threshold (k : Nat) (subs : List Mall) : Mall :=
  let n := subs.length
  let (sc, allU, allM) := threshFold subs
  ⟨if allU && sc == n then .unique else .unknown,
   decide (sc > n - k),
   allM && decide (sc ≥ n - k) && allU⟩

end Mall

/-! ### `Type` = product -/
namespace Ty

def TRUE : Ty := ⟨Corr.TRUE, Mall.TRUE⟩
def FALSE : Ty := ⟨Corr.FALSE, Mall.FALSE⟩
def pkK : Ty := ⟨Corr.pkK, Mall.pkK⟩
def pkH : Ty := ⟨Corr.pkH, Mall.pkH⟩
def multi : Ty := ⟨Corr.multi, Mall.multi⟩
def sortedmulti : Ty := ⟨Corr.sortedmulti, Mall.sortedmulti⟩
def multiA : Ty := ⟨Corr.multiA, Mall.multiA⟩
def sortedmultiA : Ty := ⟨Corr.sortedmultiA, Mall.sortedmultiA⟩
def hash : Ty := ⟨Corr.hash, Mall.hash⟩
def time : Ty := ⟨Corr.time, Mall.time⟩

def lift1 (fc : Corr → Option Corr) (fm : Mall → Mall) (t : Ty) : Option Ty :=
  match fc t.corr with
  | some c => some ⟨c, fm t.mall⟩
  | none => none

def lift2 (fc : Corr → Corr → Option Corr) (fm : Mall → Mall → Mall) (l r : Ty) : Option Ty :=
  match fc l.corr r.corr with
  | some c => some ⟨c, fm l.mall r.mall⟩
  | none => none

def castAlt := lift1 Corr.castAlt Mall.castAlt
def castSwap := lift1 Corr.castSwap Mall.castSwap
def castCheck := lift1 Corr.castCheck Mall.castCheck
def castDupIf := lift1 Corr.castDupIf Mall.castDupIf
def castVerify := lift1 Corr.castVerify Mall.castVerify
def castNonZero := lift1 Corr.castNonZero Mall.castNonZero
def castZeroNotEqual := lift1 Corr.castZeroNotEqual Mall.castZeroNotEqual
def castTrue := lift1 Corr.castTrue Mall.castTrue
def castUnlikely := lift1 Corr.castOrIFalse Mall.castOrIFalse
def castLikely := lift1 Corr.castOrIFalse Mall.castOrIFalse
def andB := lift2 Corr.andB Mall.andB
def andV := lift2 Corr.andV Mall.andV
def orB := lift2 Corr.orB Mall.orB
def orD := lift2 Corr.orD Mall.orD
def orC := lift2 Corr.orC Mall.orC
def orI := lift2 Corr.orI Mall.orI

def andOr (a b c : Ty) : Option Ty :=
  match Corr.andOr a.corr b.corr c.corr with
  | some x => some ⟨x, Mall.andOr a.mall b.mall c.mall⟩
  | none => none

def threshold (k : Nat) (subs : List Ty) : Option Ty :=
  match Corr.threshold k (subs.map (·.corr)) with
  | some c => some ⟨c, Mall.threshold k (subs.map (·.mall))⟩
  | none => none

end Ty

/-! ### Text form used on the wire (`Bz11/u11`) -/

def Base.toChar : Base → Char | .B => 'B' | .K => 'K' | .V => 'V' | .W => 'W'
def Input.toChar : Input → Char
  | .zero => 'z' | .one => 'o' | .any => 'a' | .oneNonZero => 'O' | .anyNonZero => 'N'
def Dissat.toChar : Dissat → Char | .none => 'f' | .unique => 'e' | .unknown => 'x'
def bitChar (b : Bool) : Char := if b then '1' else '0'

def Corr.toStr (c : Corr) : String :=
  String.ofList [c.base.toChar, c.input.toChar, bitChar c.dissat, bitChar c.unit]
def Mall.toStr (m : Mall) : String :=
  String.ofList [m.dissat.toChar, bitChar m.signed, bitChar m.nonMall]
def Ty.toStr (t : Ty) : String := t.corr.toStr ++ "/" ++ t.mall.toStr

def Base.ofChar? : Char → Option Base
  | 'B' => some .B | 'K' => some .K | 'V' => some .V | 'W' => some .W | _ => none
def Input.ofChar? : Char → Option Input
  | 'z' => some .zero | 'o' => some .one | 'a' => some .any | 'O' => some .oneNonZero
  | 'N' => some .anyNonZero | _ => none
def Dissat.ofChar? : Char → Option Dissat
  | 'f' => some .none | 'e' => some .unique | 'x' => some .unknown | _ => none
def bitOfChar? : Char → Option Bool | '0' => some false | '1' => some true | _ => none

def Corr.ofStr? (s : String) : Option Corr :=
  match s.toList with
  | [b, i, d, u] =>
    match Base.ofChar? b, Input.ofChar? i, bitOfChar? d, bitOfChar? u with
    | some b, some i, some d, some u => some ⟨b, i, d, u⟩
    | _, _, _, _ => none
  | _ => none

def Mall.ofStr? (s : String) : Option Mall :=
  match s.toList with
  | [d, sg, m] =>
    match Dissat.ofChar? d, bitOfChar? sg, bitOfChar? m with
    | some d, some sg, some m => some ⟨d, sg, m⟩
    | _, _, _ => none
  | _ => none

def Ty.ofStr? (s : String) : Option Ty :=
  match s.splitOn "/" with
  | [c, m] =>
    match Corr.ofStr? c, Mall.ofStr? m with
    | some c, some m => some ⟨c, m⟩
    | _, _ => none
  | _ => none

end MsVerif

/-
Model of the parts of `src/policy/concrete.rs`, `src/policy/mod.rs` (`Liftable for Concrete`)
and `src/miniscript/types/extra_props.rs` (`TimelockInfo`) that C18 is about.

`And(Vec<Arc<Policy>>)` / `Or(Vec<(usize, Arc<Policy>)>)` are public enum variants: any number
of children can be built through the API (the parser only produces two).  The model keeps the
Rust's behaviour for every length (an empty `And` / `Or` is refused by `lift`).
-/
import MsVerif.Model.Semantic

namespace MsVerif.Pol.Conc
open MsVerif.Pol

/-- `TimelockInfo` -/
structure TimelockInfo where
  csvWithHeight : Bool := false
  csvWithTime : Bool := false
  cltvWithHeight : Bool := false
  cltvWithTime : Bool := false
  containsCombination : Bool := false
  deriving DecidableEq, Repr, Inhabited

/-- one step of the fold in `TimelockInfo::combine_threshold` -/
def TimelockInfo.step (k : Nat) (acc t : TimelockInfo) : TimelockInfo :=
  let heightAndTime :=
    (acc.csvWithHeight && t.csvWithTime) || (acc.csvWithTime && t.csvWithHeight)
      || (acc.cltvWithTime && t.cltvWithHeight) || (acc.cltvWithHeight && t.cltvWithTime)
  let comb := if k > 1 then acc.containsCombination || heightAndTime else acc.containsCombination
  { csvWithHeight := acc.csvWithHeight || t.csvWithHeight
    csvWithTime := acc.csvWithTime || t.csvWithTime
    cltvWithHeight := acc.cltvWithHeight || t.cltvWithHeight
    cltvWithTime := acc.cltvWithTime || t.cltvWithTime
    containsCombination := comb || t.containsCombination }

/-- `TimelockInfo::combine_threshold` -/
def TimelockInfo.combineThreshold (k : Nat) (ts : List TimelockInfo) : TimelockInfo :=
  ts.foldl (TimelockInfo.step k) {}

/-- `TimelockInfo::combine_and` -/
def TimelockInfo.combineAnd (a b : TimelockInfo) : TimelockInfo := combineThreshold 2 [a, b]
/-- `TimelockInfo::combine_or` -/
def TimelockInfo.combineOr (a b : TimelockInfo) : TimelockInfo := combineThreshold 1 [a, b]

/-- the local helper `combine(k, subs)` of `timelock_info`: children without any satisfaction
(`None`) are dropped; fewer than `k` satisfiable children ⇒ no satisfaction (`None`) -/
def combineOpt (k : Nat) (subs : List (Option TimelockInfo)) : Option TimelockInfo :=
  let satisfiable := subs.filterMap id          -- `subs.flatten().collect()`
  if satisfiable.length < k then none
  else some (TimelockInfo.combineThreshold k satisfiable)

mutual
/-- `Policy::timelock_info` (private in the Rust; observable through `check_timelocks`):
`none` = the policy has no satisfaction at all -/
def timelockInfo : CPolicy → Option TimelockInfo
  | .unsat => none
  | .atom (.after t) => some { cltvWithHeight := absIsHeight t, cltvWithTime := absIsTime t }
  | .atom (.older t) => some { csvWithHeight := relIsHeight t, csvWithTime := relIsTime t }
  | .and subs => combineOpt subs.length (timelockInfoList subs)
  | .or subs => combineOpt 1 (timelockInfoList subs)
  | .thresh k subs => combineOpt k (timelockInfoList subs)
  | _ => some {}
def timelockInfoList : List CPolicy → List (Option TimelockInfo)
  | [] => []
  | p :: ps => timelockInfo p :: timelockInfoList ps
end

/-- the `match` of `check_timelocks`: only `Some(info) if info.contains_combination` is refused -/
def TimelockInfo.accepts : Option TimelockInfo → Bool
  | some info => !info.containsCombination
  | none => true

/-- `Policy::check_timelocks`: `true` = `Ok(())`, `false` = `Err(HeightTimelockCombination)`;
no satisfaction at all is `Ok` -/
def checkTimelocks (c : CPolicy) : Bool := TimelockInfo.accepts (timelockInfo c)

/-- `Policy::check_duplicate_keys`: `true` = `Ok(())`; `keys()` are the key leaves in pre-order,
compared with the number of distinct ones -/
def checkDuplicateKeys (c : CPolicy) : Bool :=
  let pks := (atomsOfC c).filter Atom.isKey
  !(pks.length > pks.eraseDups.length)

/-- outcome of `Policy::is_valid` -/
inductive ValidRes | ok | timelock | dupKeys
  deriving DecidableEq, Repr, Inhabited

/-- `Policy::is_valid`: `check_timelocks()?; check_duplicate_keys()?` -/
def isValid (c : CPolicy) : ValidRes :=
  if !checkTimelocks c then .timelock
  else if !checkDuplicateKeys c then .dupKeys
  else .ok

/-- outcome of `Liftable::lift` -/
inductive LiftRes
  | ok (p : Policy)
  | err               -- `Err(ConcretePolicy(HeightTimelockCombination))`
  | errThreshold      -- `Err(Threshold(..))`: an `And` / `Or` without children
  deriving Repr, Inhabited

/-- `subs.iter().map(lift).collect::<Result<Vec<_>, _>>()` given the children's outcomes, in
order: the first child that does not return `Ok` decides -/
def collectLift : List LiftRes → (List Policy → LiftRes) → LiftRes
  | [], k => k []
  | .ok p :: rest, k => collectLift rest (fun ps => k (p :: ps))
  | .err :: _, _ => .err
  | .errThreshold :: _, _ => .errThreshold

mutual
/-- `Concrete::lift_unchecked` (private): the recursive translation; every level ends with
`.normalized()` -/
def liftUnchecked : CPolicy → LiftRes
  | .unsat => .ok .unsat
  | .trivial => .ok .trivial
  | .atom a => .ok (.atom a)          -- `normalized` is the identity on leaves
  | .and subs =>
    collectLift (liftUncheckedList subs) fun ss =>
      -- `Threshold::new(semantic_subs.len(), semantic_subs).map_err(Error::Threshold)?`: k = n = 0 is refused
      if 1 ≤ ss.length then .ok (Sem.normalized (.thresh ss.length ss)) else .errThreshold
  | .or subs =>
    collectLift (liftUncheckedList subs) fun ss =>
      -- `Threshold::new(1, semantic_subs).map_err(Error::Threshold)?`: 1 > n = 0 is refused
      if 1 ≤ ss.length then .ok (Sem.normalized (.thresh 1 ss)) else .errThreshold
  | .thresh k subs =>
    collectLift (liftUncheckedList subs) fun ss => .ok (Sem.normalized (.thresh k ss))
def liftUncheckedList : List CPolicy → List LiftRes
  | [] => []
  | p :: ps => liftUnchecked p :: liftUncheckedList ps
end

/-- `impl Liftable for Concrete`: `check_timelocks` once, on the whole policy, then
`lift_unchecked` -/
def lift (c : CPolicy) : LiftRes :=
  if !checkTimelocks c then .err else liftUnchecked c

/-- the `Thresh` arm of `is_safe_nonmalleable` -/
def safeNonmallThresh (k n : Nat) (rs : List (Bool × Bool)) : Bool × Bool :=
  let signedCount := rs.countP (·.1)
  let nonMallCount := rs.countP (·.2)
  (decide (signedCount ≥ n - k + 1), nonMallCount == n && decide (signedCount ≥ n - k))

mutual
/-- `Policy::is_safe_nonmalleable` → `(signed, non-malleable)` -/
def isSafeNonmalleable : CPolicy → Bool × Bool
  | .unsat => (true, true)
  | .atom (.key _) => (true, true)
  | .trivial => (false, true)         -- `Trivial | hashes | After | Older => (false, true)`
  | .atom _ => (false, true)
  | .and subs =>
    let rs := isSafeNonmalleableList subs
    (rs.any (·.1), rs.all (·.2))
  | .or subs =>
    let rs := isSafeNonmalleableList subs
    (rs.all (·.1), rs.any (·.1) && rs.all (·.2))
  | .thresh k subs => safeNonmallThresh k subs.length (isSafeNonmalleableList subs)
def isSafeNonmalleableList : List CPolicy → List (Bool × Bool)
  | [] => []
  | p :: ps => isSafeNonmalleable p :: isSafeNonmalleableList ps
end

end MsVerif.Pol.Conc

/-! ## Predicates used in the statements of the C18 theorems (not Rust functions) -/
namespace MsVerif.Pol

/-- every `and` / `or` node has at least one child (an empty one cannot be lifted:
`Threshold` has no 0-of-0) -/
def andOrNonEmpty : CPolicy → Bool
  | .and subs => decide (1 ≤ subs.length) && go subs
  | .or subs => decide (1 ≤ subs.length) && go subs
  | .thresh _ subs => go subs
  | _ => true
where go : List CPolicy → Bool
  | [] => true
  | p :: ps => andOrNonEmpty p && go ps

/-- no `TRIVIAL` anywhere -/
def trivialFree : CPolicy → Bool
  | .trivial => false
  | .and subs => go subs
  | .or subs => go subs
  | .thresh _ subs => go subs
  | _ => true
where go : List CPolicy → Bool
  | [] => true
  | p :: ps => trivialFree p && go ps

/-- every `thresh` has `k ≥ 1` (guaranteed by every `Threshold` constructor) -/
def threshKPos : CPolicy → Bool
  | .and subs => go subs
  | .or subs => go subs
  | .thresh k subs => decide (1 ≤ k) && go subs
  | _ => true
where go : List CPolicy → Bool
  | [] => true
  | p :: ps => threshKPos p && go ps

/-- what the `Threshold` constructors guarantee, and `or` is not empty (`and` may be) -/
def WFC : CPolicy → Bool
  | .and subs => go subs
  | .or subs => decide (1 ≤ subs.length) && go subs
  | .thresh k subs => decide (1 ≤ k) && decide (k ≤ subs.length) && go subs
  | _ => true
where go : List CPolicy → Bool
  | [] => true
  | p :: ps => WFC p && go ps

/-- no `UNSATISFIABLE` anywhere -/
def unsatFree : CPolicy → Bool
  | .unsat => false
  | .and subs => go subs
  | .or subs => go subs
  | .thresh _ subs => go subs
  | _ => true
where go : List CPolicy → Bool
  | [] => true
  | p :: ps => unsatFree p && go ps

end MsVerif.Pol

/-
Model of `src/descriptor/tr/taptree.rs` (TapTree, TapTreeBuilder) and
`src/descriptor/tr/spend_info.rs` (BitStack128, TrSpendInfo::nodes_from_tap_tree,
TrSpendInfoIter::next).  One Lean definition per Rust function, same control flow.

Representation choices (documented, nothing else is changed):
  * `u8`/`usize` counters are `Nat`; `u128` bitmaps are `BitVec 128`.  `1 << h` is written
    `1#128 <<< h`; the two differ only for `h ≥ 128`, where Rust panics (debug) or wraps the
    shift amount (release): `BitStack128.push` returns `none` there, the builder never gets
    there (`Tap.Builder` keeps `current_height ≤ 128` and shifts only by `≤ 127`,
    theorem `C15.builder_height_le`).
  * a `Vec` used as a stack (`parent_stack`, `merkle_stack`) is a `List` whose HEAD is the
    LAST pushed element (`Vec::len` = `List.length`); `vecOrder` gives back index order.
    A `Vec` that is only appended to and indexed (`depths_leaves`, `nodes`) is a `List` in
    index order.
  * `Option` results: `none` = the Rust function returns `Err(TapTreeDepthError)`
    (`combine`, `push_inner_node`) or panics (`assert!`, index out of range, `expect`);
    which one is said at each definition.
  * hashes: an abstract `Spec.HashAlg` (`leafHash` = `TapNodeHash::from(TapLeafHash::from_script
    (script, TapScript))`, `branch` = `TapNodeHash::from_node_hashes`).
No imports besides the specification's types: this file is linked into the driver.
-/
import MsVerif.Spec.Merkle

namespace MsVerif.Tap
open MsVerif.Spec

/-- `TAPROOT_CONTROL_MAX_NODE_COUNT` -/
def MAXN : Nat := 128

/-! ## taptree.rs -/

/-- `TapTree { depths_leaves: Vec<(u8, Arc<Miniscript>)> }` -/
abbrev TapTree (α : Type) := List (Nat × α)

/-- `TapTree::leaf` -/
def TapTree.leaf {α : Type} (s : α) : TapTree α := [(0, s)]

/-- `TapTree::combine`; `none` = `Err(TapTreeDepthError)` -/
def TapTree.combine {α : Type} (left right : TapTree α) : Option (TapTree α) :=
  (left ++ right).mapM (fun p => if p.1 > MAXN - 1 then none else some (p.1 + 1, p.2))

/-- `TapTree::translate_pk` (`f` = translation of one leaf; `none` = the translator failed) -/
def TapTree.translate {α β : Type} (f : α → Option β) (t : TapTree α) : Option (TapTree β) :=
  t.mapM (fun p => (f p.2).map (fun s => (p.1, s)))

/-- the two ways `translate_pk` fails: the translator's own error (`TranslateErr::TranslatorErr`)
or the translated object being refused by the context (`TranslateErr::OuterError`, e.g. an
uncompressed key in Tapscript) -/
inductive TrErr where
  | translator
  | outer
  deriving Repr, DecidableEq

/-- `Tr::translate_pk`: first the tree (`TapTree::translate_pk`: the leaves left to right, each
through `Miniscript::translate_pk`, which re-checks the translated leaf: `f` returns the
translated leaf or the first error met inside it), then the internal key (`fk`: the translator's
verdict followed by `Tr::new`'s `Tap::check_pk`).  The first error wins; nothing is returned
besides it. -/
def trTranslate {α β κ κ' : Type} (f : α → Except TrErr β) (fk : κ → Except TrErr κ')
    (ik : κ) (tree : Option (TapTree α)) : Except TrErr (κ' × Option (TapTree β)) :=
  match tree with
  | some t =>
    match t.mapM (fun p => (f p.2).map (fun s => (p.1, s))) with
    | .error e => .error e
    | .ok t' =>
      match fk ik with
      | .error e => .error e
      | .ok k => .ok (k, some t')
  | none =>
    match fk ik with
    | .error e => .error e
    | .ok k => .ok (k, none)

/-- in `fmt_helper`: `if let Some(c) = child_counts.last_mut() { *c += 1 }` followed by
`while let Some(2) = child_counts.last() { write "}"; pop; if let Some(c) = … { *c += 1 } }`
(head of the list = last element of the `Vec<u8>`); returns what was written and the stack -/
def fmtBump {α : Type} : List Nat → List (Tok α) × List Nat
  | [] => ([], [])
  | c :: cc =>
    if c + 1 = 2 then
      let r := fmtBump (α := α) cc
      (Tok.rbrace :: r.1, r.2)
    else ([], (c + 1) :: cc)

/-- body of `for item in view.leaves()` in `fmt_helper` on (written so far, child_counts) -/
def fmtStep {α : Type} (st : List (Tok α) × List Nat) (item : Nat × α) : List (Tok α) × List Nat :=
  let depth := item.1
  let out := if !st.2.isEmpty then st.1 ++ [Tok.comma] else st.1
  -- `while child_counts.len() < depth { write "{"; push 0 }`
  let n := depth - st.2.length
  let out := out ++ List.replicate n Tok.lbrace
  let cc := List.replicate n 0 ++ st.2
  let out := out ++ [Tok.script item.2]
  let r := fmtBump cc
  (out ++ r.1, r.2)

/-- `fmt_helper` / `Display for TapTree` -/
def TapTree.fmt {α : Type} (t : TapTree α) : List (Tok α) := (t.foldl fmtStep ([], [])).1

/-- `TapTreeBuilder` -/
structure Builder (α : Type) where
  depthsLeaves : List (Nat × α)
  completeHeights : BitVec 128
  complete128 : Bool
  currentHeight : Nat

/-- `TapTreeBuilder::new` -/
def Builder.new {α : Type} : Builder α := ⟨[], 0#128, false, 0⟩

/-- `TapTreeBuilder::push_inner_node`; `none` = `Err(TapTreeDepthError)` -/
def Builder.pushInnerNode {α : Type} (b : Builder α) : Option (Builder α) :=
  let b := { b with currentHeight := b.currentHeight + 1 }
  if b.currentHeight > MAXN then none else some b

/-- the `while self.current_height > 0 { … }` loop of `push_leaf` on (bitmap, height) -/
def Builder.heightLoop (bits : BitVec 128) : Nat → BitVec 128 × Nat
  | 0 => (bits, 0)
  | h + 1 =>
    if bits &&& (1#128 <<< (h + 1)) == 0#128 then
      (bits ||| (1#128 <<< (h + 1)), h + 1)          -- set the bit; break
    else
      Builder.heightLoop (bits &&& ~~~(1#128 <<< (h + 1))) h   -- clear the bit; height -= 1

/-- `TapTreeBuilder::push_leaf` -/
def Builder.pushLeaf {α : Type} (b : Builder α) (s : α) : Builder α :=
  let b := { b with depthsLeaves := b.depthsLeaves ++ [(b.currentHeight, s)] }
  -- special-case 128, which does not fit into the bitmap
  let b? : Option (Builder α) :=
    if b.currentHeight == MAXN then
      if b.complete128 then
        some { b with complete128 := false, currentHeight := b.currentHeight - 1 }
      else none
    else some b
  match b? with
  | none => { b with complete128 := true }            -- `return`
  | some b =>
    let r := Builder.heightLoop b.completeHeights b.currentHeight
    { b with completeHeights := r.1, currentHeight := r.2 }

/-- `TapTreeBuilder::finalize`; `none` = the `assert!` fires (empty builder) -/
def Builder.finalize {α : Type} (b : Builder α) : Option (TapTree α) :=
  if b.depthsLeaves.isEmpty then none else some b.depthsLeaves

/-- what `Tr::from_tree` feeds to the builder while walking the `{…}` expression in pre-order -/
inductive BOp (α : Type) where
  | inner            -- a `{l,r}` node: `push_inner_node()?`
  | leaf (s : α)     -- anything else: `push_leaf(script)`
  deriving Repr

def Builder.step {α : Type} (b : Builder α) : BOp α → Option (Builder α)
  | .inner => b.pushInnerNode
  | .leaf s => some (b.pushLeaf s)

/-- the loop of `Tr::from_tree` over the tap tree; `none` = `Err(TapTreeDepthError)` -/
def Builder.run {α : Type} (ops : List (BOp α)) (b : Builder α) : Option (Builder α) :=
  ops.foldlM Builder.step b

/-- `Tr::from_tree`, tree part: run the builder and finalize -/
def buildFromOps {α : Type} (ops : List (BOp α)) : Option (TapTree α) :=
  (Builder.run ops Builder.new).bind Builder.finalize

/-! ## spend_info.rs -/

/-- `BitStack128` -/
structure BitStack128 where
  inner : BitVec 128
  height : Nat

def BitStack128.default : BitStack128 := ⟨0#128, 0⟩

/-- `BitStack128::push`; `none` = more than 128 bits (shift overflow: panics in debug builds,
corrupts the stack in release builds) -/
def BitStack128.push (s : BitStack128) (bit : Bool) : Option BitStack128 :=
  if s.height ≥ 128 then none else
  some ⟨if bit then s.inner ||| (1#128 <<< s.height) else s.inner &&& ~~~(1#128 <<< s.height),
        s.height + 1⟩

/-- `BitStack128::pop` -/
def BitStack128.pop (s : BitStack128) : Option (Bool × BitStack128) :=
  if s.height > 0 then
    let h := s.height - 1
    some ((s.inner &&& (1#128 <<< h)) != 0#128, ⟨s.inner, h⟩)
  else none

/-- `TrSpendInfoNode` (`leaf_data` reduced to the leaf's identity) -/
structure SNode (α ν : Type) where
  siblingHash : ν
  leafData : Option α
  deriving Repr

/-- `nodes[i].sibling_hash = h`; `none` = index out of range (panic) -/
def setSib {α ν : Type} (nodes : List (SNode α ν)) (i : Nat) (h : ν) : Option (List (SNode α ν)) :=
  match nodes[i]? with
  | none => none
  | some n => some (nodes.set i { n with siblingHash := h })

/-- step 1 of the loop body: `while parent_stack.len() < depth { … }`, `n` iterations left -/
def pushParents {α ν : Type} (cur : ν) :
    Nat → List (SNode α ν) → List (Bool × Nat) → List (SNode α ν) × List (Bool × Nat)
  | 0, nodes, stack => (nodes, stack)
  | n + 1, nodes, stack =>
    pushParents cur n (nodes ++ [⟨cur, none⟩]) ((false, nodes.length) :: stack)

/-- step 3 of the loop body: `while let Some((done_left_child, parent_idx)) = parent_stack.pop()` -/
def climb {α ν : Type} (H : HashAlg α ν) (cur : ν) (curIdx : Nat) (nodes : List (SNode α ν)) :
    List (Bool × Nat) → Option (List (SNode α ν) × List (Bool × Nat))
  | [] => some (nodes, [])
  | (true, parentIdx) :: stack =>
    match nodes[parentIdx + 1]? with
    | none => none
    | some lchild =>
      let lchildHash := lchild.siblingHash
      let newMerkleRoot := H.branch lchildHash cur
      match setSib nodes parentIdx newMerkleRoot with
      | none => none
      | some nodes =>
      match setSib nodes (parentIdx + 1) cur with
      | none => none
      | some nodes =>
      match setSib nodes curIdx lchildHash with
      | none => none
      | some nodes => climb H newMerkleRoot parentIdx nodes stack
  | (false, parentIdx) :: stack => some (nodes, (true, parentIdx) :: stack)

/-- body of `for leaf in tree.leaves()`; `none` = panic (`assert_eq!`, indexing) -/
def leafStep {α ν : Type} (H : HashAlg α ν) (st : List (SNode α ν) × List (Bool × Nat))
    (leaf : Nat × α) : Option (List (SNode α ν) × List (Bool × Nat)) :=
  let depth := leaf.1
  let cur := H.leafHash leaf.2
  let st1 := pushParents cur (depth - st.2.length) st.1 st.2
  if depth != st1.2.length then none else
  let nodes := st1.1 ++ [⟨cur, some leaf.2⟩]
  climb H cur (nodes.length - 1) nodes st1.2

/-- `TrSpendInfo::nodes_from_tap_tree` -/
def nodesFromTapTree {α ν : Type} (H : HashAlg α ν) (tree : TapTree α) :
    Option (List (SNode α ν)) :=
  (tree.foldlM (leafStep H) ([], [])).map (fun st => st.1)

/-- `TrSpendInfo::merkle_root` on the node vector -/
def merkleRootOf {α ν : Type} (nodes : List (SNode α ν)) : Option ν :=
  nodes.head?.map (fun n => n.siblingHash)

/-- `TrSpendInfo` without the parity; `tweak` = `UntweakedPublicKey::tap_tweak` (rust-bitcoin) -/
structure SpendInfo (α ν κ ω : Type) where
  internalKey : κ
  outputKey : ω
  nodes : List (SNode α ν)

/-- `TrSpendInfo::from_tr`; `none` = panic inside `nodes_from_tap_tree` -/
def SpendInfo.fromTr {α ν κ ω : Type} (H : HashAlg α ν) (tweak : κ → Option ν → ω)
    (internalKey : κ) (tree : Option (TapTree α)) : Option (SpendInfo α ν κ ω) :=
  match (match tree with
    | some t => nodesFromTapTree H t
    | none => some []) with
  | none => none
  | some nodes => some ⟨internalKey, tweak internalKey (merkleRootOf nodes), nodes⟩

/-- `TrSpendInfoIterItem`: the leaf and `control_block.merkle_branch` -/
structure Item (α ν : Type) where
  leaf : α
  merkleBranch : List ν
  deriving Repr

/-- `TrSpendInfoIterItem::depth` -/
def Item.depth {α ν : Type} (it : Item α ν) : Nat := it.merkleBranch.length

/-- index order of a `Vec` kept as a stack-list -/
def vecOrder {ν : Type} (stack : List ν) : List ν := stack.reverse

/-- the inner `loop { match self.done_left_stack.pop() … }` of `next`; `fuel` ≥ height + 1;
`none` = `BitStack128::push` overflow -/
def iterUnwind {ν : Type} : Nat → List ν → BitStack128 → Option (List ν × BitStack128)
  | 0, ms, dl => some (ms, dl)
  | fuel + 1, ms, dl =>
    match dl.pop with
    | none => some (ms, dl)                                   -- this leaf is the root node
    | some (false, dl) => (dl.push true).map (fun dl => (ms, dl))
    | some (true, dl) => iterUnwind fuel ms.tail dl           -- `self.merkle_stack.pop()`

/-- `TrSpendInfoIter::next`, called until it returns `None` (`leaves().collect()`): the `while`
loop of `next` and the caller's loop are fused — all state lives in the iterator, so being
called again just resumes the `while`.  `rest` is `nodes[self.index..]`.
`none` = panic (bit stack overflow, or `TaprootMerkleBranch::try_from` rejecting > 128). -/
def iterCollect {α ν : Type} :
    List (SNode α ν) → Nat → List ν → BitStack128 → Option (List (Item α ν))
  | [], _, _, _ => some []
  | node :: rest, index, ms, dl =>
    let ms := if index > 0 then node.siblingHash :: ms else ms
    let index := index + 1
    match node.leafData with
    | some leaf =>
      let merkleStack := (vecOrder ms).reverse      -- `clone()`, `reverse()`, read in index order
      let ms := ms.tail                             -- `self.merkle_stack.pop()`
      match iterUnwind (dl.height + 1) ms dl with
      | none => none
      | some (ms, dl) =>
        if merkleStack.length > MAXN then none else
        (iterCollect rest index ms dl).map (fun items => ⟨leaf, merkleStack⟩ :: items)
    | none =>
      match dl.push false with
      | none => none
      | some dl => iterCollect rest index ms dl

/-- `TrSpendInfo::leaves().collect()` -/
def leavesOf {α ν : Type} (nodes : List (SNode α ν)) : Option (List (Item α ν)) :=
  iterCollect nodes 0 [] BitStack128.default

/-- `Tr::spend_info().leaves()` from a tap tree: nodes, then iterate -/
def spendLeaves {α ν : Type} (H : HashAlg α ν) (tree : TapTree α) : Option (List (Item α ν)) :=
  (nodesFromTapTree H tree).bind leavesOf

end MsVerif.Tap

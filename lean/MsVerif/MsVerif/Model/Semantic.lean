/-
Model of `src/policy/semantic.rs` (abstract policies): one Lean definition per Rust function,
same case order, same arithmetic.  `usize` subtractions are the truncated `Nat` ones exactly
where the Rust cannot underflow or uses `saturating_sub`.

Representation: `Threshold<Arc<Policy>, 0>` is `thresh k subs`; its constructors guarantee
`1 ≤ k ≤ subs.length` (`Sem.WF`); the model is total without that, WF is a hypothesis only where
a theorem needs it.  The post-order stack loops (`rtl_post_order_iter` + `pop`) rebuild the
children left to right, i.e. they are structural recursion.  Keys / hashes are numbers whose
order is the order of the Rust key type (the harness uses fixed-width names).

No imports besides the specification's data types: linked into the driver.
-/
import MsVerif.Spec.Policy

namespace MsVerif.Pol.Sem
open MsVerif.Pol

/-- `ENTAILMENT_MAX_TERMINALS` -/
def ENTAILMENT_MAX_TERMINALS : Nat := 20

/-- `Policy::is_trivial` -/
def isTrivial : Policy → Bool
  | .trivial => true
  | _ => false

/-- `Policy::is_unsatisfiable` -/
def isUnsat : Policy → Bool
  | .unsat => true
  | _ => false

/-- what `Threshold::new` guarantees, everywhere in the tree -/
def WF : Policy → Bool
  | .thresh k subs => decide (1 ≤ k) && decide (k ≤ subs.length) && wfl subs
  | _ => true
where wfl : List Policy → Bool
  | [] => true
  | p :: ps => WF p && wfl ps

/-! ## what can be built at all -/

/-- the value constraints of the constructors: `AbsLockTime::from_consensus` (1 ..= 0x7fffffff),
`RelLockTime::from_consensus` (not 0, disable flag clear), `Threshold::new` (1 ≤ k ≤ n) — the
only way to obtain a `Policy` value through the public API -/
def constructible : Policy → Bool
  | .atom (.after n) => decide (1 ≤ n) && decide (n ≤ 2147483647)
  | .atom (.older n) => decide (n ≠ 0) && decide (n < 2147483648)
  | .thresh k subs => decide (1 ≤ k) && decide (k ≤ subs.length) && go subs
  | _ => true
where go : List Policy → Bool
  | [] => true
  | p :: ps => constructible p && go ps

/-- what `Policy::from_str` accepts when every threshold is written `thresh(k,…)`: in addition
to `constructible`, a 1-of-n or n-of-n threshold in that spelling is refused (`IllegalOr` /
`IllegalAnd`) -/
def threshTextAcceptable : Policy → Bool
  | .atom (.after n) => decide (1 ≤ n) && decide (n ≤ 2147483647)
  | .atom (.older n) => decide (n ≠ 0) && decide (n < 2147483648)
  | .thresh k subs => decide (1 < k) && decide (k < subs.length) && go subs
  | _ => true
where go : List Policy → Bool
  | [] => true
  | p :: ps => threshTextAcceptable p && go ps

/-! ## `normalized` -/

/-- the body of the `for sub in subs` loop of `normalized`: what one (already normalized) child
contributes to `ret_subs` -/
def normSub (isAnd isOr : Bool) : Policy → List Policy
  | .trivial => []
  | .unsat => []
  | .thresh k' ss =>
    match isAnd, isOr with
    | true, true => [.thresh k' ss]                                   -- m = n = 1
    | true, false => if k' == ss.length then ss else [.thresh k' ss]  -- and case
    | false, true => if k' == 1 then ss else [.thresh k' ss]          -- or case
    | _, _ => [.thresh k' ss]
  | x => [x]

/-- the tail of `normalized` ("Now reason about m of n threshold") -/
def normFinish (m : Nat) (isAnd isOr : Bool) (ret : List Policy) : Policy :=
  if m == 0 then .trivial
  else if m > ret.length then .unsat
  else match ret with
    | [x] => x
    | _ =>
      if isAnd then .thresh ret.length ret
      else if isOr then .thresh 1 ret
      else .thresh m ret

/-- `normalized` on a threshold whose children `subs` are already normalized -/
def normThresh (k : Nat) (subs : List Policy) : Policy :=
  let trivialCount := subs.countP isTrivial
  let unsatisfiedCount := subs.countP isUnsat
  let n := subs.length - unsatisfiedCount - trivialCount
  let m := k - trivialCount                      -- saturating_sub
  let isAnd := m == n
  let isOr := m == 1
  normFinish m isAnd isOr (subs.flatMap (normSub isAnd isOr))

mutual
/-- `Policy::normalized` -/
def normalized : Policy → Policy
  | .thresh k subs => normThresh k (normalizedList subs)
  | x => x
def normalizedList : List Policy → List Policy
  | [] => []
  | p :: ps => normalized p :: normalizedList ps
end

/-! ## `sorted` (`Ord for Policy`) -/

/-- position of `variant_name()` in string order:
after < hash160 < hash256 < key < older < ripemd160 < sha256 < thresh < trivial < unsatisfiable -/
def variantRank : Policy → Nat
  | .atom (.after _) => 0
  | .atom (.hash .hash160 _) => 1
  | .atom (.hash .hash256 _) => 2
  | .atom (.key _) => 3
  | .atom (.older _) => 4
  | .atom (.hash .ripemd160 _) => 5
  | .atom (.hash .sha256 _) => 6
  | .thresh _ _ => 7
  | .trivial => 8
  | .unsat => 9

/-- payload of a leaf (compared after the variant) -/
def leafPayload : Policy → Nat
  | .atom (.after n) => n
  | .atom (.older n) => n
  | .atom (.key i) => i
  | .atom (.hash _ h) => h
  | _ => 0

mutual
/-- `Ord::cmp for Policy`: variant name, then payload; thresholds by the derived order of
`Threshold { k, inner }` (k first, then the children lexicographically).  `a.then b` is
`match a { Equal => b, ord => ord }`. -/
def cmp : Policy → Policy → Ordering
  | .thresh k1 s1, .thresh k2 s2 => (compare k1 k2).then (cmpList s1 s2)
  | a, b => (compare (variantRank a) (variantRank b)).then (compare (leafPayload a) (leafPayload b))
def cmpList : List Policy → List Policy → Ordering
  | [], [] => .eq
  | [], _ :: _ => .lt
  | _ :: _, [] => .gt
  | a :: as, b :: bs => (cmp a b).then (cmpList as bs)
end

def le (a b : Policy) : Bool := cmp a b != .gt

mutual
/-- `Policy::sorted` (`[T]::sort` is a stable sort) -/
def sorted : Policy → Policy
  | .thresh k subs => .thresh k ((sortedList subs).mergeSort le)
  | x => x
def sortedList : List Policy → List Policy
  | [] => []
  | p :: ps => sorted p :: sortedList ps
end

/-! ## `at_age`, `at_lock_time` -/

/-- `relative::LockTime::from(t).is_implied_by(age)` where both are given by their
`nSequence` encoding (`age` has the disable flag clear): same unit and value ≤ -/
def relImplied (t age : Nat) : Bool :=
  (relIsTime t == relIsTime age) && decide (relValue t ≤ relValue age)

/-- `absolute::LockTime::from(t).is_implied_by(n)`: same unit and ≤ -/
def absImplied (t n : Nat) : Bool :=
  (absIsHeight t == absIsHeight n) && decide (t ≤ n)

mutual
/-- the tree rebuilt by the loop of `at_age`, before the final `normalized()` -/
def atAgeRaw (age : Nat) : Policy → Policy
  | .atom (.older t) => if relImplied t age then .atom (.older t) else .unsat
  | .thresh k subs => .thresh k (atAgeRawList age subs)
  | x => x
def atAgeRawList (age : Nat) : List Policy → List Policy
  | [] => []
  | p :: ps => atAgeRaw age p :: atAgeRawList age ps
end

/-- `Policy::at_age` -/
def atAge (age : Nat) (p : Policy) : Policy := normalized (atAgeRaw age p)

mutual
def atLockTimeRaw (n : Nat) : Policy → Policy
  | .atom (.after t) => if absImplied t n then .atom (.after t) else .unsat
  | .thresh k subs => .thresh k (atLockTimeRawList n subs)
  | x => x
def atLockTimeRawList (n : Nat) : List Policy → List Policy
  | [] => []
  | p :: ps => atLockTimeRaw n p :: atLockTimeRawList n ps
end

/-- `Policy::at_lock_time` -/
def atLockTime (n : Nat) (p : Policy) : Policy := normalized (atLockTimeRaw n p)

/-! ## `relative_timelocks`, `absolute_timelocks` -/

/-- `Vec::dedup`: consecutive equal elements collapse -/
def dedupAdj : List Nat → List Nat
  | [] => []
  | [x] => [x]
  | x :: y :: rest => if x == y then dedupAdj (y :: rest) else x :: dedupAdj (y :: rest)

/-- `sort_unstable(); dedup()` -/
def sortDedup (l : List Nat) : List Nat := dedupAdj (l.mergeSort (fun a b => decide (a ≤ b)))

/-- `Policy::relative_timelocks`: the `older` values in pre-order, sorted, without repetitions -/
def relativeTimelocks (p : Policy) : List Nat :=
  sortDedup ((atomsOf p).filterMap fun | .older t => some t | _ => none)

/-- `Policy::absolute_timelocks` -/
def absoluteTimelocks (p : Policy) : List Nat :=
  sortDedup ((atomsOf p).filterMap fun | .after t => some t | _ => none)

/-! ## key counting -/

mutual
/-- `Policy::n_keys` -/
def nKeys : Policy → Nat
  | .atom (.key _) => 1
  | .thresh _ subs => nKeysList subs
  | _ => 0
def nKeysList : List Policy → Nat
  | [] => 0
  | p :: ps => nKeys p + nKeysList ps
end

/-- the `Thresh` arm of `minimum_n_keys`, given the children's results -/
def minKeysThresh (k : Nat) (subResults : List (Option Nat)) : Option Nat :=
  let sublens := subResults.filterMap id
  if sublens.length < k then none
  else some ((sublens.mergeSort (fun a b => decide (a ≤ b))).take k).sum

mutual
/-- `Policy::minimum_n_keys` -/
def minimumNKeys : Policy → Option Nat
  | .unsat => none
  | .atom (.key _) => some 1
  | .thresh k subs => minKeysThresh k (minimumNKeysList subs)
  | _ => some 0
def minimumNKeysList : List Policy → List (Option Nat)
  | [] => []
  | p :: ps => minimumNKeys p :: minimumNKeysList ps
end

/-! ## entailment -/

mutual
/-- `Policy::n_terminals` -/
def nTerminals : Policy → Nat
  | .thresh _ subs => nTerminalsList subs
  | .trivial => 0
  | .unsat => 0
  | _ => 1
def nTerminalsList : List Policy → Nat
  | [] => 0
  | p :: ps => nTerminals p + nTerminalsList ps
end

/-- `Policy::first_constraint`.  (`thresh.data()[0]` on an empty threshold would panic; no
`Threshold` is empty, the model returns the node itself there.) -/
def firstConstraint : Policy → Policy
  | .thresh k subs => go k subs
  | x => x
where go (k : Nat) : List Policy → Policy
  | [] => .thresh k []
  | p :: _ => firstConstraint p

/-- `==` of a non-threshold policy with the witness leaf -/
def leafEq : Policy → Policy → Bool
  | .unsat, .unsat => true
  | .trivial, .trivial => true
  | .atom a, .atom b => a == b
  | _, _ => false

mutual
/-- `Policy::satisfy_constraint` (`witness` is a leaf; a threshold witness panics in the Rust
and is never produced by `first_constraint`) -/
def satisfyConstraint (witness : Policy) (available : Bool) : Policy → Policy
  | .thresh k subs => normalized (.thresh k (satisfyConstraintList witness available subs))
  | leaf =>
    normalized (if leafEq leaf witness then (if available then .trivial else .unsat) else leaf)
def satisfyConstraintList (witness : Policy) (available : Bool) : List Policy → List Policy
  | [] => []
  | p :: ps => satisfyConstraint witness available p :: satisfyConstraintList witness available ps
end

/-- answers of `entails`; `outOfFuel` never occurs (`C18.entails_fuel`) -/
inductive EntRes
  | none               -- `None`: too many terminals
  | some (b : Bool)
  | outOfFuel
  deriving DecidableEq, Repr, Inhabited

/-- `x? && y?` of `Some(Self::entails(a1, b1)? && Self::entails(a2, b2)?)`: the second call
happens only when the first one said `Some(true)` (`&&` short-circuits) -/
def EntRes.andThen : EntRes → (Unit → EntRes) → EntRes
  | .some true, k => k ()
  | o, _ => o

/-- the `match (self.normalized(), other.normalized())` of `entails`; `rec` is the recursive
call `Self::entails` -/
def entailsStep (rec : Policy → Policy → EntRes) : Policy → Policy → EntRes
  | .unsat, _ => .some true
  | .trivial, .trivial => .some true
  | .trivial, _ => .some false
  | _, .unsat => .some false
  | aNorm, bNorm =>
    let fc := firstConstraint aNorm
    let a1 := satisfyConstraint fc true aNorm
    let b1 := satisfyConstraint fc true bNorm
    let a2 := satisfyConstraint fc false aNorm
    let b2 := satisfyConstraint fc false bNorm
    -- `Some(Self::entails(a1, b1)? && Self::entails(a2, b2)?)`
    (rec a1 b1).andThen (fun _ => rec a2 b2)

/-- `Policy::entails` with explicit recursion fuel: the terminal bound is checked on the
un-normalized `self`, then both sides are normalized and matched -/
def entailsF : Nat → Policy → Policy → EntRes
  | 0, _, _ => .outOfFuel
  | fuel + 1, a, b =>
    if nTerminals a > ENTAILMENT_MAX_TERMINALS then .none
    else entailsStep (entailsF fuel) (normalized a) (normalized b)

/-- `Policy::entails` -/
def entails (a b : Policy) : EntRes := entailsF (nTerminals a + 2) a b

end MsVerif.Pol.Sem

/-! ## Predicates used in the statements of the C18 theorems (not Rust functions) -/
namespace MsVerif.Pol
open Sem

def isConst (p : Policy) : Bool := isTrivial p || isUnsat p
/-- k-of-k threshold -/
def isAndT : Policy → Bool
  | .thresh k ss => k == ss.length
  | _ => false
/-- 1-of-n threshold -/
def isOrT : Policy → Bool
  | .thresh k _ => k == 1
  | _ => false
def childrenOf : Policy → List Policy
  | .thresh _ ss => ss
  | _ => []

mutual
/-- Normal form — what `normalized` returns (C18.normalized_normal_form) and leaves unchanged
(C18.normalized_fixes_normal_forms): no constants below the root, every threshold has ≥ 2
children and `1 ≤ k ≤ n`, no k-of-k child directly under a k-of-k node and no 1-of-n child
directly under a 1-of-n node. -/
def NF : Policy → Bool
  | .thresh k ss =>
    decide (2 ≤ ss.length) && decide (1 ≤ k) && decide (k ≤ ss.length)
      && NFl (k == ss.length) (k == 1) ss
  | _ => true
def NFl (a o : Bool) : List Policy → Bool
  | [] => true
  | p :: ps => NF p && !isConst p && !(a && isAndT p) && !(o && isOrT p) && NFl a o ps
end

mutual
/-- `q` is `p` with the children of thresholds — at any depth — permuted -/
inductive ChildPerm : Policy → Policy → Prop
  | refl (p : Policy) : ChildPerm p p
  | symm {a b : Policy} : ChildPerm a b → ChildPerm b a
  | trans {a b c : Policy} : ChildPerm a b → ChildPerm b c → ChildPerm a c
  | perm (k : Nat) {l1 l2 : List Policy} : l1.Perm l2 → ChildPerm (.thresh k l1) (.thresh k l2)
  | congr (k : Nat) {l1 l2 : List Policy} : ChildPermList l1 l2 →
      ChildPerm (.thresh k l1) (.thresh k l2)
/-- member by member -/
inductive ChildPermList : List Policy → List Policy → Prop
  | nil : ChildPermList [] []
  | cons {a b : Policy} {as bs : List Policy} : ChildPerm a b → ChildPermList as bs →
      ChildPermList (a :: as) (b :: bs)
end

end MsVerif.Pol

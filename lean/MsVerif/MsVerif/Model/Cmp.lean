/-
Literal models of

* the generic tree iterators of `src/iter/tree.rs` (`PreOrderIter`, `PostOrderIter`,
  the `Rtl` adaptor = `rtl_post_order_iter`),
* the hand-written `PartialEq` and `Hash` for `Terminal` (`src/miniscript/decode.rs`),
* `Ord for Terminal` over the display tree (`src/miniscript/display.rs`),
* `Clone for Miniscript` (`src/miniscript/mod.rs`): a fold over the right-to-left post-order
  traversal that rebuilds every node from a stack with `stack.pop().unwrap()` per child.

Everything follows the Rust control flow: the iterators are stack machines driven by fuel
(`Lemmas/TreeWalk.lean` proves that the fuel used here always suffices and that the machines
yield the structural traversals `Ms.pre` / `Ms.rtlPost`), `==` is the zip of two pre-order
traversals with the per-node `match` arms as written (guard fails ⇒ fall through to the
catch-all that compares discriminants only), `hash` is the sequence of items fed to the hasher,
`cmp` has an explicit `Panic` where the Rust has `unreachable!`.

The model follows the code AFTER the two fixes `Terminal equality compares thresh k and arity`
(e7035cf1: the `(Thresh, Thresh)` arm of `eq`) and `Ord for Terminal compares the number of
children of a node` (150fe1e9: `.then(me_n.cmp(&you_n))` in the `(Node, Node)` arm of `cmp`).
No imports beyond `Model/Ast.lean`.
-/
import MsVerif.Model.Ast

namespace MsVerif

/-! ## `src/iter/tree.rs` -/

/-- `enum Tree<T, NT>`; the n-ary children (`NaryChildren` + `nary_len` + `nary_index`) are a list -/
inductive Tree (α : Type) where
  | nullary
  | unary (a : α)
  | binary (a b : α)
  | ternary (a b c : α)
  | nary (cs : List α)

namespace Tree
variable {α : Type}

/-- `n_children` / `nth_child`: the children left to right -/
def children : Tree α → List α
  | .nullary => []
  | .unary a => [a]
  | .binary a b => [a, b]
  | .ternary a b c => [a, b, c]
  | .nary cs => cs

/-- `impl TreeLike for Rtl<T>`: `as_node` swaps the children, `nary_index(tc, idx)` reads
`tc[len - idx - 1]` -/
def rtl : Tree α → Tree α
  | .nullary => .nullary
  | .unary a => .unary a
  | .binary a b => .binary b a
  | .ternary a b c => .ternary c b a
  | .nary cs => .nary cs.reverse

end Tree

section Iter
variable {α β σ : Type}

/-- run an iterator (`next : state → Option (item, state)`) to exhaustion, at most `fuel` items -/
def iterCollect (next : σ → Option (β × σ)) : Nat → σ → List β
  | 0, _ => []
  | fuel + 1, s =>
    match next s with
    | none => []
    | some (b, s') => b :: iterCollect next fuel s'

/-- `Vec::push` of all n-ary children in the order `for i in (0..len).rev()`; the head of the
list is the top of the `Vec` stack -/
def pushRev (cs : List α) (stack : List α) : List α :=
  cs.reverse.foldl (fun st c => c :: st) stack

/-- `PreOrderIter::next`: pop the top, push its children right to left, yield it -/
def preOrderNext (asNode : α → Tree α) : List α → Option (α × List α)
  | [] => none
  | top :: stack =>
    some (top,
      match asNode top with
      | .nullary => stack
      | .unary n => n :: stack
      | .binary l r => l :: r :: stack          -- push(right); push(left)
      | .ternary a b c => a :: b :: c :: stack  -- push(c); push(b); push(a)
      | .nary cs => pushRev cs stack)

/-- `x.pre_order_iter().collect()` with at most `fuel` items -/
def preOrderIter (asNode : α → Tree α) (fuel : Nat) (root : α) : List α :=
  iterCollect (preOrderNext asNode) fuel [root]

/-- `PostOrderIter` without the child-index bookkeeping (nobody modelled here reads it):
the stack holds `(elem, processed)`.  One step: an unprocessed top is marked processed, pushed
back, and its children are pushed `for idx in (0..n).rev()` (so child 0 ends on top), then
`self.next()` is called again; a processed top is yielded.  `fuel` bounds the number of steps. -/
def postOrderCollect (asNode : α → Tree α) : Nat → List (α × Bool) → List α
  | 0, _ => []
  | _ + 1, [] => []
  | fuel + 1, (x, true) :: stack => x :: postOrderCollect asNode fuel stack
  | fuel + 1, (x, false) :: stack =>
    postOrderCollect asNode fuel
      (pushRev ((asNode x).children.map (·, false)) ((x, true) :: stack))

/-- `x.post_order_iter()` -/
def postOrderIter (asNode : α → Tree α) (fuel : Nat) (root : α) : List α :=
  postOrderCollect asNode fuel [(root, false)]

/-- `x.rtl_post_order_iter()` = `Rtl(x).post_order_iter()` with the wrapper removed -/
def rtlPostOrderIter (asNode : α → Tree α) (fuel : Nat) (root : α) : List α :=
  postOrderCollect (fun x => (asNode x).rtl) fuel [(root, false)]

end Iter

/-! ## `impl TreeLike for &Terminal` / `&Miniscript` (src/iter/mod.rs) -/

/-- `as_node` -/
def Ms.asNode : Ms → Tree Ms
  | .tru | .fls | .pkK _ | .pkH _ | .rawPkH _ | .after _ | .older _ | .hash _ _
  | .multi _ _ | .sortedMulti _ _ | .multiA _ _ | .sortedMultiA _ _ => .nullary
  | .alt x | .swap x | .check x | .dupIf x | .verify x | .nonZero x | .zeroNotEqual x => .unary x
  | .andV l r | .andB l r | .orB l r | .orD l r | .orC l r | .orI l r => .binary l r
  | .andOr a b c => .ternary a b c
  | .thresh _ xs => .nary xs.toList

/-- `ms.pre_order_iter()`; `nodes` items of fuel suffice (`TreeWalk.preOrder_eq_pre`) -/
def Ms.preOrder (ms : Ms) : List Ms := preOrderIter Ms.asNode ms.nodes ms

/-- `ms.rtl_post_order_iter()`; every node costs two steps (`TreeWalk.rtlPostOrder_eq`) -/
def Ms.rtlPostOrder (ms : Ms) : List Ms := rtlPostOrderIter Ms.asNode (2 * ms.nodes) ms

/-! ### the structural traversals the stack machines are proved equal to -/

mutual
/-- pre-order: node, then the children left to right -/
def Ms.pre : Ms → List Ms
  | .alt x => .alt x :: x.pre
  | .swap x => .swap x :: x.pre
  | .check x => .check x :: x.pre
  | .dupIf x => .dupIf x :: x.pre
  | .verify x => .verify x :: x.pre
  | .nonZero x => .nonZero x :: x.pre
  | .zeroNotEqual x => .zeroNotEqual x :: x.pre
  | .andV l r => .andV l r :: (l.pre ++ r.pre)
  | .andB l r => .andB l r :: (l.pre ++ r.pre)
  | .orB l r => .orB l r :: (l.pre ++ r.pre)
  | .orD l r => .orD l r :: (l.pre ++ r.pre)
  | .orC l r => .orC l r :: (l.pre ++ r.pre)
  | .orI l r => .orI l r :: (l.pre ++ r.pre)
  | .andOr a b c => .andOr a b c :: (a.pre ++ (b.pre ++ c.pre))
  | .thresh k xs => .thresh k xs :: xs.pre
  | t => [t]
def MsList.pre : MsList → List Ms
  | .nil => []
  | .cons x xs => x.pre ++ xs.pre
end

mutual
/-- right-to-left post-order: the children right to left, then the node -/
def Ms.rtlPost : Ms → List Ms
  | .alt x => x.rtlPost ++ [.alt x]
  | .swap x => x.rtlPost ++ [.swap x]
  | .check x => x.rtlPost ++ [.check x]
  | .dupIf x => x.rtlPost ++ [.dupIf x]
  | .verify x => x.rtlPost ++ [.verify x]
  | .nonZero x => x.rtlPost ++ [.nonZero x]
  | .zeroNotEqual x => x.rtlPost ++ [.zeroNotEqual x]
  | .andV l r => r.rtlPost ++ (l.rtlPost ++ [.andV l r])
  | .andB l r => r.rtlPost ++ (l.rtlPost ++ [.andB l r])
  | .orB l r => r.rtlPost ++ (l.rtlPost ++ [.orB l r])
  | .orD l r => r.rtlPost ++ (l.rtlPost ++ [.orD l r])
  | .orC l r => r.rtlPost ++ (l.rtlPost ++ [.orC l r])
  | .orI l r => r.rtlPost ++ (l.rtlPost ++ [.orI l r])
  | .andOr a b c => c.rtlPost ++ (b.rtlPost ++ (a.rtlPost ++ [.andOr a b c]))
  | .thresh k xs => xs.rtlPost ++ [.thresh k xs]
  | t => [t]
/-- the children of a `thresh`, last child first -/
def MsList.rtlPost : MsList → List Ms
  | .nil => []
  | .cons x xs => xs.rtlPost ++ x.rtlPost
end

/-! ## `impl PartialEq for Terminal` (decode.rs) -/

/-- position of the four hash variants `Sha256, Hash256, Ripemd160, Hash160` -/
def HashKind.idx : HashKind → Nat
  | .sha256 => 0 | .hash256 => 1 | .ripemd160 => 2 | .hash160 => 3

/-- `mem::discriminant`: the variant index in declaration order (the model's `hash kind _`
stands for the four variants 7..10) -/
def Ms.disc : Ms → Nat
  | .tru => 0 | .fls => 1 | .pkK _ => 2 | .pkH _ => 3 | .rawPkH _ => 4
  | .after _ => 5 | .older _ => 6
  | .hash kind _ => 7 + kind.idx
  | .alt _ => 11 | .swap _ => 12 | .check _ => 13 | .dupIf _ => 14 | .verify _ => 15
  | .nonZero _ => 16 | .zeroNotEqual _ => 17
  | .andV _ _ => 18 | .andB _ _ => 19 | .andOr _ _ _ => 20
  | .orB _ _ => 21 | .orD _ _ => 22 | .orC _ _ => 23 | .orI _ _ => 24
  | .thresh _ _ => 25 | .multi _ _ => 26 | .sortedMulti _ _ => 27 | .multiA _ _ => 28
  | .sortedMultiA _ _ => 29

/-- a `match` arm `(A(x), A(y)) if guard => return false`: when the guard is false the pair
falls through to the catch-all `_ => if discriminant(me) != discriminant(you) { return false }` -/
def armGuard (guard : Bool) (me you : Ms) : Bool :=
  if guard then true else me.disc != you.disc

/-- loop body of `eq`: `true` = `return false` (the nodes differ) -/
def nodeDiffers (me you : Ms) : Bool :=
  match me, you with
  | .pkK k1, .pkK k2 => armGuard (k1 != k2) me you
  | .pkH k1, .pkH k2 => armGuard (k1 != k2) me you
  | .rawPkH h1, .rawPkH h2 => armGuard (h1 != h2) me you
  | .after t1, .after t2 => armGuard (t1 != t2) me you
  | .older t1, .older t2 => armGuard (t1 != t2) me you
  -- the four arms `(Sha256(h1), Sha256(h2)) if h1 != h2`, … `(Hash160(h1), Hash160(h2)) if …`;
  -- two different hash variants fall through to the catch-all
  | .hash kind1 h1, .hash kind2 h2 =>
    if kind1 = kind2 then armGuard (h1 != h2) me you else me.disc != you.disc
  -- `th1 != th2` is the derived `PartialEq` of `Threshold { k, inner }`
  | .multi k1 ks1, .multi k2 ks2 => armGuard (k1 != k2 || ks1 != ks2) me you
  | .sortedMulti k1 ks1, .sortedMulti k2 ks2 => armGuard (k1 != k2 || ks1 != ks2) me you
  | .multiA k1 ks1, .multiA k2 ks2 => armGuard (k1 != k2 || ks1 != ks2) me you
  | .sortedMultiA k1 ks1, .sortedMultiA k2 ks2 => armGuard (k1 != k2 || ks1 != ks2) me you
  -- `(Thresh(th1), Thresh(th2)) if th1.k() != th2.k() || th1.n() != th2.n()`: the children are
  -- compared when the loop reaches them
  | .thresh k1 xs1, .thresh k2 xs2 => armGuard (k1 != k2 || xs1.length != xs2.length) me you
  | _, _ => me.disc != you.disc

/-- `for (me, you) in a.pre_order_iter().zip(b.pre_order_iter()) { … } true`: the zip stops
with the shorter traversal -/
def eqZip (differs : Ms → Ms → Bool) : List Ms → List Ms → Bool
  | me :: ms, you :: ys => if differs me you then false else eqZip differs ms ys
  | _, _ => true

/-- `Terminal::eq` = `Miniscript::eq` -/
def msEq (a b : Ms) : Bool := eqZip nodeDiffers a.preOrder b.preOrder

/-! ## `impl Hash for Terminal` (decode.rs) -/

/-- one item fed to the `Hasher` -/
inductive Word where
  | disc (n : Nat)                      -- `mem::discriminant(term).hash`
  | key (k : Key)                       -- `Pk::hash`
  | rawPkh (h : Nat)                    -- `hash160::Hash::hash`
  | after (n : Nat) | older (n : Nat)   -- `AbsLockTime::hash` / `RelLockTime::hash`
  | hash (kind : HashKind) (h : Nat)    -- `Pk::Sha256::hash` …
  | usize (n : Nat)                     -- `usize::hash`
  | len (n : Nat)                       -- the length prefix written by `Vec<T>::hash`
  deriving DecidableEq, Repr

/-- what one loop iteration of `hash` writes -/
def hashNode (term : Ms) : List Word :=
  Word.disc term.disc ::
  match term with
  | .pkK k => [.key k]
  | .pkH k => [.key k]
  | .rawPkH h => [.rawPkh h]
  | .after t => [.after t]
  | .older t => [.older t]
  | .hash kind h => [.hash kind h]
  | .thresh k xs => [.usize k, .usize xs.length]   -- `th.k().hash; th.n().hash`
  -- derived `Hash` of `Threshold { k, inner: Vec<Pk> }`: k, length prefix, the elements
  | .multi k ks | .sortedMulti k ks | .multiA k ks | .sortedMultiA k ks =>
    Word.usize k :: Word.len ks.length :: ks.map Word.key
  | _ => []

/-- `Terminal::hash` = `Miniscript::hash`: everything written to the hasher, in order -/
def hashWords (ms : Ms) : List Word := ms.preOrder.flatMap hashNode

/-! ## the display tree and `impl Ord for Terminal` (display.rs) -/

/-- `Terminal::fragment_name` as an enumeration (`str` gives the Rust string) -/
inductive FragName where
  | one | zero | pk_k | pk_h | after | older | sha256 | hash256 | ripemd160
  | hash160 | a | s | pk | pkh | expr_raw_pkh | c | d | v | j | n | t | and_v | and_n | and_b
  | andor | or_b | or_d | or_c | u | l | or_i | thresh | multi | sortedmulti | multi_a
  | sortedmulti_a
  deriving DecidableEq, Repr

def FragName.str : FragName → String
  | .one => "1" | .zero => "0" | .pk_k => "pk_k" | .pk_h => "pk_h"
  | .after => "after" | .older => "older"
  | .sha256 => "sha256" | .hash256 => "hash256" | .ripemd160 => "ripemd160"
  | .hash160 => "hash160" | .a => "a" | .s => "s" | .pk => "pk" | .pkh => "pkh"
  | .expr_raw_pkh => "expr_raw_pkh" | .c => "c" | .d => "d" | .v => "v" | .j => "j" | .n => "n"
  | .t => "t" | .and_v => "and_v" | .and_n => "and_n" | .and_b => "and_b" | .andor => "andor"
  | .or_b => "or_b" | .or_d => "or_d" | .or_c => "or_c" | .u => "u" | .l => "l" | .or_i => "or_i"
  | .thresh => "thresh" | .multi => "multi" | .sortedmulti => "sortedmulti"
  | .multi_a => "multi_a" | .sortedmulti_a => "sortedmulti_a"

/-- position of the name in the byte-wise (`str::cmp`) order of the 36 names;
`C19.fragRank_faithful` checks the table against `compare` on the strings -/
def FragName.rank : FragName → Nat
  | .zero => 0 | .one => 1 | .a => 2 | .after => 3 | .and_b => 4 | .and_n => 5 | .and_v => 6
  | .andor => 7 | .c => 8 | .d => 9 | .expr_raw_pkh => 10 | .hash160 => 11 | .hash256 => 12
  | .j => 13 | .l => 14 | .multi => 15 | .multi_a => 16 | .n => 17 | .older => 18 | .or_b => 19
  | .or_c => 20 | .or_d => 21 | .or_i => 22 | .pk => 23 | .pk_h => 24 | .pk_k => 25 | .pkh => 26
  | .ripemd160 => 27 | .s => 28 | .sha256 => 29 | .sortedmulti => 30 | .sortedmulti_a => 31
  | .t => 32 | .thresh => 33 | .u => 34 | .v => 35

def FragName.all : List FragName :=
  [.one, .zero, .pk_k, .pk_h, .after, .older, .sha256, .hash256, .ripemd160,
   .hash160, .a, .s, .pk, .pkh, .expr_raw_pkh, .c, .d, .v, .j, .n, .t, .and_v, .and_n, .and_b,
   .andor, .or_b, .or_d, .or_c, .u, .l, .or_i, .thresh, .multi, .sortedmulti, .multi_a,
   .sortedmulti_a]

def FragName.ofHash : HashKind → FragName
  | .sha256 => .sha256 | .hash256 => .hash256 | .ripemd160 => .ripemd160 | .hash160 => .hash160

/-- `matches!(x.as_inner(), Terminal::True)` / `Terminal::False` -/
def Ms.isTrue : Ms → Bool
  | .tru => true
  | _ => false
def Ms.isFalse : Ms → Bool
  | .fls => true
  | _ => false

/-- `Terminal::fragment_name`; the `if matches!(…)` guards of the Rust arms are the `if`s and
the inner `match` here, tested in source order (`u` before `l`) -/
def Ms.fragName : Ms → FragName
  | .tru => .one
  | .fls => .zero
  | .pkK _ => .pk_k
  | .pkH _ => .pk_h
  | .rawPkH _ => .expr_raw_pkh
  | .after _ => .after
  | .older _ => .older
  | .hash kind _ => FragName.ofHash kind
  | .alt _ => .a
  | .swap _ => .s
  | .check sub =>
    match sub with
    | .pkK _ => .pk
    | .pkH _ => .pkh
    | _ => .c
  | .dupIf _ => .d
  | .verify _ => .v
  | .nonZero _ => .j
  | .zeroNotEqual _ => .n
  | .andV _ r => if r.isTrue then .t else .and_v
  | .andOr _ _ c => if c.isFalse then .and_n else .andor
  | .andB _ _ => .and_b
  | .orB _ _ => .or_b
  | .orD _ _ => .or_d
  | .orC _ _ => .or_c
  | .orI l r => if r.isFalse then .u else if l.isFalse then .l else .or_i
  | .thresh _ _ => .thresh
  | .multi _ _ => .multi
  | .sortedMulti _ _ => .sortedmulti
  | .multiA _ _ => .multi_a
  | .sortedMultiA _ _ => .sortedmulti_a

/-- `enum DisplayNode` (the `Type` carried by `Node` is never read by `cmp`) -/
inductive DNode where
  | node (t : Ms)
  | thresholdK (k : Nat)
  | key (k : Key)
  | rawKeyHash (h : Nat)
  | after (n : Nat)
  | older (n : Nat)
  | hash (kind : HashKind) (h : Nat)
  deriving DecidableEq, Repr

/-- `NaryChildren::Nodes(k, data)`: index 0 is `ThresholdK(k)`, index i is `data[i-1]` -/
def naryNodes (k : Nat) (xs : MsList) : List DNode := .thresholdK k :: xs.toList.map .node
/-- `NaryChildren::Keys(k, data)` -/
def naryKeys (k : Nat) (ks : List Key) : List DNode := .thresholdK k :: ks.map .key

/-- `impl TreeLike for DisplayNode`: `as_node`; guards as in `fragName` (here `l:` is tested
before `u:`, as in the source) -/
def DNode.asNode : DNode → Tree DNode
  | .node t =>
    match t with
    | .tru | .fls => .nullary
    | .pkK pk | .pkH pk => .unary (.key pk)
    | .rawPkH h => .unary (.rawKeyHash h)
    | .after n => .unary (.after n)
    | .older n => .unary (.older n)
    | .hash kind h => .unary (.hash kind h)
    | .check sub =>
      match sub with
      | .pkK pk | .pkH pk => .unary (.key pk)
      | _ => .unary (.node sub)
    | .alt sub | .swap sub | .dupIf sub | .verify sub | .nonZero sub | .zeroNotEqual sub =>
      .unary (.node sub)
    | .andV left right =>
      if right.isTrue then .unary (.node left) else .binary (.node left) (.node right)
    | .orI left right =>
      if left.isFalse then .unary (.node right)
      else if right.isFalse then .unary (.node left)
      else .binary (.node left) (.node right)
    | .andB left right | .orB left right | .orD left right | .orC left right =>
      .binary (.node left) (.node right)
    | .andOr a b c =>
      if c.isFalse then .binary (.node a) (.node b) else .ternary (.node a) (.node b) (.node c)
    | .thresh k xs => .nary (naryNodes k xs)
    | .multi k ks | .sortedMulti k ks | .multiA k ks | .sortedMultiA k ks => .nary (naryKeys k ks)
  | _ => .nullary

mutual
/-- number of display nodes below (and including) `DisplayNode::Node(_, t)` -/
def Ms.dsize : Ms → Nat
  | .tru | .fls => 1
  | .pkK _ | .pkH _ | .rawPkH _ | .after _ | .older _ | .hash _ _ => 2
  | .check x => x.dsize + 1     -- an upper bound for `pk`/`pkh` sugar (exact: 2)
  | .alt x | .swap x | .dupIf x | .verify x | .nonZero x | .zeroNotEqual x => x.dsize + 1
  | .andV l r | .andB l r | .orB l r | .orD l r | .orC l r | .orI l r => l.dsize + r.dsize + 1
  | .andOr a b c => a.dsize + b.dsize + c.dsize + 1
  | .thresh _ xs => xs.dsize + 2
  | .multi _ ks | .sortedMulti _ ks | .multiA _ ks | .sortedMultiA _ ks => ks.length + 2
def MsList.dsize : MsList → Nat
  | .nil => 0
  | .cons x xs => x.dsize + xs.dsize
end

/-- `DisplayNode::Node(Type::FALSE, t).pre_order_iter()`; `dsize` is an upper bound on the
number of display nodes, and unused fuel changes nothing -/
def Ms.displayPreOrder (t : Ms) : List DNode := preOrderIter DNode.asNode t.dsize (.node t)

/-- the explicit outcome for `unreachable!("if the type of a node differs, …")` -/
inductive Panic where
  | unreachable
  | unwrapNone      -- `stack.pop().unwrap()` on an empty stack
  | assertFailed    -- `assert_eq!(stack.len(), 1)`
  deriving DecidableEq, Repr

/-- orders of the atoms (`Pk::cmp`, `hash160::Hash::cmp`, `Pk::Sha256::cmp` …); time locks
are compared by `cmp_by_consensus`, i.e. as numbers -/
structure AtomOrd where
  key : Key → Key → Ordering
  rawPkh : Nat → Nat → Ordering
  hash : HashKind → Nat → Nat → Ordering

/-- `compare` on `Nat` spelled out (stable under `decide`) -/
def natCmp (a b : Nat) : Ordering := if a < b then .lt else if a = b then .eq else .gt

/-- `me.fragment_name().cmp(you.fragment_name())` -/
def fragCmp (a b : Ms) : Ordering := natCmp a.fragName.rank b.fragName.rank

/-- the `match (me, you)` inside the loop of `cmp` -/
def dnodeCmp (o : AtomOrd) (me you : DNode) : Except Panic Ordering :=
  match me, you with
  -- `me.fragment_name().cmp(you.fragment_name()).then(me_n.cmp(&you_n))` with
  -- `(me_n, you_n) = (me.n_children(), you.n_children())` of the two `DisplayNode`s
  | .node a, .node b =>
    .ok ((fragCmp a b).then
      (natCmp (DNode.asNode (.node a)).children.length (DNode.asNode (.node b)).children.length))
  | .thresholdK a, .thresholdK b => .ok (natCmp a b)
  | .key a, .key b => .ok (o.key a b)
  | .rawKeyHash a, .rawKeyHash b => .ok (o.rawPkh a b)
  | .after a, .after b => .ok (natCmp a b)
  | .older a, .older b => .ok (natCmp a b)
  -- `(Sha256(me), Sha256(you))` … `(Hash160(me), Hash160(you))`; mixed kinds are unreachable
  | .hash kind1 a, .hash kind2 b => if kind1 = kind2 then .ok (o.hash kind1 a b) else .error .unreachable
  | _, _ => .error .unreachable

/-- the `for (me, you) in ….zip(…)` loop of `cmp`, ending in `Ordering::Equal` -/
def cmpZip (cmp1 : DNode → DNode → Except Panic Ordering) : List DNode → List DNode → Except Panic Ordering
  | me :: ms, you :: ys =>
    match cmp1 me you with
    | .error p => .error p
    | .ok .lt => .ok .lt
    | .ok .gt => .ok .gt
    | .ok .eq => cmpZip cmp1 ms ys
  | _, _ => .ok .eq

/-- `Terminal::cmp` = `Miniscript::cmp` -/
def msCmp (o : AtomOrd) (a b : Ms) : Except Panic Ordering :=
  match fragCmp a b with
  | .lt => .ok .lt
  | .gt => .ok .gt
  | .eq => cmpZip (dnodeCmp o) a.displayPreOrder b.displayPreOrder

/-! ## `impl Clone for Miniscript` (mod.rs) -/

/-- `stack.pop()` -/
def pop? {α : Type} : List α → Option (α × List α)
  | [] => none
  | x :: st => some (x, st)

/-- `thresh.map_ref(|_| stack.pop().unwrap())`: one pop per child, in child order -/
def popEach {α β : Type} : List β → List α → Option (List α × List α)
  | [], st => some ([], st)
  | _ :: cs, st =>
    match pop? st with
    | none => none
    | some (x, st) =>
      match popEach cs st with
      | none => none
      | some (xs, st) => some (x :: xs, st)

/-- the body of the `for item in self.rtl_post_order_iter()` loop of `clone`: build the new
node from the stack (argument expressions are evaluated left to right, so the FIRST pop is
the FIRST child), push it.  `none` = an `unwrap()` on an empty stack. -/
def cloneStep (stack : List Ms) (item : Ms) : Option (List Ms) :=
  let un (mk : Ms → Ms) : Option (List Ms) :=
    match pop? stack with
    | some (x, st) => some (mk x :: st)
    | none => none
  let bin (mk : Ms → Ms → Ms) : Option (List Ms) :=
    match pop? stack with
    | some (x, st) =>
      match pop? st with
      | some (y, st) => some (mk x y :: st)
      | none => none
    | none => none
  match item with
  | .pkK p => some (.pkK p :: stack)
  | .pkH p => some (.pkH p :: stack)
  | .rawPkH p => some (.rawPkH p :: stack)
  | .after n => some (.after n :: stack)
  | .older n => some (.older n :: stack)
  | .hash kind x => some (.hash kind x :: stack)
  | .tru => some (.tru :: stack)
  | .fls => some (.fls :: stack)
  | .alt _ => un .alt
  | .swap _ => un .swap
  | .check _ => un .check
  | .dupIf _ => un .dupIf
  | .verify _ => un .verify
  | .nonZero _ => un .nonZero
  | .zeroNotEqual _ => un .zeroNotEqual
  | .andV _ _ => bin .andV
  | .andB _ _ => bin .andB
  | .andOr _ _ _ =>
    match pop? stack with
    | some (x, st) =>
      match pop? st with
      | some (y, st) =>
        match pop? st with
        | some (z, st) => some (.andOr x y z :: st)
        | none => none
      | none => none
    | none => none
  | .orB _ _ => bin .orB
  | .orD _ _ => bin .orD
  | .orC _ _ => bin .orC
  | .orI _ _ => bin .orI
  | .thresh k xs =>
    match popEach xs.toList stack with
    | some (ys, st) => some (.thresh k (MsList.ofList ys) :: st)
    | none => none
  | .multi k ks => some (.multi k ks :: stack)
  | .sortedMulti k ks => some (.sortedMulti k ks :: stack)
  | .multiA k ks => some (.multiA k ks :: stack)
  | .sortedMultiA k ks => some (.sortedMultiA k ks :: stack)

/-- the `for` loop -/
def cloneLoop : List Ms → List Ms → Except Panic (List Ms)
  | [], stack => .ok stack
  | item :: items, stack =>
    match cloneStep stack item with
    | none => .error .unwrapNone
    | some stack => cloneLoop items stack

/-- `Miniscript::clone`: loop, `assert_eq!(stack.len(), 1)`, `stack.pop().unwrap()` -/
def msClone (ms : Ms) : Except Panic Ms :=
  match cloneLoop ms.rtlPostOrder [] with
  | .error p => .error p
  | .ok [x] => .ok x
  | .ok _ => .error .assertFailed

end MsVerif

/-
Model of the element-wise operations of `Threshold<T, MAX>` (src/primitives/threshold.rs):
`map`, `map_ref`, `translate`, `translate_ref`, `translate_by_index`, `map_from_post_order_iter`.
`k` is kept, the elements are processed left to right, a failing closure stops the walk
(`collect::<Result<Vec<_>, _>>()` does not call the closure again after the first `Err`).
The number of closure calls is part of the result of the fallible operations.
-/
namespace MsVerif

structure Thr (α : Type) where
  k : Nat
  inner : List α
  deriving Repr, DecidableEq

namespace Thr
variable {α β ε : Type}

/-- `map` / `map_ref` -/
def map (f : α → β) (t : Thr α) : Thr β := ⟨t.k, t.inner.map f⟩

/-- left-to-right walk with a fallible closure: (result, number of closure calls) -/
def walk (f : α → Except ε β) : List α → Except ε (List β) × Nat
  | [] => (.ok [], 0)
  | x :: xs =>
    match f x with
    | .error e => (.error e, 1)
    | .ok y =>
      match walk f xs with
      | (.ok ys, n) => (.ok (y :: ys), n + 1)
      | (.error e, n) => (.error e, n + 1)

/-- `translate` / `translate_ref` -/
def translate (f : α → Except ε β) (t : Thr α) : Except ε (Thr β) × Nat :=
  match walk f t.inner with
  | (.ok ys, n) => (.ok ⟨t.k, ys⟩, n)
  | (.error e, n) => (.error e, n)

/-- `translate_by_index`: the closure sees `0..n` -/
def translateByIndex (f : Nat → Except ε β) (t : Thr α) : Except ε (Thr β) × Nat :=
  match walk f (List.range t.inner.length) with
  | (.ok ys, n) => (.ok ⟨t.k, ys⟩, n)
  | (.error e, n) => (.error e, n)

/-- `map_from_post_order_iter(child_indices, processed)`: `processed[n].clone()` for every child
index; `none` = index out of bounds (panic) -/
def mapFromPostOrder (childIndices : List Nat) (processed : List β) (t : Thr α) : Option (Thr β) :=
  (childIndices.mapM fun n => processed[n]?).map fun ys => ⟨t.k, ys⟩

end Thr
end MsVerif

/-
Model of `src/miniscript/decode.rs` (`decode`: the `NonTerm` stack machine, `TerminalStack`,
`match_token!`, `is_and_v`) and of `Miniscript::decode_with_validation_params` /
`decode_consensus` (src/miniscript/mod.rs) including `Miniscript::from_ast`,
`Ctx::check_global_validity` (src/miniscript/context.rs) and `Miniscript::validate` for the
four `Ctx::CONSENSUS` parameter sets (src/validation.rs).

Conventions
* the token list is kept REVERSED (head = next token = `TokenIter::next()`); `un_next` is a cons;
* both stacks are lists with the top at the head;
* every `unwrap()` on `term.pop()` and the final `assert_eq!`s are explicit `.panic` outcomes;
* keys and hashes are atoms: byte strings are mapped back through an `AtomDec` (the driver
  builds it from the harness tables).  `KeyRes.unknown` / `none` mean "the byte string is not
  in the tables" and surface as the model-only outcome `.unknownAtom`.
-/
import MsVerif.Model.Lex
import MsVerif.Model.TypeCheck
import MsVerif.Model.Ext

namespace MsVerif

inductive NonTerm
  | expression | wExpression | swap | maybeAndV | alt | check | dupIf | verify | nonZero
  | zeroNotEqual | andV | andB | tern | orB | orD | orC
  | threshW (k n : Nat) | threshE (k n : Nat)
  | endIf | endIfNotIf | endIfElse
  deriving DecidableEq, Repr, Inhabited

inductive DecodeErr
  | lex (e : LexErr)
  | unexpected | unexpectedStart
  | key            -- `PubKeyCtxError`
  | lockTime       -- `AbsoluteLockTime` / `RelativeLockTime`
  | threshold      -- `Error::Threshold`
  | typeCheck | context | recursion   -- the three ways `from_ast` fails
  | trailing | validation
  | panic          -- an `unwrap`/`assert` of the Rust would fire
  | unknownAtom    -- model only: bytes not in the atom tables
  | fuel           -- model only: loop fuel exhausted (proved unreachable)
  deriving DecidableEq, Repr, Inhabited

/-- result of `Ctx::Key::from_slice` as far as the tables know -/
inductive KeyRes
  | ok (k : Key) | invalid | unknown
  deriving DecidableEq, Repr

/-- reverse lookup of atoms by their byte serialisation -/
structure AtomDec where
  /-- `bitcoin::PublicKey::from_slice` on 33 or 65 bytes with a plausible prefix -/
  full : Bytes → KeyRes
  /-- `XOnlyPublicKey::from_slice` on 32 bytes -/
  xonly : Bytes → KeyRes
  rawPkh : Bytes → Option Nat
  hash : HashKind → Bytes → Option Nat

/-- `Ctx::Key::from_slice`: `bitcoin::PublicKey` (33 bytes with prefix 02/03, or 65 bytes with
prefix 04) outside Taproot, `XOnlyPublicKey` (32 bytes) in Taproot -/
def parseKey (dec : AtomDec) (ctx : Ctx) (bs : Bytes) : Except DecodeErr Key :=
  let r : KeyRes :=
    match ctx with
    | .tap => if bs.length = 32 then dec.xonly bs else .invalid
    | _ =>
      if bs.length = 33 then
        (match bs with
         | b :: _ => if b == 2 || b == 3 then dec.full bs else .invalid
         | [] => .invalid)
      else if bs.length = 65 then
        (match bs with
         | b :: _ => if b == 4 then dec.full bs else .invalid
         | [] => .invalid)
      else .invalid
  match r with
  | .ok k => .ok k
  | .invalid => .error .key
  | .unknown => .error .unknownAtom

def lookupHash (dec : AtomDec) (kind : HashKind) (bs : Bytes) : Except DecodeErr Nat :=
  match dec.hash kind bs with
  | some h => .ok h
  | none => .error .unknownAtom

def lookupRawPkh (dec : AtomDec) (bs : Bytes) : Except DecodeErr Nat :=
  match dec.rawPkh bs with
  | some h => .ok h
  | none => .error .unknownAtom

/-! ### `Miniscript::from_ast` -/

def decIsXOnly (env : KeyEnv) (k : Key) : Bool := (env.ser k).length == 32

/-- `Ctx::check_pk` -/
def decCheckPk (env : KeyEnv) (ctx : Ctx) (k : Key) : Bool :=
  match ctx with
  | .bare | .legacy => !decIsXOnly env k
  | .segwitv0 => !isUnc env k && !decIsXOnly env k
  | .tap => !isUnc env k

/-- the `pk_cost` ceiling of `check_global_consensus_validity` + `check_global_policy_validity`
(Segwitv0: 10 000 by consensus, then 3 600 by policy) -/
def decMaxPkCost : Ctx → Nat
  | .bare => 10000 | .legacy => 520 | .segwitv0 => 3600 | .tap => 4000000

/-- `Ctx::check_global_validity` (node test first, then the size test) -/
def checkGlobal (env : KeyEnv) (ctx : Ctx) (ms : Ms) : Bool :=
  let nodeOk : Bool :=
    match ms with
    | .pkK k | .pkH k => decCheckPk env ctx k
    | .multi _ ks | .sortedMulti _ ks =>
      (match ctx with | .tap => false | _ => ks.all (decCheckPk env ctx))
    | .multiA _ ks | .sortedMultiA _ ks =>
      (match ctx with | .tap => ks.all (decCheckPk env ctx) | _ => false)
    | _ => true
  nodeOk && decide ((extOf env ctx ms).pkCost ≤ decMaxPkCost ctx)

def DEC_MAX_RECURSION_DEPTH : Nat := 402

/-- `Miniscript::from_ast`: type check, tree height, global validity -/
def fromAst (env : KeyEnv) (ctx : Ctx) (ms : Ms) : Except DecodeErr Ms :=
  match typeOf ms with
  | none => .error .typeCheck
  | some _ =>
    if (extOf env ctx ms).treeHeight > DEC_MAX_RECURSION_DEPTH then .error .recursion
    else if !checkGlobal env ctx ms then .error .context
    else .ok ms

/-! ### the decoder state machine -/

structure DState where
  toks : List Token
  nt : List NonTerm
  term : List Ms
  deriving Repr

/-- `is_and_v`: the next token is none of `If NotIf Else ToAltStack Swap` (and exists) -/
def isAndV : List Token → Bool
  | [] => false
  | .if_ :: _ | .notIf :: _ | .else_ :: _ | .toAlt :: _ | .swap :: _ => false
  | _ :: _ => true

/-- a run of fixed tokens inside one `match_token!` arm -/
def expectSeq : List Token → List Token → Except DecodeErr (List Token)
  | [], ts => .ok ts
  | _ :: _, [] => .error .unexpectedStart
  | e :: es, t :: ts => if t = e then expectSeq es ts else .error .unexpected

/-- `Tk::Verify, Tk::Equal, Tk::Num(32), Tk::Size` -/
def hashTail : List Token := [.verify, .equal, .num 32, .size]

/-- `TerminalStack::reduce1` -/
def reduce1 (env : KeyEnv) (ctx : Ctx) (wrap : Ms → Ms) (s : DState) : Except DecodeErr DState :=
  match s.term with
  | [] => .error .panic
  | x :: t =>
    match fromAst env ctx (wrap x) with
    | .error e => .error e
    | .ok m => .ok { s with term := m :: t }

/-- `TerminalStack::reduce2`: the first pop is `left` -/
def reduce2 (env : KeyEnv) (ctx : Ctx) (wrap : Ms → Ms → Ms) (s : DState) : Except DecodeErr DState :=
  match s.term with
  | l :: r :: t =>
    match fromAst env ctx (wrap l r) with
    | .error e => .error e
    | .ok m => .ok { s with term := m :: t }
  | _ => .error .panic

/-- the `for _ in 0..n` loop of the `multi` arm (keys in the order read = reverse script order) -/
def readMultiKeys (dec : AtomDec) (ctx : Ctx) :
    Nat → List Token → List Key → Except DecodeErr (List Key × List Token)
  | 0, ts, acc => .ok (acc, ts)
  | _ + 1, [], _ => .error .unexpectedStart
  | n + 1, .bytes33 pk :: ts, acc =>
    match parseKey dec ctx pk with
    | .error e => .error e
    | .ok k => readMultiKeys dec ctx n ts (acc ++ [k])
  | n + 1, .bytes65 pk :: ts, acc =>
    match parseKey dec ctx pk with
    | .error e => .error e
    | .ok k => readMultiKeys dec ctx n ts (acc ++ [k])
  | _ + 1, _ :: _, _ => .error .unexpected

/-- the `while tokens.peek() == Some(&Tk::CheckSigAdd)` loop of the `multi_a` arm -/
def readCsaKeys (dec : AtomDec) (ctx : Ctx) :
    List Token → List Key → Except DecodeErr (List Key × List Token)
  | .checkSigAdd :: .bytes32 pk :: ts, acc =>
    match parseKey dec ctx pk with
    | .error e => .error e
    | .ok k => readCsaKeys dec ctx ts (acc ++ [k])
  | .checkSigAdd :: [], _ => .error .unexpectedStart
  | .checkSigAdd :: _ :: _, _ => .error .unexpected
  | ts, acc => .ok (acc, ts)

/-- what one `Expression` arm does: the tokens left, what it pushes on `non_term` (top first)
and on `term` (it never inspects either stack) -/
structure ExprOut where
  toks : List Token
  pushNt : List NonTerm
  pushTerm : List Ms
  deriving Repr

/-- arms below `Tk::Verify, Tk::Equal` and below `Tk::Equal` share the hash patterns; `v`
says whether we came through `Tk::Verify` (then `NonTerm::Verify` is pushed and the
`DUP HASH160 <h> EQUALVERIFY` form of `pk_h` is possible) -/
def exprAfterEqual (dec : AtomDec) (v : Bool) (ts : List Token) : Except DecodeErr ExprOut :=
  let nt' : List NonTerm := if v then [.verify] else []
  match ts with
  | [] => .error .unexpectedStart
  | .hash20 h :: ts =>
    (match ts with
     | [] => .error .unexpectedStart
     | .hash160 :: ts =>
       if v then
         (match ts with
          | [] => .error .unexpectedStart
          | .dup :: ts =>
            (match lookupRawPkh dec h with
             | .error e => .error e
             | .ok a => .ok ⟨ts, [], [.rawPkH a]⟩)
          | .verify :: ts =>
            (match expectSeq [.equal, .num 32, .size] ts with
             | .error e => .error e
             | .ok ts =>
               match lookupHash dec .hash160 h with
               | .error e => .error e
               | .ok a => .ok ⟨ts, nt', [.hash .hash160 a]⟩)
          | _ :: _ => .error .unexpected)
       else
         (match expectSeq hashTail ts with
          | .error e => .error e
          | .ok ts =>
            match lookupHash dec .hash160 h with
            | .error e => .error e
            | .ok a => .ok ⟨ts, nt', [.hash .hash160 a]⟩)
     | .ripemd160 :: ts =>
       (match expectSeq hashTail ts with
        | .error e => .error e
        | .ok ts =>
          match lookupHash dec .ripemd160 h with
          | .error e => .error e
          | .ok a => .ok ⟨ts, nt', [.hash .ripemd160 a]⟩)
     | _ :: _ => .error .unexpected)
  | .bytes32 h :: ts =>
    (match ts with
     | [] => .error .unexpectedStart
     | .sha256 :: ts =>
       (match expectSeq hashTail ts with
        | .error e => .error e
        | .ok ts =>
          match lookupHash dec .sha256 h with
          | .error e => .error e
          | .ok a => .ok ⟨ts, nt', [.hash .sha256 a]⟩)
     | .hash256 :: ts =>
       (match expectSeq hashTail ts with
        | .error e => .error e
        | .ok ts =>
          match lookupHash dec .hash256 h with
          | .error e => .error e
          | .ok a => .ok ⟨ts, nt', [.hash .hash256 a]⟩)
     | _ :: _ => .error .unexpected)
  | .num k :: ts => .ok ⟨ts, .threshW k 0 :: nt', []⟩
  | _ :: _ => .error .unexpected

/-- the `CHECKMULTISIG` arm after `Tk::CheckMultiSig` -/
def exprMulti (dec : AtomDec) (ctx : Ctx) (ts : List Token) : Except DecodeErr ExprOut :=
  match ts with
  | [] => .error .unexpectedStart
  | .num n :: ts =>
    -- validate_k_n::<MAX_PUBKEYS_PER_MULTISIG>(1, n)
    if n = 0 ∨ n > 20 then .error .threshold
    else
      match readMultiKeys dec ctx n ts [] with
      | .error e => .error e
      | .ok (keys, ts) =>
        match ts with
        | [] => .error .unexpectedStart
        | .num k :: ts =>
          let keys := keys.reverse
          -- Threshold::<_, 20>::new(k, keys)
          if k = 0 ∨ k > keys.length ∨ keys.length > 20 then .error .threshold
          else .ok ⟨ts, [], [.multi k keys]⟩
        | _ :: _ => .error .unexpected
  | _ :: _ => .error .unexpected

/-- the `multi_a` arm after `Tk::NumEqual` -/
def exprMultiA (dec : AtomDec) (ctx : Ctx) (ts : List Token) : Except DecodeErr ExprOut :=
  match ts with
  | [] => .error .unexpectedStart
  | .num k :: ts =>
    -- validate_k_n::<MAX_PUBKEYS_IN_CHECKSIGADD>(k, k)
    if k = 0 ∨ k > 999 then .error .threshold
    else
      match readCsaKeys dec ctx ts [] with
      | .error e => .error e
      | .ok (keys, ts) =>
        match ts with
        | [] => .error .unexpectedStart
        | .checkSig :: ts =>
          (match ts with
           | [] => .error .unexpectedStart
           | .bytes32 pk :: ts =>
             (match parseKey dec ctx pk with
              | .error e => .error e
              | .ok key =>
                let keys := (keys ++ [key]).reverse
                -- Threshold::<_, 999>::new(k, keys)
                if k = 0 ∨ k > keys.length ∨ keys.length > 999 then .error .threshold
                else .ok ⟨ts, [], [.multiA k keys]⟩)
           | _ :: _ => .error .unexpected)
        | _ :: _ => .error .unexpected
  | _ :: _ => .error .unexpected

/-- `Some(NonTerm::Expression)`: the big `match_token!` (the nonterminal is already popped) -/
def stepExpr (dec : AtomDec) (ctx : Ctx) (toks : List Token) : Except DecodeErr ExprOut :=
  match toks with
  | [] => .error .unexpectedStart
  | .bytes33 pk :: ts =>
    (match parseKey dec ctx pk with
     | .error e => .error e
     | .ok k => .ok ⟨ts, [], [.pkK k]⟩)
  | .bytes65 pk :: ts =>
    (match parseKey dec ctx pk with
     | .error e => .error e
     | .ok k => .ok ⟨ts, [], [.pkK k]⟩)
  | .bytes32 pk :: ts =>
    (match parseKey dec ctx pk with
     | .error e => .error e
     | .ok k => .ok ⟨ts, [], [.pkK k]⟩)
  | .checkSig :: ts => .ok ⟨ts, [.expression, .check], []⟩
  | .verify :: ts =>
    (match ts with
     | [] => .error .unexpectedStart
     | .equal :: ts => exprAfterEqual dec true ts
     | x :: ts => .ok ⟨x :: ts, [.expression, .verify], []⟩)
  | .zeroNotEqual :: ts => .ok ⟨ts, [.expression, .zeroNotEqual], []⟩
  | .csv :: ts =>
    (match ts with
     | [] => .error .unexpectedStart
     | .num n :: ts =>
       -- RelLockTime::from_consensus: nonzero, bit 31 clear
       if n = 0 ∨ n ≥ 2147483648 then .error .lockTime else .ok ⟨ts, [], [.older n]⟩
     | _ :: _ => .error .unexpected)
  | .cltv :: ts =>
    (match ts with
     | [] => .error .unexpectedStart
     | .num n :: ts =>
       -- AbsLockTime::from_consensus: 1 ..= 0x7FFF_FFFF
       if n = 0 ∨ n > 2147483647 then .error .lockTime else .ok ⟨ts, [], [.after n]⟩
     | _ :: _ => .error .unexpected)
  | .equal :: ts => exprAfterEqual dec false ts
  | .num 0 :: ts => .ok ⟨ts, [], [.fls]⟩
  | .num 1 :: ts => .ok ⟨ts, [], [.tru]⟩
  | .endIf :: ts => .ok ⟨ts, [.expression, .maybeAndV, .endIf], []⟩
  | .boolAnd :: ts => .ok ⟨ts, [.wExpression, .expression, .andB], []⟩
  | .boolOr :: ts => .ok ⟨ts, [.wExpression, .expression, .orB], []⟩
  | .checkMultiSig :: ts => exprMulti dec ctx ts
  | .numEqual :: ts => exprMultiA dec ctx ts
  | _ :: _ => .error .unexpected

/-- pop `n` terminals (`for _ in 0..n { subs.push(term.pop().unwrap()) }`) -/
def popN : Nat → List Ms → Option (List Ms × List Ms)
  | 0, t => some ([], t)
  | _ + 1, [] => none
  | n + 1, x :: t => (popN n t).map (fun (a, r) => (x :: a, r))

/-- one iteration of the `loop` for a popped nonterminal `top` -/
def stepNT (dec : AtomDec) (env : KeyEnv) (ctx : Ctx) (top : NonTerm) (s : DState) :
    Except DecodeErr DState :=
  match top with
  | .expression =>
    (match stepExpr dec ctx s.toks with
     | .error e => .error e
     | .ok o => .ok ⟨o.toks, o.pushNt ++ s.nt, o.pushTerm ++ s.term⟩)
  | .maybeAndV =>
    if isAndV s.toks then .ok { s with nt := .expression :: .andV :: s.nt } else .ok s
  | .swap =>
    (match s.toks with
     | [] => .error .unexpectedStart
     | .swap :: ts => reduce1 env ctx .swap { s with toks := ts }
     | _ :: _ => .error .unexpected)
  | .alt =>
    (match s.toks with
     | [] => .error .unexpectedStart
     | .toAlt :: ts => reduce1 env ctx .alt { s with toks := ts }
     | _ :: _ => .error .unexpected)
  | .check => reduce1 env ctx .check s
  | .dupIf => reduce1 env ctx .dupIf s
  | .verify => reduce1 env ctx .verify s
  | .nonZero => reduce1 env ctx .nonZero s
  | .zeroNotEqual => reduce1 env ctx .zeroNotEqual s
  | .andV =>
    if isAndV s.toks then .ok { s with nt := .maybeAndV :: .andV :: s.nt }
    else reduce2 env ctx .andV s
  | .andB => reduce2 env ctx .andB s
  | .orB => reduce2 env ctx .orB s
  | .orC => reduce2 env ctx .orC s
  | .orD => reduce2 env ctx .orD s
  | .tern =>
    (match s.term with
     | a :: b :: c :: t =>
       (match fromAst env ctx (.andOr a c b) with
        | .error e => .error e
        | .ok m => .ok { s with term := m :: t })
     | _ => .error .panic)
  | .threshW k n =>
    (match s.toks with
     | [] => .error .unexpectedStart
     | .add :: ts => .ok { s with toks := ts, nt := .wExpression :: .threshW k (n + 1) :: s.nt }
     | x :: ts => .ok { s with toks := x :: ts, nt := .expression :: .threshE k (n + 1) :: s.nt })
  | .threshE k n =>
    (match popN n s.term with
     | none => .error .panic
     | some (subs, t) =>
       -- Threshold::<_, 0>::new(k, subs)
       if k = 0 ∨ k > subs.length then .error .threshold
       else
         match fromAst env ctx (.thresh k (MsList.ofList subs)) with
         | .error e => .error e
         | .ok m => .ok { s with term := m :: t })
  | .endIf =>
    (match s.toks with
     | [] => .error .unexpectedStart
     | .else_ :: ts => .ok { s with toks := ts, nt := .expression :: .maybeAndV :: .endIfElse :: s.nt }
     | .if_ :: ts =>
       (match ts with
        | [] => .error .unexpectedStart
        | .dup :: ts => .ok { s with toks := ts, nt := .dupIf :: s.nt }
        | .zeroNotEqual :: ts =>
          (match ts with
           | [] => .error .unexpectedStart
           | .size :: ts => .ok { s with toks := ts, nt := .nonZero :: s.nt }
           | _ :: _ => .error .unexpected)
        | _ :: _ => .error .unexpected)
     | .notIf :: ts => .ok { s with toks := ts, nt := .endIfNotIf :: s.nt }
     | _ :: _ => .error .unexpected)
  | .endIfNotIf =>
    (match s.toks with
     | [] => .error .unexpectedStart
     | .ifDup :: ts => .ok { s with toks := ts, nt := .expression :: .orD :: s.nt }
     | x :: ts => .ok { s with toks := x :: ts, nt := .expression :: .orC :: s.nt })
  | .endIfElse =>
    (match s.toks with
     | [] => .error .unexpectedStart
     | .if_ :: ts => reduce2 env ctx .orI { s with toks := ts }
     | .notIf :: ts => .ok { s with toks := ts, nt := .expression :: .tern :: s.nt }
     | _ :: _ => .error .unexpected)
  | .wExpression =>
    (match s.toks with
     | [] => .error .unexpectedStart
     | .fromAlt :: ts => .ok { s with toks := ts, nt := .expression :: .maybeAndV :: .alt :: s.nt }
     | x :: ts => .ok { s with toks := x :: ts, nt := .expression :: .maybeAndV :: .swap :: s.nt })

/-- the `loop { match non_term.pop() … }`; `none` from the pop ends it, then the two
`assert_eq!`s and `term.pop().unwrap()`.  Outer `none` = out of fuel. -/
def decodeLoop (dec : AtomDec) (env : KeyEnv) (ctx : Ctx) :
    Nat → DState → Option (Except DecodeErr (Ms × List Token))
  | 0, _ => none
  | fuel + 1, s =>
    match s.nt with
    | [] =>
      (match s.term with
       | [m] => some (.ok (m, s.toks))
       | _ => some (.error .panic))
    | top :: nt =>
      match stepNT dec env ctx top { s with nt := nt } with
      | .error e => some (.error e)
      | .ok s' => decodeLoop dec env ctx fuel s'

/-- fuel that provably suffices (`MsVerif.C04.decode_total`) -/
def decodeFuel (toks : List Token) : Nat := 20 * toks.length + 6

def initState (revToks : List Token) : DState := ⟨revToks, [.expression, .maybeAndV], []⟩

/-- `decode::decode(&mut TokenIter)`: input in script order; returns the miniscript and the
tokens left in the iterator (reversed) -/
def decodeToks (dec : AtomDec) (env : KeyEnv) (ctx : Ctx) (toks : List Token) :
    Except DecodeErr (Ms × List Token) :=
  match decodeLoop dec env ctx (decodeFuel toks) (initState toks.reverse) with
  | some r => r
  | none => .error .fuel

/-! ### `Miniscript::validate(&Ctx::CONSENSUS)` -/

mutual
/-- does any node satisfy `p` (`for ms in self.iter()`) -/
def Ms.decAnyNode (p : Ms → Bool) : Ms → Bool
  | .alt x => p (.alt x) || x.decAnyNode p
  | .swap x => p (.swap x) || x.decAnyNode p
  | .check x => p (.check x) || x.decAnyNode p
  | .dupIf x => p (.dupIf x) || x.decAnyNode p
  | .verify x => p (.verify x) || x.decAnyNode p
  | .nonZero x => p (.nonZero x) || x.decAnyNode p
  | .zeroNotEqual x => p (.zeroNotEqual x) || x.decAnyNode p
  | .andV l r => p (.andV l r) || l.decAnyNode p || r.decAnyNode p
  | .andB l r => p (.andB l r) || l.decAnyNode p || r.decAnyNode p
  | .orB l r => p (.orB l r) || l.decAnyNode p || r.decAnyNode p
  | .orD l r => p (.orD l r) || l.decAnyNode p || r.decAnyNode p
  | .orC l r => p (.orC l r) || l.decAnyNode p || r.decAnyNode p
  | .orI l r => p (.orI l r) || l.decAnyNode p || r.decAnyNode p
  | .andOr a b c => p (.andOr a b c) || a.decAnyNode p || b.decAnyNode p || c.decAnyNode p
  | .thresh k xs => p (.thresh k xs) || xs.decAnyNode p
  | m => p m
def MsList.decAnyNode (p : Ms → Bool) : MsList → Bool
  | .nil => false
  | .cons x xs => x.decAnyNode p || xs.decAnyNode p
end

/-- `ValidationParams::validate_pk` under `ctx`'s CONSENSUS parameters -/
def decValidatePk (env : KeyEnv) (ctx : Ctx) (k : Key) : Bool :=
  match ctx with
  | .bare | .legacy => !decIsXOnly env k           -- compressed + uncompressed allowed
  | .segwitv0 => !isUnc env k && !decIsXOnly env k
  | .tap => !isUnc env k                        -- compressed keys pass (treated as x-only)

/-- is this node illegal under `ctx`'s CONSENSUS parameters -/
def decNodeIllegal (env : KeyEnv) (ctx : Ctx) : Ms → Bool
  | .dupIf _ => (match ctx with | .bare | .legacy => true | _ => false)
  | .orI _ _ => (match ctx with | .bare | .legacy => true | _ => false)
  | .multi _ ks | .sortedMulti _ ks =>
    (match ctx with | .tap => true | _ => !ks.all (decValidatePk env ctx))
  | .multiA _ ks | .sortedMultiA _ ks =>
    (match ctx with | .tap => !ks.all (decValidatePk env ctx) | _ => true)
  | .pkK k | .pkH k => !decValidatePk env ctx k
  | _ => false

/-- `max_script_size` of `Ctx::CONSENSUS` (`none` = `usize::MAX`) -/
def decMaxScriptSize : Ctx → Option Nat
  | .bare => some 10000 | .legacy => some 520 | _ => none
/-- `max_opcode_count` -/
def decMaxOpcodeCount : Ctx → Option Nat
  | .tap => none | _ => some 201
/-- `max_exec_stack_size` (Tap since fix f6981157: BIP342 keeps the 1000-element limit) -/
def decMaxExecStack : Ctx → Option Nat
  | .segwitv0 | .tap => some 1000 | _ => none

/-- `Miniscript::validate(&Ctx::CONSENSUS)`: `true` = `Ok(())` -/
def validateConsensus (env : KeyEnv) (ctx : Ctx) (ms : Ms) : Bool :=
  let ext := extOf env ctx ms
  let nonTop : Bool :=
    if ext.treeHeight > 402 then false
    else if ms.decAnyNode (decNodeIllegal env ctx) then false
    else if (match decMaxScriptSize ctx with | some l => decide (scriptSize env ctx ms > l) | none => false) then false
    else
      match ext.satData with
      | none => true     -- `max_satisfaction_witness_elements()` is `Err`: early `Ok(())`
      | some sd =>
        -- max_witness_items = usize::MAX in every CONSENSUS set
        if (match decMaxOpcodeCount ctx with | some l => decide (ext.staticOps + sd.execOps > l) | none => false) then false
        else if (match decMaxExecStack ctx with | some l => decide (sd.wCount + sd.execStack > l) | none => false) then false
        else true
  nonTop &&
    -- allow_non_b = false
    (match typeOf ms with | some ty => ty.corr.base == .B | none => false)

/-- the two `ValidationParams` the decoder is modelled with: the context's `Ctx::CONSENSUS`
(what `decode_consensus` passes) and `ValidationParams::MAX` ("anything goes") -/
inductive DecParams | consensus | max
  deriving DecidableEq, Repr

/-- `Miniscript::validate(params)`.  Under `MAX` every switch is on and every limit is
`usize::MAX`; only `max_recursive_depth = 402` remains (which `from_ast` enforced already). -/
def validateWith (p : DecParams) (env : KeyEnv) (ctx : Ctx) (ms : Ms) : Bool :=
  match p with
  | .consensus => validateConsensus env ctx ms
  | .max => decide ((extOf env ctx ms).treeHeight ≤ 402)

/-- `Miniscript::<Ctx::Key, Ctx>::decode_with_validation_params` on bytes, for
`params ∈ {Ctx::CONSENSUS, ValidationParams::MAX}` -/
def decodeScriptP (p : DecParams) (dec : AtomDec) (env : KeyEnv) (ctx : Ctx) (bs : Bytes) :
    Except DecodeErr Ms :=
  match lex bs with
  | .error e => .error (.lex e)
  | .ok toks =>
    match decodeToks dec env ctx toks with
    | .error e => .error e
    | .ok (top, rest) =>
      if !checkGlobal env ctx top then .error .context
      else if (typeOf top).isNone then .error .typeCheck
      else if !rest.isEmpty then .error .trailing
      else if !validateWith p env ctx top then .error .validation
      else .ok top

/-- `Miniscript::<Ctx::Key, Ctx>::decode_consensus` on bytes -/
def decodeScript (dec : AtomDec) (env : KeyEnv) (ctx : Ctx) (bs : Bytes) : Except DecodeErr Ms :=
  decodeScriptP .consensus dec env ctx bs

end MsVerif

/-
Model of the taproot leaf loop `best_tap_spend` (src/descriptor/tr/mod.rs), shared by
`Tr::get_satisfaction{,_mall}` and `Tr::plan_satisfaction{,_mall}`:

  * if the provider has a key-path signature for the internal key, the key path is taken;
  * otherwise every leaf (in `TrSpendInfo::leaves()` order = left to right) is given to the
    miniscript satisfier; leaves without a `Witness::Stack` are skipped; the leaf script and its
    control block are appended and the candidate with the smallest `witness_size` is kept —
    a later leaf replaces an earlier one of EQUAL size (`if Some(size) > min { continue }`).
-/
import MsVerif.Model.Satisfy
import MsVerif.Model.TypeCheck
import MsVerif.Model.Encode

namespace MsVerif

structure TapLeaf where
  ms : Ms
  /-- depth of the leaf in the script tree (0 = the tree is this single leaf) -/
  depth : Nat
  deriving Repr

inductive TapChoice
  | key
  | leaf (i : Nat)
  | none
  deriving DecidableEq, Repr

/-- the configuration `build_template{,_mall}` runs a leaf with: `root_has_sig = ty.mall.signed` -/
def tapLeafCfg (env : KeyEnv) (a : Assets) (mall : Bool) (ms : Ms) : SatCfg :=
  ⟨env, .tap, mall, (match typeOf ms with | some τ => τ.mall.signed | none => false), a⟩

/-- `witness_size` of the leaf's stack with `TapScript` and `TapControlBlock` appended -/
def tapLeafWitSize (env : KeyEnv) (l : TapLeaf) (stack : List Ph) : Nat :=
  let sl := (encodeBytes env .tap l.ms).length
  let cb := 33 + 32 * l.depth
  (stack.map Ph.size).sum + (sl + varintLen sl) + (cb + varintLen cb) + varintLen (stack.length + 2)

/-- the `for leaf in spend_info.leaves()` loop; `best` = (leaf index, size) of `min_satisfaction` -/
def tapLoop (env : KeyEnv) (a : Assets) (mall : Bool) :
    List TapLeaf → Nat → Option (Nat × Nat) → Option (Nat × Nat)
  | [], _, best => best
  | l :: rest, i, best =>
    match (satDissat (tapLeafCfg env a mall l.ms) l.ms).sat.stack with
    | .stack s =>
      let sz := tapLeafWitSize env l s
      match best with
      | some (j, m) => if sz > m then tapLoop env a mall rest (i + 1) (some (j, m))
                       else tapLoop env a mall rest (i + 1) (some (i, sz))
      | none => tapLoop env a mall rest (i + 1) (some (i, sz))
    | _ => tapLoop env a mall rest (i + 1) best

/-- `best_tap_spend`: `tk` = `provider_lookup_tap_key_spend_sig(internal_key).is_some()` -/
def bestTapSpend (env : KeyEnv) (a : Assets) (mall : Bool) (tk : Bool) (leaves : List TapLeaf) : TapChoice :=
  if tk then .key
  else match tapLoop env a mall leaves 0 none with
    | some (i, _) => .leaf i
    | none => .none

end MsVerif

/-
Model of `Terminal::encode` (src/miniscript/astelem.rs), `MsKeyBuilder` (src/util.rs) and the
parts of rust-bitcoin's `script::Builder` it uses (`push_int`, `push_slice`, `push_opcode`,
`push_verify`).  The builder's "last opcode" register is modelled by looking at the last
element of the list.  No imports beyond the model/spec.
-/
import MsVerif.Model.Ast
import MsVerif.Spec.Script

namespace MsVerif
open Script

/-- `Builder::push_int` -/
def pushInt (n : Nat) : Op :=
  if n ≤ 16 then .small n else .push (numEncode (Int.ofNat n))

/-- `Builder::push_verify`: fuse with a trailing EQUAL / NUMEQUAL / CHECKSIG / CHECKMULTISIG
(rust-bitcoin's `opcode_to_verify`), else append `OP_VERIFY`.  The builder's register is
`None` after a data push, so only a trailing *opcode* can fuse. -/
def pushVerify (s : List Op) : List Op :=
  match s.getLast? with
  | some (.code .equal) => s.dropLast ++ [.code .equalverify]
  | some (.code .numequal) => s.dropLast ++ [.code .numequalverify]
  | some (.code .checksig) => s.dropLast ++ [.code .checksigverify]
  | some (.code .checkmultisig) => s.dropLast ++ [.code .checkmultisigverify]
  | _ => s ++ [.code .verify]

/-- lexicographic `≤` on byte strings (`Ord for [u8; N]`) -/
def bytesLe : Bytes → Bytes → Bool
  | [], _ => true
  | _ :: _, [] => false
  | a :: as, b :: bs => a < b || (a == b && bytesLe as bs)

/-- stable insertion sort by key (`Vec::sort_by_key` is stable) -/
def insertByKey (env : KeyEnv) (k : Key) : List Key → List Key
  | [] => [k]
  | x :: xs => if bytesLe (env.sortKey x) (env.sortKey k) then x :: insertByKey env k xs
               else k :: x :: xs

def sortKeys (env : KeyEnv) (ks : List Key) : List Key :=
  ks.foldl (fun acc k => insertByKey env k acc) []

def hashOpc : HashKind → Opc
  | .sha256 => .sha256 | .hash256 => .hash256 | .ripemd160 => .ripemd160 | .hash160 => .hash160

def encodeMultiA (env : KeyEnv) : List Key → List Op
  | [] => []
  | k :: ks =>
    [.push (env.ser k), .code .checksig]
      ++ ks.flatMap (fun pk => [Op.push (env.ser pk), .code .checksigadd])

mutual
def encode (env : KeyEnv) (ctx : Ctx) : Ms → List Op
  | .pkK k => [.push (env.ser k)]
  | .pkH k => [.code .dup, .code .hash160, .push (env.pkh k), .code .equalverify]
  | .rawPkH h => [.code .dup, .code .hash160, .push (env.rawPkh h), .code .equalverify]
  | .after n => [pushInt n, .code .cltv]
  | .older n => [pushInt n, .code .csv]
  | .hash kind h =>
    [.code .size, pushInt 32, .code .equalverify, .code (hashOpc kind),
     .push (env.hashVal kind h), .code .equal]
  | .tru => [.small 1]
  | .fls => [.small 0]
  | .alt x => [.code .toalt] ++ encode env ctx x ++ [.code .fromalt]
  | .swap x => [.code .swap] ++ encode env ctx x
  | .check x => encode env ctx x ++ [.code .checksig]
  | .dupIf x => [.code .dup, .code .if_] ++ encode env ctx x ++ [.code .endif]
  | .verify x => pushVerify (encode env ctx x)
  | .nonZero x => [.code .size, .code .zeronotequal, .code .if_] ++ encode env ctx x ++ [.code .endif]
  | .zeroNotEqual x => encode env ctx x ++ [.code .zeronotequal]
  | .andV l r => encode env ctx l ++ encode env ctx r
  | .andB l r => encode env ctx l ++ encode env ctx r ++ [.code .booland]
  | .andOr a b c =>
    encode env ctx a ++ [.code .notif] ++ encode env ctx c ++ [.code .else_] ++ encode env ctx b
      ++ [.code .endif]
  | .orB l r => encode env ctx l ++ encode env ctx r ++ [.code .boolor]
  | .orD l r => encode env ctx l ++ [.code .ifdup, .code .notif] ++ encode env ctx r ++ [.code .endif]
  | .orC l r => encode env ctx l ++ [.code .notif] ++ encode env ctx r ++ [.code .endif]
  | .orI l r => [.code .if_] ++ encode env ctx l ++ [.code .else_] ++ encode env ctx r ++ [.code .endif]
  | .thresh k xs => encodeThresh env ctx true xs ++ [pushInt k, .code .equal]
  | .multi k ks =>
    [pushInt k] ++ ks.map (fun pk => Op.push (env.ser pk)) ++ [pushInt ks.length, .code .checkmultisig]
  | .sortedMulti k ks =>
    [pushInt k] ++ (sortKeys env ks).map (fun pk => Op.push (env.ser pk))
      ++ [pushInt ks.length, .code .checkmultisig]
  | .multiA k ks => encodeMultiA env ks ++ [pushInt k, .code .numequal]
  | .sortedMultiA k ks => encodeMultiA env (sortKeys env ks) ++ [pushInt k, .code .numequal]
/-- children of `thresh`: the first one bare, every later one followed by `OP_ADD` -/
def encodeThresh (env : KeyEnv) (ctx : Ctx) (first : Bool) : MsList → List Op
  | .nil => []
  | .cons x xs =>
    encode env ctx x ++ (if first then [] else [.code .add]) ++ encodeThresh env ctx false xs
end

/-- `Miniscript::encode().into_bytes()` -/
def encodeBytes (env : KeyEnv) (ctx : Ctx) (ms : Ms) : Bytes := serialize (encode env ctx ms)

end MsVerif

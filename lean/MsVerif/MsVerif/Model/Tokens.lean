/-
The token list of an encoded miniscript, by structural recursion (what `lex` yields on
`Miniscript::encode`: every `*VERIFY` opcode is two tokens), and the NORMAL FORM in which the
decoder returns a miniscript.

`decode (encode ms)` is not `ms` in general; the decoder can only return
* `expr_raw_pkh` for `pk_h`, `multi`/`multi_a` (keys in script order) for `sortedmulti(_a)`
  (`desugar`), and
* `and_v` chains re-associated to the left and floated out of every position that is parsed
  without the `MaybeAndV` look-ahead: `c:and_v(X,Y)` comes back as `and_v(X,c:Y)`,
  `and_b(and_v(X,Y),W)` as `and_v(X,and_b(Y,W))`, `and_v(X,and_v(Y,Z))` as
  `and_v(and_v(X,Y),Z)` … (`norm`).
Both maps keep the script bytes.  No imports beyond the model.
-/
import MsVerif.Model.Lex
import MsVerif.Model.Encode

namespace MsVerif

/-- token of a pushed key: by serialised length (33 / 65 / 32) -/
def keyTok (bs : Bytes) : Token :=
  if bs.length = 33 then .bytes33 bs else if bs.length = 65 then .bytes65 bs else .bytes32 bs

def hashOpTok : HashKind → Token
  | .sha256 => .sha256 | .hash256 => .hash256 | .ripemd160 => .ripemd160 | .hash160 => .hash160

def hashValTok (kind : HashKind) (bs : Bytes) : Token :=
  match kind with
  | .sha256 | .hash256 => .bytes32 bs
  | .ripemd160 | .hash160 => .hash20 bs

def multiATokens (env : KeyEnv) : List Key → List Token
  | [] => []
  | k :: ks =>
    [keyTok (env.ser k), .checkSig] ++ ks.flatMap (fun pk => [keyTok (env.ser pk), .checkSigAdd])

mutual
/-- tokens of `encode env ctx ms` in script order -/
def tokens (env : KeyEnv) (ctx : Ctx) : Ms → List Token
  | .pkK k => [keyTok (env.ser k)]
  | .pkH k => [.dup, .hash160, .hash20 (env.pkh k), .equal, .verify]
  | .rawPkH h => [.dup, .hash160, .hash20 (env.rawPkh h), .equal, .verify]
  | .after n => [.num n, .cltv]
  | .older n => [.num n, .csv]
  | .hash kind h =>
    [.size, .num 32, .equal, .verify, hashOpTok kind, hashValTok kind (env.hashVal kind h), .equal]
  | .tru => [.num 1]
  | .fls => [.num 0]
  | .alt x => [.toAlt] ++ tokens env ctx x ++ [.fromAlt]
  | .swap x => [.swap] ++ tokens env ctx x
  | .check x => tokens env ctx x ++ [.checkSig]
  | .dupIf x => [.dup, .if_] ++ tokens env ctx x ++ [.endIf]
  | .verify x => tokens env ctx x ++ [.verify]
  | .nonZero x => [.size, .zeroNotEqual, .if_] ++ tokens env ctx x ++ [.endIf]
  | .zeroNotEqual x => tokens env ctx x ++ [.zeroNotEqual]
  | .andV l r => tokens env ctx l ++ tokens env ctx r
  | .andB l r => tokens env ctx l ++ tokens env ctx r ++ [.boolAnd]
  | .andOr a b c =>
    tokens env ctx a ++ [.notIf] ++ tokens env ctx c ++ [.else_] ++ tokens env ctx b ++ [.endIf]
  | .orB l r => tokens env ctx l ++ tokens env ctx r ++ [.boolOr]
  | .orD l r => tokens env ctx l ++ [.ifDup, .notIf] ++ tokens env ctx r ++ [.endIf]
  | .orC l r => tokens env ctx l ++ [.notIf] ++ tokens env ctx r ++ [.endIf]
  | .orI l r => [.if_] ++ tokens env ctx l ++ [.else_] ++ tokens env ctx r ++ [.endIf]
  | .thresh k xs => threshTokens env ctx true xs ++ [.num k, .equal]
  | .multi k ks =>
    [.num k] ++ ks.map (fun pk => keyTok (env.ser pk)) ++ [.num ks.length, .checkMultiSig]
  | .sortedMulti k ks =>
    [.num k] ++ (sortKeys env ks).map (fun pk => keyTok (env.ser pk)) ++ [.num ks.length, .checkMultiSig]
  | .multiA k ks => multiATokens env ks ++ [.num k, .numEqual]
  | .sortedMultiA k ks => multiATokens env (sortKeys env ks) ++ [.num k, .numEqual]
def threshTokens (env : KeyEnv) (ctx : Ctx) (first : Bool) : MsList → List Token
  | .nil => []
  | .cons x xs =>
    tokens env ctx x ++ (if first then [] else [.add]) ++ threshTokens env ctx false xs
end

/-! ### what the decoder returns for an encoded miniscript -/

mutual
/-- `pk_h(k)` → `expr_raw_pkh(rp k)`, `sortedmulti(_a)` → `multi(_a)` with the keys sorted
(`rp k` is the raw-pkh atom whose bytes are `env.pkh k`) -/
def desugar (env : KeyEnv) (rp : Key → Nat) : Ms → Ms
  | .pkH k => .rawPkH (rp k)
  | .sortedMulti k ks => .multi k (sortKeys env ks)
  | .sortedMultiA k ks => .multiA k (sortKeys env ks)
  | .alt x => .alt (desugar env rp x)
  | .swap x => .swap (desugar env rp x)
  | .check x => .check (desugar env rp x)
  | .dupIf x => .dupIf (desugar env rp x)
  | .verify x => .verify (desugar env rp x)
  | .nonZero x => .nonZero (desugar env rp x)
  | .zeroNotEqual x => .zeroNotEqual (desugar env rp x)
  | .andV l r => .andV (desugar env rp l) (desugar env rp r)
  | .andB l r => .andB (desugar env rp l) (desugar env rp r)
  | .orB l r => .orB (desugar env rp l) (desugar env rp r)
  | .orD l r => .orD (desugar env rp l) (desugar env rp r)
  | .orC l r => .orC (desugar env rp l) (desugar env rp r)
  | .orI l r => .orI (desugar env rp l) (desugar env rp r)
  | .andOr a b c => .andOr (desugar env rp a) (desugar env rp b) (desugar env rp c)
  | .thresh k xs => .thresh k (desugarList env rp xs)
  | m => m
def desugarList (env : KeyEnv) (rp : Key → Nat) : MsList → MsList
  | .nil => .nil
  | .cons x xs => .cons (desugar env rp x) (desugarList env rp xs)
end

mutual
/-- rename the keys (used for `ToPublicKey::to_x_only_pubkey` on a Taproot miniscript over
full keys: the encoder pushes the x-only form of every key) -/
def reKey (f : Key → Key) : Ms → Ms
  | .pkK k => .pkK (f k)
  | .pkH k => .pkH (f k)
  | .multi k ks => .multi k (ks.map f)
  | .sortedMulti k ks => .sortedMulti k (ks.map f)
  | .multiA k ks => .multiA k (ks.map f)
  | .sortedMultiA k ks => .sortedMultiA k (ks.map f)
  | .alt x => .alt (reKey f x)
  | .swap x => .swap (reKey f x)
  | .check x => .check (reKey f x)
  | .dupIf x => .dupIf (reKey f x)
  | .verify x => .verify (reKey f x)
  | .nonZero x => .nonZero (reKey f x)
  | .zeroNotEqual x => .zeroNotEqual (reKey f x)
  | .andV l r => .andV (reKey f l) (reKey f r)
  | .andB l r => .andB (reKey f l) (reKey f r)
  | .orB l r => .orB (reKey f l) (reKey f r)
  | .orD l r => .orD (reKey f l) (reKey f r)
  | .orC l r => .orC (reKey f l) (reKey f r)
  | .orI l r => .orI (reKey f l) (reKey f r)
  | .andOr a b c => .andOr (reKey f a) (reKey f b) (reKey f c)
  | .thresh k xs => .thresh k (reKeyList f xs)
  | m => m
def reKeyList (f : Key → Key) : MsList → MsList
  | .nil => .nil
  | .cons x xs => .cons (reKey f x) (reKeyList f xs)
end

/-- left-nested `and_v` chain `and_v(…and_v(and_v(p₁,p₂),p₃)…,last)` -/
def mkAndV : List Ms → Ms → Ms
  | [], last => last
  | p :: ps, last => (ps ++ [last]).foldl Ms.andV p

mutual
/-- `(prefix, last)`: the `and_v` operands that float out to the left of `ms`, and what is left -/
def normSeq : Ms → List Ms × Ms
  | .andV l r =>
    let a := normSeq l
    let b := normSeq r
    (a.1 ++ [a.2] ++ b.1, b.2)
  | .check x => let a := normSeq x; (a.1, .check a.2)
  | .verify x => let a := normSeq x; (a.1, .verify a.2)
  | .zeroNotEqual x => let a := normSeq x; (a.1, .zeroNotEqual a.2)
  | .andB l r => let a := normSeq l; let b := normSeq r; (a.1, .andB a.2 (mkAndV b.1 b.2))
  | .orB l r => let a := normSeq l; let b := normSeq r; (a.1, .orB a.2 (mkAndV b.1 b.2))
  | .orD l r => let a := normSeq l; let b := normSeq r; (a.1, .orD a.2 (mkAndV b.1 b.2))
  | .orC l r => let a := normSeq l; let b := normSeq r; (a.1, .orC a.2 (mkAndV b.1 b.2))
  | .andOr x y z =>
    let a := normSeq x; let b := normSeq y; let c := normSeq z
    (a.1, .andOr a.2 (mkAndV b.1 b.2) (mkAndV c.1 c.2))
  | .thresh k .nil => ([], .thresh k .nil)
  | .thresh k (.cons x xs) => let a := normSeq x; (a.1, .thresh k (.cons a.2 (normList xs)))
  | .alt x => let a := normSeq x; ([], .alt (mkAndV a.1 a.2))
  | .swap x => let a := normSeq x; ([], .swap (mkAndV a.1 a.2))
  | .dupIf x => let a := normSeq x; ([], .dupIf (mkAndV a.1 a.2))
  | .nonZero x => let a := normSeq x; ([], .nonZero (mkAndV a.1 a.2))
  | .orI l r =>
    let a := normSeq l; let b := normSeq r
    ([], .orI (mkAndV a.1 a.2) (mkAndV b.1 b.2))
  | m => ([], m)
def normList : MsList → MsList
  | .nil => .nil
  | .cons x xs => let a := normSeq x; .cons (mkAndV a.1 a.2) (normList xs)
end

/-- the decoder's normal form -/
def norm (ms : Ms) : Ms := let a := normSeq ms; mkAndV a.1 a.2

/-- the three kinds of position in the decoder's grammar: `E` = parsed by `Expression` alone,
`A` = parsed with the `MaybeAndV` look-ahead (a left-nested `and_v` chain of `E`s),
`W` = parsed by `WExpression` (`a:` / `s:` around an `A`) -/
inductive Pos | E | A | W
  deriving DecidableEq, Repr

mutual
/-- the grammar of the miniscripts `decode` can return (its normal form), by position -/
def form : Pos → Ms → Bool
  | p, .andV l r => p == .A && form .A l && form .E r
  | p, .alt x => p == .W && form .A x
  | p, .swap x => p == .W && form .A x
  | p, .check x => p != .W && form .E x
  | p, .verify x => p != .W && form .E x
  | p, .zeroNotEqual x => p != .W && form .E x
  | p, .dupIf x => p != .W && form .A x
  | p, .nonZero x => p != .W && form .A x
  | p, .andB l r => p != .W && form .E l && form .W r
  | p, .orB l r => p != .W && form .E l && form .W r
  | p, .orD l r => p != .W && form .E l && form .A r
  | p, .orC l r => p != .W && form .E l && form .A r
  | p, .orI l r => p != .W && form .A l && form .A r
  | p, .andOr a b c => p != .W && form .E a && form .A b && form .A c
  | p, .thresh _ xs => p != .W && formL true xs
  | _, .pkH _ => false
  | _, .sortedMulti _ _ => false
  | _, .sortedMultiA _ _ => false
  | p, .tru | p, .fls | p, .pkK _ | p, .rawPkH _ | p, .after _ | p, .older _ | p, .hash _ _
  | p, .multi _ _ | p, .multiA _ _ => p != .W
/-- children of a `thresh`: one `E` then `W`s -/
def formL : Bool → MsList → Bool
  | first, .nil => !first
  | first, .cons x xs => form (if first then .E else .W) x && formL false xs
end

end MsVerif

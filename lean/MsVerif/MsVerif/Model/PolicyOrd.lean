/-
Model of the hand-written `Ord` of `policy::concrete::Policy` and `policy::semantic::Policy`
(src/policy/concrete.rs, src/policy/semantic.rs; `PartialEq`/`Eq`/`Hash` are derived, i.e.
structural) over the weighted policy type `PPol` of Model/TranslatePolicy.lean.

    match self.variant_name().cmp(other.variant_name()) { Equal => {}, ord => return ord }
    match (self, other) {
        (Key(a), Key(b)) => a.cmp(b),
        (After(a), After(b)) | (Older(a), Older(b)) => a.cmp_by_consensus(*b),
        (Sha256(a), Sha256(b)) … => a.cmp(b),
        (And(a), And(b)) => a.cmp(b),          // Vec<Arc<Policy>>: lexicographic
        (Or(a), Or(b)) => a.cmp(b),            // Vec<(usize, Arc<Policy>)>: lexicographic, weight first
        (Thresh(a), Thresh(b)) => a.cmp(b),    // derived Ord of Threshold { k, inner }: k, then the Vec
        (Unsatisfiable, Unsatisfiable) | (Trivial, Trivial) => Equal,
        _ => unreachable!("variant_name ensures same variant"),
    }

The two stages are one `match` here: pairs of different variants are decided by the variant
names (`vrank` = position of the name in byte order), pairs of the same variant by the payload;
`PolicyOrd.same_rank_same_variant` shows that the `unreachable!` arm cannot be reached.  Child
lists carry a number per child (the `or` weight, 0 under `and` / `thresh`), which is compared
first, as in the tuple order of `Or`.
-/
import MsVerif.Model.TranslatePolicy

namespace MsVerif

/-- position of `variant_name()` in the byte-wise order of the twelve names
after < and < hash160 < hash256 < key < older < or < ripemd160 < sha256 < thresh < trivial < unsatisfiable
(`hashRank`: the four hash variants) -/
def hashRank : HashKind → Nat
  | .hash160 => 2 | .hash256 => 3 | .ripemd160 => 7 | .sha256 => 8

def PPol.vrank : PPol → Nat
  | .after _ => 0
  | .and _ => 1
  | .hash kind _ => hashRank kind
  | .key _ => 4
  | .older _ => 5
  | .or _ => 6
  | .thresh _ _ => 9
  | .trivial => 10
  | .unsat => 11

def PPol.variantName : PPol → String
  | .after _ => "after" | .and _ => "and" | .hash .hash160 _ => "hash160" | .hash .hash256 _ => "hash256"
  | .key _ => "key" | .older _ => "older" | .or _ => "or" | .hash .ripemd160 _ => "ripemd160"
  | .hash .sha256 _ => "sha256" | .thresh _ _ => "thresh" | .trivial => "trivial" | .unsat => "unsatisfiable"

mutual
/-- `Ord::cmp` for policies -/
def polCmp (o : AtomOrd) : PPol → PPol → Ordering
  | .key a, .key b => o.key a b
  | .after a, .after b => natCmp a b
  | .older a, .older b => natCmp a b
  | .hash k1 a, .hash k2 b =>
    if k1 = k2 then o.hash k1 a b else natCmp (PPol.hash k1 a).vrank (PPol.hash k2 b).vrank
  | .and xs, .and ys => polListCmp o xs ys
  | .or xs, .or ys => polListCmp o xs ys
  | .thresh k1 xs, .thresh k2 ys => (natCmp k1 k2).then (polListCmp o xs ys)
  | a, b => natCmp a.vrank b.vrank
/-- `Vec::cmp`: lexicographic, a proper prefix is smaller; elements are (weight, policy) pairs -/
def polListCmp (o : AtomOrd) : PPolList → PPolList → Ordering
  | .nil, .nil => .eq
  | .nil, .cons _ _ _ => .lt
  | .cons _ _ _, .nil => .gt
  | .cons w x xs, .cons w' y ys => (natCmp w w').then ((polCmp o x y).then (polListCmp o xs ys))
end

end MsVerif

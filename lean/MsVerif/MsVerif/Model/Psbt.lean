/-
Model of the PSBT finalizer state machine — mirrors `src/psbt/finalizer.rs`
(`get_utxo`, `prevouts`, `get_descriptor`, `construct_tap_witness` (key-path priority),
`interpreter_inp_check`, `interpreter_check`, `finalize_input_helper`, `finalize_input`,
`finalize_helper`) and `src/psbt/mod.rs` (`PsbtExt::{finalize_mut, finalize_mall_mut,
finalize_inp_mut, finalize_inp_mall_mut, extract}`, `sanity_check`,
`update_input_with_descriptor`).

* The maps of a PSBT input (`partial_sigs`, `bip32_derivation`, the preimage maps,
  `tap_scripts`, `tap_script_sigs`, `tap_key_origins`) are FUNCTIONS `key → Option value`:
  an insertion order cannot be represented, only the content.  Where the Rust iterates a
  `BTreeMap` (`partial_sigs.iter().find(..)`) the model iterates the key universe in key
  order (`Params.allKeys`), which is what a `BTreeMap` does.
* The satisfier (`Descriptor::get_satisfaction[_mall]` over `PsbtInputSatisfier`, the
  script-path half of `construct_tap_witness`) and the interpreter
  (`Interpreter::from_txdata` + `iter`) are PARAMETERS (`Params.satisfy`,
  `Params.tapScriptWitness`, `Params.interp`).
* Panics are explicit: `Res.panic`.  The only indexing expression left in the code is
  `psbt.inputs[index]` (public entry points check the index or loop over `0..inputs.len()`);
  `unsigned_tx.input[index]` and `non_witness_utxo.output[vout]` are `.get(..).ok_or(..)`
  since the F8 / F8b repairs.

No imports (core only): linked into the driver.
-/

namespace MsVerif.Psbt

abbrev Bytes := List UInt8
abbrev Scr := Bytes
abbrev SS := Bytes
abbrev Wit := List Bytes
abbrev Key := Nat
abbrev Sig := Nat
abbrev HashId := Nat
abbrev CB := Nat
abbrev Leaf := Nat
abbrev Origin := Nat

/-- `psbt::InputError` (only the variants the finalizer produces) -/
inductive InputErr
  | keyErr | couldNotSatisfyTr | interpreter | invalidRedeemScript | invalidWitnessScript
  | miniscript | missingRedeemScript | missingWitness | missingPubkey | missingWitnessScript
  | missingUtxo | nonEmptyWitnessScript | nonEmptyRedeemScript | sighash
  deriving DecidableEq, Repr

/-- `psbt::Error` -/
inductive Err
  | input (e : InputErr) (idx : Nat)
  | wrongInputCount
  | idxOutOfBounds
  deriving DecidableEq, Repr

/-- result of a Rust call that may return `Err` or panic -/
inductive Res (ε α : Type)
  | ok (a : α)
  | err (e : ε)
  | panic
  deriving Repr, DecidableEq

namespace Res
@[inline] def bind {ε α β} (r : Res ε α) (f : α → Res ε β) : Res ε β :=
  match r with
  | .ok a => f a
  | .err e => .err e
  | .panic => .panic
@[inline] def mapErr {ε ε' α} (r : Res ε α) (f : ε → ε') : Res ε' α :=
  match r with
  | .ok a => .ok a
  | .err e => .err (f e)
  | .panic => .panic
instance {ε} : Monad (Res ε) where
  pure := .ok
  bind := bind
end Res

structure TxOut where
  spk : Scr
  value : Nat
  deriving DecidableEq, Repr

structure TxIn where
  prevTxid : Nat
  vout : Nat
  sequence : Nat
  deriving DecidableEq, Repr

/-- the unsigned transaction (outputs do not matter to the finalizer: one opaque token) -/
structure Tx where
  version : Nat
  lockTime : Nat
  ins : List TxIn
  outs : Nat
  deriving DecidableEq, Repr

/-- `non_witness_utxo`: the previous transaction -/
structure PrevTx where
  txid : Nat
  outputs : List TxOut
  deriving DecidableEq, Repr

/-- `bitcoin::psbt::Input`; every map is a function -/
structure Input where
  nonWitnessUtxo : Option PrevTx := none
  witnessUtxo : Option TxOut := none
  partialSigs : Key → Option Sig := fun _ => none
  sighashType : Option Nat := none
  redeemScript : Option Scr := none
  witnessScript : Option Scr := none
  bip32 : Key → Option Origin := fun _ => none
  finalScriptSig : Option SS := none
  finalScriptWitness : Option Wit := none
  preimages : HashId → Option Nat := fun _ => none
  tapKeySig : Option Sig := none
  tapScriptSigs : Key × Leaf → Option Sig := fun _ => none
  tapScripts : CB → Option Scr := fun _ => none
  tapKeyOrigins : Key → Option (List Leaf × Origin) := fun _ => none
  tapInternalKey : Option Key := none
  tapMerkleRoot : Option Nat := none
  /-- `proprietary` / `unknown` -/
  other : Nat → Option Nat := fun _ => none

/-- `Input::default()` -/
def Input.default : Input := {}

structure Psbt where
  tx : Tx
  inputs : List Input

/-- script classification in the order `get_descriptor` tests it -/
inductive SpkKind
  | p2pk | p2pkh | p2wpkh | p2wsh | p2sh | p2tr | other
  deriving DecidableEq, Repr

/-- the descriptor `get_descriptor` infers -/
inductive Desc
  | pk (k : Key) | pkh (k : Key) | wpkh (k : Key) | wsh (ws : Scr) | shWsh (ws : Scr)
  | shWpkh (k : Key) | sh (rs : Scr) | bare (spk : Scr)
  deriving DecidableEq, Repr

/-- script contexts of `decode_consensus` -/
inductive Ctx
  | bare | legacy | segwitv0
  deriving DecidableEq, Repr

/-- Everything the finalizer calls but does not define. -/
structure Params where
  /-- `is_p2pk` … `is_p2tr` -/
  kind : Scr → SpkKind
  toP2wsh : Scr → Scr
  toP2sh : Scr → Scr
  /-- the key of a P2PK script (`PublicKey::from_slice` of the push; `none` = `KeyErr`) -/
  p2pkKey : Scr → Option Key
  /-- `Address::p2pkh(pk).script_pubkey() == spk` -/
  isP2pkhOf : Scr → Key → Bool
  /-- `CompressedPublicKey::try_from(pk)` succeeds and `Address::p2wpkh(pk).script_pubkey() == spk` -/
  isP2wpkhOf : Scr → Key → Bool
  /-- `Miniscript::decode_consensus` and the `Descriptor::new_*` constructor succeed -/
  decodes : Ctx → Scr → Bool
  /-- key universe in `Ord` order (iteration order of a `BTreeMap<PublicKey, _>`) -/
  allKeys : List Key
  /-- `desc.get_satisfaction[_mall](PsbtInputSatisfier::new(psbt, index))`:
  `(witness, script_sig)`; `none` = `MiniscriptError` -/
  satisfy : Desc → Psbt → Nat → Bool → Option (Wit × SS)
  /-- script-path half of `construct_tap_witness` (smallest witness over `tap_scripts`) -/
  tapScriptWitness : Psbt → Nat → Bool → Option Wit
  /-- serialisation of a taproot signature -/
  sigBytes : Nat → Sig → Bytes
  /-- `Interpreter::from_txdata(spk, script_sig, witness, sequence, lock_time)` and
  `iter(secp, tx, index, prevouts)` yield no error -/
  interp : Tx → Nat → List TxOut → Scr → Wit → SS → Bool
  /-- per-input part of `sanity_check` (sighash type / partial-signature flags) -/
  sanityInput : Input → Bool

/-! ### `get_utxo`, `get_scriptpubkey`, `prevouts` -/

/-- `finalizer::get_utxo`.  Only `psbt.inputs[index]` can panic. -/
def getUtxo (p : Psbt) (i : Nat) : Res InputErr TxOut :=
  match p.inputs[i]? with
  | none => .panic                                   -- `&psbt.inputs[index]`
  | some inp =>
    match inp.witnessUtxo with
    | some u => .ok u
    | none =>
      match inp.nonWitnessUtxo with
      | some prev =>
        match p.tx.ins[i]? with
        | none => .err .missingUtxo                  -- `unsigned_tx.input.get(index).ok_or(MissingUtxo)`
        | some txin =>
          match prev.outputs[txin.vout]? with
          | none => .err .missingUtxo                -- `output.get(vout).ok_or(MissingUtxo)`
          | some u => .ok u
      | none => .err .missingUtxo

def getScriptPubkey (p : Psbt) (i : Nat) : Res InputErr Scr :=
  (getUtxo p i).bind fun u => .ok u.spk

/-- `finalizer::prevouts`: the first failing index decides -/
def prevoutsFrom (p : Psbt) : List Nat → Res Err (List TxOut)
  | [] => .ok []
  | i :: is =>
    ((getUtxo p i).mapErr (Err.input · i)).bind fun u =>
      (prevoutsFrom p is).bind fun us => .ok (u :: us)

def prevouts (p : Psbt) : Res Err (List TxOut) := prevoutsFrom p (List.range p.inputs.length)

/-! ### `get_descriptor` -/

/-- the union over all inputs of the keys of `bip32_derivation` (the `map` of `get_descriptor`;
only used by `substitute_raw_pkh`, i.e. inside `Params.satisfy`) -/
def bip32Keys (p : Psbt) (k : Key) : Bool := p.inputs.any fun inp => (inp.bip32 k).isSome

/-- `inp.partial_sigs.iter().find(|(pk, _)| pred pk)` -/
def findSigKey (P : Params) (inp : Input) (pred : Key → Bool) : Option Key :=
  P.allKeys.find? fun k => (inp.partialSigs k).isSome && pred k

/-- `finalizer::get_descriptor` (branch order as in the source) -/
def getDescriptor (P : Params) (p : Psbt) (i : Nat) : Res InputErr Desc :=
  (getScriptPubkey p i).bind fun spk =>
  match p.inputs[i]? with
  | none => .panic
  | some inp =>
    match P.kind spk with
    | .p2pk =>
      match P.p2pkKey spk with
      | some k => .ok (.pk k)
      | none => .err .keyErr
    | .p2pkh =>
      match findSigKey P inp (P.isP2pkhOf spk) with
      | some k => .ok (.pkh k)
      | none => .err .missingPubkey
    | .p2wpkh =>
      match findSigKey P inp (P.isP2wpkhOf spk) with
      | some k => .ok (.wpkh k)
      | none => .err .missingPubkey
    | .p2wsh =>
      if inp.redeemScript.isSome then .err .nonEmptyRedeemScript else
      match inp.witnessScript with
      | some ws =>
        if P.toP2wsh ws != spk then .err .invalidWitnessScript
        else if P.decodes .segwitv0 ws then .ok (.wsh ws) else .err .miniscript
      | none => .err .missingWitnessScript
    | .p2sh =>
      match inp.redeemScript with
      | none => .err .missingRedeemScript
      | some rs =>
        if P.toP2sh rs != spk then .err .invalidRedeemScript
        else if P.kind rs == .p2wsh then
          match inp.witnessScript with
          | some ws =>
            if P.toP2wsh ws != rs then .err .invalidWitnessScript
            else if P.decodes .segwitv0 ws then .ok (.shWsh ws) else .err .miniscript
          | none => .err .missingWitnessScript
        else if P.kind rs == .p2wpkh then
          match findSigKey P inp (P.isP2wpkhOf rs) with
          | some k => .ok (.shWpkh k)
          | none => .err .missingPubkey
        else
          if inp.witnessScript.isSome then .err .nonEmptyWitnessScript
          else if P.decodes .legacy rs then .ok (.sh rs) else .err .miniscript
    | _ =>
      -- bare (a P2TR script never reaches `get_descriptor`)
      if inp.witnessScript.isSome then .err .nonEmptyWitnessScript
      else if inp.redeemScript.isSome then .err .nonEmptyRedeemScript
      else if P.decodes .bare spk then .ok (.bare spk) else .err .miniscript

/-! ### taproot witness, interpreter check -/

/-- `construct_tap_witness`: the key path first (`tap_internal_key` and `tap_key_sig` present),
then the smallest script-path witness -/
def constructTapWitness (P : Params) (p : Psbt) (i : Nat) (mall : Bool) : Res InputErr Wit :=
  match p.inputs[i]? with
  | none => .panic
  | some inp =>
    match inp.tapInternalKey, inp.tapKeySig with
    | some _, some sig => .ok [P.sigBytes i sig]
    | _, _ =>
      match P.tapScriptWitness p i mall with
      | some w => .ok w
      | none => .err .couldNotSatisfyTr

/-- `interpreter_inp_check` -/
def interpreterInpCheck (P : Params) (p : Psbt) (i : Nat) (utxos : List TxOut) (wit : Wit) (ss : SS) :
    Res Err Unit :=
  ((getScriptPubkey p i).mapErr (Err.input · i)).bind fun spk =>
  match p.tx.ins[i]? with
  | none => .err .wrongInputCount                    -- `unsigned_tx.input.get(index).ok_or(WrongInputCount)`
  | some _ =>
    if P.interp p.tx i utxos spk wit ss then .ok () else .err (.input .interpreter i)

/-! ### `finalize_input_helper`, `finalize_input` -/

/-- the satisfaction half of `finalize_input_helper` -/
def satisfyStep (P : Params) (p : Psbt) (i : Nat) (mall : Bool) (spk : Scr) : Res Err (Wit × SS) :=
  if P.kind spk == .p2tr then
    ((constructTapWitness P p i mall).mapErr (Err.input · i)).bind fun w => .ok (w, [])
  else
    ((getDescriptor P p i).mapErr (Err.input · i)).bind fun d =>
      match P.satisfy d p i mall with
      | some r => .ok r
      | none => .err (.input .miniscript i)

def finalizeInputHelper (P : Params) (p : Psbt) (i : Nat) (mall : Bool) : Res Err (Wit × SS) :=
  ((getScriptPubkey p i).mapErr (Err.input · i)).bind fun spk =>
  (satisfyStep P p i mall spk).bind fun (r : Wit × SS) =>
  (prevouts p).bind fun utxos =>
  (interpreterInpCheck P p i utxos r.1 r.2).bind fun _ => .ok r

def Input.isFinal (inp : Input) : Bool := inp.finalScriptSig.isSome || inp.finalScriptWitness.isSome

/-- what `finalize_input` writes: `mem::take`, restore the utxos, set the final fields -/
def finalizedInput (inp : Input) (wit : Wit) (ss : SS) : Input :=
  { Input.default with
    nonWitnessUtxo := inp.nonWitnessUtxo
    witnessUtxo := inp.witnessUtxo
    finalScriptSig := if ss.isEmpty then none else some ss
    finalScriptWitness := if wit.isEmpty then none else some wit }

/-- body of `finalizer::finalize_input` after the count check -/
def finalizeInputCore (P : Params) (p : Psbt) (i : Nat) (mall : Bool) : Res Err Psbt :=
  match p.inputs[i]? with
  | none => .panic                                   -- `psbt.inputs[index]`
  | some inp =>
    if inp.isFinal then .ok p                        -- "Preserve previously finalized inputs"
    else
      (finalizeInputHelper P p i mall).bind fun r =>
        .ok { p with inputs := p.inputs.set i (finalizedInput inp r.1 r.2) }

/-- `finalizer::finalize_input`: the input counts are compared first (`WrongInputCount`) -/
def finalizeInput (P : Params) (p : Psbt) (i : Nat) (mall : Bool) : Res Err Psbt :=
  if p.tx.ins.length != p.inputs.length then .err .wrongInputCount else finalizeInputCore P p i mall

/-! ### the public entry points -/

/-- outcome of a `&mut self` call: the PSBT afterwards is part of the outcome in every case
(a panic unwinds out of the loop, earlier inputs stay finalized) -/
structure MutOut (α : Type) where
  psbt : Psbt
  result : Res α Unit

/-- loop of `finalize_mut` / `finalize_mall_mut`: errors are collected, the loop goes on -/
def finalizeLoop (P : Params) (mall : Bool) : List Nat → Psbt → List Err → Psbt × List Err × Bool
  | [], p, es => (p, es, false)
  | i :: is, p, es =>
    match finalizeInput P p i mall with
    | .ok p' => finalizeLoop P mall is p' es
    | .err e => finalizeLoop P mall is p (es ++ [e])
    | .panic => (p, es, true)

/-- `PsbtExt::finalize_mut` (`mall = false`) / `finalize_mall_mut` (`mall = true`) -/
def finalizeMut (P : Params) (p : Psbt) (mall : Bool) : MutOut (List Err) :=
  match finalizeLoop P mall (List.range p.inputs.length) p [] with
  | (p', _, true) => ⟨p', .panic⟩
  | (p', [], false) => ⟨p', .ok ()⟩
  | (p', es, false) => ⟨p', .err es⟩

/-- `PsbtExt::finalize_inp_mut` -/
def finalizeInpMut (P : Params) (p : Psbt) (i : Nat) : MutOut Err :=
  if i ≥ p.inputs.length then ⟨p, .err .idxOutOfBounds⟩ else
  match finalizeInput P p i false with
  | .ok p' => ⟨p', .ok ()⟩
  | .err e => ⟨p, .err e⟩
  | .panic => ⟨p, .panic⟩

/-- the `allow_mall` argument `finalize_inp_mall_mut` passes (src/psbt/mod.rs) -/
def inpMallFlag : Bool := true

/-- `PsbtExt::finalize_inp_mall_mut` -/
def finalizeInpMallMut (P : Params) (p : Psbt) (i : Nat) : MutOut Err :=
  if i ≥ p.inputs.length then ⟨p, .err .idxOutOfBounds⟩ else
  match finalizeInput P p i inpMallFlag with
  | .ok p' => ⟨p', .ok ()⟩
  | .err e => ⟨p, .err e⟩
  | .panic => ⟨p, .panic⟩

/-- `sanity_check` -/
def sanityFrom (P : Params) : List Input → Nat → Res Err Unit
  | [], _ => .ok ()
  | inp :: rest, i => if P.sanityInput inp then sanityFrom P rest (i + 1) else .err (.input .sighash i)

def sanityCheck (P : Params) (p : Psbt) : Res Err Unit :=
  if p.tx.ins.length != p.inputs.length then .err .wrongInputCount else sanityFrom P p.inputs 0

/-- loop of the deprecated `finalizer::finalize_helper`: stops at the first error -/
def finalizeStopLoop (P : Params) (mall : Bool) : List Nat → Psbt → Psbt × Res Err Unit
  | [], p => (p, .ok ())
  | i :: is, p =>
    match finalizeInput P p i mall with
    | .ok p' => finalizeStopLoop P mall is p'
    | .err e => (p, .err e)
    | .panic => (p, .panic)

/-- deprecated free functions `psbt::finalize` / `psbt::finalize_mall` -/
def finalizeDeprecated (P : Params) (p : Psbt) (mall : Bool) : MutOut Err :=
  match sanityCheck P p with
  | .err e => ⟨p, .err e⟩
  | .panic => ⟨p, .panic⟩
  | .ok _ =>
    let r := finalizeStopLoop P mall (List.range p.inputs.length) p
    ⟨r.1, r.2⟩

/-- first loop of `extract`: every input must carry a final field -/
def extractFill : List Input → Nat → Res Err (List (SS × Wit))
  | [], _ => .ok []
  | inp :: rest, n =>
    if inp.finalScriptSig.isNone && inp.finalScriptWitness.isNone then .err (.input .missingWitness n)
    else (extractFill rest (n + 1)).bind fun l =>
      .ok ((inp.finalScriptSig.getD [], inp.finalScriptWitness.getD []) :: l)

/-- `interpreter_check`: loop over all inputs -/
def interpreterCheckFrom (P : Params) (p : Psbt) (utxos : List TxOut) : List Input → Nat → Res Err Unit
  | [], _ => .ok ()
  | inp :: rest, i =>
    (interpreterInpCheck P p i utxos (inp.finalScriptWitness.getD []) (inp.finalScriptSig.getD [])).bind
      fun _ => interpreterCheckFrom P p utxos rest (i + 1)

def interpreterCheck (P : Params) (p : Psbt) : Res Err Unit :=
  (prevouts p).bind fun utxos => interpreterCheckFrom P p utxos p.inputs 0

/-- `PsbtExt::extract`: the (scriptSig, witness) pairs put into the unsigned transaction -/
def extract (P : Params) (p : Psbt) : Res Err (List (SS × Wit)) :=
  (sanityCheck P p).bind fun _ =>
  (extractFill p.inputs 0).bind fun filled =>
  (interpreterCheck P p).bind fun _ => .ok filled

/-! ### field insertions (what signers / updaters do) -/

/-- map insertion on a function-map -/
def upd {α β} [DecidableEq α] (f : α → Option β) (k : α) (v : β) : α → Option β :=
  fun x => if x = k then some v else f x

/-- what `update_input_with_descriptor` writes for one descriptor -/
structure UpdateData where
  redeemScript : Option Scr
  witnessScript : Option Scr
  origins : List (Key × Origin)
  /-- taproot: `(internal key, merkle root, [(control block, script)], [(key, (leaf hashes, origin))])` -/
  tap : Option (Key × Option Nat × List (CB × Scr) × List (Key × List Leaf × Origin))

def insertAll {α β} [DecidableEq α] (f : α → Option β) : List (α × β) → α → Option β
  | [] => f
  | (k, v) :: rest => insertAll (upd f k v) rest

/-- step 3 of `update_item_with_descriptor_helper` on an input -/
def Input.updateWith (inp : Input) (u : UpdateData) : Input :=
  match u.tap with
  | some (ik, root, scripts, origins) =>
    { inp with
      tapInternalKey := some ik
      tapMerkleRoot := root
      tapScripts := insertAll inp.tapScripts scripts
      tapKeyOrigins := insertAll inp.tapKeyOrigins origins }
  | none =>
    { inp with
      bip32 := insertAll inp.bip32 u.origins
      redeemScript := match u.redeemScript with | some r => some r | none => inp.redeemScript
      witnessScript := match u.witnessScript with | some w => some w | none => inp.witnessScript }

/-- field insertions on one input -/
inductive FieldOp
  | partialSig (k : Key) (s : Sig)
  | preimage (h : HashId) (v : Nat)
  | tapKeySig (s : Sig)
  | tapScriptSig (k : Key) (l : Leaf) (s : Sig)
  | update (u : UpdateData)

def Input.apply (inp : Input) : FieldOp → Input
  | .partialSig k s => { inp with partialSigs := upd inp.partialSigs k s }
  | .preimage h v => { inp with preimages := upd inp.preimages h v }
  | .tapKeySig s => { inp with tapKeySig := some s }
  | .tapScriptSig k l s => { inp with tapScriptSigs := upd inp.tapScriptSigs (k, l) s }
  | .update u => inp.updateWith u

/-- apply a field insertion to input `i` of the PSBT (out of range: nothing happens) -/
def Psbt.applyAt (p : Psbt) (i : Nat) (op : FieldOp) : Psbt :=
  match p.inputs[i]? with
  | some inp => { p with inputs := p.inputs.set i (inp.apply op) }
  | none => p

def Psbt.applyAll (p : Psbt) : List (Nat × FieldOp) → Psbt
  | [] => p
  | (i, op) :: rest => (p.applyAt i op).applyAll rest

/-- utxo consistency part of `update_input_with_descriptor` (`UtxoCheck`) followed by the
script_pubkey comparison; `segwit` = `desc_type.segwit_version().is_some()`,
`expected` = `derived.script_pubkey()` -/
inductive UpdErr | indexOutOfBounds | missingInputUtxo | utxoCheck | mismatchedScriptPubkey
  deriving DecidableEq, Repr

def updateInputWithDescriptor (p : Psbt) (i : Nat) (segwit : Bool) (expected : Scr) (u : UpdateData) :
    Except UpdErr Psbt :=
  match p.inputs[i]? with
  | none => .error .indexOutOfBounds
  | some inp =>
    match p.tx.ins[i]? with
    | none => .error .missingInputUtxo
    | some txin =>
      if (match inp.nonWitnessUtxo with | some prev => txin.prevTxid != prev.txid | none => false) then
        .error .utxoCheck
      else
        let spk? : Option Scr :=
          match inp.witnessUtxo, inp.nonWitnessUtxo with
          | some w, none => if segwit then some w.spk else none
          | none, some prev => (prev.outputs[txin.vout]?).map (·.spk)
          | some w, some prev =>
            match prev.outputs[txin.vout]? with
            | some o => if w = o then some w.spk else none
            | none => none
          | none, none => none
        match spk? with
        | none => .error .utxoCheck
        | some spk =>
          if spk != expected then .error .mismatchedScriptPubkey
          else .ok { p with inputs := p.inputs.set i (inp.updateWith u) }

end MsVerif.Psbt

/-
C08 — TRANSLATION VALIDATION of the policy compiler (src/policy/compiler.rs, concrete.rs).

The compiler itself (floating-point cost dynamic programme) is NOT modelled.  This file is the
executable CHECKER that is run on every output of the real compiler; `Thm/C08.lean` proves it
sound.  Import-free of Mathlib (linked into the driver).

`checkCompile env P ctx out claimedTy` accepts iff
  (i)   the type the compiler attached to the root equals the recomputed one (`typeOf`);
  (ii)  base `B`, `signed`, `nonMall` at the root;
  (iii) `validateSane env ctx out` — an executable mirror of `Miniscript::validate(&Ctx::SANE)`
        (src/miniscript/mod.rs, parameters of src/miniscript/context.rs / src/validation.rs):
        fragment restrictions, key kinds, duplicate keys, mixed time locks, script size, witness
        items, op count, execution stack;
  (iv)  SEMANTIC EQUIVALENCE on a finite set of representative worlds `reps L` (`L` = atoms of
        the policy and of the output): all subsets of the key / hash atoms x one nLockTime
        per "gap" of the occurring `after` values (0, 500000000 and the values themselves) x one
        nSequence per gap of the occurring `older` values (a disabled one, 0, 4194304 and the
        canonical forms of the values):  `holdsCW W P = satEx (availOfWorld W) out`.
For `tr(...)` outputs `checkCompileTr`: key path (internal key, unless it is the caller's
unspendable key) ∨ some leaf.
-/
import MsVerif.Model.TypeCheck
import MsVerif.Model.Ext
import MsVerif.Spec.Policy
import MsVerif.Spec.SatTable
import MsVerif.Model.Concrete

namespace MsVerif.CC
open MsVerif MsVerif.SatTable

abbrev Atom := Pol.Atom
abbrev CPolicy := Pol.CPolicy
abbrev World := Pol.World

/-! ## From worlds to what the satisfaction table needs -/

def hkToPol : MsVerif.HashKind → Pol.HashKind
  | .sha256 => .sha256 | .hash256 => .hash256 | .ripemd160 => .ripemd160 | .hash160 => .hash160

/-- the assets induced by a truth assignment of the policy atoms (no raw-pkh atoms: the
compiler never emits them and `validateSane` refuses them) -/
def availOfVal (v : Atom → Bool) : Avail where
  sig k := v (.key k)
  preimage kind h := v (.hash (hkToPol kind) h)
  after n := v (.after n)
  older n := v (.older n)
  rawKey _ := false
  rawSig _ := false

/-- what a spender in world `W` can supply: signatures of the keys that can sign, the known
preimages; `after n` / `older n` succeed iff the transaction's nLockTime / nSequence satisfy
them (BIP 65 / BIP 112, `Spec/Policy.lean`) -/
def availOfWorld (W : World) : Avail := availOfVal W.val

mutual
/-- atoms a miniscript mentions (pre-order, with repetitions) -/
def msAtoms : Ms → List Atom
  | .tru | .fls | .rawPkH _ => []
  | .pkK k | .pkH k => [.key k]
  | .after n => [.after n]
  | .older n => [.older n]
  | .hash kind h => [.hash (hkToPol kind) h]
  | .alt x | .swap x | .check x | .dupIf x | .verify x | .nonZero x | .zeroNotEqual x => msAtoms x
  | .andV x y | .andB x y | .orB x y | .orD x y | .orC x y | .orI x y => msAtoms x ++ msAtoms y
  | .andOr x y z => msAtoms x ++ (msAtoms y ++ msAtoms z)
  | .thresh _ xs => msAtomsL xs
  | .multi _ ks | .sortedMulti _ ks | .multiA _ ks | .sortedMultiA _ ks => ks.map Pol.Atom.key
def msAtomsL : MsList → List Atom
  | .nil => []
  | .cons x xs => msAtoms x ++ msAtomsL xs
end

/-! ## Representative worlds -/

def isLock : Atom → Bool
  | .after _ | .older _ => true
  | _ => false

def afterVals : List Atom → List Nat
  | [] => []
  | .after n :: r => n :: afterVals r
  | _ :: r => afterVals r

def olderVals : List Atom → List Nat
  | [] => []
  | .older n :: r => n :: olderVals r
  | _ :: r => olderVals r

/-- canonical nSequence value of a relative lock: type flag + 16 value bits -/
def relCanon (t : Nat) : Nat := (if Pol.relIsTime t then 4194304 else 0) + Pol.relValue t

/-- one nLockTime per gap: the smallest height, the smallest time, every occurring value -/
def absCands (afters : List Nat) : List Nat := 0 :: 500000000 :: afters

/-- one nSequence per gap: relative locks disabled, zero blocks, zero intervals, every
occurring value in canonical form -/
def relCands (olders : List Nat) : List Nat := 2147483648 :: 0 :: 4194304 :: olders.map relCanon

/-- the world in which exactly the keys / preimages in `S` are available -/
def mkWorld (S : List Atom) (lt sq : Nat) : World where
  canSign k := S.contains (.key k)
  preimage kind h := S.contains (.hash kind h)
  nLockTime := lt
  nSequence := sq

def nonLocks (L : List Atom) : List Atom := (L.filter fun a => !isLock a).eraseDups

/-- the finite set of worlds the checker looks at, for a list `L` of relevant atoms -/
def reps (L : List Atom) : List World :=
  (Pol.subsets (nonLocks L)).flatMap fun S =>
    (absCands (afterVals L).eraseDups).flatMap fun lt =>
      (relCands (olderVals L).eraseDups).map fun sq => mkWorld S lt sq

/-! ## Semantic equivalence on the representatives -/

def semMs (out : Ms) (W : World) : Bool := satEx (availOfWorld W) out

def checkSem (P : CPolicy) (out : Ms) : Bool :=
  (reps (Pol.atomsOfC P ++ msAtoms out)).all fun W => Pol.holdsCW W P == semMs out W

/-- first representative world on which policy and output disagree (diagnostics) -/
def firstBad (P : CPolicy) (out : Ms) : Option World :=
  (reps (Pol.atomsOfC P ++ msAtoms out)).find? fun W => !(Pol.holdsCW W P == semMs out W)

/-- a `tr(internal, {leaves})` output; `internal = none`: the caller's unspendable key -/
structure TrOut where
  internal : Option Key
  leaves : List Ms

def trAtoms (t : TrOut) : List Atom :=
  (match t.internal with | some k => [Pol.Atom.key k] | none => []) ++ t.leaves.flatMap msAtoms

/-- key-path spend: the internal key can sign (never, for the caller's unspendable key) -/
def keyPath (internal : Option Key) (W : World) : Bool :=
  match internal with
  | some k => W.canSign k
  | none => false

/-- spending condition of a taproot output: key path ∨ some script leaf -/
def semTr (t : TrOut) (W : World) : Bool :=
  keyPath t.internal W || t.leaves.any fun l => satEx (availOfWorld W) l

def checkSemTr (P : CPolicy) (t : TrOut) : Bool :=
  (reps (Pol.atomsOfC P ++ trAtoms t)).all fun W => Pol.holdsCW W P == semTr t W

def firstBadTr (P : CPolicy) (t : TrOut) : Option World :=
  (reps (Pol.atomsOfC P ++ trAtoms t)).find? fun W => !(Pol.holdsCW W P == semTr t W)

/-! ## `Miniscript::validate(&Ctx::SANE)` -/

/-- `ValidationParams` (src/validation.rs); `none` = `usize::MAX`.  Fields that are the same in
every `Ctx::SANE` are fixed in `validate`: no duplicate keys, no malleability, no mixed time
locks, no raw pkh, no sigless branch, base B, unsatisfiable allowed, depth ≤ 402. -/
structure VParams where
  allowCompressed : Bool
  allowUncompressed : Bool
  allowXOnly : Bool
  allowDupIf : Bool
  allowOrI : Bool
  allowMulti : Bool
  allowMultiA : Bool
  maxOpcodeCount : Option Nat
  maxScriptSize : Option Nat
  maxWitnessItems : Option Nat
  maxExecStackSize : Option Nat

/-- `Ctx::SANE` of the four contexts (src/miniscript/context.rs) -/
def saneParams : Ctx → VParams
  | .bare => ⟨true, true, false, false, false, true, false, some 201, some 10000, none, none⟩
  | .legacy => ⟨true, true, false, false, false, true, false, some 201, some 520, none, none⟩
  | .segwitv0 => ⟨true, false, false, true, true, true, false, some 201, some 3600, some 100, some 1000⟩
  | .tap => ⟨false, false, true, true, true, false, true, none, none, none, some 1000⟩

def leOpt (n : Nat) : Option Nat → Bool
  | none => true
  | some m => decide (n ≤ m)

mutual
/-- every node of the tree, pre-order (`Miniscript::iter`) -/
def subterms : Ms → List Ms
  | .alt x => .alt x :: subterms x
  | .swap x => .swap x :: subterms x
  | .check x => .check x :: subterms x
  | .dupIf x => .dupIf x :: subterms x
  | .verify x => .verify x :: subterms x
  | .nonZero x => .nonZero x :: subterms x
  | .zeroNotEqual x => .zeroNotEqual x :: subterms x
  | .andV x y => .andV x y :: (subterms x ++ subterms y)
  | .andB x y => .andB x y :: (subterms x ++ subterms y)
  | .orB x y => .orB x y :: (subterms x ++ subterms y)
  | .orD x y => .orD x y :: (subterms x ++ subterms y)
  | .orC x y => .orC x y :: (subterms x ++ subterms y)
  | .orI x y => .orI x y :: (subterms x ++ subterms y)
  | .andOr x y z => .andOr x y z :: (subterms x ++ (subterms y ++ subterms z))
  | .thresh k xs => .thresh k xs :: subtermsL xs
  | m => [m]
def subtermsL : MsList → List Ms
  | .nil => []
  | .cons x xs => subterms x ++ subtermsL xs
end

/-- keys in the order of `iter_pk` -/
def nodeKeys : Ms → List Key
  | .pkK k | .pkH k => [k]
  | .multi _ ks | .sortedMulti _ ks | .multiA _ ks | .sortedMultiA _ ks => ks
  | _ => []

def msKeys (m : Ms) : List Key := (subterms m).flatMap nodeKeys

def hasDup : List Key → Bool
  | [] => false
  | k :: r => r.contains k || hasDup r

def isXOnly (env : KeyEnv) (k : Key) : Bool := (env.ser k).length == 32

/-- `ValidationParams::validate_pk` -/
def pkOk (env : KeyEnv) (p : VParams) (k : Key) : Bool :=
  !(!p.allowCompressed && !p.allowXOnly && !isUnc env k && !isXOnly env k)
    && !(!p.allowUncompressed && isUnc env k)
    && !(!p.allowXOnly && isXOnly env k)

/-- the `d:` / `or_i` permission of the context (kept apart from the rest of the per-node match
of `validate_non_top_level`: it is the restriction the compiler once ignored in Bare / Legacy,
defect F13, and the driver names it separately in its diagnostics) -/
def nodeIfOk (p : VParams) : Ms → Bool
  | .dupIf _ => p.allowDupIf
  | .orI _ _ => p.allowOrI
  | _ => true

/-- the rest of the per-node match of `validate_non_top_level` -/
def nodeOk (env : KeyEnv) (p : VParams) : Ms → Bool
  | .multi _ ks | .sortedMulti _ ks => p.allowMulti && ks.all (pkOk env p)
  | .multiA _ ks | .sortedMultiA _ ks => p.allowMultiA && ks.all (pkOk env p)
  | .rawPkH _ => false
  | .pkK k | .pkH k => pkOk env p k
  | _ => true

/-- fragment permissions `d:` / `or_i` on every node -/
def fragsIfOk (ctx : Ctx) (m : Ms) : Bool := (subterms m).all (nodeIfOk (saneParams ctx))

/-- everything of `validate(&Ctx::SANE)` except the `d:` / `or_i` permission -/
def validateRest (env : KeyEnv) (ctx : Ctx) (m : Ms) : Bool :=
  let p := saneParams ctx
  let e := extOf env ctx m
  match typeOf m with
  | none => false
  | some ty =>
    -- validate_non_top_level
    decide (e.treeHeight ≤ 402)
    && !hasDup (msKeys m)
    && !e.timelockInfo.containsCombination
    && (subterms m).all (nodeOk env p)
    && leOpt (scriptSize env ctx m) p.maxScriptSize
    && (match e.satData with
        | none => true
        | some d =>
          leOpt (d.wCount + 1) p.maxWitnessItems
          && leOpt (e.staticOps + d.execOps) p.maxOpcodeCount
          && leOpt (d.wCount + d.execStack) p.maxExecStackSize)
    -- top level
    && ty.mall.nonMall && (ty.corr.base == .B) && ty.mall.signed

/-- `ms.validate(&Ctx::SANE).is_ok()` -/
def validateSane (env : KeyEnv) (ctx : Ctx) (m : Ms) : Bool :=
  validateRest env ctx m && fragsIfOk ctx m

/-! ## The checker -/

def checkCompile (env : KeyEnv) (P : CPolicy) (ctx : Ctx) (out : Ms) (claimedTy : Ty) : Bool :=
  (typeOf out == some claimedTy)
  && (claimedTy.corr.base == .B) && claimedTy.mall.signed && claimedTy.mall.nonMall
  && validateSane env ctx out
  && checkSem P out

/-- a leaf of a compiled taproot tree: well-typed with the claimed type, sane in the Tap context -/
def checkLeaf (env : KeyEnv) (l : Ms × Ty) : Bool :=
  (typeOf l.1 == some l.2) && (l.2.corr.base == .B) && l.2.mall.signed && l.2.mall.nonMall
  && validateSane env .tap l.1

/-- the key extracted as internal key was replaced everywhere (`extract_key` →
`translate_unsatisfiable_pk`): it does not reappear in any leaf -/
def internalFresh (internal : Option Key) (leaves : List Ms) : Bool :=
  match internal with
  | some k => leaves.all fun l => !(msKeys l).contains k
  | none => true

/-- `tr(internal, leaves)`; `claimed`: the leaves with the root types the compiler attached -/
def checkCompileTr (env : KeyEnv) (P : CPolicy) (internal : Option Key) (claimed : List (Ms × Ty)) : Bool :=
  claimed.all (checkLeaf env)
  && (match internal with | some k => pkOk env (saneParams .tap) k | none => true)
  && internalFresh internal (claimed.map (·.1))
  && checkSemTr P ⟨internal, claimed.map (·.1)⟩

/-- no `OP_IF` / `OP_NOTIF` fragment (`has_if_fragment`, what `compile_tr_native` promises) -/
def noIfFragment (m : Ms) : Bool :=
  (subterms m).all fun
    | .dupIf _ | .nonZero _ | .andOr _ _ _ | .orD _ _ | .orC _ _ | .orI _ _ => false
    | _ => true

/-! ## Policies that MUST compile (conditional totality on the documented small class) -/

/-- no `TRIVIAL` / `UNSATISFIABLE` leaf -/
def noConst : CPolicy → Bool
  | .unsat | .trivial => false
  | .atom _ => true
  | .and subs | .or subs | .thresh _ subs => go subs
where go : List CPolicy → Bool
  | [] => true
  | p :: ps => noConst p && go ps

/-- every `and` / `or` has exactly two children (`check_binary_ops`) -/
def binaryOps : CPolicy → Bool
  | .and subs | .or subs => (subs.length == 2) && go subs
  | .thresh _ subs => go subs
  | _ => true
where go : List CPolicy → Bool
  | [] => true
  | p :: ps => binaryOps p && go ps

def keyIds : List Atom → List Nat
  | [] => []
  | .key k :: r => k :: keyIds r
  | _ :: r => keyIds r

/-- lock values that `AbsLockTime` / `RelLockTime` can represent -/
def lockOk : Atom → Bool
  | .after n => decide (1 ≤ n) && decide (n < 2147483648)
  | .older n => decide (1 ≤ n) && decide (n < 2147483648)
  | _ => true

/-- The class on which `compile::<Segwitv0>` / `compile::<Tap>` are required to SUCCEED: at most
four leaves, no constants, well-formed thresholds and binary `and`/`or`, no repeated key, no
spending path mixing height- and time-locks (`check_timelocks`), and the documented admission
test `is_safe_nonmalleable = (true, true)` (both mirrored in Model/Concrete.lean and compared
with the library by C18).  Such a policy is far below every resource limit of the two
contexts, so `LimitsExceeded` (or any other error) is not a legitimate answer. -/
def mustCompile (P : CPolicy) : Bool :=
  decide ((Pol.atomsOfC P).length ≤ 4) && noConst P && binaryOps P && Pol.WFC P
  && (Pol.atomsOfC P).all lockOk
  && !hasDup (keyIds (Pol.atomsOfC P))
  && Pol.Conc.checkTimelocks P
  && (Pol.Conc.isSafeNonmalleable P == (true, true))

/-! ## `lift(compile_tr(P)) ≡ P` -/

/-- the assignment with the caller's unspendable key switched off -/
def maskKey (unsp : Option Nat) (v : Atom → Bool) : Atom → Bool :=
  fun a => match unsp with
    | some u => if a == Pol.Atom.key u then false else v a
    | none => v a

/-- the abstract policy `q` (the library's lift of a compiled `tr` descriptor, internal key
included) has the truth table of the concrete policy `P`, the unspendable key never signing -/
def trLiftOk (unsp : Option Nat) (P : CPolicy) (q : Pol.Policy) : Bool :=
  Pol.forallVals (Pol.atomsOfC P ++ Pol.atomsOf q)
    (fun v => Pol.holdsA (maskKey unsp v) q == Pol.holdsC (maskKey unsp v) P)

/-! ## Large outputs: probe worlds instead of the full enumeration

For outputs over many keys (resource-limit cases: conjunctions of ~100 keys, k-of-21) the `2^n`
representative worlds cannot be enumerated.  `probeSem` compares policy and output on `O(n)`
worlds only — a NECESSARY condition of equivalence (no soundness claim; it still separates k from
k ± 1 and a dropped / duplicated key). -/

def prefixes {α} : List α → List (List α)
  | [] => [[]]
  | a :: r => [] :: (prefixes r).map (a :: ·)

/-- all atoms, none, every prefix of the key/hash atoms, all but one, exactly one; each at a
"late" and an "early" time (every lock satisfied / no lock satisfied is not always realisable,
so the lock candidates of `reps` are reused) -/
def probeWorlds (L : List Atom) : List World :=
  let N := nonLocks L
  let sets := prefixes N ++ N.map (fun a => N.filter (· != a)) ++ N.map (fun a => [a])
  sets.flatMap fun S =>
    (absCands (afterVals L).eraseDups).flatMap fun lt =>
      (relCands (olderVals L).eraseDups).map fun sq => mkWorld S lt sq

def probeSem (P : CPolicy) (out : Ms) : Bool :=
  (probeWorlds (Pol.atomsOfC P ++ msAtoms out)).all fun W => Pol.holdsCW W P == semMs out W

def firstBadProbe (P : CPolicy) (out : Ms) : Option World :=
  (probeWorlds (Pol.atomsOfC P ++ msAtoms out)).find? fun W => !(Pol.holdsCW W P == semMs out W)

/-! ## Policies for which NO conforming output exists -/

/-- the policy holds in some world in which NO key can sign (some set of known preimages, some
nLockTime / nSequence; the worlds are the representatives of `reps`, hence by `reps_adequate`
exactly: in SOME world): an equivalent output is satisfiable without any signature, so it does
not require a signature on every path -/
def siglessSatisfiable (P : CPolicy) : Bool :=
  (reps ((Pol.atomsOfC P).filter fun a => !a.isKey)).any fun W => Pol.holdsCW W P

def flipKey (W : World) (k : Nat) : World :=
  { W with canSign := fun j => if j == k then !W.canSign k else W.canSign j }

/-- the truth of the policy depends on key `k` in some world: every equivalent output has to
mention `k` -/
def dependsOnKey (P : CPolicy) (k : Nat) : Bool :=
  (reps (Pol.atomsOfC P)).any fun W => Pol.holdsCW W P != Pol.holdsCW (flipKey W k) P

/-- the policy depends on a key of a kind the context's sane rules forbid (uncompressed in
Segwitv0 / Tap, x-only outside Tap) -/
def needsForbiddenKey (env : KeyEnv) (ctx : Ctx) (P : CPolicy) : Bool :=
  (keyIds (Pol.atomsOfC P)).any fun k => !pkOk env (saneParams ctx) k && dependsOnKey P k

/-- Returning `Ok` for such a policy necessarily violates C08: an equivalent output would have
to mention a key of a forbidden kind, or be satisfiable without a signature. -/
def mustRefuse (env : KeyEnv) (ctx : Ctx) (P : CPolicy) : Bool :=
  needsForbiddenKey env ctx P || siglessSatisfiable P

end MsVerif.CC

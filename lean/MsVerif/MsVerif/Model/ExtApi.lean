/-
Model of the public size accessors of `Miniscript` (src/miniscript/mod.rs) and of
`ScriptContext::max_satisfaction_size` (src/miniscript/context.rs), and the resource-only
parameter sets the C09 harness passes to `Miniscript::validate`.
-/
import MsVerif.Model.Ext
import MsVerif.Model.Validate

namespace MsVerif

/-- `Miniscript::max_satisfaction_witness_elements`: the satisfaction's elements plus the witness
script itself (`Err(ImpossibleSatisfaction)` ↦ `none`) -/
def maxSatWitnessElements (e : ExtData) : Option Nat := e.satData.map (fun d => d.wCount + 1)

/-- `Ctx::max_satisfaction_size`: the witness-stack figure in Segwitv0 / Tap, the scriptSig
figure in Legacy / Bare -/
def maxSatSize (ctx : Ctx) (e : ExtData) : Option Nat :=
  e.satData.map fun d => match ctx with
    | .segwitv0 | .tap => d.wSize
    | .legacy | .bare => d.ssSize

/-- `ValidationParams::MAX` with the four resource limits of `p` -/
def resourceOnly (p : ValidationParams) : ValidationParams :=
  { ValidationParams.MAX with
    maxOpcodeCount := p.maxOpcodeCount, maxScriptSize := p.maxScriptSize,
    maxWitnessItems := p.maxWitnessItems, maxExecStackSize := p.maxExecStackSize }

end MsVerif

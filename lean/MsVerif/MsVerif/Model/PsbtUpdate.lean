/-
What `update_input_with_descriptor` / `update_output_with_descriptor` WRITE
(`update_item_with_descriptor_helper`, step 3, src/psbt/mod.rs) as a function of the descriptor
model of C16 (`Model/Descriptor.lean`) and, for taproot, of the spend-info model of C15
(`Model/TapTree.lean`).

  non-taproot:  `bip32_derivation.append(keys of the descriptor ↦ their origin)`, and
     Sh(Wsh)  witness_script = wsh.inner_script(),  redeem_script = wsh.inner_script().to_p2wsh()
     Sh(Wpkh) redeem_script = sh.inner_script()          (the P2WPKH script)
     Sh(Ms)   redeem_script = sh.inner_script()
     Wsh      witness_script = wsh.inner_script()
     Bare / Pkh / Wpkh: no script
  taproot:  tap_internal_key, tap_merkle_root = spend_info.merkle_root(), one `tap_scripts` entry
     (control block ↦ leaf script) per item of `spend_info.leaves()`, `tap_key_origins`
     key ↦ (sorted, deduplicated leaf hashes of the leaves containing it, origin).

Imports only model files (linked into the driver).
-/
import MsVerif.Model.Psbt
import MsVerif.Model.Descriptor
import MsVerif.Model.TapTree

namespace MsVerif.PsbtUpd
open MsVerif MsVerif.Script MsVerif.Desc

/-- `(redeem_script, witness_script)` written for a descriptor -/
def updateScripts (P : Desc.Params) : Desc.Desc → Option Bytes × Option Bytes
  | .bare _ | .pkh _ | .wpkh _ | .tr _ _ => (none, none)
  | .wsh ms => (none, some (wshInnerScript P ms))
  | .sh (.wsh ms) => (some (toP2wsh P.H (wshInnerScript P ms)), some (wshInnerScript P ms))
  | .sh (.wpkh pk) => (some (shInnerScript P (.wpkh pk)), none)
  | .sh (.ms ms) => (some (shInnerScript P (.ms ms)), none)

/-- the keys whose origin is recorded: every key of the descriptor (`KeySourceLookUp` is a
`Translator`, so each key is visited; the map forgets order and multiplicity) -/
def updateKeys (d : Desc.Desc) : List Key := d.keysTranslate

/-- non-taproot `UpdateData` of `Model/Psbt.lean` for a descriptor; keys and origins are mapped
into the PSBT model's key / origin tokens by `keyTok` / `origin` -/
def updateData (P : Desc.Params) (keyTok : Key → Psbt.Key) (origin : Key → Psbt.Origin) (d : Desc.Desc) :
    Psbt.UpdateData :=
  { redeemScript := (updateScripts P d).1
    witnessScript := (updateScripts P d).2
    origins := (updateKeys d).map fun k => (keyTok k, origin k)
    tap := none }

/-- taproot part: what is written besides the origins, over C15's spend-info model -/
structure TapUpdate (α ν κ ω : Type) where
  internalKey : κ
  merkleRoot : Option ν
  /-- `(control_block.merkle_branch, leaf script)` per `tap_scripts` entry -/
  scripts : List (Tap.Item α ν)
  outputKey : ω

/-- `spend_info = tr.spend_info()`; `none` = the Rust panics / the tree is too deep -/
def tapUpdate {α ν κ ω : Type} (H : Spec.HashAlg α ν) (tweak : κ → Option ν → ω) (ik : κ)
    (tree : Option (Tap.TapTree α)) : Option (TapUpdate α ν κ ω) :=
  match Tap.SpendInfo.fromTr H tweak ik tree with
  | none => none
  | some info =>
    match tree with
    | none => some ⟨ik, none, [], info.outputKey⟩
    | some t =>
      match Tap.spendLeaves H t with
      | none => none
      | some items => some ⟨ik, Tap.merkleRootOf info.nodes, items, info.outputKey⟩

end MsVerif.PsbtUpd

/-
Model of descriptor public keys (src/descriptor/key.rs): `DescriptorPublicKey`
(`Single | XPub | MultiXPub`), `Wildcard`, `DefiniteDescriptorKey::new`,
`DescriptorPublicKey::{has_wildcard, is_multipath, has_hardened_step, at_derivation_index,
into_single_keys}`, `DefiniteDescriptorKey::derive_public_key`, and rust-bitcoin's
`Xpub::derive_pub` loop.

Extended public keys `X` and single public keys `P` are abstract; the elliptic-curve child
derivation is a parameter `ckd : X → Nat → X`.  Errors are the variants of
`NonDefiniteKeyError`.  Imports only the (import-free) BIP32 spec for the `Child` type.
-/
import MsVerif.Spec.Bip32

namespace MsVerif.Keys
open MsVerif.Bip32

inductive Wildcard | none | unhardened | hardened
  deriving DecidableEq, Repr, Inhabited

/-- `(bip32::Fingerprint, bip32::DerivationPath)` -/
structure Origin where
  fingerprint : Nat
  path : List Child
  deriving DecidableEq, Repr

/-- `DescriptorPublicKey` -/
inductive DPK (X P : Type)
  | single (origin : Option Origin) (key : P)
  | xpub (origin : Option Origin) (xkey : X) (path : List Child) (wildcard : Wildcard)
  | multi (origin : Option Origin) (xkey : X) (paths : List (List Child)) (wildcard : Wildcard)
  deriving DecidableEq, Repr

/-- `NonDefiniteKeyError` -/
inductive KeyErr | wildcard | multipath | hardenedStep | noWildcard
  deriving DecidableEq, Repr

variable {X P : Type}

/-- `DescriptorPublicKey::has_wildcard` -/
def DPK.hasWildcard : DPK X P → Bool
  | .single .. => false
  | .xpub _ _ _ wc => wc != .none
  | .multi _ _ _ wc => wc != .none

/-- `DescriptorPublicKey::is_multipath` -/
def DPK.isMultipath : DPK X P → Bool
  | .multi .. => true
  | _ => false

/-- `DescriptorPublicKey::has_hardened_step` -/
def DPK.hasHardenedStep : DPK X P → Bool
  | .single .. => false
  | .xpub _ _ path _ => path.any Child.isHardened
  | .multi _ _ paths _ => paths.any (·.any Child.isHardened)

/-- `DefiniteDescriptorKey::new`: the checks in their Rust order -/
def definiteNew (k : DPK X P) : Except KeyErr (DPK X P) :=
  if k.hasWildcard then .error .wildcard
  else if k.hasHardenedStep then .error .hardenedStep
  else if k.isMultipath then .error .multipath
  else .ok k

/-- `ChildNumber::from_normal_idx` / `from_hardened_idx`: `Err` iff `index & (1 << 31) != 0` -/
def childFromIdx (hard : Bool) (index : Nat) : Option Child :=
  if index < indexLimit then some (if hard then .hardened index else .normal index) else none

/-- `DescriptorPublicKey::at_derivation_index` -/
def DPK.atDerivationIndex (k : DPK X P) (index : Nat) : Except KeyErr (DPK X P) :=
  match k with
  | .single .. => definiteNew k
  | .xpub origin xkey path wc =>
    match wc with
    | .none => definiteNew (.xpub origin xkey path .none)
    | .unhardened =>
      match childFromIdx false index with
      | some c => definiteNew (.xpub origin xkey (path ++ [c]) .none)
      | none => .error .hardenedStep
    | .hardened =>
      match childFromIdx true index with
      | some c => definiteNew (.xpub origin xkey (path ++ [c]) .none)
      | none => .error .hardenedStep
  | .multi .. => .error .multipath

/-- `DescriptorPublicKey::into_single_keys` -/
def DPK.intoSingleKeys : DPK X P → List (DPK X P)
  | .multi origin xkey paths wc => paths.map fun p => .xpub origin xkey p wc
  | k => [k]

/-- rust-bitcoin `Xpub::derive_pub`: `for cnum in path { pk = pk.ckd_pub(cnum)? }`;
`ckd_pub` of a hardened child number is `Err(CannotDeriveFromHardenedKey)` -/
def derivePub (ckd : X → Nat → X) (xk : X) : List Child → Option X
  | [] => some xk
  | .normal i :: rest => derivePub ckd (ckd xk i) rest
  | .hardened _ :: _ => none

/-- a `bitcoin::PublicKey` produced by `derive_public_key`: the single key itself (an x-only
key is lifted with the even-y prefix by `to_public_key`), the public key of a derived xpub, or
one of the `unreachable!()` arms -/
inductive Derived (X P : Type)
  | single (key : P)
  | ofXpub (xkey : X)
  | panic
  deriving DecidableEq, Repr

/-- `DefiniteDescriptorKey::derive_public_key` -/
def derivePublicKey (ckd : X → Nat → X) : DPK X P → Derived X P
  | .single _ key => .single key
  | .xpub _ xkey path wc =>
    match wc with
    | .none =>
      match derivePub ckd xkey path with
      | some x => .ofXpub x
      | none => .panic
    | _ => .panic
  | .multi .. => .panic

/-- a key accepted by `DefiniteDescriptorKey::new` -/
def DPK.IsDefinite (k : DPK X P) : Prop :=
  k.hasWildcard = false ∧ k.hasHardenedStep = false ∧ k.isMultipath = false


/-! ### the BIP67 sort key (src/primitives/threshold.rs) -/

/-- `bip67_sort_key(pk) = (pk.inner.serialize(), !pk.compressed)`: the 33-byte compressed
encoding, ties broken compressed-first.  The Rust tuple `([u8; 33], bool)` is represented by the
byte string `compressed33 ++ [flag]`, whose lexicographic order is the tuple order because all
first components have the same length (`Lemmas/SortKeys.lean: bip67SortKey_le_iff`). -/
def bip67SortKey (compressed33 : List UInt8) (isCompressed : Bool) : List UInt8 :=
  compressed33 ++ [if isCompressed then 0 else 1]

/-- `PublicKey::inner.serialize()` computed from the serialisation that is pushed: a 33-byte
key is already compressed, a 65-byte key `04 ‖ x ‖ y` compresses to `(02 | y odd) ‖ x` -/
def compressSer (ser : List UInt8) : List UInt8 :=
  if ser.length = 65 then
    (if (ser.getLast?.getD 0) % 2 = 0 then 0x02 else 0x03) :: (ser.drop 1).take 32
  else ser

/-- the key `into_sorted_bip67` (33/65-byte ECDSA keys) resp. `into_sorted_bip67_xonly`
(32-byte keys: the x-only serialisation itself) sorts by, from the pushed serialisation -/
def sortKeyOfSer (ser : List UInt8) : List UInt8 :=
  if ser.length = 32 then ser else bip67SortKey (compressSer ser) (decide (ser.length ≠ 65))

end MsVerif.Keys

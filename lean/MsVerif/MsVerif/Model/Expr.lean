/-
Model/Expr.lean — executable mirror of `/repo/src/expression/mod.rs`:
`Tree::parse_pre_check`, `Tree::from_str_inner` (builder pass), `parse_num`, and the inverse
printer.

Every Rust panic site is explicit: `PErr.panic` is returned where the Rust code would panic
(`expect`, slice/`Vec` indexing, `&s[a..b]`, the three `assert_eq!` on capacities).
`C11.expr_parser_no_panic` proves that outcome unreachable.

`Vec` capacities are modelled as in `alloc::raw_vec` (`with_capacity(n)` gives exactly `n`;
a `push` onto a full vector grows to `max(2*cap, len+1, 4)`), because the builder *asserts*
that no reallocation happened.

After `verify_checksum` the string is pure ASCII, so byte offsets = character offsets.
-/
import MsVerif.Model.Checksum

namespace MsVerif.Expr
open MsVerif.Checksum

/-- `crate::MAX_RECURSION_DEPTH` (lib.rs).  `parse_pre_check` compares the nesting with
`MAX_RECURSION_DEPTH + 1` (the argument of a terminal adds a level of parentheses but no level
of the Miniscript tree); `Miniscript::from_ast` keeps comparing the tree height with the
constant itself. -/
def MAX_RECURSION_DEPTH : Nat := 402

/-- `ParseTreeError` variants reachable from `Tree::from_str`, with their positions -/
inductive TreeErr
  | checksum (e : CsErr)
  | maxRecursionDepthExceeded (actual : Nat)
  | expectedParenOrComma (pos : Nat)
  | unmatchedOpenParen (pos : Nat)
  | unmatchedCloseParen (pos : Nat)
  | mismatchedParens (openPos closePos : Nat)
  | trailingCharacter (pos : Nat)
deriving DecidableEq, Repr

inductive PErr
  | err (e : TreeErr)
  | panic
deriving DecidableEq, Repr

abbrev R := Except PErr

/-! ## pass 1: `parse_pre_check` -/

structure PreSt where
  nNodes : Nat
  maxDepth : Nat
  /-- `open_paren_stack`, top of the stack = head of the list -/
  stack : List (Char × Nat)
deriving Repr

/-- the checks made after a close-paren has been matched with its opener; `rest` is the stack
after the pop; `tail.head?` is `s.as_bytes()[pos + 1]` (`none` → index panic). -/
def afterClose (len pos : Nat) (tail : List Char) (rest : List (Char × Nat)) : R Unit :=
  match rest with
  | (_, parenPos) :: _ =>
    -- not last paren: must not be the end of the string, next is one of `,` `)` `}`
    if pos = len - 1 then throw (.err (.unmatchedOpenParen parenPos))
    else
      match tail.head? with
      | none => throw .panic
      | some nextByte =>
        if nextByte ≠ ')' ∧ nextByte ≠ '}' ∧ nextByte ≠ ',' then
          throw (.err (.expectedParenOrComma (pos + 1)))
        else pure ()
  | [] =>
    -- last paren: this SHOULD be the end of the string
    if pos < len - 1 then
      match tail.head? with
      | none => throw .panic
      | some _ => throw (.err (.trailingCharacter (pos + 1)))
    else pure ()

/-- one iteration of the pre-check loop -/
def preStep (len : Nat) (st : PreSt) (pos : Nat) (ch : Char) (tail : List Char) : R PreSt :=
  if ch = '(' ∨ ch = '{' then
    let stack := (ch, pos) :: st.stack
    pure { st with stack := stack
                   maxDepth := if st.maxDepth < stack.length then stack.length else st.maxDepth }
  else if ch = ')' ∨ ch = '}' then
    match st.stack with
    | (openCh, openPos) :: rest =>
      if (openCh = '(' ∧ ch = '}') ∨ (openCh = '{' ∧ ch = ')') then
        throw (.err (.mismatchedParens openPos pos))
      else
        match afterClose len pos tail rest with
        | .error e => throw e
        | .ok () => pure { st with stack := rest, nNodes := st.nNodes + 1 }
    | [] => throw (.err (.unmatchedCloseParen pos))
  else if ch = ',' then
    if st.stack.isEmpty then throw (.err (.trailingCharacter pos))
    else pure { st with nNodes := st.nNodes + 1 }
  else pure st

def preLoop (len : Nat) : (pos : Nat) → List Char → PreSt → R PreSt
  | _, [], st => pure st
  | pos, ch :: tail, st =>
    match preStep len st pos ch tail with
    | .error e => throw e
    | .ok st' => preLoop len (pos + 1) tail st'

/-- `Tree::parse_pre_check`: (string without checksum, max depth, number of nodes) -/
def parsePreCheck (s : List Char) : R (List Char × Nat × Nat) :=
  match verifyChecksumL s with
  | .panic => throw .panic
  | .err e => throw (.err (.checksum e))
  | .ok body =>
    match preLoop body.length 0 body ⟨1, 0, []⟩ with
    | .error e => throw e
    | .ok st =>
      match st.stack with
      | (_, pos) :: _ => throw (.err (.unmatchedOpenParen pos))
      | [] =>
        -- `u32::try_from(max_depth).unwrap_or(u32::MAX) > MAX_RECURSION_DEPTH + 1`
        if st.maxDepth > MAX_RECURSION_DEPTH + 1 then
          throw (.err (.maxRecursionDepthExceeded st.maxDepth))
        else pure (body, st.maxDepth, st.nNodes)

/-! ## pass 2: the builder of `from_str_inner` -/

inductive Parens | none | round | curly
deriving DecidableEq, Repr

/-- `TreeNode` -/
structure Node where
  name : List Char
  namePos : Nat
  parens : Parens
  nChildren : Nat
  index : Nat
  parentIdx : Option Nat
  lastChildIdx : Option Nat
  rightSiblingIdx : Option Nat
deriving DecidableEq, Repr

/-- `TreeNode::null` -/
def Node.null (index : Nat) : Node :=
  { name := [], namePos := 0, parens := .none, nChildren := 0, index := index,
    parentIdx := .none, lastChildIdx := .none, rightSiblingIdx := .none }

/-- capacity after a `push` onto a vector of length `len` and capacity `cap`
(`RawVec::grow_amortized`, `MIN_NON_ZERO_CAP = 4` for elements of at most 1024 bytes) -/
def growCap (cap len : Nat) : Nat :=
  if len < cap then cap else max (max (cap * 2) (len + 1)) 4

structure BSt where
  nodes : Array Node
  nodesCap : Nat
  /-- `parent_stack`, top = head -/
  stack : List Nat
  stackCap : Nat
  current : Option Node
deriving Repr

/-- `&s[a..b]`; `none` = slice index panic -/
def slice (s : Array Char) (a b : Nat) : Option (List Char) :=
  if a ≤ b ∧ b ≤ s.size then some (s.extract a b).toList else none

def BSt.pushNode (st : BSt) (n : Node) : BSt :=
  { st with nodes := st.nodes.push n, nodesCap := growCap st.nodesCap st.nodes.size }

/-- the local `fn new_node(nodes, stack, pos)`; `nodes[idx]` may panic -/
def newNode (nodes : Array Node) (stack : List Nat) (pos : Nat) : R (Array Node × Node) :=
  match stack.head? with
  | some idx =>
    if idx < nodes.size then
      pure (nodes.modify idx (fun p =>
              { p with nChildren := p.nChildren + 1, lastChildIdx := some nodes.size }),
            { Node.null nodes.size with namePos := pos, parentIdx := some idx })
    else throw .panic
  | none => pure (nodes, { Node.null nodes.size with namePos := pos })

/-- `if let Some(mut current) = current_node { current.name = &s[current.name_pos..pos]; nodes.push(current); }` -/
def flushCurrent (s : Array Char) (pos : Nat) (st : BSt) : R BSt :=
  match st.current with
  | none => pure st
  | some cur =>
    match slice s cur.namePos pos with
    | none => throw .panic
    | some nm => pure (st.pushNode { cur with name := nm })

/-- `parent_stack.last().and_then(|n| nodes[*n].last_child_idx)`; `nodes[*n]` may panic -/
def lastSibOf (nodes : Array Node) (stack : List Nat) : R (Option Nat) :=
  match stack.head? with
  | none => pure none
  | some n =>
    match nodes[n]? with
    | none => throw .panic
    | some nd => pure nd.lastChildIdx

/-- `if let Some(last_sib_idx) = … { nodes[last_sib_idx].right_sibling_idx = Some(nodes.len()); }` -/
def linkSibling (nodes : Array Node) (lastSib : Option Nat) : R (Array Node) :=
  match lastSib with
  | none => pure nodes
  | some i =>
    if i < nodes.size then
      pure (nodes.modify i (fun p => { p with rightSiblingIdx := some nodes.size }))
    else throw .panic

/-- one iteration of the builder loop -/
def buildStep (s : Array Char) (st : BSt) (pos : Nat) (ch : Char) : R BSt :=
  if ch = '(' ∨ ch = '{' then
    match st.current with
    | none => throw .panic                     -- expect("'(' only occurs after a node name")
    | some cur =>
      match slice s cur.namePos pos with
      | none => throw .panic
      | some nm =>
        let cur := { cur with name := nm, parens := if ch = '(' then Parens.round else Parens.curly }
        let stack := st.nodes.size :: st.stack
        let stackCap := growCap st.stackCap st.stack.length
        let st1 := st.pushNode cur
        match newNode st1.nodes stack (pos + 1) with
        | .error e => throw e
        | .ok (nodes, nn) =>
          pure { st1 with nodes := nodes, stack := stack, stackCap := stackCap, current := some nn }
  else if ch = ',' then
    match flushCurrent s pos st with
    | .error e => throw e
    | .ok st1 =>
      match lastSibOf st1.nodes st1.stack with
      | .error e => throw e
      | .ok ls =>
        match linkSibling st1.nodes ls with
        | .error e => throw e
        | .ok nodes1 =>
          match newNode nodes1 st1.stack (pos + 1) with
          | .error e => throw e
          | .ok (nodes, nn) => pure { st1 with nodes := nodes, current := some nn }
  else if ch = ')' ∨ ch = '}' then
    match flushCurrent s pos st with
    | .error e => throw e
    | .ok st1 => pure { st1 with current := none, stack := st1.stack.tail }
  else pure st

def buildLoop (s : Array Char) : (pos : Nat) → List Char → BSt → R BSt
  | _, [], st => pure st
  | pos, ch :: tail, st =>
    match buildStep s st pos ch with
    | .error e => throw e
    | .ok st' => buildLoop s (pos + 1) tail st'

/-- the builder pass with its three final `assert_eq!` -/
def build (body : List Char) (maxDepth nNodes : Nat) : R (Array Node) :=
  let s := body.toArray
  let st0 : BSt := { nodes := #[], nodesCap := nNodes, stack := [], stackCap := maxDepth,
                     current := some (Node.null 0) }
  match buildLoop s 0 body st0 with
  | .error e => throw e
  | .ok st =>
    match flushCurrent s s.size st with
    | .error e => throw e
    | .ok st =>
      if st.stackCap ≠ maxDepth then throw .panic          -- assert_eq!(parent_stack.capacity(), max_depth)
      else if st.nodesCap ≠ nNodes then throw .panic        -- assert_eq!(nodes.capacity(), n_nodes)
      else if st.nodes.size ≠ st.nodesCap then throw .panic -- assert_eq!(nodes.len(), nodes.capacity())
      else pure st.nodes

/-- `Tree::from_str_inner` -/
def fromStrInner (s : List Char) : R (Array Node) :=
  match parsePreCheck s with
  | .error e => throw e
  | .ok (body, maxDepth, nNodes) => build body maxDepth nNodes

/-! ## trees and the printer -/

inductive Tree
  | node (name : List Char) (parens : Parens) (children : List Tree)
deriving Repr

mutual
/-- the inverse printer: `name`, `name(c1,…,cn)` or `name{c1,…,cn}` -/
def Tree.print : Tree → List Char
  | .node name .none _ => name
  | .node name .round cs => name ++ '(' :: Tree.printList cs ++ [')']
  | .node name .curly cs => name ++ '{' :: Tree.printList cs ++ ['}']
def Tree.printList : List Tree → List Char
  | [] => []
  | [t] => t.print
  | t :: ts => t.print ++ ',' :: Tree.printList ts
end

mutual
def Tree.depth : Tree → Nat
  | .node _ _ cs => Tree.depthList cs
def Tree.depthList : List Tree → Nat
  | [] => 0
  | t :: ts => max (t.depth + 1) (Tree.depthList ts)
end

mutual
def Tree.size : Tree → Nat
  | .node _ _ cs => 1 + Tree.sizeList cs
def Tree.sizeList : List Tree → Nat
  | [] => 0
  | t :: ts => t.size + Tree.sizeList ts
end

mutual
def Tree.beq : Tree → Tree → Bool
  | .node n1 p1 c1, .node n2 p2 c2 => n1 == n2 && p1 == p2 && Tree.beqList c1 c2
def Tree.beqList : List Tree → List Tree → Bool
  | [], [] => true
  | a :: as, b :: bs => Tree.beq a b && Tree.beqList as bs
  | _, _ => false
end

mutual
/-- rebuild the tree from the flat pre-order node list using `n_children`
(`fuel` ≥ 2 · number of nodes + 2 suffices). -/
def decodeTree : (fuel : Nat) → List Node → Option (Tree × List Node)
  | 0, _ => none
  | _ + 1, [] => none
  | fuel + 1, n :: rest =>
    match decodeKids fuel n.nChildren rest with
    | none => none
    | some (ts, rest') => some (.node n.name n.parens ts, rest')
def decodeKids : (fuel : Nat) → (k : Nat) → List Node → Option (List Tree × List Node)
  | 0, _, _ => none
  | _ + 1, 0, rest => some ([], rest)
  | fuel + 1, k + 1, rest =>
    match decodeTree fuel rest with
    | none => none
    | some (t, rest') =>
      match decodeKids fuel k rest' with
      | none => none
      | some (ts, rest'') => some (t :: ts, rest'')
end

def toTree (nodes : Array Node) : Option Tree :=
  match decodeTree (2 * nodes.size + 2) nodes.toList with
  | some (t, []) => some t
  | _ => none

/-! ## `parse_num` -/

inductive NumErr | invalidLeadingDigit | empty | invalidDigit | posOverflow
deriving DecidableEq, Repr

/-- `u32::from_str` on a string whose first character (if any) is `1..9` -/
def u32FromStr (s : List Char) : Except NumErr Nat :=
  if s.isEmpty then throw .empty else
  let rec go : List Char → Nat → Except NumErr Nat
    | [], acc => pure acc
    | c :: cs, acc =>
      if '0' ≤ c ∧ c ≤ '9' then
        let acc' := acc * 10 + (c.toNat - 48)
        if acc' > 4294967295 then throw .posOverflow else go cs acc'
      else throw .invalidDigit
  go s 0

/-- `parse_num` (`parse_num_nonzero(s, "")` for everything except `"0"`) -/
def parseNum (s : List Char) : Except NumErr Nat :=
  if s = ['0'] then pure 0 else
  match s.head? with
  | some ch => if '1' ≤ ch ∧ ch ≤ '9' then u32FromStr s else throw .invalidLeadingDigit
  | none => u32FromStr s

/-- errors of `parse_num_nonzero` -/
inductive NzErr | illegalZero | num (e : NumErr)
deriving DecidableEq, Repr

/-- `parse_num_nonzero` -/
def parseNumNonzero (s : List Char) : Except NzErr Nat :=
  if s = ['0'] then throw .illegalZero else
  match s.head? with
  | some ch =>
    if '1' ≤ ch ∧ ch ≤ '9' then
      match u32FromStr s with
      | .ok n => pure n
      | .error e => throw (.num e)
    else throw (.num .invalidLeadingDigit)
  | none =>
    match u32FromStr s with
    | .ok n => pure n
    | .error e => throw (.num e)

end MsVerif.Expr

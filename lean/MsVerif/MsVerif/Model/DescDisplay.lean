/-
Model/DescDisplay.lean — the descriptor WRAPPERS around the miniscript printer/parser of
Model/Display.lean, as expression trees:

* `Display` of `Descriptor` (src/descriptor/{bare,segwitv0,sh}.rs, tr/mod.rs, tr/taptree.rs
  `fmt_helper`): `pkh(K)`, `wpkh(K)`, `sh(wpkh(K))`, `sh(wsh(M))`, `sh(M)`, `wsh(M)`, a bare `M`,
  `tr(K)` and `tr(K,TREE)` where an inner node of the tap tree is `{L,R}` (a node with EMPTY name
  and curly brackets) — without the checksum;
* `FromTree for Descriptor` (src/descriptor/mod.rs: dispatch on root name and number of children),
  `Pkh`/`Wpkh`/`Sh`/`Wsh`/`Bare::from_tree`, `Tr::from_tree` (pre-order walk feeding the
  `TapTreeBuilder`; an inner node at depth `d` needs `d < 128`).

The tap tree is a binary tree here; the library stores its leaves with depths — that the two
representations determine each other is C15 (`Model/TapTree.lean`, `Thm/C15.lean`).
Keys are atoms with the same `showKey`/`readKey` in every context.  What the wrapper constructors
check (`top_level_checks`, `validate`, `check_pk`) is the parameter `wrapOk`/`leafOk`.
-/
import MsVerif.Model.Display

namespace MsVerif.DescDisplay
open MsVerif MsVerif.Display
open MsVerif.Expr (Tree Parens)

abbrev R := Display.R

inductive TapT
  | leaf (m : Ms)
  | node (l r : TapT)
deriving DecidableEq, Repr

inductive Desc
  | bare (m : Ms)
  | pkh (k : Key)
  | wpkh (k : Key)
  | sh (m : Ms)
  | shWpkh (k : Key)
  | shWsh (m : Ms)
  | wsh (m : Ms)
  | tr (ik : Key) (t : Option TapT)
deriving DecidableEq, Repr

structure DCodec where
  /-- the miniscript codec of each context (shared atom printers, the context's `gv`) -/
  ms : Ctx → Codec
  showKey : Nat → List Char
  readKey : List Char → Option Nat
  /-- `Bare::new` after `top_level_checks` / `Pkh::new` / `Wpkh::new` / `Sh::new` / `Wsh::new` / `Tr::new` -/
  wrapOk : Desc → Bool
  /-- `script.validate(&Tap::CONSENSUS)` of a tap leaf inside `Tr::from_tree` -/
  leafOk : Ms → Bool

def nPkh : List Char := ['p','k','h']
def nWpkh : List Char := ['w','p','k','h']
def nSh : List Char := ['s','h']
def nWsh : List Char := ['w','s','h']
def nTr : List Char := ['t','r']

def MAX_TAP_DEPTH : Nat := 128

/-! ## Display -/

/-- `fmt_helper`: a leaf is its miniscript, an inner node `{left,right}` -/
def tapTree (c : DCodec) : TapT → Tree
  | .leaf m => Display.toTree (c.ms .tap) m
  | .node l r => .node [] .curly [tapTree c l, tapTree c r]

def toTree (c : DCodec) : Desc → Tree
  | .bare m => Display.toTree (c.ms .bare) m
  | .pkh k => .node nPkh .round [leaf (c.showKey k)]
  | .wpkh k => .node nWpkh .round [leaf (c.showKey k)]
  | .sh m => .node nSh .round [Display.toTree (c.ms .legacy) m]
  | .shWpkh k => .node nSh .round [.node nWpkh .round [leaf (c.showKey k)]]
  | .shWsh m => .node nSh .round [.node nWsh .round [Display.toTree (c.ms .segwitv0) m]]
  | .wsh m => .node nWsh .round [Display.toTree (c.ms .segwitv0) m]
  | .tr ik none => .node nTr .round [leaf (c.showKey ik)]
  | .tr ik (some t) => .node nTr .round [leaf (c.showKey ik), tapTree c t]

/-- the characters of `{:#}` (no checksum) -/
def display (c : DCodec) (d : Desc) : List Char := (toTree c d).print

/-! ## FromTree -/

def rootName : Tree → List Char | .node nm _ _ => nm
def rootParens : Tree → Parens | .node _ p _ => p
def children : Tree → List Tree | .node _ _ cs => cs

def wrap (c : DCodec) (d : Desc) : R Desc := if c.wrapOk d then .ok d else .error .validity

/-- `verify_terminal_parent(name, …)`: exactly one child, which has no children -/
def keyParent (c : DCodec) (t : Tree) : R Nat :=
  match children t with
  | [k] =>
    match leafName k with
    | none => .error .arity
    | some nm => match c.readKey nm with | none => .error .atom | some k => .ok k
  | _ => .error .arity

/-- `verify_toplevel(name, 1..=1)`: not curly, one child; returns the child -/
def topLevel1 (t : Tree) : R Tree :=
  if rootParens t == .curly then .error .curly else
  match children t with
  | [x] => .ok x
  | _ => .error .arity

def msIn (c : DCodec) (ctx : Ctx) (t : Tree) : R Ms := Display.fromTree (c.ms ctx) t

/-- `Wsh::from_tree` -/
def wshFromTree (c : DCodec) (t : Tree) : R Ms :=
  match topLevel1 t with
  | .error e => .error e
  | .ok x => msIn c .segwitv0 x

/-- the tap tree walk of `Tr::from_tree`; `d` = depth of this node -/
def parseTap (c : DCodec) : Nat → Tree → R TapT
  | d, .node nm p cs =>
    if p == .curly then
      if !nm.isEmpty then .error .name else
      match cs with
      | [l, r] =>
        if d ≥ MAX_TAP_DEPTH then .error .depth else
        match parseTap c (d + 1) l, parseTap c (d + 1) r with
        | .ok a, .ok b => .ok (.node a b)
        | .error e, _ => .error e
        | _, .error e => .error e
      | _ => .error .arity
    else
      match msIn c .tap (.node nm p cs) with
      | .error e => .error e
      | .ok m => if c.leafOk m then .ok (.leaf m) else .error .validity

/-- `FromTree for Descriptor`: dispatch on `(name, n_children)` -/
def fromTree (c : DCodec) (t : Tree) : R Desc :=
  let nm := rootName t
  let n := (children t).length
  if nm = nPkh ∧ n = 1 then
    match keyParent c t with | .error e => .error e | .ok k => wrap c (.pkh k)
  else if nm = nWpkh ∧ n = 1 then
    match keyParent c t with | .error e => .error e | .ok k => wrap c (.wpkh k)
  else if nm = nSh ∧ n = 1 then
    match topLevel1 t with
    | .error e => .error e
    | .ok x =>
      if rootName x = nWsh then
        match wshFromTree c x with
        | .error e => .error e
        | .ok m => (wrap c (.wsh m)).bind fun _ => .ok (.shWsh m)   -- `Wsh::from_tree` = `Wsh::new`; `Sh { inner }` unchecked
      else if rootName x = nWpkh then
        match keyParent c x with
        | .error e => .error e
        | .ok k => (wrap c (.wpkh k)).bind fun _ => .ok (.shWpkh k)
      else
        match msIn c .legacy x with | .error e => .error e | .ok m => wrap c (.sh m)
  else if nm = nWsh ∧ n = 1 then
    match wshFromTree c t with | .error e => .error e | .ok m => wrap c (.wsh m)
  else if nm = nTr then
    if rootParens t == .curly then .error .curly else
    match children t with
    | [k] =>
      match leafName k with
      | none => .error .arity
      | some s => match c.readKey s with | none => .error .atom | some ik => wrap c (.tr ik none)
    | [k, tt] =>
      match leafName k with
      | none => .error .arity
      | some s =>
        match c.readKey s with
        | none => .error .atom
        | some ik =>
          match parseTap c 0 tt with
          | .error e => .error e
          | .ok tap => wrap c (.tr ik (some tap))
    | _ => .error .arity
  else
    match msIn c .bare t with | .error e => .error e | .ok m => wrap c (.bare m)

/-- `Descriptor::from_str` up to the final `Tap::SANE` sweep: expression parser, then `from_tree` -/
def fromStr (c : DCodec) (s : List Char) : R Desc :=
  match Expr.fromStrInner s with
  | .error _ => .error .expr
  | .ok nodes =>
    match Expr.toTree nodes with
    | none => .error .expr
    | some t => fromTree c t

end MsVerif.DescDisplay

/-
Literal models of the key translation and key visitors of POLICIES:

* `policy::concrete::Policy::translate_pk`, `translate_unsatisfiable_pk`, `keys`, `for_each_key`
  (src/policy/concrete.rs),
* `policy::semantic::Policy::translate_pk`, `for_each_key` (src/policy/semantic.rs).

All of them walk the generic iterators of `src/iter/tree.rs` (modelled in Model/Cmp.lean):
the translations are folds over `rtl_post_order_iter()` with a stack of already translated
children — `And`: `(0..subs.len()).map(|_| translated.pop().unwrap())`, `Or`:
`subs.iter().map(|(prob, _)| (*prob, translated.pop().unwrap()))` (the weight is read from the
ORIGINAL child at that position, the child comes off the stack), `Thresh`:
`thresh.map_ref(|_| translated.pop().unwrap())` (k kept) — and the visitors are
`pre_order_iter().all(..)` / `.filter_map(..)`.

One datatype serves both policy types: `PPol` with `and` / `or` / `thresh` over a child list in
which EVERY child carries a number (the `or` weight; 0 and unused under `and` / `thresh`).  A
semantic policy is a `PPol` without `and` / `or` nodes (`PPol.isSemantic`): the code of
`Semantic::translate_pk` is the code of `Concrete::translate_pk` minus the `And` / `Or` arms.
(The policy types of Spec/Policy.lean do not carry the `or` weights, which are exactly what a
translation must keep in place.)  Translator monad, `Translator`, `TrErr` as in Model/Translate.lean;
policies have no `from_ast` re-check and return the translator's error unwrapped.
-/
import MsVerif.Model.Translate

namespace MsVerif

mutual
/-- `policy::concrete::Policy<Pk>` / `policy::semantic::Policy<Pk>` -/
inductive PPol where
  | unsat : PPol
  | trivial : PPol
  | key (k : Key) : PPol
  | after (n : Nat) : PPol
  | older (n : Nat) : PPol
  | hash (kind : HashKind) (h : Nat) : PPol
  | and (subs : PPolList) : PPol
  | or (subs : PPolList) : PPol
  | thresh (k : Nat) (subs : PPolList) : PPol
/-- children; `w` is the `usize` of `Or(Vec<(usize, Arc<Policy>)>)` -/
inductive PPolList where
  | nil : PPolList
  | cons (w : Nat) (x : PPol) (xs : PPolList) : PPolList
end

deriving instance Repr for PPol
deriving instance Repr for PPolList
deriving instance DecidableEq for PPol
deriving instance DecidableEq for PPolList
instance : Inhabited PPol := ⟨.unsat⟩

def PPolList.toList : PPolList → List PPol
  | .nil => []
  | .cons _ x xs => x :: xs.toList

def PPolList.weights : PPolList → List Nat
  | .nil => []
  | .cons w _ xs => w :: xs.weights

def PPolList.length : PPolList → Nat
  | .nil => 0
  | .cons _ _ xs => xs.length + 1

/-- `weights.zip(children)` back into a child list -/
def PPolList.ofLists : List Nat → List PPol → PPolList
  | w :: ws, x :: xs => .cons w x (PPolList.ofLists ws xs)
  | _, _ => .nil

mutual
def PPol.nodes : PPol → Nat
  | .and xs | .or xs | .thresh _ xs => xs.nodes + 1
  | _ => 1
def PPolList.nodes : PPolList → Nat
  | .nil => 0
  | .cons _ x xs => x.nodes + xs.nodes
end

mutual
/-- no `And` / `Or` node: the shape of a `policy::semantic::Policy` -/
def PPol.isSemantic : PPol → Bool
  | .and _ | .or _ => false
  | .thresh _ xs => xs.isSemantic
  | _ => true
def PPolList.isSemantic : PPolList → Bool
  | .nil => true
  | .cons _ x xs => x.isSemantic && xs.isSemantic
end

/-- `impl TreeLike for &Policy`: `as_node` (`TreeChildren::And` / `Or` / thresh data are all
"the children in order") -/
def PPol.asNode : PPol → Tree PPol
  | .and xs | .or xs | .thresh _ xs => .nary xs.toList
  | _ => .nullary

/-- `p.pre_order_iter()` -/
def PPol.preOrder (p : PPol) : List PPol := preOrderIter PPol.asNode p.nodes p
/-- `p.rtl_post_order_iter()` -/
def PPol.rtlPostOrder (p : PPol) : List PPol := rtlPostOrderIter PPol.asNode (2 * p.nodes) p

/-! ### structural traversals -/

mutual
def PPol.pre : PPol → List PPol
  | .and xs => .and xs :: xs.pre
  | .or xs => .or xs :: xs.pre
  | .thresh k xs => .thresh k xs :: xs.pre
  | p => [p]
def PPolList.pre : PPolList → List PPol
  | .nil => []
  | .cons _ x xs => x.pre ++ xs.pre
end

mutual
def PPol.rtlPost : PPol → List PPol
  | .and xs => xs.rtlPost ++ [.and xs]
  | .or xs => xs.rtlPost ++ [.or xs]
  | .thresh k xs => xs.rtlPost ++ [.thresh k xs]
  | p => [p]
def PPolList.rtlPost : PPolList → List PPol
  | .nil => []
  | .cons _ x xs => xs.rtlPost ++ x.rtlPost
end

/-! ## `translate_pk` -/

section
variable {σ ε : Type}

/-- `translated.pop().unwrap()` -/
def ppop (stack : List PPol) : TrM σ ε (PPol × List PPol) :=
  match stack with
  | x :: st => pure (x, st)
  | [] => throw .panic

/-- one `translated.pop().unwrap()` per ORIGINAL child, left to right; the number attached to
the new child is the one of the original child at that position
(`Or`: `subs.iter().map(|(prob, _)| (*prob, translated.pop().unwrap()))`;
`And`: `(0..subs.len()).map(|_| translated.pop().unwrap())`; `Thresh`: `map_ref(|_| pop)`) -/
def ppopEach : PPolList → List PPol → Option (PPolList × List PPol)
  | .nil, st => some (.nil, st)
  | .cons w _ xs, st =>
    match st with
    | [] => none
    | y :: st =>
      match ppopEach xs st with
      | none => none
      | some (ys, st) => some (.cons w y ys, st)

def ppopEachM (subs : PPolList) (stack : List PPol) : TrM σ ε (PPolList × List PPol) :=
  match ppopEach subs stack with
  | some r => pure r
  | none => throw .panic

/-- body of `for data in self.rtl_post_order_iter()` in `Concrete::translate_pk` (and, without
the `And` / `Or` arms, `Semantic::translate_pk`): returns the stack after
`translated.push(Arc::new(new_policy))` -/
def polStep (t : Translator σ ε) (stack : List PPol) (item : PPol) : TrM σ ε (List PPol) :=
  match item with
  | .unsat => pure (.unsat :: stack)
  | .trivial => pure (.trivial :: stack)
  | .key pk => do let pk' ← t.pk pk; pure (.key pk' :: stack)
  | .hash kind h => do let h' ← t.hash kind h; pure (.hash kind h' :: stack)
  | .older n => pure (.older n :: stack)
  | .after n => pure (.after n :: stack)
  | .and subs => do let (ys, st) ← ppopEachM subs stack; pure (.and ys :: st)
  | .or subs => do let (ys, st) ← ppopEachM subs stack; pure (.or ys :: st)
  | .thresh k subs => do let (ys, st) ← ppopEachM subs stack; pure (.thresh k ys :: st)

def polLoop (t : Translator σ ε) : List PPol → List PPol → TrM σ ε (List PPol)
  | [], stack => pure stack
  | item :: items, stack => do
    let stack ← polStep t stack item
    polLoop t items stack

/-- `Policy::translate_pk`: loop, then `translated.pop().unwrap()` -/
def polTranslate (t : Translator σ ε) (p : PPol) : TrM σ ε PPol := do
  let stack ← polLoop t p.rtlPostOrder []
  let (x, _) ← ppop stack
  pure x

mutual
/-- structural translation, effects in right-to-left post-order -/
def PPol.trRtl (t : Translator σ ε) : PPol → TrM σ ε PPol
  | .unsat => pure .unsat
  | .trivial => pure .trivial
  | .key pk => do let pk' ← t.pk pk; pure (.key pk')
  | .hash kind h => do let h' ← t.hash kind h; pure (.hash kind h')
  | .older n => pure (.older n)
  | .after n => pure (.after n)
  | .and xs => do let ys ← xs.trRtl t; pure (.and ys)
  | .or xs => do let ys ← xs.trRtl t; pure (.or ys)
  | .thresh k xs => do let ys ← xs.trRtl t; pure (.thresh k ys)
/-- the LAST child is translated first; positions and weights are kept -/
def PPolList.trRtl (t : Translator σ ε) : PPolList → TrM σ ε PPolList
  | .nil => pure .nil
  | .cons w x xs => do
    let xs' ← xs.trRtl t
    let x' ← x.trRtl t
    pure (.cons w x' xs')
end

end

mutual
/-- the policy with every key replaced by `f key` and every hash by `g kind h`: same tree, same
weights in the same positions, same k, same locks -/
def PPol.mapKeys (f : Key → Key) (g : HashKind → Nat → Nat) : PPol → PPol
  | .key k => .key (f k)
  | .hash kind h => .hash kind (g kind h)
  | .and xs => .and (xs.mapKeys f g)
  | .or xs => .or (xs.mapKeys f g)
  | .thresh k xs => .thresh k (xs.mapKeys f g)
  | p => p
def PPolList.mapKeys (f : Key → Key) (g : HashKind → Nat → Nat) : PPolList → PPolList
  | .nil => .nil
  | .cons w x xs => .cons w (x.mapKeys f g) (xs.mapKeys f g)
end

/-- the atom of ONE node handed to the translator -/
def PPol.nodeAtoms : PPol → List Atom
  | .key k => [.key k]
  | .hash kind h => [.hash kind h]
  | _ => []

/-- the key of ONE node -/
def PPol.keysAt : PPol → List Key
  | .key k => [k]
  | _ => []

/-- all atoms in translator-call order -/
def PPol.atomsRtl (p : PPol) : List Atom := p.rtlPost.flatMap PPol.nodeAtoms
/-- all keys in pre-order = the order of the printed form -/
def PPol.keys (p : PPol) : List Key := p.pre.flatMap PPol.keysAt

/-- everything but the key / hash VALUES: tree shape, node kinds, weights, k, locks, hash kinds -/
def PPol.skeleton (p : PPol) : PPol := p.mapKeys (fun _ => 0) (fun _ _ => 0)

/-! ## `Concrete::translate_unsatisfiable_pk` -/

/-- loop body: `Key(k) if k == key ⇒ Unsatisfiable`; `And` / `Or` / `Thresh` rebuilt from the
stack; every other node (`_ => None`) is pushed unchanged (`Arc::clone(data.node)`) -/
def unsatStep (key : Key) (stack : List PPol) (item : PPol) : Option (List PPol) :=
  match item with
  | .key k => if k = key then some (.unsat :: stack) else some (.key k :: stack)
  | .and subs => (ppopEach subs stack).map fun r => .and r.1 :: r.2
  | .or subs => (ppopEach subs stack).map fun r => .or r.1 :: r.2
  | .thresh k subs => (ppopEach subs stack).map fun r => .thresh k r.1 :: r.2
  | other => some (other :: stack)

def unsatLoop (key : Key) : List PPol → List PPol → Except Panic (List PPol)
  | [], stack => .ok stack
  | item :: items, stack =>
    match unsatStep key stack item with
    | none => .error .unwrapNone
    | some stack => unsatLoop key items stack

/-- `translate_unsatisfiable_pk` -/
def translateUnsat (key : Key) (p : PPol) : Except Panic PPol :=
  match unsatLoop key p.rtlPostOrder [] with
  | .error e => .error e
  | .ok (x :: _) => .ok x
  | .ok [] => .error .unwrapNone

mutual
/-- structural counterpart: exactly the `pk(key)` leaves become `UNSATISFIABLE` -/
def PPol.replaceKey (key : Key) : PPol → PPol
  | .key k => if k = key then .unsat else .key k
  | .and xs => .and (xs.replaceKey key)
  | .or xs => .or (xs.replaceKey key)
  | .thresh k xs => .thresh k (xs.replaceKey key)
  | p => p
def PPolList.replaceKey (key : Key) : PPolList → PPolList
  | .nil => .nil
  | .cons w x xs => .cons w (x.replaceKey key) (xs.replaceKey key)
end

/-! ## key visitors -/

/-- `self.pre_order_iter().all(|policy| match policy { Key(pk) => pred(pk), _ => true })` with
the calls of `pred` made visible: (keys visited, result) -/
def polAllLoop (pred : Key → Bool) : List PPol → List Key × Bool
  | [] => ([], true)
  | .key pk :: rest =>
    if pred pk then
      let (v, r) := polAllLoop pred rest
      (pk :: v, r)
    else ([pk], false)
  | _ :: rest => polAllLoop pred rest

/-- `ForEachKey::for_each_key` (concrete and semantic) -/
def polForEachKey (pred : Key → Bool) (p : PPol) : List Key × Bool := polAllLoop pred p.preOrder

/-- `ForEachKey::for_any_key` = `!self.for_each_key(|k| !pred(k))` -/
def polForAnyKey (pred : Key → Bool) (p : PPol) : List Key × Bool :=
  let (v, r) := polForEachKey (fun k => !pred k) p
  (v, !r)

/-- `Concrete::keys`: `pre_order_iter().filter_map(|p| match p { Key(pk) => Some(pk), _ => None })` -/
def polKeys (p : PPol) : List Key :=
  p.preOrder.filterMap fun q => match q with | .key pk => some pk | _ => none

end MsVerif

/-
Model of the satisfier: `src/miniscript/satisfy/mod.rs` (`Placeholder`, `Witness`,
`Satisfaction`, `combine`, `concatenate_rev`, `minimum`, `minimum_mall`, `thresh`,
`thresh_mall`), `src/miniscript/satisfy/sat_dissat.rs` (per-fragment pairs) and the
`ItemSize`/`witness_size`/`varint_len` helpers of `src/util.rs`.

The Rust walks the tree in post-order with an explicit stack; here the same computation is a
structural recursion.  `assert!`s in the Rust are not modelled as panics (the harness reports
a panic as a disagreement).
-/
import MsVerif.Model.Ast

namespace MsVerif

/-- `Placeholder<Pk>` (leaf hash / signature type fields dropped: one script at a time) -/
inductive Ph
  | pubkey (k : Key) (size : Nat)
  | pubkeyHash (h : Nat) (size : Nat)
  | ecdsaSig (k : Key)
  | ecdsaSigPkh (h : Nat)
  | schnorrSig (k : Key) (size : Nat)
  | schnorrSigPkh (h : Nat) (size : Nat)
  | preimage (kind : HashKind) (h : Nat)
  | hashDissat
  | pushOne
  | pushZero
  deriving DecidableEq, Repr, Inhabited

/-- `ItemSize for Placeholder` -/
def Ph.size : Ph → Nat
  | .pubkey _ s | .pubkeyHash _ s => s
  | .ecdsaSig _ | .ecdsaSigPkh _ => 73
  | .schnorrSig _ s | .schnorrSigPkh _ s => s + 1
  | .preimage _ _ | .hashDissat => 33
  | .pushOne => 2
  | .pushZero => 1

def varintLen (n : Nat) : Nat :=
  if n < 0xfd then 1 else if n ≤ 0xffff then 3 else if n ≤ 0xffffffff then 5 else 9

/-- `util::witness_size` -/
def witnessSize (w : List Ph) : Nat := (w.map Ph.size).sum + varintLen w.length

inductive Wit
  | stack (l : List Ph)
  | unavailable
  | impossible
  deriving DecidableEq, Repr, Inhabited

/-- `Ord for Witness`: strict less-than -/
def Wit.lt : Wit → Wit → Bool
  | .stack a, .stack b => witnessSize a < witnessSize b
  | .stack _, _ => true
  | _, .stack _ => false
  | .impossible, .unavailable => true
  | _, _ => false

/-- `Witness::combine` -/
def Wit.combine : Wit → Wit → Wit
  | .impossible, _ | _, .impossible => .impossible
  | .unavailable, _ | _, .unavailable => .unavailable
  | .stack a, .stack b => .stack (a ++ b)

structure Sat where
  stack : Wit
  hasSig : Bool
  abs : Option Nat   -- absolute_timelock (consensus u32)
  rel : Option Nat   -- relative_timelock (consensus u32 as written in the script)
  deriving DecidableEq, Repr, Inhabited

structure SatDissat where
  dissat : Sat
  sat : Sat
  deriving DecidableEq, Repr, Inhabited

namespace Sat

def IMPOSSIBLE : Sat := ⟨.impossible, false, none, none⟩
def TRIVIAL : Sat := ⟨.stack [], false, none, none⟩
def empty : Sat := ⟨.stack [], false, none, none⟩
def push0 : Sat := ⟨.stack [.pushZero], false, none, none⟩
def UNAVAILABLE : Sat := ⟨.unavailable, false, none, none⟩

/-- `AbsLockTime::max`: later of two locks of the same unit (ties → first), `none` if mixed -/
def absMax (a b : Nat) : Option Nat :=
  if decide (a < 500000000) == decide (b < 500000000) then some (if a ≥ b then a else b) else none

def relIsTime (n : Nat) : Bool := (n / 4194304) % 2 == 1
def relVal (n : Nat) : Nat := n % 65536

/-- `RelLockTime::max`: compares as `relative::LockTime` (unit + low 16 bits) -/
def relMax (a b : Nat) : Option Nat :=
  if relIsTime a == relIsTime b then some (if relVal a ≥ relVal b then a else b) else none

/-- `Satisfaction::concatenate_rev`: `other`'s stack goes first -/
def concatenateRev (self other : Sat) : Sat :=
  if self.stack = .impossible ∨ other.stack = .impossible then IMPOSSIBLE else
  let rel : Option (Option Nat) :=
    match self.rel, other.rel with
    | none, x => some x
    | x, none => some x
    | some a, some b => (relMax a b).map some
  match rel with
  | none => IMPOSSIBLE
  | some rel =>
    let abs : Option (Option Nat) :=
      match self.abs, other.abs with
      | none, x => some x
      | x, none => some x
      | some a, some b => (absMax a b).map some
    match abs with
    | none => IMPOSSIBLE
    | some abs => ⟨Wit.combine other.stack self.stack, self.hasSig || other.hasSig, abs, rel⟩

/-- `Satisfaction::minimum` (non-malleable mode) -/
def minimum (s1 s2 : Sat) : Sat :=
  if s1.stack = .impossible then s2
  else if s2.stack = .impossible then s1
  else match s1.hasSig, s2.hasSig with
    | false, false => UNAVAILABLE
    | false, true => ⟨s1.stack, false, s1.abs, s1.rel⟩
    | true, false => ⟨s2.stack, false, s2.abs, s2.rel⟩
    | true, true =>
      if s1.stack.lt s2.stack then ⟨s1.stack, true, s1.abs, s1.rel⟩
      else ⟨s2.stack, true, s2.abs, s2.rel⟩

/-- `Satisfaction::minimum_mall` -/
def minimumMall (s1 s2 : Sat) : Sat :=
  if s1.stack = .impossible ∨ s1.stack = .unavailable then s2
  else if s2.stack = .impossible ∨ s2.stack = .unavailable then s1
  else
    let pick := if s1.stack.lt s2.stack then s1 else s2
    ⟨pick.stack, s1.hasSig && s2.hasSig, pick.abs, pick.rel⟩

end Sat

/-! ### thresholds -/

def I64MAX : Int := 9223372036854775807
def I64MIN : Int := -9223372036854775808

/-- `witness_size(s) as i64 - witness_size(d) as i64` with the MAX/MIN sentinels -/
def stackWeight (sat dissat : Sat) : Int :=
  match sat.stack, dissat.stack with
  | .unavailable, _ | .impossible, _ => I64MAX
  | _, .unavailable | _, .impossible => I64MIN
  | .stack s, .stack d => Int.ofNat (witnessSize s) - Int.ofNat (witnessSize d)

structure SortKey where
  imp : Bool
  sig : Bool
  w : Int

/-- lexicographic `≤` on `(bool, bool, i64)` -/
def SortKey.le (a b : SortKey) : Bool :=
  if a.imp != b.imp then !a.imp
  else if a.sig != b.sig then !a.sig
  else a.w ≤ b.w

/-- stable insertion of index `i` into an index list sorted by `key` -/
def insertIdx (key : Nat → SortKey) (i : Nat) : List Nat → List Nat
  | [] => [i]
  | j :: js => if (key j).le (key i) then j :: insertIdx key i js else i :: j :: js

/-- `(0..n).collect().sort_by_key(key)` (stable) -/
def sortIdx (key : Nat → SortKey) (n : Nat) : List Nat :=
  (List.range n).foldl (fun acc i => insertIdx key i acc) []

def foldConcat (l : List Sat) : Sat := l.foldl Sat.concatenateRev Sat.empty

/-- after `mem::swap` of the first `k` sorted indices:
`ret[i]` = sat if chosen else dissat; `rest[i]` = dissat if chosen else sat -/
def swapped (k : Nat) (idx : List Nat) (dissats sats : List Sat) : List Sat × List Sat :=
  let chosen := idx.take k
  let n := dissats.length
  let ret := (List.range n).map fun i => if chosen.contains i then sats[i]! else dissats[i]!
  let rest := (List.range n).map fun i => if chosen.contains i then dissats[i]! else sats[i]!
  (ret, rest)

/-- `Satisfaction::thresh` (non-malleable); requires `k < n` -/
def threshNonMall (k : Nat) (dissats sats : List Sat) : Sat :=
  let n := dissats.length
  let key := fun i => (⟨decide (sats[i]!.stack = .impossible), sats[i]!.hasSig,
    stackWeight sats[i]! dissats[i]!⟩ : SortKey)
  let idx := sortIdx key n
  let (ret, rest) := swapped k idx dissats sats
  if rest[idx[k - 1]!]!.stack = .impossible then Sat.IMPOSSIBLE
  else if !rest[idx[k]!]!.hasSig && decide (rest[idx[k]!]!.stack ≠ .impossible) then Sat.UNAVAILABLE
  else foldConcat ret

/-- `Satisfaction::thresh_mall` -/
def threshMall (k : Nat) (dissats sats : List Sat) : Sat :=
  let n := dissats.length
  let key := fun i => (⟨false, false, stackWeight sats[i]! dissats[i]!⟩ : SortKey)
  let idx := sortIdx key n
  foldConcat (swapped k idx dissats sats).1

/-! ### assets and leaves -/

/-- what the caller holds (`AssetProvider`) -/
structure Assets where
  ecdsaSig : Key → Bool
  /-- size of the available Schnorr signature (64 or 65) -/
  schnorrSig : Key → Option Nat
  /-- raw-pkh atom ↦ known public key -/
  rawPkhPk : Nat → Option Key
  /-- raw-pkh atom ↦ key for which an ECDSA signature is available -/
  rawPkhEcdsa : Nat → Option Key
  /-- raw-pkh atom ↦ (key, sig size) for which a Schnorr script signature is available -/
  rawPkhSchnorr : Nat → Option (Key × Nat)
  preimage : HashKind → Nat → Bool
  /-- `check_older` on the `relative::LockTime` view (unit + low 16 bits) -/
  checkOlder : Nat → Bool
  checkAfter : Nat → Bool

/-- `relative::LockTime` → canonical consensus value (type flag + 16-bit value) -/
def relCanon (n : Nat) : Nat := (if Sat.relIsTime n then 4194304 else 0) + Sat.relVal n

/-- `Witness::signature` -/
def sigWit (ctx : Ctx) (a : Assets) (k : Key) : Wit :=
  match ctx.sigType with
  | .schnorr => match a.schnorrSig k with
    | some sz => .stack [.schnorrSig k sz]
    | none => .impossible
  | .ecdsa => if a.ecdsaSig k then .stack [.ecdsaSig k] else .impossible

def maxIdxLast (l : List (List Ph)) : Nat :=
  -- `iter().enumerate().max_by_key(|(_, v)| v.len())`: the LAST maximal element
  (l.zipIdx.foldl (fun (best : Nat × Nat) (p : List Ph × Nat) =>
    if p.1.length ≥ best.2 then (p.2, p.1.length) else best) (0, 0)).1

def dropMostExpensive : Nat → List (List Ph) → List (List Ph)
  | 0, l => l
  | n + 1, l => dropMostExpensive n (l.set (maxIdxLast l) [])

def multiSD (ctx : Ctx) (a : Assets) (k : Nat) (ks : List Key) : SatDissat :=
  let dissat : Sat := ⟨.stack (List.replicate (k + 1) .pushZero), false, none, none⟩
  let sigs : List (List Ph) := ks.filterMap fun pk =>
    match sigWit ctx a pk with | .stack s => some s | _ => none
  if sigs.length < k then ⟨dissat, Sat.IMPOSSIBLE⟩
  else
    let sigs := dropMostExpensive (sigs.length - k) sigs
    ⟨dissat, ⟨sigs.foldl (fun acc s => Wit.combine acc (.stack s)) (.stack [.pushZero]), true, none, none⟩⟩

/-- the `for (i, pk) in thresh.iter().rev().enumerate()` loop with its early `break` -/
def multiALoop (ctx : Ctx) (a : Assets) (k : Nat) :
    List Key → Nat → Nat → List (List Ph) → Nat × List (List Ph)
  | [], _, cnt, sigs => (cnt, sigs)
  | pk :: rest, i, cnt, sigs =>
    match sigWit ctx a pk with
    | .stack s =>
      let sigs := sigs.set i s
      if cnt + 1 = k then (cnt + 1, sigs) else multiALoop ctx a k rest (i + 1) (cnt + 1) sigs
    | _ => multiALoop ctx a k rest (i + 1) cnt sigs

def multiASD (ctx : Ctx) (a : Assets) (k : Nat) (ks : List Key) : SatDissat :=
  let n := ks.length
  let dissat : Sat := ⟨.stack (List.replicate n .pushZero), false, none, none⟩
  let (cnt, sigs) := multiALoop ctx a k ks.reverse 0 0 (List.replicate n [.pushZero])
  if cnt < k then ⟨dissat, Sat.IMPOSSIBLE⟩
  else ⟨dissat, ⟨sigs.foldl (fun acc s => Wit.combine acc (.stack s)) (.stack []), true, none, none⟩⟩

/-- stable BIP67 sort used by `sortedmulti*` (same as `Model/Encode.sortKeys`) -/
def bytesLe' : Bytes → Bytes → Bool
  | [], _ => true
  | _ :: _, [] => false
  | a :: as, b :: bs => a < b || (a == b && bytesLe' as bs)
def insertKey' (env : KeyEnv) (k : Key) : List Key → List Key
  | [] => [k]
  | x :: xs => if bytesLe' (env.sortKey x) (env.sortKey k) then x :: insertKey' env k xs
               else k :: x :: xs
def sortKeys' (env : KeyEnv) (ks : List Key) : List Key :=
  ks.foldl (fun acc k => insertKey' env k acc) []

/-- configuration of one satisfier run -/
structure SatCfg where
  env : KeyEnv
  ctx : Ctx
  mall : Bool
  rootHasSig : Bool
  assets : Assets

def SatCfg.minFn (c : SatCfg) : Sat → Sat → Sat := if c.mall then Sat.minimumMall else Sat.minimum

mutual
/-- `Satisfaction::sat_dissat` -/
def satDissat (c : SatCfg) : Ms → SatDissat
  | .fls => ⟨Sat.TRIVIAL, Sat.IMPOSSIBLE⟩
  | .tru => ⟨Sat.IMPOSSIBLE, Sat.TRIVIAL⟩
  | .pkK k => ⟨Sat.push0, ⟨sigWit c.ctx c.assets k, true, none, none⟩⟩
  | .pkH k =>
    let pkp : Wit := .stack [.pubkey k (pkLen c.env c.ctx k)]
    ⟨⟨Wit.combine (.stack [.pushZero]) pkp, false, none, none⟩,
     ⟨Wit.combine (sigWit c.ctx c.assets k) pkp, true, none, none⟩⟩
  | .rawPkH h =>
    let pkw : Wit := match c.assets.rawPkhPk h with
      | some pk => .stack [.pubkeyHash h (pkLen c.env c.ctx pk)]
      | none => .unavailable
    let sg : Wit := match c.ctx.sigType with
      | .schnorr => match c.assets.rawPkhSchnorr h with
        | some (pk, sz) => .stack [.schnorrSigPkh h sz, .pubkeyHash h (pkLen c.env c.ctx pk)]
        | none => .impossible
      | .ecdsa => match c.assets.rawPkhEcdsa h with
        | some pk => .stack [.ecdsaSigPkh h, .pubkeyHash h (pkLen c.env c.ctx pk)]
        | none => .impossible
    ⟨⟨Wit.combine (.stack [.pushZero]) pkw, false, none, none⟩, ⟨sg, true, none, none⟩⟩
  | .multi k ks => multiSD c.ctx c.assets k ks
  | .sortedMulti k ks => multiSD c.ctx c.assets k (sortKeys' c.env ks)
  | .multiA k ks => multiASD c.ctx c.assets k ks
  | .sortedMultiA k ks => multiASD c.ctx c.assets k (sortKeys' c.env ks)
  | .after n =>
    let (st, abs) : Wit × Option Nat :=
      if c.assets.checkAfter n then (.stack [], some n)
      else if c.rootHasSig then (.impossible, none) else (.unavailable, none)
    ⟨Sat.IMPOSSIBLE, ⟨st, false, abs, none⟩⟩
  | .older n =>
    let (st, rel) : Wit × Option Nat :=
      if c.assets.checkOlder (relCanon n) then (.stack [], some n)
      else if c.rootHasSig then (.impossible, none) else (.unavailable, none)
    ⟨Sat.IMPOSSIBLE, ⟨st, false, none, rel⟩⟩
  | .hash kind h =>
    ⟨⟨.stack [.hashDissat], false, none, none⟩,
     ⟨if c.assets.preimage kind h then .stack [.preimage kind h] else .unavailable, false, none, none⟩⟩
  | .alt x | .swap x | .check x | .zeroNotEqual x => satDissat c x
  | .dupIf x =>
    let sub := (satDissat c x).sat
    ⟨Sat.push0, { sub with stack := Wit.combine sub.stack (.stack [.pushOne]) }⟩
  | .verify x => ⟨Sat.IMPOSSIBLE, (satDissat c x).sat⟩
  | .nonZero x => ⟨Sat.push0, (satDissat c x).sat⟩
  | .andB l r =>
    let l := satDissat c l; let r := satDissat c r
    ⟨l.dissat.concatenateRev r.dissat, l.sat.concatenateRev r.sat⟩
  | .andV l r =>
    let l := satDissat c l; let r := satDissat c r
    ⟨l.sat.concatenateRev r.dissat, l.sat.concatenateRev r.sat⟩
  | .andOr a b z =>
    let a := satDissat c a; let b := satDissat c b; let z := satDissat c z
    ⟨a.dissat.concatenateRev z.dissat,
     c.minFn (a.sat.concatenateRev b.sat) (a.dissat.concatenateRev z.sat)⟩
  | .orB l r =>
    let l := satDissat c l; let r := satDissat c r
    ⟨l.dissat.concatenateRev r.dissat,
     c.minFn (l.dissat.concatenateRev r.sat) (l.sat.concatenateRev r.dissat)⟩
  | .orC l r =>
    let l := satDissat c l; let r := satDissat c r
    ⟨Sat.IMPOSSIBLE, c.minFn l.sat (l.dissat.concatenateRev r.sat)⟩
  | .orD l r =>
    let l := satDissat c l; let r := satDissat c r
    ⟨l.dissat.concatenateRev r.dissat, c.minFn l.sat (l.dissat.concatenateRev r.sat)⟩
  | .orI l r =>
    let l := satDissat c l; let r := satDissat c r
    let w1 (s : Sat) : Sat := { s with stack := Wit.combine s.stack (.stack [.pushOne]) }
    let w0 (s : Sat) : Sat := { s with stack := Wit.combine s.stack (.stack [.pushZero]) }
    ⟨c.minFn (w1 l.dissat) (w0 r.dissat), c.minFn (w1 l.sat) (w0 r.sat)⟩
  | .thresh k xs =>
    let sds := satDissats c xs
    let dissats := sds.map (·.dissat)
    let sats := sds.map (·.sat)
    let dissat := foldConcat dissats
    let sat :=
      if k = sds.length then foldConcat sats
      else if c.mall then threshMall k dissats sats else threshNonMall k dissats sats
    ⟨dissat, sat⟩
def satDissats (c : SatCfg) : MsList → List SatDissat
  | .nil => []
  | .cons x xs => satDissat c x :: satDissats c xs
end

end MsVerif

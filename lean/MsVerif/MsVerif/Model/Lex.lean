/-
Model of `src/miniscript/lex.rs` (`Token`, `lex`) on BYTES, together with the part of
rust-bitcoin 0.32 it runs on: `Script::instructions_minimal()` (`Instructions::next` with
`enforce_minimal = true`, blockdata/script/instruction.rs) and `read_scriptint`
(blockdata/script/mod.rs).

The Rust lexer appends to a `Vec<Token>` and looks at `ret.last()` when it sees `OP_VERIFY`;
the model threads that last token as `prev` and produces the tokens in script order.
`strict = true` is the code that exists (since fix 042abd7f): `OP_VERIFY` is rejected after
`Equal`, `NumEqual`, `CheckSig`, `CheckMultiSig`.  `strict = false` is the lexer before that
fix (no `NumEqual` in the check); the lemmas are generic in the flag, only `lexG true` is used
by the model and the theorems.  No imports beyond the spec.
-/
import MsVerif.Model.Ast
import MsVerif.Spec.Script

namespace MsVerif
open Script

/-- `lex::Token` -/
inductive Token
  | boolAnd | boolOr | add | equal | numEqual | checkSig | checkSigAdd | checkMultiSig
  | csv | cltv | fromAlt | toAlt | drop | dup | if_ | ifDup | notIf | else_ | endIf
  | zeroNotEqual | size | swap | verify | ripemd160 | hash160 | sha256 | hash256
  | num (n : Nat)
  | hash20 (b : Bytes) | bytes32 (b : Bytes) | bytes33 (b : Bytes) | bytes65 (b : Bytes)
  deriving DecidableEq, Repr, Inhabited

/-- `lex::Error`, payloads dropped -/
inductive LexErr
  | script            -- `Error::Script`: early end of script / non-minimal push
  | invalidInt        -- push that is no key, hash or minimal ≤ 4-byte integer
  | negativeInt
  | invalidOpcode
  | nonMinimalVerify
  deriving DecidableEq, Repr, Inhabited

/-- `script::Instruction` -/
inductive Instr
  | push (bs : Bytes)
  | op (b : UInt8)
  deriving DecidableEq, Repr

/-- `take_slice_or_kill` -/
def takeSlice (n : Nat) (rest : Bytes) : Except LexErr (Instr × Bytes) :=
  if n ≤ rest.length then .ok (.push (rest.take n), rest.drop n) else .error .script

/-- `next_push_data_len`: `size`-byte little-endian length, minimal-push rule `n ≥ minLen` -/
def pushDataLen (size minLen : Nat) (rest : Bytes) : Except LexErr (Instr × Bytes) :=
  if rest.length < size then .error .script
  else
    let n := leValue (rest.take size)
    if n < minLen then .error .script else takeSlice n (rest.drop size)

/-- `0x81` or `1..=16`: single bytes that have a dedicated opcode -/
def hasPushNum (c : UInt8) : Bool := c == 0x81 || (0 < c.toNat && c.toNat ≤ 16)

/-- `Instructions::next` (enforce_minimal) on a non-empty script `b :: rest` -/
def nextInstr (b : UInt8) (rest : Bytes) : Except LexErr (Instr × Bytes) :=
  let n := b.toNat
  if n ≤ 75 then
    if n = 1 && (match rest with | c :: _ => hasPushNum c | [] => false) then .error .script
    else takeSlice n rest
  else if n = 0x4c then pushDataLen 1 76 rest
  else if n = 0x4d then pushDataLen 2 0x100 rest
  else if n = 0x4e then pushDataLen 4 0x10000 rest
  else .ok (.op b, rest)

/-- the `PushBytes` arm: 20/32/33/65-byte pushes are hashes/keys, anything else must be a
minimal non-negative script number of at most 4 bytes (`read_scriptint`) -/
def pushToken (bs : Bytes) : Except LexErr Token :=
  if bs.length = 20 then .ok (.hash20 bs)
  else if bs.length = 32 then .ok (.bytes32 bs)
  else if bs.length = 33 then .ok (.bytes33 bs)
  else if bs.length = 65 then .ok (.bytes65 bs)
  else if bs.length > 4 then .error .invalidInt
  else if !numMinimal bs then .error .invalidInt
  else
    let v := numDecodeRaw bs
    if v ≥ 0 then .ok (.num v.toNat) else .error .negativeInt

/-- may `OP_VERIFY` not follow this token (it would have been fused into `*VERIFY`)? -/
def fusesVerify (strict : Bool) : Token → Bool
  | .equal | .checkSig | .checkMultiSig => true
  | .numEqual => strict
  | _ => false

/-- tokens pushed for a non-push opcode byte (the big `match` of `lex`) -/
def opTokens (strict : Bool) (prev : Option Token) (b : UInt8) : Except LexErr (List Token) :=
  if b == 0x9a then .ok [.boolAnd]
  else if b == 0x9b then .ok [.boolOr]
  else if b == 0x87 then .ok [.equal]
  else if b == 0x88 then .ok [.equal, .verify]
  else if b == 0x9c then .ok [.numEqual]
  else if b == 0x9d then .ok [.numEqual, .verify]
  else if b == 0xac then .ok [.checkSig]
  else if b == 0xad then .ok [.checkSig, .verify]
  else if b == 0xba then .ok [.checkSigAdd]
  else if b == 0xae then .ok [.checkMultiSig]
  else if b == 0xaf then .ok [.checkMultiSig, .verify]
  else if b == 0xb2 then .ok [.csv]
  else if b == 0xb1 then .ok [.cltv]
  else if b == 0x6c then .ok [.fromAlt]
  else if b == 0x6b then .ok [.toAlt]
  else if b == 0x75 then .ok [.drop]
  else if b == 0x76 then .ok [.dup]
  else if b == 0x93 then .ok [.add]
  else if b == 0x63 then .ok [.if_]
  else if b == 0x73 then .ok [.ifDup]
  else if b == 0x64 then .ok [.notIf]
  else if b == 0x67 then .ok [.else_]
  else if b == 0x68 then .ok [.endIf]
  else if b == 0x92 then .ok [.zeroNotEqual]
  else if b == 0x82 then .ok [.size]
  else if b == 0x7c then .ok [.swap]
  else if b == 0x69 then
    match prev with
    | some t => if fusesVerify strict t then .error .nonMinimalVerify else .ok [.verify]
    | none => .ok [.verify]
  else if b == 0xa6 then .ok [.ripemd160]
  else if b == 0xa9 then .ok [.hash160]
  else if b == 0xa8 then .ok [.sha256]
  else if b == 0xaa then .ok [.hash256]
  else if 0x51 ≤ b.toNat && b.toNat ≤ 0x60 then .ok [.num (b.toNat - 0x50)]
  else .error .invalidOpcode

def instrTokens (strict : Bool) (prev : Option Token) : Instr → Except LexErr (List Token)
  | .push bs => (pushToken bs).map ([·])
  | .op b => opTokens strict prev b

/-- the `for ins in script.instructions_minimal()` loop; fuel = number of bytes -/
def lexGo (strict : Bool) : Nat → Option Token → Bytes → Except LexErr (List Token)
  | _, _, [] => .ok []
  | 0, _, _ :: _ => .error .script
  | fuel + 1, prev, b :: rest =>
    match nextInstr b rest with
    | .error e => .error e
    | .ok (ins, rest') =>
      match instrTokens strict prev ins with
      | .error e => .error e
      | .ok toks =>
        match lexGo strict fuel (toks.getLast?.or prev) rest' with
        | .error e => .error e
        | .ok ts => .ok (toks ++ ts)

def lexG (strict : Bool) (bs : Bytes) : Except LexErr (List Token) := lexGo strict bs.length none bs

/-- `lex::lex` (tokens in script order; `TokenIter` pops them from the end) -/
def lex (bs : Bytes) : Except LexErr (List Token) := lexG true bs

/-! ### canonical serialisation of a token list (the inverse the lexer should have) -/

def Token.bytes1 : Token → Bytes
  | .boolAnd => [0x9a] | .boolOr => [0x9b] | .add => [0x93] | .equal => [0x87]
  | .numEqual => [0x9c] | .checkSig => [0xac] | .checkSigAdd => [0xba] | .checkMultiSig => [0xae]
  | .csv => [0xb2] | .cltv => [0xb1] | .fromAlt => [0x6c] | .toAlt => [0x6b] | .drop => [0x75]
  | .dup => [0x76] | .if_ => [0x63] | .ifDup => [0x73] | .notIf => [0x64] | .else_ => [0x67]
  | .endIf => [0x68] | .zeroNotEqual => [0x92] | .size => [0x82] | .swap => [0x7c]
  | .verify => [0x69] | .ripemd160 => [0xa6] | .hash160 => [0xa9] | .sha256 => [0xa8]
  | .hash256 => [0xaa]
  | .num n => if n = 0 then [0x00] else if n ≤ 16 then [UInt8.ofNat (0x50 + n)]
              else let e := numEncode (Int.ofNat n); UInt8.ofNat e.length :: e
  | .hash20 b | .bytes32 b | .bytes33 b | .bytes65 b => UInt8.ofNat b.length :: b

/-- the fused opcode for `t VERIFY`, if any -/
def Token.fused : Token → Option UInt8
  | .equal => some 0x88 | .numEqual => some 0x9d | .checkSig => some 0xad
  | .checkMultiSig => some 0xaf | _ => none

/-- canonical bytes of a token list: `t, Verify` is one fused opcode where one exists -/
def tokBytes : List Token → Bytes
  | [] => []
  | [t] => t.bytes1
  | t :: .verify :: ts =>
    match t.fused with
    | some b => b :: tokBytes ts
    | none => t.bytes1 ++ tokBytes (.verify :: ts)
  | t :: u :: ts => t.bytes1 ++ tokBytes (u :: ts)

end MsVerif

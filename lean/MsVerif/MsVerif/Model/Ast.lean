/-
Model of `Terminal<Pk, Ctx>` (src/miniscript/decode.rs) — the Miniscript AST.

Keys and hash values are abstract atoms (`Nat` ids); their byte serialisations come from a
`KeyEnv`.  `Ms`/`MsList` are mutually inductive so that recursion over threshold children is
structural and `induction` is available.  No imports.
-/
namespace MsVerif

abbrev Bytes := List UInt8

/-- script contexts (`BareCtx`, `Legacy`, `Segwitv0`, `Tap`) -/
inductive Ctx | bare | legacy | segwitv0 | tap
  deriving DecidableEq, Repr, Inhabited

inductive SigType | ecdsa | schnorr
  deriving DecidableEq, Repr

def Ctx.sigType : Ctx → SigType
  | .tap => .schnorr
  | _ => .ecdsa

inductive HashKind | sha256 | hash256 | ripemd160 | hash160
  deriving DecidableEq, Repr, Inhabited

abbrev Key := Nat

mutual
inductive Ms where
  | tru : Ms
  | fls : Ms
  | pkK (k : Key) : Ms
  | pkH (k : Key) : Ms
  | rawPkH (h : Nat) : Ms
  | after (n : Nat) : Ms
  | older (n : Nat) : Ms
  | hash (kind : HashKind) (h : Nat) : Ms
  | alt (x : Ms) : Ms
  | swap (x : Ms) : Ms
  | check (x : Ms) : Ms
  | dupIf (x : Ms) : Ms
  | verify (x : Ms) : Ms
  | nonZero (x : Ms) : Ms
  | zeroNotEqual (x : Ms) : Ms
  | andV (l r : Ms) : Ms
  | andB (l r : Ms) : Ms
  | andOr (a b c : Ms) : Ms
  | orB (l r : Ms) : Ms
  | orD (l r : Ms) : Ms
  | orC (l r : Ms) : Ms
  | orI (l r : Ms) : Ms
  | thresh (k : Nat) (xs : MsList) : Ms
  | multi (k : Nat) (ks : List Key) : Ms
  | sortedMulti (k : Nat) (ks : List Key) : Ms
  | multiA (k : Nat) (ks : List Key) : Ms
  | sortedMultiA (k : Nat) (ks : List Key) : Ms
inductive MsList where
  | nil : MsList
  | cons (x : Ms) (xs : MsList) : MsList
end

deriving instance Repr for Ms
deriving instance Repr for MsList
deriving instance DecidableEq for Ms
deriving instance DecidableEq for MsList
instance : Inhabited Ms := ⟨.fls⟩

def MsList.toList : MsList → List Ms
  | .nil => []
  | .cons x xs => x :: xs.toList

def MsList.ofList : List Ms → MsList
  | [] => .nil
  | x :: xs => .cons x (MsList.ofList xs)

def MsList.length : MsList → Nat
  | .nil => 0
  | .cons _ xs => xs.length + 1

@[simp] theorem MsList.toList_ofList (l : List Ms) : (MsList.ofList l).toList = l := by
  induction l with
  | nil => rfl
  | cons x xs ih => simp [MsList.ofList, MsList.toList, ih]

@[simp] theorem MsList.length_toList : (l : MsList) → l.toList.length = l.length
  | .nil => rfl
  | .cons _ xs => by simp [MsList.toList, MsList.length, MsList.length_toList xs]

/-- Byte-level facts about the atoms, supplied by the harness in executable runs and left
abstract in theorems. -/
structure KeyEnv where
  /-- serialisation pushed into the script for key `k` (33/65 bytes ECDSA, 32 bytes x-only) -/
  ser : Key → Bytes
  /-- BIP67 sort key: compressed (33-byte) resp. x-only (32-byte) serialisation -/
  sortKey : Key → Bytes
  /-- HASH160 of that serialisation (what `pk_h` commits to) -/
  pkh : Key → Bytes
  /-- the 20-byte hash of a `RawPkH` atom -/
  rawPkh : Nat → Bytes
  /-- the committed hash value of hash atom `h` (32 or 20 bytes) -/
  hashVal : HashKind → Nat → Bytes

/-- `Ctx::pk_len`: serialised key length plus the push opcode -/
def pkLen (env : KeyEnv) (ctx : Ctx) (k : Key) : Nat :=
  match ctx with
  | .segwitv0 => 34
  | .tap => 33
  | _ => if (env.ser k).length = 65 then 66 else 34

mutual
def Ms.nodes : Ms → Nat
  | .alt x | .swap x | .check x | .dupIf x | .verify x | .nonZero x | .zeroNotEqual x => x.nodes + 1
  | .andV l r | .andB l r | .orB l r | .orD l r | .orC l r | .orI l r => l.nodes + r.nodes + 1
  | .andOr a b c => a.nodes + b.nodes + c.nodes + 1
  | .thresh _ xs => xs.nodes + 1
  | _ => 1
def MsList.nodes : MsList → Nat
  | .nil => 0
  | .cons x xs => x.nodes + xs.nodes
end

end MsVerif

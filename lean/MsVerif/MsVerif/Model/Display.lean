/-
Model/Display.lean — executable mirror of

* `src/miniscript/display.rs`: `fragment_name`, `is_wrapper`, the `DisplayNode` tree walk of
  `conditional_fmt` (`DisplayTypes::None`), producing the expression TREE that the printed string
  denotes (`Model/Expr.lean`'s `Tree`; `Tree.print` gives the characters);
* `src/miniscript/mod.rs`: `impl FromTree for Miniscript` (name split at `:`, fragment table,
  arity checks, wrappers applied right to left with `t`/`l`/`u` expansion, `from_ast` at every
  constructed node, final `check_global_validity` sweep), and `Miniscript::from_ast`
  (type check, tree height ≤ 402, `check_global_validity`).

Keys / hashes / raw key hashes are atoms (`Nat` ids); their text form is a `Codec`
(`Display`/`FromStr` of the key type).  The Rust parser walks the node array in reverse
pre-order with an explicit stack; the model is the equivalent recursion (all errors collapse to
`ERR` on the wire, so the order in which errors are discovered is not compared).
No Mathlib.
-/
import MsVerif.Model.Expr
import MsVerif.Model.TypeCheck

namespace MsVerif.Display
open MsVerif.Expr (Tree Parens parseNum)

/-! ## decimal numbers (`u32`/`usize` `Display`) -/

def digit : Nat → Char
  | 0 => '0' | 1 => '1' | 2 => '2' | 3 => '3' | 4 => '4'
  | 5 => '5' | 6 => '6' | 7 => '7' | 8 => '8' | _ => '9'

def showNat (n : Nat) : List Char :=
  if n < 10 then [digit n] else showNat (n / 10) ++ [digit (n % 10)]
termination_by n
decreasing_by omega

/-! ## atoms -/

/-- `Display` / `FromStr` of the key type and its hash types, and the per-node part of
`Ctx::check_global_validity` -/
structure Codec where
  showKey : Nat → List Char
  readKey : List Char → Option Nat
  showHash : HashKind → Nat → List Char
  readHash : HashKind → List Char → Option Nat
  showRaw : Nat → List Char
  readRaw : List Char → Option Nat
  gv : Ms → Bool

/-! ## fragment names (`fragment_name`) -/

inductive Frag
  | tru | fls | pk_k | pk_h | rawPkh | after | older | sha256 | hash256 | ripemd160 | hash160
  | pk | pkh
  | and_v | and_b | and_n | andor | or_b | or_d | or_c | or_i
  | thresh | multi | sortedmulti | multi_a | sortedmulti_a
deriving DecidableEq, Repr

def Frag.name : Frag → List Char
  | .tru => ['1'] | .fls => ['0']
  | .pk_k => ['p','k','_','k'] | .pk_h => ['p','k','_','h']
  | .rawPkh => ['e','x','p','r','_','r','a','w','_','p','k','h']
  | .after => ['a','f','t','e','r'] | .older => ['o','l','d','e','r']
  | .sha256 => ['s','h','a','2','5','6'] | .hash256 => ['h','a','s','h','2','5','6']
  | .ripemd160 => ['r','i','p','e','m','d','1','6','0'] | .hash160 => ['h','a','s','h','1','6','0']
  | .pk => ['p','k'] | .pkh => ['p','k','h']
  | .and_v => ['a','n','d','_','v'] | .and_b => ['a','n','d','_','b'] | .and_n => ['a','n','d','_','n']
  | .andor => ['a','n','d','o','r']
  | .or_b => ['o','r','_','b'] | .or_d => ['o','r','_','d'] | .or_c => ['o','r','_','c'] | .or_i => ['o','r','_','i']
  | .thresh => ['t','h','r','e','s','h'] | .multi => ['m','u','l','t','i']
  | .sortedmulti => ['s','o','r','t','e','d','m','u','l','t','i']
  | .multi_a => ['m','u','l','t','i','_','a']
  | .sortedmulti_a => ['s','o','r','t','e','d','m','u','l','t','i','_','a']

/-- the names `FromTree` knows, in the order of its `match`.  Since repo commit b17364cb every
name `fragment_name` can return is among them (a bare `RawPkH` used to print as `expr_raw_pk_h`). -/
def Frag.parseable : List Frag :=
  [.rawPkh, .pk, .pkh, .pk_k, .pk_h, .after, .older, .sha256, .hash256, .ripemd160, .hash160,
   .tru, .fls, .and_v, .and_b, .and_n, .andor, .or_b, .or_d, .or_c, .or_i,
   .thresh, .multi, .sortedmulti, .multi_a, .sortedmulti_a]

def Frag.ofName (s : List Char) : Option Frag := Frag.parseable.find? (fun f => f.name == s)

def hashFrag : HashKind → Frag
  | .sha256 => .sha256 | .hash256 => .hash256 | .ripemd160 => .ripemd160 | .hash160 => .hash160

/-! ## Display -/

def leaf (s : List Char) : Tree := .node s .none []

/-- the `:` is written by a non-wrapper whose parent is a wrapper -/
def joinName (pre nm : List Char) : List Char := if pre.isEmpty then nm else pre ++ ':' :: nm

/-- a non-wrapper node: `name`, then `(` children `)` unless there are none -/
def core (pre : List Char) (f : Frag) (cs : List Tree) : Tree :=
  .node (joinName pre f.name) (if cs.isEmpty then .none else .round) cs

/-- `Check` over `PkK`/`PkH` is one fragment (`pk`, `pkh`) whose only child is the key.
`Check` over `RawPkH` is NOT folded (b17364cb): it prints as the wrapper `c:expr_raw_pkh(H)`. -/
def sugarCheck (c : Codec) : Ms → Option (Frag × List Char)
  | .pkK k => some (.pk, c.showKey k)
  | .pkH k => some (.pkh, c.showKey k)
  | _ => none

mutual
/-- the tree printed for `m` when the wrapper ancestors directly above it have printed `pre` -/
def toTreeW (c : Codec) (pre : List Char) : Ms → Tree
  | .tru => core pre .tru []
  | .fls => core pre .fls []
  | .pkK k => core pre .pk_k [leaf (c.showKey k)]
  | .pkH k => core pre .pk_h [leaf (c.showKey k)]
  | .rawPkH h => core pre .rawPkh [leaf (c.showRaw h)]
  | .after n => core pre .after [leaf (showNat n)]
  | .older n => core pre .older [leaf (showNat n)]
  | .hash kind h => core pre (hashFrag kind) [leaf (c.showHash kind h)]
  | .alt x => toTreeW c (pre ++ ['a']) x
  | .swap x => toTreeW c (pre ++ ['s']) x
  | .check x =>
    match sugarCheck c x with
    | some (f, s) => core pre f [leaf s]
    | none => toTreeW c (pre ++ ['c']) x
  | .dupIf x => toTreeW c (pre ++ ['d']) x
  | .verify x => toTreeW c (pre ++ ['v']) x
  | .nonZero x => toTreeW c (pre ++ ['j']) x
  | .zeroNotEqual x => toTreeW c (pre ++ ['n']) x
  | .andV l r =>
    if r = .tru then toTreeW c (pre ++ ['t']) l
    else core pre .and_v [toTreeW c [] l, toTreeW c [] r]
  | .andB l r => core pre .and_b [toTreeW c [] l, toTreeW c [] r]
  | .andOr a b z =>
    if z = .fls then core pre .and_n [toTreeW c [] a, toTreeW c [] b]
    else core pre .andor [toTreeW c [] a, toTreeW c [] b, toTreeW c [] z]
  | .orB l r => core pre .or_b [toTreeW c [] l, toTreeW c [] r]
  | .orD l r => core pre .or_d [toTreeW c [] l, toTreeW c [] r]
  | .orC l r => core pre .or_c [toTreeW c [] l, toTreeW c [] r]
  | .orI l r =>
    -- `fragment_name` tests the right child first (`u`), `as_node` the left child first
    if r = .fls then
      (if l = .fls then toTreeW c (pre ++ ['u']) r else toTreeW c (pre ++ ['u']) l)
    else if l = .fls then toTreeW c (pre ++ ['l']) r
    else core pre .or_i [toTreeW c [] l, toTreeW c [] r]
  | .thresh k xs => core pre .thresh (leaf (showNat k) :: toTreeList c xs)
  | .multi k ks => core pre .multi (leaf (showNat k) :: ks.map (fun k => leaf (c.showKey k)))
  | .sortedMulti k ks => core pre .sortedmulti (leaf (showNat k) :: ks.map (fun k => leaf (c.showKey k)))
  | .multiA k ks => core pre .multi_a (leaf (showNat k) :: ks.map (fun k => leaf (c.showKey k)))
  | .sortedMultiA k ks => core pre .sortedmulti_a (leaf (showNat k) :: ks.map (fun k => leaf (c.showKey k)))
def toTreeList (c : Codec) : MsList → List Tree
  | .nil => []
  | .cons x xs => toTreeW c [] x :: toTreeList c xs
end

/-- `impl Display for Miniscript` as an expression tree -/
def toTree (c : Codec) (m : Ms) : Tree := toTreeW c [] m

/-- the characters written by `Display` -/
def display (c : Codec) (m : Ms) : List Char := (toTree c m).print

/-! ## `Miniscript::from_ast` -/

mutual
/-- `ExtData::tree_height` -/
def height : Ms → Nat
  | .alt x | .swap x | .check x | .dupIf x | .verify x | .nonZero x | .zeroNotEqual x => height x + 1
  | .andV l r | .andB l r | .orB l r | .orD l r | .orC l r | .orI l r => 1 + max (height l) (height r)
  | .andOr a b z => 1 + max (height a) (max (height b) (height z))
  | .thresh _ xs => heightList xs + 1
  | _ => 0
def heightList : MsList → Nat
  | .nil => 0
  | .cons x xs => max (height x) (heightList xs)
end

def MAX_RECURSION_DEPTH : Nat := 402

inductive DErr
  | curly | name | wrapper | arity | atom | num | thresh | typeck | depth | validity | expr
deriving DecidableEq, Repr

abbrev R := Except DErr

/-- `Miniscript::from_ast`: type check, height limit, `Ctx::check_global_validity` -/
def mk (c : Codec) (m : Ms) : R Ms :=
  match typeOf m with
  | none => .error .typeck
  | some _ =>
    if height m > MAX_RECURSION_DEPTH then .error .depth
    else if c.gv m then .ok m else .error .validity

/-! ## `FromTree for Miniscript` -/

/-- split at the first occurrence of `ch` -/
def splitFirst (ch : Char) : List Char → List Char × Option (List Char)
  | [] => ([], none)
  | x :: xs =>
    if x = ch then ([], some xs)
    else let r := splitFirst ch xs; (x :: r.1, r.2)

/-- `name_separated(':')`: `none` = `MultipleSeparators` -/
def nameSeparated (name : List Char) : Option (Option (List Char) × List Char) :=
  match splitFirst ':' name with
  | (_, none) => some (none, name)
  | (a, some rest) => if rest.contains ':' then none else some (some a, rest)

/-- the term built for one wrapper character -/
def wrapTerm (ch : Char) (x : Ms) : Option Ms :=
  if ch = 'a' then some (.alt x) else if ch = 's' then some (.swap x)
  else if ch = 'c' then some (.check x) else if ch = 'd' then some (.dupIf x)
  else if ch = 'v' then some (.verify x) else if ch = 'j' then some (.nonZero x)
  else if ch = 'n' then some (.zeroNotEqual x)
  else if ch = 't' then some (.andV x .tru)
  else if ch = 'u' then some (.orI x .fls)
  else if ch = 'l' then some (.orI .fls x)
  else none

/-- `for ch in frag_wrap.bytes().rev()`; the argument is the already reversed prefix -/
def applyWrappers (c : Codec) : List Char → Ms → R Ms
  | [], m => .ok m
  | ch :: rest, m =>
    match wrapTerm ch m with
    | none => .error .wrapper
    | some t =>
      match mk c t with
      | .error e => .error e
      | .ok m' => applyWrappers c rest m'

/-- name of a node without children -/
def leafName : Tree → Option (List Char)
  | .node nm _ [] => some nm
  | _ => none

/-- `verify_terminal_parent` -/
def termParent (cs : List Tree) (read : List Char → Option Nat) (f : Nat → Ms) : R Ms :=
  match cs with
  | [t] =>
    match leafName t with
    | none => .error .arity
    | some nm => match read nm with | none => .error .atom | some a => .ok (f a)
  | _ => .error .arity

/-- `verify_after` / `verify_older`: both ranges are `1 ..= 0x7fff_ffff`
(`AbsLockTime::from_consensus`; `RelLockTime`: non-zero and bit 31 clear) -/
def lockParent (cs : List Tree) (f : Nat → Ms) : R Ms :=
  match cs with
  | [t] =>
    match leafName t with
    | none => .error .arity
    | some nm =>
      match parseNum nm with
      | .error _ => .error .num
      | .ok n => if 1 ≤ n ∧ n ≤ 2147483647 then .ok (f n) else .error .num
  | _ => .error .arity

/-- the `k` of `verify_threshold::<MAX>` (`MAX = 0`: unbounded) -/
def threshK (max : Nat) (cs : List Tree) : R Nat :=
  match cs with
  | [] => .error .thresh
  | kt :: rest =>
    match leafName kt with
    | none => .error .thresh
    | some nm =>
      match parseNum nm with
      | .error _ => .error .num
      | .ok k =>
        if k = 0 ∨ k > rest.length ∨ (max > 0 ∧ rest.length > max) then .error .thresh else .ok k

def collect : List (R Ms) → R (List Ms)
  | [] => .ok []
  | r :: rs =>
    match r with
    | .error e => .error e
    | .ok m => match collect rs with | .error e => .error e | .ok ms => .ok (m :: ms)

/-- children of `multi` & co.: `verify_terminal("public_key")` each -/
def readKeys (c : Codec) : List Tree → R (List Nat)
  | [] => .ok []
  | t :: ts =>
    match leafName t with
    | none => .error .arity
    | some nm =>
      match c.readKey nm with
      | none => .error .atom
      | some k => match readKeys c ts with | .error e => .error e | .ok ks => .ok (k :: ks)

def keysThresh (c : Codec) (max : Nat) (cs : List Tree) (f : Nat → List Nat → Ms) : R Ms :=
  match threshK max cs with
  | .error e => .error e
  | .ok k =>
    match readKeys c cs.tail with
    | .error e => .error e
    | .ok ks => mk c (f k ks)

def binary (c : Codec) (kids : List (R Ms)) (f : Ms → Ms → Ms) : R Ms :=
  match kids with
  | [a, b] =>
    match a, b with
    | .ok x, .ok y => mk c (f x y)
    | .error e, _ => .error e
    | _, .error e => .error e
  | _ => .error .arity

/-- the `match frag_name { … }` of `from_tree`; `kids` are the parsed children -/
def parseCore (c : Codec) (f : Frag) (cs : List Tree) (kids : List (R Ms)) : R Ms :=
  match f with
  | .rawPkh => termParent cs c.readRaw .rawPkH          -- `Self::expr_raw_pkh`: the bare K-typed `RawPkH`
  | .pk => termParent cs c.readKey (fun k => .check (.pkK k))
  | .pkh => termParent cs c.readKey (fun k => .check (.pkH k))
  | .pk_k => termParent cs c.readKey .pkK
  | .pk_h => termParent cs c.readKey .pkH
  | .after => lockParent cs .after
  | .older => lockParent cs .older
  | .sha256 => termParent cs (c.readHash .sha256) (.hash .sha256)
  | .hash256 => termParent cs (c.readHash .hash256) (.hash .hash256)
  | .ripemd160 => termParent cs (c.readHash .ripemd160) (.hash .ripemd160)
  | .hash160 => termParent cs (c.readHash .hash160) (.hash .hash160)
  | .tru => if cs.isEmpty then .ok .tru else .error .arity
  | .fls => if cs.isEmpty then .ok .fls else .error .arity
  | .and_v => binary c kids .andV
  | .and_b => binary c kids .andB
  | .and_n => binary c kids (fun x y => .andOr x y .fls)
  | .andor =>
    match kids with
    | [a, b, z] =>
      match a, b, z with
      | .ok x, .ok y, .ok w => mk c (.andOr x y w)
      | .error e, _, _ => .error e
      | _, .error e, _ => .error e
      | _, _, .error e => .error e
    | _ => .error .arity
  | .or_b => binary c kids .orB
  | .or_d => binary c kids .orD
  | .or_c => binary c kids .orC
  | .or_i => binary c kids .orI
  | .thresh =>
    match threshK 0 cs with
    | .error e => .error e
    | .ok k =>
      match collect kids.tail with
      | .error e => .error e
      | .ok xs => mk c (.thresh k (MsList.ofList xs))
  | .multi => keysThresh c 20 cs .multi
  | .sortedmulti => keysThresh c 20 cs .sortedMulti
  | .multi_a => keysThresh c 999 cs .multiA
  | .sortedmulti_a => keysThresh c 999 cs .sortedMultiA

/-- one node: split the name, parse the fragment, apply the wrappers right to left -/
def parseNode (c : Codec) (name : List Char) (cs : List Tree) (kids : List (R Ms)) : R Ms :=
  match nameSeparated name with
  | none => .error .name
  | some (wrap, fname) =>
    match Frag.ofName fname with
    | none => .error .name
    | some f =>
      match parseCore c f cs kids with
      | .error e => .error e
      | .ok base =>
        match wrap with
        | none => .ok base
        | some w => if w.isEmpty then .error .name else applyWrappers c w.reverse base

mutual
def fromTreeI (c : Codec) : Tree → R Ms
  | .node name _ cs => parseNode c name cs (fromTreeL c cs)
def fromTreeL (c : Codec) : List Tree → List (R Ms)
  | [] => []
  | t :: ts => fromTreeI c t :: fromTreeL c ts
end

mutual
/-- `verify_no_curly_braces` -/
def hasCurly : Tree → Bool
  | .node _ p cs => p == .curly || hasCurlyL cs
def hasCurlyL : List Tree → Bool
  | [] => false
  | t :: ts => hasCurly t || hasCurlyL ts
end

mutual
/-- `p` holds at every node (`Miniscript::pre_order_iter`) -/
def Ms.all (p : Ms → Bool) : Ms → Bool
  | .alt x => p (.alt x) && Ms.all p x
  | .swap x => p (.swap x) && Ms.all p x
  | .check x => p (.check x) && Ms.all p x
  | .dupIf x => p (.dupIf x) && Ms.all p x
  | .verify x => p (.verify x) && Ms.all p x
  | .nonZero x => p (.nonZero x) && Ms.all p x
  | .zeroNotEqual x => p (.zeroNotEqual x) && Ms.all p x
  | .andV l r => p (.andV l r) && Ms.all p l && Ms.all p r
  | .andB l r => p (.andB l r) && Ms.all p l && Ms.all p r
  | .orB l r => p (.orB l r) && Ms.all p l && Ms.all p r
  | .orD l r => p (.orD l r) && Ms.all p l && Ms.all p r
  | .orC l r => p (.orC l r) && Ms.all p l && Ms.all p r
  | .orI l r => p (.orI l r) && Ms.all p l && Ms.all p r
  | .andOr a b z => p (.andOr a b z) && Ms.all p a && Ms.all p b && Ms.all p z
  | .thresh k xs => p (.thresh k xs) && MsList.all p xs
  | m => p m
def MsList.all (p : Ms → Bool) : MsList → Bool
  | .nil => true
  | .cons x xs => Ms.all p x && MsList.all p xs
end

/-- `FromTree for Miniscript`: no curly braces, the node recursion, then
`Ctx::check_global_validity` on every node of the result -/
def fromTree (c : Codec) (t : Tree) : R Ms :=
  if hasCurly t then .error .curly else
  match fromTreeI c t with
  | .error e => .error e
  | .ok m => if Ms.all c.gv m then .ok m else .error .validity

/-- `Tree::from_str` (Model/Expr.lean: checksum, pre-check, builder) followed by `FromTree`:
the parser on CHARACTERS (`Miniscript::from_str_with_validation_params` without the final
`validate`) -/
def fromStr (c : Codec) (s : List Char) : R Ms :=
  match Expr.fromStrInner s with
  | .error _ => .error .expr
  | .ok nodes =>
    match Expr.toTree nodes with
    | none => .error .expr
    | some t => fromTree c t

/-! ## numeric arguments: `parse_num` followed by the range check of the position -/

/-- where a number occurs in the text of a miniscript / policy -/
inductive NumPos
  | lock            -- `after(N)` / `older(N)`: `AbsLockTime` / `RelLockTime`, both 1 ..= 0x7fff_ffff
  | threshK (n : Nat) (lo hi : Nat)   -- `k` of a threshold with `n` children; `lo ≤ k ≤ hi` (semantic: 2 ≤ k ≤ n-1)
  | weight          -- `W@` of a concrete `or`: `parse_num_nonzero`
deriving DecidableEq, Repr

/-- the value a numeric argument denotes (`none`: the text must be rejected) -/
def numArg (pos : NumPos) (s : List Char) : Option Nat :=
  match parseNum s with
  | .error _ => none
  | .ok v =>
    match pos with
    | .lock => if 1 ≤ v ∧ v ≤ 2147483647 then some v else none
    | .threshK _ lo hi => if lo ≤ v ∧ v ≤ hi then some v else none
    | .weight => if 1 ≤ v then some v else none

/-! ## the decimal codec used on the wire (`pk(3)`, `sha256(0)`, `expr_raw_pkh(1)`) -/

def readDec (s : List Char) : Option Nat :=
  match parseNum s with | .ok n => some n | .error _ => none

def decCodec (gv : Ms → Bool) : Codec where
  showKey := showNat
  readKey := readDec
  showHash _ := showNat
  readHash _ := readDec
  showRaw := showNat
  readRaw := readDec
  gv := gv

end MsVerif.Display

/-
Descriptor level of C20 (shapes `Desc` of Model/Descriptor.lean, read-only):

* `Descriptor::translate_pk` through the wrappers (src/descriptor/{bare,segwitv0,sh}.rs,
  src/descriptor/tr/{mod,taptree}.rs):
    Bare  : `Bare::new(self.ms.translate_pk(t)?)`
    Pkh   : `Pkh::new(t.pk(&self.pk)?)`          (`BareCtx::check_pk`)
    Wpkh  : `Wpkh::new(t.pk(&self.pk)?)`         (`Segwitv0::check_pk`)
    Wsh   : `Wsh { ms: self.ms.translate_pk(t)? }`
    Sh    : the inner `Wsh` / `Wpkh` / `Miniscript<Legacy>` translated
    Tr    : the leaves in order (`TapTree::translate_pk`), THEN the internal key, `Tr::new`
  with `Miniscript::translate_pk` = `translatePk` of Model/Translate.lean.  The top-level checks
  of `Bare::new` and the leaf validation of `Tr::new` depend only on typing and sizes, which
  the per-node `from_ast` check `chk ctx` already covers; what remains per wrapper is
  `Ctx::check_pk` on the directly held key (`keyOk`).
* `Descriptor::iter_pk` (src/descriptor/iter.rs): the `PkIter` state machine — single key
  first (the internal key of `tr`), then the miniscript key iterators of the tap leaves in order,
  then the bare / legacy / segwit miniscript iterator.
-/
import MsVerif.Model.Descriptor
import MsVerif.Model.Translate

namespace MsVerif.Desc
open MsVerif

section
variable {σ ε : Type}

/-- `Xxx::new(t.pk(&self.pk)?)` -/
def translateKey (t : Translator σ ε) (ok : Key → Bool) (k : Key) : TrM σ ε Key := do
  let k' ← t.pk k
  if ok k' then pure k' else throw .outerError

/-- `TapTree::translate_pk`: the leaves in order, depths kept -/
def translateLeaves (t : Translator σ ε) (chk : Ms → Bool) : List (Nat × Ms) → TrM σ ε (List (Nat × Ms))
  | [] => pure []
  | (d, m) :: ls => do
    let m' ← translatePk t chk m
    let ls' ← translateLeaves t chk ls
    pure ((d, m') :: ls')

/-- `Descriptor::translate_pk` -/
def descTranslate (t : Translator σ ε) (chk : Ctx → Ms → Bool) (keyOk : Ctx → Key → Bool) :
    Desc → TrM σ ε Desc
  | .bare ms => do let m ← translatePk t (chk .bare) ms; pure (.bare m)
  | .pkh k => do let k' ← translateKey t (keyOk .bare) k; pure (.pkh k')
  | .wpkh k => do let k' ← translateKey t (keyOk .segwitv0) k; pure (.wpkh k')
  | .wsh ms => do let m ← translatePk t (chk .segwitv0) ms; pure (.wsh m)
  | .sh (.wsh ms) => do let m ← translatePk t (chk .segwitv0) ms; pure (.sh (.wsh m))
  | .sh (.wpkh k) => do let k' ← translateKey t (keyOk .segwitv0) k; pure (.sh (.wpkh k'))
  | .sh (.ms ms) => do let m ← translatePk t (chk .legacy) ms; pure (.sh (.ms m))
  | .tr ik leaves => do
    let ls ← translateLeaves t (chk .tap) leaves
    let ik' ← translateKey t (keyOk .tap) ik
    pure (.tr ik' ls)

end

/-- the descriptor with every key / hash atom replaced by its image -/
def Desc.mapKeys (f : Key → Key) (g : HashKind → Nat → Nat) : Desc → Desc
  | .bare ms => .bare (ms.mapKeys f g)
  | .pkh k => .pkh (f k)
  | .wpkh k => .wpkh (f k)
  | .wsh ms => .wsh (ms.mapKeys f g)
  | .sh (.wsh ms) => .sh (.wsh (ms.mapKeys f g))
  | .sh (.wpkh k) => .sh (.wpkh (f k))
  | .sh (.ms ms) => .sh (.ms (ms.mapKeys f g))
  | .tr ik leaves => .tr (f ik) (leaves.map fun l => (l.1, l.2.mapKeys f g))

/-- every rebuilt node and every directly held key is accepted -/
def Desc.legal (chk : Ctx → Ms → Bool) (keyOk : Ctx → Key → Bool) : Desc → Bool
  | .bare ms => ms.pre.all (chk .bare)
  | .pkh k => keyOk .bare k
  | .wpkh k => keyOk .segwitv0 k
  | .wsh ms => ms.pre.all (chk .segwitv0)
  | .sh (.wsh ms) => ms.pre.all (chk .segwitv0)
  | .sh (.wpkh k) => keyOk .segwitv0 k
  | .sh (.ms ms) => ms.pre.all (chk .legacy)
  | .tr ik leaves => leaves.all (fun l => l.2.pre.all (chk .tap)) && keyOk .tap ik

/-- the keys in the order of the printed form (`tr`: internal key first, then the leaves) -/
def Desc.keysPrinted : Desc → List Key
  | .bare ms | .wsh ms | .sh (.ms ms) | .sh (.wsh ms) => ms.keys
  | .pkh pk | .wpkh pk | .sh (.wpkh pk) => [pk]
  | .tr ik leaves => ik :: leaves.flatMap (fun l => l.2.keys)

/-! ## `Descriptor::for_each_key` / `for_any_key` -/

/-- `self.leaves().all(|leaf| leaf.miniscript().for_each_key(&mut pred))`: (keys visited, result) -/
def trLeavesForEach (pred : Key → Bool) : List (Nat × Ms) → List Key × Bool
  | [] => ([], true)
  | (_, m) :: ls =>
    let (v, r) := forEachKey pred m
    if r then
      let (v', r') := trLeavesForEach pred ls
      (v ++ v', r')
    else (v, false)

/-- `ForEachKey for Descriptor`: the wrappers delegate to the miniscript / call `pred` on their
key; `Tr`: the leaves in order, then (only if none failed) the internal key -/
def descForEachKey (pred : Key → Bool) : Desc → List Key × Bool
  | .bare ms | .wsh ms | .sh (.wsh ms) | .sh (.ms ms) => forEachKey pred ms
  | .pkh k | .wpkh k | .sh (.wpkh k) => ([k], pred k)
  | .tr ik leaves =>
    let (v, r) := trLeavesForEach pred leaves
    if r then (v ++ [ik], pred ik) else (v, false)

/-- `for_any_key` = `!for_each_key(|k| !pred(k))` -/
def descForAnyKey (pred : Key → Bool) (d : Desc) : List Key × Bool :=
  let (v, r) := descForEachKey (fun k => !pred k) d
  (v, !r)

/-- the keys in `for_each_key` order (`tr`: leaves first, internal key last) -/
def Desc.keysForEach : Desc → List Key
  | .bare ms | .wsh ms | .sh (.ms ms) | .sh (.wsh ms) => ms.keys
  | .pkh pk | .wpkh pk | .sh (.wpkh pk) => [pk]
  | .tr ik leaves => leaves.flatMap (fun l => l.2.keys) ++ [ik]

/-! ## `Descriptor::iter_pk` -/

/-- `struct PkIter` (the four miniscript key iterators are what they still have to yield) -/
structure DPkIter where
  singleKey : Option Key
  taptreeIter : Option (List (Nat × Ms))
  msBare : Option (List Key)
  msLegacy : Option (List Key)
  msSegwit : Option (List Key)
  msTaproot : Option (List Key)

/-- `Descriptor::iter_pk` -/
def Desc.iterPkInit : Desc → DPkIter
  | .bare ms => ⟨none, none, some ms.iterPkLit, none, none, none⟩
  | .pkh k | .wpkh k | .sh (.wpkh k) => ⟨some k, none, none, none, none, none⟩
  | .sh (.wsh ms) | .wsh ms => ⟨none, none, none, none, some ms.iterPkLit, none⟩
  | .sh (.ms ms) => ⟨none, none, none, some ms.iterPkLit, none, none⟩
  | .tr ik leaves => ⟨some ik, some leaves, none, none, none, none⟩

/-- `opt_iter.as_mut().and_then(Iterator::next)` -/
def optNext : Option (List Key) → Option (Key × Option (List Key))
  | some (k :: ks) => some (k, some ks)
  | _ => none

/-- the `loop` of `PkIter::next` over the tap leaves: yield from the current leaf's iterator, else
move to the next leaf; result: the item with the new iterator and remaining leaves, or `none`
when the leaves are exhausted -/
def tapLoop : Option (List Key) → List (Nat × Ms) → Option (Key × Option (List Key) × List (Nat × Ms))
  | it, [] =>
    match optNext it with
    | some (k, it') => some (k, it', [])
    | none => none
  | it, (d, m) :: rest =>
    match optNext it with
    | some (k, it') => some (k, it', (d, m) :: rest)
    | none => tapLoop (some m.iterPkLit) rest

/-- `PkIter::next` -/
def DPkIter.next (s : DPkIter) : Option (Key × DPkIter) :=
  match s.singleKey with
  | some k => some (k, { s with singleKey := none })
  | none =>
    let tap : Option (Key × DPkIter) :=
      match s.taptreeIter with
      | some leaves =>
        match tapLoop s.msTaproot leaves with
        | some (k, it, rest) => some (k, { s with msTaproot := it, taptreeIter := some rest })
        | none => none
      | none =>
        match optNext s.msTaproot with
        | some (k, it) => some (k, { s with msTaproot := it })
        | none => none
    match tap with
    | some r => some r
    | none =>
      match optNext s.msBare with
      | some (k, it) => some (k, { s with msBare := it })
      | none =>
        match optNext s.msLegacy with
        | some (k, it) => some (k, { s with msLegacy := it })
        | none =>
          match optNext s.msSegwit with
          | some (k, it) => some (k, { s with msSegwit := it })
          | none => none

/-- number of keys the state can still yield (fuel for `collect`) -/
def DPkIter.bound (s : DPkIter) : Nat :=
  let l := fun (o : Option (List Key)) => (o.getD []).length
  (if s.singleKey.isSome then 1 else 0) + ((s.taptreeIter.getD []).map fun x => x.2.iterPkLit.length).sum
    + l s.msBare + l s.msLegacy + l s.msSegwit + l s.msTaproot

/-- `d.iter_pk().collect()` -/
def Desc.iterPk (d : Desc) : List Key := iterCollect DPkIter.next d.iterPkInit.bound d.iterPkInit

end MsVerif.Desc

/-
Model of `src/validation.rs` (`ValidationParams`, `MAX`/`SANE`/`CONSENSUS`, `eq`, `entails`,
`intersect`, `validate_pk`), of the per-context constants and `check_*`/`top_level_checks`
functions of `src/miniscript/context.rs`, of `Miniscript::{from_ast, validate,
validate_non_top_level}` (src/miniscript/mod.rs), of `src/miniscript/analyzable.rs`, of the
range checks in `src/primitives/{threshold,absolute_locktime,relative_locktime}.rs` and of the
descriptor wrapper constructors (`Wsh::new`, `Sh::new`, `Sh::new_wsh`, `Bare::new`, `Tr` leaves,
`*::new_sortedmulti`, the `FromTree`/`FromStr` impls of src/descriptor/*).

The model is the code that exists: same order of checks, same gates (`max_script_size <
usize::MAX`), same early `Ok` for unsatisfiable fragments, same exec-stack formula, and the
same deliberate exception (`Sh::new` validates with `Legacy::CONSENSUS` but leaves `d:`/`or_i`
allowed).  Fixes followed: 8a19a019 (base-type test in `top_level_type_check`), 4cd8ebfa (`pk_h`
keys checked), a3413640 (`new_sortedmulti` runs the checks), 2d0df974 (`Tr::new` validates
leaves), f6816493 (`Wsh::new`/`Sh::new` call `validate`).
No imports beyond the shared models: linked into the driver.
-/
import MsVerif.Model.Ast
import MsVerif.Model.Types
import MsVerif.Model.TypeCheck
import MsVerif.Model.Ext

namespace MsVerif

/-- `usize::MAX` on the 64-bit target the harness runs on -/
def USIZE_MAX : Nat := 18446744073709551615

/-! ## `ValidationParams` (fields in the order of src/validation.rs) -/

structure ValidationParams where
  allowCompressedKeys : Bool
  allowDuplicateKeys : Bool
  allowDupIf : Bool
  allowMalleability : Bool
  allowMulti : Bool
  allowMultiA : Bool
  allowMixedTimeLocks : Bool
  allowOrI : Bool
  allowRawPkh : Bool
  allowSiglessBranch : Bool
  allowNonB : Bool
  allowUncompressedKeys : Bool
  allowUnsatisfiable : Bool
  allowXOnlyKeys : Bool
  allowInconsistentMultipathKeys : Bool
  maxOpcodeCount : Nat
  maxScriptSize : Nat
  maxWitnessItems : Nat
  maxExecStackSize : Nat
  maxRecursiveDepth : Nat
  deriving DecidableEq, Repr, Inhabited

namespace ValidationParams

/-- `ValidationParams::MAX` -/
def MAX : ValidationParams :=
  { allowCompressedKeys := true, allowDuplicateKeys := true, allowDupIf := true,
    allowMalleability := true, allowMixedTimeLocks := true, allowMulti := true,
    allowMultiA := true, allowOrI := true, allowRawPkh := true, allowSiglessBranch := true,
    allowNonB := true, allowUncompressedKeys := true, allowUnsatisfiable := true,
    allowXOnlyKeys := true, allowInconsistentMultipathKeys := true,
    maxOpcodeCount := USIZE_MAX, maxScriptSize := USIZE_MAX, maxWitnessItems := USIZE_MAX,
    maxExecStackSize := USIZE_MAX, maxRecursiveDepth := 402 }

/-- `ValidationParams::SANE` -/
def SANE : ValidationParams :=
  { allowCompressedKeys := true, allowDuplicateKeys := false, allowDupIf := true,
    allowMalleability := false, allowMixedTimeLocks := false, allowMulti := true,
    allowMultiA := true, allowOrI := true, allowRawPkh := false, allowSiglessBranch := false,
    allowNonB := false, allowUncompressedKeys := true, allowUnsatisfiable := true,
    allowXOnlyKeys := true, allowInconsistentMultipathKeys := false,
    maxOpcodeCount := USIZE_MAX, maxScriptSize := USIZE_MAX, maxWitnessItems := USIZE_MAX,
    maxExecStackSize := USIZE_MAX, maxRecursiveDepth := MAX.maxRecursiveDepth }

/-- `ValidationParams::CONSENSUS` -/
def CONSENSUS : ValidationParams :=
  { allowCompressedKeys := true, allowDuplicateKeys := true, allowDupIf := true,
    allowMalleability := true, allowMixedTimeLocks := true, allowMulti := true,
    allowMultiA := true, allowOrI := true, allowRawPkh := true, allowSiglessBranch := true,
    allowNonB := false, allowUncompressedKeys := true, allowUnsatisfiable := true,
    allowXOnlyKeys := true, allowInconsistentMultipathKeys := true,
    maxOpcodeCount := USIZE_MAX, maxScriptSize := USIZE_MAX, maxWitnessItems := USIZE_MAX,
    maxExecStackSize := USIZE_MAX, maxRecursiveDepth := MAX.maxRecursiveDepth }

/-- `ValidationParams::eq` (the explicit `const fn`, field by field) -/
def eq (a b : ValidationParams) : Bool :=
  a.allowCompressedKeys == b.allowCompressedKeys
    && a.allowDuplicateKeys == b.allowDuplicateKeys
    && a.allowDupIf == b.allowDupIf
    && a.allowMalleability == b.allowMalleability
    && a.allowMixedTimeLocks == b.allowMixedTimeLocks
    && a.allowMulti == b.allowMulti
    && a.allowMultiA == b.allowMultiA
    && a.allowOrI == b.allowOrI
    && a.allowRawPkh == b.allowRawPkh
    && a.allowSiglessBranch == b.allowSiglessBranch
    && a.allowNonB == b.allowNonB
    && a.allowUncompressedKeys == b.allowUncompressedKeys
    && a.allowUnsatisfiable == b.allowUnsatisfiable
    && a.allowXOnlyKeys == b.allowXOnlyKeys
    && a.allowInconsistentMultipathKeys == b.allowInconsistentMultipathKeys
    && a.maxOpcodeCount == b.maxOpcodeCount
    && a.maxScriptSize == b.maxScriptSize
    && a.maxWitnessItems == b.maxWitnessItems
    && a.maxExecStackSize == b.maxExecStackSize
    && a.maxRecursiveDepth == b.maxRecursiveDepth

/-- `if a < b { a } else { b }` ("cannot use cmp::min in const ctx") -/
def minU (a b : Nat) : Nat := if a < b then a else b

/-- `ValidationParams::intersect` -/
def intersect (a b : ValidationParams) : ValidationParams :=
  { allowCompressedKeys := a.allowCompressedKeys && b.allowCompressedKeys
    allowDuplicateKeys := a.allowDuplicateKeys && b.allowDuplicateKeys
    allowDupIf := a.allowDupIf && b.allowDupIf
    allowMalleability := a.allowMalleability && b.allowMalleability
    allowMixedTimeLocks := a.allowMixedTimeLocks && b.allowMixedTimeLocks
    allowMulti := a.allowMulti && b.allowMulti
    allowMultiA := a.allowMultiA && b.allowMultiA
    allowOrI := a.allowOrI && b.allowOrI
    allowRawPkh := a.allowRawPkh && b.allowRawPkh
    allowSiglessBranch := a.allowSiglessBranch && b.allowSiglessBranch
    allowNonB := a.allowNonB && b.allowNonB
    allowUncompressedKeys := a.allowUncompressedKeys && b.allowUncompressedKeys
    allowUnsatisfiable := a.allowUnsatisfiable && b.allowUnsatisfiable
    allowXOnlyKeys := a.allowXOnlyKeys && b.allowXOnlyKeys
    allowInconsistentMultipathKeys :=
      a.allowInconsistentMultipathKeys && b.allowInconsistentMultipathKeys
    maxOpcodeCount := minU a.maxOpcodeCount b.maxOpcodeCount
    maxScriptSize := minU a.maxScriptSize b.maxScriptSize
    maxWitnessItems := minU a.maxWitnessItems b.maxWitnessItems
    maxExecStackSize := minU a.maxExecStackSize b.maxExecStackSize
    maxRecursiveDepth := minU a.maxRecursiveDepth b.maxRecursiveDepth }

/-- Boolean implication -/
def imp (x y : Bool) : Bool := !x || y

/-- the meaning of "`a` is a tightening of `b`" (what `entails` is documented to decide; proved
equal to it in C12.entails_iff_le): component-wise, every switch `a` allows `b` allows, every limit of `a` is at most
the limit of `b` -/
def le (a b : ValidationParams) : Bool :=
  imp a.allowCompressedKeys b.allowCompressedKeys
    && imp a.allowDuplicateKeys b.allowDuplicateKeys
    && imp a.allowDupIf b.allowDupIf
    && imp a.allowMalleability b.allowMalleability
    && imp a.allowMixedTimeLocks b.allowMixedTimeLocks
    && imp a.allowMulti b.allowMulti
    && imp a.allowMultiA b.allowMultiA
    && imp a.allowOrI b.allowOrI
    && imp a.allowRawPkh b.allowRawPkh
    && imp a.allowSiglessBranch b.allowSiglessBranch
    && imp a.allowNonB b.allowNonB
    && imp a.allowUncompressedKeys b.allowUncompressedKeys
    && imp a.allowUnsatisfiable b.allowUnsatisfiable
    && imp a.allowXOnlyKeys b.allowXOnlyKeys
    && imp a.allowInconsistentMultipathKeys b.allowInconsistentMultipathKeys
    && decide (a.maxOpcodeCount ≤ b.maxOpcodeCount)
    && decide (a.maxScriptSize ≤ b.maxScriptSize)
    && decide (a.maxWitnessItems ≤ b.maxWitnessItems)
    && decide (a.maxExecStackSize ≤ b.maxExecStackSize)
    && decide (a.maxRecursiveDepth ≤ b.maxRecursiveDepth)

/-- `ValidationParams::entails`: `self.intersect(other).eq(self)` -/
def entails (a b : ValidationParams) : Bool := (a.intersect b).eq a

end ValidationParams

/-! ## limits.rs -/
def MAX_OPS_PER_SCRIPT : Nat := 201
def MAX_STANDARD_P2WSH_STACK_ITEMS : Nat := 100
def MAX_SCRIPT_SIZE : Nat := 10000
def MAX_STANDARD_P2WSH_SCRIPT_SIZE : Nat := 3600
def MAX_SCRIPT_ELEMENT_SIZE : Nat := 520
def MAX_STACK_SIZE : Nat := 1000
/-- `Weight::MAX_BLOCK.to_wu()` -/
def MAX_BLOCK_WU : Nat := 4000000
def MAX_PUBKEYS_PER_MULTISIG : Nat := 20
def MAX_PUBKEYS_IN_CHECKSIGADD : Nat := 999
/-- `MAX_RECURSION_DEPTH` (src/lib.rs) -/
def MAX_RECURSION_DEPTH : Nat := 402

/-! ## per-context constants (`ScriptContext::CONSENSUS` / `SANE`), computed as in context.rs -/

def Ctx.CONSENSUS : Ctx → ValidationParams
  | .legacy =>
    { ValidationParams.CONSENSUS with
      allowCompressedKeys := true, allowDupIf := false, allowUncompressedKeys := true,
      allowMultiA := false, allowOrI := false, allowXOnlyKeys := false,
      maxOpcodeCount := MAX_OPS_PER_SCRIPT, maxScriptSize := MAX_SCRIPT_ELEMENT_SIZE }
  | .segwitv0 =>
    { ValidationParams.CONSENSUS with
      allowCompressedKeys := true, allowUncompressedKeys := false, allowMultiA := false,
      allowXOnlyKeys := false, maxOpcodeCount := MAX_OPS_PER_SCRIPT,
      maxExecStackSize := MAX_STACK_SIZE }
  | .tap =>
    { ValidationParams.CONSENSUS with
      allowCompressedKeys := false, allowUncompressedKeys := false, allowMulti := false,
      allowXOnlyKeys := true, maxExecStackSize := MAX_STACK_SIZE }
  | .bare =>
    { ValidationParams.CONSENSUS with
      allowCompressedKeys := true, allowDupIf := false, allowUncompressedKeys := true,
      allowMultiA := false, allowOrI := false, allowXOnlyKeys := false,
      maxOpcodeCount := MAX_OPS_PER_SCRIPT, maxScriptSize := MAX_SCRIPT_SIZE }

def Ctx.SANE : Ctx → ValidationParams
  | .legacy => (Ctx.CONSENSUS .legacy).intersect ValidationParams.SANE
  | .segwitv0 =>
    { (Ctx.CONSENSUS .segwitv0).intersect ValidationParams.SANE with
      maxScriptSize := MAX_STANDARD_P2WSH_SCRIPT_SIZE,
      maxWitnessItems := MAX_STANDARD_P2WSH_STACK_ITEMS }
  | .tap => (Ctx.CONSENSUS .tap).intersect ValidationParams.SANE
  | .bare => (Ctx.CONSENSUS .bare).intersect ValidationParams.SANE

/-! ## keys -/

inductive KeyKind | compressed | uncompressed | xonly
  deriving DecidableEq, Repr, Inhabited

/-- what the validator needs to know about key atoms: `is_uncompressed`, `is_x_only_key`
(as a kind) and `num_der_paths` -/
structure KeyInfo where
  kind : Key → KeyKind
  nPaths : Key → Nat

/-- kind of a key as given by the length of its serialisation in a `KeyEnv` -/
def keyKindOf (env : KeyEnv) (k : Key) : KeyKind :=
  if (env.ser k).length = 65 then .uncompressed
  else if (env.ser k).length = 32 then .xonly else .compressed

inductive VErr
  | duplicateKeys | illegalDupIf | illegalMulti | illegalMultiA | illegalOrI | illegalRawPkh
  | malleable | maxOpCount | maxScriptSize | maxWitnessItems | maxExecStack | maxRecursiveDepth
  | mixedTimeLocks | multipathKeyLenMismatch | nonBase | siglessBranch
  | keyCompressed | keyUncompressed | keyXOnly | unsatisfiable
  | notTyped   -- not a library error: the AST does not type-check, no `Miniscript` exists
  deriving DecidableEq, Repr, Inhabited

/-- `if bad { return Err(e) }; k` -/
def chk {α} (bad : Bool) (e : VErr) (k : Except VErr α) : Except VErr α :=
  if bad then .error e else k

/-- `ValidationParams::validate_pk` -/
def validatePk (p : ValidationParams) (kind : KeyKind) : Except VErr Unit :=
  chk (!p.allowCompressedKeys && !p.allowXOnlyKeys && kind != .uncompressed && kind != .xonly)
    .keyCompressed <|
  chk (!p.allowUncompressedKeys && kind == .uncompressed) .keyUncompressed <|
  chk (!p.allowXOnlyKeys && kind == .xonly) .keyXOnly <|
  .ok ()

/-! ## tree walks -/

mutual
/-- `Miniscript::iter()` / `pre_order_iter()`: the node itself, then the children left to right -/
def Ms.preorder : Ms → List Ms
  | .alt x => .alt x :: x.preorder
  | .swap x => .swap x :: x.preorder
  | .check x => .check x :: x.preorder
  | .dupIf x => .dupIf x :: x.preorder
  | .verify x => .verify x :: x.preorder
  | .nonZero x => .nonZero x :: x.preorder
  | .zeroNotEqual x => .zeroNotEqual x :: x.preorder
  | .andV l r => .andV l r :: (l.preorder ++ r.preorder)
  | .andB l r => .andB l r :: (l.preorder ++ r.preorder)
  | .orB l r => .orB l r :: (l.preorder ++ r.preorder)
  | .orD l r => .orD l r :: (l.preorder ++ r.preorder)
  | .orC l r => .orC l r :: (l.preorder ++ r.preorder)
  | .orI l r => .orI l r :: (l.preorder ++ r.preorder)
  | .andOr a b c => .andOr a b c :: (a.preorder ++ (b.preorder ++ c.preorder))
  | .thresh k xs => .thresh k xs :: xs.preorder
  | m => [m]
def MsList.preorder : MsList → List Ms
  | .nil => []
  | .cons x xs => x.preorder ++ xs.preorder
end

/-- keys of one node (`get_nth_pk`) -/
def Ms.nodeKeys : Ms → List Key
  | .pkK k | .pkH k => [k]
  | .multi _ ks | .sortedMulti _ ks | .multiA _ ks | .sortedMultiA _ ks => ks
  | _ => []

/-- `iter_pk()` (also the visiting order of `for_each_key`) -/
def Ms.iterPk (ms : Ms) : List Key := ms.preorder.flatMap Ms.nodeKeys

/-- number of distinct elements (`collect::<BTreeSet<_>>().len()`) -/
def distinctCount : List Key → Nat
  | [] => 0
  | k :: ks => (if ks.contains k then 0 else 1) + distinctCount ks

/-- `has_repeated_keys` -/
def hasRepeatedKeys (ms : Ms) : Bool := distinctCount ms.iterPk != ms.iterPk.length

/-- `has_mixed_timelocks` -/
def hasMixedTimelocks (e : ExtData) : Bool := e.timelockInfo.containsCombination

/-- `contains_raw_pkh` -/
def containsRawPkh (ms : Ms) : Bool := ms.preorder.any fun | .rawPkH _ => true | _ => false

/-! ## `validate_non_top_level` / `validate` -/

/-- the `multipath_check` closure; the state is `multipath_len` -/
def mpCheck (p : ValidationParams) (st : Option Nat) (n : Nat) : Except VErr (Option Nat) :=
  if p.allowInconsistentMultipathKeys then .ok st
  else if n = 0 ∨ n = 1 then .ok st
  else match st with
    | none => .ok (some n)
    | some x => if x = n then .ok st else .error .multipathKeyLenMismatch

/-- `for key in thresh.iter() { validate_pk(key)?; multipath_check(key)?; }` -/
def keysCheck (p : ValidationParams) (K : KeyInfo) :
    Option Nat → List Key → Except VErr (Option Nat)
  | st, [] => .ok st
  | st, k :: ks =>
    match validatePk p (K.kind k) with
    | .error e => .error e
    | .ok _ =>
      match mpCheck p st (K.nPaths k) with
      | .error e => .error e
      | .ok st' => keysCheck p K st' ks

/-- body of the `for ms in self.iter()` loop -/
def nodeCheck (p : ValidationParams) (K : KeyInfo) (st : Option Nat) :
    Ms → Except VErr (Option Nat)
  | .dupIf _ => chk (!p.allowDupIf) .illegalDupIf (.ok st)
  | .multi _ ks | .sortedMulti _ ks => chk (!p.allowMulti) .illegalMulti (keysCheck p K st ks)
  | .multiA _ ks | .sortedMultiA _ ks => chk (!p.allowMultiA) .illegalMultiA (keysCheck p K st ks)
  | .orI _ _ => chk (!p.allowOrI) .illegalOrI (.ok st)
  | .rawPkH _ => chk (!p.allowRawPkh) .illegalRawPkh (.ok st)
  | .pkK k | .pkH k => keysCheck p K st [k]
  | _ => .ok st

def nodesCheck (p : ValidationParams) (K : KeyInfo) :
    Option Nat → List Ms → Except VErr (Option Nat)
  | st, [] => .ok st
  | st, m :: ms =>
    match nodeCheck p K st m with
    | .error e => .error e
    | .ok st' => nodesCheck p K st' ms

/-- the resource part of `validate_non_top_level` (after the node loop) -/
def resourceCheck (p : ValidationParams) (size : Nat) (e : ExtData) : Except VErr Unit :=
  chk (decide (p.maxScriptSize < USIZE_MAX) && decide (size > p.maxScriptSize)) .maxScriptSize <|
  match e.satData with
  | none => .ok ()   -- `max_satisfaction_witness_elements()` is `Err`: `return Ok(())`
  | some d =>
    chk (decide (d.wCount + 1 > p.maxWitnessItems)) .maxWitnessItems <|
    chk (decide (e.staticOps + d.execOps > p.maxOpcodeCount)) .maxOpCount <|
    chk (decide (d.wCount + d.execStack > p.maxExecStackSize)) .maxExecStack <|
    .ok ()

/-- `Miniscript::validate_non_top_level` -/
def validateNonTopLevel (env : KeyEnv) (K : KeyInfo) (ctx : Ctx) (p : ValidationParams) (ms : Ms) :
    Except VErr Unit :=
  let e := extOf env ctx ms
  chk (decide (e.treeHeight > p.maxRecursiveDepth)) .maxRecursiveDepth <|
  chk (!p.allowDuplicateKeys && hasRepeatedKeys ms) .duplicateKeys <|
  chk (!p.allowMixedTimeLocks && hasMixedTimelocks e) .mixedTimeLocks <|
  match nodesCheck p K none ms.preorder with
  | .error err => .error err
  | .ok _ => resourceCheck p (scriptSize env ctx ms) e

/-- the top-level part of `Miniscript::validate` -/
def topLevelCheck (p : ValidationParams) (ty : Ty) (e : ExtData) : Except VErr Unit :=
  chk (!p.allowMalleability && !ty.mall.nonMall) .malleable <|
  chk (!p.allowNonB && ty.corr.base != .B) .nonBase <|
  chk (!p.allowSiglessBranch && !ty.mall.signed) .siglessBranch <|
  chk (!p.allowUnsatisfiable && e.satData.isNone) .unsatisfiable <|
  .ok ()

/-- `Miniscript::validate` on a constructed (hence typed) miniscript -/
def validate (env : KeyEnv) (K : KeyInfo) (ctx : Ctx) (p : ValidationParams) (ms : Ms) :
    Except VErr Unit :=
  match typeOf ms with
  | none => .error .notTyped
  | some ty =>
    match validateNonTopLevel env K ctx p ms with
    | .error e => .error e
    | .ok _ => topLevelCheck p ty (extOf env ctx ms)

/-! ## range checks made when the `Terminal` is built -/

/-- `validate_k_n::<MAX>` (`MAX = 0` means no cap) -/
def validateKN (max k n : Nat) : Bool := !(k == 0 || decide (k > n) || (decide (max > 0) && decide (n > max)))

/-- `AbsLockTime::from_consensus` -/
def absLockOk (n : Nat) : Bool := decide (n ≥ 1) && decide (n ≤ 0x7FFFFFFF)

/-- `RelLockTime::from_consensus` on a `u32`: bit 31 clear and non-zero -/
def relLockOk (n : Nat) : Bool := decide (n < 0x80000000) && n != 0

/-- the node's own `Threshold::new` / `*LockTime::from_consensus` succeeded -/
def termNodeOk : Ms → Bool
  | .after n => absLockOk n
  | .older n => relLockOk n
  | .thresh k xs => validateKN 0 k xs.length
  | .multi k ks | .sortedMulti k ks => validateKN MAX_PUBKEYS_PER_MULTISIG k ks.length
  | .multiA k ks | .sortedMultiA k ks => validateKN MAX_PUBKEYS_IN_CHECKSIGADD k ks.length
  | _ => true

/-! ## `check_global_validity` and `from_ast` -/

/-- `Ctx::check_pk` -/
def checkPk : Ctx → KeyKind → Bool
  | .legacy, k | .bare, k => k != .xonly
  | .segwitv0, k => k != .uncompressed && k != .xonly
  | .tap, k => k != .uncompressed

/-- step 1 of `check_global_consensus_validity`: "check the node first" (`pk_h` keys are
checked like `pk_k` keys since fix 4cd8ebfa) -/
def nodeChecked (ctx : Ctx) (K : KeyInfo) (node : Ms) : Bool :=
  match ctx with
  | .tap =>
    (match node with
     | .pkK k | .pkH k => checkPk .tap (K.kind k)
     | .multiA _ ks | .sortedMultiA _ ks => ks.all fun k => checkPk .tap (K.kind k)
     | .multi _ _ | .sortedMulti _ _ => false
     | _ => true)
  | _ =>
    (match node with
     | .pkK k | .pkH k => checkPk ctx (K.kind k)
     | .multi _ ks | .sortedMulti _ ks => ks.all fun k => checkPk ctx (K.kind k)
     | .multiA _ _ | .sortedMultiA _ _ => false
     | _ => true)

/-- step 2 of `check_global_consensus_validity` and `check_global_policy_validity`: sizes -/
def sizeChecked (ctx : Ctx) (pkCost : Nat) : Bool :=
  match ctx with
  | .legacy => decide (pkCost ≤ MAX_SCRIPT_ELEMENT_SIZE)
  | .segwitv0 => decide (pkCost ≤ MAX_SCRIPT_SIZE) && decide (pkCost ≤ MAX_STANDARD_P2WSH_SCRIPT_SIZE)
  | .tap => decide (pkCost ≤ MAX_BLOCK_WU)
  | .bare => decide (pkCost ≤ MAX_SCRIPT_SIZE)

/-- `check_global_validity` (one node) -/
def checkGlobalValidity (ctx : Ctx) (K : KeyInfo) (pkCost : Nat) (node : Ms) : Bool :=
  nodeChecked ctx K node && sizeChecked ctx pkCost

/-- the checks `Miniscript::from_ast` makes for ONE node whose children exist already
(plus the range checks needed to build the `Terminal` in the first place) -/
def fromAstNode (env : KeyEnv) (K : KeyInfo) (ctx : Ctx) (node : Ms) : Bool :=
  termNodeOk node && (typeOf node).isSome
    && decide ((extOf env ctx node).treeHeight ≤ MAX_RECURSION_DEPTH)
    && checkGlobalValidity ctx K (extOf env ctx node).pkCost node

/-- a `Miniscript<_, ctx>` value with this AST can be built bottom-up with `from_ast`
(equivalently: parsed by `FromTree`, which re-runs `check_global_validity` on every node) -/
def constructed (env : KeyEnv) (K : KeyInfo) (ctx : Ctx) (ms : Ms) : Bool :=
  ms.preorder.all (fromAstNode env K ctx)

/-! ## top-level checks of the descriptor wrappers -/

/-- the multipath scan of `top_level_type_check`; state: `none` = SinglePath,
`some (some n)` = MultipathLen n, `some none` = LenMismatch -/
def mpScan : Option (Option Nat) → List Nat → Option (Option Nat)
  | st, [] => st
  | st, n :: ns =>
    if n = 0 ∨ n = 1 then mpScan st ns
    else match st with
      | none => mpScan (some (some n)) ns
      | some (some len) => mpScan (if len ≠ n then some none else st) ns
      | some none => mpScan st ns

/-- `ScriptContext::top_level_type_check`: the base type must be `B` (restored by fix 8a19a019),
then the multipath-length scan -/
def topLevelTypeCheck (K : KeyInfo) (ms : Ms) : Bool :=
  (match typeOf ms with | some ty => ty.corr.base == .B | none => false)
    && mpScan none (ms.iterPk.map K.nPaths) != some none

/-- `BareCtx::other_top_level_checks` -/
def bareTemplate : Ms → Bool
  | .check (.rawPkH _) | .check (.pkK _) | .check (.pkH _) => true
  | .multi _ ks | .sortedMulti _ ks => decide (ks.length ≤ 3)
  | _ => false

/-- `Ctx::top_level_checks` -/
def topLevelChecks (K : KeyInfo) (ctx : Ctx) (ms : Ms) : Bool :=
  topLevelTypeCheck K ms && (match ctx with | .bare => bareTemplate ms | _ => true)

def isOk {ε α} : Except ε α → Bool | .ok _ => true | .error _ => false

/-- entry points.  Each takes the AST offered (an AST for which no `Terminal`/`Miniscript` can
be built is rejected by `constructed`). -/
inductive Entry
  | fromAst              -- `Miniscript::from_ast` on every node, bottom-up
  | msSane               -- `Miniscript::from_str`, `decode`
  | msConsensus          -- `from_str_with_validation_params(_, &Ctx::CONSENSUS)`, `decode_consensus`
  | msInsane             -- `from_str_insane`
  | wrapper              -- `Wsh::new` / `Sh::new` / `Bare::new` (by context), `Descriptor::new_*`, `*::new_sortedmulti`
  | descFromStr          -- `Descriptor::from_str` of `wsh(..)`, `sh(..)`, bare, `tr(K,leaf)`
  | trFromStr            -- `Tr::from_str` (leaf validated with `Tap::CONSENSUS` only)
  | trNew                -- `TapTree::leaf` + `Tr::new`: leaf validated with `Tap::CONSENSUS`
  deriving DecidableEq, Repr

/-- `from_str_insane`'s parameters -/
def Ctx.INSANE (ctx : Ctx) : ValidationParams := { ctx.CONSENSUS with allowRawPkh := false }

/-- the parameters `Sh::new` validates with: `Legacy::CONSENSUS` except that `d:` and `or_i`
stay allowed ("have always been accepted inside `sh()`") -/
def SH_PARAMS : ValidationParams :=
  { Ctx.CONSENSUS .legacy with allowDupIf := true, allowOrI := true }

/-- `Wsh::new` / `Sh::new` / `Bare::new` after `top_level_checks` (fixes f6816493, d43c12c1) -/
def wrapperValidate (env : KeyEnv) (K : KeyInfo) (ctx : Ctx) (ms : Ms) : Bool :=
  match ctx with
  | .segwitv0 => isOk (validate env K .segwitv0 (Ctx.CONSENSUS .segwitv0) ms)
  | .legacy => isOk (validate env K .legacy SH_PARAMS ms)
  | .tap => isOk (validate env K .tap (Ctx.CONSENSUS .tap) ms)   -- `Tr::new` on a one-leaf tree
  | .bare => isOk (validate env K .bare (Ctx.CONSENSUS .bare) ms)   -- fix d43c12c1

def accepts (env : KeyEnv) (K : KeyInfo) (ctx : Ctx) (e : Entry) (ms : Ms) : Bool :=
  constructed env K ctx ms &&
  match e with
  | .fromAst => true
  | .msSane => isOk (validate env K ctx ctx.SANE ms)
  | .msConsensus => isOk (validate env K ctx ctx.CONSENSUS ms)
  | .msInsane => isOk (validate env K ctx ctx.INSANE ms)
  | .wrapper => topLevelChecks K ctx ms && wrapperValidate env K ctx ms
  | .descFromStr =>
    match ctx with
    | .tap => isOk (validate env K ctx ctx.CONSENSUS ms) && isOk (validate env K ctx ctx.SANE ms)
    | _ => topLevelChecks K ctx ms && wrapperValidate env K ctx ms   -- `from_tree` = `Self::new`
  | .trFromStr => isOk (validate env K ctx ctx.CONSENSUS ms)
  | .trNew => isOk (validate env K ctx ctx.CONSENSUS ms)   -- fix 2d0df974 (ctx = tap)

/-! ## the API routes that bypass `from_consensus` / `from_ast`

* `RelLockTime::ZERO` (also `from_height_unchecked(0)`) is a public value with `n = 0`, so
  `Terminal::Older(0)` exists although `RelLockTime::from_consensus(0)` is refused; since fix
  abe9c44e `from_ast` refuses it, but `Miniscript::older(RelLockTime::ZERO)` still builds it;
* `Miniscript::{pk, pkh, pk_k, pk_h, expr_raw_pkh, after, older, sha256, …, multi, sortedmulti,
  multi_a, sortedmulti_a}` and `TRUE`/`FALSE` build a typed node WITHOUT `check_global_validity`.
-/

/-- the node's `Terminal` can be built through the public API (not only through
`*::from_consensus`): `older(0)` included -/
def termNodeOkApi : Ms → Bool
  | .older n => decide (n < 0x80000000)
  | m => termNodeOk m

/-- nodes for which a public constructor exists that skips `from_ast` -/
def isCtorNode : Ms → Bool
  | .tru | .fls | .pkK _ | .pkH _ | .rawPkH _ | .after _ | .older _ | .hash _ _
  | .multi _ _ | .sortedMulti _ _ | .multiA _ _ | .sortedMultiA _ _ => true
  | .check (.pkK _) | .check (.pkH _) => true      -- `Miniscript::pk`, `Miniscript::pkh`
  | _ => false

/-- a `Miniscript<_, ctx>` with this AST can be built through the public API; `ctor = true`:
every node that has an unchecked constructor is built with it, `false`: `from_ast` everywhere -/
def constructedApi (ctor : Bool) (env : KeyEnv) (K : KeyInfo) (ctx : Ctx) (ms : Ms) : Bool :=
  ms.preorder.all fun m =>
    -- a node built by an unchecked constructor only has to EXIST (`older(0)` does, as
    -- `Miniscript::older(RelLockTime::ZERO)`); a node built by `from_ast` is refused when it is
    -- `older(0)` (fix abe9c44e), otherwise checked as always
    if ctor && isCtorNode m then termNodeOkApi m
    else termNodeOk m && (typeOf m).isSome
      && decide ((extOf env ctx m).treeHeight ≤ MAX_RECURSION_DEPTH)
      && checkGlobalValidity ctx K (extOf env ctx m).pkCost m

/-- what an entry point does AFTER the miniscript exists (the second factor of `accepts`) -/
def acceptsTail (env : KeyEnv) (K : KeyInfo) (ctx : Ctx) (e : Entry) (ms : Ms) : Bool :=
  match e with
  | .fromAst => true
  | .msSane => isOk (validate env K ctx ctx.SANE ms)
  | .msConsensus => isOk (validate env K ctx ctx.CONSENSUS ms)
  | .msInsane => isOk (validate env K ctx ctx.INSANE ms)
  | .wrapper => topLevelChecks K ctx ms && wrapperValidate env K ctx ms
  | .descFromStr =>
    match ctx with
    | .tap => isOk (validate env K ctx ctx.CONSENSUS ms) && isOk (validate env K ctx ctx.SANE ms)
    | _ => topLevelChecks K ctx ms && wrapperValidate env K ctx ms
  | .trFromStr => isOk (validate env K ctx ctx.CONSENSUS ms)
  | .trNew => isOk (validate env K ctx ctx.CONSENSUS ms)

/-- an entry point fed with a miniscript built through the API routes above -/
def acceptsApi (ctor : Bool) (env : KeyEnv) (K : KeyInfo) (ctx : Ctx) (e : Entry) (ms : Ms) : Bool :=
  constructedApi ctor env K ctx ms && (typeOf ms).isSome && acceptsTail env K ctx e ms

/-- `Wsh::new_sortedmulti` / `Sh::new_sortedmulti` / `Sh::new_wsh_sortedmulti` (fix a3413640):
`Threshold<Pk, 20>` must exist, then `from_ast(Terminal::SortedMulti)` and `Self::new` -/
def acceptsSortedMulti (env : KeyEnv) (K : KeyInfo) (ctx : Ctx) (k : Nat) (ks : List Key) : Bool :=
  validateKN MAX_PUBKEYS_PER_MULTISIG k ks.length && accepts env K ctx .wrapper (.sortedMulti k ks)

/-! ## `decode_with_validation_params` -/

/-- fragments the script decoder pushes with the unchecked constructors (`Miniscript::pk_k`,
`::multi`, `::older`, …) instead of `from_ast` -/
def isDecodeLeaf : Ms → Bool
  | .tru | .fls | .pkK _ | .rawPkH _ | .after _ | .older _ | .hash _ _ | .multi _ _
  | .multiA _ _ => true
  | _ => false

/-- what `decode::decode` + `check_global_validity(top)` + `type_check(top)` establish: every
node built by `reduce*` went through `from_ast`; the leaves did not (their thresholds and
locks went through `Threshold::new` / `*LockTime::from_consensus`) -/
def decConstructed (env : KeyEnv) (K : KeyInfo) (ctx : Ctx) (ms : Ms) : Bool :=
  (ms.preorder.all fun m => termNodeOk m && (isDecodeLeaf m || fromAstNode env K ctx m))
    && checkGlobalValidity ctx K (extOf env ctx ms).pkCost ms && (typeOf ms).isSome

/-- `Miniscript::decode_with_validation_params(script, p)` where `script` decodes to `ms` -/
def decodeAccepts (env : KeyEnv) (K : KeyInfo) (ctx : Ctx) (p : ValidationParams) (ms : Ms) : Bool :=
  decConstructed env K ctx ms && isOk (validate env K ctx p ms)

/-! ## key-only descriptors -/

inductive KeyDesc | pk | pkh | wpkh | shWpkh | tr
  deriving DecidableEq, Repr

/-- the context whose `check_pk` the constructor calls (`Pkh::new`: `BareCtx`, `Wpkh::new`:
`Segwitv0`, `Tr::new`: `Tap`; `pk(K)` is the bare miniscript `c:pk_k(K)`) -/
def KeyDesc.ctx : KeyDesc → Ctx
  | .pk | .pkh => .bare
  | .wpkh | .shWpkh => .segwitv0
  | .tr => .tap

/-- `Pkh::new`, `Wpkh::new`, `Sh::new_wpkh`, `Tr::new(k, None)`, `Descriptor::new_{pkh,wpkh,
sh_wpkh,tr}` and the parsers of `pkh(K)`, `wpkh(K)`, `sh(wpkh(K))`, `pk(K)`, `tr(K)` -/
def keyOnlyAccepts (K : KeyInfo) (d : KeyDesc) (k : Key) : Bool := checkPk d.ctx (K.kind k)

/-- `Descriptor::new_pk` returns `Self`, not a `Result`: it builds `c:pk_k(K)` with `from_ast`
and `Bare::new` and `expect`s both ("Context checks cannot fail for p2pk") — it PANICS exactly
where the other constructors return an error -/
inductive Outcome | ok | err | panic
  deriving DecidableEq, Repr

def keyOnlyOutcome (K : KeyInfo) (d : KeyDesc) (viaNewPk : Bool) (k : Key) : Outcome :=
  if keyOnlyAccepts K d k then .ok else if viaNewPk then .panic else .err

/-- `decode_with_validation_params(script, MAX)` for the script a constructed miniscript `ms`
encodes to: the decoder cannot start on a `W` fragment (`a:`/`s:` at the top); `pk_h` comes back
as a raw hash and `sortedmulti` as `multi`, both pushed unchecked, so only the TOP node's keys
are looked at (by `check_global_validity(top)`) and every node's size by `from_ast` -/
def decodeMaxAccepts (env : KeyEnv) (K : KeyInfo) (ctx : Ctx) (ms : Ms) : Bool :=
  (match typeOf ms with | some ty => ty.corr.base != .W | none => false)
    && (ms.preorder.all fun m => sizeChecked ctx (extOf env ctx m).pkCost
          && decide ((extOf env ctx m).treeHeight ≤ MAX_RECURSION_DEPTH))
    && nodeChecked ctx K
        (match ms with
         | .pkH _ => .rawPkH 0
         | .sortedMulti k ks => .multi k ks
         | .sortedMultiA k ks => .multiA k ks
         | m => m)

/-! ## taproot trees -/

inductive TapT
  | leaf (ms : Ms)
  | node (l r : TapT)

def TapT.height : TapT → Nat
  | .leaf _ => 0
  | .node l r => 1 + max l.height r.height

def TapT.leaves : TapT → List Ms
  | .leaf m => [m]
  | .node l r => l.leaves ++ r.leaves

def TapT.depths : TapT → Nat → List Nat
  | .leaf _, d => [d]
  | .node l r, d => l.depths (d + 1) ++ r.depths (d + 1)

/-- `TapTree::combine` (bottom-up, error above depth 128) + `Tr::new`, `Tr::from_str`,
`Descriptor::from_str("tr(K,{..})")`: the tree fits and every leaf is accepted as a single
leaf would be through the same entry point -/
def trTreeAccepts (env : KeyEnv) (K : KeyInfo) (e : Entry) (t : TapT) : Bool :=
  decide (t.height ≤ 128) && t.leaves.all (accepts env K .tap e)

end MsVerif

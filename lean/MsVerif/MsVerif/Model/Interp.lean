/-
Model of the transaction interpreter's evaluation (`src/interpreter/mod.rs` `Iter::iter_next`,
`src/interpreter/stack.rs`): the `NodeEvaluationState` machine written as a big-step
structural recursion over the AST, on the abstract stack `Element = Satisfied | Dissatisfied |
Push bytes`.

Same case order, same accepted patterns (`Some(Element::Satisfied)` vs `Some(_)`), same error
split as the Rust code.  Constraints are returned in the order the iterator yields them; on an
error only the error is returned (the harness maps "some `Err` was yielded" to the error class).

Signature verification (`verify_sersig`: parse + the caller's `verify_sig` closure), key parsing
and hashes enter through `IEnv`.  Imports the AST only.
-/
import MsVerif.Model.Ast

namespace MsVerif.Interp
open MsVerif

/-- `stack::Element` -/
inductive Elem
  | sat
  | dissat
  | push (b : Bytes)
  deriving DecidableEq, Repr, Inhabited

/-- `impl From<&[u8]> for Element` -/
def Elem.ofBytes (b : Bytes) : Elem :=
  if b = [1] then .sat else if b = [] then .dissat else .push b

/-- head = top of the stack -/
abbrev AStack := List Elem

/-- `SatisfiedConstraint` -/
inductive Constraint
  | pk (pk sig : Bytes)
  | pkh (h pk sig : Bytes)
  | hashLock (kind : HashKind) (h pre : Bytes)
  | older (n : Nat)
  | after (n : Nat)
  deriving DecidableEq, Repr

/-- `interpreter::Error`, the variants the evaluation can produce (signature parse / verify
failures collapsed to `sigInvalid`) -/
inductive IErr
  | unexpectedStackEnd | unexpectedStackElementPush | unexpectedStackBoolean | verifyFailed
  | pkEvaluationError | sigInvalid | pkHashVerifyFail | pubkeyParseError
  | hashPreimageLengthMismatch | absoluteLockTimeComparisonInvalid | absoluteLockTimeNotMet
  | relativeLockTimeNotMet | relativeLockTimeDisabled | insufficientSignaturesMultiSig
  | missingExtraZeroMultiSig | multiSigEvaluationError | couldNotEvaluate | scriptSatisfactionError
  deriving DecidableEq, Repr

structure IEnv where
  /-- `verify_sersig(verify_sig, pk, sig).is_ok()`: the signature parses for the key type and the
  caller's verification closure accepts it -/
  verifySig : Bytes → Bytes → Bool
  /-- `bitcoin_key_from_slice(sl, sig_type).is_some()` -/
  keyParse : Bytes → Bool
  hash160 : Bytes → Bytes
  /-- the four hash functions of the hash fragments -/
  hash : HashKind → Bytes → Bytes
  lockTime : Nat
  sequence : Nat
  /-- version of the spending transaction.  NOT consulted by the interpreter (`from_txdata`
  never receives it): see `C13.interp_unsound_csv_tx_version_1` -/
  txVersion : Nat := 2

abbrev R := Except IErr (AStack × List Constraint)

def LOCKTIME_THRESHOLD : Nat := 500000000
def SEQ_DISABLE : Nat := 2147483648
def SEQ_TYPE : Nat := 4194304

/-- shared tail of `evaluate_pk` / `evaluate_pkh`: the popped element is the signature -/
def evalSig (e : IEnv) (pk : Bytes) (mk : Bytes → Constraint) : AStack → R
  | .dissat :: st => .ok (.dissat :: st, [])
  | .push sig :: st => if e.verifySig pk sig then .ok (.sat :: st, [mk sig]) else .error .sigInvalid
  | .sat :: _ => .error .pkEvaluationError
  | [] => .error .unexpectedStackEnd

/-- `Stack::evaluate_pk` -/
def evaluatePk (e : IEnv) (pk : Bytes) (st : AStack) : R := evalSig e pk (.pk pk) st

/-- `Stack::evaluate_pkh` -/
def evaluatePkh (e : IEnv) (h : Bytes) : AStack → R
  | .push pk :: st =>
    if e.hash160 pk != h then .error .pkHashVerifyFail
    else if !e.keyParse pk then .error .pubkeyParseError
    else evalSig e pk (.pkh h pk) st
  | _ => .error .unexpectedStackEnd

def SEQ_FINAL : Nat := 4294967295

/-- the `Terminal::After` arm of `iter_next` (BIP65 check on the input's nSequence) followed by
`Stack::evaluate_after` -/
def evaluateAfter (e : IEnv) (n : Nat) (st : AStack) : R :=
  if e.sequence == SEQ_FINAL then .error .absoluteLockTimeNotMet
  else if (n < LOCKTIME_THRESHOLD && e.lockTime < LOCKTIME_THRESHOLD)
      || (n ≥ LOCKTIME_THRESHOLD && e.lockTime ≥ LOCKTIME_THRESHOLD) then
    if n ≤ e.lockTime then .ok (.sat :: st, [.after n]) else .error .absoluteLockTimeNotMet
  else .error .absoluteLockTimeComparisonInvalid

/-- `Stack::evaluate_older`: `Sequence::to_relative_lock_time` + `is_implied_by` -/
def evaluateOlder (e : IEnv) (n : Nat) (st : AStack) : R :=
  if (e.sequence / SEQ_DISABLE) % 2 == 1 then .error .relativeLockTimeDisabled
  else
    let txTime := (e.sequence / SEQ_TYPE) % 2 == 1
    let nTime := (n / SEQ_TYPE) % 2 == 1
    if txTime == nTime && n % 65536 ≤ e.sequence % 65536 then .ok (.sat :: st, [.older n])
    else .error .relativeLockTimeNotMet

/-- `Stack::evaluate_sha256` and siblings -/
def evaluateHash (e : IEnv) (kind : HashKind) (h : Bytes) : AStack → R
  | .push pre :: st =>
    if pre.length != 32 then .error .hashPreimageLengthMismatch
    else if e.hash kind pre == h then .ok (.sat :: st, [.hashLock kind h pre])
    else .ok (.dissat :: st, [])
  | _ => .error .unexpectedStackEnd

/-- `Stack::evaluate_multi`: `some c` = the top signature matched this key and was consumed -/
def evaluateMulti (e : IEnv) (pk : Bytes) : AStack → Except IErr (AStack × Option Constraint)
  | .push sig :: st => if e.verifySig pk sig then .ok (st, some (.pk pk sig)) else .ok (.push sig :: st, none)
  | _ :: _ => .error .unexpectedStackBoolean
  | [] => .error .unexpectedStackEnd

/-- the `Multi` arms after the entry checks: keys are visited from the last to the first
(`keysRev`), `nSat` signatures matched so far -/
def multiLoop (e : IEnv) (k : Nat) : List Bytes → Nat → AStack → R
  | keysRev, nSat, st =>
    if nSat == k then
      match st with
      | .dissat :: st => .ok (.sat :: st, [])
      | _ => .error .missingExtraZeroMultiSig
    else
      match keysRev with
      | [] => .error .multiSigEvaluationError
      | pk :: rest =>
        match evaluateMulti e pk st with
        | .error er => .error er
        | .ok (st, some c) =>
          match multiLoop e k rest (nSat + 1) st with
          | .ok (st, cs) => .ok (st, c :: cs)
          | .error er => .error er
        | .ok (st, none) => multiLoop e k rest nSat st

/-- `Terminal::Multi` -/
def evalMulti (e : IEnv) (k : Nat) (keys : List Bytes) (st : AStack) : R :=
  if st.length < k + 1 then .error .insufficientSignaturesMultiSig
  else
    match st with
    | .dissat :: _ =>
      if (st.take (k + 1)).all (· == .dissat) then .ok (.dissat :: st.drop (k + 1), [])
      else .error .missingExtraZeroMultiSig
    | [] => .error .unexpectedStackEnd
    | _ => multiLoop e k keys.reverse 0 st

/-- `Terminal::MultiA`: keys in order, each with `evaluate_pk`, result popped -/
def multiALoop (e : IEnv) (k : Nat) : List Bytes → Nat → AStack → R
  | [], nSat, st => .ok ((if nSat == k then .sat else .dissat) :: st, [])
  | pk :: rest, nSat, st =>
    match evaluatePk e pk st with
    | .error er => .error er
    | .ok (st, c :: _) =>
      match st with
      | _ :: st =>
        match multiALoop e k rest (nSat + 1) st with
        | .ok (st, cs) => .ok (st, c :: cs)
        | .error er => .error er
      | [] => .error .unexpectedStackEnd
    | .ok (st, []) =>
      match st with
      | _ :: st => multiALoop e k rest nSat st
      | [] => .error .unexpectedStackEnd

mutual
/-- `Iter::iter_next` until the state stack is back to where it was: evaluation of one node -/
def interp (ke : KeyEnv) (e : IEnv) : Ms → AStack → R
  | .tru, st => .ok (.sat :: st, [])
  | .fls, st => .ok (.dissat :: st, [])
  | .pkK k, st => evaluatePk e (ke.ser k) st
  | .pkH k, st => evaluatePkh e (ke.pkh k) st
  | .rawPkH h, st => evaluatePkh e (ke.rawPkh h) st
  | .after n, st => evaluateAfter e n st
  | .older n, st => evaluateOlder e n st
  | .hash kind h, st => evaluateHash e kind (ke.hashVal kind h) st
  | .alt x, st | .swap x, st | .check x, st => interp ke e x st
  | .dupIf x, st =>
    match st with
    | .dissat :: st => .ok (.dissat :: st, [])
    | .sat :: st =>
      match interp ke e x st with
      | .ok (st, cs) => .ok (.sat :: st, cs)
      | .error er => .error er
    | .push _ :: _ => .error .unexpectedStackElementPush
    | [] => .error .unexpectedStackEnd
  | .verify x, st =>
    match interp ke e x st with
    | .ok (.sat :: st, cs) => .ok (st, cs)
    | .ok (_ :: _, _) => .error .verifyFailed
    | .ok ([], _) => .error .unexpectedStackEnd
    | .error er => .error er
  | .zeroNotEqual x, st =>
    match interp ke e x st with
    | .ok (.dissat :: st, cs) => .ok (.dissat :: st, cs)
    | .ok (_ :: st, cs) => .ok (.sat :: st, cs)
    | .ok ([], _) => .error .unexpectedStackEnd
    | .error er => .error er
  | .nonZero x, st =>
    match st with
    | .dissat :: _ => .ok (st, [])
    | _ :: _ => interp ke e x st
    | [] => .error .unexpectedStackEnd
  | .andV l r, st =>
    match interp ke e l st with
    | .ok (st, cs) =>
      match interp ke e r st with
      | .ok (st, cs') => .ok (st, cs ++ cs')
      | .error er => .error er
    | .error er => .error er
  | .andB l r, st =>
    match interp ke e l st with
    | .ok (.push _ :: _, _) => .error .unexpectedStackElementPush
    | .ok ([], _) => .error .unexpectedStackEnd
    | .ok (a :: st, cs) =>
      match interp ke e r st with
      | .ok (b :: st, cs') =>
        .ok ((if b == .sat && a == .sat then .sat else .dissat) :: st, cs ++ cs')
      | .ok ([], _) => .error .unexpectedStackEnd
      | .error er => .error er
    | .error er => .error er
  | .orB l r, st =>
    match interp ke e l st with
    | .ok (.push _ :: _, _) => .error .unexpectedStackElementPush
    | .ok ([], _) => .error .unexpectedStackEnd
    | .ok (a :: st, cs) =>
      match interp ke e r st with
      | .ok (b :: st, cs') =>
        .ok ((if b == .dissat && a == .dissat then .dissat else .sat) :: st, cs ++ cs')
      | .ok ([], _) => .error .unexpectedStackEnd
      | .error er => .error er
    | .error er => .error er
  | .andOr a b c, st =>
    match interp ke e a st with
    | .ok (.sat :: st, cs) =>
      match interp ke e b st with
      | .ok (st, cs') => .ok (st, cs ++ cs')
      | .error er => .error er
    | .ok (.dissat :: st, cs) =>
      match interp ke e c st with
      | .ok (st, cs') => .ok (st, cs ++ cs')
      | .error er => .error er
    | .ok (.push _ :: _, _) => .error .unexpectedStackElementPush
    | .ok ([], _) => .error .unexpectedStackEnd
    | .error er => .error er
  | .orC l r, st =>
    match interp ke e l st with
    | .ok (.sat :: st, cs) => .ok (st, cs)
    | .ok (.dissat :: st, cs) =>
      match interp ke e r st with
      | .ok (st, cs') => .ok (st, cs ++ cs')
      | .error er => .error er
    | .ok (.push _ :: _, _) => .error .unexpectedStackElementPush
    | .ok ([], _) => .error .unexpectedStackEnd
    | .error er => .error er
  | .orD l r, st =>
    match interp ke e l st with
    | .ok (.sat :: st, cs) => .ok (.sat :: st, cs)
    | .ok (.dissat :: st, cs) =>
      match interp ke e r st with
      | .ok (st, cs') => .ok (st, cs ++ cs')
      | .error er => .error er
    | .ok (.push _ :: _, _) => .error .unexpectedStackElementPush
    | .ok ([], _) => .error .unexpectedStackEnd
    | .error er => .error er
  | .orI l r, st =>
    match st with
    | .sat :: st => interp ke e l st
    | .dissat :: st => interp ke e r st
    | .push _ :: _ => .error .unexpectedStackElementPush
    | [] => .error .unexpectedStackEnd
  | .thresh k xs, st =>
    match xs with
    | .nil => .error .couldNotEvaluate
    | .cons x xs =>
      match interp ke e x st with
      | .error er => .error er
      | .ok (st, cs) =>
        match interpRest ke e xs 0 st with
        | .error er => .error er
        | .ok (st, nSat, cs') =>
          match st with
          | .dissat :: st => .ok ((if nSat == k then .sat else .dissat) :: st, cs ++ cs')
          | .sat :: st => .ok ((if nSat == k - 1 then .sat else .dissat) :: st, cs ++ cs')
          | .push _ :: _ => .error .unexpectedStackElementPush
          | [] => .error .unexpectedStackEnd
  | .multi k ks, st | .sortedMulti k ks, st => evalMulti e k (ks.map ke.ser) st
  | .multiA k ks, st | .sortedMultiA k ks, st => multiALoop e k (ks.map ke.ser) 0 st
/-- the `Thresh` arm for `0 < n_evaluated < n`: pop the previous child's result, count it,
evaluate the next child -/
def interpRest (ke : KeyEnv) (e : IEnv) : MsList → Nat → AStack → Except IErr (AStack × Nat × List Constraint)
  | .nil, nSat, st => .ok (st, nSat, [])
  | .cons x xs, nSat, st =>
    match st with
    | .push _ :: _ => .error .unexpectedStackElementPush
    | [] => .error .unexpectedStackEnd
    | r :: st =>
      match interp ke e x st with
      | .error er => .error er
      | .ok (st, cs) =>
        match interpRest ke e xs (if r == .sat then nSat + 1 else nSat) st with
        | .error er => .error er
        | .ok (st, n, cs') => .ok (st, n, cs ++ cs')
end

/-- the end of `iter_next` for a script: exactly one `Satisfied` element must remain -/
def interpTop (ke : KeyEnv) (e : IEnv) (ms : Ms) (st : AStack) : Except IErr (List Constraint) :=
  match interp ke e ms st with
  | .error er => .error er
  | .ok ([.sat], cs) => .ok cs
  | .ok _ => .error .scriptSatisfactionError

/-- `Inner::PublicKey` (p2pk, p2pkh, p2wpkh, sh-wpkh, taproot key path): the stack must be
exactly one signature for the key -/
def interpKey (e : IEnv) (pk : Bytes) : AStack → Except IErr (List Constraint)
  | [.push sig] => if e.verifySig pk sig then .ok [.pk pk sig] else .error .pkEvaluationError
  | .push sig :: _ => if e.verifySig pk sig then .error .scriptSatisfactionError else .error .pkEvaluationError
  | _ => .error .unexpectedStackEnd

/-! ### byte-level acceptance at the boundary (`verify_sersig`, `inner::script_from_stack_elem`) -/

/-- which byte strings `verify_sersig` lets through to Schnorr verification: its own BIP341 check
(no 65-byte signature with sighash byte 0x00) followed by `bitcoin::taproot::Signature::from_slice`
(64 bytes, or 65 bytes whose last byte is one of `TapSighashType::from_consensus_u8`'s values) -/
def schnorrSigParses (sig : Bytes) : Bool :=
  !(sig.length == 65 && sig.getLast? == some 0) &&
  (sig.length == 64 || (sig.length == 65 && [0x00, 0x01, 0x02, 0x03, 0x81, 0x82, 0x83].contains (sig.getLast?.getD 0)))

/-- BIP341: 64 bytes, or 65 bytes naming a hash type other than 0x00 -/
def bip341SigShape (sig : Bytes) : Bool :=
  sig.length == 64 || (sig.length == 65 && [0x01, 0x02, 0x03, 0x81, 0x82, 0x83].contains (sig.getLast?.getD 0))

/-- the bytes a stack element stands for (`Element::from` is injective on them) -/
def Elem.bytes : Elem → Bytes
  | .sat => [1]
  | .dissat => []
  | .push b => b

/-- `inner::script_from_stack_elem` followed by `encode()`: the script bytes whose hash
`from_txdata` compares with the scriptPubKey.  For `Push` this is decode-then-encode of the
bytes (identity on canonical scripts); `Satisfied` / `Dissatisfied` (`[01]`, `[]`) are refused -/
def committedScriptBytes : Elem → Option Bytes
  | .sat => none
  | .dissat => none
  | .push b => some b

/-! ### key admission at the boundary (`inner::pk_from_slice`, `script_from_stack_elem::<Segwitv0>`)

Segwit v0 spends with an UNCOMPRESSED key are refused before any evaluation: the witness-program
key of p2wpkh / sh-wpkh by `pk_from_slice(.., require_compressed = true)`, the keys inside a p2wsh /
sh-wsh witness script by parsing it in the `Segwitv0` context.  (Script execution itself accepts
such spends: BIP143's "only compressed keys" is Core's SCRIPT_VERIFY_WITNESS_PUBKEYTYPE, a relay
policy flag, not part of `Spec/Spend.verifySpend`; the refusal is the library's context rule.) -/

inductive KeyErr | pubkeyParse | uncompressed
  deriving DecidableEq, Repr

/-- `inner::pk_from_slice`; `keyParse` = `bitcoin::PublicKey::from_slice` succeeds -/
def pkFromSlice (keyParse : Bytes → Bool) (requireCompressed : Bool) (b : Bytes) : Except KeyErr Unit :=
  if !keyParse b then .error .pubkeyParse
  else if requireCompressed && b.length != 33 then .error .uncompressed
  else .ok ()

mutual
/-- the keys a script names (key pushes; a raw key hash names none) -/
def msKeys : Ms → List Key
  | .pkK k | .pkH k => [k]
  | .multi _ ks | .sortedMulti _ ks | .multiA _ ks | .sortedMultiA _ ks => ks
  | .alt x | .swap x | .check x | .dupIf x | .verify x | .nonZero x | .zeroNotEqual x => msKeys x
  | .andV x y | .andB x y | .orB x y | .orD x y | .orC x y | .orI x y => msKeys x ++ msKeys y
  | .andOr x y z => msKeys x ++ msKeys y ++ msKeys z
  | .thresh _ xs => msListKeys xs
  | _ => []
def msListKeys : MsList → List Key
  | .nil => []
  | .cons x xs => msKeys x ++ msListKeys xs
end

/-- the `Segwitv0` context's key rule (`Segwitv0::check_pk`: no uncompressed key) on a witness
script that is otherwise a valid miniscript -/
def segwitScriptAdmits (ke : KeyEnv) (ms : Ms) : Bool :=
  (msKeys ms).all fun k => (ke.ser k).length == 33

end MsVerif.Interp

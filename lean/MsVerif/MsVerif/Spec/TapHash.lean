/-
BIP340 / BIP341 tagged hashes with the real SHA-256 — TRUSTED SPEC (concrete counterpart of
the abstract `Spec/Merkle.lean`): leaf hash, branch hash, and the Merkle root a control block
commits a script to.  Only the elliptic-curve tweak of the internal key is left to the
harness-side oracle (rust-bitcoin `tap_tweak`).
-/
import MsVerif.Spec.Hash
import MsVerif.Spec.Script

namespace MsVerif.TapHash
open MsVerif.Script

/-- `SHA256(SHA256(tag) ‖ SHA256(tag) ‖ msg)` -/
def taggedHash (tag : String) (msg : Bytes) : Bytes :=
  let t := Hash.sha256 tag.toUTF8.toList
  Hash.sha256 (t ++ t ++ msg)

/-- Bitcoin compact-size encoding -/
def compactSize (n : Nat) : Bytes :=
  if n < 0xfd then [UInt8.ofNat n]
  else if n ≤ 0xffff then [0xfd, UInt8.ofNat (n % 256), UInt8.ofNat (n / 256)]
  else [0xfe, UInt8.ofNat (n % 256), UInt8.ofNat (n / 256 % 256), UInt8.ofNat (n / 65536 % 256),
        UInt8.ofNat (n / 16777216 % 256)]

/-- BIP341 `TapLeaf` hash of a script with leaf version `ver` -/
def tapLeafHash (ver : UInt8) (script : Bytes) : Bytes :=
  taggedHash "TapLeaf" (ver :: (compactSize script.length ++ script))

def bytesLt : Bytes → Bytes → Bool
  | [], [] => false
  | [], _ :: _ => true
  | _ :: _, [] => false
  | a :: as, b :: bs => a < b || (a == b && bytesLt as bs)

/-- BIP341 `TapBranch` hash: the two children in lexicographic order -/
def tapBranchHash (a b : Bytes) : Bytes :=
  if bytesLt b a then taggedHash "TapBranch" (b ++ a) else taggedHash "TapBranch" (a ++ b)

def chunks32 : Nat → Bytes → List Bytes
  | 0, _ => []
  | fuel + 1, bs => if bs.isEmpty then [] else bs.take 32 :: chunks32 fuel (bs.drop 32)

structure Control where
  leafVersion : UInt8
  internalKey : Bytes
  path : List Bytes

/-- parse a control block: `(version | parity) ‖ internal key (32) ‖ 32·m path bytes`, m ≤ 128 -/
def parseControl (cb : Bytes) : Option Control :=
  if cb.length < 33 || (cb.length - 33) % 32 != 0 || cb.length > 33 + 32 * 128 then none
  else match cb with
    | [] => none
    | b :: rest => some ⟨b &&& 0xfe, rest.take 32, chunks32 128 (rest.drop 32)⟩

/-- the Merkle root a control block commits `script` to (BIP341 script-path validation, up to
the tweak check) -/
def controlRoot (c : Control) (script : Bytes) : Bytes :=
  c.path.foldl tapBranchHash (tapLeafHash c.leafVersion script)

end MsVerif.TapHash

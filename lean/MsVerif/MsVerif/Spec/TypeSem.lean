/-
What the letters of a Miniscript type SAY about execution — TRUSTED SPEC for the C06 judge.

A fragment is observed through a finite set of runs (`Obs`): an input stack (top first) and the
resulting stack, or `none` when execution aborted.  Every function below decides one letter of
the type on such a set of observations; nothing here depends on the Rust code or on the typing
rules.  The judge (`Driver/OpsTypeExec.lean`) produces the observations with `Script.run` on
the encoded fragment and calls `checkAll` with the type the LIBRARY computed.

Reading of the letters (bitcoin.sipa.be/miniscript, "Correctness properties" /
"Malleability"):
* B  pushes exactly one element after popping some number of inputs;
  V  pushes nothing (so it can never "leave false": it continues or aborts);
  K  pushes exactly one element, a public key of the fragment;
  W  takes the element `x` on top, its inputs below it, and leaves `x` and one result
     (in either order) — what `BOOLAND`/`BOOLOR`/`ADD` of the parent consume;
* z  consumes nothing: the run on `stk` is the run on the empty stack with `stk` left below;
  o  consumes exactly the top element: the run on `x :: tl` is the run on `[x]` with `tl` below,
     and the fragment cannot complete on the empty stack;
  n  whenever the fragment is satisfied the top input element was not the empty vector (this is
     what `j:` relies on when it uses the empty vector to skip `X`);
* u  a true result is exactly `[1]`;
  d  there is an input without any valid signature on which the result is exactly `[]`;
* f  (`Dissat::None`) no input without a valid signature makes it complete with a false result;
  s  no input without a valid signature satisfies it.
For a K fragment the letters z/o/n/d/f/s speak about the fragment followed by `OP_CHECKSIG`
(that is how `c:` copies them); the judge passes those observations as `eff`.
-/
import MsVerif.Model.Types
import MsVerif.Spec.Script

namespace MsVerif.TypeSem
open MsVerif Script

/-- one observed run: input stack (top first, including whatever lies below the inputs) and the
final stack if execution completed (no error, conditionals balanced, alt stack restored) -/
structure Obs where
  input : List Bytes
  /-- the input contains no valid signature for a key of the fragment -/
  sigFree : Bool
  result : Option (List Bytes)

def isSuffix (s stk : List Bytes) : Bool :=
  decide (s.length ≤ stk.length) && stk.drop (stk.length - s.length) == s

/-- the shape the base type promises for one completed run; for `W` the first input element
is the `x` that was on top -/
def shapeOk (base : Base) (keys : List Bytes) (o : Obs) : Bool :=
  match o.result with
  | none => true
  | some s' =>
    match base with
    | .B => match s' with | _ :: r => isSuffix r o.input | [] => false
    | .V => isSuffix s' o.input
    | .K => match s' with | k :: r => keys.contains k && isSuffix r o.input | [] => false
    | .W =>
      match o.input, s' with
      | x :: tl, a :: b :: r => (a == x || b == x) && isSuffix r tl
      | _, _ => false

/-- the result VALUE of a completed run (`none`: aborted, or base V which has no value) -/
def value (base : Base) (o : Obs) : Option Bytes :=
  match o.result with
  | none => none
  | some s' =>
    match base with
    | .B | .K => s'.head?
    | .V => none
    | .W =>
      match o.input, s' with
      | x :: _, a :: b :: _ => if a == x then some b else some a
      | _, _ => none

/-- "the fragment was satisfied" on this run -/
def satisfied (base : Base) (o : Obs) : Bool :=
  match base with
  | .V => o.result.isSome
  | _ => match value base o with | some v => castToBool v | none => false

def appendBelow (r : Option (List Bytes)) (below : List Bytes) : Option (List Bytes) :=
  r.map (· ++ below)

/-- `z`: `onEmpty` = the run on the empty stack -/
def zeroOk (onEmpty : Option (List Bytes)) (o : Obs) : Bool :=
  o.result == appendBelow onEmpty o.input

/-- `o`: `onTop x` = the run on the one-element stack `[x]` -/
def oneOk (onTop : Bytes → Option (List Bytes)) (o : Obs) : Bool :=
  match o.input with
  | x :: tl => o.result == appendBelow (onTop x) tl
  | [] => o.result.isNone

def nonzeroOk (base : Base) (o : Obs) : Bool :=
  !satisfied base o || (match o.input with | x :: _ => x != [] | [] => false)

def unitOk (base : Base) (o : Obs) : Bool :=
  match value base o with
  | some v => !castToBool v || v == [1]
  | none => true

def isDissat (base : Base) (o : Obs) : Bool := o.sigFree && value base o == some []

def forcedOk (base : Base) (o : Obs) : Bool :=
  !o.sigFree || (match value base o with | some v => castToBool v | none => true)

def signedOk (base : Base) (o : Obs) : Bool := !o.sigFree || !satisfied base o

/-- everything the judge knows about one fragment under one transaction setting -/
structure Runs where
  /-- observations of the fragment itself -/
  raw : List Obs
  /-- observations of the fragment (K: followed by CHECKSIG); for W inputs start with `x` -/
  eff : List Obs
  /-- extra designated inputs (the specification's canonical dissatisfaction: a candidate for the
  existential `d`; its canonical satisfaction: one run on which the fragment SUCCEEDS, so that
  `u`, `n`, `s` and the success shape are tested on a satisfied run), observed on `eff` -/
  extra : List Obs
  /-- the same inputs observed on the fragment itself (for the shape test) -/
  extraRaw : List Obs
  effOnEmpty : Option (List Bytes)
  effOnTop : Bytes → Option (List Bytes)

def firstBad (os : List Obs) (p : Obs → Bool) : Option Obs := os.find? (fun o => !p o)

/-- Check every letter of `ty` against the runs; `none` = all claims hold on these runs,
`some (letter, input)` = the first refuted claim with the refuting input (`d`: no witness, the
input is empty). -/
def checkAll (ty : Ty) (keys : List Bytes) (r : Runs) : Option (String × List Bytes) :=
  let base := ty.corr.base
  -- labels are judged on `eff`, whose base is B for K fragments
  let eb : Base := if base == .K then .B else base
  let fail (l : String) (o : Option Obs) : Option (String × List Bytes) := o.map (fun o => (l, o.input))
  let c1 := fail (String.singleton ty.corr.base.toChar) (firstBad (r.raw ++ r.extraRaw) (shapeOk base keys))
  let c2 := match ty.corr.input with
    | .zero => fail "z" (firstBad r.eff (zeroOk r.effOnEmpty))
    | .one | .oneNonZero =>
      (fail "o" (firstBad r.eff (oneOk r.effOnTop))).orElse fun _ =>
        if r.effOnEmpty.isSome then some ("o", []) else none
    | _ => none
  let c3 := match ty.corr.input with
    | .oneNonZero | .anyNonZero =>
      (fail "n" (firstBad (r.eff ++ r.extra) (nonzeroOk eb))).orElse fun _ =>
        if satisfied eb ⟨[], true, r.effOnEmpty⟩ then some ("n", []) else none
    | _ => none
  let c4 := if ty.corr.unit then fail "u" (firstBad (r.eff ++ r.extra) (unitOk eb)) else none
  let c5 := if ty.corr.dissat then
      (if (r.eff ++ r.extra).any (isDissat eb) then none else some ("d", [])) else none
  let c6 := if ty.mall.dissat == .none && eb != .V then fail "f" (firstBad (r.eff ++ r.extra) (forcedOk eb)) else none
  let c7 := if ty.mall.signed then fail "s" (firstBad (r.eff ++ r.extra) (signedOk eb)) else none
  [c1, c2, c3, c4, c5, c6, c7].findSome? id

end MsVerif.TypeSem

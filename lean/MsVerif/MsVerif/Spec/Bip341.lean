/-
BIP341 at the byte level — TRUSTED SPEC (C15): tagged hashes, TapLeaf / TapBranch hashes over
real SHA-256 (`Spec/Hash.lean`), the control-block wire format and the script-path commitment
check, as an instance of the abstract `Spec/Merkle.lean`.

BIP340:  hash_tag(x) = SHA256(SHA256(tag) ‖ SHA256(tag) ‖ x)
BIP341:  leaf  k₀ = hash_TapLeaf(v ‖ compact_size(len(script)) ‖ script),  v = c[0] & 0xfe
         node  k_{j+1} = hash_TapBranch(k_j ‖ e_j) if k_j < e_j (lexicographically) else
                         hash_TapBranch(e_j ‖ k_j)
         control block c: 33 + 32m bytes, m ≤ 128; c[0] & 1 = parity of the output key's Y,
         c[1..33] = internal key p, then e_0 … e_{m-1}
         t = hash_TapTweak(p ‖ k_m);  output key Q = P + int(t)·G  (the elliptic-curve step is NOT
         modelled here: the harness obtains (Q, parity) from libsecp/rust-bitcoin's `tap_tweak`
         applied to the root that THIS file recomputes)
Imports only the abstract Merkle spec and the SHA-256 spec.
-/
import MsVerif.Spec.Merkle
import MsVerif.Spec.Hash

namespace MsVerif.Bip341
open MsVerif.Hash MsVerif.Spec

/-- SHA256(tag) ‖ SHA256(tag) -/
def tagPrefix (tag : String) : Bytes :=
  let h := sha256 tag.toUTF8.toList
  h ++ h

def leafPrefix : Bytes := tagPrefix "TapLeaf"
def branchPrefix : Bytes := tagPrefix "TapBranch"
def tweakPrefix : Bytes := tagPrefix "TapTweak"

/-- Bitcoin's CompactSize -/
def compactSize (n : Nat) : Bytes :=
  let le (k : Nat) : Bytes := (List.range k).map (fun i => UInt8.ofNat (n / 256 ^ i % 256))
  if n < 253 then [UInt8.ofNat n]
  else if n < 0x10000 then 0xfd :: le 2
  else if n < 0x100000000 then 0xfe :: le 4
  else 0xff :: le 8

/-- the leaf version of tapscript -/
def tapscriptVersion : UInt8 := 0xc0

def tapLeafHash (version : UInt8) (script : Bytes) : Bytes :=
  sha256 (leafPrefix ++ [version] ++ compactSize script.length ++ script)

/-- lexicographic `<` on byte strings -/
def bytesLt : Bytes → Bytes → Bool
  | [], [] => false
  | [], _ :: _ => true
  | _ :: _, [] => false
  | a :: as, b :: bs => if a < b then true else if b < a then false else bytesLt as bs

/-- TapBranch: the smaller child first -/
def tapBranchHash (a b : Bytes) : Bytes :=
  sha256 (branchPrefix ++ (if bytesLt b a then b ++ a else a ++ b))

/-- the tweak scalar's bytes `hash_TapTweak(p ‖ root)` (`root` absent for a key-only output) -/
def tapTweakHash (internalKey : Bytes) (root : Option Bytes) : Bytes :=
  sha256 (tweakPrefix ++ internalKey ++ root.getD [])

/-- BIP341 as a hash algebra over scripts (leaf version: tapscript) -/
def alg : HashAlg Bytes Bytes := ⟨tapLeafHash tapscriptVersion, tapBranchHash⟩

/-! ### control blocks -/

structure ControlBlock where
  leafVersion : UInt8
  outputKeyOdd : Bool
  internalKey : Bytes
  path : List Bytes
  deriving Repr, DecidableEq

/-- split into 32-byte pieces (`fuel` ≥ number of pieces) -/
def chunks32 : Nat → Bytes → List Bytes
  | 0, _ => []
  | fuel + 1, bs => if bs.isEmpty then [] else bs.take 32 :: chunks32 fuel (bs.drop 32)

/-- the wire format; `none` if the length is not 33 + 32m with m ≤ 128 -/
def parseControlBlock (bs : Bytes) : Option ControlBlock :=
  match bs with
  | [] => none
  | b0 :: rest =>
    if rest.length < 32 then none
    else if (rest.length - 32) % 32 != 0 then none
    else if (rest.length - 32) / 32 > maxDepth then none
    else some {
      leafVersion := b0 &&& 0xfe
      outputKeyOdd := (b0 &&& 1) == 1
      internalKey := rest.take 32
      path := chunks32 ((rest.length - 32) / 32) (rest.drop 32) }

/-- the Merkle root a script-path spend commits to (`k_m`) -/
def committedRoot (cb : ControlBlock) (script : Bytes) : Bytes :=
  verifyPath alg (tapLeafHash cb.leafVersion script) cb.path

end MsVerif.Bip341

/-! self-checks against published vectors (rust-miniscript's `spend_info_fixed_vectors`:
leaf hashes of the scripts `OP_0` and `OP_1`, and the root of `{0,1}`) -/
#guard MsVerif.Hash.toHex (MsVerif.Bip341.tapLeafHash 0xc0 [0x00]) ==
  "e7e4d593fcb72926eedbe0d1e311f41acd6f6ef161dcba081a75168ec4dcd379"
#guard MsVerif.Hash.toHex (MsVerif.Bip341.tapLeafHash 0xc0 [0x51]) ==
  "a85b2107f791b26a84e7586c28cec7cb61202ed3d01944d832500f363782d675"
#guard MsVerif.Hash.toHex (MsVerif.Spec.Tree.root MsVerif.Bip341.alg (.node (.leaf [0x00]) (.leaf [0x51]))) ==
  "15526cd6108b4765640abe555e75f4bd11d9b1453b9db4cd36cf4189577a6f63"

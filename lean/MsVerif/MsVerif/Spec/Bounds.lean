/-
What "size", "weight" and "within the limits" MEAN for a produced spend — TRUSTED SPEC for C09.

Plain definitions over byte strings, written from BIP141/BIP144 (witness serialisation, weight),
the Bitcoin wire format (CompactSize) and Bitcoin Core's policy constants; nothing here depends
on the Rust code.  The executed-opcode count and the peak stack depth come from
`Spec/Script.lean` (`Core.ops`, `runPeak`).  No imports beyond that.
-/
import MsVerif.Spec.Script

namespace MsVerif.Bounds
open MsVerif.Script

/-- length of a CompactSize ("varint") -/
def compactSizeLen (n : Nat) : Nat :=
  if n < 0xfd then 1 else if n ≤ 0xffff then 3 else if n ≤ 0xffffffff then 5 else 9

/-- serialized size of the witness ITEMS: each item is its CompactSize length + its bytes -/
def itemsSize (w : List Bytes) : Nat := (w.map fun e => compactSizeLen e.length + e.length).sum

/-- BIP144 serialisation of one input's witness: item count, then the items -/
def witnessSerSize (w : List Bytes) : Nat := compactSizeLen w.length + itemsSize w

/-- bytes needed to push `e` in a scriptSig obeying MINIMALDATA (`OP_0`, `OP_1..16`,
`OP_1NEGATE` where they exist, otherwise the shortest push opcode) -/
def minimalPushLen (e : Bytes) : Nat :=
  match e with
  | [] => 1
  | [b] => if (1 ≤ b.toNat && b.toNat ≤ 16) || b == 0x81 then 1 else 2
  | _ => (pushPrefix e.length).length + e.length

/-- size of a push-only scriptSig carrying the elements `w` -/
def scriptSigPushSize (w : List Bytes) : Nat := (w.map minimalPushLen).sum

/-- scriptSig as serialised in a transaction input: CompactSize length + bytes -/
def scriptSigSerSize (ss : Bytes) : Nat := compactSizeLen ss.length + ss.length

/-- weight a satisfaction adds to an input: `segwit_weight(satisfied) - segwit_weight(empty)`,
i.e. 4 x (growth of the scriptSig field, whose empty form is the single byte 00) + growth of
the witness field (whose empty form is the single byte 00) -/
def txinWeightDelta (ss : Bytes) (wit : List Bytes) : Nat :=
  4 * (scriptSigSerSize ss - 1) + (witnessSerSize wit - 1)

/-! ### limits (consensus / Bitcoin Core standardness) -/

def MAX_SCRIPT_ELEMENT_SIZE : Nat := 520      -- P2SH redeem script (consensus)
def MAX_SCRIPT_SIZE : Nat := 10000            -- consensus
def MAX_STANDARD_P2WSH_SCRIPT_SIZE : Nat := 3600
def MAX_STANDARD_P2WSH_STACK_ITEMS : Nat := 100
def MAX_STANDARD_SCRIPTSIG_SIZE : Nat := 1650

end MsVerif.Bounds

/-
Vocabulary of the C01 statement ("every satisfaction the library returns spends the output"):
how placeholders are realised as bytes, which facts about the real world (`Agrees`) and about
the script (`WF`) the theorem needs, and what "running the fragment on the witness" must leave
on the stack for each base type (`SatRuns` / `DisRuns`).  Definitions only — TRUSTED reading
material for Thm/C01.lean.  Import-free of Mathlib.
-/
import MsVerif.Model.Satisfy
import MsVerif.Model.TypeCheck
import MsVerif.Spec.Frag

namespace MsVerif.SatSpec
open MsVerif Script

/-- the hash opcode's function for a hash fragment kind -/
def hashOpOf : HashKind → HashOp
  | .sha256 => .sha256 | .hash256 => .hash256 | .ripemd160 => .ripemd160 | .hash160 => .hash160

/-- A witness template `w` (bottom element first, as in a transaction witness) realised by
`σ` and laid out as a Script stack (head = top). -/
def stk (σ : Ph → Bytes) (w : List Ph) : List Bytes := (w.map σ).reverse

/-- limits disabled (they are judged per run, DESIGN C01/T4), tapscript rules iff the context
is `Tap`; MINIMALIF, NULLFAIL, NULLDUMMY, MINIMALDATA arbitrary -/
structure EnvOk (env : Env) (ctx : Ctx) : Prop where
  opLimit : env.flags.opLimit = false
  stackLimits : env.flags.stackLimits = false
  tap : env.flags.tapscript = decide (ctx = .tap)

/-- The transaction meets the locks REPORTED with a (dis)satisfaction: `nLockTime`/`nSequence`
pass `CHECKLOCKTIMEVERIFY`/`CHECKSEQUENCEVERIFY` for the reported absolute/relative lock. -/
def LocksMet (env : Env) (s : Sat) : Prop :=
  (∀ n, s.abs = some n → checkLockTime env n = true) ∧
  (∀ n, s.rel = some n → checkSequence env n = true)

/-- What the theorem needs to know about the real world: `σ` is `Placeholder::satisfy_self`
for a satisfier holding `a`; signatures verify (`env.sigOk` = real signature check against the
real digest), preimages hash to the committed values, keys have the shape the context wants. -/
structure Agrees (env : Env) (ke : KeyEnv) (a : Assets) (σ : Ph → Bytes) : Prop where
  pushOne : σ .pushOne = [1]
  pushZero : σ .pushZero = []
  hashDissat : σ .hashDissat = List.replicate 32 0
  /-- every key atom denotes a key of the shape CHECKSIG accepts in this context -/
  keyShape : ∀ k, pubkeyOk env (ke.ser k) = true
  /-- `pk_h` commits to HASH160 of the key's serialisation -/
  pkh : ∀ k, env.hash .hash160 (ke.ser k) = ke.pkh k
  pubkey : ∀ k sz, σ (.pubkey k sz) = ke.ser k
  ecdsa : ∀ k, a.ecdsaSig k = true →
    σ (.ecdsaSig k) ≠ [] ∧ env.sigOk (ke.ser k) (σ (.ecdsaSig k)) = true
  schnorr : ∀ k sz, a.schnorrSig k = some sz →
    σ (.schnorrSig k sz) ≠ [] ∧ env.sigOk (ke.ser k) (σ (.schnorrSig k sz)) = true
  /-- raw `pk_h` atoms: whenever the satisfier knows a key (or a key + signature) for the hash,
  the key it reveals hashes to the committed value, has the right shape, and the signature
  verifies for that key -/
  rawPk : ∀ h sz, ((a.rawPkhPk h).isSome ∨ (a.rawPkhEcdsa h).isSome ∨ (a.rawPkhSchnorr h).isSome) →
    env.hash .hash160 (σ (.pubkeyHash h sz)) = ke.rawPkh h ∧ pubkeyOk env (σ (.pubkeyHash h sz)) = true
  rawEcdsa : ∀ h pk sz, a.rawPkhEcdsa h = some pk →
    σ (.ecdsaSigPkh h) ≠ [] ∧ env.sigOk (σ (.pubkeyHash h sz)) (σ (.ecdsaSigPkh h)) = true
  rawSchnorr : ∀ h pk sz sz', a.rawPkhSchnorr h = some (pk, sz) →
    σ (.schnorrSigPkh h sz) ≠ [] ∧ env.sigOk (σ (.pubkeyHash h sz')) (σ (.schnorrSigPkh h sz)) = true
  /-- held preimages are 32 bytes and hash to the committed value -/
  preimage : ∀ kind h, a.preimage kind h = true →
    (σ (.preimage kind h)).length = 32 ∧
    env.hash (hashOpOf kind) (σ (.preimage kind h)) = ke.hashVal kind h
  /-- the canonical hash dissatisfaction (32 zero bytes) is not a preimage of a committed value -/
  zeroNoPreimage : ∀ kind h, env.hash (hashOpOf kind) (List.replicate 32 0) ≠ ke.hashVal kind h
  /-- witness elements are shorter than 2^31 bytes (their `SIZE` is a 4-byte script number;
  consensus limits elements to 520 bytes) -/
  sizeOk : ∀ p, (σ p).length < 2147483648

/- Side conditions that `from_ast`/`Threshold::new`/`AbsLockTime::from_consensus`/
`RelLockTime::from_consensus` and the context rules guarantee but `typeOf` does not see. -/
mutual
def WF (ctx : Ctx) : Ms → Prop
  | .after n => 1 ≤ n ∧ n < 2147483648
  | .older n => 1 ≤ n ∧ n < 2147483648
  | .alt x | .swap x | .check x | .dupIf x | .verify x | .nonZero x | .zeroNotEqual x => WF ctx x
  | .andV l r | .andB l r | .orB l r | .orD l r | .orC l r | .orI l r => WF ctx l ∧ WF ctx r
  | .andOr a b c => WF ctx a ∧ WF ctx b ∧ WF ctx c
  | .thresh k xs => 1 ≤ k ∧ k ≤ xs.length ∧ xs.length < 2147483648 ∧ WFs ctx xs
  | .multi k ks | .sortedMulti k ks => ctx ≠ .tap ∧ 1 ≤ k ∧ k ≤ ks.length ∧ ks.length ≤ 20
  | .multiA k ks | .sortedMultiA k ks =>
    ctx = .tap ∧ 1 ≤ k ∧ k ≤ ks.length ∧ ks.length < 2147483648
  | _ => True
def WFs (ctx : Ctx) : MsList → Prop
  | .nil => True
  | .cons x xs => WF ctx x ∧ WFs ctx xs
end

/-- `f` turns main stack `s` into `s'`, restores the alt stack, for any opcode counter -/
def Runs (f : Core → Except Err Core) (s s' : List Bytes) : Prop :=
  ∀ alt ops, ∃ c', f ⟨s, alt, ops⟩ = .ok c' ∧ c'.stack = s' ∧ c'.alt = alt

/-- a "true" result: truthy, and a non-zero ≤ 4-byte number for BOOLAND/BOOLOR/0NOTEQUAL -/
def TrueVal (env : Env) (v : Bytes) : Prop :=
  castToBool v = true ∧ ∃ x, num4 env v = .ok x ∧ x ≠ 0

/-- what a satisfied fragment of correctness type `c` (base B, V or K) leaves in place of its
witness: B → one true value (exactly `[1]` if `u`); V → nothing; K → a key on top of a
signature that CHECKSIG accepts -/
def SatPost (env : Env) (c : Corr) (rest out : List Bytes) : Prop :=
  match c.base with
  | .B | .W => ∃ v, out = v :: rest ∧ TrueVal env v ∧ (c.unit = true → v = [1])
  | .V => out = rest
  | .K => ∃ pk sig, out = pk :: sig :: rest ∧ checkSig env sig pk = .ok true

/-- what a dissatisfied fragment leaves: B → exactly the empty vector; K → a well-formed key
on top of an empty signature; V → cannot be dissatisfied -/
def DisPost (env : Env) (c : Corr) (rest out : List Bytes) : Prop :=
  match c.base with
  | .B | .W => out = [] :: rest
  | .V => False
  | .K => ∃ pk, out = pk :: [] :: rest ∧ pubkeyOk env pk = true

/-- Running `ms` (of type `c`) on the realised witness `w` satisfies it.  B/V/K: the witness
is on top of an arbitrary `rest`.  W: the witness sits ONE BELOW an arbitrary top element `t`;
afterwards `t` and the result `v` are the two top elements (`a:X` leaves `t` above `v`,
`s:X` leaves `v` above `t`; the consumers BOOLAND/BOOLOR/ADD are symmetric). -/
def SatRuns (env : Env) (ke : KeyEnv) (ctx : Ctx) (σ : Ph → Bytes) (c : Corr) (ms : Ms)
    (w : List Ph) : Prop :=
  match c.base with
  | .W => ∀ t rest, ∃ v, TrueVal env v ∧ (c.unit = true → v = [1]) ∧
      (Runs (frag env ke ctx ms) (t :: (stk σ w ++ rest)) (t :: v :: rest) ∨
       Runs (frag env ke ctx ms) (t :: (stk σ w ++ rest)) (v :: t :: rest))
  | _ => ∀ rest, ∃ out, Runs (frag env ke ctx ms) (stk σ w ++ rest) out ∧ SatPost env c rest out

/-- Running `ms` on the realised dissatisfaction `w` leaves the empty vector (K: key over an
empty signature) in place of the witness. -/
def DisRuns (env : Env) (ke : KeyEnv) (ctx : Ctx) (σ : Ph → Bytes) (c : Corr) (ms : Ms)
    (w : List Ph) : Prop :=
  match c.base with
  | .W => ∀ t rest,
      (Runs (frag env ke ctx ms) (t :: (stk σ w ++ rest)) (t :: [] :: rest) ∨
       Runs (frag env ke ctx ms) (t :: (stk σ w ++ rest)) ([] :: t :: rest))
  | _ => ∀ rest, ∃ out, Runs (frag env ke ctx ms) (stk σ w ++ rest) out ∧ DisPost env c rest out

/-- shape of the witnesses by input type: `z` consumes nothing, `o` exactly one element,
`n` has a non-empty top element when satisfied -/
structure Shape (σ : Ph → Bytes) (c : Corr) (sd : SatDissat) : Prop where
  zero : c.input = .zero → ∀ w, (sd.sat.stack = .stack w ∨ sd.dissat.stack = .stack w) → w = []
  one : (c.input = .one ∨ c.input = .oneNonZero) →
    ∀ w, (sd.sat.stack = .stack w ∨ sd.dissat.stack = .stack w) → w.length = 1
  nonzero : (c.input = .oneNonZero ∨ c.input = .anyNonZero) →
    ∀ w, sd.sat.stack = .stack w → ∃ w' p, w = w' ++ [p] ∧ σ p ≠ []

end MsVerif.SatSpec

/-
ALL canonical (dis)satisfactions of the Miniscript specification's table — TRUSTED SPEC,
companion of `Spec/SatTable.lean`.

`SatTable.satWit` / `dsatWit` construct the FIRST canonical (dis)satisfaction in table order;
`allSat` / `allDsat` enumerate EVERY one a holder of `Avail` can assemble: both branches of every
`or`, every `k`-subset of a threshold's children, every `k`-subset of the available signatures
of a multisig.  Same rows, same item order (bottom of the witness first), no other rows
(non-canonical dissatisfactions such as `and_v`'s are not table rows).
Used by C03 to state uniqueness: "every table satisfaction a third party can assemble is the
one the satisfier returned".
-/
import MsVerif.Spec.SatTable

namespace MsVerif.SatAll
open MsVerif SatTable

/-- every concatenation `y ++ x` -/
def cat (ys xs : List (List Item)) : List (List Item) :=
  ys.flatMap fun y => xs.map fun x => y ++ x

/-- all ways to keep exactly `k` of the positions whose flag is set -/
def chooseK : Nat → List Bool → List (List Bool)
  | 0, l => [l.map fun _ => false]
  | _ + 1, [] => []
  | k + 1, true :: r => (chooseK k r).map (true :: ·) ++ (chooseK (k + 1) r).map (false :: ·)
  | k + 1, false :: r => (chooseK (k + 1) r).map (false :: ·)

/-- the signatures of the chosen keys, in key order -/
def pickSigs (ks : List Key) (fl : List Bool) : List Item :=
  (ks.zip fl).filterMap fun p => if p.2 then some (Item.sig p.1) else none

/-- one slot per key: signature if chosen, empty otherwise (`multi_a`) -/
def slotSigs (ks : List Key) (fl : List Bool) : List Item :=
  (ks.zip fl).map fun p => if p.2 then Item.sig p.1 else Item.empty

mutual
def allSat (a : Avail) (sortK : List Key → List Key) : Ms → List (List Item)
  | .fls => []
  | .tru => [[]]
  | .pkK k => if a.sig k then [[.sig k]] else []
  | .pkH k => if a.sig k then [[.sig k, .key k]] else []
  | .rawPkH h => if a.rawSig h then [[.rawSig h, .rawKey h]] else []
  | .after n => if a.after n then [[]] else []
  | .older n => if a.older n then [[]] else []
  | .hash kind h => if a.preimage kind h then [[.pre kind h]] else []
  | .alt x | .swap x | .check x | .zeroNotEqual x | .verify x | .nonZero x => allSat a sortK x
  | .dupIf x => cat (allSat a sortK x) [[.one]]
  | .andV x y | .andB x y => cat (allSat a sortK y) (allSat a sortK x)
  | .andOr x y z =>
    cat (allSat a sortK y) (allSat a sortK x) ++ cat (allSat a sortK z) (allDsat a sortK x)
  | .orB x z =>
    cat (allDsat a sortK z) (allSat a sortK x) ++ cat (allSat a sortK z) (allDsat a sortK x)
  | .orC x z | .orD x z => allSat a sortK x ++ cat (allSat a sortK z) (allDsat a sortK x)
  | .orI x z => cat (allSat a sortK x) [[.one]] ++ cat (allSat a sortK z) [[.empty]]
  | .thresh k xs => threshAll a sortK k xs
  | .multi k ks => (chooseK k (ks.map a.sig)).map fun fl => Item.empty :: pickSigs ks fl
  | .sortedMulti k ks =>
    (chooseK k ((sortK ks).map a.sig)).map fun fl => Item.empty :: pickSigs (sortK ks) fl
  | .multiA k ks => (chooseK k (ks.map a.sig)).map fun fl => (slotSigs ks fl).reverse
  | .sortedMultiA k ks =>
    (chooseK k ((sortK ks).map a.sig)).map fun fl => (slotSigs (sortK ks) fl).reverse
def allDsat (a : Avail) (sortK : List Key → List Key) : Ms → List (List Item)
  | .fls => [[]]
  | .tru => []
  | .pkK _ => [[.empty]]
  | .pkH k => [[.empty, .key k]]
  | .rawPkH h => if a.rawKey h then [[.empty, .rawKey h]] else []
  | .after _ | .older _ => []
  | .hash _ _ => [[.zero32]]
  | .alt x | .swap x | .check x | .zeroNotEqual x => allDsat a sortK x
  | .dupIf _ | .nonZero _ => [[.empty]]
  | .verify _ => []
  | .andV _ _ => []
  | .andB x y => cat (allDsat a sortK y) (allDsat a sortK x)
  | .andOr x _ z => cat (allDsat a sortK z) (allDsat a sortK x)
  | .orB x z | .orD x z => cat (allDsat a sortK z) (allDsat a sortK x)
  | .orC _ _ => []
  | .orI x z => cat (allDsat a sortK x) [[.one]] ++ cat (allDsat a sortK z) [[.empty]]
  | .thresh _ xs => threshAll a sortK 0 xs
  | .multi k _ | .sortedMulti k _ => [List.replicate (k + 1) .empty]
  | .multiA _ ks | .sortedMultiA _ ks => [List.replicate ks.length .empty]
/-- exactly `need` of the children satisfied, all others dissatisfied; the LAST child's witness
is at the bottom (`need = 0`: the dissatisfaction of the threshold) -/
def threshAll (a : Avail) (sortK : List Key → List Key) : Nat → MsList → List (List Item)
  | need, .nil => if need = 0 then [[]] else []
  | need, .cons x xs =>
    (match need with
     | 0 => []
     | n + 1 => cat (threshAll a sortK n xs) (allSat a sortK x))
    ++ cat (threshAll a sortK need xs) (allDsat a sortK x)
end

theorem mem_cat {ys xs : List (List Item)} {t : List Item} :
    t ∈ cat ys xs ↔ ∃ y ∈ ys, ∃ x ∈ xs, t = y ++ x := by
  simp only [cat, List.mem_flatMap, List.mem_map]
  constructor
  · rintro ⟨y, hy, x, hx, rfl⟩; exact ⟨y, hy, x, hx, rfl⟩
  · rintro ⟨y, hy, x, hx, rfl⟩; exact ⟨y, hy, x, hx, rfl⟩

theorem cat_nil_left (xs : List (List Item)) : cat [] xs = [] := rfl
theorem cat_nil_right (ys : List (List Item)) : cat ys [] = [] := by
  simp [cat]

end MsVerif.SatAll

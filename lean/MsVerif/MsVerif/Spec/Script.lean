/-
Bitcoin Script semantics for exactly the opcode subset Miniscript emits — TRUSTED SPEC.

Written to read like Bitcoin Core's `EvalScript`: a flat opcode list, a condition stack
(`vfExec`), a main and an alt stack, an executed-opcode counter.  Consensus and standardness
rules are explicit flags of `Flags`.  Cryptography enters through `Env` only
(`sigOk`, `hash`); nothing here depends on the Rust code.  No imports.
-/
namespace MsVerif.Script

abbrev Bytes := List UInt8

/-! ### opcodes -/

inductive Opc
  | dup | ifdup | swap | size | toalt | fromalt | drop
  | if_ | notif | else_ | endif | verify
  | equal | equalverify | numequal | numequalverify
  | add | booland | boolor | zeronotequal
  | sha256 | hash256 | ripemd160 | hash160
  | checksig | checksigverify | checksigadd | checkmultisig | checkmultisigverify
  | cltv | csv
  deriving DecidableEq, Repr, Inhabited

/-- A script element.  `small n` is `OP_0` (n = 0) / `OP_1`…`OP_16`; `push bs` is a direct
data push of `bs` with the shortest push opcode for its length (no conversion to `OP_n`);
`bad b` is any byte outside the subset (execution fails when reached). -/
inductive Op
  | small (n : Nat)
  | push (bs : Bytes)
  | code (o : Opc)
  | bad (b : UInt8)
  deriving DecidableEq, Repr, Inhabited

def Opc.byte : Opc → UInt8
  | .dup => 0x76 | .ifdup => 0x73 | .swap => 0x7c | .size => 0x82 | .toalt => 0x6b
  | .fromalt => 0x6c | .drop => 0x75
  | .if_ => 0x63 | .notif => 0x64 | .else_ => 0x67 | .endif => 0x68 | .verify => 0x69
  | .equal => 0x87 | .equalverify => 0x88 | .numequal => 0x9c | .numequalverify => 0x9d
  | .add => 0x93 | .booland => 0x9a | .boolor => 0x9b | .zeronotequal => 0x92
  | .sha256 => 0xa8 | .hash256 => 0xaa | .ripemd160 => 0xa6 | .hash160 => 0xa9
  | .checksig => 0xac | .checksigverify => 0xad | .checksigadd => 0xba
  | .checkmultisig => 0xae | .checkmultisigverify => 0xaf
  | .cltv => 0xb1 | .csv => 0xb2

def Opc.all : List Opc :=
  [.dup, .ifdup, .swap, .size, .toalt, .fromalt, .drop, .if_, .notif, .else_, .endif, .verify,
   .equal, .equalverify, .numequal, .numequalverify, .add, .booland, .boolor, .zeronotequal,
   .sha256, .hash256, .ripemd160, .hash160, .checksig, .checksigverify, .checksigadd,
   .checkmultisig, .checkmultisigverify, .cltv, .csv]

def Opc.ofByte? (b : UInt8) : Option Opc := Opc.all.find? (fun o => o.byte == b)

/-! ### script numbers (CScriptNum) -/

/-- little-endian magnitude bytes of `n` -/
def leBytes : Nat → Nat → Bytes
  | 0, _ => []
  | fuel + 1, n => if n = 0 then [] else (UInt8.ofNat (n % 256)) :: leBytes fuel (n / 256)

/-- minimal script-number encoding of an integer -/
def numEncode (v : Int) : Bytes :=
  if v = 0 then [] else
  let neg := v < 0
  let mag := leBytes 9 v.natAbs
  match mag.getLast? with
  | none => []
  | some last =>
    if last.toNat ≥ 0x80 then mag ++ [if neg then 0x80 else 0x00]
    else if neg then mag.dropLast ++ [last ||| 0x80] else mag

def leValue : Bytes → Nat
  | [] => 0
  | b :: bs => b.toNat + 256 * leValue bs

/-- decode without any minimality / size check -/
def numDecodeRaw (bs : Bytes) : Int :=
  match bs.getLast? with
  | none => 0
  | some last =>
    if last.toNat ≥ 0x80 then
      - Int.ofNat (leValue (bs.dropLast ++ [last &&& 0x7f]))
    else Int.ofNat (leValue bs)

/-- minimally-encoded check of Core's `CScriptNum` constructor -/
def numMinimal (bs : Bytes) : Bool :=
  match bs.getLast? with
  | none => true
  | some last =>
    if (last &&& 0x7f) == 0 then
      match bs.dropLast.getLast? with
      | none => false
      | some prev => prev.toNat ≥ 0x80
    else true

/-- `CScriptNum(vch, fRequireMinimal, nMaxNumSize)` -/
def numDecode (requireMinimal : Bool) (maxSize : Nat) (bs : Bytes) : Option Int :=
  if bs.length > maxSize then none
  else if requireMinimal && !numMinimal bs then none
  else some (numDecodeRaw bs)

/-- `CastToBool` -/
def castToBool : Bytes → Bool
  | [] => false
  | [b] => b != 0 && b != 0x80
  | b :: bs => b != 0 || castToBool bs

def boolBytes (b : Bool) : Bytes := if b then [1] else []

/-! ### serialisation -/

def pushPrefix (len : Nat) : Bytes :=
  if len < 0x4c then [UInt8.ofNat len]
  else if len ≤ 0xff then [0x4c, UInt8.ofNat len]
  else if len ≤ 0xffff then [0x4d, UInt8.ofNat (len % 256), UInt8.ofNat (len / 256)]
  else [0x4e, UInt8.ofNat (len % 256), UInt8.ofNat (len / 256 % 256),
        UInt8.ofNat (len / 65536 % 256), UInt8.ofNat (len / 16777216)]

def Op.bytes : Op → Bytes
  | .small 0 => [0x00]
  | .small n => [UInt8.ofNat (0x50 + n)]
  | .push bs => pushPrefix bs.length ++ bs
  | .code o => [o.byte]
  | .bad b => [b]

def serialize (s : List Op) : Bytes := s.flatMap Op.bytes

/-- Parse a byte string into elements.  Pushes are accepted with any push opcode (minimality
is a *rule*, checked by `pushMinimal`, not a parse error).  Returns `none` on a truncated
push.  `fuel` = number of bytes. -/
def parseAux : Nat → Bytes → Option (List (Op × Bool))
  | _, [] => some []
  | 0, _ :: _ => none
  | fuel + 1, b :: rest =>
    let n := b.toNat
    if n = 0 then (parseAux fuel rest).map (fun t => (Op.small 0, true) :: t)
    else if n < 0x4c then
      if rest.length < n then none
      else (parseAux fuel (rest.drop n)).map (fun t => (Op.push (rest.take n), true) :: t)
    else if n = 0x4c then
      match rest with
      | l :: rest' =>
        if rest'.length < l.toNat then none
        else (parseAux fuel (rest'.drop l.toNat)).map
          (fun t => (Op.push (rest'.take l.toNat), decide (l.toNat ≥ 0x4c)) :: t)
      | _ => none
    else if n = 0x4d then
      match rest with
      | l0 :: l1 :: rest' =>
        let len := l0.toNat + 256 * l1.toNat
        if rest'.length < len then none
        else (parseAux fuel (rest'.drop len)).map
          (fun t => (Op.push (rest'.take len), decide (len > 0xff)) :: t)
      | _ => none
    else if n = 0x4e then none   -- PUSHDATA4 never needed below 520-byte elements: reject
    else if 0x51 ≤ n ∧ n ≤ 0x60 then
      (parseAux fuel rest).map (fun t => (Op.small (n - 0x50), true) :: t)
    else
      match Opc.ofByte? b with
      | some o => (parseAux fuel rest).map (fun t => (Op.code o, true) :: t)
      | none => (parseAux fuel rest).map (fun t => (Op.bad b, true) :: t)

/-- elements with a flag "this push used the shortest push opcode" -/
def parseFlagged (bs : Bytes) : Option (List (Op × Bool)) := parseAux bs.length bs
def parse (bs : Bytes) : Option (List Op) := (parseFlagged bs).map (·.map (·.1))

/-- MINIMALDATA for a data push: shortest push opcode, and values that have a dedicated
opcode (`[]`, `[1]`…`[16]`, `[0x81]`) must use it -/
def pushMinimal (bs : Bytes) (shortestOpcode : Bool) : Bool :=
  shortestOpcode &&
  match bs with
  | [] => false
  | [b] => !((1 ≤ b.toNat && b.toNat ≤ 16) || b == 0x81)
  | _ => true

/-! ### execution -/

inductive HashOp | sha256 | hash256 | ripemd160 | hash160
  deriving DecidableEq, Repr

structure Flags where
  /-- BIP342 rules: no op-count limit, CHECKSIGADD, MINIMALIF by consensus, CHECKMULTISIG disabled -/
  tapscript : Bool
  /-- IF/NOTIF argument must be `[]` or `[1]` (policy for P2WSH, consensus for tapscript) -/
  minimalIf : Bool
  /-- a failed signature check requires the signature to be empty -/
  nullFail : Bool
  /-- CHECKMULTISIG dummy must be empty -/
  nullDummy : Bool
  /-- script numbers must be minimally encoded -/
  minimalNum : Bool
  /-- enforce 201 executed non-push opcodes (+ keys of CHECKMULTISIG) -/
  opLimit : Bool
  /-- enforce stack + altstack ≤ 1000 and element size ≤ 520 -/
  stackLimits : Bool
  deriving Repr

structure Env where
  flags : Flags
  /-- `sigOk pk sig`: the signature verifies for this public key against the digest of the
  transaction being judged (digest, sighash type and script code are fixed by the caller) -/
  sigOk : Bytes → Bytes → Bool
  hash : HashOp → Bytes → Bytes
  nLockTime : Nat
  nSequence : Nat
  txVersion : Nat

inductive Err
  | stackUnderflow | verifyFailed | badOpcode (b : UInt8) | unbalancedConditional | minimalIf
  | scriptNum | nullFail | nullDummy | pubkeyType | sigCount | pubkeyCount | opCount
  | stackSize | pushSize | negativeLocktime | unsatisfiedLocktime | disabledOpcode
  | altStackUnderflow
  deriving DecidableEq, Repr

/-- the part of the machine state that opcodes other than IF/NOTIF/ELSE/ENDIF act on -/
structure Core where
  stack : List Bytes       -- head = top
  alt : List Bytes
  ops : Nat                -- executed non-push opcodes (Core's nOpCount)
  deriving Repr, DecidableEq

structure State where
  core : Core
  conds : List Bool        -- head = innermost; `true` = executing
  deriving Repr, DecidableEq

def State.init (stack : List Bytes) : State := ⟨⟨stack, [], 0⟩, []⟩

def State.executing (s : State) : Bool := s.conds.all id

def LOCKTIME_THRESHOLD : Nat := 500000000
def SEQ_DISABLE : Nat := 2147483648      -- 1 << 31
def SEQ_TYPE : Nat := 4194304            -- 1 << 22
def SEQ_MASK : Nat := 65535
def SEQ_FINAL : Nat := 4294967295

def checkLockTime (env : Env) (n : Nat) : Bool :=
  ((env.nLockTime < LOCKTIME_THRESHOLD && n < LOCKTIME_THRESHOLD)
    || (env.nLockTime ≥ LOCKTIME_THRESHOLD && n ≥ LOCKTIME_THRESHOLD))
  && n ≤ env.nLockTime
  && env.nSequence != SEQ_FINAL

/-- bit 22 (type flag) and the low 16 bits of a sequence number -/
def seqMasked (x : Nat) : Nat := (x / SEQ_TYPE) % 2 * SEQ_TYPE + x % (SEQ_MASK + 1)

def checkSequence (env : Env) (n : Nat) : Bool :=
  env.txVersion ≥ 2
  && (env.nSequence / SEQ_DISABLE) % 2 == 0
  && (let txm := seqMasked env.nSequence
      let nm := seqMasked n
      ((txm < SEQ_TYPE && nm < SEQ_TYPE) || (txm ≥ SEQ_TYPE && nm ≥ SEQ_TYPE)) && nm ≤ txm)

def num4 (env : Env) (bs : Bytes) : Except Err Int :=
  match numDecode env.flags.minimalNum 4 bs with
  | some v => .ok v
  | none => .error .scriptNum

/-- pubkey type rule applied by CHECKSIG-family opcodes -/
def pubkeyOk (env : Env) (pk : Bytes) : Bool :=
  if env.flags.tapscript then pk.length == 32
  else (pk.length == 33 && (pk.head? == some 2 || pk.head? == some 3))
    || (pk.length == 65 && pk.head? == some 4)

/-- one signature check; `none` = script failure -/
def checkSig (env : Env) (sig pk : Bytes) : Except Err Bool :=
  if !pubkeyOk env pk then .error .pubkeyType
  else if sig.isEmpty then .ok false
  else if env.sigOk pk sig then .ok true
  else if env.flags.nullFail || env.flags.tapscript then .error .nullFail
  else .ok false

/-- Core's CHECKMULTISIG matching loop: sigs and keys in script order (first pushed first) -/
def multisigLoop (env : Env) : List Bytes → List Bytes → Except Err Bool
  | [], _ => .ok true
  | _ :: _, [] => .ok false
  | sig :: sigs, key :: keys =>
    if sigs.length + 1 > keys.length + 1 then .ok false
    else if !pubkeyOk env key then .error .pubkeyType
    else
      let ok := !sig.isEmpty && env.sigOk key sig
      if ok then multisigLoop env sigs keys else multisigLoop env (sig :: sigs) keys
termination_by s k => s.length + k.length

def countOp (env : Env) (s : Core) (n : Nat) : Except Err Core :=
  let ops := s.ops + n
  if env.flags.opLimit && !env.flags.tapscript && ops > 201 then .error .opCount
  else .ok { s with ops := ops }

def pushElem (env : Env) (s : Core) (b : Bytes) : Except Err Core :=
  if env.flags.stackLimits && b.length > 520 then .error .pushSize
  else
    let s' := { s with stack := b :: s.stack }
    if env.flags.stackLimits && s'.stack.length + s'.alt.length > 1000 then .error .stackSize
    else .ok s'

/-- CHECKMULTISIG / CHECKMULTISIGVERIFY -/
def multisig (env : Env) (s : Core) (verify : Bool) : Except Err Core :=
  if env.flags.tapscript then .error .disabledOpcode else
  match s.stack with
  | nB :: r =>
    match numDecode env.flags.minimalNum 4 nB with
    | none => .error .scriptNum
    | some nI =>
      if nI < 0 ∨ nI > 20 then .error .pubkeyCount else
      let n := nI.toNat
      match countOp env s n with
      | .error e => .error e
      | .ok s =>
        if r.length < n + 1 then .error .stackUnderflow else
        let keysTopFirst := r.take n
        let r := r.drop n
        match r with
        | mB :: r =>
          match numDecode env.flags.minimalNum 4 mB with
          | none => .error .scriptNum
          | some mI =>
            if mI < 0 ∨ mI > nI then .error .sigCount else
            let m := mI.toNat
            if r.length < m + 1 then .error .stackUnderflow else
            let sigsTopFirst := r.take m
            let r := r.drop m
            match r with
            | dummy :: r =>
              -- Core walks from the top of the stack: last key / last signature first
              match multisigLoop env sigsTopFirst keysTopFirst with
              | .error e => .error e
              | .ok ok =>
                if !ok && env.flags.nullFail && sigsTopFirst.any (fun x => !x.isEmpty) then
                  .error .nullFail
                else if env.flags.nullDummy && !dummy.isEmpty then .error .nullDummy
                else if verify then
                  (if ok then .ok { s with stack := r } else .error .verifyFailed)
                else pushElem env { s with stack := r } (boolBytes ok)
            | [] => .error .stackUnderflow
        | [] => .error .stackUnderflow
  | [] => .error .stackUnderflow

/-- execute one non-conditional opcode (in an executing branch); the opcode itself has
already been counted -/
def execOpc (env : Env) (o : Opc) (s : Core) : Except Err Core :=
  match o, s.stack with
  | .dup, a :: r => pushElem env { s with stack := a :: r } a
  | .ifdup, a :: r => if castToBool a then pushElem env { s with stack := a :: r } a else .ok s
  | .swap, a :: b :: r => .ok { s with stack := b :: a :: r }
  | .size, a :: r => pushElem env { s with stack := a :: r } (numEncode a.length)
  | .toalt, a :: r => .ok { s with stack := r, alt := a :: s.alt }
  | .fromalt, _ =>
    match s.alt with
    | a :: ar => pushElem env { s with alt := ar } a
    | [] => .error .altStackUnderflow
  | .drop, _ :: r => .ok { s with stack := r }
  | .verify, a :: r => if castToBool a then .ok { s with stack := r } else .error .verifyFailed
  | .equal, a :: b :: r => pushElem env { s with stack := r } (boolBytes (a == b))
  | .equalverify, a :: b :: r => if a == b then .ok { s with stack := r } else .error .verifyFailed
  | .numequal, a :: b :: r => do
    let x ← num4 env a; let y ← num4 env b
    pushElem env { s with stack := r } (boolBytes (x == y))
  | .numequalverify, a :: b :: r => do
    let x ← num4 env a; let y ← num4 env b
    if x == y then .ok { s with stack := r } else .error .verifyFailed
  | .add, a :: b :: r => do
    let x ← num4 env a; let y ← num4 env b
    pushElem env { s with stack := r } (numEncode (y + x))
  | .booland, a :: b :: r => do
    let x ← num4 env a; let y ← num4 env b
    pushElem env { s with stack := r } (boolBytes (x != 0 && y != 0))
  | .boolor, a :: b :: r => do
    let x ← num4 env a; let y ← num4 env b
    pushElem env { s with stack := r } (boolBytes (x != 0 || y != 0))
  | .zeronotequal, a :: r => do
    let x ← num4 env a
    pushElem env { s with stack := r } (boolBytes (x != 0))
  | .sha256, a :: r => pushElem env { s with stack := r } (env.hash .sha256 a)
  | .hash256, a :: r => pushElem env { s with stack := r } (env.hash .hash256 a)
  | .ripemd160, a :: r => pushElem env { s with stack := r } (env.hash .ripemd160 a)
  | .hash160, a :: r => pushElem env { s with stack := r } (env.hash .hash160 a)
  | .checksig, pk :: sig :: r => do
    let ok ← checkSig env sig pk
    pushElem env { s with stack := r } (boolBytes ok)
  | .checksigverify, pk :: sig :: r => do
    let ok ← checkSig env sig pk
    if ok then .ok { s with stack := r } else .error .verifyFailed
  | .checksigadd, pk :: n :: sig :: r =>
    if !env.flags.tapscript then .error (.badOpcode 0xba) else do
    let v ← num4 env n
    let ok ← checkSig env sig pk
    pushElem env { s with stack := r } (numEncode (v + (if ok then 1 else 0)))
  | .checkmultisig, _ => multisig env s false
  | .checkmultisigverify, _ => multisig env s true
  | .cltv, a :: _ =>
    match numDecode env.flags.minimalNum 5 a with
    | none => .error .scriptNum
    | some v =>
      if v < 0 then .error .negativeLocktime
      else if checkLockTime env v.toNat then .ok s else .error .unsatisfiedLocktime
  | .csv, a :: _ =>
    match numDecode env.flags.minimalNum 5 a with
    | none => .error .scriptNum
    | some v =>
      if v < 0 then .error .negativeLocktime
      else if (v.toNat / SEQ_DISABLE) % 2 == 1 then .ok s
      else if checkSequence env v.toNat then .ok s else .error .unsatisfiedLocktime
  | .if_, _ | .notif, _ | .else_, _ | .endif, _ => .error .unbalancedConditional  -- handled by `step`
  | _, _ => .error .stackUnderflow

/-- the value a push element puts on the stack -/
def Op.pushed? : Op → Option Bytes
  | .small n => some (if n = 0 then [] else [UInt8.ofNat n])
  | .push bs => some bs
  | _ => none

/-- IF / NOTIF in an executing branch: pop the condition (MINIMALIF), return the branch flag -/
def condPop (env : Env) (notif : Bool) (s : Core) : Except Err (Bool × Core) :=
  match s.stack with
  | a :: r =>
    if env.flags.minimalIf && !(a == [] || a == [1]) then .error .minimalIf
    else .ok ((if notif then !castToBool a else castToBool a), { s with stack := r })
  | [] => .error .unbalancedConditional

/-- one script element, with the condition stack -/
def step (env : Env) (s : State) (op : Op) : Except Err State :=
  let exec := s.executing
  match op with
  | .bad b => if exec then .error (.badOpcode b) else .ok s
  | .small n =>
    if exec then (pushElem env s.core (if n = 0 then [] else [UInt8.ofNat n])).map (⟨·, s.conds⟩)
    else .ok s
  | .push bs =>
    if env.flags.stackLimits && bs.length > 520 then .error .pushSize
    else if exec then (pushElem env s.core bs).map (⟨·, s.conds⟩) else .ok s
  | .code o =>
    match countOp env s.core 1 with
    | .error e => .error e
    | .ok c =>
      match o with
      | .if_ | .notif =>
        if exec then
          match condPop env (o == .notif) c with
          | .ok (v, c) => .ok ⟨c, v :: s.conds⟩
          | .error e => .error e
        else .ok ⟨c, false :: s.conds⟩
      | .else_ =>
        match s.conds with
        | b :: cs => .ok ⟨c, (!b) :: cs⟩
        | [] => .error .unbalancedConditional
      | .endif =>
        match s.conds with
        | _ :: cs => .ok ⟨c, cs⟩
        | [] => .error .unbalancedConditional
      | o => if exec then (execOpc env o c).map (⟨·, s.conds⟩) else .ok ⟨c, s.conds⟩

def run (env : Env) (script : List Op) (s : State) : Except Err State :=
  script.foldlM (step env) s

/-- instrumentation for C09: run and record the maximum of `stack + altstack` depth over all
intermediate states (including the initial one) -/
def runPeak (env : Env) : List Op → State → Nat → Except Err (State × Nat)
  | [], s, pk => .ok (s, pk)
  | op :: rest, s, pk =>
    match step env s op with
    | .error e => .error e
    | .ok s' => runPeak env rest s' (max pk (s'.core.stack.length + s'.core.alt.length))

/-- Run a script on an initial stack (top = head).  Success (CLEANSTACK form): no error,
balanced conditionals, exactly one element left and it is true. -/
def accepts (env : Env) (script : List Op) (stack : List Bytes) : Bool :=
  match run env script (State.init stack) with
  | .ok s => s.conds.isEmpty && (match s.core.stack with | [a] => castToBool a | _ => false)
  | .error _ => false

/-- consensus-only success: top element true (no CLEANSTACK) -/
def acceptsLoose (env : Env) (script : List Op) (stack : List Bytes) : Bool :=
  match run env script (State.init stack) with
  | .ok s => s.conds.isEmpty && (match s.core.stack with | a :: _ => castToBool a | _ => false)
  | .error _ => false

end MsVerif.Script

/-
Structured fragment semantics: what the opcodes emitted for each Miniscript fragment do on ANY
machine state, fragment by fragment, as a structural recursion over the AST — no condition
stack.  Straight-line opcodes are executed with the very same `execOpc` / `pushElem` /
`countOp` as the flat interpreter `Script.run`; conditionals are resolved structurally
(`condPop`), and the branch that is not taken only contributes its opcode count
(`skipCount`), exactly as Core counts non-executed opcodes.

`Thm/Bridge.lean` proves `run env (encode ms) ⟨c, cs⟩ = (frag ms c).map (⟨·, cs⟩)` for every
all-true `cs` (limits disabled), so every statement proved about `frag` is a statement about
real opcode execution of the encoded script.
-/
import MsVerif.Model.Encode

namespace MsVerif
open Script

/-- one counted, non-conditional opcode in an executing branch -/
def opc (env : Env) (o : Opc) (c : Core) : Except Err Core :=
  match countOp env c 1 with
  | .error e => .error e
  | .ok c => execOpc env o c

/-- a push element in an executing branch -/
def psh (env : Env) (b : Bytes) (c : Core) : Except Err Core :=
  if env.flags.stackLimits && b.length > 520 then .error .pushSize else pushElem env c b

def pshOp (env : Env) (op : Op) (c : Core) : Except Err Core :=
  match op with
  | .small n => pushElem env c (if n = 0 then [] else [UInt8.ofNat n])
  | .push bs => psh env bs c
  | .code o => opc env o c
  | .bad b => .error (.badOpcode b)

/-- number of counted opcodes in a script (what a non-executed branch adds to `ops`) -/
def codeCount (s : List Op) : Nat := (s.filter (fun o => match o with | .code _ => true | _ => false)).length

/-- effect of a non-executed branch: its opcodes are counted, nothing else happens (an
oversized push in a dead branch is still an error when limits are on) -/
def skipCount (env : Env) (s : List Op) (c : Core) : Except Err Core :=
  if env.flags.stackLimits && s.any (fun o => match o with | .push bs => decide (bs.length > 520) | _ => false)
  then .error .pushSize
  else countOp env c (codeCount s)

/-- counted IF / NOTIF: returns the branch flag -/
def cnd (env : Env) (notif : Bool) (c : Core) : Except Err (Bool × Core) :=
  match countOp env c 1 with
  | .error e => .error e
  | .ok c => condPop env notif c

/-- a straight-line list of elements -/
def seqOps (env : Env) (ops : List Op) (c : Core) : Except Err Core := ops.foldlM (fun c o => pshOp env o c) c

/-- does the encoding end in an opcode that `push_verify` fuses with? -/
def endsFusable (s : List Op) : Bool :=
  match s.getLast? with
  | some (.code .equal) | some (.code .numequal) | some (.code .checksig) | some (.code .checkmultisig) => true
  | _ => false

mutual
def frag (env : Env) (ke : KeyEnv) (ctx : Ctx) : Ms → Core → Except Err Core
  | .pkK k, c => psh env (ke.ser k) c
  | .pkH k, c => seqOps env [.code .dup, .code .hash160, .push (ke.pkh k), .code .equalverify] c
  | .rawPkH h, c => seqOps env [.code .dup, .code .hash160, .push (ke.rawPkh h), .code .equalverify] c
  | .after n, c => seqOps env [pushInt n, .code .cltv] c
  | .older n, c => seqOps env [pushInt n, .code .csv] c
  | .hash kind h, c =>
    seqOps env [.code .size, pushInt 32, .code .equalverify, .code (hashOpc kind),
                .push (ke.hashVal kind h), .code .equal] c
  | .tru, c => pshOp env (.small 1) c
  | .fls, c => pshOp env (.small 0) c
  | .alt x, c => do
    let c ← opc env .toalt c
    let c ← frag env ke ctx x c
    opc env .fromalt c
  | .swap x, c => do
    let c ← opc env .swap c
    frag env ke ctx x c
  | .check x, c => do
    let c ← frag env ke ctx x c
    opc env .checksig c
  | .dupIf x, c => do
    let c ← opc env .dup c
    let (v, c) ← cnd env false c
    let c ← if v then frag env ke ctx x c else skipCount env (encode ke ctx x) c
    countOp env c 1                                       -- ENDIF
  | .verify x, c => do
    let c ← frag env ke ctx x c
    if endsFusable (encode ke ctx x) then
      -- EQUAL/NUMEQUAL/CHECKSIG/CHECKMULTISIG became its *VERIFY form: same effect as the
      -- plain opcode followed by VERIFY, but one opcode less is counted
      match c.stack with
      | a :: r => if castToBool a then .ok { c with stack := r } else .error .verifyFailed
      | [] => .error .stackUnderflow
    else opc env .verify c
  | .nonZero x, c => do
    let c ← opc env .size c
    let c ← opc env .zeronotequal c
    let (v, c) ← cnd env false c
    let c ← if v then frag env ke ctx x c else skipCount env (encode ke ctx x) c
    countOp env c 1
  | .zeroNotEqual x, c => do
    let c ← frag env ke ctx x c
    opc env .zeronotequal c
  | .andV l r, c => do
    let c ← frag env ke ctx l c
    frag env ke ctx r c
  | .andB l r, c => do
    let c ← frag env ke ctx l c
    let c ← frag env ke ctx r c
    opc env .booland c
  | .andOr a b z, c => do
    let c ← frag env ke ctx a c
    let (v, c) ← cnd env true c                          -- NOTIF: v = "a left false"
    let c ← if v then frag env ke ctx z c else skipCount env (encode ke ctx z) c
    let c ← countOp env c 1                               -- ELSE
    let c ← if v then skipCount env (encode ke ctx b) c else frag env ke ctx b c
    countOp env c 1                                       -- ENDIF
  | .orB l r, c => do
    let c ← frag env ke ctx l c
    let c ← frag env ke ctx r c
    opc env .boolor c
  | .orD l r, c => do
    let c ← frag env ke ctx l c
    let c ← opc env .ifdup c
    let (v, c) ← cnd env true c
    let c ← if v then frag env ke ctx r c else skipCount env (encode ke ctx r) c
    countOp env c 1
  | .orC l r, c => do
    let c ← frag env ke ctx l c
    let (v, c) ← cnd env true c
    let c ← if v then frag env ke ctx r c else skipCount env (encode ke ctx r) c
    countOp env c 1
  | .orI l r, c => do
    let (v, c) ← cnd env false c
    let c ← if v then frag env ke ctx l c else skipCount env (encode ke ctx l) c
    let c ← countOp env c 1                               -- ELSE
    let c ← if v then skipCount env (encode ke ctx r) c else frag env ke ctx r c
    countOp env c 1
  | .thresh k xs, c => do
    let c ← fragThresh env ke ctx true xs c
    seqOps env [pushInt k, .code .equal] c
  | .multi k ks, c =>
    seqOps env ([pushInt k] ++ ks.map (fun pk => Op.push (ke.ser pk)) ++ [pushInt ks.length, .code .checkmultisig]) c
  | .sortedMulti k ks, c =>
    seqOps env ([pushInt k] ++ (sortKeys ke ks).map (fun pk => Op.push (ke.ser pk))
      ++ [pushInt ks.length, .code .checkmultisig]) c
  | .multiA k ks, c => seqOps env (encodeMultiA ke ks ++ [pushInt k, .code .numequal]) c
  | .sortedMultiA k ks, c => seqOps env (encodeMultiA ke (sortKeys ke ks) ++ [pushInt k, .code .numequal]) c
def fragThresh (env : Env) (ke : KeyEnv) (ctx : Ctx) (first : Bool) : MsList → Core → Except Err Core
  | .nil, c => .ok c
  | .cons x xs, c => do
    let c ← frag env ke ctx x c
    let c ← if first then .ok c else opc env .add c
    fragThresh env ke ctx false xs c
end

end MsVerif

/-
What a descriptor key expression DENOTES (BIP380 key expressions, BIP389 multipath) — TRUSTED
SPEC (C16).  The syntax type `DPK` is shared with the model (Model/Keys.lean: it is the data
of `DescriptorPublicKey`); the meaning below is written independently of the Rust algorithms,
on top of BIP32 public derivation (Spec/Bip32.lean).
-/
import MsVerif.Spec.Bip32
import MsVerif.Model.Keys

namespace MsVerif.KeyExpr
open MsVerif.Bip32 MsVerif.Keys

variable {X P : Type}

/-- The public key a key expression stands for at derivation index `i`, by PUBLIC derivation:
* a single key is itself;
* `xpub/path` is BIP32-derived along `path`; with `/*` additionally through child `i`
  (`i < 2³¹`); through a hardened step or a hardened wildcard `/*h` there is no public derivation;
* a multipath expression denotes several descriptors and has to be split first. -/
def keyAt (ckd : X → Nat → X) (k : DPK X P) (i : Nat) : Option (Derived X P) :=
  match k with
  | .single _ key => some (.single key)
  | .xpub _ x path wc =>
    match wc with
    | .none => (derivePath ckd x path).map .ofXpub
    | .unhardened =>
      if i < indexLimit then (derivePath ckd x (path ++ [.normal i])).map .ofXpub else none
    | .hardened => none
  | .multi .. => none

/-- BIP389: the `j`-th descriptor of a multipath descriptor uses the `j`-th alternative of
every multipath key expression and leaves the other keys alone -/
def selectPath (j : Nat) : DPK X P → Option (DPK X P)
  | .multi o x paths wc => paths[j]?.map fun p => .xpub o x p wc
  | k => some k

/-- number of alternatives of a multipath key expression -/
def arity : DPK X P → Option Nat
  | .multi _ _ paths _ => some paths.length
  | _ => none

end MsVerif.KeyExpr

/-
BIP173/BIP350 segwit addresses — TRUSTED SPEC (C15: P2TR addresses are witness version 1,
Bech32m).  Written from the BIPs' reference algorithm (`bech32_polymod`, `bech32_hrp_expand`,
`convertbits` 8→5 with padding).  No imports.
-/
namespace MsVerif.Bech32m

def charset : List Char := "qpzry9x8gf2tvdw0s3jn54khce6mua7l".toList

def gen : List Nat := [0x3b6a57b2, 0x26508e6d, 0x1ea119fa, 0x3d4233dd, 0x2a1462b3]

def polymodStep (chk v : Nat) : Nat :=
  let b := chk >>> 25
  let chk := ((chk &&& 0x1ffffff) <<< 5) ^^^ v
  (gen.zipIdx).foldl (fun c (g, i) => if (b >>> i) &&& 1 == 1 then c ^^^ g else c) chk

def polymod (values : List Nat) : Nat := values.foldl polymodStep 1

def hrpExpand (hrp : String) : List Nat :=
  hrp.toList.map (fun c => c.toNat >>> 5) ++ [0] ++ hrp.toList.map (fun c => c.toNat &&& 31)

/-- BIP350 -/
def bech32mConst : Nat := 0x2bc830a3
/-- BIP173 -/
def bech32Const : Nat := 1

def createChecksum (const : Nat) (hrp : String) (data : List Nat) : List Nat :=
  let pm := polymod (hrpExpand hrp ++ data ++ [0, 0, 0, 0, 0, 0]) ^^^ const
  (List.range 6).map (fun i => (pm >>> (5 * (5 - i))) &&& 31)

def encode (const : Nat) (hrp : String) (data : List Nat) : String :=
  hrp ++ "1" ++ String.ofList ((data ++ createChecksum const hrp data).map (fun d => charset.getD d '?'))

/-- bits of a byte string, most significant first -/
def bitsOf (bytes : List UInt8) : List Nat :=
  bytes.flatMap (fun b => (List.range 8).map (fun i => (b.toNat >>> (7 - i)) &&& 1))

/-- groups of 5 bits, the last one padded with zeros (`fuel` ≥ number of groups) -/
def groups5 : Nat → List Nat → List Nat
  | 0, _ => []
  | fuel + 1, bits =>
    if bits.isEmpty then [] else
    let g := (bits.take 5 ++ List.replicate (5 - (bits.take 5).length) 0)
    g.foldl (fun a b => a * 2 + b) 0 :: groups5 fuel (bits.drop 5)

def convertBits8to5 (bytes : List UInt8) : List Nat :=
  let bits := bitsOf bytes
  groups5 (bits.length / 5 + 1) bits

/-- segwit address of a witness program: version 0 uses Bech32, versions 1..16 Bech32m -/
def segwitAddress (hrp : String) (witver : Nat) (program : List UInt8) : String :=
  encode (if witver == 0 then bech32Const else bech32mConst) hrp (witver :: convertBits8to5 program)

/-- human-readable parts of the networks (BIP173; signet shares `tb`) -/
def hrpOf : String → Option String
  | "bitcoin" => some "bc"
  | "testnet" => some "tb"
  | "testnet4" => some "tb"
  | "signet" => some "tb"
  | "regtest" => some "bcrt"
  | _ => none

/-- P2TR address of an output key -/
def p2trAddress (network : String) (outputKey : List UInt8) : Option String :=
  (hrpOf network).map (fun hrp => segwitAddress hrp 1 outputKey)

end MsVerif.Bech32m

/-! self-checks: BIP350 / BIP173 test vectors -/
#guard MsVerif.Bech32m.segwitAddress "bc" 1
    [0x79, 0xbe, 0x66, 0x7e, 0xf9, 0xdc, 0xbb, 0xac, 0x55, 0xa0, 0x62, 0x95, 0xce, 0x87, 0x0b, 0x07,
     0x02, 0x9b, 0xfc, 0xdb, 0x2d, 0xce, 0x28, 0xd9, 0x59, 0xf2, 0x81, 0x5b, 0x16, 0xf8, 0x17, 0x98]
  == "bc1p0xlxvlhemja6c4dqv22uapctqupfhlxm9h8z3k2e72q4k9hcz7vqzk5jj0"
#guard MsVerif.Bech32m.segwitAddress "bc" 0
    [0x75, 0x1e, 0x76, 0xe8, 0x19, 0x91, 0x96, 0xd4, 0x54, 0x94, 0x1c, 0x45, 0xd1, 0xb3, 0xa3, 0x23,
     0xf1, 0x43, 0x3b, 0xd6]
  == "bc1qw508d6qejxtdg4y5r3zarvary0c5xw7kv8f3t4"

/-
Spending-policy semantics (TRUSTED specification for C18; also the target of lifting, C07).

Written independently of the Rust algorithms: it says what a policy MEANS.

* `Policy` / `CPolicy` are the data types of abstract ("semantic") and concrete policies.
  Atoms (keys, hashes, locks) are abstract: a key / hash is a number, a lock is its consensus
  `u32` value.
* A *valuation* assigns a truth value to every atom independently; `holdsA v p` is the truth
  table of `p`.  Thresholds mean "at least k children hold".
* A *world* `World` says which keys can sign, which preimages are known, and carries the
  spending transaction's `nLockTime` and the input's `nSequence`; it induces a valuation
  (`World.val`) through the consensus rules of CHECKLOCKTIMEVERIFY (BIP 65) and
  CHECKSEQUENCEVERIFY (BIP 112).  `holds W p = holdsA W.val p`.
* A *selection* (`sels`) is one structural way of satisfying a policy: at every threshold
  exactly `k` children are chosen, `UNSATISFIABLE` cannot be chosen; the selection is the list
  of atoms that have to be satisfied, with multiplicity (a key that occurs twice needs two
  signature pushes).  "Fewest signatures" and "a satisfying path needs both a height- and a
  time-based lock" are statements about selections.

The last section contains the brute-force truth-table procedures used by the judge (`J`) ops.
No imports: linked into the driver.
-/
namespace MsVerif.Pol

inductive HashKind | sha256 | hash256 | ripemd160 | hash160
  deriving DecidableEq, Repr, Inhabited

/-- the non-constant leaves of a policy -/
inductive Atom
  | key (i : Nat)
  | after (n : Nat)          -- absolute lock, consensus value
  | older (n : Nat)          -- relative lock, consensus (nSequence-encoded) value
  | hash (k : HashKind) (h : Nat)
  deriving DecidableEq, Repr, Inhabited

/-- abstract policy (`policy::semantic::Policy`) -/
inductive Policy
  | unsat
  | trivial
  | atom (a : Atom)
  | thresh (k : Nat) (subs : List Policy)
  deriving Repr, Inhabited

/-- concrete policy (`policy::concrete::Policy`); the relative weights of `or` branches are
compiler hints without meaning and are not represented -/
inductive CPolicy
  | unsat
  | trivial
  | atom (a : Atom)
  | and (subs : List CPolicy)
  | or (subs : List CPolicy)
  | thresh (k : Nat) (subs : List CPolicy)
  deriving Repr, Inhabited

/-! ## Lock arithmetic (consensus rules) -/

/-- absolute lock values below this are block heights, the others UNIX times (BIP 65) -/
def LOCKTIME_THRESHOLD : Nat := 500000000

def absIsHeight (n : Nat) : Bool := n < LOCKTIME_THRESHOLD
def absIsTime (n : Nat) : Bool := !(n < LOCKTIME_THRESHOLD)

/-- bit 22 of a sequence number: the lock counts 512-second intervals, not blocks (BIP 68) -/
def relIsTime (n : Nat) : Bool := n / 4194304 % 2 == 1
def relIsHeight (n : Nat) : Bool := !relIsTime n
/-- the 16 value bits of a relative lock -/
def relValue (n : Nat) : Nat := n % 65536
/-- bit 31: relative lock disabled -/
def seqDisabled (n : Nat) : Bool := !(n < 2147483648)

/-- `<t> CHECKLOCKTIMEVERIFY` succeeds in a transaction with this `nLockTime` (BIP 65: same
kind and `t ≤ nLockTime`; the input-finality condition is not modelled). -/
def cltvOk (nLockTime t : Nat) : Bool :=
  (absIsHeight t == absIsHeight nLockTime) && decide (t ≤ nLockTime)

/-- `<t> CHECKSEQUENCEVERIFY` succeeds for an input with this `nSequence` (BIP 112, transaction
version ≥ 2, `t` without the disable flag): the input's relative lock is enabled, of the same
kind, and at least as large on the 16 value bits. -/
def csvOk (nSequence t : Nat) : Bool :=
  !seqDisabled nSequence && (relIsTime t == relIsTime nSequence)
    && decide (relValue t ≤ relValue nSequence)

/-! ## Truth tables -/

mutual
/-- truth value of a policy under an assignment of its atoms -/
def holdsA (v : Atom → Bool) : Policy → Bool
  | .unsat => false
  | .trivial => true
  | .atom a => v a
  | .thresh k subs => decide (k ≤ countA v subs)
/-- number of members of the list that hold -/
def countA (v : Atom → Bool) : List Policy → Nat
  | [] => 0
  | p :: ps => (if holdsA v p then 1 else 0) + countA v ps
end

mutual
def holdsC (v : Atom → Bool) : CPolicy → Bool
  | .unsat => false
  | .trivial => true
  | .atom a => v a
  | .and subs => decide (subs.length ≤ countC v subs)
  | .or subs => decide (1 ≤ countC v subs)
  | .thresh k subs => decide (k ≤ countC v subs)
def countC (v : Atom → Bool) : List CPolicy → Nat
  | [] => 0
  | p :: ps => (if holdsC v p then 1 else 0) + countC v ps
end

/-- truth-table implication ("every satisfaction of `a` is a satisfaction of `b`"), atoms
independent -/
def Implies (a b : Policy) : Prop := ∀ v, holdsA v a = true → holdsA v b = true

/-- what a spender has / what the spending transaction looks like -/
structure World where
  canSign : Nat → Bool
  preimage : HashKind → Nat → Bool
  nLockTime : Nat
  nSequence : Nat

/-- the assignment induced by a world -/
def World.val (W : World) : Atom → Bool
  | .key i => W.canSign i
  | .hash k h => W.preimage k h
  | .after t => cltvOk W.nLockTime t
  | .older t => csvOk W.nSequence t

def holds (W : World) (p : Policy) : Bool := holdsA W.val p
def holdsCW (W : World) (c : CPolicy) : Bool := holdsC W.val c

/-! ## Selections (satisfying paths) -/

/-- all ways of choosing exactly `k` members of a list of alternatives-lists, concatenating
one alternative of every chosen member -/
def chooseK : List (List (List Atom)) → Nat → List (List Atom)
  | _, 0 => [[]]
  | [], _ + 1 => []
  | alts :: rest, k + 1 =>
      chooseK rest (k + 1) ++ alts.flatMap (fun a => (chooseK rest k).map (a ++ ·))

mutual
/-- every selection of an abstract policy: the atoms that have to be satisfied when at each
threshold exactly `k` children are chosen -/
def sels : Policy → List (List Atom)
  | .unsat => []
  | .trivial => [[]]
  | .atom a => [[a]]
  | .thresh k subs => chooseK (selsList subs) k
def selsList : List Policy → List (List (List Atom))
  | [] => []
  | p :: ps => sels p :: selsList ps
end

mutual
/-- selections of a concrete policy: `and` takes all children, `or` exactly one, `thresh`
exactly `k`.  With `viaUnsat = true`, `UNSATISFIABLE` is treated like a leaf that can be
chosen (purely structural paths); with `false` only satisfiable selections remain. -/
def selsC (viaUnsat : Bool) : CPolicy → List (List Atom)
  | .unsat => if viaUnsat then [[]] else []
  | .trivial => [[]]
  | .atom a => [[a]]
  | .and subs => chooseK (selsCList viaUnsat subs) (subs.length)
  | .or subs => chooseK (selsCList viaUnsat subs) 1
  | .thresh k subs => chooseK (selsCList viaUnsat subs) k
def selsCList (viaUnsat : Bool) : List CPolicy → List (List (List Atom))
  | [] => []
  | p :: ps => selsC viaUnsat p :: selsCList viaUnsat ps
end

def Atom.isKey : Atom → Bool | .key _ => true | _ => false
def Atom.isOlderHeight : Atom → Bool | .older n => relIsHeight n | _ => false
def Atom.isOlderTime : Atom → Bool | .older n => relIsTime n | _ => false
def Atom.isAfterHeight : Atom → Bool | .after n => absIsHeight n | _ => false
def Atom.isAfterTime : Atom → Bool | .after n => absIsTime n | _ => false

/-- signatures a selection needs (one per key occurrence) -/
def nSigs (sel : List Atom) : Nat := sel.countP Atom.isKey

/-- the selection needs a height-based and a time-based lock of the same kind: no transaction
can satisfy both -/
def mixedLocks (sel : List Atom) : Bool :=
  (sel.any Atom.isOlderHeight && sel.any Atom.isOlderTime)
    || (sel.any Atom.isAfterHeight && sel.any Atom.isAfterTime)

/-- fewest signatures over all selections; `none` iff there is no selection -/
def minSigs (p : Policy) : Option Nat := ((sels p).map nSigs).min?

/-- some satisfying path needs mixed locks -/
def hasMixedPath (c : CPolicy) : Bool := (selsC false c).any mixedLocks

/-! ## Atom occurrences -/

mutual
/-- atoms of a policy in pre-order, with repetitions -/
def atomsOf : Policy → List Atom
  | .unsat => []
  | .trivial => []
  | .atom a => [a]
  | .thresh _ subs => atomsOfList subs
def atomsOfList : List Policy → List Atom
  | [] => []
  | p :: ps => atomsOf p ++ atomsOfList ps
end

mutual
def atomsOfC : CPolicy → List Atom
  | .unsat => []
  | .trivial => []
  | .atom a => [a]
  | .and subs => atomsOfCList subs
  | .or subs => atomsOfCList subs
  | .thresh _ subs => atomsOfCList subs
def atomsOfCList : List CPolicy → List Atom
  | [] => []
  | p :: ps => atomsOfC p ++ atomsOfCList ps
end

/-- restriction of an assignment to what can be true at relative age `a` (an `nSequence`
value): `older` atoms that an input of that age does not satisfy become false -/
def restrictAge (a : Nat) (v : Atom → Bool) : Atom → Bool
  | .older t => csvOk a t && v (.older t)
  | x => v x

/-- same for an absolute lock time `n` (an `nLockTime` value) -/
def restrictLockTime (n : Nat) (v : Atom → Bool) : Atom → Bool
  | .after t => cltvOk n t && v (.after t)
  | x => v x

/-! ## Brute force over all assignments (used by the judge ops only) -/

/-- the assignment that makes exactly the atoms of `ts` true -/
def valOf (ts : List Atom) : Atom → Bool := fun a => ts.contains a

/-- all sublists: every assignment of the listed (distinct) atoms, as its set of true atoms -/
def subsets : List Atom → List (List Atom)
  | [] => [[]]
  | a :: as => (subsets as) ++ (subsets as).map (a :: ·)

/-- `f` holds for every assignment of the given atoms (all other atoms false) -/
def forallVals (atoms : List Atom) (f : (Atom → Bool) → Bool) : Bool :=
  (subsets atoms.eraseDups).all (fun ts => f (valOf ts))

/-- same truth table -/
def equivOn (atoms : List Atom) (p q : Policy) : Bool :=
  forallVals atoms (fun v => holdsA v p == holdsA v q)

/-- truth-table implication -/
def impliesOn (atoms : List Atom) (p q : Policy) : Bool :=
  forallVals atoms (fun v => !holdsA v p || holdsA v q)

/-- fewest signing keys over all satisfying assignments.  An assignment of the policy's atoms is
given by the sub-list `ts` of atom occurrences it makes true (`valOf ts`); choosing one
occurrence per true atom shows that the minimum of `nSigs ts` is the least number of distinct
keys that have to sign. -/
def minTrueKeys (p : Policy) : Option Nat :=
  (((subsets (atomsOf p)).filter (fun ts => holdsA (valOf ts) p)).map nSigs).min?

/-! ## Safety and malleability of a concrete policy (what `is_safe_nonmalleable` is about) -/

/-- nobody signs, everything else (preimages, locks) is available -/
def noKeys : Atom → Bool := fun a => !a.isKey

/-- SAFE: every way of satisfying the policy needs at least one signature -/
def isSafeSpec (c : CPolicy) : Bool := (selsC false c).all (fun s => decide (1 ≤ nSigs s))

def subsetOf (xs ys : List Atom) : Bool := xs.all ys.contains
def sameAtoms (xs ys : List Atom) : Bool := subsetOf xs ys && subsetOf ys xs

/-- A third party that sees the satisfaction `s` can turn it into `s'`: it cannot sign, so every
key of `s'` must already sign in `s`; everything that is not a signature it can supply as soon
as it is available at all (`R`: the atoms that can currently be satisfied — the third party
knows what the honest spender knows, except private keys). -/
def canForge (R s s' : List Atom) : Bool :=
  (s'.filter Atom.isKey).all s.contains && (s'.filter (fun a => !a.isKey)).all R.contains

/-- no third party can replace the satisfaction `s` by a different one -/
def unforgeable (S : List (List Atom)) (R s : List Atom) : Bool :=
  S.all (fun s' => !canForge R s s' || sameAtoms s s')

/-- NON-MALLEABLE (the Miniscript notion, on the level of policies): whatever can currently be
satisfied (`R`), if the policy can be satisfied at all then the spender can choose a
satisfaction that no third party can replace by another one. -/
def isNonMalleableSpec (c : CPolicy) : Bool :=
  let S := selsC false c
  (subsets (atomsOfC c).eraseDups).all fun R =>
    let avail := S.filter (fun s => subsetOf s R)
    avail.isEmpty || avail.any (fun s => unforgeable S R s)

/-- key leaves of `p` that sign under the assignment `v` -/
def trueKeys (v : Atom → Bool) (p : Policy) : Nat :=
  ((atomsOf p).filter (fun a => a.isKey && v a)).length

/-- number of key leaves, repetitions counted -/
def keyOccurrences (p : Policy) : Nat := (atomsOf p).countP Atom.isKey

end MsVerif.Pol

/-
C12 specification (TRUSTED, small, written without looking at the validator's code paths):

* `ctxOK F ctx ms` — "the script obeys the rules of its script context", rule by rule, in plain
  terms.  Every rule is a separate definition so that the judge can say WHICH rule fails.
* `hasDefect_X` — for every validation switch X, the defect the switch is documented to
  forbid.

Sources of the rules: BIP 379 / bitcoin.sipa.be/miniscript (type system, `multi` vs `multi_a`,
1 ≤ k ≤ n ≤ 20 resp. 999, time-lock ranges), BIP 141/342 (key kinds, MINIMALIF), consensus
script-size limits (520 bytes P2SH redeem script, 10 000 bytes script, block weight for
tapscript), and — where the rule is a policy of THIS library rather than of Bitcoin — the
library's own documentation: `ValidationParams::allow_dup_if` / `allow_or_i` say "disallowed
pre-segwit because minimality is not enforced", so `d:` and `or_i` are ruled out in the bare and
legacy contexts; `validate_pk` documents that in Tapscript a 33-byte compressed key stands for
its x-only key (so only 65-byte keys are ruled out there); depth ≤ 402 is the library's
documented recursion limit.

The whole-fragment types come from the specification tables of `Spec/MsSpecTypes.lean`.
-/
import MsVerif.Model.Ast
import MsVerif.Spec.MsSpecTypes
import MsVerif.Spec.SatTable

namespace MsVerif.Spec
open MsVerif

/-- facts about the atoms and about the real script, supplied from outside the validator -/
structure Facts where
  /-- the key serialises to 65 bytes -/
  uncompressed : Key → Bool
  /-- the key is a 32-byte x-only key -/
  xonly : Key → Bool
  /-- number of derivation paths of a BIP 389 multipath key (0 or 1 for ordinary keys) -/
  nPaths : Key → Nat
  /-- byte length of the script the fragment compiles to in the context considered -/
  scriptLen : Ms → Nat

/-! ## Whole-fragment types from the specification tables -/

mutual
def specTy (tap : Bool) : Ms → Option STy
  | .tru => some ⟨C.one, M.one⟩
  | .fls => some ⟨C.zero, M.zero⟩
  | .pkK _ => some ⟨C.pkK, M.pkK⟩
  | .pkH _ | .rawPkH _ => some ⟨C.pkH, M.pkH⟩
  | .after _ | .older _ => some ⟨C.time, M.time⟩
  | .hash _ _ => some ⟨C.hash, M.hash⟩
  | .multi _ _ | .sortedMulti _ _ => some ⟨C.multi, M.multi⟩
  | .multiA _ _ | .sortedMultiA _ _ => some ⟨C.multiA, M.multiA⟩
  | .alt x => (specTy tap x).bind fun t => (C.wrapA t.c).map fun c => ⟨c, M.wrapA t.m⟩
  | .swap x => (specTy tap x).bind fun t => (C.wrapS t.c).map fun c => ⟨c, M.wrapS t.m⟩
  | .check x => (specTy tap x).bind fun t => (C.wrapC t.c).map fun c => ⟨c, M.wrapC t.m⟩
  | .dupIf x => (specTy tap x).bind fun t => (C.wrapD tap t.c).map fun c => ⟨c, M.wrapD t.m⟩
  | .verify x => (specTy tap x).bind fun t => (C.wrapV t.c).map fun c => ⟨c, M.wrapV t.m⟩
  | .nonZero x => (specTy tap x).bind fun t => (C.wrapJ t.c).map fun c => ⟨c, M.wrapJ t.m⟩
  | .zeroNotEqual x => (specTy tap x).bind fun t => (C.wrapN t.c).map fun c => ⟨c, M.wrapN t.m⟩
  | .andV l r =>
    match specTy tap l, specTy tap r with
    | some a, some b => (C.andV a.c b.c).map fun c => ⟨c, M.andV a.m b.m⟩
    | _, _ => none
  | .andB l r =>
    match specTy tap l, specTy tap r with
    | some a, some b => (C.andB a.c b.c).map fun c => ⟨c, M.andB a.m b.m⟩
    | _, _ => none
  | .orB l r =>
    match specTy tap l, specTy tap r with
    | some a, some b => (C.orB a.c b.c).map fun c => ⟨c, M.orB a.m b.m⟩
    | _, _ => none
  | .orC l r =>
    match specTy tap l, specTy tap r with
    | some a, some b => (C.orC a.c b.c).map fun c => ⟨c, M.orC a.m b.m⟩
    | _, _ => none
  | .orD l r =>
    match specTy tap l, specTy tap r with
    | some a, some b => (C.orD a.c b.c).map fun c => ⟨c, M.orD a.m b.m⟩
    | _, _ => none
  | .orI l r =>
    match specTy tap l, specTy tap r with
    | some a, some b => (C.orI a.c b.c).map fun c => ⟨c, M.orI a.m b.m⟩
    | _, _ => none
  | .andOr x y z =>
    match specTy tap x, specTy tap y, specTy tap z with
    | some a, some b, some c => (C.andOr a.c b.c c.c).map fun t => ⟨t, M.andOr a.m b.m c.m⟩
    | _, _, _ => none
  | .thresh k xs =>
    (specTys tap xs).bind fun ts =>
      (C.thresh k (ts.map (·.c))).map fun c => ⟨c, M.thresh k (ts.map (·.m))⟩
def specTys (tap : Bool) : MsList → Option (List STy)
  | .nil => some []
  | .cons x xs =>
    match specTy tap x, specTys tap xs with
    | some t, some ts => some (t :: ts)
    | _, _ => none
end

def isTap : Ctx → Bool | .tap => true | _ => false

/-! ## Generic traversals (the specification's own) -/

mutual
/-- every node of the tree satisfies `q` -/
def everyNode (q : Ms → Bool) : Ms → Bool
  | .alt x => q (.alt x) && everyNode q x
  | .swap x => q (.swap x) && everyNode q x
  | .check x => q (.check x) && everyNode q x
  | .dupIf x => q (.dupIf x) && everyNode q x
  | .verify x => q (.verify x) && everyNode q x
  | .nonZero x => q (.nonZero x) && everyNode q x
  | .zeroNotEqual x => q (.zeroNotEqual x) && everyNode q x
  | .andV l r => q (.andV l r) && everyNode q l && everyNode q r
  | .andB l r => q (.andB l r) && everyNode q l && everyNode q r
  | .orB l r => q (.orB l r) && everyNode q l && everyNode q r
  | .orC l r => q (.orC l r) && everyNode q l && everyNode q r
  | .orD l r => q (.orD l r) && everyNode q l && everyNode q r
  | .orI l r => q (.orI l r) && everyNode q l && everyNode q r
  | .andOr a b c => q (.andOr a b c) && everyNode q a && everyNode q b && everyNode q c
  | .thresh k xs => q (.thresh k xs) && everyNodeL q xs
  | m => q m
def everyNodeL (q : Ms → Bool) : MsList → Bool
  | .nil => true
  | .cons x xs => everyNode q x && everyNodeL q xs
end

def someNode (q : Ms → Bool) (ms : Ms) : Bool := !everyNode (fun m => !q m) ms

/-- the public keys a node names (key hashes given only as a hash name no key) -/
def keysAt : Ms → List Key
  | .pkK k | .pkH k => [k]
  | .multi _ ks | .sortedMulti _ ks | .multiA _ ks | .sortedMultiA _ ks => ks
  | _ => []

mutual
/-- all key occurrences, left to right -/
def allKeys : Ms → List Key
  | .alt x | .swap x | .check x | .dupIf x | .verify x | .nonZero x | .zeroNotEqual x => allKeys x
  | .andV l r | .andB l r | .orB l r | .orC l r | .orD l r | .orI l r => allKeys l ++ allKeys r
  | .andOr a b c => allKeys a ++ (allKeys b ++ allKeys c)
  | .thresh _ xs => allKeysL xs
  | m => keysAt m
def allKeysL : MsList → List Key
  | .nil => []
  | .cons x xs => allKeys x ++ allKeysL xs
end

mutual
/-- nesting depth: a leaf has depth 0 -/
def depth : Ms → Nat
  | .alt x | .swap x | .check x | .dupIf x | .verify x | .nonZero x | .zeroNotEqual x => depth x + 1
  | .andV l r | .andB l r | .orB l r | .orC l r | .orD l r | .orI l r => max (depth l) (depth r) + 1
  | .andOr a b c => max (depth a) (max (depth b) (depth c)) + 1
  | .thresh _ xs => depthL xs + 1
  | _ => 0
def depthL : MsList → Nat
  | .nil => 0
  | .cons x xs => max (depth x) (depthL xs)
end

/-! ## The rules of a script context -/

/-- R1: the top-level expression is a complete boolean script (type `B`) -/
def ruleTopB (ctx : Ctx) (ms : Ms) : Bool :=
  match specTy (isTap ctx) ms with
  | some t => t.c.base == .B
  | none => false

/-- key kinds a context can verify signatures for -/
def keyAllowed (F : Facts) : Ctx → Key → Bool
  | .bare, k | .legacy, k => !F.xonly k                        -- ECDSA: 33- or 65-byte keys
  | .segwitv0, k => !F.xonly k && !F.uncompressed k            -- BIP 141/143: compressed only
  | .tap, k => !F.uncompressed k                               -- BIP 342: x-only (see header)

/-- R2: every key named in the script is of a kind the context permits -/
def ruleKeys (F : Facts) (ctx : Ctx) (ms : Ms) : Bool := (allKeys ms).all (keyAllowed F ctx)

/-- R3: CHECKMULTISIG (`multi`) exists before Tapscript only, CHECKSIGADD (`multi_a`) in
Tapscript only -/
def multiAllowed (ctx : Ctx) : Ms → Bool
  | .multi _ _ | .sortedMulti _ _ => !isTap ctx
  | .multiA _ _ | .sortedMultiA _ _ => isTap ctx
  | _ => true
def ruleMulti (ctx : Ctx) (ms : Ms) : Bool := everyNode (multiAllowed ctx) ms

/-- MINIMALIF is enforced (policy in segwit v0, consensus in Tapscript) -/
def minimalIf : Ctx → Bool | .segwitv0 | .tap => true | .bare | .legacy => false

/-- R4: the conditional fragments `d:` and `or_i` only where MINIMALIF is enforced (the
library's documented rule, see header) -/
def condAllowed (ctx : Ctx) : Ms → Bool
  | .dupIf _ | .orI _ _ => minimalIf ctx
  | _ => true
def ruleCond (ctx : Ctx) (ms : Ms) : Bool := everyNode (condAllowed ctx) ms

/-- R5: thresholds `1 ≤ k ≤ n`, `n ≤ 20` for `multi`, `n ≤ 999` for `multi_a`;
R6: `after(n)`: `1 ≤ n < 2³¹`; `older(n)`: `1 ≤ n < 2³¹` (BIP 68 disable flag clear) -/
def rangeOk : Ms → Bool
  | .thresh k xs => decide (1 ≤ k) && decide (k ≤ xs.length)
  | .multi k ks | .sortedMulti k ks => decide (1 ≤ k) && decide (k ≤ ks.length) && decide (ks.length ≤ 20)
  | .multiA k ks | .sortedMultiA k ks =>
    decide (1 ≤ k) && decide (k ≤ ks.length) && decide (ks.length ≤ 999)
  | .after n => decide (1 ≤ n) && decide (n < 2147483648)
  | .older n => decide (1 ≤ n) && decide (n < 2147483648)
  | _ => true
def ruleRange (ms : Ms) : Bool := everyNode rangeOk ms

/-- R7: consensus bound on the script size of the context -/
def maxScriptLen : Ctx → Nat
  | .bare => 10000       -- MAX_SCRIPT_SIZE
  | .legacy => 520       -- P2SH redeem script is a stack element
  | .segwitv0 => 10000   -- MAX_SCRIPT_SIZE (3 600 is the standardness limit)
  | .tap => 4000000      -- no script limit; it has to fit into a block
def ruleSize (F : Facts) (ctx : Ctx) (ms : Ms) : Bool := decide (F.scriptLen ms ≤ maxScriptLen ctx)

/-- R8: nesting depth at most 402 -/
def ruleDepth (ms : Ms) : Bool := decide (depth ms ≤ 402)

/-- rules that apply to every fragment a constructor hands out (not only top-level ones) -/
def ctxFragOK (F : Facts) (ctx : Ctx) (ms : Ms) : Bool :=
  ruleKeys F ctx ms && ruleMulti ctx ms && ruleRange ms && ruleSize F ctx ms && ruleDepth ms

/-- the rules of a script context for a complete script -/
def ctxOK (F : Facts) (ctx : Ctx) (ms : Ms) : Bool :=
  ruleTopB ctx ms && ruleCond ctx ms && ctxFragOK F ctx ms

/-! ## One defect per validation switch -/

/-- `allow_duplicate_keys`: some public key is named twice -/
def nodupB : List Key → Bool
  | [] => true
  | k :: ks => !ks.contains k && nodupB ks
def hasDefect_duplicateKeys (ms : Ms) : Bool := !nodupB (allKeys ms)

/-- `allow_dup_if`, `allow_or_i`, `allow_multi`, `allow_multi_a`, `allow_raw_pkh`: the named
fragment occurs -/
def hasDefect_dupIf (ms : Ms) : Bool := someNode (fun | .dupIf _ => true | _ => false) ms
def hasDefect_orI (ms : Ms) : Bool := someNode (fun | .orI _ _ => true | _ => false) ms
def hasDefect_multi (ms : Ms) : Bool :=
  someNode (fun | .multi _ _ | .sortedMulti _ _ => true | _ => false) ms
def hasDefect_multiA (ms : Ms) : Bool :=
  someNode (fun | .multiA _ _ | .sortedMultiA _ _ => true | _ => false) ms
def hasDefect_rawPkh (ms : Ms) : Bool := someNode (fun | .rawPkH _ => true | _ => false) ms

/-- key-kind switches: a key of that kind occurs -/
def hasUncompressedKey (F : Facts) (ms : Ms) : Bool := (allKeys ms).any F.uncompressed
def hasXOnlyKey (F : Facts) (ms : Ms) : Bool := (allKeys ms).any F.xonly
def hasCompressedKey (F : Facts) (ms : Ms) : Bool :=
  (allKeys ms).any fun k => !F.uncompressed k && !F.xonly k

/-- `allow_malleability`: the specification's `m` property fails;
`allow_sigless_branch`: the `s` property fails; `allow_non_b`: the base type is not `B` -/
def hasDefect_malleable (tap : Bool) (ms : Ms) : Bool :=
  match specTy tap ms with | some t => !t.m.m | none => false
def hasDefect_sigless (tap : Bool) (ms : Ms) : Bool :=
  match specTy tap ms with | some t => !t.m.s | none => false
def hasDefect_nonB (tap : Bool) (ms : Ms) : Bool :=
  match specTy tap ms with | some t => t.c.base != .B | none => false

/-- `allow_inconsistent_multipath_keys`: two multipath keys with different numbers of paths -/
def hasDefect_multipath (F : Facts) (ms : Ms) : Bool :=
  let ls := ((allKeys ms).map F.nPaths).filter (fun n => decide (2 ≤ n))
  match ls with
  | [] => false
  | n :: rest => !rest.all (· == n)

/-- `allow_unsatisfiable`: the script has no satisfaction at all — the specification's table of
canonical satisfactions (Spec/SatTable.lean) finds none even when every signature, preimage,
raw key and lock is available -/
def allAvail : SatTable.Avail := ⟨fun _ => true, fun _ _ => true, fun _ => true, fun _ => true,
  fun _ => true, fun _ => true⟩
def hasDefect_unsatisfiable (ms : Ms) : Bool := !SatTable.satEx allAvail ms

/-- `allow_sigless_branch`, semantically: some canonical satisfaction of the script uses no
signature at all — the table has a satisfaction when NO signature is available (every
preimage, raw key and lock being available) -/
def noSigAvail : SatTable.Avail := ⟨fun _ => false, fun _ _ => true, fun _ => true, fun _ => true,
  fun _ => true, fun _ => false⟩
def hasDefect_siglessSem (ms : Ms) : Bool := SatTable.satEx noSigAvail ms

/-- a taproot output's script tree: BIP 341 allows leaf depths up to 128, every leaf is a
tapscript -/
def tapTreeOK (F : Facts) (depths : List Nat) (leaves : List Ms) : Bool :=
  depths.all (fun d => decide (d ≤ 128)) && leaves.all (ctxOK F .tap)

/-! ### mixed time locks: some way of satisfying the script needs both units of one lock -/

/-- the lock units a satisfaction uses: (older-height, older-time, after-height, after-time) -/
structure Units where
  oh : Bool := false
  ot : Bool := false
  ah : Bool := false
  at_ : Bool := false
  deriving DecidableEq, Repr

def Units.join (a b : Units) : Units := ⟨a.oh || b.oh, a.ot || b.ot, a.ah || b.ah, a.at_ || b.at_⟩
def Units.clash (a : Units) : Bool := (a.oh && a.ot) || (a.ah && a.at_)

/-- all ways of choosing at least... exactly `k` of the children to satisfy -/
def chooseSat : Nat → List (List Units) → List Units
  | 0, _ => [{}]
  | _ + 1, [] => []
  | k + 1, c :: cs =>
    (c.flatMap fun u => (chooseSat k cs).map (Units.join u)) ++ chooseSat (k + 1) cs

mutual
/-- lock units of every syntactic satisfaction (`0` has none; dissatisfactions use no lock) -/
def satUnits : Ms → List Units
  | .fls => []
  | .after n => [if n < 500000000 then { ah := true } else { at_ := true }]
  | .older n => [if (n / 4194304) % 2 = 1 then { ot := true } else { oh := true }]
  | .alt x | .swap x | .check x | .dupIf x | .verify x | .nonZero x | .zeroNotEqual x => satUnits x
  | .andV l r | .andB l r => (satUnits l).flatMap fun a => (satUnits r).map (Units.join a)
  | .orB l r | .orC l r | .orD l r | .orI l r => satUnits l ++ satUnits r
  | .andOr a b c =>
    ((satUnits a).flatMap fun x => (satUnits b).map (Units.join x)) ++ satUnits c
  | .thresh k xs => chooseSat k (satUnitsL xs)
  | _ => [{}]
def satUnitsL : MsList → List (List Units)
  | .nil => []
  | .cons x xs => satUnits x :: satUnitsL xs
end

def hasDefect_mixedTimeLocks (ms : Ms) : Bool := (satUnits ms).any Units.clash

end MsVerif.Spec

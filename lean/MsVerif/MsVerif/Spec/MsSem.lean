/-
The spending condition of a miniscript / descriptor, read directly off the AST — TRUSTED SPEC
for C07, written independently of the Rust lifter (no normalisation, no thresholds-of-atoms
encoding, no stack machine): `and` is "both", `or` is "one of them", `thresh(k, …)` / `multi(k, …)`
is "at least k", a key fragment holds when the spender can sign for the key, a hash fragment when
the preimage is known, `after` / `older` when the spending transaction's nLockTime / the input's
nSequence satisfy CHECKLOCKTIMEVERIFY / CHECKSEQUENCEVERIFY (`Spec/Policy.lean`: `cltvOk`,
`csvOk`).  Wrappers do not change the condition.

Also here: the assets a world offers to the specification's satisfaction table
(`availOfWorld`, glue between `Spec/Policy.lean` and `Spec/SatTable.lean`), and descriptors with
their spending condition.  Imports only specification files and the AST.
-/
import MsVerif.Model.Ast
import MsVerif.Spec.Policy
import MsVerif.Spec.SatTable

namespace MsVerif.MsSem
open MsVerif

/-- the AST's and the policy language's hash kinds are the same four names -/
def polHash : MsVerif.HashKind → Pol.HashKind
  | .sha256 => .sha256 | .hash256 => .hash256 | .ripemd160 => .ripemd160 | .hash160 => .hash160

mutual
/-- the spending condition of a miniscript in world `W` -/
def sem (W : Pol.World) : Ms → Bool
  | .tru => true
  | .fls => false
  | .pkK k | .pkH k => W.canSign k
  /- a bare key HASH names no key of the world: nobody is known to be able to sign for it
  (the lifter refuses such scripts, so this row is never used by a C07 theorem) -/
  | .rawPkH _ => false
  | .after n => Pol.cltvOk W.nLockTime n
  | .older n => Pol.csvOk W.nSequence n
  | .hash kind h => W.preimage (polHash kind) h
  | .alt x | .swap x | .check x | .dupIf x | .verify x | .nonZero x | .zeroNotEqual x => sem W x
  | .andV x y | .andB x y => sem W x && sem W y
  | .andOr x y z => (sem W x && sem W y) || sem W z
  | .orB x z | .orD x z | .orC x z | .orI x z => sem W x || sem W z
  | .thresh k xs => decide (k ≤ semCount W xs)
  | .multi k ks | .sortedMulti k ks | .multiA k ks | .sortedMultiA k ks =>
    decide (k ≤ (ks.filter W.canSign).length)
/-- how many members of the list hold -/
def semCount (W : Pol.World) : MsList → Nat
  | .nil => 0
  | .cons x xs => (if sem W x then 1 else 0) + semCount W xs
end

/-- what a world lets the spender put on the stack: signatures of the keys it can sign for,
the preimages it knows; the lock fragments are satisfied exactly when the transaction's fields
satisfy the consensus rule.  Raw key hashes: nothing (see `sem`). -/
def availOfWorld (W : Pol.World) : SatTable.Avail where
  sig := W.canSign
  preimage kind h := W.preimage (polHash kind) h
  after n := Pol.cltvOk W.nLockTime n
  older n := Pol.csvOk W.nSequence n
  rawKey _ := false
  rawSig _ := false

/-- output descriptors, as far as their spending condition is concerned: taproot trees are the
list of their leaf scripts (the tree shape decides commitments, C15, not who can spend);
`tr k []` has no script tree -/
inductive Desc
  | bare (ms : Ms)
  | pkh (k : Key)
  | wpkh (k : Key)
  | shWpkh (k : Key)
  | wsh (ms : Ms)
  | sh (ms : Ms)
  | shWsh (ms : Ms)
  | tr (k : Key) (leaves : List Ms)
  deriving Repr

/-- the spending condition of a descriptor: single-key outputs need that key's signature,
script outputs the script's condition, taproot the internal key OR any leaf script -/
def semDesc (W : Pol.World) : Desc → Bool
  | .pkh k | .wpkh k | .shWpkh k => W.canSign k
  | .bare ms | .wsh ms | .sh ms | .shWsh ms => sem W ms
  | .tr k leaves => W.canSign k || leaves.any (sem W)

/-! ## What the lifter documents about its refusals (judged by `J liftrefusal`)

`lift` refuses (a) scripts that mention a raw key hash ("Cannot lift raw descriptors") and
(b) scripts with a spending path that needs a height-based and a time-based lock of the same
kind ("a combination of timelocks").  A *spending path* chooses one branch at every `or`, both at
every `and`, exactly `k` children at a `thresh`; its *lock signature* says which of the four lock
kinds occur on it (`LockSig`); sets of signatures are duplicate-free lists of at most 16
entries, so wide thresholds stay polynomial. -/

mutual
/-- the script mentions a bare key hash -/
def mentionsRaw : Ms → Bool
  | .rawPkH _ => true
  | .alt x | .swap x | .check x | .dupIf x | .verify x | .nonZero x | .zeroNotEqual x => mentionsRaw x
  | .andV l r | .andB l r | .orB l r | .orD l r | .orC l r | .orI l r => mentionsRaw l || mentionsRaw r
  | .andOr a b c => mentionsRaw a || mentionsRaw b || mentionsRaw c
  | .thresh _ xs => mentionsRawL xs
  | _ => false
def mentionsRawL : MsList → Bool
  | .nil => false
  | .cons x xs => mentionsRaw x || mentionsRawL xs
end

/-- which of the four lock kinds occur on a spending path -/
structure LockSig where
  olderHeight : Bool := false
  olderTime : Bool := false
  afterHeight : Bool := false
  afterTime : Bool := false
  deriving DecidableEq, Repr

/-- the locks of two pieces of one path -/
def LockSig.or (a b : LockSig) : LockSig :=
  ⟨a.olderHeight || b.olderHeight, a.olderTime || b.olderTime,
   a.afterHeight || b.afterHeight, a.afterTime || b.afterTime⟩

/-- a path with this signature can never be used: it needs both units of one lock kind -/
def LockSig.mixed (m : LockSig) : Bool :=
  (m.olderHeight && m.olderTime) || (m.afterHeight && m.afterTime)

/-- the 16 signatures -/
def LockSig.all : List LockSig :=
  [false, true].flatMap fun a => [false, true].flatMap fun b => [false, true].flatMap fun c =>
    [false, true].map fun d => ⟨a, b, c, d⟩

/-- a set of signatures as a duplicate-free list (at most 16 entries) -/
def normSigs (l : List LockSig) : List LockSig := LockSig.all.filter (fun x => l.contains x)

/-- signatures of paths that use a path of the first AND a path of the second -/
def crossSigs (a b : List LockSig) : List LockSig :=
  normSigs (a.flatMap fun x => b.map fun y => x.or y)

def unionSigs (a b : List LockSig) : List LockSig := normSigs (a ++ b)

/-- one more child `s` for the table "signatures reachable by choosing exactly j of the children
seen so far", `j = 0 … k` (`prev` = the entry for `j - 1` before this child) -/
def chooseStep (s : List LockSig) : List LockSig → List (List LockSig) → List (List LockSig)
  | _, [] => []
  | prev, cur :: rest => unionSigs cur (crossSigs prev s) :: chooseStep s cur rest

/-- process one child: entry 0 stays, entry j+1 gains "entry j and this child" -/
def chooseChild (s : List LockSig) : List (List LockSig) → List (List LockSig)
  | [] => []
  | t0 :: rest => t0 :: chooseStep s t0 rest

mutual
/-- lock signatures of the spending paths.  `viaUnsat = true`: purely structural paths (a `0`
can be "chosen"); `false`: only paths that some assets can satisfy. -/
def lockSigs (viaUnsat : Bool) : Ms → List LockSig
  | .tru => [{}]
  | .fls => if viaUnsat then [{}] else []
  | .pkK _ | .pkH _ | .rawPkH _ | .hash _ _ => [{}]
  | .after n => [if Pol.absIsHeight n then { afterHeight := true } else { afterTime := true }]
  | .older n => [if Pol.relIsTime n then { olderTime := true } else { olderHeight := true }]
  | .alt x | .swap x | .check x | .dupIf x | .verify x | .nonZero x | .zeroNotEqual x =>
    lockSigs viaUnsat x
  | .andV x y | .andB x y => crossSigs (lockSigs viaUnsat x) (lockSigs viaUnsat y)
  | .andOr x y z =>
    unionSigs (crossSigs (lockSigs viaUnsat x) (lockSigs viaUnsat y)) (lockSigs viaUnsat z)
  | .orB x z | .orD x z | .orC x z | .orI x z => unionSigs (lockSigs viaUnsat x) (lockSigs viaUnsat z)
  | .thresh k xs =>
    -- table for j = 0 … k, start: choosing 0 of no children; answer: the entry for j = k
    ((chooseSigs viaUnsat xs ([{}] :: List.replicate k [])).getLast?).getD []
  | .multi k ks | .sortedMulti k ks | .multiA k ks | .sortedMultiA k ks =>
    if k ≤ ks.length then [{}] else []
def chooseSigs (viaUnsat : Bool) : MsList → List (List LockSig) → List (List LockSig)
  | .nil, table => table
  | .cons x xs, table => chooseSigs viaUnsat xs (chooseChild (lockSigs viaUnsat x) table)
end

/-- some spending path mixes height and time -/
def hasMixedPath (viaUnsat : Bool) (ms : Ms) : Bool := (lockSigs viaUnsat ms).any LockSig.mixed

end MsVerif.MsSem

/-
Bitcoin address STRINGS per network — TRUSTED SPEC (C16).

* legacy: Base58Check of `version ‖ hash160` with version 0x00 (P2PKH) / 0x05 (P2SH) on mainnet
  and 0x6f / 0xc4 on every test network (testnet3, testnet4, signet, regtest share them);
* segwit (BIP173 / BIP350): `hrp 1 data checksum` with hrp `bc` (mainnet), `tb` (testnet3,
  testnet4, signet), `bcrt` (regtest); witness version 0 uses the Bech32 constant, versions
  1..16 the Bech32m constant.  The ENCODER is Spec/Bech32m.lean (checked against the BIP vectors
  there); this file adds the DECODER (checksum verification, 5→8 bit regrouping with the BIP173
  padding rules) so that address strings produced by the library can be judged in both directions.
-/
import MsVerif.Spec.Base58
import MsVerif.Spec.Bech32m
import MsVerif.Spec.Outputs

namespace MsVerif.Address

inductive Net | bitcoin | testnet | testnet4 | signet | regtest
  deriving DecidableEq, Repr

/-- what a legacy address reveals about the network -/
inductive NetClass | main | test
  deriving DecidableEq, Repr

def Net.cls : Net → NetClass
  | .bitcoin => .main
  | _ => .test

def p2pkhVersion : NetClass → UInt8 | .main => 0x00 | .test => 0x6f
def p2shVersion : NetClass → UInt8 | .main => 0x05 | .test => 0xc4

def Net.hrp : Net → String
  | .bitcoin => "bc"
  | .testnet | .testnet4 | .signet => "tb"
  | .regtest => "bcrt"

inductive LegacyKind | p2pkh | p2sh
  deriving DecidableEq, Repr

def p2pkhString (net : Net) (hash160 : List UInt8) : String :=
  Base58.encodeCheckStr (p2pkhVersion net.cls :: hash160)

def p2shString (net : Net) (hash160 : List UInt8) : String :=
  Base58.encodeCheckStr (p2shVersion net.cls :: hash160)

def segwitString (net : Net) (witver : Nat) (program : List UInt8) : String :=
  Bech32m.segwitAddress net.hrp witver program

/-- decode a legacy address: network class, kind, 20-byte hash -/
def decodeLegacy (s : String) : Option (NetClass × LegacyKind × List UInt8) :=
  match Base58.decodeCheckStr s with
  | some (v :: h) =>
    if h.length ≠ 20 then none
    else if v = 0x00 then some (.main, .p2pkh, h)
    else if v = 0x05 then some (.main, .p2sh, h)
    else if v = 0x6f then some (.test, .p2pkh, h)
    else if v = 0xc4 then some (.test, .p2sh, h)
    else none
  | _ => none

/-! ### Bech32 / Bech32m decoding -/

/-- 5-bit groups → bytes (BIP173 `convertbits(data, 5, 8, pad = false)`): `none` if more than 4
padding bits remain or a padding bit is set -/
def convertBits5to8 (data : List Nat) : Option (List UInt8) :=
  let bits := data.flatMap (fun v => (List.range 5).map (fun i => (v >>> (4 - i)) &&& 1))
  let nbytes := bits.length / 8
  let pad := bits.drop (nbytes * 8)
  if pad.length > 4 || pad.any (· != 0) then none
  else some ((List.range nbytes).map fun j =>
    UInt8.ofNat (((bits.drop (j * 8)).take 8).foldl (fun a b => a * 2 + b) 0))

/-- position of the last `'1'` -/
def lastSep (cs : List Char) : Option Nat :=
  let r := cs.reverse
  if r.contains '1' then some (cs.length - 1 - r.idxOf '1') else none

/-- decode a segwit address: hrp, witness version, program.  Checks: lower case, separator,
characters of the charset, checksum (Bech32 for version 0, Bech32m otherwise), version ≤ 16,
program length 2..40 (20 or 32 for version 0), padding. -/
def decodeSegwit (s : String) : Option (String × Nat × List UInt8) :=
  let cs := s.toList
  if cs.any Char.isUpper then none else
  match lastSep cs with
  | none => none
  | some p =>
    let hrp := String.ofList (cs.take p)
    let dataChars := cs.drop (p + 1)
    if p = 0 || dataChars.length < 7 then none else
    match dataChars.mapM (fun c => let i := Bech32m.charset.idxOf c; if i < 32 then some i else none) with
    | none => none
    | some values =>
      match values with
      | [] => none
      | witver :: _ =>
        let const := if witver == 0 then Bech32m.bech32Const else Bech32m.bech32mConst
        if Bech32m.polymod (Bech32m.hrpExpand hrp ++ values) != const then none
        else if witver > 16 then none
        else
          match convertBits5to8 ((values.take (values.length - 6)).drop 1) with
          | none => none
          | some prog =>
            if prog.length < 2 || prog.length > 40 then none
            else if witver == 0 && prog.length != 20 && prog.length != 32 then none
            else some (hrp, witver, prog)

/-! ### the address of a standard output -/

open MsVerif.Outputs in
/-- the address string of an output on a network: P2PKH / P2SH (also the nested segwit forms) are
legacy Base58Check addresses of the key / redeem-script hash, P2WPKH / P2WSH are Bech32 version-0
programs, P2TR is the Bech32m version-1 program; a bare script has no address -/
def addressOfOutput (H : Outputs.Hashes) (net : Net) : Outputs.Output → Option String
  | .bare _ => none
  | .pkh pk => some (p2pkhString net (H.hash160 pk))
  | .wpkh pk => some (segwitString net 0 (H.hash160 pk))
  | .sh rs => some (p2shString net (H.hash160 rs))
  | .wsh ws => some (segwitString net 0 (H.sha256 ws))
  | .shWpkh pk => some (p2shString net (H.hash160 (p2wpkh (H.hash160 pk))))
  | .shWsh ws => some (p2shString net (H.hash160 (p2wsh (H.sha256 ws))))
  | .tr k => some (segwitString net 1 k)

end MsVerif.Address

/-! self-checks: the encoder's BIP vectors decode back; BIP173/BIP350 invalid vectors are
rejected; addresses produced by rust-bitcoin on every network decode to their programs -/
open MsVerif MsVerif.Address in
#guard decodeSegwit "bc1qw508d6qejxtdg4y5r3zarvary0c5xw7kv8f3t4"
    == (Hash.ofHex "751e76e8199196d454941c45d1b3a323f1433bd6").map (fun p => ("bc", 0, p))
  && decodeSegwit "bc1p0xlxvlhemja6c4dqv22uapctqupfhlxm9h8z3k2e72q4k9hcz7vqzk5jj0"
    == (Hash.ofHex "79be667ef9dcbbac55a06295ce870b07029bfcdb2dce28d959f2815b16f81798").map (fun p => ("bc", 1, p))
  -- BIP350: version 0 with a Bech32m checksum, version 1 with a Bech32 checksum
  && decodeSegwit "bc1qw508d6qejxtdg4y5r3zarvary0c5xw7kemeawh" == none
  && decodeSegwit "bc1p38j9r5y49hruaue7wxjce0updqjuyyx0kh56v8s25huc6995vvpql3jow4" == none
  -- corrupted character / mixed case
  && decodeSegwit "bc1qw508d6qejxtdg4y5r3zarvary0c5xw7kv8f3t5" == none
  && decodeSegwit "bc1qW508d6qejxtdg4y5r3zarvary0c5xw7kv8f3t4" == none
open MsVerif MsVerif.Address in
#guard (do
    let h20 ← Hash.ofHex "01080f161d242b323940474e555c636a71787f86"
    let h32 ← Hash.ofHex "03080d12171c21262b30353a3f44494e53585d62676c71767b80858a8f94999e"
    pure (
      [Net.bitcoin, .testnet, .testnet4, .signet, .regtest].map (fun n =>
        [p2pkhString n h20, p2shString n h20, segwitString n 0 h20, segwitString n 0 h32, segwitString n 1 h32])
      == [["16TL8u8PYASgF3qeQ86WL1rgV3tNgFVas", "31nUFgPZwSUpmQkGmVngvxNnq1LbyEpz1d",
           "bc1qqyyq79says4nyw2qga892hrrdfchsluxw64f9c",
           "bc1qqvyq6yshrssjv2esx5ar73zffef4shtzvak8zanmszzc4ru5nx0q2queqv",
           "bc1pqvyq6yshrssjv2esx5ar73zffef4shtzvak8zanmszzc4ru5nx0qqhuscs"],
          ["mfcQdBz7CZbhTMXTMy6ULFEBYUebHnuhrz", "2MsLgKRKbYtzAyCNpSdQZYuN43MYmio9xv7",
           "tb1qqyyq79says4nyw2qga892hrrdfchsluxyuw67t",
           "tb1qqvyq6yshrssjv2esx5ar73zffef4shtzvak8zanmszzc4ru5nx0qag2k6r",
           "tb1pqvyq6yshrssjv2esx5ar73zffef4shtzvak8zanmszzc4ru5nx0qhl2lzl"],
          ["mfcQdBz7CZbhTMXTMy6ULFEBYUebHnuhrz", "2MsLgKRKbYtzAyCNpSdQZYuN43MYmio9xv7",
           "tb1qqyyq79says4nyw2qga892hrrdfchsluxyuw67t",
           "tb1qqvyq6yshrssjv2esx5ar73zffef4shtzvak8zanmszzc4ru5nx0qag2k6r",
           "tb1pqvyq6yshrssjv2esx5ar73zffef4shtzvak8zanmszzc4ru5nx0qhl2lzl"],
          ["mfcQdBz7CZbhTMXTMy6ULFEBYUebHnuhrz", "2MsLgKRKbYtzAyCNpSdQZYuN43MYmio9xv7",
           "tb1qqyyq79says4nyw2qga892hrrdfchsluxyuw67t",
           "tb1qqvyq6yshrssjv2esx5ar73zffef4shtzvak8zanmszzc4ru5nx0qag2k6r",
           "tb1pqvyq6yshrssjv2esx5ar73zffef4shtzvak8zanmszzc4ru5nx0qhl2lzl"],
          ["mfcQdBz7CZbhTMXTMy6ULFEBYUebHnuhrz", "2MsLgKRKbYtzAyCNpSdQZYuN43MYmio9xv7",
           "bcrt1qqyyq79says4nyw2qga892hrrdfchsluxx4hhfz",
           "bcrt1qqvyq6yshrssjv2esx5ar73zffef4shtzvak8zanmszzc4ru5nx0qs3qs0e",
           "bcrt1pqvyq6yshrssjv2esx5ar73zffef4shtzvak8zanmszzc4ru5nx0q6xqeh9"]]
      && [Net.bitcoin, .testnet, .regtest].all (fun n =>
        decodeSegwit (segwitString n 0 h20) == some (n.hrp, 0, h20)
        && decodeSegwit (segwitString n 0 h32) == some (n.hrp, 0, h32)
        && decodeSegwit (segwitString n 1 h32) == some (n.hrp, 1, h32)
        && decodeLegacy (p2pkhString n h20) == some (n.cls, .p2pkh, h20)
        && decodeLegacy (p2shString n h20) == some (n.cls, .p2sh, h20)))) == some true

/-
BIP341 script trees and Merkle commitments, written independently of the Rust code.  TRUSTED.

BIP341 ("Constructing and spending Taproot outputs"):
  * a script tree is a binary tree whose leaves carry (leaf version, script);
  * `taproot_tree_helper`:  a leaf hashes to `TapLeaf(version ‖ compact_size(script) ‖ script)`,
    an inner node to `TapBranch(sort(left, right))`  – the two child hashes are SORTED before
    hashing, i.e. the branch hash is a commutative function of the two child hashes;
  * the control block of a leaf at depth `m` carries the `m` hashes of the siblings met on the
    way from the leaf up to the root (deepest sibling first);
  * script-path validation: `k₀ = leafhash`, `k_{j+1} = TapBranch(sort(k_j, e_j))`, and the
    output key must be the internal key tweaked with `k_m`; `m ≤ 128`.

The hash functions are abstract: a `HashAlg` is any pair (`leafHash`, `branch`); commutativity
of `branch` is a *hypothesis* (`HashAlg.Comm`) of the statements that need it, never an axiom.
No imports: linked into the driver.
-/
namespace MsVerif.Spec

/-- a script tree; `α` is whatever identifies a leaf (its script) -/
inductive Tree (α : Type) where
  | leaf (s : α)
  | node (l r : Tree α)
  deriving Repr, DecidableEq, Inhabited

/-- tokens of the descriptor text of a tree (BIP386 `tr(KEY,TREE)`: `TREE = SCRIPT | {TREE,TREE}`) -/
inductive Tok (α : Type) where
  | lbrace | rbrace | comma
  | script (s : α)
  deriving Repr, DecidableEq

/-- the two hash functions of BIP341, abstract -/
structure HashAlg (α ν : Type) where
  leafHash : α → ν
  branch : ν → ν → ν

/-- BIP341 sorts the two children before hashing -/
def HashAlg.Comm {α ν : Type} (H : HashAlg α ν) : Prop := ∀ a b, H.branch a b = H.branch b a

/-- BIP341 limit on the length of a control block's path -/
def maxDepth : Nat := 128

namespace Tree
variable {α ν : Type}

/-- the Merkle root (`taproot_tree_helper`) -/
def root (H : HashAlg α ν) : Tree α → ν
  | leaf s => H.leafHash s
  | node l r => H.branch (root H l) (root H r)

/-- height: length of the longest root-to-leaf path (a single leaf has height 0) -/
def height : Tree α → Nat
  | leaf _ => 0
  | node l r => max (height l) (height r) + 1

/-- leaves with their depths, in pre-order (left to right), the subtree's root being at depth `d` -/
def depthsFrom (d : Nat) : Tree α → List (Nat × α)
  | leaf s => [(d, s)]
  | node l r => depthsFrom (d + 1) l ++ depthsFrom (d + 1) r

/-- leaves with their depths, pre-order -/
def depths (t : Tree α) : List (Nat × α) := depthsFrom 0 t

/-- the leaves, left to right -/
def leaves : Tree α → List α
  | leaf s => [s]
  | node l r => leaves l ++ leaves r

/-- for every leaf (left to right): its script and the hashes of the siblings on the way from
the leaf up to the root, deepest first — the `merkle path` of the leaf's control block -/
def siblingPaths (H : HashAlg α ν) : Tree α → List (α × List ν)
  | leaf s => [(s, [])]
  | node l r =>
    (siblingPaths H l).map (fun p => (p.1, p.2 ++ [root H r])) ++
    (siblingPaths H r).map (fun p => (p.1, p.2 ++ [root H l]))

/-- the descriptor text of a tree -/
def tokens : Tree α → List (Tok α)
  | leaf s => [.script s]
  | node l r => [.lbrace] ++ tokens l ++ [.comma] ++ tokens r ++ [.rbrace]

/-- the sibling path of the `i`-th leaf -/
def siblingPath (H : HashAlg α ν) (t : Tree α) (i : Nat) : Option (α × List ν) :=
  (siblingPaths H t)[i]?

end Tree

/-- BIP341 script-path validation: fold the path into the leaf hash (`k_{j+1} = branch k_j e_j`);
the sorting is inside `branch` -/
def verifyPath {α ν : Type} (H : HashAlg α ν) (leafNode : ν) (path : List ν) : ν :=
  path.foldl H.branch leafNode

/-- a control block is acceptable for `root` iff it is short enough and folds to the root -/
def pathOk {α ν : Type} [DecidableEq ν] (H : HashAlg α ν) (rt : ν) (s : α) (path : List ν) : Bool :=
  decide (path.length ≤ maxDepth) && decide (verifyPath H (H.leafHash s) path = rt)

/-! ### The free term algebra (used by the executable driver and in non-vacuity examples)

Every hash algebra is an image of this one, so an equation between *terms* over leaf ids holds
for SHA-256 tagged hashes in particular.  The harness evaluates terms with rust-bitcoin. -/

inductive NodeT where
  | leaf (id : Nat)
  | branch (a b : NodeT)
  deriving Repr, DecidableEq, Inhabited

def termAlg : HashAlg Nat NodeT := ⟨NodeT.leaf, NodeT.branch⟩

end MsVerif.Spec

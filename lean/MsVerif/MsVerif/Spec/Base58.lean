/-
Base58 and Base58Check (the encoding of legacy Bitcoin addresses) — TRUSTED SPEC (C16).

Base58: the byte string is read as a big-endian number and written in base 58 with the alphabet
below (no 0, O, I, l); every leading zero BYTE is written as one leading '1'.  Base58Check:
`payload ‖ first 4 bytes of SHA256(SHA256(payload))`, then Base58.  Characters are `List Char`
(the wrappers at the end convert to `String`).  Imports only the SHA-256 spec.
-/
import MsVerif.Spec.Hash

namespace MsVerif.Base58

def alphabet : List Char := "123456789ABCDEFGHJKLMNPQRSTUVWXYZabcdefghijkmnopqrstuvwxyz".toList

/-- little-endian digits of `n` in base `b` (`fuel ≥ n` always suffices) -/
def digitsLE (b : Nat) : Nat → Nat → List Nat
  | 0, _ => []
  | fuel + 1, n => if n = 0 then [] else n % b :: digitsLE b fuel (n / b)

/-- value of a little-endian digit list -/
def ofDigitsLE (b : Nat) : List Nat → Nat
  | [] => 0
  | d :: ds => d + b * ofDigitsLE b ds

/-- number of leading elements equal to `z` -/
def leading {α : Type} [BEq α] (z : α) (l : List α) : Nat := (l.takeWhile (· == z)).length

/-- the big-endian number a byte string denotes -/
def natOfBytes (bs : List UInt8) : Nat := ofDigitsLE 256 (bs.reverse.map UInt8.toNat)

/-- minimal big-endian byte string of a number (empty for 0) -/
def bytesOfNat (n : Nat) : List UInt8 := ((digitsLE 256 n n).reverse).map UInt8.ofNat

def charOfDigit (d : Nat) : Char := alphabet.getD d '?'
def digitOfChar (c : Char) : Option Nat :=
  let i := alphabet.idxOf c
  if i < 58 then some i else none

def encode (bs : List UInt8) : List Char :=
  let z := leading 0 bs
  let n := natOfBytes (bs.drop z)
  List.replicate z '1' ++ ((digitsLE 58 n n).reverse).map charOfDigit

/-- `none` on a character outside the alphabet -/
def decode (cs : List Char) : Option (List UInt8) :=
  let z := leading '1' cs
  ((cs.drop z).mapM digitOfChar).map fun ds =>
    List.replicate z 0 ++ bytesOfNat (ofDigitsLE 58 ds.reverse)

/-- the 4-byte checksum -/
def checksum (payload : List UInt8) : List UInt8 := (Hash.hash256 payload).take 4

def encodeCheck (payload : List UInt8) : List Char := encode (payload ++ checksum payload)

/-- `none` on a bad character, fewer than 4 bytes, or a wrong checksum -/
def decodeCheck (cs : List Char) : Option (List UInt8) :=
  (decode cs).bind fun bs =>
    if bs.length < 4 then none
    else
      let payload := bs.take (bs.length - 4)
      if checksum payload = bs.drop (bs.length - 4) then some payload else none

def encodeCheckStr (payload : List UInt8) : String := String.ofList (encodeCheck payload)
def decodeCheckStr (s : String) : Option (List UInt8) := decodeCheck s.toList

end MsVerif.Base58

/-! self-checks: Bitcoin Core's `base58_encode_decode.json` vectors and addresses produced by
rust-bitcoin for hash `01 08 0f … 86` -/
open MsVerif MsVerif.Base58 in
#guard String.ofList (encode []) == "" && String.ofList (encode [0x61]) == "2g"
  && String.ofList (encode [0x62, 0x62, 0x62]) == "a3gV"
  && String.ofList (encode [0, 0, 0, 0x28, 0x7f, 0xb4, 0xcd]) == "111233QC4"
  && String.ofList (encode (List.replicate 10 0)) == "1111111111"
  && (Hash.ofHex "00eb15231dfceb60925886b67d065299925915aeb172c06647").map (fun b => String.ofList (encode b))
      == some "1NS17iag9jJgTHD1VXjvLCEnZuQ3rJDE9L"
  && (Hash.ofHex "73696d706c792061206c6f6e6720737472696e67").map (fun b => String.ofList (encode b))
      == some "2cFupjhnEsSn59qHXstmK2ffpLv2"
open MsVerif MsVerif.Base58 in
#guard (Hash.ofHex "01080f161d242b323940474e555c636a71787f86").map (fun h =>
    [encodeCheckStr (0x00 :: h), encodeCheckStr (0x05 :: h), encodeCheckStr (0x6f :: h), encodeCheckStr (0xc4 :: h)])
  == some ["16TL8u8PYASgF3qeQ86WL1rgV3tNgFVas", "31nUFgPZwSUpmQkGmVngvxNnq1LbyEpz1d",
           "mfcQdBz7CZbhTMXTMy6ULFEBYUebHnuhrz", "2MsLgKRKbYtzAyCNpSdQZYuN43MYmio9xv7"]
open MsVerif MsVerif.Base58 in
#guard encodeCheckStr (List.replicate 21 0) == "1111111111111111111114oLvT2"
  && decodeCheckStr "1111111111111111111114oLvT2" == some (List.replicate 21 0)
  && decodeCheckStr "16TL8u8PYASgF3qeQ86WL1rgV3tNgFVas" == Hash.ofHex "0001080f161d242b323940474e555c636a71787f86"
  && decodeCheckStr "16TL8u8PYASgF3qeQ86WL1rgV3tNgFVat" == none      -- corrupted checksum
  && decodeCheckStr "16TL8u8PYASgF3qeQ86WL1rgV3tNgFV0s" == none      -- '0' is not in the alphabet

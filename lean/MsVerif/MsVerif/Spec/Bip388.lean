/-
Spec/Bip388.lean — BIP-388 wallet policies at the level of TEXT (trusted, independent of the Rust).

A descriptor template is a descriptor in which every key expression `[origin]xpub/<M;N>/*` is
replaced by a key placeholder `@i/<M;N>/*` (short form `@i/**` for `<0;1>`), where `i` is the index
of the key `[origin]xpub` in the vector of key information items.  Rules (BIP-388 "Additional rules"):

* the key information items are pairwise distinct;
* `M`, `N` are unhardened, `M < N`... (the BIP requires `M ≠ N`; the reference implementations and
  the library require `M < N`, which is what is specified here); the derivation ends in `/*`;
* the placeholders appear in order: the first occurrence of `@i` comes before the first occurrence
  of `@j` for `i < j`, starting with `@0` (repeated placeholders are allowed);
* all key expressions with the same placeholder have pairwise disjoint `M`/`N` values.

Strings are `List Char`; a descriptor / template is split into tokens at `( ) { } ,`.  No imports.
-/
namespace MsVerif.Spec.Bip388

def isDelim (c : Char) : Bool := c == '(' || c == ')' || c == '{' || c == '}' || c == ','

/-- maximal runs of non-delimiters and single delimiters, in order (`concat` gives the input) -/
def tokens : List Char → List (List Char)
  | [] => []
  | c :: cs =>
    if isDelim c then [c] :: tokens cs
    else
      match tokens cs with
      | [] => [[c]]
      | t :: ts =>
        match t with
        | d :: _ => if isDelim d then [c] :: t :: ts else (c :: t) :: ts
        | [] => [c] :: ts

def isDigit (c : Char) : Bool := '0' ≤ c && c ≤ '9'

/-- canonical decimal: `0` or no leading zero -/
def decimal? (s : List Char) : Option Nat :=
  if s.isEmpty || !s.all isDigit then none
  else if s.length > 1 && s.head? == some '0' then none
  else some (s.foldl (fun a c => a * 10 + (c.toNat - 48)) 0)

def showDec (n : Nat) : List Char := (toString n).toList

/-- split at the first occurrence of `c` -/
def splitOnce (c : Char) : List Char → Option (List Char × List Char)
  | [] => none
  | x :: xs =>
    if x == c then some ([], xs)
    else match splitOnce c xs with
      | some (a, b) => some (x :: a, b)
      | none => none

/-- position of the first occurrence of the 4-character marker `?pub` (`xpub`, `tpub`) -/
def findPub : List Char → Option Nat
  | a :: b :: c :: d :: rest =>
    if (a == 'x' || a == 't') && b == 'p' && c == 'u' && d == 'b' then some 0
    else (findPub (b :: c :: d :: rest)).map (· + 1)
  | _ => none

/-- derivation suffix `/<M;N>/*` with unhardened canonical `M < N ≤ 2^31-1` -/
def parseSuffix (s : List Char) : Option (Nat × Nat) :=
  match s with
  | '/' :: '<' :: rest =>
    match splitOnce ';' rest with
    | none => none
    | some (m, rest) =>
      match splitOnce '>' rest with
      | none => none
      | some (n, tail) =>
        if tail != ['/', '*'] then none else
        match decimal? m, decimal? n with
        | some a, some b => if a < b && b ≤ 2147483647 then some (a, b) else none
        | _, _ => none
  | _ => none

/-- a key expression of a descriptor: key information item and derivation pair -/
def parseDescKey (tok : List Char) : Option (List Char × Nat × Nat) :=
  match findPub tok with
  | none => none
  | some p =>
    -- the key information item ends at the first `/` after the start of the extended key
    let head := tok.take p
    let tail := tok.drop p
    match splitOnce '/' tail with
    | none => none
    | some (xk, suf) =>
      match parseSuffix ('/' :: suf) with
      | none => none
      | some (a, b) => some (head ++ xk, a, b)

def isKeyToken (tok : List Char) : Bool := (findPub tok).isSome

def suffixText (a b : Nat) : List Char :=
  if a == 0 && b == 1 then "/**".toList
  else "/<".toList ++ showDec a ++ [';'] ++ showDec b ++ ">/*".toList

def indexOf (k : List Char) : List (List Char) → Option Nat
  | [] => none
  | x :: xs => if x == k then some 0 else (indexOf k xs).map (· + 1)

/-- pairs used so far per key index must stay disjoint -/
def disjointFrom (used : List (Nat × Nat × Nat)) (i a b : Nat) : Bool :=
  used.all fun (j, c, d) => j != i || (a != c && a != d && b != c && b != d)

/-- template and key vector of a descriptor (without checksum); `none`: the descriptor has no
BIP-388 template (a key expression is not `KEY/<M;N>/*`, or a key repeats with overlapping pairs) -/
def templateOf (desc : List Char) : Option (List Char × List (List Char)) :=
  let rec go (toks : List (List Char)) (keys : List (List Char)) (used : List (Nat × Nat × Nat))
      (acc : List Char) : Option (List Char × List (List Char)) :=
    match toks with
    | [] => some (acc, keys)
    | t :: ts =>
      if isKeyToken t then
        match parseDescKey t with
        | none => none
        | some (k, a, b) =>
          let (i, keys') := match indexOf k keys with
            | some i => (i, keys)
            | none => (keys.length, keys ++ [k])
          if !disjointFrom used i a b then none
          else go ts keys' ((i, a, b) :: used) (acc ++ '@' :: showDec i ++ suffixText a b)
      else go ts keys used (acc ++ t)
  go (tokens desc) [] [] []

/-- a key placeholder token `@i/**` or `@i/<M;N>/*` -/
def parsePlaceholder (tok : List Char) : Option (Nat × Nat × Nat) :=
  match tok with
  | '@' :: rest =>
    match splitOnce '/' rest with
    | none => none
    | some (idx, suf) =>
      match decimal? idx with
      | none => none
      | some i =>
        if suf == ['*', '*'] then some (i, 0, 1)
        else match parseSuffix ('/' :: suf) with
          | some (a, b) => some (i, a, b)
          | none => none
  | _ => none

def isPlaceholderToken (tok : List Char) : Bool := tok.head? == some '@'

/-- the placeholder rules on a template; returns the canonical text (short forms) and the number
of distinct placeholders -/
def checkTemplate (t : List Char) : Option (List Char × Nat) :=
  let rec go (toks : List (List Char)) (nKeys : Nat) (used : List (Nat × Nat × Nat))
      (acc : List Char) : Option (List Char × Nat) :=
    match toks with
    | [] => if nKeys == 0 then none else some (acc, nKeys)
    | tk :: ts =>
      if isPlaceholderToken tk then
        match parsePlaceholder tk with
        | none => none
        | some (i, a, b) =>
          if i > nKeys then none                       -- first occurrences in order 0,1,2,…
          else if !disjointFrom used i a b then none
          else go ts (if i == nKeys then nKeys + 1 else nKeys) ((i, a, b) :: used)
                 (acc ++ '@' :: showDec i ++ suffixText a b)
      else go ts nKeys used (acc ++ tk)
  go (tokens t) 0 [] []

/-- the descriptor a template stands for, given the key information items -/
def instantiate (t : List Char) (keys : List (List Char)) : Option (List Char) :=
  let rec go (toks : List (List Char)) (acc : List Char) : Option (List Char) :=
    match toks with
    | [] => some acc
    | tk :: ts =>
      if isPlaceholderToken tk then
        match parsePlaceholder tk with
        | none => none
        | some (i, a, b) =>
          match keys[i]? with
          | none => none
          | some k => go ts (acc ++ k ++ "/<".toList ++ showDec a ++ [';'] ++ showDec b ++ ">/*".toList)
      else go ts (acc ++ tk)
  go (tokens t) []

end MsVerif.Spec.Bip388

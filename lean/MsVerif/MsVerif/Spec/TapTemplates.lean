/-
Tapscript of a few leaf templates, byte for byte — TRUSTED SPEC (C15), written from the
Miniscript specification's translation table for Tapscript (BIP 342 opcodes, BIP 386/387 key
handling) and independent of the Rust encoder:

  pk(K)                    <K> CHECKSIG
  multi_a(k,K1,…,Kn)       <K1> CHECKSIG <K2> CHECKSIGADD … <Kn> CHECKSIGADD <k> NUMEQUAL
  sortedmulti_a(k,…)       the same with the X-ONLY keys sorted lexicographically first (BIP 387)
  and_v(v:pkh(K),older(n)) DUP HASH160 <HASH160(K)> EQUALVERIFY CHECKSIGVERIFY <n> CHECKSEQUENCEVERIFY

where every key is pushed (and hashed) as its 32-byte X-ONLY form: a 33-byte compressed key
`02/03 ‖ x` denotes the point with that `x`, its x-only form drops the first byte
(BIP 340/386).  Small numbers 1..16 are `OP_1 … OP_16`.
-/
import MsVerif.Spec.Bip341

namespace MsVerif.TapTemplates
open MsVerif.Hash

/-- x-only form of a key given as 32 bytes (already x-only) or 33 bytes (compressed) -/
def xonly (key : Bytes) : Option Bytes :=
  if key.length == 32 then some key
  else if key.length == 33 && (key.head? == some 0x02 || key.head? == some 0x03) then some key.tail
  else none

def push32 (x : Bytes) : Bytes := 0x20 :: x

/-- `OP_1 … OP_16` -/
def smallNum (n : Nat) : Option Bytes := if 1 ≤ n ∧ n ≤ 16 then some [UInt8.ofNat (0x50 + n)] else none

def OP_CHECKSIG : UInt8 := 0xac
def OP_CHECKSIGVERIFY : UInt8 := 0xad
def OP_CHECKSIGADD : UInt8 := 0xba
def OP_NUMEQUAL : UInt8 := 0x9c
def OP_CSV : UInt8 := 0xb2

def pkScript (x : Bytes) : Bytes := push32 x ++ [OP_CHECKSIG]

def multiAScript (k : Nat) (xs : List Bytes) : Option Bytes :=
  match xs, smallNum k with
  | x :: rest, some kk =>
    some (push32 x ++ [OP_CHECKSIG] ++ rest.flatMap (fun y => push32 y ++ [OP_CHECKSIGADD]) ++ kk ++ [OP_NUMEQUAL])
  | _, _ => none

/-- insertion into a list sorted by lexicographic byte order -/
def insertSorted (x : Bytes) : List Bytes → List Bytes
  | [] => [x]
  | y :: ys => if Bip341.bytesLt y x then y :: insertSorted x ys else x :: y :: ys

def sortBytes (xs : List Bytes) : List Bytes := xs.foldr insertSorted []

def pkhOlderScript (x : Bytes) (n : Nat) : Option Bytes :=
  (smallNum n).map (fun nn =>
    [0x76, 0xa9, 0x14] ++ hash160 x ++ [0x88, OP_CHECKSIGVERIFY] ++ nn ++ [OP_CSV])

/-- the script of a template named `pk` / `multi_a:k` / `sortedmulti_a:k` / `pkh_older:n` over
the given keys (33- or 32-byte) -/
def script (tmpl : String) (keys : List Bytes) : Option Bytes := do
  let xs ← keys.mapM xonly
  match tmpl.splitOn ":", xs with
  | ["pk"], [x] => some (pkScript x)
  | ["multi_a", k], xs => do multiAScript (← k.toNat?) xs
  | ["sortedmulti_a", k], xs => do multiAScript (← k.toNat?) (sortBytes xs)
  | ["pkh_older", n], [x] => do pkhOlderScript x (← n.toNat?)
  | _, _ => none

end MsVerif.TapTemplates

/-
Spec/KeyGrammar.lean — the GRAMMAR of descriptor key expressions (BIP-380 "Key Expressions", BIP-389
multipath) at the level of text, over opaque key tokens (trusted; no cryptography: whether a
base58 token really is an extended key, or a hex string a curve point, is not decided here — the
harness only offers texts built around genuine keys).

  KEY    := [ '[' FP ( '/' STEP )* ']' ] ( HEXPUB | WIF | XKEY ( '/' ( STEP | MULTI ) )* [ '/*' | '/*h' | "/*'" ] )
  FP     := 8 lower-case hex digits
  STEP   := NUM | NUM 'h' | NUM "'"            NUM canonical decimal ≤ 2^31-1
  MULTI  := '<' STEP ( ';' STEP )+ '>'          at most once
  HEXPUB := 02/03 + 64 hex | 04 + 128 hex | 64 hex (x-only)       lower case
  XKEY   := 111 base58 characters starting with xpub/tpub (public) or xprv/tprv (secret)
  WIF    := 51/52 base58 characters starting with 5, K or L (secret)

`valid secret s`: `s` is a key expression the PUBLIC-key parser (`secret = false`) resp. the
SECRET-key parser (`secret = true`) is specified to accept.  Spellings outside this grammar
(upper-case hex, `H`, leading zeros, …) are not specified either way.  No imports.
-/
namespace MsVerif.Spec.KeyGrammar

def isDigit (c : Char) : Bool := '0' ≤ c && c ≤ '9'
def isHexL (c : Char) : Bool := isDigit c || ('a' ≤ c && c ≤ 'f')
def isBase58 (c : Char) : Bool :=
  (('1' ≤ c && c ≤ '9') || ('A' ≤ c && c ≤ 'Z') || ('a' ≤ c && c ≤ 'z'))
  && c != 'O' && c != 'I' && c != 'l'

def decimal? (s : List Char) : Option Nat :=
  if s.isEmpty || !s.all isDigit then none
  else if s.length > 1 && s.head? == some '0' then none
  else some (s.foldl (fun a c => a * 10 + (c.toNat - 48)) 0)

/-- split at every occurrence of `c` -/
def splitAll (c : Char) : List Char → List (List Char)
  | [] => [[]]
  | x :: xs =>
    match splitAll c xs with
    | [] => [[]]
    | t :: ts => if x == c then [] :: t :: ts else (x :: t) :: ts

def stripHardened (s : List Char) : List Char :=
  match s.getLast? with
  | some 'h' | some '\'' => s.dropLast
  | _ => s

def isStep (s : List Char) : Bool :=
  match decimal? (stripHardened s) with
  | some n => n ≤ 2147483647
  | none => false

/-- `<STEP;STEP;…>` with at least two alternatives (shape only) -/
def isMultiShape (s : List Char) : Bool :=
  match s with
  | '<' :: rest =>
    match rest.getLast? with
    | some '>' =>
      let parts := splitAll ';' rest.dropLast
      parts.length ≥ 2 && parts.all isStep
    | _ => false
  | _ => false

/-- a step with its hardened marker normalised (`0'` and `0h` are the same step, `0` is not) -/
def normStep (s : List Char) : List Char :=
  match s.getLast? with
  | some 'h' | some '\'' => s.dropLast ++ ['h']
  | _ => s

def distinctL : List (List Char) → Bool
  | [] => true
  | x :: xs => !xs.contains x && distinctL xs

/-- the alternatives of a multipath step are pairwise distinct (BIP-389: no repeated index) -/
def multiDistinct (s : List Char) : Bool :=
  match s with
  | '<' :: rest => distinctL ((splitAll ';' rest.dropLast).map normStep)
  | _ => true

/-- a BIP-389 multipath step -/
def isMulti (s : List Char) : Bool := isMultiShape s && multiDistinct s

def isWildcard (s : List Char) : Bool := s == ['*'] || s == ['*', 'h'] || s == ['*', '\'']

/-- `FP(/STEP)*` -/
def isOrigin (s : List Char) : Bool :=
  match splitAll '/' s with
  | fp :: steps => fp.length == 8 && fp.all isHexL && steps.all isStep
  | [] => false

def startsWith (p s : List Char) : Bool := s.take p.length == p

def isHexPub (s : List Char) : Bool :=
  s.all isHexL &&
  ((s.length == 66 && (startsWith ['0','2'] s || startsWith ['0','3'] s))
   || (s.length == 130 && startsWith ['0','4'] s) || s.length == 64)

def isWif (s : List Char) : Bool :=
  s.all isBase58 && (s.length == 51 || s.length == 52) &&
  (s.head? == some '5' || s.head? == some 'K' || s.head? == some 'L')

def isXkey (secret : Bool) (s : List Char) : Bool :=
  s.all isBase58 && s.length == 111 &&
  (if secret then startsWith "xprv".toList s || startsWith "tprv".toList s
   else startsWith "xpub".toList s || startsWith "tpub".toList s)

/-- derivation steps after the extended key: steps, at most one multipath, wildcard only last -/
def derivOk : List (List Char) → Bool → Bool
  | [], _ => true
  | [w], seenMulti => isStep w || (isMulti w && !seenMulti) || isWildcard w
  | x :: rest, seenMulti =>
    if isStep x then derivOk rest seenMulti
    else if isMulti x && !seenMulti then derivOk rest true
    else false

def validBody (secret : Bool) (s : List Char) : Bool :=
  match splitAll '/' s with
  | [k] => (if secret then isWif k else isHexPub k) || isXkey secret k
  | k :: steps => isXkey secret k && derivOk steps false
  | [] => false

def valid (secret : Bool) (s : List Char) : Bool :=
  match s with
  | '[' :: rest =>
    -- origin up to the first `]`
    let o := rest.takeWhile (· != ']')
    match rest.dropWhile (· != ']') with
    | ']' :: body => isOrigin o && validBody secret body
    | _ => false
  | _ => validBody secret s

/-- a multipath step with a hardened member (`<0';1'>`): valid BIP-389, but a SECRET key of this
form has no single public counterpart (the xpubs behind the members differ), so
`Descriptor::parse_descriptor`, which must return public keys, refuses it by design -/
def hardenedMulti (s : List Char) : Bool :=
  (splitAll '/' s).any fun part => isMulti part && (part.contains 'h' || part.contains '\'')

/-- a key expression that is well formed except that a multipath step repeats an alternative
(`x/<0;0;1>/*`): BIP-389 forbids it, and a parser that accepted it could not print it back
(the alternatives are how the printer finds the multipath step) — it must be REFUSED -/
def repeatedMulti (secret : Bool) (s : List Char) : Bool :=
  let body := match s with
    | '[' :: rest => (rest.dropWhile (· != ']')).drop 1
    | _ => s
  let parts := splitAll '/' body
  -- the same text with every repeated step made distinct would be valid: approximate by checking
  -- the shape of every part and the extended key
  match parts with
  | k :: steps =>
    isXkey secret k && steps.any (fun p => isMultiShape p && !multiDistinct p)
      && steps.all (fun p => isStep p || isMultiShape p || isWildcard p)
      && (steps.filter isMultiShape).length ≤ 1
  | [] => false

end MsVerif.Spec.KeyGrammar

/-
The Miniscript specification's table of (canonical) satisfactions and dissatisfactions,
restricted to what a given set of assets can supply — TRUSTED SPEC, written from the
specification (bitcoin.sipa.be/miniscript "Satisfactions"), independent of the Rust satisfier.

`Avail` says what the caller holds.  `satEx` / `dsatEx` decide whether a canonical
(dis)satisfaction exists; `satWit` / `dsatWit` construct one (first match in table order) as a
list of abstract items, bottom of the witness first — used to validate this table itself by
executing its witnesses with the Script semantics.
-/
import MsVerif.Model.Ast

namespace MsVerif.SatTable

/-- what the caller can put on the stack -/
structure Avail where
  sig : Key → Bool
  preimage : HashKind → Nat → Bool
  /-- the concrete transaction's nLockTime / nSequence satisfy `after n` / `older n` -/
  after : Nat → Bool
  older : Nat → Bool
  /-- raw-pkh atom: (public key known, signature available) -/
  rawKey : Nat → Bool
  rawSig : Nat → Bool

/-- abstract witness items -/
inductive Item
  | sig (k : Key)
  | key (k : Key)
  | rawKey (h : Nat)
  | rawSig (h : Nat)
  | pre (kind : HashKind) (h : Nat)
  | zero32
  | one
  | empty
  deriving DecidableEq, Repr

/-- choose the first `k` indices of `flags` that are true; `none` if fewer than `k` -/
def firstK : Nat → List Bool → Option (List Bool)
  | 0, l => some (l.map fun _ => false)
  | _ + 1, [] => none
  | k + 1, true :: r => (firstK k r).map (true :: ·)
  | k + 1, false :: r => (firstK (k + 1) r).map (false :: ·)

mutual
def satEx (a : Avail) : Ms → Bool
  | .fls => false
  | .tru => true
  | .pkK k | .pkH k => a.sig k
  | .rawPkH h => a.rawSig h
  | .after n => a.after n
  | .older n => a.older n
  | .hash kind h => a.preimage kind h
  | .alt x | .swap x | .check x | .zeroNotEqual x | .dupIf x | .verify x | .nonZero x => satEx a x
  | .andV x y | .andB x y => satEx a x && satEx a y
  | .andOr x y z => (satEx a x && satEx a y) || (dsatEx a x && satEx a z)
  | .orB x z => (satEx a x && dsatEx a z) || (dsatEx a x && satEx a z)
  | .orC x z | .orD x z => satEx a x || (dsatEx a x && satEx a z)
  | .orI x z => satEx a x || satEx a z
  | .thresh k xs => threshEx a k xs
  | .multi k ks | .sortedMulti k ks | .multiA k ks | .sortedMultiA k ks =>
    decide ((ks.filter a.sig).length ≥ k)
def dsatEx (a : Avail) : Ms → Bool
  | .fls => true
  | .tru => false
  | .pkK _ | .pkH _ => true
  | .rawPkH h => a.rawKey h
  | .after _ | .older _ => false
  | .hash _ _ => true
  | .alt x | .swap x | .check x | .zeroNotEqual x => dsatEx a x
  | .dupIf _ | .nonZero _ => true
  | .verify _ => false
  | .andV _ _ => false            -- only a non-canonical dissatisfaction exists
  | .andB x y => dsatEx a x && dsatEx a y
  | .andOr x _ z => dsatEx a x && dsatEx a z
  | .orB x z | .orD x z => dsatEx a x && dsatEx a z
  | .orC _ _ => false
  | .orI x z => dsatEx a x || dsatEx a z
  | .thresh _ xs => allDsatEx a xs
  | .multi _ _ | .sortedMulti _ _ | .multiA _ _ | .sortedMultiA _ _ => true
/-- exactly `k` children satisfied, the others dissatisfied: possible iff it is possible to
pick k satisfiable children such that all the others are dissatisfiable -/
def threshEx (a : Avail) (k : Nat) (xs : MsList) : Bool :=
  -- children that can ONLY be satisfied must all be among the chosen; children that can only
  -- be dissatisfied cannot be chosen
  let onlySat := countOnlySat a xs
  let canSat := countCanSat a xs
  let dead := countDead a xs
  dead == 0 && decide (onlySat ≤ k) && decide (k ≤ canSat)
def allDsatEx (a : Avail) : MsList → Bool
  | .nil => true
  | .cons x xs => dsatEx a x && allDsatEx a xs
def countOnlySat (a : Avail) : MsList → Nat
  | .nil => 0
  | .cons x xs => (if satEx a x && !dsatEx a x then 1 else 0) + countOnlySat a xs
def countCanSat (a : Avail) : MsList → Nat
  | .nil => 0
  | .cons x xs => (if satEx a x then 1 else 0) + countCanSat a xs
def countDead (a : Avail) : MsList → Nat
  | .nil => 0
  | .cons x xs => (if !satEx a x && !dsatEx a x then 1 else 0) + countDead a xs
end

/-! ### witnesses (for validating the table itself) -/

def cat2 (x y : Option (List Item)) : Option (List Item) :=
  match x, y with | some a, some b => some (a ++ b) | _, _ => none

def orElse (x y : Option (List Item)) : Option (List Item) :=
  match x with | some a => some a | none => y

mutual
/-- a canonical satisfaction, bottom-of-witness first -/
def satWit (a : Avail) (sortK : List Key → List Key) : Ms → Option (List Item)
  | .fls => none
  | .tru => some []
  | .pkK k => if a.sig k then some [.sig k] else none
  | .pkH k => if a.sig k then some [.sig k, .key k] else none
  | .rawPkH h => if a.rawSig h then some [.rawSig h, .rawKey h] else none
  | .after n => if a.after n then some [] else none
  | .older n => if a.older n then some [] else none
  | .hash kind h => if a.preimage kind h then some [.pre kind h] else none
  | .alt x | .swap x | .check x | .zeroNotEqual x | .verify x | .nonZero x => satWit a sortK x
  | .dupIf x => cat2 (satWit a sortK x) (some [.one])
  -- `and`: the witness of the SECOND fragment is deeper in the stack
  | .andV x y | .andB x y => cat2 (satWit a sortK y) (satWit a sortK x)
  | .andOr x y z =>
    orElse (cat2 (satWit a sortK y) (satWit a sortK x)) (cat2 (satWit a sortK z) (dsatWit a sortK x))
  | .orB x z =>
    orElse (cat2 (dsatWit a sortK z) (satWit a sortK x)) (cat2 (satWit a sortK z) (dsatWit a sortK x))
  | .orC x z | .orD x z => orElse (satWit a sortK x) (cat2 (satWit a sortK z) (dsatWit a sortK x))
  | .orI x z => orElse (cat2 (satWit a sortK x) (some [.one])) (cat2 (satWit a sortK z) (some [.empty]))
  | .thresh k xs => threshWit a sortK k xs
  | .multi k ks =>
    (firstK k (ks.map a.sig)).map fun fl =>
      .empty :: ((ks.zip fl).filterMap fun p => if p.2 then some (.sig p.1) else none)
  | .sortedMulti k ks =>
    let ks := sortK ks
    (firstK k (ks.map a.sig)).map fun fl =>
      .empty :: ((ks.zip fl).filterMap fun p => if p.2 then some (.sig p.1) else none)
  | .multiA k ks =>
    (firstK k (ks.map a.sig)).map fun fl =>
      ((ks.zip fl).map fun p => if p.2 then Item.sig p.1 else .empty).reverse
  | .sortedMultiA k ks =>
    let ks := sortK ks
    (firstK k (ks.map a.sig)).map fun fl =>
      ((ks.zip fl).map fun p => if p.2 then Item.sig p.1 else .empty).reverse
def dsatWit (a : Avail) (sortK : List Key → List Key) : Ms → Option (List Item)
  | .fls => some []
  | .tru => none
  | .pkK _ => some [.empty]
  | .pkH k => some [.empty, .key k]
  | .rawPkH h => if a.rawKey h then some [.empty, .rawKey h] else none
  | .after _ | .older _ => none
  | .hash _ _ => some [.zero32]
  | .alt x | .swap x | .check x | .zeroNotEqual x => dsatWit a sortK x
  | .dupIf _ | .nonZero _ => some [.empty]
  | .verify _ => none
  | .andV _ _ => none
  | .andB x y => cat2 (dsatWit a sortK y) (dsatWit a sortK x)
  | .andOr x _ z => cat2 (dsatWit a sortK z) (dsatWit a sortK x)
  | .orB x z | .orD x z => cat2 (dsatWit a sortK z) (dsatWit a sortK x)
  | .orC _ _ => none
  | .orI x z => orElse (cat2 (dsatWit a sortK x) (some [.one])) (cat2 (dsatWit a sortK z) (some [.empty]))
  | .thresh _ xs => allDsatWit a sortK xs
  | .multi k _ | .sortedMulti k _ => some (List.replicate (k + 1) .empty)
  | .multiA _ ks | .sortedMultiA _ ks => some (List.replicate ks.length .empty)
/-- satisfy the children that cannot be dissatisfied, then the first satisfiable ones, up to k;
the LAST child's witness is at the bottom -/
def threshWit (a : Avail) (sortK : List Key → List Key) (k : Nat) (xs : MsList) : Option (List Item) :=
  if !threshEx a k xs then none else
  -- how many optional satisfactions are still needed after the forced ones
  threshPick a sortK (k - countOnlySat a xs) xs
def threshPick (a : Avail) (sortK : List Key → List Key) : Nat → MsList → Option (List Item)
  | _, .nil => some []
  | need, .cons x xs =>
    if satEx a x && !dsatEx a x then cat2 (threshPick a sortK need xs) (satWit a sortK x)
    else if satEx a x && need > 0 then cat2 (threshPick a sortK (need - 1) xs) (satWit a sortK x)
    else cat2 (threshPick a sortK need xs) (dsatWit a sortK x)
def allDsatWit (a : Avail) (sortK : List Key → List Key) : MsList → Option (List Item)
  | .nil => some []
  | .cons x xs => cat2 (allDsatWit a sortK xs) (dsatWit a sortK x)
end

end MsVerif.SatTable

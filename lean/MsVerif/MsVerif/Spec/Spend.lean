/-
Output-type verification — TRUSTED SPEC: how a (scriptPubKey, scriptSig, witness) triple is
validated for the standard output types, following Bitcoin Core's `VerifyScript` /
`VerifyWitnessProgram` with the standardness flags of each type (SIGPUSHONLY, CLEANSTACK,
MINIMALIF, NULLFAIL, witness element ≤ 520, P2WSH ≤ 100 stack items is a *policy* limit
reported separately).  Signature validity (against the real transaction digest for the right
script code) and the taproot commitment check (tagged hashes + EC tweak) are oracles in
`SpendEnv`, computed by the harness with rust-bitcoin/libsecp256k1 — not by the code under
test.  No imports beyond the Script spec.
-/
import MsVerif.Spec.Script

namespace MsVerif.Spend
open MsVerif.Script

structure SpendEnv where
  /-- signature validity per sighash domain: `sigOk dom pk sig`; `dom` tells which digest
  (legacy with a script code / BIP143 / taproot key path / tapscript leaf) — the harness
  registers each valid (domain, pk, sig) triple -/
  sigOk : Nat → Bytes → Bytes → Bool
  hash : HashOp → Bytes → Bytes
  /-- BIP341 commitment: `tapCommitOk controlBlock script outputKeyXOnly` -/
  tapCommitOk : Bytes → Bytes → Bytes → Bool
  nLockTime : Nat
  nSequence : Nat
  txVersion : Nat

/-- sighash domains -/
def DOM_LEGACY : Nat := 0
def DOM_SEGWITV0 : Nat := 1
def DOM_TAPKEY : Nat := 2
def DOM_TAPSCRIPT : Nat := 3

def legacyFlags : Flags := ⟨false, false, true, true, true, true, true⟩
def segwitFlags : Flags := ⟨false, true, true, true, true, true, true⟩
def tapFlags : Flags := ⟨true, true, true, true, true, false, true⟩

def mkEnv (e : SpendEnv) (fl : Flags) (dom : Nat) : Env :=
  ⟨fl, e.sigOk dom, e.hash, e.nLockTime, e.nSequence, e.txVersion⟩

inductive Verdict
  | ok
  | fail (why : String)
  deriving Repr, DecidableEq

def isPushOnly (s : List Op) : Bool := s.all fun o => match o with | .small _ | .push _ => true | _ => false

/-- evaluate a push-only scriptSig to the stack it leaves (top = head) -/
def pushedStack (s : List Op) : List Bytes := (s.filterMap Op.pushed?).reverse

def runOn (env : Env) (script : List Op) (stack : List Bytes) : Except Err (List Bytes) :=
  match run env script (State.init stack) with
  | .ok s => if s.conds.isEmpty then .ok s.core.stack else .error .unbalancedConditional
  | .error e => .error e

def topTrue : List Bytes → Bool
  | a :: _ => castToBool a
  | [] => false

def cleanTrue : List Bytes → Bool
  | [a] => castToBool a
  | _ => false

inductive SpkKind
  | p2sh (h : Bytes)
  | p2wpkh (h : Bytes)
  | p2wsh (h : Bytes)
  | p2tr (k : Bytes)
  | other

def classify (spk : List Op) : SpkKind :=
  match spk with
  | [.code .hash160, .push h, .code .equal] => if h.length = 20 then .p2sh h else .other
  | [.small 0, .push h] => if h.length = 20 then .p2wpkh h else if h.length = 32 then .p2wsh h else .other
  | [.small 1, .push k] => if k.length = 32 then .p2tr k else .other
  | _ => .other

def p2pkhScript (h : Bytes) : List Op :=
  [.code .dup, .code .hash160, .push h, .code .equalverify, .code .checksig]

/-- BIP141 witness program v0 -/
def verifyWitnessV0 (e : SpendEnv) (prog : SpkKind) (witness : List Bytes) : Verdict :=
  match prog with
  | .p2wpkh h =>
    match witness with
    | [sig, pk] =>
      match runOn (mkEnv e segwitFlags DOM_SEGWITV0) (p2pkhScript h) [pk, sig] with
      | .ok st => if cleanTrue st then .ok else .fail "p2wpkh:false"
      | .error er => .fail ("p2wpkh:" ++ reprStr er)
    | _ => .fail "p2wpkh:witness-shape"
  | .p2wsh h =>
    match witness.getLast? with
    | none => .fail "p2wsh:empty-witness"
    | some scriptBytes =>
      if e.hash .sha256 scriptBytes != h then .fail "p2wsh:script-hash-mismatch"
      else if scriptBytes.length > 10000 then .fail "p2wsh:script-size"
      else
        let items := witness.dropLast
        if items.any (fun x => decide (x.length > 520)) then .fail "p2wsh:element-size" else
        match parse scriptBytes with
        | none => .fail "p2wsh:unparseable"
        | some script =>
          match runOn (mkEnv e segwitFlags DOM_SEGWITV0) script items.reverse with
          | .ok st => if cleanTrue st then .ok else .fail "p2wsh:false-or-unclean"
          | .error er => .fail ("p2wsh:" ++ reprStr er)
  | _ => .fail "not-v0"

/-- BIP341/342 -/
def verifyTaproot (e : SpendEnv) (outKey : Bytes) (witness : List Bytes) : Verdict :=
  -- annex: last element starting with 0x50 when there are ≥ 2 elements (non-standard)
  match witness.getLast? with
  | none => .fail "p2tr:empty-witness"
  | some last =>
    if witness.length ≥ 2 && last.head? == some 0x50 then .fail "p2tr:annex-nonstandard" else
    match witness with
    | [sig] => if e.sigOk DOM_TAPKEY outKey sig then .ok else .fail "p2tr:keypath-sig"
    | _ =>
      let control := last
      match witness.dropLast.getLast? with
      | none => .fail "p2tr:shape"
      | some scriptBytes =>
        if control.length < 33 || (control.length - 33) % 32 != 0 || control.length > 33 + 32 * 128 then
          .fail "p2tr:control-size"
        else if !e.tapCommitOk control scriptBytes outKey then .fail "p2tr:commitment"
        else if (control.head?.map (· &&& 0xfe)) != some 0xc0 then .fail "p2tr:leaf-version"
        else
          let items := witness.dropLast.dropLast
          if items.any (fun x => decide (x.length > 520)) then .fail "p2tr:element-size" else
          match parse scriptBytes with
          | none => .fail "p2tr:unparseable"
          | some script =>
            match runOn (mkEnv e tapFlags DOM_TAPSCRIPT) script items.reverse with
            | .ok st => if cleanTrue st then .ok else .fail "p2tr:false-or-unclean"
            | .error er => .fail ("p2tr:" ++ reprStr er)

/-- `VerifyScript` for the standard output types -/
def verifySpend (e : SpendEnv) (spkBytes scriptSigBytes : Bytes) (witness : List Bytes) : Verdict :=
  match parse spkBytes, parseFlagged scriptSigBytes with
  | some spk, some ssF =>
    let ss := ssF.map (·.1)
    if !isPushOnly ss then .fail "scriptsig-not-push-only"
    else if ssF.any (fun p => match p.1 with | .push bs => !pushMinimal bs p.2 | _ => false) then
      .fail "scriptsig-non-minimal-push"
    else if scriptSigBytes.length > 1650 then .fail "scriptsig-size"
    else
    match classify spk with
    | .p2wpkh h =>
      if !ss.isEmpty then .fail "native-segwit-nonempty-scriptsig" else verifyWitnessV0 e (.p2wpkh h) witness
    | .p2wsh h =>
      if !ss.isEmpty then .fail "native-segwit-nonempty-scriptsig" else verifyWitnessV0 e (.p2wsh h) witness
    | .p2tr k =>
      if !ss.isEmpty then .fail "native-segwit-nonempty-scriptsig" else verifyTaproot e k witness
    | .p2sh h =>
      match pushedStack ss with
      | [] => .fail "p2sh:empty-scriptsig"
      | redeemBytes :: rest =>
        if e.hash .hash160 redeemBytes != h then .fail "p2sh:redeem-hash-mismatch"
        else if redeemBytes.length > 520 then .fail "p2sh:redeem-size"
        else
        match parse redeemBytes with
        | none => .fail "p2sh:unparseable"
        | some redeem =>
          match classify redeem with
          | .p2wpkh wh =>
            if !rest.isEmpty then .fail "p2sh-segwit:extra-scriptsig" else verifyWitnessV0 e (.p2wpkh wh) witness
          | .p2wsh wh =>
            if !rest.isEmpty then .fail "p2sh-segwit:extra-scriptsig" else verifyWitnessV0 e (.p2wsh wh) witness
          | _ =>
            if !witness.isEmpty then .fail "unexpected-witness" else
            match runOn (mkEnv e legacyFlags DOM_LEGACY) redeem rest with
            | .ok st => if cleanTrue st then .ok else .fail "p2sh:false-or-unclean"
            | .error er => .fail ("p2sh:" ++ reprStr er)
    | .other =>
      if !witness.isEmpty then .fail "unexpected-witness" else
      match runOn (mkEnv e legacyFlags DOM_LEGACY) spk (pushedStack ss) with
      | .ok st => if cleanTrue st then .ok else .fail "bare:false-or-unclean"
      | .error er => .fail ("bare:" ++ reprStr er)
  | _, _ => .fail "unparseable-spk-or-scriptsig"

end MsVerif.Spend

/-
Executable SHA-256 and RIPEMD-160 (FIPS 180-4 / the RIPEMD-160 paper), used only by the
*driver* to instantiate `Env.hash` when judging implementation outputs; theorems keep the
hash functions abstract.  Checked against rust-bitcoin's hashes by correspondence ops
(`C sha256 <hex>` …) on every run.  No imports.
-/
namespace MsVerif.Hash

abbrev Bytes := List UInt8

def rotr (x : UInt32) (n : UInt32) : UInt32 := (x >>> n) ||| (x <<< (32 - n))
def rotl (x : UInt32) (n : UInt32) : UInt32 := (x <<< n) ||| (x >>> (32 - n))

def be32 (a b c d : UInt8) : UInt32 :=
  (a.toUInt32 <<< 24) ||| (b.toUInt32 <<< 16) ||| (c.toUInt32 <<< 8) ||| d.toUInt32
def le32 (a b c d : UInt8) : UInt32 := be32 d c b a

def toBe32 (x : UInt32) : Bytes :=
  [(x >>> 24).toUInt8, (x >>> 16).toUInt8, (x >>> 8).toUInt8, x.toUInt8]
def toLe32 (x : UInt32) : Bytes := (toBe32 x).reverse

def beWords : Bytes → List UInt32
  | a :: b :: c :: d :: r => be32 a b c d :: beWords r
  | _ => []
def leWords : Bytes → List UInt32
  | a :: b :: c :: d :: r => le32 a b c d :: leWords r
  | _ => []

/-- message padding: 0x80, zeros, 64-bit length (big- or little-endian) -/
def pad (msg : Bytes) (bigEndian : Bool) : Bytes :=
  let l := msg.length
  let zeros := (55 + 64 - l % 64) % 64
  let bits := l * 8
  let lenBytes : Bytes := (List.range 8).map (fun i => UInt8.ofNat (bits / 256 ^ i % 256))
  msg ++ [0x80] ++ List.replicate zeros 0 ++ (if bigEndian then lenBytes.reverse else lenBytes)

def chunks64 : Nat → Bytes → List Bytes
  | 0, _ => []
  | fuel + 1, bs => if bs.length < 64 then [] else bs.take 64 :: chunks64 fuel (bs.drop 64)

/-! ### SHA-256 -/

def K256 : Array UInt32 := #[
  0x428a2f98, 0x71374491, 0xb5c0fbcf, 0xe9b5dba5, 0x3956c25b, 0x59f111f1, 0x923f82a4, 0xab1c5ed5,
  0xd807aa98, 0x12835b01, 0x243185be, 0x550c7dc3, 0x72be5d74, 0x80deb1fe, 0x9bdc06a7, 0xc19bf174,
  0xe49b69c1, 0xefbe4786, 0x0fc19dc6, 0x240ca1cc, 0x2de92c6f, 0x4a7484aa, 0x5cb0a9dc, 0x76f988da,
  0x983e5152, 0xa831c66d, 0xb00327c8, 0xbf597fc7, 0xc6e00bf3, 0xd5a79147, 0x06ca6351, 0x14292967,
  0x27b70a85, 0x2e1b2138, 0x4d2c6dfc, 0x53380d13, 0x650a7354, 0x766a0abb, 0x81c2c92e, 0x92722c85,
  0xa2bfe8a1, 0xa81a664b, 0xc24b8b70, 0xc76c51a3, 0xd192e819, 0xd6990624, 0xf40e3585, 0x106aa070,
  0x19a4c116, 0x1e376c08, 0x2748774c, 0x34b0bcb5, 0x391c0cb3, 0x4ed8aa4a, 0x5b9cca4f, 0x682e6ff3,
  0x748f82ee, 0x78a5636f, 0x84c87814, 0x8cc70208, 0x90befffa, 0xa4506ceb, 0xbef9a3f7, 0xc67178f2]

def schedule256 (w : Array UInt32) : Array UInt32 :=
  (List.range 48).foldl (fun w i =>
    let t := i + 16
    let w15 := w[t - 15]!
    let w2 := w[t - 2]!
    let s0 := rotr w15 7 ^^^ rotr w15 18 ^^^ (w15 >>> 3)
    let s1 := rotr w2 17 ^^^ rotr w2 19 ^^^ (w2 >>> 10)
    w.push (w[t - 16]! + s0 + w[t - 7]! + s1)) w

structure S8 where
  a : UInt32
  b : UInt32
  c : UInt32
  d : UInt32
  e : UInt32
  f : UInt32
  g : UInt32
  h : UInt32

def compress256 (st : S8) (block : Bytes) : S8 :=
  let w := schedule256 (beWords block).toArray
  let r := (List.range 64).foldl (fun (s : S8) i =>
    let s1 := rotr s.e 6 ^^^ rotr s.e 11 ^^^ rotr s.e 25
    let ch := (s.e &&& s.f) ^^^ ((~~~ s.e) &&& s.g)
    let t1 := s.h + s1 + ch + K256[i]! + w[i]!
    let s0 := rotr s.a 2 ^^^ rotr s.a 13 ^^^ rotr s.a 22
    let mj := (s.a &&& s.b) ^^^ (s.a &&& s.c) ^^^ (s.b &&& s.c)
    let t2 := s0 + mj
    ⟨t1 + t2, s.a, s.b, s.c, s.d + t1, s.e, s.f, s.g⟩) st
  ⟨st.a + r.a, st.b + r.b, st.c + r.c, st.d + r.d, st.e + r.e, st.f + r.f, st.g + r.g, st.h + r.h⟩

def sha256 (msg : Bytes) : Bytes :=
  let p := pad msg true
  let st := (chunks64 (p.length / 64 + 1) p).foldl compress256
    ⟨0x6a09e667, 0xbb67ae85, 0x3c6ef372, 0xa54ff53a, 0x510e527f, 0x9b05688c, 0x1f83d9ab, 0x5be0cd19⟩
  toBe32 st.a ++ toBe32 st.b ++ toBe32 st.c ++ toBe32 st.d ++ toBe32 st.e ++ toBe32 st.f
    ++ toBe32 st.g ++ toBe32 st.h

/-! ### RIPEMD-160 -/

def rL : Array Nat := #[
  0,1,2,3,4,5,6,7,8,9,10,11,12,13,14,15, 7,4,13,1,10,6,15,3,12,0,9,5,2,14,11,8,
  3,10,14,4,9,15,8,1,2,7,0,6,13,11,5,12, 1,9,11,10,0,8,12,4,13,3,7,15,14,5,6,2,
  4,0,5,9,7,12,2,10,14,1,3,8,11,6,15,13]
def rR : Array Nat := #[
  5,14,7,0,9,2,11,4,13,6,15,8,1,10,3,12, 6,11,3,7,0,13,5,10,14,15,8,12,4,9,1,2,
  15,5,1,3,7,14,6,9,11,8,12,2,10,0,4,13, 8,6,4,1,3,11,15,0,5,12,2,13,9,7,10,14,
  12,15,10,4,1,5,8,7,6,2,13,14,0,3,9,11]
def sL : Array UInt32 := #[
  11,14,15,12,5,8,7,9,11,13,14,15,6,7,9,8, 7,6,8,13,11,9,7,15,7,12,15,9,11,7,13,12,
  11,13,6,7,14,9,13,15,14,8,13,6,5,12,7,5, 11,12,14,15,14,15,9,8,9,14,5,6,8,6,5,12,
  9,15,5,11,6,8,13,12,5,12,13,14,11,8,5,6]
def sR : Array UInt32 := #[
  8,9,9,11,13,15,15,5,7,7,8,11,14,14,12,6, 9,13,15,7,12,8,9,11,7,7,12,7,6,15,13,11,
  9,7,15,11,8,6,6,14,12,13,5,14,13,13,7,5, 15,5,8,11,14,14,6,14,6,9,12,9,12,5,15,8,
  8,5,12,9,12,5,14,6,8,13,6,5,15,13,11,11]
def kL : Array UInt32 := #[0x00000000, 0x5a827999, 0x6ed9eba1, 0x8f1bbcdc, 0xa953fd4e]
def kR : Array UInt32 := #[0x50a28be6, 0x5c4dd124, 0x6d703ef3, 0x7a6d76e9, 0x00000000]

def fR (j : Nat) (x y z : UInt32) : UInt32 :=
  if j < 16 then x ^^^ y ^^^ z
  else if j < 32 then (x &&& y) ||| ((~~~ x) &&& z)
  else if j < 48 then (x ||| (~~~ y)) ^^^ z
  else if j < 64 then (x &&& z) ||| (y &&& (~~~ z))
  else x ^^^ (y ||| (~~~ z))

structure S5 where
  a : UInt32
  b : UInt32
  c : UInt32
  d : UInt32
  e : UInt32

def compress160 (h : S5) (block : Bytes) : S5 :=
  let x := (leWords block).toArray
  let l := (List.range 80).foldl (fun (s : S5) j =>
    let t := rotl (s.a + fR j s.b s.c s.d + x[rL[j]!]! + kL[j / 16]!) sL[j]! + s.e
    ⟨s.e, t, s.b, rotl s.c 10, s.d⟩) h
  let r := (List.range 80).foldl (fun (s : S5) j =>
    let t := rotl (s.a + fR (79 - j) s.b s.c s.d + x[rR[j]!]! + kR[j / 16]!) sR[j]! + s.e
    ⟨s.e, t, s.b, rotl s.c 10, s.d⟩) h
  ⟨h.b + l.c + r.d, h.c + l.d + r.e, h.d + l.e + r.a, h.e + l.a + r.b, h.a + l.b + r.c⟩

def ripemd160 (msg : Bytes) : Bytes :=
  let p := pad msg false
  let st := (chunks64 (p.length / 64 + 1) p).foldl compress160
    ⟨0x67452301, 0xefcdab89, 0x98badcfe, 0x10325476, 0xc3d2e1f0⟩
  toLe32 st.a ++ toLe32 st.b ++ toLe32 st.c ++ toLe32 st.d ++ toLe32 st.e

def hash256 (m : Bytes) : Bytes := sha256 (sha256 m)
def hash160 (m : Bytes) : Bytes := ripemd160 (sha256 m)

/-! ### hex -/
def hexDigit (n : Nat) : Char := if n < 10 then Char.ofNat (48 + n) else Char.ofNat (87 + n)
def toHex (bs : Bytes) : String :=
  String.ofList (bs.flatMap fun b => [hexDigit (b.toNat / 16), hexDigit (b.toNat % 16)])
def hexVal (c : Char) : Option Nat :=
  if '0' ≤ c ∧ c ≤ '9' then some (c.toNat - 48)
  else if 'a' ≤ c ∧ c ≤ 'f' then some (c.toNat - 87)
  else if 'A' ≤ c ∧ c ≤ 'F' then some (c.toNat - 55)
  else none
def ofHexChars : List Char → Option Bytes
  | [] => some []
  | a :: b :: r => do
    let x ← hexVal a; let y ← hexVal b; let t ← ofHexChars r
    pure (UInt8.ofNat (16 * x + y) :: t)
  | _ => none
/-- `-` denotes the empty byte string on the wire -/
def ofHex (s : String) : Option Bytes := if s == "-" then some [] else ofHexChars s.toList
def toHexW (bs : Bytes) : String := if bs.isEmpty then "-" else toHex bs

end MsVerif.Hash

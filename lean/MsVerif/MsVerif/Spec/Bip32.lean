/-
BIP32 public derivation along a path and "the key a descriptor key expression denotes at
index i" (BIP380/389) — TRUSTED SPEC (C16).

The elliptic-curve step `CKDpub(parent, i)` is an abstract function `ckd : X → Nat → X` on
extended public keys `X` (defined by BIP32 for normal indices `i < 2³¹` only).  Everything else
is list bookkeeping: a path can be derived publicly iff no step is hardened, and the derived
key is the left fold of `ckd` over its indices.  No imports.
-/
namespace MsVerif.Bip32

/-- one derivation step (`bip32::ChildNumber`); the index is `< 2³¹` -/
inductive Child
  | normal (i : Nat)
  | hardened (i : Nat)
  deriving DecidableEq, Repr, Inhabited

def Child.isHardened : Child → Bool
  | .hardened _ => true
  | .normal _ => false

/-- the indices of a path without hardened steps -/
def normalIndices : List Child → Option (List Nat)
  | [] => some []
  | .normal i :: rest => (normalIndices rest).map (i :: ·)
  | .hardened _ :: _ => none

/-- BIP32 public derivation: `CKDpub` folded over the path; impossible through a hardened step -/
def derivePath {X : Type} (ckd : X → Nat → X) (xk : X) (path : List Child) : Option X :=
  (normalIndices path).map (List.foldl ckd xk)

/-- the index limit of BIP32: child numbers are 31 bits plus the hardened flag -/
def indexLimit : Nat := 2 ^ 31

end MsVerif.Bip32

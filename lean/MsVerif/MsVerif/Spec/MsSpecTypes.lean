/-
The Miniscript specification's type tables (bitcoin.sipa.be/miniscript, BIP 379), written in
the specification's own vocabulary: a *base* letter and the modifier letters
  z o n d u      (correctness table)
  s f e m        (malleability table; `m` is the "non-malleable satisfaction exists" column)
as equations over the children's letters.  TRUSTED: transcribed by hand (no network in the
sandbox), independent of the Rust code; meant to be read next to the specification.  The
specification has two tables (correctness, malleability); they are kept as two structures
`SCorr`/`SMall`, a full type is the pair.

Conventions: a correctness rule returns `none` when the specification's child-type
requirement fails (malleability rules have no requirements of their own).
`tap` says whether the fragment lives in a Tapscript context (only `d:` depends on it).
-/
namespace MsVerif.Spec

inductive SBase | B | V | K | W
  deriving DecidableEq, Repr

structure SCorr where
  base : SBase
  z : Bool   -- zero-arg
  o : Bool   -- one-arg
  n : Bool   -- nonzero: satisfactions never need a zero top element
  d : Bool   -- dissatisfiable
  u : Bool   -- unit
  deriving DecidableEq, Repr

structure SMall where
  s : Bool   -- signed ("safe")
  f : Bool   -- forced
  e : Bool   -- expressive: unique unconditional dissatisfaction
  m : Bool   -- a non-malleable satisfaction is guaranteed
  deriving DecidableEq, Repr

structure STy where
  c : SCorr
  m : SMall
  deriving DecidableEq, Repr

/-- order on letter sets: `a ≤ b` iff same base and every letter `a` claims, `b` grants -/
def SCorr.le (a b : SCorr) : Bool :=
  decide (a.base = b.base) && (!a.z || b.z) && (!a.o || b.o) && (!a.n || b.n) && (!a.d || b.d)
    && (!a.u || b.u)
def SMall.le (a b : SMall) : Bool :=
  (!a.s || b.s) && (!a.f || b.f) && (!a.e || b.e) && (!a.m || b.m)
def STy.le (a b : STy) : Bool := a.c.le b.c && a.m.le b.m

/-! ## Correctness table -/
namespace C

def zero : SCorr := ⟨.B, true, false, false, true, true⟩     -- B; z; u; d
def one  : SCorr := ⟨.B, true, false, false, false, true⟩    -- B; z; u
def pkK  : SCorr := ⟨.K, false, true, true, true, true⟩      -- K; o; n; d; u
def pkH  : SCorr := ⟨.K, false, false, true, true, true⟩     -- K; n; d; u
def time : SCorr := ⟨.B, true, false, false, false, false⟩   -- B; z          (older, after)
def hash : SCorr := ⟨.B, false, true, true, true, true⟩      -- B; o; n; d; u
def multi  : SCorr := ⟨.B, false, false, true, true, true⟩   -- B; n; d; u
def multiA : SCorr := ⟨.B, false, false, false, true, true⟩  -- B; d; u

/-- `a:X` — X is B → W; d=dX; u=uX -/
def wrapA (x : SCorr) : Option SCorr :=
  if x.base = .B then some ⟨.W, false, false, false, x.d, x.u⟩ else none
/-- `s:X` — X is Bo → W; d=dX; u=uX -/
def wrapS (x : SCorr) : Option SCorr :=
  if x.base = .B ∧ x.o then some ⟨.W, false, false, false, x.d, x.u⟩ else none
/-- `c:X` — X is K → B; o=oX; n=nX; d=dX; u -/
def wrapC (x : SCorr) : Option SCorr :=
  if x.base = .K then some ⟨.B, false, x.o, x.n, x.d, true⟩ else none
/-- `d:X` — X is Vz → B; o; n; d; (u under Tapscript) -/
def wrapD (tap : Bool) (x : SCorr) : Option SCorr :=
  if x.base = .V ∧ x.z then some ⟨.B, false, true, true, true, tap⟩ else none
/-- `v:X` — X is B → V; z=zX; o=oX; n=nX -/
def wrapV (x : SCorr) : Option SCorr :=
  if x.base = .B then some ⟨.V, x.z, x.o, x.n, false, false⟩ else none
/-- `j:X` — X is Bn → B; o=oX; n; d; u=uX -/
def wrapJ (x : SCorr) : Option SCorr :=
  if x.base = .B ∧ x.n then some ⟨.B, false, x.o, true, true, x.u⟩ else none
/-- `n:X` — X is B → B; z=zX; o=oX; n=nX; d=dX; u -/
def wrapN (x : SCorr) : Option SCorr :=
  if x.base = .B then some ⟨.B, x.z, x.o, x.n, x.d, true⟩ else none

/-- `and_v(X,Y)` — X is V; Y is B, K or V; z=zXzY; o=zXoY+zYoX; n=nX+zXnY; u=uY -/
def andV (x y : SCorr) : Option SCorr :=
  if x.base = .V ∧ y.base ≠ .W then
    some ⟨y.base, x.z && y.z, (x.z && y.o) || (y.z && x.o), x.n || (x.z && y.n), false, y.u⟩
  else none
/-- `and_b(X,Y)` — X is B; Y is W; z=zXzY; o=zXoY+zYoX; n=nX+zXnY; d=dXdY; u -/
def andB (x y : SCorr) : Option SCorr :=
  if x.base = .B ∧ y.base = .W then
    some ⟨.B, x.z && y.z, (x.z && y.o) || (y.z && x.o), x.n || (x.z && y.n), x.d && y.d, true⟩
  else none
/-- `or_b(X,Z)` — X is Bd; Z is Wd; z=zXzZ; o=zXoZ+zZoX; d; u -/
def orB (x z : SCorr) : Option SCorr :=
  if x.base = .B ∧ x.d ∧ z.base = .W ∧ z.d then
    some ⟨.B, x.z && z.z, (x.z && z.o) || (z.z && x.o), false, true, true⟩
  else none
/-- `or_c(X,Z)` — X is Bdu; Z is V; z=zXzZ; o=oXzZ -/
def orC (x z : SCorr) : Option SCorr :=
  if x.base = .B ∧ x.d ∧ x.u ∧ z.base = .V then
    some ⟨.V, x.z && z.z, x.o && z.z, false, false, false⟩
  else none
/-- `or_d(X,Z)` — X is Bdu; Z is B; z=zXzZ; o=oXzZ; d=dZ; u=uZ -/
def orD (x z : SCorr) : Option SCorr :=
  if x.base = .B ∧ x.d ∧ x.u ∧ z.base = .B then
    some ⟨.B, x.z && z.z, x.o && z.z, false, z.d, z.u⟩
  else none
/-- `or_i(X,Z)` — both B, both K or both V; o=zXzZ; u=uXuZ; d=dX+dZ -/
def orI (x z : SCorr) : Option SCorr :=
  if x.base = z.base ∧ x.base ≠ .W then
    some ⟨x.base, false, x.z && z.z, false, x.d || z.d, x.u && z.u⟩
  else none
/-- `andor(X,Y,Z)` — X is Bdu; Y and Z both B, both K or both V; z=zXzYzZ;
    o=zXoYoZ+oXzYzZ; u=uYuZ; d=dZ -/
def andOr (x y z : SCorr) : Option SCorr :=
  if x.base = .B ∧ x.d ∧ x.u ∧ y.base = z.base ∧ y.base ≠ .W then
    some ⟨y.base, x.z && y.z && z.z, (x.z && y.o && z.o) || (x.o && y.z && z.z), false, z.d,
          y.u && z.u⟩
  else none
/-- "all subs are z except one, which is o" -/
def threshO (xs : List SCorr) : Bool :=
  match xs.filter (fun x => !x.z) with | [x] => x.o | _ => false

/-- `thresh(k,X1,…,Xn)` — X1 is Bdu; the others Wdu; z = all z; o = all z except one o; d; u -/
def thresh (_k : Nat) (xs : List SCorr) : Option SCorr :=
  match xs with
  | [] => none
  | x1 :: rest =>
    if x1.base = .B ∧ x1.d ∧ x1.u ∧ rest.all (fun x => decide (x.base = .W) && x.d && x.u) then
      some ⟨.B, xs.all (·.z),
            threshO xs, false, true, true⟩
    else none

end C

/-! ## Malleability table -/
namespace M

def zero : SMall := ⟨true, false, true, true⟩     -- s; e
def one  : SMall := ⟨false, true, false, true⟩    -- f
def pkK  : SMall := ⟨true, false, true, true⟩     -- s; e
def pkH  : SMall := ⟨true, false, true, true⟩     -- s; e
def time : SMall := ⟨false, true, false, true⟩    -- f
def hash : SMall := ⟨false, false, false, true⟩   --
def multi  : SMall := ⟨true, false, true, true⟩   -- s; e
def multiA : SMall := ⟨true, false, true, true⟩   -- s; e

/-- `a:X`, `s:X`, `n:X` — s=sX; f=fX; e=eX; m=mX -/
def wrapA (x : SMall) : SMall := x
def wrapS (x : SMall) : SMall := x
def wrapN (x : SMall) : SMall := x
/-- `c:X` — s; f=fX; e=eX; m=mX -/
def wrapC (x : SMall) : SMall := ⟨true, x.f, x.e, x.m⟩
/-- `d:X` — s=sX; e=fX (V is always f, the website writes plain "e"); m=mX -/
def wrapD (x : SMall) : SMall := ⟨x.s, false, x.f, x.m⟩
/-- `v:X` — s=sX; f; m=mX -/
def wrapV (x : SMall) : SMall := ⟨x.s, true, false, x.m⟩
/-- `j:X` — s=sX; e=fX; m=mX -/
def wrapJ (x : SMall) : SMall := ⟨x.s, false, x.f, x.m⟩

/-- `and_v(X,Y)` — s=sX+sY; f=sX+fY; m=mXmY -/
def andV (x y : SMall) : SMall := ⟨x.s || y.s, x.s || y.f, false, x.m && y.m⟩
/-- `and_b(X,Y)` — s=sX+sY; f=fXfY+sXfX+sYfY; e=eXeYsXsY; m=mXmY -/
def andB (x y : SMall) : SMall :=
  ⟨x.s || y.s, (x.f && y.f) || (x.s && x.f) || (y.s && y.f), x.e && y.e && x.s && y.s,
   x.m && y.m⟩
/-- `or_b(X,Z)` — s=sXsZ; e; m=mXmZ eXeZ (sX+sZ) -/
def orB (x z : SMall) : SMall :=
  ⟨x.s && z.s, false, true, x.m && z.m && x.e && z.e && (x.s || z.s)⟩
/-- `or_c(X,Z)` — s=sXsZ; f; m=mXmZ eX (sX+sZ) -/
def orC (x z : SMall) : SMall :=
  ⟨x.s && z.s, true, false, x.m && z.m && x.e && (x.s || z.s)⟩
/-- `or_d(X,Z)` — s=sXsZ; f=fZ; e=eZ; m=mXmZ eX (sX+sZ) -/
def orD (x z : SMall) : SMall :=
  ⟨x.s && z.s, z.f, z.e, x.m && z.m && x.e && (x.s || z.s)⟩
/-- `or_i(X,Z)` — s=sXsZ; f=fXfZ; e=eXfZ+fXeZ; m=mXmZ (sX+sZ) -/
def orI (x z : SMall) : SMall :=
  ⟨x.s && z.s, x.f && z.f, (x.e && z.f) || (x.f && z.e), x.m && z.m && (x.s || z.s)⟩
/-- `andor(X,Y,Z)` — s=sZ(sX+sY); f=fZ(sX+fY); e=eZ(sX+fY); m=mXmYmZ eX (sX+sY+sZ) -/
def andOr (x y z : SMall) : SMall :=
  ⟨z.s && (x.s || y.s), z.f && (x.s || y.f), z.e && (x.s || y.f),
   x.m && y.m && z.m && x.e && (x.s || y.s || z.s)⟩
/-- `thresh(k,X1,…,Xn)` — s = at most k−1 subs are not s; e = all subs are e and s;
    m = all subs are m and e, and at most k are not s -/
def thresh (k : Nat) (xs : List SMall) : SMall :=
  let nonS := (xs.filter (fun x => !x.s)).length
  ⟨decide (nonS + 1 ≤ k), false, xs.all (fun x => x.e && x.s),
   xs.all (fun x => x.m && x.e) && decide (nonS ≤ k)⟩

end M

end MsVerif.Spec

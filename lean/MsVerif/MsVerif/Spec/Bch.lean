/-
Spec/Bch.lean — the descriptor checksum of BIP-380, transcribed from the BIP's reference
code (`descsum_polymod`, `descsum_expand`, `descsum_create`, `descsum_check`), and the vocabulary
"`k` character substitutions".  Trusted, small, written independently of the Rust code
(plain `Nat` arithmetic, no engine state).

    INPUT_CHARSET    = "0123456789()[],'/*abcdefgh@:$%{}" "IJKLMNOPQRSTUVWXYZ&+-.;<=>?!^_|~"
                       "ijklmnopqrstuvwxyzABCDEFGH`#\"\\ "
    CHECKSUM_CHARSET = "qpzry9x8gf2tvdw0s3jn54khce6mua7l"
    GENERATOR        = [0xf5dee51989, 0xa9fdca3312, 0x1bab10e32d, 0x3706b1677a, 0x644d626ffd]
-/
namespace MsVerif.Spec.Bch

def INPUT_CHARSET : List Char :=
  "0123456789()[],'/*abcdefgh@:$%{}IJKLMNOPQRSTUVWXYZ&+-.;<=>?!^_|~ijklmnopqrstuvwxyzABCDEFGH`#\"\\ ".toList

def CHECKSUM_CHARSET : List Char := "qpzry9x8gf2tvdw0s3jn54khce6mua7l".toList

def GENERATOR : List Nat := [0xf5dee51989, 0xa9fdca3312, 0x1bab10e32d, 0x3706b1677a, 0x644d626ffd]

/-- `INPUT_CHARSET.find(c)` -/
def inputFind (c : Char) : Option Nat :=
  let i := INPUT_CHARSET.idxOf c
  if i < INPUT_CHARSET.length then some i else none

/-- one round of `descsum_polymod` -/
def polymodStep (chk value : Nat) : Nat :=
  let top := chk >>> 35
  let chk := ((chk &&& 0x7ffffffff) <<< 5) ^^^ value
  (List.range 5).foldl
    (fun chk i => if (top >>> i) &&& 1 = 1 then chk ^^^ GENERATOR.getD i 0 else chk) chk

/-- `descsum_polymod(symbols)` -/
def polymod (symbols : List Nat) : Nat := symbols.foldl polymodStep 1

/-- the trailing partial group of `descsum_expand` -/
def groupTail : List Nat → List Nat
  | [g0] => [g0]
  | [g0, g1] => [g0 * 3 + g1]
  | _ => []

/-- `descsum_expand` on the list of charset positions; `groups` is the pending group list. -/
def expandPos : List Nat → List Nat → List Nat
  | [], groups => groupTail groups
  | v :: vs, groups =>
    let groups := groups ++ [v >>> 5]
    match groups with
    | [g0, g1, g2] => (v &&& 31) :: (g0 * 9 + g1 * 3 + g2) :: expandPos vs []
    | _ => (v &&& 31) :: expandPos vs groups

/-- `descsum_expand(s)`; `none` if a character is outside `INPUT_CHARSET` -/
def expand (s : List Char) : Option (List Nat) :=
  (s.mapM inputFind).map (expandPos · [])

/-- the 8 checksum characters of `descsum_create(s)` -/
def create (s : List Char) : Option (List Char) :=
  (expand s).map fun syms =>
    let checksum := polymod (syms ++ [0, 0, 0, 0, 0, 0, 0, 0]) ^^^ 1
    (List.range 8).map fun i => CHECKSUM_CHARSET.getD ((checksum >>> (5 * (7 - i))) &&& 31) 'q'

/-- `descsum_check(s)` -/
def check (s : List Char) : Bool :=
  let n := s.length
  if n < 9 then false else
  let body := s.take (n - 9)
  let cs := s.drop (n - 8)
  if s.getD (n - 9) ' ' ≠ '#' then false else
  if !cs.all (CHECKSUM_CHARSET.contains ·) then false else
  match expand body with
  | none => false
  | some syms => polymod (syms ++ cs.map (CHECKSUM_CHARSET.idxOf ·)) == 1

/-! ## "k substitutions" -/

/-- number of positions at which two lists differ (Hamming distance on the common prefix length) -/
def hamming {α} [DecidableEq α] : List α → List α → Nat
  | a :: as, b :: bs => (if a = b then 0 else 1) + hamming as bs
  | _, _ => 0

/-- `t` is obtained from `s` by substituting at least one and at most `k` characters
(same length, no insertions or deletions). -/
def Substituted {α} [DecidableEq α] (k : Nat) (s t : List α) : Prop :=
  s.length = t.length ∧ 0 < hamming s t ∧ hamming s t ≤ k

instance {α} [DecidableEq α] (k : Nat) (s t : List α) : Decidable (Substituted k s t) := by
  unfold Substituted; exact inferInstance

/-- the first group of the checksum alphabet (class digit 0): digits, descriptor punctuation and
`a`–`h` (the hexadecimal letters). -/
def firstGroup : List Char := INPUT_CHARSET.take 32

/-- every position where the two strings differ holds first-group characters on both sides -/
def inFirstGroup : List Char → List Char → Bool
  | a :: as, b :: bs => (a == b || (firstGroup.contains a && firstGroup.contains b)) && inFirstGroup as bs
  | _, _ => true

end MsVerif.Spec.Bch

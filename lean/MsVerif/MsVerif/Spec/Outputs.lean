/-
Standard Bitcoin output scripts — TRUSTED SPEC (C16).

Byte-level templates exactly as BIP13/16 (P2SH), BIP141/143 (P2WPKH, P2WSH, nested forms,
signature script codes) and BIP341 (P2TR) write them, over ABSTRACT hash functions
(`Hashes`).  Nothing here mentions the Rust code, script builders or opcodes: a template is a
list of bytes with a hole for a 20- resp. 32-byte hash.  An `Output` says WHAT is committed to
(a public key, a redeem script, a witness script, a taproot output key); the functions below
say which bytes that output type puts into the scriptPubKey, which script is "explicit"
(revealed at spending time), which script code BIP143 signs, and what the scriptSig of a
not-yet-signed input looks like.  No imports.
-/
namespace MsVerif.Outputs

/-- the two hash functions standard outputs use (SHA256 and HASH160 = RIPEMD160∘SHA256) -/
structure Hashes where
  sha256 : List UInt8 → List UInt8
  hash160 : List UInt8 → List UInt8

/-- digests have their standard sizes -/
structure Hashes.WellSized (H : Hashes) : Prop where
  sha256_len : ∀ b, (H.sha256 b).length = 32
  hash160_len : ∀ b, (H.hash160 b).length = 20

/-! ### scriptPubKey templates -/

/-- `OP_DUP OP_HASH160 <20> OP_EQUALVERIFY OP_CHECKSIG` -/
def p2pkh (keyHash20 : List UInt8) : List UInt8 := [0x76, 0xa9, 0x14] ++ keyHash20 ++ [0x88, 0xac]
/-- `OP_HASH160 <20> OP_EQUAL` (BIP16) -/
def p2sh (scriptHash20 : List UInt8) : List UInt8 := [0xa9, 0x14] ++ scriptHash20 ++ [0x87]
/-- `OP_0 <20>` (BIP141) -/
def p2wpkh (keyHash20 : List UInt8) : List UInt8 := [0x00, 0x14] ++ keyHash20
/-- `OP_0 <32>` (BIP141) -/
def p2wsh (scriptHash32 : List UInt8) : List UInt8 := [0x00, 0x20] ++ scriptHash32
/-- `OP_1 <32>` (BIP341) -/
def p2tr (outputKey32 : List UInt8) : List UInt8 := [0x51, 0x20] ++ outputKey32

/-- a script consisting of one direct data push of at most 75 bytes: `<len> data` -/
def singlePush (data : List UInt8) : List UInt8 := UInt8.ofNat data.length :: data

/-! ### what an output commits to -/

inductive Output
  /-- the script itself is the scriptPubKey -/
  | bare (script : List UInt8)
  | pkh (pubkey : List UInt8)
  | wpkh (pubkey : List UInt8)
  | sh (redeemScript : List UInt8)
  | wsh (witnessScript : List UInt8)
  /-- P2SH-P2WPKH -/
  | shWpkh (pubkey : List UInt8)
  /-- P2SH-P2WSH -/
  | shWsh (witnessScript : List UInt8)
  | tr (outputKey : List UInt8)
  deriving DecidableEq, Repr

/-- the witness program (as a scriptPubKey) of the segwit-v0 part of an output, if any -/
def Output.witnessProgram (H : Hashes) : Output → Option (List UInt8)
  | .wpkh pk | .shWpkh pk => some (p2wpkh (H.hash160 pk))
  | .wsh ws | .shWsh ws => some (p2wsh (H.sha256 ws))
  | _ => none

/-- BIP16 redeem script: for nested segwit it is the witness program -/
def Output.redeemScript (H : Hashes) : Output → Option (List UInt8)
  | .sh rs => some rs
  | .shWpkh pk => some (p2wpkh (H.hash160 pk))
  | .shWsh ws => some (p2wsh (H.sha256 ws))
  | _ => none

/-- BIP141 witness script -/
def Output.witnessScript : Output → Option (List UInt8)
  | .wsh ws | .shWsh ws => some ws
  | _ => none

/-- the scriptPubKey of the output -/
def Output.scriptPubKey (H : Hashes) : Output → List UInt8
  | .bare s => s
  | .pkh pk => p2pkh (H.hash160 pk)
  | .wpkh pk => p2wpkh (H.hash160 pk)
  | .sh rs => p2sh (H.hash160 rs)
  | .wsh ws => p2wsh (H.sha256 ws)
  | .shWpkh pk => p2sh (H.hash160 (p2wpkh (H.hash160 pk)))
  | .shWsh ws => p2sh (H.hash160 (p2wsh (H.sha256 ws)))
  | .tr k => p2tr k

/-- "the underlying script before any hashing is done": the scriptPubKey itself for bare, pkh
and wpkh; the redeem script for sh and sh-wpkh; the witness script for wsh and sh-wsh;
none for taproot -/
def Output.explicitScript (H : Hashes) : Output → Option (List UInt8)
  | .bare s => some s
  | .pkh pk => some (p2pkh (H.hash160 pk))
  | .wpkh pk => some (p2wpkh (H.hash160 pk))
  | .sh rs => some rs
  | .wsh ws => some ws
  | .shWpkh pk => some (p2wpkh (H.hash160 pk))
  | .shWsh ws => some ws
  | .tr _ => none

/-- how the scriptPubKey is obtained from the explicit script, per output type -/
def Output.wrap (H : Hashes) : Output → List UInt8 → List UInt8
  | .bare _, s | .pkh _, s | .wpkh _, s => s
  | .sh _, s | .shWpkh _, s => p2sh (H.hash160 s)
  | .wsh _, s => p2wsh (H.sha256 s)
  | .shWsh _, s => p2sh (H.hash160 (p2wsh (H.sha256 s)))
  | .tr k, _ => p2tr k

/-- the script serialised into an ECDSA signature hash: the scriptPubKey (legacy, no
OP_CODESEPARATOR), the redeem script (BIP16), and for segwit v0 BIP143's script code —
P2WPKH ↦ `76 a9 14 <keyhash> 88 ac`, P2WSH ↦ the witness script; nested ↦ the inner's.
Taproot has no script code. -/
def Output.scriptCode (H : Hashes) : Output → Option (List UInt8)
  | .bare s => some s
  | .pkh pk => some (p2pkh (H.hash160 pk))
  | .sh rs => some rs
  | .wpkh pk | .shWpkh pk => some (p2pkh (H.hash160 pk))
  | .wsh ws | .shWsh ws => some ws
  | .tr _ => none

/-- scriptSig of an input before signing: nested segwit reveals the redeem script in a single
push (it never changes, so the txid is stable); everything else is empty -/
def Output.unsignedScriptSig (H : Hashes) : Output → List UInt8
  | .shWpkh pk => singlePush (p2wpkh (H.hash160 pk))
  | .shWsh ws => singlePush (p2wsh (H.sha256 ws))
  | _ => []

/-- does this output type have an address -/
def Output.hasAddress : Output → Bool
  | .bare _ => false
  | _ => true

end MsVerif.Outputs

/-
Vocabulary of the descriptor-level C01 statements: how the satisfaction of a descriptor is
assembled from the completed Miniscript witness (`Plan.getSatisfaction`, the model of
`Descriptor::get_satisfaction{,_mall}` / `Plan::satisfy` in Model/Plan.lean, applied to the
descriptor's `explicit_script` / witness program from Model/Descriptor.lean), and the
hypotheses connecting the descriptor's hash functions with those of the transaction
environment.  Definitions only.
-/
import MsVerif.Model.Descriptor
import MsVerif.Model.Plan
import MsVerif.Spec.Spend
import MsVerif.Spec.SatSpec

namespace MsVerif.SatSpec
open MsVerif Script MsVerif.Desc MsVerif.Plan MsVerif.Spend

/-- the `DescData` (`desc_type`, `explicit_script`, pushed witness program) of a descriptor -/
def descData (P : Params) : Desc → DescData
  | .bare ms => ⟨.bare, bareScriptPubkey P ms, []⟩
  | .pkh pk => ⟨.pkh, pkhScriptPubkey P pk, []⟩
  | .wpkh pk => ⟨.wpkh, wpkhScriptPubkey P pk, []⟩
  | .wsh ms => ⟨.wsh, wshInnerScript P ms, []⟩
  | .sh (.wsh ms) => ⟨.shWsh, wshInnerScript P ms, wshScriptPubkey P ms⟩
  | .sh (.wpkh pk) => ⟨.shWpkh, wpkhScriptPubkey P pk, wpkhScriptPubkey P pk⟩
  | .sh (.ms ms) => ⟨.sh, encodeBytes P.env .legacy ms, []⟩
  | .tr _ _ => ⟨.tr, [], []⟩

/-- witness of the spending input, as `get_satisfaction` returns it for the completed stack -/
def descWitness (P : Params) (d : Desc) (stack : List Bytes) : List Bytes :=
  (getSatisfaction (descData P d) stack).1
/-- scriptSig of the spending input -/
def descScriptSig (P : Params) (d : Desc) (stack : List Bytes) : Bytes :=
  (getSatisfaction (descData P d) stack).2

/-- the descriptor's SHA256 / HASH160 are the transaction environment's, with standard sizes -/
structure HashAgree (e : SpendEnv) (P : Params) : Prop where
  sha256 : ∀ b, P.H.sha256 b = e.hash .sha256 b
  hash160 : ∀ b, P.H.hash160 b = e.hash .hash160 b
  sha256_len : ∀ b, (e.hash .sha256 b).length = 32
  hash160_len : ∀ b, (e.hash .hash160 b).length = 20
  /-- every hash opcode's output respects the element size limit -/
  out_len : ∀ op b, (e.hash op b).length ≤ 520

/-- the flag sets of Spec/Spend.lean with the resource limits switched off: the environments
in which the Miniscript-level theorems are stated -/
def legacyFlagsOff : Flags := ⟨false, false, true, true, true, false, false⟩
def segwitFlagsOff : Flags := ⟨false, true, true, true, true, false, false⟩
def tapFlagsOff : Flags := ⟨true, true, true, true, true, false, false⟩

/-- realised witness items, bottom first (as in a transaction witness) -/
def items (σ : Ph → Bytes) (w : List Ph) : List Bytes := w.map σ

end MsVerif.SatSpec

/-
`relative_timelocks` / `absolute_timelocks`: exactly the lock values of the policy, strictly
ascending.
-/
import MsVerif.Lemmas.PolicyBasic

set_option linter.unusedSimpArgs false
namespace MsVerif.Pol
open Sem

theorem mem_dedupAdj (x : Nat) : ∀ l : List Nat, x ∈ dedupAdj l ↔ x ∈ l
  | [] => by simp [dedupAdj]
  | [a] => by simp [dedupAdj]
  | a :: b :: rest => by
    have ih := mem_dedupAdj x (b :: rest)
    rw [dedupAdj]
    split
    · rename_i h
      have : a = b := by simpa using h
      subst this
      rw [ih]; simp
    · rw [List.mem_cons, ih]; simp

theorem dedupAdj_strict : ∀ l : List Nat, l.Pairwise (· ≤ ·) → (dedupAdj l).Pairwise (· < ·)
  | [], _ => by simp [dedupAdj]
  | [a], _ => by simp [dedupAdj]
  | a :: b :: rest, h => by
    obtain ⟨ha, hrest⟩ := List.pairwise_cons.mp h
    have ih := dedupAdj_strict (b :: rest) hrest
    rw [dedupAdj]
    split
    · exact ih
    · rename_i hne
      have hab : a ≠ b := by simpa using hne
      refine List.pairwise_cons.mpr ⟨?_, ih⟩
      intro y hy
      rw [mem_dedupAdj] at hy
      have hby : b ≤ y := by
        rcases List.mem_cons.mp hy with h1 | h1
        · omega
        · exact (List.pairwise_cons.mp hrest).1 y h1
      have := ha b (by simp)
      omega

theorem mem_sortDedup (x : Nat) (l : List Nat) : x ∈ sortDedup l ↔ x ∈ l := by
  rw [sortDedup, mem_dedupAdj, List.mem_mergeSort]

theorem sortDedup_strict (l : List Nat) : (sortDedup l).Pairwise (· < ·) := by
  apply dedupAdj_strict
  have := List.pairwise_mergeSort (le := fun (a b : Nat) => decide (a ≤ b))
    (by intro a b c; simp; omega) (by intro a b; simp; omega) l
  simpa using this

theorem mem_relativeTimelocks (p : Policy) (t : Nat) :
    t ∈ relativeTimelocks p ↔ Atom.older t ∈ atomsOf p := by
  rw [relativeTimelocks, mem_sortDedup, List.mem_filterMap]
  constructor
  · rintro ⟨a, ha, h⟩
    cases a <;> simp at h
    subst h; exact ha
  · intro h; exact ⟨_, h, rfl⟩

theorem mem_absoluteTimelocks (p : Policy) (t : Nat) :
    t ∈ absoluteTimelocks p ↔ Atom.after t ∈ atomsOf p := by
  rw [absoluteTimelocks, mem_sortDedup, List.mem_filterMap]
  constructor
  · rintro ⟨a, ha, h⟩
    cases a <;> simp at h
    subst h; exact ha
  · intro h; exact ⟨_, h, rfl⟩

end MsVerif.Pol

/-
C10: running the lock-step automaton of `ChecksumAuto` over two whole strings.
-/
import MsVerif.Lemmas.ChecksumAuto
import MsVerif.Spec.Bch

namespace MsVerif.Checksum
open MsVerif.Spec.Bch

theorem hamming_zero {α} [DecidableEq α] : ∀ {s t : List α}, s.length = t.length →
    hamming s t = 0 → s = t
  | [], [], _, _ => rfl
  | [], _ :: _, hl, _ => by simp at hl
  | _ :: _, [], hl, _ => by simp at hl
  | a :: as, b :: bs, hl, h => by
    simp only [hamming] at h
    by_cases e : a = b
    · simp only [e, if_true, Nat.zero_add] at h
      rw [e, hamming_zero (by simpa using hl) h]
    · simp only [e, if_false] at h; omega

theorem hamming_append {α} [DecidableEq α] : ∀ (a b c d : List α), a.length = c.length →
    hamming (a ++ b) (c ++ d) = hamming a c + hamming b d
  | [], _, [], _, _ => by simp [hamming]
  | [], _, _ :: _, _, h => by simp at h
  | _ :: _, _, [], _, h => by simp at h
  | x :: a, b, y :: c, d, h => by
    simp only [List.cons_append, hamming]
    rw [hamming_append a b c d (by simpa using h)]; omega

theorem hamming_one {α} [DecidableEq α] : ∀ {s t : List α}, s.length = t.length →
    hamming s t = 1 → ∃ i, ∃ hi : i < s.length, ∃ c, s[i] ≠ c ∧ t = s.set i c
  | [], [], _, h => by simp [hamming] at h
  | [], _ :: _, hl, _ => by simp at hl
  | _ :: _, [], hl, _ => by simp at hl
  | a :: as, b :: bs, hl, h => by
    simp only [hamming] at h
    have hl' : as.length = bs.length := by simpa using hl
    by_cases e : a = b
    · simp only [e, if_true, Nat.zero_add] at h
      obtain ⟨i, hi, c, hne, ht⟩ := hamming_one hl' h
      refine ⟨i + 1, by simp only [List.length_cons]; omega, c, ?_, ?_⟩
      · simpa using hne
      · rw [e, ht]; rfl
    · simp only [e, if_false] at h
      have : hamming as bs = 0 := by omega
      have := hamming_zero hl' this
      refine ⟨0, by simp, b, by simpa using e, ?_⟩
      rw [this]; rfl

theorem hamming_self {α} [DecidableEq α] : ∀ s : List α, hamming s s = 0
  | [] => rfl
  | a :: as => by simp [hamming, hamming_self as]

theorem two_list {a b : Engine} (h : Two a b) {s : List Char} (hs : AllValid s) :
    ∃ a' b', a.inputUnchecked s = some a' ∧ b.inputUnchecked s = some b' ∧ Two a' b' := by
  induction s generalizing a b with
  | nil => exact ⟨a, b, rfl, rfl, h⟩
  | cons c cs ih =>
    obtain ⟨hc, hcs⟩ := hs.of_cons
    obtain ⟨p, hp, hlt⟩ := pos_of_valid c hc
    have wa : WF a := by cases h with | done h => exact h.2.1 | pend _ _ _ _ _ _ h _ _ => exact h.wa
    have wb : WF b := by cases h with | done h => exact h.2.2.1 | pend _ _ _ _ _ _ h _ _ => exact h.wb
    simp only [Engine.inputUnchecked, inputByte_eq wa hp hlt, inputByte_eq wb hp hlt]
    exact ih (two_same h hlt) hcs

theorem One.wf {K : Nat} {a b : Engine} (h : One K a b) : WF a ∧ WF b := by
  cases h with
  | pend _ _ h => exact ⟨h.wa, h.wb⟩
  | res _ _ _ _ h _ _ _ => exact ⟨h.wa, h.wb⟩

theorem one_list {K : Nat} {a b : Engine} (h : One K a b) {s : List Char} (hs : AllValid s) :
    ∃ a' b', a.inputUnchecked s = some a' ∧ b.inputUnchecked s = some b' ∧
      One (K + s.length) a' b' := by
  induction s generalizing a b K with
  | nil => exact ⟨a, b, rfl, rfl, h⟩
  | cons c cs ih =>
    obtain ⟨hc, hcs⟩ := hs.of_cons
    obtain ⟨p, hp, hlt⟩ := pos_of_valid c hc
    simp only [Engine.inputUnchecked, inputByte_eq h.wf.1 hp hlt, inputByte_eq h.wf.2 hp hlt]
    obtain ⟨a', b', ha, hb, ho⟩ := ih (one_same h hlt) hcs
    refine ⟨a', b', ha, hb, ?_⟩
    have e : K + 1 + cs.length = K + (c :: cs).length := by simp only [List.length_cons]; omega
    rw [← e]; exact ho

/-- one differing character seen, exactly one more to come -/
theorem one_run {K : Nat} {a b : Engine} (h : One K a b) :
    ∀ {s t : List Char}, s.length = t.length → AllValid s → AllValid t → hamming s t = 1 →
      (K + s.length) + (K + s.length) / 3 + 4 ≤ 1040 →
      ∃ a' b', a.inputUnchecked s = some a' ∧ b.inputUnchecked t = some b' ∧ Two a' b' := by
  intro s
  induction s generalizing a b K with
  | nil => intro t hl _ _ hh _; cases t <;> simp [hamming] at hh hl
  | cons c cs ih =>
    intro t hl hs ht hh hK
    cases t with
    | nil => simp at hl
    | cons c' cs' =>
      obtain ⟨hc, hcs⟩ := hs.of_cons
      obtain ⟨hc', hcs'⟩ := ht.of_cons
      obtain ⟨p, hp, hlt⟩ := pos_of_valid c hc
      obtain ⟨q, hq, hlt'⟩ := pos_of_valid c' hc'
      have hl' : cs.length = cs'.length := by simpa using hl
      simp only [Engine.inputUnchecked, inputByte_eq h.wf.1 hp hlt, inputByte_eq h.wf.2 hq hlt']
      simp only [hamming] at hh
      simp only [List.length_cons] at hK
      by_cases e : c = c'
      · subst e
        rw [hp] at hq; cases hq
        simp only [if_true, Nat.zero_add] at hh
        exact ih (one_same h hlt) hl' hcs hcs' hh (by omega)
      · simp only [e, if_false] at hh
        have hz : hamming cs cs' = 0 := by omega
        have := hamming_zero hl' hz
        subst this
        have hpq : p ≠ q := by
          intro e'; apply e; apply pos_inj hc hc'; rw [hp, hq, e']
        exact two_list (one_diff h hlt hlt' hpq (by omega)) hcs

/-- exactly one differing character in the whole string -/
theorem zero_run1 {en : Engine} (w : WF en) :
    ∀ {s t : List Char}, s.length = t.length → AllValid s → AllValid t → hamming s t = 1 →
      ∃ a' b', en.inputUnchecked s = some a' ∧ en.inputUnchecked t = some b' ∧
        One s.length a' b' := by
  intro s
  induction s generalizing en with
  | nil => intro t hl _ _ hh; cases t <;> simp [hamming] at hh hl
  | cons c cs ih =>
    intro t hl hs ht hh
    cases t with
    | nil => simp at hl
    | cons c' cs' =>
      obtain ⟨hc, hcs⟩ := hs.of_cons
      obtain ⟨hc', hcs'⟩ := ht.of_cons
      obtain ⟨p, hp, hlt⟩ := pos_of_valid c hc
      obtain ⟨q, hq, hlt'⟩ := pos_of_valid c' hc'
      have hl' : cs.length = cs'.length := by simpa using hl
      simp only [Engine.inputUnchecked, inputByte_eq w hp hlt, inputByte_eq w hq hlt']
      simp only [hamming] at hh
      by_cases e : c = c'
      · subst e
        rw [hp] at hq; cases hq
        simp only [if_true, Nat.zero_add] at hh
        obtain ⟨a', b', ha, hb, ho⟩ := ih (WF_next w hlt) hl' hcs hcs' hh
        refine ⟨a', b', ha, hb, ?_⟩
        cases ho with
        | pend lo d h => exact .pend lo d h
        | res n δ lo bs h hp' hc'' hn =>
          exact .res n δ lo bs h hp' hc'' (by simp only [List.length_cons]; omega)
      · simp only [e, if_false] at hh
        have hz : hamming cs cs' = 0 := by omega
        have := hamming_zero hl' hz
        subst this
        have hpq : p ≠ q := by
          intro e'; apply e; apply pos_inj hc hc'; rw [hp, hq, e']
        obtain ⟨a', b', ha, hb, ho⟩ := one_list (zero_diff w hlt hlt' hpq) hcs
        refine ⟨a', b', ha, hb, ?_⟩
        cases ho with
        | pend lo d h => exact .pend lo d h
        | res n δ lo bs h hp' hc'' hn =>
          exact .res n δ lo bs h hp' hc'' (by simp only [List.length_cons]; omega)

/-- exactly two differing characters in the whole string -/
theorem zero_run2 {en : Engine} (w : WF en) :
    ∀ {s t : List Char}, s.length = t.length → AllValid s → AllValid t → hamming s t = 2 →
      s.length + s.length / 3 + 4 ≤ 1040 →
      ∃ a' b', en.inputUnchecked s = some a' ∧ en.inputUnchecked t = some b' ∧ Two a' b' := by
  intro s
  induction s generalizing en with
  | nil => intro t hl _ _ hh; cases t <;> simp [hamming] at hh hl
  | cons c cs ih =>
    intro t hl hs ht hh hK
    cases t with
    | nil => simp at hl
    | cons c' cs' =>
      obtain ⟨hc, hcs⟩ := hs.of_cons
      obtain ⟨hc', hcs'⟩ := ht.of_cons
      obtain ⟨p, hp, hlt⟩ := pos_of_valid c hc
      obtain ⟨q, hq, hlt'⟩ := pos_of_valid c' hc'
      have hl' : cs.length = cs'.length := by simpa using hl
      simp only [Engine.inputUnchecked, inputByte_eq w hp hlt, inputByte_eq w hq hlt']
      simp only [hamming] at hh
      simp only [List.length_cons] at hK
      by_cases e : c = c'
      · subst e
        rw [hp] at hq; cases hq
        simp only [if_true, Nat.zero_add] at hh
        exact ih (WF_next w hlt) hl' hcs hcs' hh (by omega)
      · simp only [e, if_false] at hh
        have hpq : p ≠ q := by
          intro e'; apply e; apply pos_inj hc hc'; rw [hp, hq, e']
        exact one_run (zero_diff w hlt hlt' hpq) hl' hcs hcs' (by omega) (by omega)

/-! ## consequences for whole checksums -/

theorem checksumOf_of_run {s : List Char} (hs : AllValid s) {en : Engine} {r : W}
    (he : Engine.new.inputUnchecked s = some en) (hr : en.finalResidue = some r) :
    checksumOf s = some (residueChars r) := by
  unfold checksumOf; rw [input_eq hs, he]; simp [Engine.checksumChars, hr]

/-- two substituted characters in the body (any classes, anywhere) change the checksum, for
bodies of at most 777 characters -/
theorem checksum_differs2 {s t : List Char} (hl : s.length = t.length) (hs : AllValid s)
    (ht : AllValid t) (hh : hamming s t = 2) (hK : s.length + s.length / 3 + 4 ≤ 1040) :
    ∃ c1 c2, checksumOf s = some c1 ∧ checksumOf t = some c2 ∧ c1 ≠ c2 := by
  obtain ⟨a', b', ha, hb, h2⟩ := zero_run2 WF_new hl hs ht hh hK
  obtain ⟨ra, rb, hra, hrb, hne⟩ := two_final h2
  exact ⟨_, _, checksumOf_of_run hs ha hra, checksumOf_of_run ht hb hrb,
    fun e => hne (residueChars_inj e)⟩

/-- one substituted character: the final residues differ by a known syndrome `L^M (pattern)` -/
theorem checksum_one {s t : List Char} (hl : s.length = t.length) (hs : AllValid s)
    (ht : AllValid t) (hh : hamming s t = 1) :
    ∃ ra rb M δ lo bs, checksumOf s = some (residueChars ra) ∧
      checksumOf t = some (residueChars rb) ∧ PatOk δ lo bs ∧
      ra ^^^ rb = Lpow M (pat δ lo bs) ∧ 8 ≤ M ∧ M ≤ s.length + s.length / 3 + 9 := by
  obtain ⟨a', b', ha, hb, h1⟩ := zero_run1 WF_new hl hs ht hh
  obtain ⟨ra, rb, M, δ, lo, bs, hra, hrb, hp, hx, h8, hM⟩ := one_final h1
  exact ⟨ra, rb, M, δ, lo, bs, checksumOf_of_run hs ha hra, checksumOf_of_run ht hb hrb, hp, hx,
    h8, hM⟩

/-! ## one wrong checksum character = one wrong digit of the residue -/

theorem unpack_xor (x y : W) (n : Nat) : unpack (x ^^^ y) n = unpack x n ^^^ unpack y n := by
  unfold unpack
  rw [BitVec.toNat_ushiftRight, BitVec.toNat_ushiftRight, BitVec.toNat_ushiftRight,
    BitVec.toNat_xor, Nat.shiftRight_xor_distrib]
  exact Nat.xor_mod_two_pow (n := 5)

theorem residueChars_get (r : W) (j : Nat) (hj : j < 8) :
    (residueChars r)[j]? = some (CHARS_LOWER.getD (unpack r (7 - j)) 'q') := by
  have : j = 0 ∨ j = 1 ∨ j = 2 ∨ j = 3 ∨ j = 4 ∨ j = 5 ∨ j = 6 ∨ j = 7 := by omega
  rcases this with rfl | rfl | rfl | rfl | rfl | rfl | rfl | rfl <;> rfl

theorem one_digit {ra rb : W} {j0 : Nat} (hj0 : j0 < 8)
    (h : ∀ j, j < 8 → j ≠ j0 → (residueChars ra)[j]? = (residueChars rb)[j]?) :
    ∃ e, e < 32 ∧ ra ^^^ rb = BitVec.ofNat 40 e <<< (5 * (7 - j0)) := by
  have hd : ∀ n, n < 8 → n ≠ 7 - j0 → unpack (ra ^^^ rb) n = 0 := by
    intro n hn hne
    have := h (7 - n) (by omega) (by omega)
    rw [residueChars_get _ _ (by omega), residueChars_get _ _ (by omega)] at this
    have e := charsLower_inj _ (unpack_lt ra _) _ (unpack_lt rb _) (Option.some.inj this)
    rw [show 7 - (7 - n) = n by omega] at e
    rw [unpack_xor, e, Nat.xor_self]
  refine ⟨unpack (ra ^^^ rb) (7 - j0), unpack_lt _ _, ?_⟩
  generalize ra ^^^ rb = D at hd ⊢
  have hlt := D.isLt
  apply BitVec.eq_of_toNat_eq
  rw [BitVec.toNat_shiftLeft, BitVec.toNat_ofNat, Nat.shiftLeft_eq]
  have d0 := hd 0; have d1 := hd 1; have d2 := hd 2; have d3 := hd 3
  have d4 := hd 4; have d5 := hd 5; have d6 := hd 6; have d7 := hd 7
  simp only [unpack_eq] at d0 d1 d2 d3 d4 d5 d6 d7 ⊢
  simp only [Nat.reducePow, Nat.reduceMul] at d0 d1 d2 d3 d4 d5 d6 d7 hlt
  have : j0 = 0 ∨ j0 = 1 ∨ j0 = 2 ∨ j0 = 3 ∨ j0 = 4 ∨ j0 = 5 ∨ j0 = 6 ∨ j0 = 7 := by omega
  rcases this with rfl | rfl | rfl | rfl | rfl | rfl | rfl | rfl <;>
    simp only [Nat.reduceSub, Nat.reduceMul, Nat.reducePow] at * <;> omega

/-- one substituted body character AND one substituted checksum character: the corrupted
checksum is not the checksum of the corrupted body (bodies of at most 773 characters) -/
theorem body_and_checksum {s t cs : List Char} (hl : s.length = t.length) (hs : AllValid s)
    (ht : AllValid t) (hh : hamming s t = 1) (hcs : checksumOf s = some cs) {j : Nat} {c : Char}
    (hK : s.length + s.length / 3 + 9 ≤ 1040) :
    checksumOf t ≠ some (cs.set j c) := by
  obtain ⟨ra, rb, M, δ, lo, bs, h1, h2, hp, hx, h8, hM⟩ := checksum_one hl hs ht hh
  rw [hcs] at h1
  have hcs' : cs = residueChars ra := Option.some.inj h1
  subst hcs'
  intro e
  rw [h2] at e
  have e' : residueChars rb = (residueChars ra).set j c := Option.some.inj e
  by_cases hj : j < 8
  · have hdig : ∀ i, i < 8 → i ≠ j → (residueChars ra)[i]? = (residueChars rb)[i]? := by
      intro i _ hne
      rw [e', List.getElem?_set]
      simp [Ne.symm hne]
    obtain ⟨ev, hev, hD⟩ := one_digit hj hdig
    rw [hx] at hD
    -- peel `k = 7 - j` steps off both sides
    have hk : 7 - j ≤ 7 := by omega
    rw [← Lpow_ofNat ev hev (7 - j) hk] at hD
    have hM' : M = (7 - j) + (M - (7 - j)) := by omega
    rw [hM', Lpow_add] at hD
    have hD' := Lpow_inj _ hD
    have hpat0 : pat 1 0 ev = BitVec.ofNat 40 ev := by unfold pat; simp
    by_cases hg : 2 ≤ M - (7 - j)
    · rw [← hpat0] at hD'
      exact no_clash hp ⟨by omega, by omega⟩ (by omega) hev (by omega) (by omega) (by omega) hD'
    · -- distance 1: a pure shift, the low symbol of `L X` is zero
      have h1g : M - (7 - j) = 1 := by omega
      rw [h1g] at hD'
      have hsm := pat_lt δ (by have := hp.d3; omega) lo hp.lo32 bs hp.bs32
      have h35 : (pat δ lo bs).toNat < 2 ^ 35 := by
        have : 2 ^ (5 * (δ + 1)) ≤ 2 ^ 35 := Nat.pow_le_pow_right (by decide) (by have := hp.d3; omega)
        omega
      have hN := congrArg BitVec.toNat hD'
      rw [show Lpow 1 (pat δ lo bs) = L (pat δ lo bs) from rfl, L_small _ h35,
        BitVec.toNat_ofNat, Nat.mod_eq_of_lt (by omega)] at hN
      have hz : (pat δ lo bs).toNat = 0 := by omega
      exact pat_ne_zero hp (BitVec.eq_of_toNat_eq (by simpa using hz))
  · -- `set` out of range changes nothing: both checksums equal, impossible
    rw [List.set_eq_of_length_le (by rw [residueChars_length]; omega)] at e'
    have := residueChars_inj e'
    rw [← this, BitVec.xor_self] at hx
    exact pat_ne_zero hp (Lpow_eq_zero M hx.symm)

/-- the last `#` of a string -/
theorem last_hash_split : ∀ {l : List Char}, '#' ∈ l → ∃ u v, l = u ++ '#' :: v ∧ '#' ∉ v
  | [], h => by cases h
  | c :: cs, h => by
    by_cases hin : '#' ∈ cs
    · obtain ⟨u, v, e, hv⟩ := last_hash_split hin
      exact ⟨c :: u, v, by rw [e]; rfl, hv⟩
    · rcases List.mem_cons.mp h with e | e
      · exact ⟨[], cs, by rw [← e]; rfl, hin⟩
      · exact absurd e hin

end MsVerif.Checksum

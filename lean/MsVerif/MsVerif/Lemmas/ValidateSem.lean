/-
Helper lemmas for C12: what the type letters `d` and `s` of a well-typed fragment MEAN in the
specification's table of canonical (dis)satisfactions (Spec/SatTable.lean):

* `dsat_of_type`       — type says `d`  ⇒  a canonical dissatisfaction exists (any assets, raw
                          keys known);
* `kids_of_type`       — hence every `thresh` node of a well-typed script has only
                          dissatisfiable children (`threshKidsOK`, used by C12's
                          `switch_exact_unsatisfiable`);
* `signed_eq_noSigSat` — type says `s`  ⇔  NO canonical satisfaction exists when no signature at
                          all is available (everything else being available): the independent
                          meaning of the `allow_sigless_branch` switch.
-/
import MsVerif.Lemmas.ValidateSat
import MsVerif.Lemmas.Thresh
import MsVerif.Model.TypeCheck

namespace MsVerif
open Spec SatTable

/-! ### the `dissat` letter of every rule -/

theorem castAlt_d {s y : Corr} (h : Corr.castAlt s = some y) : y.dissat = s.dissat := by
  unfold Corr.castAlt at h; split at h <;> simp at h; subst h; rfl
theorem castSwap_d {s y : Corr} (h : Corr.castSwap s = some y) : y.dissat = s.dissat := by
  unfold Corr.castSwap at h; split at h <;> try simp at h
  split at h <;> simp at h <;> (subst h; rfl)
theorem castCheck_d {s y : Corr} (h : Corr.castCheck s = some y) : y.dissat = s.dissat := by
  unfold Corr.castCheck at h; split at h <;> simp at h; subst h; rfl
theorem castZNE_d {s y : Corr} (h : Corr.castZeroNotEqual s = some y) : y.dissat = s.dissat := by
  unfold Corr.castZeroNotEqual at h; split at h <;> simp at h; subst h; rfl
theorem castVerify_d {s y : Corr} (h : Corr.castVerify s = some y) : y.dissat = false := by
  unfold Corr.castVerify at h; split at h <;> simp at h; subst h; rfl
theorem andV_d {l r y : Corr} (h : Corr.andV l r = some y) : y.dissat = false := by
  unfold Corr.andV at h; split at h <;> simp at h <;> (subst h; rfl)
theorem andB_d {l r y : Corr} (h : Corr.andB l r = some y) : y.dissat = (l.dissat && r.dissat) := by
  unfold Corr.andB at h; split at h <;> simp at h; subst h; rfl
theorem orB_d {l r y : Corr} (h : Corr.orB l r = some y) : l.dissat = true ∧ r.dissat = true := by
  unfold Corr.orB at h
  cases hl : l.dissat <;> cases hr : r.dissat <;> simp [hl, hr] at h ⊢
theorem orD_d {l r y : Corr} (h : Corr.orD l r = some y) :
    l.dissat = true ∧ y.dissat = r.dissat := by
  unfold Corr.orD at h
  cases hl : l.dissat <;> cases hu : l.unit <;> simp [hl, hu] at h ⊢
  split at h <;> simp at h; subst h; rfl
theorem orC_d {l r y : Corr} (h : Corr.orC l r = some y) :
    l.dissat = true ∧ y.dissat = false := by
  unfold Corr.orC at h
  cases hl : l.dissat <;> cases hu : l.unit <;> simp [hl, hu] at h ⊢
  split at h <;> simp at h; subst h; rfl
theorem orI_d {l r y : Corr} (h : Corr.orI l r = some y) : y.dissat = (l.dissat || r.dissat) := by
  unfold Corr.orI at h; split at h <;> simp at h <;> (subst h; rfl)
theorem andOr_d {a b c y : Corr} (h : Corr.andOr a b c = some y) :
    a.dissat = true ∧ y.dissat = c.dissat := by
  unfold Corr.andOr at h
  cases ha : a.dissat <;> cases hu : a.unit <;> simp [ha, hu] at h ⊢
  split at h <;> simp at h <;> (subst h; rfl)

theorem threshLoop_d : ∀ (subs : List Corr) (i acc n : Nat),
    Corr.threshLoop i acc subs = some n → ∀ s ∈ subs, s.dissat = true
  | [], _, _, _, _ => by intro s hs; cases hs
  | s :: rest, i, acc, n, h => by
    unfold Corr.threshLoop at h
    simp only at h
    split at h
    · simp at h
    · split at h
      · simp at h
      · split at h
        · simp at h
        · split at h
          · simp at h
          · rename_i hd
            intro t ht
            rcases List.mem_cons.mp ht with rfl | ht
            · simpa using hd
            · exact threshLoop_d rest _ _ n h t ht

theorem threshold_d {k : Nat} {subs : List Corr} {y : Corr} (h : Corr.threshold k subs = some y) :
    ∀ s ∈ subs, s.dissat = true := by
  unfold Corr.threshold at h
  cases hl : Corr.threshLoop 0 0 subs with
  | none => simp [hl] at h
  | some n => exact threshLoop_d subs 0 0 n hl

/-! ### inversion of `typeOf` -/

theorem typeOf_unary {f : Ty → Option Ty} {x : Ms} {ty : Ty} (h : (typeOf x).bind f = some ty) :
    ∃ tx, typeOf x = some tx ∧ f tx = some ty := by
  cases hx : typeOf x with
  | none => simp [hx] at h
  | some tx => exact ⟨tx, rfl, by simpa [hx] using h⟩

theorem lift1_inv {fc : Corr → Option Corr} {fm : Mall → Mall} {t ty : Ty}
    (h : Ty.lift1 fc fm t = some ty) : fc t.corr = some ty.corr ∧ ty.mall = fm t.mall := by
  unfold Ty.lift1 at h
  cases e : fc t.corr with
  | none => simp [e] at h
  | some c => simp only [e, Option.some.injEq] at h; subst h; exact ⟨rfl, rfl⟩

theorem lift2_inv {fc : Corr → Corr → Option Corr} {fm : Mall → Mall → Mall} {l r ty : Ty}
    (h : Ty.lift2 fc fm l r = some ty) :
    fc l.corr r.corr = some ty.corr ∧ ty.mall = fm l.mall r.mall := by
  unfold Ty.lift2 at h
  cases e : fc l.corr r.corr with
  | none => simp [e] at h
  | some c => simp only [e, Option.some.injEq] at h; subst h; exact ⟨rfl, rfl⟩

theorem typeOf_andV_inv {l r : Ms} {ty : Ty} (h : typeOf (.andV l r) = some ty) :
    ∃ tl tr, typeOf l = some tl ∧ typeOf r = some tr ∧ Ty.andV tl tr = some ty := by
  simp only [typeOf] at h
  cases hl : typeOf l with
  | none => simp [hl] at h
  | some tl =>
    cases hr : typeOf r with
    | none => simp [hl, hr] at h
    | some tr => exact ⟨tl, tr, rfl, rfl, by simpa [hl, hr] using h⟩

theorem typeOf_andB_inv {l r : Ms} {ty : Ty} (h : typeOf (.andB l r) = some ty) :
    ∃ tl tr, typeOf l = some tl ∧ typeOf r = some tr ∧ Ty.andB tl tr = some ty := by
  simp only [typeOf] at h
  cases hl : typeOf l with
  | none => simp [hl] at h
  | some tl =>
    cases hr : typeOf r with
    | none => simp [hl, hr] at h
    | some tr => exact ⟨tl, tr, rfl, rfl, by simpa [hl, hr] using h⟩

theorem typeOf_orB_inv {l r : Ms} {ty : Ty} (h : typeOf (.orB l r) = some ty) :
    ∃ tl tr, typeOf l = some tl ∧ typeOf r = some tr ∧ Ty.orB tl tr = some ty := by
  simp only [typeOf] at h
  cases hl : typeOf l with
  | none => simp [hl] at h
  | some tl =>
    cases hr : typeOf r with
    | none => simp [hl, hr] at h
    | some tr => exact ⟨tl, tr, rfl, rfl, by simpa [hl, hr] using h⟩

theorem typeOf_orD_inv {l r : Ms} {ty : Ty} (h : typeOf (.orD l r) = some ty) :
    ∃ tl tr, typeOf l = some tl ∧ typeOf r = some tr ∧ Ty.orD tl tr = some ty := by
  simp only [typeOf] at h
  cases hl : typeOf l with
  | none => simp [hl] at h
  | some tl =>
    cases hr : typeOf r with
    | none => simp [hl, hr] at h
    | some tr => exact ⟨tl, tr, rfl, rfl, by simpa [hl, hr] using h⟩

theorem typeOf_orC_inv {l r : Ms} {ty : Ty} (h : typeOf (.orC l r) = some ty) :
    ∃ tl tr, typeOf l = some tl ∧ typeOf r = some tr ∧ Ty.orC tl tr = some ty := by
  simp only [typeOf] at h
  cases hl : typeOf l with
  | none => simp [hl] at h
  | some tl =>
    cases hr : typeOf r with
    | none => simp [hl, hr] at h
    | some tr => exact ⟨tl, tr, rfl, rfl, by simpa [hl, hr] using h⟩

theorem typeOf_orI_inv {l r : Ms} {ty : Ty} (h : typeOf (.orI l r) = some ty) :
    ∃ tl tr, typeOf l = some tl ∧ typeOf r = some tr ∧ Ty.orI tl tr = some ty := by
  simp only [typeOf] at h
  cases hl : typeOf l with
  | none => simp [hl] at h
  | some tl =>
    cases hr : typeOf r with
    | none => simp [hl, hr] at h
    | some tr => exact ⟨tl, tr, rfl, rfl, by simpa [hl, hr] using h⟩

theorem andOr_inv {a b c ty : Ty} (h : Ty.andOr a b c = some ty) :
    Corr.andOr a.corr b.corr c.corr = some ty.corr ∧ ty.mall = Mall.andOr a.mall b.mall c.mall := by
  unfold Ty.andOr at h
  cases e : Corr.andOr a.corr b.corr c.corr with
  | none => simp [e] at h
  | some x => simp only [e, Option.some.injEq] at h; subst h; exact ⟨rfl, rfl⟩

theorem threshold_inv {k : Nat} {tys : List Ty} {ty : Ty} (h : Ty.threshold k tys = some ty) :
    Corr.threshold k (tys.map (·.corr)) = some ty.corr
      ∧ ty.mall = Mall.threshold k (tys.map (·.mall)) := by
  unfold Ty.threshold at h
  cases e : Corr.threshold k (tys.map (·.corr)) with
  | none => simp [e] at h
  | some x => simp only [e, Option.some.injEq] at h; subst h; exact ⟨rfl, rfl⟩

theorem typeOf_andOr {a b c : Ms} {ty : Ty} (h : typeOf (.andOr a b c) = some ty) :
    ∃ ta tb tc, typeOf a = some ta ∧ typeOf b = some tb ∧ typeOf c = some tc
      ∧ Ty.andOr ta tb tc = some ty := by
  simp only [typeOf] at h
  cases ha : typeOf a with
  | none => simp [ha] at h
  | some ta =>
    cases hb : typeOf b with
    | none => simp [ha, hb] at h
    | some tb =>
      cases hc : typeOf c with
      | none => simp [ha, hb, hc] at h
      | some tc => exact ⟨ta, tb, tc, rfl, rfl, rfl, by simpa [ha, hb, hc] using h⟩

theorem typesOf_cons {x : Ms} {xs : MsList} {tys : List Ty} (h : typesOf (.cons x xs) = some tys) :
    ∃ t ts, typeOf x = some t ∧ typesOf xs = some ts ∧ tys = t :: ts := by
  simp only [typesOf] at h
  cases hx : typeOf x with
  | none => simp [hx] at h
  | some t =>
    cases hxs : typesOf xs with
    | none => simp [hx, hxs] at h
    | some ts => exact ⟨t, ts, rfl, rfl, by simpa [hx, hxs] using h.symm⟩

/-! ### `d` ⇒ a canonical dissatisfaction exists -/

mutual
theorem dsat_of_type (a : Avail) (ha : ∀ h, a.rawKey h = true) : (ms : Ms) → ∀ ty,
    typeOf ms = some ty → ty.corr.dissat = true → dsatEx a ms = true
  | .tru, ty, h, hd => by simp only [typeOf, Option.some.injEq] at h; subst h; cases hd
  | .fls, _, _, _ => by simp [dsatEx]
  | .pkK _, _, _, _ => by simp [dsatEx]
  | .pkH _, _, _, _ => by simp [dsatEx]
  | .rawPkH _, _, _, _ => by simp [dsatEx, ha]
  | .after _, ty, h, hd => by simp only [typeOf, Option.some.injEq] at h; subst h; cases hd
  | .older _, ty, h, hd => by simp only [typeOf, Option.some.injEq] at h; subst h; cases hd
  | .hash _ _, _, _, _ => by simp [dsatEx]
  | .multi _ _, _, _, _ => by simp [dsatEx]
  | .sortedMulti _ _, _, _, _ => by simp [dsatEx]
  | .multiA _ _, _, _, _ => by simp [dsatEx]
  | .sortedMultiA _ _, _, _, _ => by simp [dsatEx]
  | .alt x, ty, h, hd => by
    obtain ⟨tx, hx, hf⟩ := typeOf_unary (by simpa only [typeOf] using h)
    have := castAlt_d (lift1_inv hf).1
    simp only [dsatEx]; exact dsat_of_type a ha x tx hx (by rw [← this]; exact hd)
  | .swap x, ty, h, hd => by
    obtain ⟨tx, hx, hf⟩ := typeOf_unary (by simpa only [typeOf] using h)
    have := castSwap_d (lift1_inv hf).1
    simp only [dsatEx]; exact dsat_of_type a ha x tx hx (by rw [← this]; exact hd)
  | .check x, ty, h, hd => by
    obtain ⟨tx, hx, hf⟩ := typeOf_unary (by simpa only [typeOf] using h)
    have := castCheck_d (lift1_inv hf).1
    simp only [dsatEx]; exact dsat_of_type a ha x tx hx (by rw [← this]; exact hd)
  | .zeroNotEqual x, ty, h, hd => by
    obtain ⟨tx, hx, hf⟩ := typeOf_unary (by simpa only [typeOf] using h)
    have := castZNE_d (lift1_inv hf).1
    simp only [dsatEx]; exact dsat_of_type a ha x tx hx (by rw [← this]; exact hd)
  | .dupIf _, _, _, _ => by simp [dsatEx]
  | .nonZero _, _, _, _ => by simp [dsatEx]
  | .verify x, ty, h, hd => by
    obtain ⟨tx, hx, hf⟩ := typeOf_unary (by simpa only [typeOf] using h)
    have := castVerify_d (lift1_inv hf).1
    rw [this] at hd; cases hd
  | .andV l r, ty, h, hd => by
    obtain ⟨tl, tr, _, _, hf⟩ := typeOf_andV_inv h
    have := andV_d (lift2_inv hf).1
    rw [this] at hd; cases hd
  | .andB l r, ty, h, hd => by
    obtain ⟨tl, tr, hl, hr, hf⟩ := typeOf_andB_inv h
    have := andB_d (lift2_inv hf).1
    rw [this, Bool.and_eq_true] at hd
    simp only [dsatEx, Bool.and_eq_true]
    exact ⟨dsat_of_type a ha l tl hl hd.1, dsat_of_type a ha r tr hr hd.2⟩
  | .orB l r, ty, h, _ => by
    obtain ⟨tl, tr, hl, hr, hf⟩ := typeOf_orB_inv h
    have := orB_d (lift2_inv hf).1
    simp only [dsatEx, Bool.and_eq_true]
    exact ⟨dsat_of_type a ha l tl hl this.1, dsat_of_type a ha r tr hr this.2⟩
  | .orD l r, ty, h, hd => by
    obtain ⟨tl, tr, hl, hr, hf⟩ := typeOf_orD_inv h
    have := orD_d (lift2_inv hf).1
    simp only [dsatEx, Bool.and_eq_true]
    exact ⟨dsat_of_type a ha l tl hl this.1, dsat_of_type a ha r tr hr (by rw [← this.2]; exact hd)⟩
  | .orC l r, ty, h, hd => by
    obtain ⟨tl, tr, _, _, hf⟩ := typeOf_orC_inv h
    have := orC_d (lift2_inv hf).1
    rw [this.2] at hd; cases hd
  | .orI l r, ty, h, hd => by
    obtain ⟨tl, tr, hl, hr, hf⟩ := typeOf_orI_inv h
    have := orI_d (lift2_inv hf).1
    rw [this, Bool.or_eq_true] at hd
    simp only [dsatEx, Bool.or_eq_true]
    rcases hd with hd | hd
    · exact Or.inl (dsat_of_type a ha l tl hl hd)
    · exact Or.inr (dsat_of_type a ha r tr hr hd)
  | .andOr x y z, ty, h, hd => by
    obtain ⟨ta, tb, tc, hx, _, hz, hf⟩ := typeOf_andOr h
    have := andOr_d (andOr_inv hf).1
    simp only [dsatEx, Bool.and_eq_true]
    exact ⟨dsat_of_type a ha x ta hx this.1, dsat_of_type a ha z tc hz (by rw [← this.2]; exact hd)⟩
  | .thresh k xs, ty, h, _ => by
    obtain ⟨tys, hxs, hf⟩ : ∃ tys, typesOf xs = some tys ∧ Ty.threshold k tys = some ty := by
      simp only [typeOf] at h
      cases hx : typesOf xs with
      | none => simp [hx] at h
      | some tys => exact ⟨tys, rfl, by simpa [hx] using h⟩
    have hall := threshold_d (threshold_inv hf).1
    simp only [dsatEx]
    exact dsats_of_types a ha xs tys hxs (fun t ht => hall t.corr (List.mem_map.mpr ⟨t, ht, rfl⟩))
theorem dsats_of_types (a : Avail) (ha : ∀ h, a.rawKey h = true) : (xs : MsList) → ∀ tys,
    typesOf xs = some tys → (∀ t ∈ tys, t.corr.dissat = true) → allDsatEx a xs = true
  | .nil, _, _, _ => by simp [allDsatEx]
  | .cons x xs, tys, h, hd => by
    obtain ⟨t, ts, hx, hxs, rfl⟩ := typesOf_cons h
    simp only [allDsatEx, Bool.and_eq_true]
    exact ⟨dsat_of_type a ha x t hx (hd t (by simp)),
      dsats_of_types a ha xs ts hxs (fun t' ht => hd t' (by simp [ht]))⟩
end

/-! ### every `thresh` of a well-typed script has only dissatisfiable children -/

mutual
theorem kids_of_type : (ms : Ms) → ∀ ty, typeOf ms = some ty → everyNode kidsPred ms = true
  | .tru, _, _ | .fls, _, _ | .pkK _, _, _ | .pkH _, _, _ | .rawPkH _, _, _ | .after _, _, _
  | .older _, _, _ | .hash _ _, _, _ | .multi _ _, _, _ | .sortedMulti _ _, _, _
  | .multiA _ _, _, _ | .sortedMultiA _ _, _, _ => by simp [everyNode, kidsPred]
  | .alt x, ty, h | .swap x, ty, h | .check x, ty, h | .zeroNotEqual x, ty, h
  | .dupIf x, ty, h | .nonZero x, ty, h | .verify x, ty, h => by
    obtain ⟨tx, hx, _⟩ := typeOf_unary (by simpa only [typeOf] using h)
    simp [everyNode, kidsPred, kids_of_type x tx hx]
  | .andV l r, ty, h => by
    obtain ⟨tl, tr, hl, hr, _⟩ := typeOf_andV_inv h
    simp [everyNode, kidsPred, kids_of_type l tl hl, kids_of_type r tr hr]
  | .andB l r, ty, h => by
    obtain ⟨tl, tr, hl, hr, _⟩ := typeOf_andB_inv h
    simp [everyNode, kidsPred, kids_of_type l tl hl, kids_of_type r tr hr]
  | .orB l r, ty, h => by
    obtain ⟨tl, tr, hl, hr, _⟩ := typeOf_orB_inv h
    simp [everyNode, kidsPred, kids_of_type l tl hl, kids_of_type r tr hr]
  | .orD l r, ty, h => by
    obtain ⟨tl, tr, hl, hr, _⟩ := typeOf_orD_inv h
    simp [everyNode, kidsPred, kids_of_type l tl hl, kids_of_type r tr hr]
  | .orC l r, ty, h => by
    obtain ⟨tl, tr, hl, hr, _⟩ := typeOf_orC_inv h
    simp [everyNode, kidsPred, kids_of_type l tl hl, kids_of_type r tr hr]
  | .orI l r, ty, h => by
    obtain ⟨tl, tr, hl, hr, _⟩ := typeOf_orI_inv h
    simp [everyNode, kidsPred, kids_of_type l tl hl, kids_of_type r tr hr]
  | .andOr x y z, ty, h => by
    obtain ⟨ta, tb, tc, hx, hy, hz, _⟩ := typeOf_andOr h
    simp [everyNode, kidsPred, kids_of_type x ta hx, kids_of_type y tb hy, kids_of_type z tc hz]
  | .thresh k xs, ty, h => by
    obtain ⟨tys, hxs, hf⟩ : ∃ tys, typesOf xs = some tys ∧ Ty.threshold k tys = some ty := by
      simp only [typeOf] at h
      cases hx : typesOf xs with
      | none => simp [hx] at h
      | some tys => exact ⟨tys, rfl, by simpa [hx] using h⟩
    have hall := threshold_d (threshold_inv hf).1
    have hk : allDsatEx allAvail xs = true :=
      dsats_of_types allAvail (fun _ => rfl) xs tys hxs
        (fun t ht => hall t.corr (List.mem_map.mpr ⟨t, ht, rfl⟩))
    simp [everyNode, kidsPred, hk, kids_of_types xs tys hxs]
theorem kids_of_types : (xs : MsList) → ∀ tys, typesOf xs = some tys →
    everyNodeL kidsPred xs = true
  | .nil, _, _ => by simp [everyNodeL]
  | .cons x xs, tys, h => by
    obtain ⟨t, ts, hx, hxs, rfl⟩ := typesOf_cons h
    simp [everyNodeL, kids_of_type x t hx, kids_of_types xs ts hxs]
end

theorem threshKidsOK_of_typed (ms : Ms) (ty : Ty) (h : typeOf ms = some ty) :
    threshKidsOK ms = true := kids_of_type ms ty h

/-! ### `s` ⇔ no satisfaction without a signature -/

theorem counts_of_allDsat' (a : Avail) : (xs : MsList) → allDsatEx a xs = true →
    countDead a xs = 0 ∧ countOnlySat a xs = 0
      ∧ countCanSat a xs = (xs.toList.map (satEx a)).countP id
  | .nil, _ => by simp [countDead, countOnlySat, countCanSat, MsList.toList]
  | .cons x xs, h => by
    simp only [allDsatEx, Bool.and_eq_true] at h
    obtain ⟨i1, i2, i3⟩ := counts_of_allDsat' a xs h.2
    simp only [countDead, countOnlySat, countCanSat, MsList.toList, List.map_cons,
      List.countP_cons, h.1, i1, i2, i3, id]
    cases satEx a x <;> simp <;> omega

theorem noSig_rawKey : ∀ h, noSigAvail.rawKey h = true := fun _ => rfl

theorem filter_noSig (ks : List Key) : ks.filter noSigAvail.sig = [] := by
  simp [noSigAvail]

/-- number of `true`s plus number of `false`s -/
theorem countP_not_add (l : List Bool) : l.countP id + l.countP (!·) = l.length := by
  induction l with
  | nil => rfl
  | cons b bs ih => cases b <;> simp [List.countP_cons] <;> omega

theorem mall_threshold_signed (k : Nat) (ms : List Mall) :
    (Mall.threshold k ms).signed = decide (Thresh.cntS ms > ms.length - k) := by
  unfold Mall.threshold
  rw [Thresh.threshFold_eq]

theorem cntS_eq_countP (ms : List Mall) : Thresh.cntS ms = (ms.map (·.signed)).countP id := by
  unfold Thresh.cntS
  induction ms with
  | nil => rfl
  | cons m t ih => cases h : m.signed <;> simp [List.filter_cons, List.countP_cons, h, ih]

mutual
theorem signed_eq_noSigSat : (ms : Ms) → ruleRange ms = true → ∀ ty, typeOf ms = some ty →
    ty.mall.signed = !satEx noSigAvail ms
  | .tru, _, ty, h => by simp only [typeOf, Option.some.injEq] at h; subst h; simp [satEx]; rfl
  | .fls, _, ty, h => by simp only [typeOf, Option.some.injEq] at h; subst h; simp [satEx]; rfl
  | .pkK _, _, ty, h => by
    simp only [typeOf, Option.some.injEq] at h; subst h; simp [satEx, noSigAvail]; rfl
  | .pkH _, _, ty, h => by
    simp only [typeOf, Option.some.injEq] at h; subst h; simp [satEx, noSigAvail]; rfl
  | .rawPkH _, _, ty, h => by
    simp only [typeOf, Option.some.injEq] at h; subst h; simp [satEx, noSigAvail]; rfl
  | .after _, _, ty, h => by
    simp only [typeOf, Option.some.injEq] at h; subst h; simp [satEx, noSigAvail]; rfl
  | .older _, _, ty, h => by
    simp only [typeOf, Option.some.injEq] at h; subst h; simp [satEx, noSigAvail]; rfl
  | .hash _ _, _, ty, h => by
    simp only [typeOf, Option.some.injEq] at h; subst h; simp [satEx, noSigAvail]; rfl
  | .multi k ks, hr, ty, h => by
    simp only [ruleRange, everyNode, rangeOk, Bool.and_eq_true, decide_eq_true_eq] at hr
    simp only [typeOf, Option.some.injEq] at h; subst h
    simp only [satEx, filter_noSig, List.length_nil]
    have : decide (0 ≥ k) = false := by simp; omega
    rw [this]; rfl
  | .sortedMulti k ks, hr, ty, h => by
    simp only [ruleRange, everyNode, rangeOk, Bool.and_eq_true, decide_eq_true_eq] at hr
    simp only [typeOf, Option.some.injEq] at h; subst h
    simp only [satEx, filter_noSig, List.length_nil]
    have : decide (0 ≥ k) = false := by simp; omega
    rw [this]; rfl
  | .multiA k ks, hr, ty, h => by
    simp only [ruleRange, everyNode, rangeOk, Bool.and_eq_true, decide_eq_true_eq] at hr
    simp only [typeOf, Option.some.injEq] at h; subst h
    simp only [satEx, filter_noSig, List.length_nil]
    have : decide (0 ≥ k) = false := by simp; omega
    rw [this]; rfl
  | .sortedMultiA k ks, hr, ty, h => by
    simp only [ruleRange, everyNode, rangeOk, Bool.and_eq_true, decide_eq_true_eq] at hr
    simp only [typeOf, Option.some.injEq] at h; subst h
    simp only [satEx, filter_noSig, List.length_nil]
    have : decide (0 ≥ k) = false := by simp; omega
    rw [this]; rfl
  | .alt x, hr, ty, h => by
    simp only [ruleRange, everyNode, Bool.and_eq_true] at hr
    obtain ⟨tx, hx, hf⟩ := typeOf_unary (by simpa only [typeOf] using h)
    rw [(lift1_inv hf).2]; simp only [satEx, Mall.castAlt]
    exact signed_eq_noSigSat x hr.2 tx hx
  | .swap x, hr, ty, h => by
    simp only [ruleRange, everyNode, Bool.and_eq_true] at hr
    obtain ⟨tx, hx, hf⟩ := typeOf_unary (by simpa only [typeOf] using h)
    rw [(lift1_inv hf).2]; simp only [satEx, Mall.castSwap]
    exact signed_eq_noSigSat x hr.2 tx hx
  | .check x, hr, ty, h => by
    simp only [ruleRange, everyNode, Bool.and_eq_true] at hr
    obtain ⟨tx, hx, hf⟩ := typeOf_unary (by simpa only [typeOf] using h)
    rw [(lift1_inv hf).2]; simp only [satEx, Mall.castCheck]
    exact signed_eq_noSigSat x hr.2 tx hx
  | .zeroNotEqual x, hr, ty, h => by
    simp only [ruleRange, everyNode, Bool.and_eq_true] at hr
    obtain ⟨tx, hx, hf⟩ := typeOf_unary (by simpa only [typeOf] using h)
    rw [(lift1_inv hf).2]; simp only [satEx, Mall.castZeroNotEqual]
    exact signed_eq_noSigSat x hr.2 tx hx
  | .dupIf x, hr, ty, h => by
    simp only [ruleRange, everyNode, Bool.and_eq_true] at hr
    obtain ⟨tx, hx, hf⟩ := typeOf_unary (by simpa only [typeOf] using h)
    rw [(lift1_inv hf).2]; simp only [satEx, Mall.castDupIf]
    exact signed_eq_noSigSat x hr.2 tx hx
  | .verify x, hr, ty, h => by
    simp only [ruleRange, everyNode, Bool.and_eq_true] at hr
    obtain ⟨tx, hx, hf⟩ := typeOf_unary (by simpa only [typeOf] using h)
    rw [(lift1_inv hf).2]; simp only [satEx, Mall.castVerify]
    exact signed_eq_noSigSat x hr.2 tx hx
  | .nonZero x, hr, ty, h => by
    simp only [ruleRange, everyNode, Bool.and_eq_true] at hr
    obtain ⟨tx, hx, hf⟩ := typeOf_unary (by simpa only [typeOf] using h)
    rw [(lift1_inv hf).2]; simp only [satEx, Mall.castNonZero]
    exact signed_eq_noSigSat x hr.2 tx hx
  | .andV l r, hr, ty, h => by
    simp only [ruleRange, everyNode, Bool.and_eq_true] at hr
    obtain ⟨tl, tr, hl, hrr, hf⟩ := typeOf_andV_inv h
    rw [(lift2_inv hf).2]; simp only [satEx, Mall.andV]
    rw [signed_eq_noSigSat l hr.1.2 tl hl, signed_eq_noSigSat r hr.2 tr hrr]
    cases satEx noSigAvail l <;> cases satEx noSigAvail r <;> rfl
  | .andB l r, hr, ty, h => by
    simp only [ruleRange, everyNode, Bool.and_eq_true] at hr
    obtain ⟨tl, tr, hl, hrr, hf⟩ := typeOf_andB_inv h
    rw [(lift2_inv hf).2]; simp only [satEx, Mall.andB]
    rw [signed_eq_noSigSat l hr.1.2 tl hl, signed_eq_noSigSat r hr.2 tr hrr]
    cases satEx noSigAvail l <;> cases satEx noSigAvail r <;> rfl
  | .orB l r, hr, ty, h => by
    simp only [ruleRange, everyNode, Bool.and_eq_true] at hr
    obtain ⟨tl, tr, hl, hrr, hf⟩ := typeOf_orB_inv h
    have hd := orB_d (lift2_inv hf).1
    rw [(lift2_inv hf).2]; simp only [satEx, Mall.orB]
    rw [signed_eq_noSigSat l hr.1.2 tl hl, signed_eq_noSigSat r hr.2 tr hrr,
      dsat_of_type noSigAvail noSig_rawKey l tl hl hd.1,
      dsat_of_type noSigAvail noSig_rawKey r tr hrr hd.2]
    cases satEx noSigAvail l <;> cases satEx noSigAvail r <;> rfl
  | .orD l r, hr, ty, h => by
    simp only [ruleRange, everyNode, Bool.and_eq_true] at hr
    obtain ⟨tl, tr, hl, hrr, hf⟩ := typeOf_orD_inv h
    have hd := orD_d (lift2_inv hf).1
    rw [(lift2_inv hf).2]; simp only [satEx, Mall.orD]
    rw [signed_eq_noSigSat l hr.1.2 tl hl, signed_eq_noSigSat r hr.2 tr hrr,
      dsat_of_type noSigAvail noSig_rawKey l tl hl hd.1]
    cases satEx noSigAvail l <;> cases satEx noSigAvail r <;> rfl
  | .orC l r, hr, ty, h => by
    simp only [ruleRange, everyNode, Bool.and_eq_true] at hr
    obtain ⟨tl, tr, hl, hrr, hf⟩ := typeOf_orC_inv h
    have hd := orC_d (lift2_inv hf).1
    rw [(lift2_inv hf).2]; simp only [satEx, Mall.orC]
    rw [signed_eq_noSigSat l hr.1.2 tl hl, signed_eq_noSigSat r hr.2 tr hrr,
      dsat_of_type noSigAvail noSig_rawKey l tl hl hd.1]
    cases satEx noSigAvail l <;> cases satEx noSigAvail r <;> rfl
  | .orI l r, hr, ty, h => by
    simp only [ruleRange, everyNode, Bool.and_eq_true] at hr
    obtain ⟨tl, tr, hl, hrr, hf⟩ := typeOf_orI_inv h
    rw [(lift2_inv hf).2]; simp only [satEx, Mall.orI]
    rw [signed_eq_noSigSat l hr.1.2 tl hl, signed_eq_noSigSat r hr.2 tr hrr]
    cases satEx noSigAvail l <;> cases satEx noSigAvail r <;> rfl
  | .andOr x y z, hr, ty, h => by
    simp only [ruleRange, everyNode, Bool.and_eq_true] at hr
    obtain ⟨ta, tb, tc, hx, hy, hz, hf⟩ := typeOf_andOr h
    have hd := andOr_d (andOr_inv hf).1
    rw [(andOr_inv hf).2]; simp only [satEx, Mall.andOr]
    rw [signed_eq_noSigSat x hr.1.1.2 ta hx, signed_eq_noSigSat y hr.1.2 tb hy,
      signed_eq_noSigSat z hr.2 tc hz, dsat_of_type noSigAvail noSig_rawKey x ta hx hd.1]
    cases satEx noSigAvail x <;> cases satEx noSigAvail y <;> cases satEx noSigAvail z <;> rfl
  | .thresh k xs, hr, ty, h => by
    simp only [ruleRange, everyNode, Bool.and_eq_true, rangeOk, decide_eq_true_eq] at hr
    obtain ⟨⟨hk1, hk2⟩, hrest⟩ := hr
    obtain ⟨tys, hxs, hf⟩ : ∃ tys, typesOf xs = some tys ∧ Ty.threshold k tys = some ty := by
      simp only [typeOf] at h
      cases hx : typesOf xs with
      | none => simp [hx] at h
      | some tys => exact ⟨tys, rfl, by simpa [hx] using h⟩
    have hall := threshold_d (threshold_inv hf).1
    have hkids : allDsatEx noSigAvail xs = true :=
      dsats_of_types noSigAvail noSig_rawKey xs tys hxs
        (fun t ht => hall t.corr (List.mem_map.mpr ⟨t, ht, rfl⟩))
    obtain ⟨c1, c2, c3⟩ := counts_of_allDsat' noSigAvail xs hkids
    obtain ⟨hs, hlen⟩ := signed_list_eq xs hrest tys hxs
    rw [(threshold_inv hf).2, mall_threshold_signed, cntS_eq_countP]
    have hsum := countP_not_add (xs.toList.map (satEx noSigAvail))
    have e1 : ((tys.map (·.mall)).map (·.signed)).countP id
        = (xs.toList.map (satEx noSigAvail)).countP (!·) := by
      rw [List.map_map]
      show (tys.map (fun t => t.mall.signed)).countP id = _
      rw [hs, List.countP_map, List.countP_map]; rfl
    have hl2 : (xs.toList.map (satEx noSigAvail)).length = tys.length := by
      simp [MsList.length_toList, hlen]
    have hk2' : k ≤ tys.length := by rw [hlen]; exact hk2
    simp only [satEx, threshEx, c1, c2, c3, e1, List.length_map]
    rw [Bool.eq_iff_iff]
    simp only [List.countP_map, List.length_map, Function.id_comp, decide_eq_true_eq,
      Bool.not_eq_true', decide_eq_false_iff_not, Bool.true_and, beq_self_eq_true,
      Nat.zero_le, decide_true] at hsum hl2 ⊢
    omega
theorem signed_list_eq : (xs : MsList) → everyNodeL rangeOk xs = true → ∀ tys,
    typesOf xs = some tys →
    tys.map (fun t => t.mall.signed) = xs.toList.map (fun m => !satEx noSigAvail m)
      ∧ tys.length = xs.length
  | .nil, _, tys, h => by simp only [typesOf, Option.some.injEq] at h; subst h; exact ⟨rfl, rfl⟩
  | .cons x xs, hr, tys, h => by
    simp only [everyNodeL, Bool.and_eq_true] at hr
    obtain ⟨t, ts, hx, hxs, rfl⟩ := typesOf_cons h
    obtain ⟨i1, i2⟩ := signed_list_eq xs hr.2 ts hxs
    have := signed_eq_noSigSat x (by simpa [ruleRange] using hr.1) t hx
    exact ⟨by simp only [List.map_cons, MsList.toList, this, i1],
      by simp [MsList.length, i2]⟩
end

end MsVerif

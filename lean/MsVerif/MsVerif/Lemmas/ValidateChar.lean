/-
Helper lemmas for C12: an order-free characterisation of the literal model of
`Miniscript::validate` (`accepts ↔ conjunction of independent conditions`).  Everything in
Thm/C12.lean about monotonicity and switch exactness is derived from `validate_isOk`.
-/
import MsVerif.Model.Validate

namespace MsVerif
open ValidationParams

/-! ### `chk` -/

@[simp] theorem chk_isOk {α} (b : Bool) (e : VErr) (k : Except VErr α) :
    isOk (chk b e k) = (!b && isOk k) := by
  cases b <;> simp [chk, isOk]

theorem isOk_iff {ε α} (r : Except ε α) : isOk r = true ↔ ∃ a, r = .ok a := by
  cases r <;> simp [isOk]

@[simp] theorem isOk_ok {ε α} (a : α) : isOk (Except.ok a : Except ε α) = true := rfl
@[simp] theorem isOk_error {ε α} (e : ε) : isOk (Except.error e : Except ε α) = false := rfl

/-! ### keys -/

/-- `validate_pk` accepts -/
def pkOK (p : ValidationParams) (k : KeyKind) : Bool :=
  (p.allowCompressedKeys || p.allowXOnlyKeys || k != .compressed)
    && (p.allowUncompressedKeys || k != .uncompressed)
    && (p.allowXOnlyKeys || k != .xonly)

theorem validatePk_isOk (p : ValidationParams) (k : KeyKind) :
    isOk (validatePk p k) = pkOK p k := by
  cases k <;> simp [validatePk, pkOK] <;>
    cases p.allowCompressedKeys <;> cases p.allowXOnlyKeys <;> cases p.allowUncompressedKeys <;> rfl

/-- the multipath state machine without the switch: `none` = mismatch -/
def mpRun : Option Nat → List Nat → Option (Option Nat)
  | st, [] => some st
  | st, n :: ns =>
    if n = 0 ∨ n = 1 then mpRun st ns
    else match st with
      | none => mpRun (some n) ns
      | some x => if x = n then mpRun st ns else none

theorem mpRun_append (st : Option Nat) (a b : List Nat) :
    mpRun st (a ++ b) = (mpRun st a).bind fun s => mpRun s b := by
  induction a generalizing st with
  | nil => simp [mpRun]
  | cons n ns ih =>
    simp only [List.cons_append, mpRun]
    split
    · exact ih st
    · cases st with
      | none => exact ih _
      | some x =>
        simp only
        split
        · exact ih _
        · rfl

/-- what `keysCheck` returns when it succeeds -/
theorem keysCheck_ok (p : ValidationParams) (K : KeyInfo) (st s : Option Nat) (ks : List Key) :
    keysCheck p K st ks = .ok s ↔
      (ks.all fun k => pkOK p (K.kind k)) = true ∧
      (if p.allowInconsistentMultipathKeys then s = st
       else mpRun st (ks.map K.nPaths) = some s) := by
  induction ks generalizing st with
  | nil =>
    simp only [keysCheck, List.all_nil, List.map_nil, mpRun, true_and, Except.ok.injEq,
      Option.some.injEq]
    split <;> first | exact Iff.rfl | exact eq_comm
  | cons k ks ih =>
    have hpk := validatePk_isOk p (K.kind k)
    simp only [keysCheck, List.all_cons, List.map_cons, Bool.and_eq_true]
    cases hv : validatePk p (K.kind k) with
    | error e =>
      have hpk' : pkOK p (K.kind k) = false := by rw [← hpk, hv]; rfl
      simp [hpk']
    | ok u =>
      have hpk' : pkOK p (K.kind k) = true := by rw [← hpk, hv]; rfl
      simp only [hpk', true_and]
      cases hinc : p.allowInconsistentMultipathKeys with
      | true =>
        simp only [mpCheck, hinc, if_true]
        rw [ih]; simp [hinc]
      | false =>
        simp only [mpCheck, hinc, Bool.false_eq_true, if_false, mpRun]
        by_cases h01 : K.nPaths k = 0 ∨ K.nPaths k = 1
        · simp only [h01, if_true]
          rw [ih]; simp [hinc]
        · simp only [h01, if_false]
          cases st with
          | none => simp only []; rw [ih]; simp [hinc]
          | some x =>
            simp only []
            by_cases hx : x = K.nPaths k
            · simp only [hx, if_true]; rw [ih]; simp [hinc]
            · simp [hx]

/-- the switch part of the node loop -/
def flagOK (p : ValidationParams) : Ms → Bool
  | .dupIf _ => p.allowDupIf
  | .multi _ _ | .sortedMulti _ _ => p.allowMulti
  | .multiA _ _ | .sortedMultiA _ _ => p.allowMultiA
  | .orI _ _ => p.allowOrI
  | .rawPkH _ => p.allowRawPkh
  | _ => true

theorem nodeCheck_ok (p : ValidationParams) (K : KeyInfo) (st s : Option Nat) (m : Ms) :
    nodeCheck p K st m = .ok s ↔
      flagOK p m = true ∧ (m.nodeKeys.all fun k => pkOK p (K.kind k)) = true ∧
      (if p.allowInconsistentMultipathKeys then s = st
       else mpRun st (m.nodeKeys.map K.nPaths) = some s) := by
  have hnil : (Except.ok st : Except VErr (Option Nat)) = .ok s ↔
      (if p.allowInconsistentMultipathKeys then s = st else mpRun st [] = some s) := by
    simp only [mpRun, Except.ok.injEq, Option.some.injEq]
    split <;> first | exact Iff.rfl | exact eq_comm
  have hflag : ∀ (b : Bool) (e : VErr) (r : Except VErr (Option Nat)) (P : Prop),
      (r = .ok s ↔ P) → (chk (!b) e r = .ok s ↔ b = true ∧ P) := by
    intro b e r P h; cases b <;> simp [chk, h]
  cases m <;> simp only [nodeCheck, flagOK, Ms.nodeKeys, List.all_nil, List.map_nil, true_and]
  case dupIf x => exact hflag _ _ _ _ hnil
  case orI l r => exact hflag _ _ _ _ hnil
  case rawPkH h => exact hflag _ _ _ _ hnil
  case multi k ks => exact hflag _ _ _ _ (keysCheck_ok p K st s ks)
  case sortedMulti k ks => exact hflag _ _ _ _ (keysCheck_ok p K st s ks)
  case multiA k ks => exact hflag _ _ _ _ (keysCheck_ok p K st s ks)
  case sortedMultiA k ks => exact hflag _ _ _ _ (keysCheck_ok p K st s ks)
  case pkK k => exact keysCheck_ok p K st s [k]
  case pkH k => exact keysCheck_ok p K st s [k]
  all_goals exact hnil

theorem nodesCheck_ok (p : ValidationParams) (K : KeyInfo) (st s : Option Nat) (ms : List Ms) :
    nodesCheck p K st ms = .ok s ↔
      (ms.all (flagOK p)) = true ∧
      ((ms.flatMap Ms.nodeKeys).all fun k => pkOK p (K.kind k)) = true ∧
      (if p.allowInconsistentMultipathKeys then s = st
       else mpRun st ((ms.flatMap Ms.nodeKeys).map K.nPaths) = some s) := by
  induction ms generalizing st with
  | nil =>
    simp only [nodesCheck, List.all_nil, List.flatMap_nil, List.map_nil, mpRun, true_and,
      Except.ok.injEq, Option.some.injEq]
    split <;> first | exact Iff.rfl | exact eq_comm
  | cons m ms ih =>
    simp only [nodesCheck, List.all_cons, List.flatMap_cons, List.all_append, List.map_append,
      Bool.and_eq_true]
    cases hn : nodeCheck p K st m with
    | error e =>
      refine Iff.intro (fun h => by simp at h) ?_
      intro ⟨⟨h1, _⟩, ⟨h2, _⟩, h3⟩
      exfalso
      have : ¬ ∃ s', nodeCheck p K st m = .ok s' := by simp [hn]
      apply this
      cases hinc : p.allowInconsistentMultipathKeys with
      | true => exact ⟨st, (nodeCheck_ok p K st st m).2 ⟨h1, h2, by simp [hinc]⟩⟩
      | false =>
        simp only [hinc, Bool.false_eq_true, if_false, mpRun_append] at h3
        cases hr : mpRun st (m.nodeKeys.map K.nPaths) with
        | none => simp [hr] at h3
        | some s' => exact ⟨s', (nodeCheck_ok p K st s' m).2 ⟨h1, h2, by simp [hinc, hr]⟩⟩
    | ok s' =>
      have hn' := (nodeCheck_ok p K st s' m).1 hn
      obtain ⟨h1, h2, h3⟩ := hn'
      simp only [ih, h1, h2, true_and]
      cases hinc : p.allowInconsistentMultipathKeys with
      | true => simp only [hinc, if_true] at h3 ⊢; subst h3; rfl
      | false =>
        simp only [hinc, Bool.false_eq_true, if_false] at h3 ⊢
        simp [mpRun_append, h3]

/-- all key kinds are acceptable and the multipath lengths are consistent -/
def nodesOK (p : ValidationParams) (K : KeyInfo) (ms : Ms) : Bool :=
  ms.preorder.all (flagOK p) && (ms.iterPk.all fun k => pkOK p (K.kind k))
    && (p.allowInconsistentMultipathKeys || (mpRun none (ms.iterPk.map K.nPaths)).isSome)

theorem nodesCheck_isOk (p : ValidationParams) (K : KeyInfo) (ms : Ms) :
    isOk (nodesCheck p K none ms.preorder) = nodesOK p K ms := by
  rw [Bool.eq_iff_iff, isOk_iff]
  simp only [nodesCheck_ok, nodesOK, Ms.iterPk, Bool.and_eq_true, Bool.or_eq_true]
  constructor
  · rintro ⟨s, h1, h2, h3⟩
    refine ⟨⟨h1, h2⟩, ?_⟩
    cases hinc : p.allowInconsistentMultipathKeys with
    | true => simp
    | false => simp [hinc] at h3; simp [h3]
  · rintro ⟨⟨h1, h2⟩, h3⟩
    cases hinc : p.allowInconsistentMultipathKeys with
    | true => exact ⟨none, h1, h2, by simp⟩
    | false =>
      simp only [hinc, Bool.false_eq_true, false_or, Option.isSome_iff_exists] at h3
      obtain ⟨s, hs⟩ := h3
      exact ⟨s, h1, h2, by simp [hs]⟩

/-! ### resources -/

/-- the figures the limits are compared with -/
def witnessItems (d : SatData) : Nat := d.wCount + 1
def opCount (e : ExtData) (d : SatData) : Nat := e.staticOps + d.execOps
def execStack (d : SatData) : Nat := d.wCount + d.execStack

def resourceOK (p : ValidationParams) (size : Nat) (e : ExtData) : Bool :=
  (decide (USIZE_MAX ≤ p.maxScriptSize) || decide (size ≤ p.maxScriptSize))
    && (match e.satData with
        | none => true
        | some d => decide (witnessItems d ≤ p.maxWitnessItems)
            && decide (opCount e d ≤ p.maxOpcodeCount)
            && decide (execStack d ≤ p.maxExecStackSize))

theorem resourceCheck_isOk (p : ValidationParams) (size : Nat) (e : ExtData) :
    isOk (resourceCheck p size e) = resourceOK p size e := by
  unfold resourceCheck resourceOK
  have hb : ∀ (a b : Nat), (!decide (a > b)) = decide (a ≤ b) := by
    intro a b; by_cases h : a ≤ b <;> simp [h]; omega
  have hs : (!(decide (p.maxScriptSize < USIZE_MAX) && decide (size > p.maxScriptSize)))
      = (decide (USIZE_MAX ≤ p.maxScriptSize) || decide (size ≤ p.maxScriptSize)) := by
    rw [Bool.eq_iff_iff]
    simp only [Bool.not_and, Bool.or_eq_true, Bool.not_eq_true', decide_eq_false_iff_not,
      decide_eq_true_eq]
    omega
  cases e.satData with
  | none => simp only [chk_isOk, isOk_ok, Bool.and_true, hs]
  | some d =>
    simp only [chk_isOk, isOk_ok, Bool.and_true, hs, hb, witnessItems, opCount, execStack,
      Bool.and_assoc]
    rfl

/-! ### the whole of `validate` -/

def topOK (p : ValidationParams) (ty : Ty) (e : ExtData) : Bool :=
  (p.allowMalleability || ty.mall.nonMall) && (p.allowNonB || ty.corr.base == .B)
    && (p.allowSiglessBranch || ty.mall.signed) && (p.allowUnsatisfiable || e.satData.isSome)

theorem topLevelCheck_isOk (p : ValidationParams) (ty : Ty) (e : ExtData) :
    isOk (topLevelCheck p ty e) = topOK p ty e := by
  unfold topLevelCheck topOK
  simp only [chk_isOk, isOk_ok, Bool.and_true, Bool.not_and, Bool.not_not, Bool.and_assoc]
  have h1 : (!(ty.corr.base != Base.B)) = (ty.corr.base == Base.B) := by
    cases ty.corr.base <;> rfl
  have h2 : (!e.satData.isNone) = e.satData.isSome := by cases e.satData <;> rfl
  rw [h1, h2]

def nonTopOK (env : KeyEnv) (K : KeyInfo) (ctx : Ctx) (p : ValidationParams) (ms : Ms) : Bool :=
  decide ((extOf env ctx ms).treeHeight ≤ p.maxRecursiveDepth)
    && (p.allowDuplicateKeys || !hasRepeatedKeys ms)
    && (p.allowMixedTimeLocks || !hasMixedTimelocks (extOf env ctx ms))
    && nodesOK p K ms
    && resourceOK p (scriptSize env ctx ms) (extOf env ctx ms)

theorem validateNonTopLevel_isOk (env : KeyEnv) (K : KeyInfo) (ctx : Ctx) (p : ValidationParams)
    (ms : Ms) : isOk (validateNonTopLevel env K ctx p ms) = nonTopOK env K ctx p ms := by
  unfold validateNonTopLevel nonTopOK
  have hb : ∀ (a b : Nat), (!decide (a > b)) = decide (a ≤ b) := by
    intro a b; by_cases h : a ≤ b <;> simp [h]; omega
  simp only [chk_isOk, Bool.not_and, Bool.not_not, hb, Bool.and_assoc]
  rw [← nodesCheck_isOk, ← resourceCheck_isOk]
  cases hn : nodesCheck p K none ms.preorder with
  | error e => simp only [isOk_error, Bool.and_false, Bool.false_and]
  | ok s => simp only [isOk_ok, Bool.true_and]

/-- the order-free acceptance condition of `Miniscript::validate` -/
def validOK (env : KeyEnv) (K : KeyInfo) (ctx : Ctx) (p : ValidationParams) (ms : Ms) : Bool :=
  match typeOf ms with
  | none => false
  | some ty => nonTopOK env K ctx p ms && topOK p ty (extOf env ctx ms)

theorem validate_isOk (env : KeyEnv) (K : KeyInfo) (ctx : Ctx) (p : ValidationParams) (ms : Ms) :
    isOk (validate env K ctx p ms) = validOK env K ctx p ms := by
  unfold validate validOK
  cases typeOf ms with
  | none => rfl
  | some ty =>
    simp only
    rw [← validateNonTopLevel_isOk, ← topLevelCheck_isOk]
    cases validateNonTopLevel env K ctx p ms <;> simp

end MsVerif

/-
C06 helper lemmas, part 15: the `d` letter by composition of three read-only results —
C07.`dissatisfiable_of_type` (type `d` ⇒ the specification's table has a canonical
dissatisfaction), C02.`mall_complete_table` (table ⇒ the satisfier model returns a
dissatisfaction stack, here for a caller who holds NOTHING: no signature, no preimage, no
lock) and C01.`dissat_sound` (that stack, realised, runs to the dissatisfied shape).
Core Lean only.
-/
import MsVerif.Thm.C01
import MsVerif.Thm.C02
import MsVerif.Thm.C07
import MsVerif.Lemmas.TypeSoundClean

namespace MsVerif.TypeSound
open MsVerif MsVerif.Script MsVerif.SatSpec MsVerif.SatTable MsVerif.Complete

/-- the caller holds nothing -/
def noAssets : Assets :=
  ⟨fun _ => false, fun _ => none, fun _ => none, fun _ => none, fun _ => none,
   fun _ _ => false, fun _ => false, fun _ => false⟩

/-- the world in which nobody can sign, no preimage is known, no time has passed -/
def noWorld : Pol.World := ⟨fun _ => false, fun _ _ => false, 0, 0⟩

/-- the satisfier configuration of a caller who holds nothing (malleable mode: every
dissatisfaction the table has is found) -/
def noCfg (ke : KeyEnv) (ctx : Ctx) : SatCfg := ⟨ke, ctx, true, false, noAssets⟩

mutual
/-- whether the table has a canonical dissatisfaction depends on the assets only through the
known raw keys -/
theorem dsatEx_rawKey (a a' : Avail) (h : a.rawKey = a'.rawKey) : (ms : Ms) → dsatEx a ms = dsatEx a' ms
  | .fls | .tru | .pkK _ | .pkH _ | .after _ | .older _ | .hash _ _ | .dupIf _ | .nonZero _ | .verify _
  | .andV _ _ | .orC _ _ | .multi _ _ | .sortedMulti _ _ | .multiA _ _ | .sortedMultiA _ _ => by simp only [dsatEx]
  | .rawPkH k => by simp only [dsatEx, h]
  | .alt x | .swap x | .check x | .zeroNotEqual x => by simp only [dsatEx]; exact dsatEx_rawKey a a' h x
  | .andB x y | .orB x y | .orD x y => by
    simp only [dsatEx, dsatEx_rawKey a a' h x, dsatEx_rawKey a a' h y]
  | .andOr x _ z => by simp only [dsatEx, dsatEx_rawKey a a' h x, dsatEx_rawKey a a' h z]
  | .orI x z => by simp only [dsatEx, dsatEx_rawKey a a' h x, dsatEx_rawKey a a' h z]
  | .thresh _ xs => by simp only [dsatEx]; exact allDsatEx_rawKey a a' h xs
theorem allDsatEx_rawKey (a a' : Avail) (h : a.rawKey = a'.rawKey) : (xs : MsList) → allDsatEx a xs = allDsatEx a' xs
  | .nil => by simp only [allDsatEx]
  | .cons x xs => by simp only [allDsatEx, dsatEx_rawKey a a' h x, allDsatEx_rawKey a a' h xs]
end

theorem noMixedLocks_noAssets (ms : Ms) : C02.NoMixedLocks noAssets ms := by
  intro s _ t _
  cases s <;> cases t <;> simp [lockCompat, noAssets]

/-- type `d` ⇒ the satisfier, for a caller who holds nothing, returns a dissatisfaction stack -/
theorem dissat_stack_of_type (ke : KeyEnv) (ctx : Ctx) (ms : Ms) (τ : Ty) (hty : typeOf ms = some τ)
    (hr : Lift.noRaw ms = true) (hk : C02.ThreshKOK ms) (hsm : C02.SmallScript ms) (hd : τ.corr.dissat = true) :
    ∃ w, (satDissat (noCfg ke ctx) ms).dissat.stack = .stack w := by
  have h1 := C07.dissatisfiable_of_type noWorld ms τ hty hr hd
  have h2 : dsatEx (C02.avail noAssets ctx) ms = true := by
    rw [dsatEx_rawKey (C02.avail noAssets ctx) (MsSem.availOfWorld noWorld) rfl ms]
    exact h1
  exact (C02.mall_complete_table ke ctx false noAssets ms hk (noMixedLocks_noAssets ms)
    (sizesOK_of_noSchnorr _ (fun _ => rfl) (fun _ => rfl)) hsm).2 h2

/-- replacing the signature oracle does not disturb what a caller WITHOUT assets needs to know -/
theorem agrees_oracle {env : Env} {ke : KeyEnv} {σ : Ph → Bytes} (h : Agrees env ke noAssets σ)
    (so : Bytes → Bytes → Bool) : Agrees { env with sigOk := so } ke noAssets σ where
  pushOne := h.pushOne
  pushZero := h.pushZero
  hashDissat := h.hashDissat
  keyShape := h.keyShape
  pkh := h.pkh
  pubkey := h.pubkey
  ecdsa k hk := by simp [noAssets] at hk
  schnorr k sz hk := by simp [noAssets] at hk
  rawPk hh sz hk := by simp [noAssets] at hk
  rawEcdsa hh pk sz hk := by simp [noAssets] at hk
  rawSchnorr hh pk sz sz' hk := by simp [noAssets] at hk
  preimage kind hh hk := by simp [noAssets] at hk
  zeroNoPreimage := h.zeroNoPreimage
  sizeOk := h.sizeOk

/-! ### a small self-contained world for the non-vacuity examples of Thm/C06.lean -/

namespace Toy
/-- 33-byte "compressed keys" `02 00…00 k` -/
def ser (k : Key) : Bytes := 2 :: (List.replicate 31 0 ++ [UInt8.ofNat k])
/-- 32-byte preimages `09…09 h` -/
def pre (h : Nat) : Bytes := List.replicate 31 9 ++ [UInt8.ofNat h]
/-- toy hash: append a byte (injective, so "collision free") -/
def toyHash (b : Bytes) : Bytes := b ++ [7]

def ke : KeyEnv where
  ser := ser
  sortKey := ser
  pkh k := toyHash (ser k)
  rawPkh h := toyHash (ser h)
  hashVal _ h := toyHash (pre h)

/-- segwit-v0 standardness flags, limits off; a signature is valid iff it is `key ++ [1]` -/
def env (lockTime seq : Nat) : Env where
  flags := ⟨false, true, true, true, true, false, false⟩
  sigOk pk sig := sig == pk ++ [1]
  hash _ b := toyHash b
  nLockTime := lockTime
  nSequence := seq
  txVersion := 2

def σ : Ph → Bytes
  | .pubkey k _ => ser k
  | .pubkeyHash h _ => ser h
  | .ecdsaSig k => ser k ++ [1]
  | .ecdsaSigPkh h => ser h ++ [1]
  | .schnorrSig k _ => ser k ++ [1]
  | .schnorrSigPkh h _ => ser h ++ [1]
  | .preimage _ h => pre h
  | .hashDissat => List.replicate 32 0
  | .pushOne => [1]
  | .pushZero => []

def pk (k : Key) : Ms := .check (.pkK k)

theorem envOk (lt sq : Nat) : EnvOk (env lt sq) .segwitv0 := ⟨rfl, rfl, rfl⟩

theorem keyOk (lt sq : Nat) (k : Key) : pubkeyOk (env lt sq) (ser k) = true := by
  simp [pubkeyOk, env, ser]

/-- in the toy world every signature / preimage the satisfier could hold is genuine, so `Agrees`
holds for every asset set -/
theorem agrees (lt sq : Nat) (a : Assets) : Agrees (env lt sq) ke a σ where
  pushOne := rfl
  pushZero := rfl
  hashDissat := rfl
  keyShape := keyOk lt sq
  pkh _ := rfl
  pubkey _ _ := rfl
  ecdsa k _ := ⟨by simp [σ], by simp [env, σ, ke]⟩
  schnorr k _ _ := ⟨by simp [σ], by simp [env, σ, ke]⟩
  rawPk h _ _ := ⟨rfl, keyOk lt sq h⟩
  rawEcdsa h _ _ _ := ⟨by simp [σ], by simp [env, σ]⟩
  rawSchnorr h _ _ _ _ := ⟨by simp [σ], by simp [env, σ]⟩
  preimage _ h _ := ⟨by simp [σ, pre], rfl⟩
  zeroNoPreimage _ h := by
    intro e
    have := congrArg List.head? e
    simp [env, ke, toyHash, pre, List.replicate] at this
  sizeOk p := by cases p <;> simp [σ, ser, pre]
end Toy

/-! ### helpers for the non-vacuity examples of Thm/C06.lean -/

theorem leBytes_length_fuel : ∀ (f n : Nat), (leBytes f n).length ≤ f
  | 0, _ => by simp [leBytes]
  | f + 1, n => by
    unfold leBytes
    split
    · simp
    · simp only [List.length_cons]; have := leBytes_length_fuel f (n / 256); omega

theorem numEncode_length (v : Int) : (numEncode v).length ≤ 10 := by
  unfold numEncode
  have hm := leBytes_length_fuel 9 v.natAbs
  split
  · simp
  · dsimp only
    split
    · simp
    · split
      · simp only [List.length_append, List.length_singleton]; omega
      · split
        · simp only [List.length_append, List.length_singleton, List.length_dropLast]; omega
        · omega

theorem ne_of_length {a b : Bytes} (h : a.length ≠ b.length) : (a == b) = false := by
  rw [beq_eq_false_iff_ne]; intro e; exact h (congrArg List.length e)

theorem ne_of_last {a : Bytes} : (a ++ [7] == List.replicate 64 (0x11 : UInt8)) = false := by
  rw [beq_eq_false_iff_ne]
  intro e
  have := congrArg List.getLast? e
  simp at this

end MsVerif.TypeSound

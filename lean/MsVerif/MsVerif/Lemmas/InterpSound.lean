/-
Soundness of the interpreter's evaluation (`Model/Interp.interp`) against the structured Script
semantics (`Spec/Frag.frag`): a simulation, fragment by fragment, typed by the library's own
type rules.  The statement per base type is `Post`.
-/
import MsVerif.Lemmas.InterpBasic
import MsVerif.Lemmas.InterpTyping
import MsVerif.Lemmas.InterpSmall
import MsVerif.Lemmas.TypeSoundArgsThm
import MsVerif.Lemmas.SatNum
import MsVerif.Lemmas.SatExecN

namespace MsVerif.InterpSound
open MsVerif Script Interp

/-- result of a `K` fragment: key and signature on the stack make CHECKSIG produce exactly the
interpreter's result -/
structure KRes (env : Env) (r : Elem) (pk sg : Bytes) : Prop where
  bool : r = .sat ∨ r = .dissat
  sat : r = .sat → checkSig env sg pk = .ok true
  dis : r = .dissat → checkSig env sg pk = .ok false

/-- what soundness means for a fragment of base type `b` (unit flag `u`) evaluated by the
interpreter on the abstraction of `c` with outcome `a'` -/
def Post (env : Env) (ke : KeyEnv) (ctx : Ctx) (ms : Ms) (b : Base) (u : Bool) (c : List Bytes)
    (a' : AStack) : Prop :=
  match b with
  | .B => ∃ r c0, a' = r :: absS c0 ∧ ∀ rest alt ops, ∃ v ops',
      frag env ke ctx ms ⟨c ++ rest, alt, ops⟩ = .ok ⟨v :: (c0 ++ rest), alt, ops'⟩ ∧ Res env u r v
  | .V => ∃ c0, a' = absS c0 ∧ ∀ rest alt ops, ∃ ops',
      frag env ke ctx ms ⟨c ++ rest, alt, ops⟩ = .ok ⟨c0 ++ rest, alt, ops'⟩
  | .K => ∃ r c0, a' = r :: absS c0 ∧ ∀ rest alt ops, ∃ pk sg ops',
      frag env ke ctx ms ⟨c ++ rest, alt, ops⟩ = .ok ⟨pk :: sg :: (c0 ++ rest), alt, ops'⟩ ∧ KRes env r pk sg
  | .W => ∃ r c0, a' = r :: absS c0 ∧ ∀ t rest alt ops, ∃ v ops',
      (frag env ke ctx ms ⟨t :: (c ++ rest), alt, ops⟩ = .ok ⟨t :: v :: (c0 ++ rest), alt, ops'⟩
        ∨ frag env ke ctx ms ⟨t :: (c ++ rest), alt, ops⟩ = .ok ⟨v :: t :: (c0 ++ rest), alt, ops'⟩)
      ∧ Res env u r v

mutual
/-- the fragments covered by the proof, with their side conditions: keys of the script are
well-formed for the context, lock values round-trip through the script-number codec -/
def Sup (env : Env) (ke : KeyEnv) : Ms → Prop
  | .tru | .fls => True
  | .pkK k => pubkeyOk env (ke.ser k) = true
  | .pkH _ | .rawPkH _ => True
  | .after n | .older n => LockOk env n
  | .hash _ _ => True
  | .alt x | .check x | .verify x | .zeroNotEqual x | .nonZero x => Sup env ke x
  | .andV l r | .andB l r | .orB l r | .orC l r | .orD l r | .orI l r => Sup env ke l ∧ Sup env ke r
  | .andOr a b c => Sup env ke a ∧ Sup env ke b ∧ Sup env ke c
  | .swap x | .dupIf x => Sup env ke x ∧ TypeSound.wf x = true
  | .thresh k xs => 1 ≤ k ∧ k < 2 ^ 31 ∧ xs.length < 2 ^ 31 ∧ SupList env ke xs
  | .multiA k ks =>
    env.flags.tapscript = true ∧ k < 2 ^ 31 ∧ ks.length < 2 ^ 31 ∧ ks ≠ []
      ∧ ∀ key ∈ ks, pubkeyOk env (ke.ser key) = true
  | .multi k ks =>
    env.flags.tapscript = false ∧ 1 ≤ k ∧ k ≤ ks.length ∧ ks.length ≤ 20
      ∧ ∀ key ∈ ks, pubkeyOk env (ke.ser key) = true
  | .sortedMulti _ _
  | .sortedMultiA _ _ => False
def SupList (env : Env) (ke : KeyEnv) : MsList → Prop
  | .nil => True
  | .cons x xs => Sup env ke x ∧ SupList env ke xs
end

variable {env : Env} {ke : KeyEnv} {ie : IEnv} {ctx : Ctx}

@[simp] theorem bindOk {α β : Type} (a : α) (f : α → Except Err β) : (Except.ok a >>= f) = f a := rfl
theorem pureOk {α : Type} (a : α) : (pure a : Except Err α) = .ok a := rfl
@[simp] theorem bindErr {α β : Type} (e : Err) (f : α → Except Err β) :
    ((Except.error e : Except Err α) >>= f) = .error e := rfl

/-! ### witness element sizes -/

/-- every `Push` element of the abstract stack is shorter than 2^31 bytes (BIP141 / policy limit
witness elements to 520 bytes for v0 and tapscript, consensus to the 4 MB block weight) -/
def SmallA (a : AStack) : Prop := ∀ b, Elem.push b ∈ a → b.length < 2 ^ 31

theorem SmallA.of_sub {a st : AStack} (hs : SmallA st) (h : PushSub a st) : SmallA a :=
  fun b hb => hs b (h b hb)

theorem SmallA.tail {e : Elem} {a : AStack} (hs : SmallA (e :: a)) : SmallA a :=
  fun b hb => hs b (List.mem_cons_of_mem _ hb)

theorem SmallA.head {e : Bytes} {c : List Bytes} (hs : SmallA (absS (e :: c))) : e.length < 2 ^ 31 := by
  cases he : Elem.ofBytes e with
  | sat => rw [ofBytes_sat he]; decide
  | dissat => rw [ofBytes_dissat he]; decide
  | push b =>
    obtain ⟨e1, _, _⟩ := ofBytes_push he
    subst e1
    exact hs e (by simp [absS_cons, he])

/-- the result stack of an accepted evaluation is as small as its input -/
theorem SmallA.interp {ms : Ms} {st a' : AStack} {cs : List Constraint} (hs : SmallA st)
    (h : interp ke ie ms st = .ok (a', cs)) : SmallA a' :=
  hs.of_sub (interp_sub ms st a' cs h)

/-! ### signatures -/

theorem checkSig_empty {pk : Bytes} (hk : pubkeyOk env pk = true) : checkSig env [] pk = .ok false := by
  simp [checkSig, hk]

theorem checkSig_valid (ag : Agree env ie) {pk sg : Bytes} (h2 : pubkeyOk env pk = true)
    (hv : ie.verifySig pk sg = true) (hne : sg ≠ []) : checkSig env sg pk = .ok true := by
  have h1 := ag.sig pk sg hv
  have : sg.isEmpty = false := by cases sg <;> simp_all
  simp [checkSig, h1, h2, this]

/-- `evalSig` against a key that is already on the concrete stack -/
theorem evalSig_sound (ag : Agree env ie) {pk : Bytes} (hk : pubkeyOk env pk = true)
    {mk : Bytes → Constraint} {c : List Bytes} {a' : AStack} {cs : List Constraint}
    (h : evalSig ie pk mk (absS c) = .ok (a', cs)) :
    ∃ r sg c0, c = sg :: c0 ∧ a' = r :: absS c0 ∧ KRes env r pk sg := by
  cases c with
  | nil => simp [evalSig] at h
  | cons sg c0 =>
    simp only [absS_cons] at h
    cases he : Elem.ofBytes sg with
    | sat => simp [he, evalSig] at h
    | dissat =>
      simp [he, evalSig] at h
      have := ofBytes_dissat he
      subst this
      exact ⟨.dissat, [], c0, rfl, h.1.symm, ⟨Or.inr rfl, fun x => by simp at x, fun _ => checkSig_empty hk⟩⟩
    | push b =>
      obtain ⟨e1, e2, _⟩ := ofBytes_push he
      subst e1
      simp only [he, evalSig] at h
      split at h
      · rename_i hv
        simp at h
        exact ⟨.sat, sg, c0, rfl, h.1.symm,
          ⟨Or.inl rfl, fun _ => checkSig_valid ag hk hv e2, fun x => by simp at x⟩⟩
      · simp at h

/-! ### leaves -/

theorem sound_tru (h : NoLimits env) {c : List Bytes} {a' : AStack} {cs : List Constraint}
    (hi : interp ke ie .tru (absS c) = .ok (a', cs)) : Post env ke ctx .tru .B true c a' := by
  simp [interp] at hi
  refine ⟨.sat, c, hi.1.symm, fun rest alt ops => ⟨[1], ops, ?_, Res.ofBool env true true⟩⟩
  simp [frag, pshOp, pushElem_nl h]

theorem sound_fls (h : NoLimits env) {c : List Bytes} {a' : AStack} {cs : List Constraint}
    (hi : interp ke ie .fls (absS c) = .ok (a', cs)) : Post env ke ctx .fls .B true c a' := by
  simp [interp] at hi
  refine ⟨.dissat, c, hi.1.symm, fun rest alt ops => ⟨[], ops, ?_, Res.ofBool env true false⟩⟩
  simp [frag, pshOp, pushElem_nl h]

theorem sound_pkK (h : NoLimits env) (ag : Agree env ie) {k : Key} (hk : pubkeyOk env (ke.ser k) = true)
    {c : List Bytes} {a' : AStack} {cs : List Constraint}
    (hi : interp ke ie (.pkK k) (absS c) = .ok (a', cs)) : Post env ke ctx (.pkK k) .K false c a' := by
  simp only [interp, evaluatePk] at hi
  obtain ⟨r, sg, c0, hc, ha, hres⟩ := evalSig_sound ag hk hi
  subst hc
  exact ⟨r, c0, ha, fun rest alt ops => ⟨ke.ser k, sg, ops, by simp [frag, psh_nl h], hres⟩⟩

/-- `pk_h` / `raw_pkh`: the four opcodes `DUP HASH160 <h> EQUALVERIFY` -/
theorem pkh_ops (h : NoLimits env) (hv pk : Bytes) (r : List Bytes) (alt : List Bytes) (ops : Nat)
    (heq : (env.hash .hash160 pk == hv) = true) :
    seqOps env [.code .dup, .code .hash160, .push hv, .code .equalverify] ⟨pk :: r, alt, ops⟩
      = .ok ⟨pk :: r, alt, ops + 3⟩ := by
  have e : env.hash .hash160 pk = hv := by simpa using heq
  simp [seqOps, List.foldlM, pshOp, opc_nl h, psh_nl h, execOpc, pushElem_nl h, e]

theorem evaluatePkh_sound (h : NoLimits env) (ag : Agree env ie) {hv : Bytes}
    {c : List Bytes} {a' : AStack} {cs : List Constraint}
    (hi : evaluatePkh ie hv (absS c) = .ok (a', cs)) :
    ∃ r c0, a' = r :: absS c0 ∧ ∀ rest alt ops, ∃ pk sg ops',
      seqOps env [.code .dup, .code .hash160, .push hv, .code .equalverify] ⟨c ++ rest, alt, ops⟩
        = .ok ⟨pk :: sg :: (c0 ++ rest), alt, ops'⟩ ∧ KRes env r pk sg := by
  cases c with
  | nil => simp [evaluatePkh] at hi
  | cons v c1 =>
    simp only [absS_cons] at hi
    cases he : Elem.ofBytes v with
    | sat => simp [he, evaluatePkh] at hi
    | dissat => simp [he, evaluatePkh] at hi
    | push pk =>
      obtain ⟨e1, _, _⟩ := ofBytes_push he
      subst e1
      simp only [he, evaluatePkh] at hi
      split at hi
      · simp at hi
      · rename_i hh
        split at hi
        · simp at hi
        · rename_i hkp
          have hk : pubkeyOk env v = true := ag.key v (by simpa using hkp)
          obtain ⟨r, sg, c0, hc, ha, hres⟩ := evalSig_sound ag hk hi
          subst hc
          refine ⟨r, c0, ha, fun rest alt ops => ⟨v, sg, ops + 3, ?_, hres⟩⟩
          have heq : (env.hash .hash160 v == hv) = true := by
            rw [← ag.h160]; simpa using hh
          simpa using pkh_ops h hv v (sg :: (c0 ++ rest)) alt ops heq

theorem sound_pkH (h : NoLimits env) (ag : Agree env ie) {k : Key}
    {c : List Bytes} {a' : AStack} {cs : List Constraint}
    (hi : interp ke ie (.pkH k) (absS c) = .ok (a', cs)) : Post env ke ctx (.pkH k) .K false c a' := by
  simp only [interp] at hi
  simpa [Post, frag] using evaluatePkh_sound h ag hi

theorem sound_rawPkH (h : NoLimits env) (ag : Agree env ie) {k : Nat}
    {c : List Bytes} {a' : AStack} {cs : List Constraint}
    (hi : interp ke ie (.rawPkH k) (absS c) = .ok (a', cs)) : Post env ke ctx (.rawPkH k) .K false c a' := by
  simp only [interp] at hi
  simpa [Post, frag] using evaluatePkh_sound h ag hi

/-- the value `pushInt n` puts on the stack -/
theorem pshOp_pushInt (h : NoLimits env) (n : Nat) (c : Core) :
    pshOp env (pushInt n) c = .ok { c with stack := lockVal n :: c.stack } := by
  unfold pushInt lockVal
  split
  · simp [pshOp, pushElem_nl h]
  · simp [pshOp, psh_nl h]

theorem Res.ofLock {n : Nat} (lk : LockOk env n) : Res env false .sat (lockVal n) :=
  ⟨Or.inl rfl, fun x => by simp at x, fun _ => ⟨lk.truthy, fun x => by simp at x, Int.ofNat n, lk.dec4,
    by have := lk.pos; simp; omega⟩⟩

theorem cltv_ops (h : NoLimits env) {n : Nat} (lk : LockOk env n) (hl : checkLockTime env n = true)
    (st alt : List Bytes) (ops : Nat) :
    seqOps env [pushInt n, .code .cltv] ⟨st, alt, ops⟩ = .ok ⟨lockVal n :: st, alt, ops + 1⟩ := by
  have hp := lk.pos
  have hneg : ¬ ((Int.ofNat n) < 0) := by simp
  simp only [seqOps, List.foldlM_cons, List.foldlM_nil, pshOp_pushInt h, bindOk]
  simp [pshOp, opc_nl h, execOpc, lk.dec5, hl]

theorem csv_ops (h : NoLimits env) {n : Nat} (lk : LockOk env n) (hl : checkSequence env n = true)
    (st alt : List Bytes) (ops : Nat) :
    seqOps env [pushInt n, .code .csv] ⟨st, alt, ops⟩ = .ok ⟨lockVal n :: st, alt, ops + 1⟩ := by
  have hp := lk.pos
  simp only [seqOps, List.foldlM_cons, List.foldlM_nil, pshOp_pushInt h, bindOk]
  simp [pshOp, opc_nl h, execOpc, lk.dec5, hl]

theorem sound_after (h : NoLimits env) (ag : Agree env ie) {n : Nat} (lk : LockOk env n)
    {c : List Bytes} {a' : AStack} {cs : List Constraint}
    (hi : interp ke ie (.after n) (absS c) = .ok (a', cs)) : Post env ke ctx (.after n) .B false c a' := by
  simp only [interp, evaluateAfter] at hi
  split at hi
  · simp at hi
  · rename_i h0
    split at hi
    · rename_i h1
      split at hi
      · rename_i h2
        simp at hi
        have hl := after_ok ag (by simpa using h0) h1 h2
        exact ⟨.sat, c, hi.1.symm, fun rest alt ops =>
          ⟨lockVal n, ops + 1, by simp [frag, cltv_ops h lk hl], Res.ofLock lk⟩⟩
      · simp at hi
    · simp at hi

theorem sound_older (h : NoLimits env) (ag : Agree env ie) {n : Nat} (lk : LockOk env n)
    {c : List Bytes} {a' : AStack} {cs : List Constraint}
    (hi : interp ke ie (.older n) (absS c) = .ok (a', cs)) : Post env ke ctx (.older n) .B false c a' := by
  simp only [interp, evaluateOlder] at hi
  split at hi
  · simp at hi
  · rename_i h0
    split at hi
    · rename_i h1
      simp at hi
      have hl := older_ok ag (by simpa using h0) h1
      exact ⟨.sat, c, hi.1.symm, fun rest alt ops =>
        ⟨lockVal n, ops + 1, by simp [frag, csv_ops h lk hl], Res.ofLock lk⟩⟩
    · simp at hi

/-! ### hash locks -/

theorem hash_ops (h : NoLimits env) (k : HashKind) (hv pre : Bytes) (hlen : pre.length = 32)
    (st alt : List Bytes) (ops : Nat) :
    seqOps env [.code .size, pushInt 32, .code .equalverify, .code (hashOpc k), .push hv, .code .equal]
      ⟨pre :: st, alt, ops⟩ = .ok ⟨boolBytes (hv == env.hash (hkOp k) pre) :: st, alt, ops + 4⟩ := by
  have e32 : pushInt 32 = Op.push (numEncode (Int.ofNat 32)) := by unfold pushInt; simp
  rw [e32]
  cases k <;>
    simp [seqOps, List.foldlM_cons, pshOp, opc_nl h, psh_nl h, execOpc, pushElem_nl h, hlen, hashOpc, hkOp]

theorem sound_hash (h : NoLimits env) (ag : Agree env ie) {k : HashKind} {n : Nat}
    {c : List Bytes} {a' : AStack} {cs : List Constraint}
    (hi : interp ke ie (.hash k n) (absS c) = .ok (a', cs)) : Post env ke ctx (.hash k n) .B true c a' := by
  simp only [interp] at hi
  cases c with
  | nil => simp [evaluateHash] at hi
  | cons v c1 =>
    simp only [absS_cons] at hi
    cases he : Elem.ofBytes v with
    | sat => simp [he, evaluateHash] at hi
    | dissat => simp [he, evaluateHash] at hi
    | push pre =>
      obtain ⟨e1, _, _⟩ := ofBytes_push he
      subst e1
      simp only [he, evaluateHash] at hi
      split at hi
      · simp at hi
      · rename_i hlen
        have hlen' : v.length = 32 := by simpa using hlen
        rw [ag.hash] at hi
        by_cases heq : env.hash (hkOp k) v = ke.hashVal k n
        · simp [heq] at hi
          refine ⟨.sat, c1, hi.1.symm, fun rest alt ops => ⟨[1], ops + 4, ?_, Res.ofBool env true true⟩⟩
          simp [frag, hash_ops h k _ v hlen', heq, boolBytes]
        · have hne : (env.hash (hkOp k) v == ke.hashVal k n) = false := by simpa using heq
          simp [hne] at hi
          refine ⟨.dissat, c1, hi.1.symm, fun rest alt ops => ⟨[], ops + 4, ?_, Res.ofBool env true false⟩⟩
          have hne' : (ke.hashVal k n == env.hash (hkOp k) v) = false := by
            simpa using fun x => heq x.symm
          simp [frag, hash_ops h k _ v hlen', hne', boolBytes]

/-! ### monotonicity in the unit flag, transport along an ops-only difference -/

theorem Res.mono {u u' : Bool} {r : Elem} {v : Bytes} (huu : u = true → u' = true) (h : Res env u' r v) :
    Res env u r v :=
  ⟨h.bool, h.dis, fun hs => ⟨(h.sat hs).1, fun hu => (h.sat hs).2.1 (huu hu), (h.sat hs).2.2⟩⟩

theorem Post.mono {ms : Ms} {b : Base} {u u' : Bool} {c : List Bytes} {a' : AStack}
    (huu : u = true → u' = true) (P : Post env ke ctx ms b u' c a') : Post env ke ctx ms b u c a' := by
  cases b with
  | B =>
    obtain ⟨r, c0, ha, F⟩ := P
    exact ⟨r, c0, ha, fun rest alt ops => by
      obtain ⟨v, o, hf, hr⟩ := F rest alt ops; exact ⟨v, o, hf, hr.mono huu⟩⟩
  | V => exact P
  | K => exact P
  | W =>
    obtain ⟨r, c0, ha, F⟩ := P
    exact ⟨r, c0, ha, fun t rest alt ops => by
      obtain ⟨v, o, hf, hr⟩ := F t rest alt ops; exact ⟨v, o, hf, hr.mono huu⟩⟩

/-- if running `ms2` on `c2` amounts to running `ms1` on `c1` up to the opcode counter, soundness
of `ms1` carries over -/
theorem Post.transport {ms1 ms2 : Ms} {b : Base} {u : Bool} {c1 c2 : List Bytes} {a' : AStack}
    (hb : b ≠ .W)
    (H : ∀ rest alt ops, ∃ k, ∀ s, frag env ke ctx ms1 ⟨c1 ++ rest, alt, k⟩ = .ok s →
      ∃ j, frag env ke ctx ms2 ⟨c2 ++ rest, alt, ops⟩ = .ok { s with ops := j })
    (P : Post env ke ctx ms1 b u c1 a') : Post env ke ctx ms2 b u c2 a' := by
  cases b with
  | B =>
    obtain ⟨r, c0, ha, F⟩ := P
    refine ⟨r, c0, ha, fun rest alt ops => ?_⟩
    obtain ⟨k, Hk⟩ := H rest alt ops
    obtain ⟨v, o, hf, hr⟩ := F rest alt k
    obtain ⟨j, hj⟩ := Hk _ hf
    exact ⟨v, j, hj, hr⟩
  | V =>
    obtain ⟨c0, ha, F⟩ := P
    refine ⟨c0, ha, fun rest alt ops => ?_⟩
    obtain ⟨k, Hk⟩ := H rest alt ops
    obtain ⟨o, hf⟩ := F rest alt k
    obtain ⟨j, hj⟩ := Hk _ hf
    exact ⟨j, hj⟩
  | K =>
    obtain ⟨r, c0, ha, F⟩ := P
    refine ⟨r, c0, ha, fun rest alt ops => ?_⟩
    obtain ⟨k, Hk⟩ := H rest alt ops
    obtain ⟨pk, sg, o, hf, hr⟩ := F rest alt k
    obtain ⟨j, hj⟩ := Hk _ hf
    exact ⟨pk, sg, j, hj, hr⟩
  | W => exact absurd rfl hb

/-! ### wrappers -/

theorem sound_alt (h : NoLimits env) {x : Ms} {u : Bool} {c : List Bytes} {a' : AStack}
    (P : Post env ke ctx x .B u c a') : Post env ke ctx (.alt x) .W u c a' := by
  obtain ⟨r, c0, ha, F⟩ := P
  refine ⟨r, c0, ha, fun t rest alt ops => ?_⟩
  obtain ⟨v, o, hf, hr⟩ := F rest (t :: alt) (ops + 1)
  exact ⟨v, o + 1, Or.inl (by simp [frag, opc_nl h, execOpc, hf, pushElem_nl h]), hr⟩

theorem sound_check (h : NoLimits env) {x : Ms} {u : Bool} {c : List Bytes} {a' : AStack}
    (P : Post env ke ctx x .K u c a') : Post env ke ctx (.check x) .B true c a' := by
  obtain ⟨r, c0, ha, F⟩ := P
  refine ⟨r, c0, ha, fun rest alt ops => ?_⟩
  obtain ⟨pk, sg, o, hf, hk⟩ := F rest alt ops
  rcases hk.bool with hr | hr
  · refine ⟨[1], o + 1, ?_, by subst hr; exact Res.ofBool env true true⟩
    simp [frag, hf, opc_nl h, execOpc, hk.sat hr, pushElem_nl h, boolBytes]
  · refine ⟨[], o + 1, ?_, by subst hr; exact Res.ofBool env true false⟩
    simp [frag, hf, opc_nl h, execOpc, hk.dis hr, pushElem_nl h, boolBytes]

theorem sound_verify (h : NoLimits env) {x : Ms} {u : Bool} {c : List Bytes} {ax a' : AStack}
    {csx cs : List Constraint} (hx : interp ke ie x (absS c) = .ok (ax, csx))
    (hi : interp ke ie (.verify x) (absS c) = .ok (a', cs))
    (P : Post env ke ctx x .B u c ax) : Post env ke ctx (.verify x) .V false c a' := by
  obtain ⟨r, c0, ha, F⟩ := P
  subst ha
  simp only [interp, hx] at hi
  cases r with
  | dissat => simp at hi
  | push b => simp at hi
  | sat =>
    simp at hi
    refine ⟨c0, hi.1.symm, fun rest alt ops => ?_⟩
    obtain ⟨v, o, hf, hr⟩ := F rest alt ops
    have hv := (hr.sat rfl).1
    by_cases hfu : endsFusable (encode ke ctx x) = true
    · exact ⟨o, by simp [frag, hf, hfu, hv]⟩
    · exact ⟨o + 1, by simp [frag, hf, hfu, hv, opc_nl h, execOpc]⟩

theorem sound_zeroNotEqual (h : NoLimits env) {x : Ms} {u : Bool} {c : List Bytes} {ax a' : AStack}
    {csx cs : List Constraint} (hx : interp ke ie x (absS c) = .ok (ax, csx))
    (hi : interp ke ie (.zeroNotEqual x) (absS c) = .ok (a', cs))
    (P : Post env ke ctx x .B u c ax) : Post env ke ctx (.zeroNotEqual x) .B true c a' := by
  obtain ⟨r, c0, ha, F⟩ := P
  subst ha
  simp only [interp, hx] at hi
  have key : ∀ rest alt ops, ∃ v o, frag env ke ctx (.zeroNotEqual x) ⟨c ++ rest, alt, ops⟩
      = .ok ⟨v :: (c0 ++ rest), alt, o⟩ ∧ Res env true r v := by
    intro rest alt ops
    obtain ⟨v, o, hf, hr⟩ := F rest alt ops
    obtain ⟨z, hz, hzr⟩ := hr.num
    rcases hr.bool with e | e
    · subst e
      have : z ≠ 0 := hzr.mpr rfl
      exact ⟨[1], o + 1, by simp [frag, hf, opc_nl h, execOpc, hz, pushElem_nl h, boolBytes, this],
        Res.ofBool env true true⟩
    · subst e
      have : z = 0 := by
        by_cases hz0 : z = 0
        · exact hz0
        · have := hzr.mp hz0; simp at this
      exact ⟨[], o + 1, by simp [frag, hf, opc_nl h, execOpc, hz, pushElem_nl h, boolBytes, this],
        Res.ofBool env true false⟩
  cases r with
  | dissat => simp at hi; exact ⟨.dissat, c0, hi.1.symm, key⟩
  | sat => simp at hi; exact ⟨.sat, c0, hi.1.symm, key⟩
  | push b =>
    obtain ⟨v, o, hf, hr⟩ := F [] [] 0
    rcases hr.bool with e | e <;> simp at e

theorem condPop_nil' (notif : Bool) (st alt : List Bytes) (ops : Nat) :
    condPop env notif ⟨[] :: st, alt, ops⟩ = .ok (notif, ⟨st, alt, ops⟩) := by
  cases notif <;> simp [condPop, castToBool]

theorem condPop_one' (notif : Bool) (st alt : List Bytes) (ops : Nat) :
    condPop env notif ⟨[1] :: st, alt, ops⟩ = .ok (!notif, ⟨st, alt, ops⟩) := by
  cases notif <;> simp [condPop, castToBool]

/-! ### `s:` and `d:` — exact argument counts of the child (C06, `args_cons` + `framed_frag`) -/

/-- a fragment that consumes exactly `i` elements and is sound on `pre ++ c1` (with `pre` of that
length) is sound "in place": on `pre ++ s` for ANY `s` it leaves `s` untouched -/
theorem frag_in_place {x : Ms} {i o : Nat} (hl : NoLimits env)
    (hc : TypeSound.Cons (frag env ke ctx x) i o) {pre c1 out0 : List Bytes} (hpre : pre.length = i)
    {alt : List Bytes} {ops ops' : Nat} (rest : List Bytes)
    (hf : frag env ke ctx x ⟨(pre ++ c1) ++ rest, alt, ops⟩ = .ok ⟨out0 ++ rest, alt, ops'⟩) :
    ∃ out, out.length = o ∧ out0 = out ++ c1 ∧
      ∀ s, frag env ke ctx x ⟨pre ++ s, alt, ops⟩ = .ok ⟨out ++ s, alt, ops'⟩ := by
  obtain ⟨hn, hok⟩ := hc pre [] alt ops hpre
  have fr : ∀ s, frag env ke ctx x ⟨pre ++ s, alt, ops⟩
      = TypeSound.lift s (frag env ke ctx x ⟨pre, alt, ops⟩) := by
    intro s
    have := TypeSound.framed_frag hl.st ke ctx x ⟨pre, alt, ops⟩ s (by simpa using hn)
    simpa [TypeSound.app] using this
  have h1 := fr (c1 ++ rest)
  rw [← List.append_assoc, hf] at h1
  cases hx : frag env ke ctx x ⟨pre, alt, ops⟩ with
  | error e => rw [hx] at h1; simp at h1
  | ok c' =>
    rw [hx] at h1
    simp [TypeSound.app] at h1
    obtain ⟨out, ho, hs⟩ := hok c' (by simpa using hx)
    simp at hs
    obtain ⟨e1, e2, e3⟩ : out0 ++ rest = c'.stack ++ (c1 ++ rest) ∧ alt = c'.alt ∧ ops' = c'.ops := by
      have := h1
      cases c'
      simp at this ⊢
      exact ⟨this.1, this.2.1, this.2.2⟩
    refine ⟨out, ho, ?_, fun s => ?_⟩
    · rw [hs, ← List.append_assoc] at e1
      exact List.append_cancel_right e1
    · rw [fr s, hx]
      cases c'
      simp [TypeSound.app] at hs e2 e3 ⊢
      exact ⟨hs, e2.symm, e3.symm⟩

theorem sound_swap (h : NoLimits env) {x : Ms} {u : Bool} {c : List Bytes} {a' : AStack}
    (hc : TypeSound.Cons (frag env ke ctx x) 1 1)
    (P : Post env ke ctx x .B u c a') : Post env ke ctx (.swap x) .W u c a' := by
  obtain ⟨r, c0, ha, F⟩ := P
  cases c with
  | nil =>
    -- an `o` fragment cannot succeed on the empty stack
    exfalso
    obtain ⟨v, o, hf, _⟩ := F [] [] 0
    obtain ⟨hn, hok⟩ := hc [[]] [] [] 0 rfl
    have := TypeSound.framed_frag h.st ke ctx x ⟨[], [], 0⟩ [[]] (by
      simp at hf; rw [hf]; exact TypeSound.NoUF_ok _)
    simp [TypeSound.app] at this hf
    rw [hf] at this
    simp [TypeSound.app] at this
    obtain ⟨out, ho, hs⟩ := hok _ this
    simp at hs
    have : (v :: (c0 ++ [[]])).length = out.length := by rw [hs]
    simp at this; omega
  | cons e c1 =>
    obtain ⟨v0, o0, hf0, _⟩ := F [] [] 0
    obtain ⟨out, ho, hout, _⟩ := frag_in_place (pre := [e]) (c1 := c1) (out0 := v0 :: c0) h hc rfl []
      (by simpa using hf0)
    obtain ⟨w, hw⟩ := TypeSound.len1 ho
    subst hw
    have hc0 : c0 = c1 := by simp at hout; exact hout.2
    subst hc0
    refine ⟨r, c0, ha, fun t rest alt ops => ?_⟩
    obtain ⟨v, o, hf, hr⟩ := F rest alt (ops + 1)
    obtain ⟨out', ho', hout', G⟩ := frag_in_place (pre := [e]) (c1 := c0) (out0 := v :: c0) h hc rfl rest
      (by simpa using hf)
    obtain ⟨w', hw'⟩ := TypeSound.len1 ho'
    subst hw'
    have hv : v = w' := by simp at hout'; exact hout'
    subst hv
    refine ⟨v, o, Or.inr ?_, hr⟩
    have := G (t :: (c0 ++ rest))
    simp [frag, opc_nl h, execOpc]
    simpa using this

theorem sound_dupIf (h : NoLimits env) {x : Ms} {c : List Bytes} {a' : AStack} {cs : List Constraint}
    (hc : TypeSound.Cons (frag env ke ctx x) 0 0)
    (hi : interp ke ie (.dupIf x) (absS c) = .ok (a', cs))
    (hA : SmallA (absS c))
    (Px : ∀ c1 a2 cs2, SmallA (absS c1) → interp ke ie x (absS c1) = .ok (a2, cs2) → Post env ke ctx x .V false c1 a2) :
    Post env ke ctx (.dupIf x) .B false c a' := by
  cases c with
  | nil => simp [interp] at hi
  | cons e c1 =>
    simp only [interp, absS_cons] at hi
    cases he : Elem.ofBytes e with
    | push b => simp [he] at hi
    | dissat =>
      have := ofBytes_dissat he
      subst this
      simp [he] at hi
      refine ⟨.dissat, c1, hi.1.symm, fun rest alt ops => ⟨[], ops + 1 + 1 + codeCount (encode ke ctx x) + 1, ?_,
        Res.ofBool env false false⟩⟩
      simp [frag, opc_nl h, execOpc, pushElem_nl h, cnd_nl h, condPop_nil', skipCount_nl h, countOp_nl h]
    | sat =>
      have := ofBytes_sat he
      subst this
      simp only [he] at hi
      cases hx : interp ke ie x (absS c1) with
      | error er => simp [hx] at hi
      | ok p =>
        obtain ⟨a2, cs2⟩ := p
        simp [hx] at hi
        obtain ⟨c0, ha2, F⟩ := Px c1 a2 cs2 hA.tail hx
        obtain ⟨o0, hf0⟩ := F [] [] 0
        obtain ⟨out, ho, hout, _⟩ := frag_in_place (pre := []) (c1 := c1) (out0 := c0) h hc rfl []
          (by simpa using hf0)
        have hnil : out = [] := List.eq_nil_of_length_eq_zero ho
        subst hnil
        have hc0 : c0 = c1 := by simpa using hout
        subst hc0
        subst ha2
        refine ⟨.sat, c0, hi.1.symm, fun rest alt ops => ?_⟩
        obtain ⟨o, hf⟩ := F rest alt (ops + 1 + 1)
        obtain ⟨out', ho', _, G⟩ := frag_in_place (pre := []) (c1 := c0) (out0 := c0) h hc rfl rest
          (by simpa using hf)
        have hnil' : out' = [] := List.eq_nil_of_length_eq_zero ho'
        subst hnil'
        have := G ([1] :: (c0 ++ rest))
        simp at this
        refine ⟨[1], o + 1, ?_, (Res.ofBool env true true).mono (fun x => by simp at x)⟩
        simp [frag, opc_nl h, execOpc, pushElem_nl h, cnd_nl h, condPop_one', this, countOp_nl h]

/-! ### combinators -/

/-- `and_v(l, r)`: `l` leaves nothing, then `r` -/
theorem sound_andV {l r : Ms} {b : Base} {ul u : Bool} {c : List Bytes} {a1 a' : AStack} (hb : b ≠ .W)
    (Pl : Post env ke ctx l .V ul c a1)
    (Pr : ∀ c1, a1 = absS c1 → Post env ke ctx r b u c1 a') : Post env ke ctx (.andV l r) b u c a' := by
  obtain ⟨c1, ha, F⟩ := Pl
  refine Post.transport hb (fun rest alt ops => ?_) (Pr c1 ha)
  obtain ⟨o, hf⟩ := F rest alt ops
  exact ⟨o, fun s hs => ⟨s.ops, by simp [frag, hf, hs]⟩⟩

theorem sound_andB (h : NoLimits env) {l r : Ms} {ul ur : Bool} {c : List Bytes} {a1 a' : AStack}
    {cs1 cs : List Constraint} (hl : interp ke ie l (absS c) = .ok (a1, cs1))
    (hi : interp ke ie (.andB l r) (absS c) = .ok (a', cs))
    (Pl : Post env ke ctx l .B ul c a1)
    (hA : SmallA (absS c))
    (Pr : ∀ c1 a2 cs2, SmallA (absS c1) → interp ke ie r (absS c1) = .ok (a2, cs2) → Post env ke ctx r .W ur c1 a2) :
    Post env ke ctx (.andB l r) .B true c a' := by
  obtain ⟨rl, c1, ha, Fl⟩ := Pl
  subst ha
  have hA1 : SmallA (absS c1) := (hA.interp hl).tail
  simp only [interp, hl] at hi
  have hbl : rl = .sat ∨ rl = .dissat := by
    obtain ⟨_, _, _, hr⟩ := Fl [] [] 0; exact hr.bool
  cases hr : interp ke ie r (absS c1) with
  | error e => rcases hbl with e1 | e1 <;> subst e1 <;> simp [hr] at hi
  | ok p =>
    obtain ⟨a2, cs2⟩ := p
    obtain ⟨rr, c2, ha2, Fr⟩ := Pr c1 a2 cs2 hA1 hr
    subst ha2
    have hi' : (if rr == .sat && rl == .sat then Elem.sat else Elem.dissat) :: absS c2 = a' := by
      rcases hbl with e1 | e1 <;> subst e1 <;> simp [hr] at hi <;> simp [hi.1]
    refine ⟨_, c2, hi'.symm, fun rest alt ops => ?_⟩
    obtain ⟨vl, o1, hf1, hr1⟩ := Fl rest alt ops
    obtain ⟨vr, o2, hf2, hr2⟩ := Fr vl rest alt o1
    obtain ⟨zl, hzl, hzl'⟩ := hr1.num
    obtain ⟨zr, hzr, hzr'⟩ := hr2.num
    refine ⟨boolBytes (zl != 0 && zr != 0), o2 + 1, ?_, ?_⟩
    · rcases hf2 with hf2 | hf2
      · simp [frag, hf1, hf2, opc_nl h, execOpc, hzl, hzr, pushElem_nl h]
      · simp [frag, hf1, hf2, opc_nl h, execOpc, hzl, hzr, pushElem_nl h, Bool.and_comm]
    · have e : (zl != 0 && zr != 0) = (rr == .sat && rl == .sat) := by
        rcases hbl with e1 | e1 <;> rcases hr2.bool with e2 | e2 <;> subst e1 <;> subst e2 <;>
          simp_all
      rw [e]
      exact Res.ofBool env true _

theorem sound_orB (h : NoLimits env) {l r : Ms} {ul ur : Bool} {c : List Bytes} {a1 a' : AStack}
    {cs1 cs : List Constraint} (hl : interp ke ie l (absS c) = .ok (a1, cs1))
    (hi : interp ke ie (.orB l r) (absS c) = .ok (a', cs))
    (Pl : Post env ke ctx l .B ul c a1)
    (hA : SmallA (absS c))
    (Pr : ∀ c1 a2 cs2, SmallA (absS c1) → interp ke ie r (absS c1) = .ok (a2, cs2) → Post env ke ctx r .W ur c1 a2) :
    Post env ke ctx (.orB l r) .B true c a' := by
  obtain ⟨rl, c1, ha, Fl⟩ := Pl
  subst ha
  have hA1 : SmallA (absS c1) := (hA.interp hl).tail
  simp only [interp, hl] at hi
  have hbl : rl = .sat ∨ rl = .dissat := by
    obtain ⟨_, _, _, hr⟩ := Fl [] [] 0; exact hr.bool
  cases hr : interp ke ie r (absS c1) with
  | error e => rcases hbl with e1 | e1 <;> subst e1 <;> simp [hr] at hi
  | ok p =>
    obtain ⟨a2, cs2⟩ := p
    obtain ⟨rr, c2, ha2, Fr⟩ := Pr c1 a2 cs2 hA1 hr
    subst ha2
    have hi' : (if rr == .dissat && rl == .dissat then Elem.dissat else Elem.sat) :: absS c2 = a' := by
      rcases hbl with e1 | e1 <;> subst e1 <;> simp [hr] at hi <;> simp [hi.1]
    refine ⟨_, c2, hi'.symm, fun rest alt ops => ?_⟩
    obtain ⟨vl, o1, hf1, hr1⟩ := Fl rest alt ops
    obtain ⟨vr, o2, hf2, hr2⟩ := Fr vl rest alt o1
    obtain ⟨zl, hzl, hzl'⟩ := hr1.num
    obtain ⟨zr, hzr, hzr'⟩ := hr2.num
    refine ⟨boolBytes (zl != 0 || zr != 0), o2 + 1, ?_, ?_⟩
    · rcases hf2 with hf2 | hf2
      · simp [frag, hf1, hf2, opc_nl h, execOpc, hzl, hzr, pushElem_nl h]
      · simp [frag, hf1, hf2, opc_nl h, execOpc, hzl, hzr, pushElem_nl h, Bool.or_comm]
    · have e : (if rr == .dissat && rl == .dissat then Elem.dissat else Elem.sat)
          = (if (zl != 0 || zr != 0) then Elem.sat else Elem.dissat) := by
        rcases hbl with e1 | e1 <;> rcases hr2.bool with e2 | e2 <;> subst e1 <;> subst e2 <;>
          simp_all
      rw [e]
      exact Res.ofBool env true _

/-- MINIMALIF accepts `[]` and `[1]` -/
theorem condPop_nil (notif : Bool) (st alt : List Bytes) (ops : Nat) :
    condPop env notif ⟨[] :: st, alt, ops⟩ = .ok (notif, ⟨st, alt, ops⟩) := by
  cases notif <;> simp [condPop, castToBool]

theorem condPop_one (notif : Bool) (st alt : List Bytes) (ops : Nat) :
    condPop env notif ⟨[1] :: st, alt, ops⟩ = .ok (!notif, ⟨st, alt, ops⟩) := by
  cases notif <;> simp [condPop, castToBool]

theorem sound_orD (h : NoLimits env) {l r : Ms} {u : Bool} {c : List Bytes} {a1 a' : AStack}
    {cs1 cs : List Constraint} (hl : interp ke ie l (absS c) = .ok (a1, cs1))
    (hi : interp ke ie (.orD l r) (absS c) = .ok (a', cs))
    (Pl : Post env ke ctx l .B true c a1)
    (hA : SmallA (absS c))
    (Pr : ∀ c1 a2 cs2, SmallA (absS c1) → interp ke ie r (absS c1) = .ok (a2, cs2) → Post env ke ctx r .B u c1 a2) :
    Post env ke ctx (.orD l r) .B u c a' := by
  obtain ⟨rl, c1, ha, Fl⟩ := Pl
  subst ha
  have hA1 : SmallA (absS c1) := (hA.interp hl).tail
  simp only [interp, hl] at hi
  cases rl with
  | push b => simp at hi
  | sat =>
    simp at hi
    refine ⟨.sat, c1, hi.1.symm, fun rest alt ops => ?_⟩
    obtain ⟨vl, o1, hf1, hr1⟩ := Fl rest alt ops
    have hv : vl = [1] := (hr1.sat rfl).2.1 rfl
    subst hv
    refine ⟨[1], o1 + 1 + 1 + codeCount (encode ke ctx r) + 1, ?_, (Res.ofBool env true true).mono (fun _ => rfl)⟩
    simp [frag, hf1, opc_nl h, execOpc, castToBool, pushElem_nl h, cnd_nl h, condPop_one, skipCount_nl h,
      countOp_nl h]
  | dissat =>
    cases hr : interp ke ie r (absS c1) with
    | error e => simp [hr] at hi
    | ok p =>
      obtain ⟨a2, cs2⟩ := p
      simp [hr] at hi
      have P := Pr c1 a2 cs2 hA1 hr
      rw [hi.1] at P
      refine Post.transport (by simp) (fun rest alt ops => ?_) P
      obtain ⟨vl, o1, hf1, hr1⟩ := Fl rest alt ops
      have hv : vl = [] := hr1.dis rfl
      subst hv
      refine ⟨o1 + 1 + 1, fun s hs => ⟨s.ops + 1, ?_⟩⟩
      simp [frag, hf1, opc_nl h, execOpc, castToBool, cnd_nl h, condPop_nil, hs, countOp_nl h]

theorem sound_orC (h : NoLimits env) {l r : Ms} {u : Bool} {c : List Bytes} {a1 a' : AStack}
    {cs1 cs : List Constraint} (hl : interp ke ie l (absS c) = .ok (a1, cs1))
    (hi : interp ke ie (.orC l r) (absS c) = .ok (a', cs))
    (Pl : Post env ke ctx l .B true c a1)
    (hA : SmallA (absS c))
    (Pr : ∀ c1 a2 cs2, SmallA (absS c1) → interp ke ie r (absS c1) = .ok (a2, cs2) → Post env ke ctx r .V u c1 a2) :
    Post env ke ctx (.orC l r) .V u c a' := by
  obtain ⟨rl, c1, ha, Fl⟩ := Pl
  subst ha
  have hA1 : SmallA (absS c1) := (hA.interp hl).tail
  simp only [interp, hl] at hi
  cases rl with
  | push b => simp at hi
  | sat =>
    simp at hi
    refine ⟨c1, hi.1.symm, fun rest alt ops => ?_⟩
    obtain ⟨vl, o1, hf1, hr1⟩ := Fl rest alt ops
    have hv : vl = [1] := (hr1.sat rfl).2.1 rfl
    subst hv
    refine ⟨o1 + 1 + codeCount (encode ke ctx r) + 1, ?_⟩
    simp [frag, hf1, cnd_nl h, condPop_one, skipCount_nl h, countOp_nl h]
  | dissat =>
    cases hr : interp ke ie r (absS c1) with
    | error e => simp [hr] at hi
    | ok p =>
      obtain ⟨a2, cs2⟩ := p
      simp [hr] at hi
      have P := Pr c1 a2 cs2 hA1 hr
      rw [hi.1] at P
      refine Post.transport (by simp) (fun rest alt ops => ?_) P
      obtain ⟨vl, o1, hf1, hr1⟩ := Fl rest alt ops
      have hv : vl = [] := hr1.dis rfl
      subst hv
      refine ⟨o1 + 1, fun s hs => ⟨s.ops + 1, ?_⟩⟩
      simp [frag, hf1, cnd_nl h, condPop_nil, hs, countOp_nl h]

theorem sound_orI (h : NoLimits env) {l r : Ms} {b : Base} {u : Bool} {c : List Bytes} {a' : AStack}
    {cs : List Constraint} (hb : b ≠ .W)
    (hi : interp ke ie (.orI l r) (absS c) = .ok (a', cs))
    (hA : SmallA (absS c))
    (Pl : ∀ c1 a2 cs2, SmallA (absS c1) → interp ke ie l (absS c1) = .ok (a2, cs2) → Post env ke ctx l b u c1 a2)
    (Pr : ∀ c1 a2 cs2, SmallA (absS c1) → interp ke ie r (absS c1) = .ok (a2, cs2) → Post env ke ctx r b u c1 a2) :
    Post env ke ctx (.orI l r) b u c a' := by
  cases c with
  | nil => simp [interp] at hi
  | cons e c1 =>
    simp only [interp, absS_cons] at hi
    cases he : Elem.ofBytes e with
    | push x => simp [he] at hi
    | sat =>
      have := ofBytes_sat he
      subst this
      simp only [he] at hi
      refine Post.transport hb (fun rest alt ops => ?_) (Pl c1 a' cs hA.tail hi)
      refine ⟨ops + 1, fun s hs => ⟨s.ops + 1 + codeCount (encode ke ctx r) + 1, ?_⟩⟩
      simp [frag, cnd_nl h, condPop_one, hs, skipCount_nl h, countOp_nl h]
    | dissat =>
      have := ofBytes_dissat he
      subst this
      simp only [he] at hi
      refine Post.transport hb (fun rest alt ops => ?_) (Pr c1 a' cs hA.tail hi)
      refine ⟨ops + 1 + codeCount (encode ke ctx l) + 1, fun s hs => ⟨s.ops + 1, ?_⟩⟩
      simp [frag, cnd_nl h, condPop_nil, hs, skipCount_nl h, countOp_nl h]

theorem sound_andOr (h : NoLimits env) {x y z : Ms} {b : Base} {u : Bool} {c : List Bytes} {a1 a' : AStack}
    {cs1 cs : List Constraint} (hb : b ≠ .W) (hx : interp ke ie x (absS c) = .ok (a1, cs1))
    (hi : interp ke ie (.andOr x y z) (absS c) = .ok (a', cs))
    (Px : Post env ke ctx x .B true c a1)
    (hA : SmallA (absS c))
    (Py : ∀ c1 a2 cs2, SmallA (absS c1) → interp ke ie y (absS c1) = .ok (a2, cs2) → Post env ke ctx y b u c1 a2)
    (Pz : ∀ c1 a2 cs2, SmallA (absS c1) → interp ke ie z (absS c1) = .ok (a2, cs2) → Post env ke ctx z b u c1 a2) :
    Post env ke ctx (.andOr x y z) b u c a' := by
  obtain ⟨rx, c1, ha, Fx⟩ := Px
  subst ha
  have hA1 : SmallA (absS c1) := (hA.interp hx).tail
  simp only [interp, hx] at hi
  cases rx with
  | push q => simp at hi
  | sat =>
    cases hy : interp ke ie y (absS c1) with
    | error e => simp [hy] at hi
    | ok p =>
      obtain ⟨a2, cs2⟩ := p
      simp [hy] at hi
      have P := Py c1 a2 cs2 hA1 hy
      rw [hi.1] at P
      refine Post.transport hb (fun rest alt ops => ?_) P
      obtain ⟨vx, o1, hf1, hr1⟩ := Fx rest alt ops
      have hv : vx = [1] := (hr1.sat rfl).2.1 rfl
      subst hv
      refine ⟨o1 + 1 + codeCount (encode ke ctx z) + 1, fun s hs => ⟨s.ops + 1, ?_⟩⟩
      simp [frag, hf1, cnd_nl h, condPop_one, hs, skipCount_nl h, countOp_nl h]
  | dissat =>
    cases hz : interp ke ie z (absS c1) with
    | error e => simp [hz] at hi
    | ok p =>
      obtain ⟨a2, cs2⟩ := p
      simp [hz] at hi
      have P := Pz c1 a2 cs2 hA1 hz
      rw [hi.1] at P
      refine Post.transport hb (fun rest alt ops => ?_) P
      obtain ⟨vx, o1, hf1, hr1⟩ := Fx rest alt ops
      have hv : vx = [] := hr1.dis rfl
      subst hv
      refine ⟨o1 + 1, fun s hs => ⟨s.ops + 1 + codeCount (encode ke ctx y) + 1, ?_⟩⟩
      simp [frag, hf1, cnd_nl h, condPop_nil, hs, skipCount_nl h, countOp_nl h]

/-! ### thresh: the running sum -/

/-- the number a boolean result contributes to the sum -/
def bitOf (r : Elem) : Nat := if r = .sat then 1 else 0

theorem bitOf_le (r : Elem) : bitOf r ≤ 1 := by unfold bitOf; split <;> omega

theorem num4_enc {m : Nat} (hm : m < 2 ^ 31) : num4 env (numEncode (m : Int)) = .ok (m : Int) := by
  have := (SatSpec.numOk_of_lt m (by omega)).1 env.flags.minimalNum
  simp [num4, this]

theorem numEncode_inj' {a b : Nat} (ha : a < 2 ^ 31) (hb : b < 2 ^ 31)
    (hh : numEncode (a : Int) = numEncode (b : Int)) : a = b := by
  have h1 := (SatSpec.numOk_of_lt a (by omega)).1 false
  have h2 := (SatSpec.numOk_of_lt b (by omega)).1 false
  rw [hh, h2] at h1
  have := Option.some.inj h1
  omega

theorem Res.enc {r : Elem} {v : Bytes} (hr : Res env true r v) : v = numEncode ((bitOf r : Nat) : Int) := by
  rcases hr.minimal with ⟨e1, e2⟩ | ⟨e1, e2⟩ <;> subst e1 <;> subst e2 <;> decide

theorem lockVal_eq (n : Nat) : lockVal n = numEncode (n : Int) := by
  unfold lockVal
  split
  · rename_i hn
    have : ∀ n, n ≤ 16 → (if n = 0 then ([] : Bytes) else [UInt8.ofNat n]) = numEncode (n : Int) := by decide
    exact this n hn
  · rfl

theorem add_exec (h : NoLimits env) {a b : Nat} (ha : a < 2 ^ 31) (hb : b < 2 ^ 31)
    (st alt : List Bytes) (ops : Nat) :
    opc env .add ⟨numEncode (a : Int) :: numEncode (b : Int) :: st, alt, ops⟩
      = .ok ⟨numEncode ((b + a : Nat) : Int) :: st, alt, ops + 1⟩ := by
  simp [opc_nl h, execOpc, num4_enc ha, num4_enc hb, pushElem_nl h]

theorem interpRest_cons_inv {x : Ms} {xs : MsList} {nS : Nat} {rPrev : Elem} {st st' : AStack} {nS' : Nat}
    {cs : List Constraint} (hrp : rPrev = .sat ∨ rPrev = .dissat)
    (hi : interpRest ke ie (.cons x xs) nS (rPrev :: st) = .ok (st', nS', cs)) :
    ∃ st1 cs1 cs2, interp ke ie x st = .ok (st1, cs1)
      ∧ interpRest ke ie xs (nS + bitOf rPrev) st1 = .ok (st', nS', cs2) := by
  rcases hrp with e | e <;> subst e
  · simp only [interpRest] at hi
    cases hx : interp ke ie x st with
    | error er => simp [hx] at hi
    | ok p =>
      obtain ⟨st1, cs1⟩ := p
      cases hr : interpRest ke ie xs (nS + 1) st1 with
      | error er => simp [hx, hr] at hi
      | ok q =>
        obtain ⟨a2, n2, cs2⟩ := q
        simp [hx, hr] at hi
        exact ⟨st1, cs1, cs2, rfl, by simp [bitOf, hr, hi.1, hi.2.1]⟩
  · simp only [interpRest] at hi
    cases hx : interp ke ie x st with
    | error er => simp [hx] at hi
    | ok p =>
      obtain ⟨st1, cs1⟩ := p
      cases hr : interpRest ke ie xs nS st1 with
      | error er => simp [hx, hr] at hi
      | ok q =>
        obtain ⟨a2, n2, cs2⟩ := q
        simp [hx, hr] at hi
        exact ⟨st1, cs1, cs2, rfl, by simp [bitOf, hr, hi.1, hi.2.1]⟩

/-- the last two elements of `thresh`: `<k> EQUAL` on the sum -/
theorem thresh_tail (h : NoLimits env) {k m : Nat} (hk : k < 2 ^ 31) (hm : m < 2 ^ 31)
    (st alt : List Bytes) (ops : Nat) :
    seqOps env [pushInt k, .code .equal] ⟨numEncode (m : Int) :: st, alt, ops⟩
      = .ok ⟨boolBytes (decide (m = k)) :: st, alt, ops + 1⟩ := by
  simp only [seqOps, List.foldlM_cons, List.foldlM_nil, pshOp_pushInt h, bindOk, lockVal_eq]
  have e : (numEncode (k : Int) == numEncode (m : Int)) = decide (m = k) := by
    by_cases hmk : m = k
    · subst hmk; simp
    · have : numEncode (k : Int) ≠ numEncode (m : Int) := fun hh => hmk (numEncode_inj' hk hm hh).symm
      simp [hmk, this]
  simp [pshOp, opc_nl h, execOpc, pushElem_nl h, e]

/-! ### `j:` -/

theorem size_step (h : NoLimits env) (e : Bytes) (st alt : List Bytes) (ops : Nat) :
    opc env .size ⟨e :: st, alt, ops⟩ = .ok ⟨numEncode (e.length : Int) :: e :: st, alt, ops + 1⟩ := by
  simp [opc_nl h, execOpc, pushElem_nl h]

theorem zne_step (h : NoLimits env) {m : Nat} (hm : m < 2 ^ 31) (st alt : List Bytes) (ops : Nat) :
    opc env .zeronotequal ⟨numEncode (m : Int) :: st, alt, ops⟩
      = .ok ⟨boolBytes (decide (m ≠ 0)) :: st, alt, ops + 1⟩ := by
  have e : ((m : Int) != 0) = decide (m ≠ 0) := by
    by_cases hm0 : m = 0
    · subst hm0; simp
    · have : (m : Int) ≠ 0 := by omega
      simp [hm0, this]
  simp only [opc_nl h, execOpc, num4_enc hm, bindOk, pushElem_nl h, e]

theorem cnd_bool (h : NoLimits env) (b : Bool) (st alt : List Bytes) (ops : Nat) :
    cnd env false ⟨boolBytes b :: st, alt, ops⟩ = .ok (b, ⟨st, alt, ops + 1⟩) := by
  cases b
  · simpa [boolBytes] using (by rw [cnd_nl h]; exact condPop_nil' false st alt (ops + 1) :
      cnd env false ⟨[] :: st, alt, ops⟩ = .ok (false, ⟨st, alt, ops + 1⟩))
  · simpa [boolBytes] using (by rw [cnd_nl h]; exact condPop_one' false st alt (ops + 1) :
      cnd env false ⟨[1] :: st, alt, ops⟩ = .ok (!false, ⟨st, alt, ops + 1⟩))

/-- the first three opcodes of `j:X` on a stack whose top element is `e` -/
theorem nonZero_frag (h : NoLimits env) (x : Ms) (e : Bytes) (hlen : e.length < 2 ^ 31)
    (st alt : List Bytes) (ops : Nat) :
    frag env ke ctx (.nonZero x) ⟨e :: st, alt, ops⟩ =
      (if e.length ≠ 0 then frag env ke ctx x ⟨e :: st, alt, ops + 3⟩
        else skipCount env (encode ke ctx x) ⟨e :: st, alt, ops + 3⟩) >>= fun c => countOp env c 1 := by
  rw [frag]
  simp only [size_step h, bindOk, zne_step h hlen, cnd_bool h]
  by_cases hl : e.length = 0 <;> simp [hl]

/-- `j:X` = `SIZE 0NOTEQUAL IF [X] ENDIF`: needs the size of the top element to be a 4-byte
script number (`SmallA`) -/
theorem sound_nonZero (h : NoLimits env) {x : Ms} {u : Bool} {c : List Bytes} {a' : AStack}
    {cs : List Constraint} (hi : interp ke ie (.nonZero x) (absS c) = .ok (a', cs)) (hA : SmallA (absS c))
    (Px : interp ke ie x (absS c) = .ok (a', cs) → Post env ke ctx x .B u c a') :
    Post env ke ctx (.nonZero x) .B u c a' := by
  cases c with
  | nil => simp [interp] at hi
  | cons e c1 =>
    have hlen : e.length < 2 ^ 31 := hA.head
    simp only [interp, absS_cons] at hi
    cases he : Elem.ofBytes e with
    | dissat =>
      have := ofBytes_dissat he
      subst this
      simp [he] at hi
      refine ⟨.dissat, c1, by rw [← hi.1], fun rest alt ops =>
        ⟨[], ops + 3 + codeCount (encode ke ctx x) + 1, ?_, (Res.ofBool env true false).mono (fun _ => rfl)⟩⟩
      rw [List.cons_append, nonZero_frag h x [] hlen]
      simp [skipCount_nl h, countOp_nl h]
    | sat =>
      have e1 := ofBytes_sat he
      subst e1
      have hx : interp ke ie x (absS ([1] :: c1)) = .ok (a', cs) := by simpa [he] using hi
      refine Post.transport (by simp) (fun rest alt ops => ?_) (Px hx)
      refine ⟨ops + 3, fun s hs => ⟨s.ops + 1, ?_⟩⟩
      rw [List.cons_append] at hs ⊢
      rw [nonZero_frag h x [1] hlen]
      simp [hs, countOp_nl h]
    | push b =>
      obtain ⟨e1, e2, _⟩ := ofBytes_push he
      subst e1
      have hx : interp ke ie x (absS (e :: c1)) = .ok (a', cs) := by simpa [he] using hi
      refine Post.transport (by simp) (fun rest alt ops => ?_) (Px hx)
      refine ⟨ops + 3, fun s hs => ⟨s.ops + 1, ?_⟩⟩
      have hl0 : e.length ≠ 0 := by cases e <;> simp_all
      rw [List.cons_append] at hs ⊢
      rw [nonZero_frag h x e hlen]
      simp [hl0, hs, countOp_nl h]

/-! ### multi: CHECKMULTISIG's key walk

The interpreter tries each signature against the keys from the last to the first and skips a key
when ITS oracle rejects; Script's `multisigLoop` does the same with `env.sigOk`, which may accept
more (the agreement is one-directional).  Matching a signature EARLIER never hurts (`mloop_cons`),
so Script still finds all `k` matches. -/

/-- `multisigLoop` as a total Boolean function (all keys well-formed) -/
def mloop (env : Env) : List Bytes → List Bytes → Bool
  | [], _ => true
  | _ :: _, [] => false
  | s :: ss, key :: keys =>
    if ss.length + 1 > keys.length + 1 then false
    else if !s.isEmpty && env.sigOk key s then mloop env ss keys else mloop env (s :: ss) keys
termination_by s k => s.length + k.length

theorem multisigLoop_eq_mloop : ∀ (sigs keys : List Bytes), (∀ key ∈ keys, pubkeyOk env key = true) →
    multisigLoop env sigs keys = .ok (mloop env sigs keys)
  | [], keys, _ => by unfold multisigLoop mloop; rfl
  | s :: ss, [], _ => by unfold multisigLoop mloop; rfl
  | s :: ss, key :: keys, hk => by
    have hk' : ∀ q ∈ keys, pubkeyOk env q = true := fun q hq => hk q (by simp [hq])
    have h0 : pubkeyOk env key = true := hk key (by simp)
    unfold multisigLoop mloop
    by_cases hl : ss.length + 1 > keys.length + 1
    · simp [hl]
    · simp only [hl, if_false, h0, Bool.not_true, Bool.false_eq_true]
      by_cases hm : (!s.isEmpty && env.sigOk key s) = true
      · simp only [hm, if_true]; exact multisigLoop_eq_mloop ss keys hk'
      · simp only [hm, if_false]; exact multisigLoop_eq_mloop (s :: ss) keys hk'
termination_by s k => s.length + k.length

theorem mloop_length : ∀ (keys sigs : List Bytes), mloop env sigs keys = true → sigs.length ≤ keys.length
  | _, [], _ => by simp
  | [], s :: ss, h => by unfold mloop at h; simp at h
  | key :: keys, s :: ss, h => by
    unfold mloop at h
    by_cases hl : ss.length + 1 > keys.length + 1
    · simp [hl] at h
    · simp only [List.length_cons]; omega

/-- (A) one more key in front never hurts; (B) neither does one signature less -/
theorem mloop_mono : ∀ (keys : List Bytes),
    (∀ sigs key, mloop env sigs keys = true → mloop env sigs (key :: keys) = true)
    ∧ (∀ s ss, mloop env (s :: ss) keys = true → mloop env ss keys = true)
  | [] => by
    refine ⟨fun sigs key h => ?_, fun s ss h => ?_⟩
    · cases sigs with
      | nil => unfold mloop; rfl
      | cons s ss => unfold mloop at h; simp at h
    · unfold mloop at h; simp at h
  | key0 :: ks => by
    obtain ⟨A, B⟩ := mloop_mono ks
    have B' : ∀ s ss, mloop env (s :: ss) (key0 :: ks) = true → mloop env ss (key0 :: ks) = true := by
      intro s ss h
      unfold mloop at h
      by_cases hl : ss.length + 1 > ks.length + 1
      · simp [hl] at h
      · simp only [hl, if_false] at h
        by_cases hm : (!s.isEmpty && env.sigOk key0 s) = true
        · simp only [hm, if_true] at h; exact A ss key0 h
        · simp only [hm, if_false] at h; exact A ss key0 (B s ss h)
    refine ⟨fun sigs key h => ?_, B'⟩
    cases sigs with
    | nil => unfold mloop; rfl
    | cons s ss =>
      have hlen := mloop_length (key0 :: ks) (s :: ss) h
      simp only [List.length_cons] at hlen
      unfold mloop
      have hl : ¬ (ss.length + 1 > (key0 :: ks).length + 1) := by simp only [List.length_cons]; omega
      simp only [hl, if_false]
      by_cases hm : (!s.isEmpty && env.sigOk key s) = true
      · simp only [hm, if_true]; exact B' s ss h
      · simp only [hm, if_false]; exact h

theorem mloop_cons {sigs keys : List Bytes} (key : Bytes) (h : mloop env sigs keys = true) :
    mloop env sigs (key :: keys) = true := (mloop_mono keys).1 sigs key h

/-- the interpreter's walk finds `k - nSat` signatures on top of an empty dummy, and Script's walk
over the same keys succeeds on them -/
theorem multiLoop_sound (ag : Agree env ie) {k : Nat} : ∀ (keysRev : List Bytes) (nSat : Nat) (c : List Bytes)
    (a' : AStack) (cs : List Constraint), nSat ≤ k →
    Interp.multiLoop ie k keysRev nSat (absS c) = .ok (a', cs) →
    ∃ sigs c0, c = sigs ++ [] :: c0 ∧ sigs.length = k - nSat ∧ a' = .sat :: absS c0
      ∧ mloop env sigs keysRev = true
  | keysRev, nSat, c, a', cs, hle, hi => by
    unfold Interp.multiLoop at hi
    by_cases hk : (nSat == k) = true
    · simp only [hk, if_true] at hi
      cases c with
      | nil => simp at hi
      | cons e c0 =>
        simp only [absS_cons] at hi
        cases he : Elem.ofBytes e with
        | sat => simp [he] at hi
        | push x => simp [he] at hi
        | dissat =>
          have := ofBytes_dissat he
          subst this
          simp [he] at hi
          have : nSat = k := by simpa using hk
          exact ⟨[], c0, by simp, by simp [this], hi.1.symm, by unfold mloop; rfl⟩
    · simp only [hk] at hi
      have hne : nSat ≠ k := by simpa using hk
      cases keysRev with
      | nil => simp at hi
      | cons pk rest =>
        simp only at hi
        cases c with
        | nil => simp [evaluateMulti] at hi
        | cons v c1 =>
          simp only [absS_cons] at hi
          cases he : Elem.ofBytes v with
          | sat => simp [he, evaluateMulti] at hi
          | dissat => simp [he, evaluateMulti] at hi
          | push x =>
            obtain ⟨e1, e2, _⟩ := ofBytes_push he
            subst e1
            simp only [he, evaluateMulti] at hi
            by_cases hv : ie.verifySig pk v = true
            · simp only [hv, if_true] at hi
              cases hr : Interp.multiLoop ie k rest (nSat + 1) (absS c1) with
              | error er => simp [hr] at hi
              | ok q =>
                obtain ⟨a2, cs2⟩ := q
                simp [hr] at hi
                obtain ⟨sigs, c0, hc, hl, ha, hm⟩ := multiLoop_sound ag rest (nSat + 1) c1 a2 cs2 (by omega) hr
                refine ⟨v :: sigs, c0, by simp [hc], by simp [hl]; omega, by rw [← hi.1]; exact ha, ?_⟩
                have hlen := mloop_length rest sigs hm
                unfold mloop
                have : ¬ (sigs.length + 1 > rest.length + 1) := by omega
                have hne' : v.isEmpty = false := by cases v <;> simp_all
                simp [this, hne', ag.sig pk v hv, hm]
            · simp only [hv] at hi
              have hi' : Interp.multiLoop ie k rest nSat (absS (v :: c1)) = .ok (a', cs) := by
                simpa [he] using hi
              obtain ⟨sigs, c0, hc, hl, ha, hm⟩ := multiLoop_sound ag rest nSat (v :: c1) a' cs hle hi'
              exact ⟨sigs, c0, hc, hl, ha, mloop_cons pk hm⟩
termination_by keysRev => keysRev.length

theorem mloop_empties : ∀ (keys : List Bytes) (j : Nat), mloop env (List.replicate (j + 1) []) keys = false
  | [], j => by simp [List.replicate_succ]; unfold mloop; rfl
  | key :: keys, j => by
    rw [List.replicate_succ]
    unfold mloop
    by_cases hl : (List.replicate j ([] : Bytes)).length + 1 > keys.length + 1
    · rw [if_pos hl]
    · rw [if_neg hl]
      simp only [List.isEmpty_nil, Bool.not_true, Bool.false_and, Bool.false_eq_true, if_false]
      have := mloop_empties keys j
      rw [List.replicate_succ] at this
      exact this

theorem absS_all_dissat : ∀ (j : Nat) (c : List Bytes), j ≤ c.length →
    ((absS c).take j).all (· == Elem.dissat) = true → ∃ c0, c = List.replicate j [] ++ c0
  | 0, c, _, _ => ⟨c, by simp⟩
  | j + 1, [], hl, _ => by simp at hl
  | j + 1, e :: c, hl, h => by
    simp only [absS_cons, List.take_succ_cons, List.all_cons, Bool.and_eq_true, beq_iff_eq] at h
    have he := ofBytes_dissat h.1
    subst he
    obtain ⟨c0, hc0⟩ := absS_all_dissat j c (by simpa using hl) h.2
    exact ⟨c0, by rw [hc0, List.replicate_succ]; simp⟩

theorem sound_multi (h : NoLimits env) (ag : Agree env ie) {k : Nat} {ks : List Key}
    (hs : Sup env ke (.multi k ks)) {c : List Bytes} {a' : AStack} {cs : List Constraint}
    (hi : interp ke ie (.multi k ks) (absS c) = .ok (a', cs)) :
    Post env ke ctx (.multi k ks) .B true c a' := by
  obtain ⟨htap, hk1, hkn, hn, hkeys⟩ := hs
  have hE : SatSpec.EnvOk env .segwitv0 := ⟨h.op, h.st, by simp [htap]⟩
  have hkeys' : ∀ key ∈ (ks.map ke.ser).reverse, pubkeyOk env key = true := by
    intro key hkey
    simp only [List.mem_reverse, List.mem_map] at hkey
    obtain ⟨q, hq, rfl⟩ := hkey
    exact hkeys q hq
  have hctx : ∀ c, frag env ke ctx (.multi k ks) c = frag env ke .segwitv0 (.multi k ks) c := by
    intro c; simp [frag]
  simp only [interp, evalMulti] at hi
  split at hi
  · simp at hi
  · rename_i hlen
    have hlen' : k + 1 ≤ c.length := by simp [absS] at hlen; omega
    cases hc : absS c with
    | nil => rw [hc] at hi; simp at hi
    | cons top st0 =>
      by_cases htop : top = .dissat
      · subst htop
        rw [hc] at hi
        simp only at hi
        split at hi
        · rename_i hall
          simp at hi
          rw [← hc] at hall
          obtain ⟨c0, hc0⟩ := absS_all_dissat (k + 1) c hlen' hall
          subst hc0
          have hdrop : (Elem.dissat :: st0).drop (k + 1) = absS c0 := by
            rw [← hc]; simp [absS]
          refine ⟨.dissat, c0, by rw [← hi.1, ← hdrop]; simp, fun rest alt ops => ?_⟩
          have hrun := SatSpec.frag_multi (ke := ke) (ctx := .segwitv0) hE htap k ks hn hkn (List.replicate k [])
            (by simp) (c0 ++ rest) (b := false)
            (by
              rw [multisigLoop_eq_mloop _ _ hkeys']
              obtain ⟨j, hj⟩ : ∃ j, k = j + 1 := ⟨k - 1, by omega⟩
              subst hj
              rw [mloop_empties])
            (Or.inr (by simp))
          obtain ⟨c', hf, hst, halt⟩ := hrun alt ops
          refine ⟨[], c'.ops, ?_, Res.ofBool env true false⟩
          rw [hctx]
          have e : List.replicate (k + 1) ([] : Bytes) ++ c0 ++ rest = List.replicate k [] ++ [] :: (c0 ++ rest) := by
            rw [List.replicate_succ']; simp
          rw [e, hf]
          cases c'
          simp at hst halt
          simp [hst, halt, boolBytes]
        · simp at hi
      · rw [hc] at hi
        have hi' : Interp.multiLoop ie k (ks.map ke.ser).reverse 0 (absS c) = .ok (a', cs) := by
          rw [hc]
          cases top with
          | dissat => exact absurd rfl htop
          | sat => simpa using hi
          | push x => simpa using hi
        obtain ⟨sigs, c0, hcs, hl, ha, hm⟩ := multiLoop_sound ag _ 0 c a' cs (by omega) hi'
        subst hcs
        refine ⟨.sat, c0, ha, fun rest alt ops => ?_⟩
        have hrun := SatSpec.frag_multi (ke := ke) (ctx := .segwitv0) hE htap k ks hn hkn sigs (by omega)
          (c0 ++ rest) (b := true) (by rw [multisigLoop_eq_mloop _ _ hkeys', hm]) (Or.inl rfl)
        obtain ⟨c', hf, hst, halt⟩ := hrun alt ops
        refine ⟨[1], c'.ops, ?_, Res.ofBool env true true⟩
        rw [hctx]
        have e : sigs ++ [] :: c0 ++ rest = sigs ++ [] :: (c0 ++ rest) := by simp
        rw [e, hf]
        cases c'
        simp at hst halt
        simp [hst, halt, boolBytes]

/-! ### multi_a: CHECKSIG, then one CHECKSIGADD per further key, then `<k> NUMEQUAL` -/

theorem seqOps_append (env : Env) (a b : List Op) (c : Core) :
    seqOps env (a ++ b) c = seqOps env a c >>= seqOps env b := by
  unfold seqOps; rw [List.foldlM_append]

theorem seqOps_nil (env : Env) (c : Core) : seqOps env [] c = .ok c := rfl

/-- one further key of `multi_a`: `<pk> CHECKSIGADD` on the running count -/
theorem csa_step (h : NoLimits env) (htap : env.flags.tapscript = true) {m : Nat} (hm : m < 2 ^ 31)
    {pk sg : Bytes} {b : Bool} (hchk : checkSig env sg pk = .ok b) (st alt : List Bytes) (ops : Nat) :
    seqOps env [Op.push pk, .code .checksigadd] ⟨numEncode (m : Int) :: sg :: st, alt, ops⟩
      = .ok ⟨numEncode ((m + (if b then 1 else 0) : Nat) : Int) :: st, alt, ops + 1⟩ := by
  simp only [seqOps, List.foldlM_cons, List.foldlM_nil, pshOp, psh_nl h, bindOk, opc_nl h]
  simp only [execOpc, htap, Bool.not_true, Bool.false_eq_true, if_false, num4_enc hm, bindOk, hchk,
    pushElem_nl h, pureOk]
  cases b <;> simp

/-- the first key: `<pk> CHECKSIG` -/
theorem cs_step (h : NoLimits env) {pk sg : Bytes} {b : Bool} (hchk : checkSig env sg pk = .ok b)
    (st alt : List Bytes) (ops : Nat) :
    seqOps env [Op.push pk, .code .checksig] ⟨sg :: st, alt, ops⟩
      = .ok ⟨numEncode (((if b then 1 else 0) : Nat) : Int) :: st, alt, ops + 1⟩ := by
  simp only [seqOps, List.foldlM_cons, List.foldlM_nil, pshOp, psh_nl h, bindOk, opc_nl h]
  simp only [execOpc, hchk, bindOk, pushElem_nl h, pureOk]
  cases b <;> simp [boolBytes] <;> decide

/-- one key of `multi_a` on the interpreter side -/
theorem evaluatePk_step (ag : Agree env ie) {pk : Bytes} (hk : pubkeyOk env pk = true) {c : List Bytes}
    {st1 : AStack} {cs1 : List Constraint} (hp : evaluatePk ie pk (absS c) = .ok (st1, cs1)) :
    ∃ sg c0 b, c = sg :: c0 ∧ st1 = (if b then Elem.sat else Elem.dissat) :: absS c0
      ∧ checkSig env sg pk = .ok b ∧ (cs1 = [] ↔ b = false) := by
  unfold evaluatePk at hp
  obtain ⟨r, sg, c0, hc, ha, hres⟩ := evalSig_sound ag hk hp
  subst hc
  rcases hres.bool with e | e
  · subst e
    refine ⟨sg, c0, true, rfl, ha, hres.sat rfl, ?_⟩
    -- the accepted signature is reported
    cases hsg : Elem.ofBytes sg with
    | sat => simp [evalSig, hsg] at hp
    | dissat => simp [evalSig, hsg] at hp; simp [ha] at hp
    | push x =>
      simp only [absS_cons, hsg, evalSig] at hp
      split at hp
      · simp at hp; simp [← hp.2]
      · simp at hp
  · subst e
    refine ⟨sg, c0, false, rfl, ha, hres.dis rfl, ?_⟩
    cases hsg : Elem.ofBytes sg with
    | sat => simp [evalSig, hsg] at hp
    | dissat => simp [evalSig, hsg] at hp; simp [← hp.2]
    | push x =>
      simp only [absS_cons, hsg, evalSig] at hp
      split at hp
      · simp at hp; simp [ha] at hp
      · simp at hp

theorem multiA_rest (h : NoLimits env) (ag : Agree env ie) (htap : env.flags.tapscript = true) {k : Nat} :
    ∀ (ks : List Key) (nSat : Nat) (c : List Bytes) (a' : AStack) (cs : List Constraint),
      (∀ key ∈ ks, pubkeyOk env (ke.ser key) = true) →
      Interp.multiALoop ie k (ks.map ke.ser) nSat (absS c) = .ok (a', cs) →
      ∃ c0 nT, a' = (if nT = k then Elem.sat else Elem.dissat) :: absS c0 ∧ nT ≤ nSat + ks.length ∧
        ∀ rest alt ops, nSat + ks.length < 2 ^ 31 → ∃ ops',
          seqOps env (ks.flatMap (fun pk => [Op.push (ke.ser pk), .code .checksigadd]))
              ⟨numEncode (nSat : Int) :: (c ++ rest), alt, ops⟩
            = .ok ⟨numEncode (nT : Int) :: (c0 ++ rest), alt, ops'⟩
  | [], nSat, c, a', cs, _, hi => by
    simp [Interp.multiALoop] at hi
    exact ⟨c, nSat, hi.1.symm, by simp, fun rest alt ops _ => ⟨ops, by simp [seqOps_nil]⟩⟩
  | key :: ks, nSat, c, a', cs, hkeys, hi => by
    simp only [List.map_cons] at hi
    unfold Interp.multiALoop at hi
    cases hp : evaluatePk ie (ke.ser key) (absS c) with
    | error er => simp [hp] at hi
    | ok p =>
      obtain ⟨st1, cs1⟩ := p
      obtain ⟨sg, c1, b, hc, hst1, hchk, hcs⟩ := evaluatePk_step ag (hkeys key (by simp)) hp
      subst hc; subst hst1
      have hkeys' : ∀ key ∈ ks, pubkeyOk env (ke.ser key) = true := fun q hq => hkeys q (by simp [hq])
      -- whatever the count becomes, the rest of the loop runs on `c1`
      have fin : ∀ (n1 : Nat) (a2 : AStack) (cs2 : List Constraint), n1 = nSat + (if b then 1 else 0) →
          Interp.multiALoop ie k (ks.map ke.ser) n1 (absS c1) = .ok (a2, cs2) → a2 = a' →
          ∃ c0 nT, a' = (if nT = k then Elem.sat else Elem.dissat) :: absS c0 ∧ nT ≤ nSat + (key :: ks).length ∧
            ∀ rest alt ops, nSat + (key :: ks).length < 2 ^ 31 → ∃ ops',
              seqOps env ((key :: ks).flatMap (fun pk => [Op.push (ke.ser pk), .code .checksigadd]))
                  ⟨numEncode (nSat : Int) :: ((sg :: c1) ++ rest), alt, ops⟩
                = .ok ⟨numEncode (nT : Int) :: (c0 ++ rest), alt, ops'⟩ := by
        intro n1 a2 cs2 hn1 hr ha2
        obtain ⟨c0, nT, ha, hle, F⟩ := multiA_rest h ag htap ks n1 c1 a2 cs2 hkeys' hr
        rw [ha2] at ha
        have hb1 : n1 ≤ nSat + 1 := by subst hn1; cases b <;> simp
        refine ⟨c0, nT, ha, by simp only [List.length_cons]; omega, fun rest alt ops hb => ?_⟩
        simp only [List.length_cons] at hb
        obtain ⟨o, hf⟩ := F rest alt (ops + 1) (by omega)
        refine ⟨o, ?_⟩
        rw [List.flatMap_cons, seqOps_append, List.cons_append,
          csa_step h htap (show nSat < 2 ^ 31 by omega) hchk (c1 ++ rest) alt ops, bindOk, ← hn1]
        exact hf
      cases b with
      | false =>
        have hcs1 : cs1 = [] := hcs.mpr rfl
        subst hcs1
        simp only [hp] at hi
        exact fin nSat a' cs (by simp) (by simpa using hi) rfl
      | true =>
        have hne : cs1 ≠ [] := fun e => by have := hcs.mp e; simp at this
        cases cs1 with
        | nil => exact absurd rfl hne
        | cons c1' cr =>
          simp only [hp] at hi
          cases hr : Interp.multiALoop ie k (ks.map ke.ser) (nSat + 1) (absS c1) with
          | error er => simp [hr] at hi
          | ok q =>
            obtain ⟨a2, cs2⟩ := q
            simp [hr] at hi
            exact fin (nSat + 1) a2 cs2 (by simp) hr hi.1

/-- `<k> NUMEQUAL` on the count -/
theorem multiA_tail (h : NoLimits env) {k m : Nat} (hk : k < 2 ^ 31) (hm : m < 2 ^ 31)
    (st alt : List Bytes) (ops : Nat) :
    seqOps env [pushInt k, .code .numequal] ⟨numEncode (m : Int) :: st, alt, ops⟩
      = .ok ⟨boolBytes (decide (m = k)) :: st, alt, ops + 1⟩ := by
  simp only [seqOps, List.foldlM_cons, List.foldlM_nil, pshOp_pushInt h, bindOk, lockVal_eq]
  simp only [pshOp, opc_nl h, execOpc, num4_enc hk, num4_enc hm, bindOk, pushElem_nl h, pureOk]
  by_cases hmk : m = k
  · subst hmk; simp
  · have : ¬ ((k : Int) = (m : Int)) := by omega
    rw [beq_eq_false_iff_ne.mpr this]; simp [hmk]

theorem sound_multiA (h : NoLimits env) (ag : Agree env ie) {k : Nat} {ks : List Key}
    (hs : Sup env ke (.multiA k ks)) {c : List Bytes} {a' : AStack} {cs : List Constraint}
    (hi : interp ke ie (.multiA k ks) (absS c) = .ok (a', cs)) :
    Post env ke ctx (.multiA k ks) .B true c a' := by
  obtain ⟨htap, hk, hlen, hne, hkeys⟩ := hs
  simp only [interp] at hi
  cases ks with
  | nil => exact absurd rfl hne
  | cons key ks =>
    simp only [List.map_cons] at hi
    unfold Interp.multiALoop at hi
    cases hp : evaluatePk ie (ke.ser key) (absS c) with
    | error er => simp [hp] at hi
    | ok p =>
      obtain ⟨st1, cs1⟩ := p
      obtain ⟨sg, c1, b, hc, hst1, hchk, hcs⟩ := evaluatePk_step ag (hkeys key (by simp)) hp
      subst hc; subst hst1
      have hkeys' : ∀ key ∈ ks, pubkeyOk env (ke.ser key) = true := fun q hq => hkeys q (by simp [hq])
      simp only [List.length_cons] at hlen
      have main : ∀ (n1 : Nat) (a2 : AStack) (cs2 : List Constraint), n1 = (if b then 1 else 0) →
          Interp.multiALoop ie k (ks.map ke.ser) n1 (absS c1) = .ok (a2, cs2) → a2 = a' →
          Post env ke ctx (.multiA k (key :: ks)) .B true (sg :: c1) a' := by
        intro n1 a2 cs2 hn1 hr ha2
        obtain ⟨c0, nT, ha, hle, F⟩ := multiA_rest (ke := ke) h ag htap ks n1 c1 a2 cs2 hkeys' hr
        rw [ha2] at ha
        have hb1 : n1 ≤ 1 := by subst hn1; cases b <;> simp
        have ha' : a' = (if decide (nT = k) then Elem.sat else Elem.dissat) :: absS c0 := by simpa using ha
        refine ⟨_, c0, ha', fun rest alt ops => ?_⟩
        obtain ⟨o, hf⟩ := F rest alt (ops + 1) (by omega)
        refine ⟨boolBytes (decide (nT = k)), o + 1, ?_, Res.ofBool env true _⟩
        rw [frag]
        simp only [encodeMultiA]
        rw [List.append_assoc, seqOps_append]
        simp only [List.cons_append, List.nil_append]
        rw [cs_step h hchk (c1 ++ rest) alt ops, bindOk, ← hn1, seqOps_append, hf, bindOk]
        exact multiA_tail h hk (by omega) (c0 ++ rest) alt o
      cases b with
      | false =>
        have hcs1 : cs1 = [] := hcs.mpr rfl
        subst hcs1
        simp only [hp] at hi
        exact main 0 a' cs rfl (by simpa using hi) rfl
      | true =>
        have hne' : cs1 ≠ [] := fun e => by have := hcs.mp e; simp at this
        cases cs1 with
        | nil => exact absurd rfl hne'
        | cons c1' cr =>
          simp only [hp] at hi
          cases hr : Interp.multiALoop ie k (ks.map ke.ser) (0 + 1) (absS c1) with
          | error er => simp [hr] at hi
          | ok q =>
            obtain ⟨a2, cs2⟩ := q
            simp [hr] at hi
            exact main 1 a2 cs2 rfl (by simpa using hr) hi.1

/-- `interpRest` adds at most one per child to the counter -/
theorem interpRest_count : (xs : MsList) → ∀ (n : Nat) (st st' : AStack) (n' : Nat) (cs : List Constraint),
    interpRest ke ie xs n st = .ok (st', n', cs) → n' ≤ n + xs.length
  | .nil, n, st, st', n', cs, hi => by simp [interpRest] at hi; omega
  | .cons x xs, n, st, st', n', cs, hi => by
    cases st with
    | nil => simp [interpRest] at hi
    | cons r st0 =>
      cases r with
      | push b => simp [interpRest] at hi
      | sat =>
        obtain ⟨st1, cs1, cs2, _, hrest⟩ := interpRest_cons_inv (Or.inl rfl) hi
        have := interpRest_count xs _ st1 st' n' cs2 hrest
        simp [bitOf, MsList.length] at this ⊢; omega
      | dissat =>
        obtain ⟨st1, cs1, cs2, _, hrest⟩ := interpRest_cons_inv (Or.inr rfl) hi
        have := interpRest_count xs _ st1 st' n' cs2 hrest
        simp [bitOf, MsList.length] at this ⊢; omega

/-! ### the simulation, by recursion on the AST -/

mutual
theorem sound (h : NoLimits env) (ag : Agree env ie) :
    (ms : Ms) → (ty : Ty) → typeOf ms = some ty → Sup env ke ms →
    ∀ (c : List Bytes) (a' : AStack) (cs : List Constraint), SmallA (absS c) →
      interp ke ie ms (absS c) = .ok (a', cs) →
      Post env ke ctx ms ty.corr.base ty.corr.unit c a'
  | .tru, ty, hty, _, c, a', cs, hA, hi => by
    obtain ⟨hb, hu⟩ := typeOf_tru hty; rw [hb, hu]; exact sound_tru h hi
  | .fls, ty, hty, _, c, a', cs, hA, hi => by
    obtain ⟨hb, hu⟩ := typeOf_fls hty; rw [hb, hu]; exact sound_fls h hi
  | .pkK k, ty, hty, hs, c, a', cs, hA, hi => by
    rw [typeOf_pkK hty]
    have P := sound_pkK (ctx := ctx) h ag hs hi
    cases hu : ty.corr.unit <;> simpa [Post] using P
  | .pkH k, ty, hty, _, c, a', cs, hA, hi => by
    rw [typeOf_pkH hty]
    have P := sound_pkH (ctx := ctx) h ag hi
    cases hu : ty.corr.unit <;> simpa [Post] using P
  | .rawPkH k, ty, hty, _, c, a', cs, hA, hi => by
    rw [typeOf_rawPkH hty]
    have P := sound_rawPkH (ctx := ctx) h ag hi
    cases hu : ty.corr.unit <;> simpa [Post] using P
  | .after n, ty, hty, hs, c, a', cs, hA, hi => by
    obtain ⟨hb, hu⟩ := typeOf_after hty; rw [hb, hu]; exact sound_after h ag hs hi
  | .older n, ty, hty, hs, c, a', cs, hA, hi => by
    obtain ⟨hb, hu⟩ := typeOf_older hty; rw [hb, hu]; exact sound_older h ag hs hi
  | .hash k n, ty, hty, _, c, a', cs, hA, hi => by
    obtain ⟨hb, hu⟩ := typeOf_hash hty; rw [hb, hu]; exact sound_hash h ag hi
  | .alt x, ty, hty, hs, c, a', cs, hA, hi => by
    obtain ⟨tx, htx, hbx, hb, hu⟩ := typeOf_alt hty
    have P := sound h ag x tx htx hs c a' cs hA (by simpa [interp] using hi)
    rw [hbx] at P; rw [hb, hu]; exact sound_alt h P
  | .check x, ty, hty, hs, c, a', cs, hA, hi => by
    obtain ⟨tx, htx, hbx, hb, hu⟩ := typeOf_check hty
    have P := sound h ag x tx htx hs c a' cs hA (by simpa [interp] using hi)
    rw [hbx] at P; rw [hb, hu]; exact sound_check h P
  | .verify x, ty, hty, hs, c, a', cs, hA, hi => by
    obtain ⟨tx, htx, hbx, hb⟩ := typeOf_verify hty
    cases hx : interp ke ie x (absS c) with
    | error e => simp [interp, hx] at hi
    | ok p =>
      obtain ⟨ax, csx⟩ := p
      have P := sound h ag x tx htx hs c ax csx hA hx
      rw [hbx] at P; rw [hb]
      have Q := sound_verify h hx hi P
      cases hu : ty.corr.unit <;> simpa [Post] using Q
  | .zeroNotEqual x, ty, hty, hs, c, a', cs, hA, hi => by
    obtain ⟨tx, htx, hbx, hb, hu⟩ := typeOf_zeroNotEqual hty
    cases hx : interp ke ie x (absS c) with
    | error e => simp [interp, hx] at hi
    | ok p =>
      obtain ⟨ax, csx⟩ := p
      have P := sound h ag x tx htx hs c ax csx hA hx
      rw [hbx] at P; rw [hb, hu]
      exact sound_zeroNotEqual h hx hi P
  | .andV l r, ty, hty, hs, c, a', cs, hA, hi => by
    obtain ⟨tl, tr, htl, htr, hbl, hb, hnw, hu⟩ := typeOf_andV hty
    cases hl : interp ke ie l (absS c) with
    | error e => simp [interp, hl] at hi
    | ok p =>
      obtain ⟨a1, cs1⟩ := p
      have Pl := sound h ag l tl htl hs.1 c a1 cs1 hA hl
      rw [hbl] at Pl; rw [hb, hu]
      refine sound_andV hnw Pl (fun c1 ha1 => ?_)
      subst ha1
      have hA1 : SmallA (absS c1) := hA.interp hl
      cases hr : interp ke ie r (absS c1) with
      | error e => simp [interp, hl, hr] at hi
      | ok q =>
        obtain ⟨a2, cs2⟩ := q
        simp [interp, hl, hr] at hi
        rw [← hi.1]
        exact sound h ag r tr htr hs.2 c1 a2 cs2 hA1 hr
  | .andB l r, ty, hty, hs, c, a', cs, hA, hi => by
    obtain ⟨tl, tr, htl, htr, hbl, hbr, hb, hu⟩ := typeOf_andB hty
    cases hl : interp ke ie l (absS c) with
    | error e => simp [interp, hl] at hi
    | ok p =>
      obtain ⟨a1, cs1⟩ := p
      have Pl := sound h ag l tl htl hs.1 c a1 cs1 hA hl
      rw [hbl] at Pl; rw [hb, hu]
      exact sound_andB h hl hi Pl hA (fun c1 a2 cs2 hA1 hr => by
        have := sound h ag r tr htr hs.2 c1 a2 cs2 hA1 hr; rwa [hbr] at this)
  | .orB l r, ty, hty, hs, c, a', cs, hA, hi => by
    obtain ⟨tl, tr, htl, htr, hbl, hbr, hb, hu⟩ := typeOf_orB hty
    cases hl : interp ke ie l (absS c) with
    | error e => simp [interp, hl] at hi
    | ok p =>
      obtain ⟨a1, cs1⟩ := p
      have Pl := sound h ag l tl htl hs.1 c a1 cs1 hA hl
      rw [hbl] at Pl; rw [hb, hu]
      exact sound_orB h hl hi Pl hA (fun c1 a2 cs2 hA1 hr => by
        have := sound h ag r tr htr hs.2 c1 a2 cs2 hA1 hr; rwa [hbr] at this)
  | .orD l r, ty, hty, hs, c, a', cs, hA, hi => by
    obtain ⟨tl, tr, htl, htr, hbl, hul, hbr, hb, hu⟩ := typeOf_orD hty
    cases hl : interp ke ie l (absS c) with
    | error e => simp [interp, hl] at hi
    | ok p =>
      obtain ⟨a1, cs1⟩ := p
      have Pl := sound h ag l tl htl hs.1 c a1 cs1 hA hl
      rw [hbl, hul] at Pl; rw [hb, hu]
      exact sound_orD h hl hi Pl hA (fun c1 a2 cs2 hA1 hr => by
        have := sound h ag r tr htr hs.2 c1 a2 cs2 hA1 hr; rwa [hbr] at this)
  | .orC l r, ty, hty, hs, c, a', cs, hA, hi => by
    obtain ⟨tl, tr, htl, htr, hbl, hul, hbr, hb⟩ := typeOf_orC hty
    cases hl : interp ke ie l (absS c) with
    | error e => simp [interp, hl] at hi
    | ok p =>
      obtain ⟨a1, cs1⟩ := p
      have Pl := sound h ag l tl htl hs.1 c a1 cs1 hA hl
      rw [hbl, hul] at Pl; rw [hb]
      have Q := sound_orC (u := tr.corr.unit) h hl hi Pl hA (fun c1 a2 cs2 hA1 hr => by
        have := sound h ag r tr htr hs.2 c1 a2 cs2 hA1 hr; rwa [hbr] at this)
      cases hu : ty.corr.unit <;> simpa [Post] using Q
  | .orI l r, ty, hty, hs, c, a', cs, hA, hi => by
    obtain ⟨tl, tr, htl, htr, hbl, hbr, hnw, hu⟩ := typeOf_orI hty
    exact sound_orI h hnw hi hA
      (fun c1 a2 cs2 hA1 hl => by
        have := sound h ag l tl htl hs.1 c1 a2 cs2 hA1 hl
        rw [hbl] at this; exact this.mono (fun x => (hu x).1))
      (fun c1 a2 cs2 hA1 hr => by
        have := sound h ag r tr htr hs.2 c1 a2 cs2 hA1 hr
        rw [hbr] at this; exact this.mono (fun x => (hu x).2))
  | .andOr x y z, ty, hty, hs, c, a', cs, hA, hi => by
    obtain ⟨tx, ty', tz, htx, hty', htz, hbx, hux, hby, hbz, hnw, hu⟩ := typeOf_andOr hty
    cases hx : interp ke ie x (absS c) with
    | error e => simp [interp, hx] at hi
    | ok p =>
      obtain ⟨a1, cs1⟩ := p
      have Px := sound h ag x tx htx hs.1 c a1 cs1 hA hx
      rw [hbx, hux] at Px
      exact sound_andOr h hnw hx hi Px hA
        (fun c1 a2 cs2 hA1 hy => by
          have := sound h ag y ty' hty' hs.2.1 c1 a2 cs2 hA1 hy
          rw [hby] at this; exact this.mono (fun q => (hu q).1))
        (fun c1 a2 cs2 hA1 hz => by
          have := sound h ag z tz htz hs.2.2 c1 a2 cs2 hA1 hz
          rw [hbz] at this; exact this.mono (fun q => (hu q).2))
  | .swap x, ty, hty, hs, c, a', cs, hA, hi => by
    obtain ⟨tx, htx, hbx, hin, hb, hu⟩ := typeOf_swap hty
    have P := sound h ag x tx htx hs.1 c a' cs hA (by simpa [interp] using hi)
    rw [hbx] at P; rw [hb, hu]
    have hc := TypeSound.args_cons (env := env) h.st ke ctx x hs.2 tx 1 htx
      (by rcases hin with e | e <;> rw [e] <;> rfl)
    rw [hbx] at hc
    exact sound_swap h hc P
  | .dupIf x, ty, hty, hs, c, a', cs, hA, hi => by
    obtain ⟨tx, htx, hbx, hin, hb, hu⟩ := typeOf_dupIf hty
    have hc := TypeSound.args_cons (env := env) h.st ke ctx x hs.2 tx 0 htx (by rw [hin]; rfl)
    rw [hbx] at hc
    rw [hb, hu]
    exact sound_dupIf h hc hi hA (fun c1 a2 cs2 hA1 hx => by
      have := sound h ag x tx htx hs.1 c1 a2 cs2 hA1 hx
      rw [hbx] at this
      cases hux : tx.corr.unit <;> simpa [Post, hux] using this)
  | .nonZero x, ty, hty, hs, c, a', cs, hA, hi => by
    obtain ⟨tx, htx, hbx, hb, hu⟩ := typeOf_nonZero hty
    rw [hb, hu]
    exact sound_nonZero h hi hA (fun hx => by
      have := sound h ag x tx htx hs c a' cs hA hx
      rwa [hbx] at this)
  | .thresh k xs, ty, hty, hs, c, a', cs, hA, hi => by
    obtain ⟨ts, n, hts, hloop, hb, hu⟩ := typeOf_thresh hty
    rw [hb, hu]
    obtain ⟨hk1, hk, hlen, hsl⟩ := hs
    cases xs with
    | nil => simp [interp] at hi
    | cons x xs' =>
      obtain ⟨t, ts', htx, hts', hcons⟩ := typesOf_cons hts
      subst hcons
      simp only [List.map_cons] at hloop
      obtain ⟨hB, _, hunit, hloop'⟩ := threshLoop_cons hloop
      simp only [interp] at hi
      cases hx : interp ke ie x (absS c) with
      | error er => simp [hx] at hi
      | ok p =>
        obtain ⟨st1, cs1⟩ := p
        have P1 := sound h ag x t htx hsl.1 c st1 cs1 hA hx
        rw [hB rfl, hunit] at P1
        obtain ⟨r1, c1, hst1, F1⟩ := P1
        subst hst1
        have hr1b : r1 = .sat ∨ r1 = .dissat := by obtain ⟨_, _, _, hr⟩ := F1 [] [] 0; exact hr.bool
        cases hrest : interpRest ke ie xs' 0 (r1 :: absS c1) with
        | error er => simp [hx, hrest] at hi
        | ok q =>
          obtain ⟨st2, nS', cs2⟩ := q
          obtain ⟨rL, cL, hst2, hrLb, G⟩ := soundRest h ag xs' ts' hts' 1 _ n (by omega) hloop' hsl.2
            c1 r1 0 st2 nS' cs2 hr1b ((hA.interp hx).tail) hrest
          subst hst2
          simp only [hx, hrest] at hi
          have hfin : (if nS' + bitOf rL = k then Elem.sat else Elem.dissat) :: absS cL = a' := by
            rcases hrLb with e | e <;> subst e <;> simp [bitOf] at hi ⊢
            · rw [← hi.1]
              by_cases hh : nS' = k - 1
              · have : nS' + 1 = k := by omega
                simp only [if_pos hh, if_pos this]
              · have : ¬ (nS' + 1 = k) := by omega
                simp only [if_neg hh, if_neg this]
            · rw [← hi.1]
          refine ⟨_, cL, hfin.symm, fun rest alt ops => ?_⟩
          obtain ⟨v1, o1, hf1, hres1⟩ := F1 rest alt ops
          have hv1 := hres1.enc
          have hlen' : xs'.length + 1 < 2 ^ 31 := by simpa [MsList.length] using hlen
          have hb1 := bitOf_le r1
          obtain ⟨o2, hf2⟩ := G rest alt o1 (by omega)
          have hbL := bitOf_le rL
          have hmT : nS' + bitOf rL < 2 ^ 31 := by
            -- the sum never exceeds the number of children
            have := interpRest_count (ke := ke) (ie := ie) xs' 0 (r1 :: absS c1) (rL :: absS cL) nS' cs2 hrest
            omega
          refine ⟨boolBytes (decide (nS' + bitOf rL = k)), o2 + 1, ?_, ?_⟩
          · rw [hv1] at hf1
            simp only [Nat.zero_add] at hf2
            simp only [frag, fragThresh, hf1, bindOk, hf2]
            simpa using thresh_tail h hk hmT (cL ++ rest) alt o2
          · have := Res.ofBool env true (decide (nS' + bitOf rL = k))
            simpa using this
  | .multi k ks, ty, hty, hs, c, a', cs, hA, hi => by
    obtain ⟨hb, hu⟩ := typeOf_multi hty; rw [hb, hu]; exact sound_multi h ag hs hi
  | .sortedMulti _ _, _, _, hs, _, _, _, _, _ => hs.elim
  | .multiA k ks, ty, hty, hs, c, a', cs, hA, hi => by
    obtain ⟨hb, hu⟩ := typeOf_multiA hty; rw [hb, hu]; exact sound_multiA h ag hs hi
  | .sortedMultiA _ _, _, _, hs, _, _, _, _, _ => hs.elim
/-- children 2…n of `thresh`: each runs as a `W` fragment on the accumulated sum and is added -/
theorem soundRest (h : NoLimits env) (ag : Agree env ie) :
    (xs : MsList) → (ts : List Ty) → typesOf xs = some ts →
    ∀ (i acc n : Nat), i ≠ 0 → Corr.threshLoop i acc (ts.map (·.corr)) = some n → SupList env ke xs →
    ∀ (cPrev : List Bytes) (rPrev : Elem) (nS : Nat) (st' : AStack) (nS' : Nat) (cs : List Constraint),
      (rPrev = .sat ∨ rPrev = .dissat) → SmallA (absS cPrev) →
      interpRest ke ie xs nS (rPrev :: absS cPrev) = .ok (st', nS', cs) →
      ∃ rL cL, st' = rL :: absS cL ∧ (rL = .sat ∨ rL = .dissat) ∧
        ∀ rest alt ops, nS + bitOf rPrev + xs.length < 2 ^ 31 →
          ∃ ops', fragThresh env ke ctx false xs
              ⟨numEncode ((nS + bitOf rPrev : Nat) : Int) :: (cPrev ++ rest), alt, ops⟩
            = .ok ⟨numEncode ((nS' + bitOf rL : Nat) : Int) :: (cL ++ rest), alt, ops'⟩
  | .nil, ts, _, i, acc, n, _, _, _, cPrev, rPrev, nS, st', nS', cs, hrp, hA, hi => by
    simp [interpRest] at hi
    obtain ⟨e1, e2, _⟩ := hi
    subst e1; subst e2
    exact ⟨rPrev, cPrev, rfl, hrp, fun rest alt ops _ => ⟨ops, by simp [fragThresh]⟩⟩
  | .cons x xs, ts, hts, i, acc, n, hi0, hloop, hsl, cPrev, rPrev, nS, st', nS', cs, hrp, hA, hi => by
    obtain ⟨t, ts', htx, hts', hcons⟩ := typesOf_cons hts
    subst hcons
    simp only [List.map_cons] at hloop
    obtain ⟨_, hW, hunit, hloop'⟩ := threshLoop_cons hloop
    obtain ⟨st1, cs1, cs2, hx, hrest⟩ := interpRest_cons_inv hrp hi
    have P1 := sound h ag x t htx hsl.1 cPrev st1 cs1 hA hx
    have hA1 := hA.interp hx
    rw [hW hi0, hunit] at P1
    obtain ⟨r1, c1, hst1, F1⟩ := P1
    subst hst1
    have hr1b : r1 = .sat ∨ r1 = .dissat := by obtain ⟨_, _, _, hr⟩ := F1 [] [] [] 0; exact hr.bool
    obtain ⟨rL, cL, hst', hrLb, G⟩ := soundRest h ag xs ts' hts' (i + 1) _ n (by omega) hloop' hsl.2
      c1 r1 (nS + bitOf rPrev) st' nS' cs2 hr1b hA1.tail hrest
    refine ⟨rL, cL, hst', hrLb, fun rest alt ops hbound => ?_⟩
    have hlen : (MsList.cons x xs).length = xs.length + 1 := by simp [MsList.length]
    rw [hlen] at hbound
    have hb1 := bitOf_le r1
    obtain ⟨v, o1, hf1, hres1⟩ := F1 (numEncode ((nS + bitOf rPrev : Nat) : Int)) rest alt ops
    have hv := hres1.enc
    subst hv
    obtain ⟨o2, hf2⟩ := G rest alt (o1 + 1) (by omega)
    refine ⟨o2, ?_⟩
    rcases hf1 with hf1 | hf1
    · have hadd := add_exec h (a := nS + bitOf rPrev) (b := bitOf r1) (by omega) (by omega) (c1 ++ rest) alt o1
      have e : bitOf r1 + (nS + bitOf rPrev) = nS + bitOf rPrev + bitOf r1 := by omega
      rw [e] at hadd
      simp only [fragThresh, hf1, bindOk, hadd]
      simpa using hf2
    · have hadd := add_exec h (a := bitOf r1) (b := nS + bitOf rPrev) (by omega) (by omega) (c1 ++ rest) alt o1
      simp only [fragThresh, hf1, bindOk, hadd]
      simpa using hf2
end


end MsVerif.InterpSound
